module verif/srcmodel_editions

go 1.23
