module verif/srcmodel_delimconst

go 1.23
