module srcmodel

go 1.23
