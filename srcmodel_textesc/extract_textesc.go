package main

import (
	"fmt"
	"os"
	"path/filepath"
	"strings"
)

// textescWanted lists the functions of internal/encoding/text/encode.go that
// are translated (Coq name without the "go_" prefix); every other function of
// the file is left out of the generated file.  When one of them is no longer
// translatable the extractor still writes its output (the function becomes a
// value of type Unsupported, so the proofs about it fail) and exits with
// status 3.
var textescWanted = []string{"indexNeedEscapeInString", "appendString"}

// extractTextEsc generates Gen/TextEscGo.v from internal/encoding/text/encode.go.
//
// The standard-library functions the two functions call (utf8.DecodeRuneInString,
// strconv.AppendUint, bits.Len32) are NOT translated: the generated file refers
// to them as utf8_DecodeRuneInString, strconv_AppendUint, bits_Len32, which are
// hand-written models in coq/theories/Text/TextEscGoSup.v (trusted, tied to the
// library by the differential run).
func extractTextEsc(repo string) error {
	rel := "internal/encoding/text/encode.go"
	target := "TextEscGo.v"
	u, err := TranslateFile(filepath.Join(repo, filepath.FromSlash(rel)))
	if err != nil {
		return err
	}
	for _, n := range u.Notes {
		fmt.Fprintf(os.Stderr, "srcmodel: note: %s\n", n)
	}
	want := map[string]bool{}
	for _, n := range textescWanted {
		want[n] = true
	}
	// Keep the wanted functions and, transitively, the functions of the file
	// they call (u.Funcs is in callee-first order, so one backward pass finds
	// them); a callee that is not translatable has already made its caller
	// Unsupported.
	keepSet := map[*FuncDef]bool{}
	byName := map[string]*FuncDef{}
	for i := len(u.Funcs) - 1; i >= 0; i-- {
		f := u.Funcs[i]
		if want[f.Name] {
			keepSet[f] = true
			byName[f.Name] = f
			if f.Unsupported != "" {
				fmt.Fprintf(os.Stderr, "srcmodel: %s: %s is unsupported: %s\n", rel, f.CoqName, f.Unsupported)
			}
			continue
		}
		for g := range keepSet {
			if mentions(g.Body, f.CoqName) || mentions(g.Pre, f.CoqName) {
				keepSet[f] = true
				break
			}
		}
	}
	var keep []*FuncDef
	for _, f := range u.Funcs {
		if keepSet[f] {
			keep = append(keep, f)
		}
	}
	u.Funcs = keep
	u.Consts = nil
	u.ExtraImports = []string{"From PB Require Import Text.TextEscGoSup."}
	var missing []string
	for _, n := range textescWanted {
		f := byName[n]
		if f == nil {
			// keep the proofs failing: the name exists, with the wrong type
			fmt.Fprintf(os.Stderr, "srcmodel: %s: expected function %s not found\n", rel, n)
			u.Funcs = append(u.Funcs, &FuncDef{Name: n, CoqName: "go_" + n, Unsupported: "function " + n + " not found in " + rel})
			missing = append(missing, n)
		} else if f.Unsupported != "" {
			missing = append(missing, n)
		}
	}
	if err := writeGenerated(target, u.Render(rel)); err != nil {
		return err
	}
	if len(missing) > 0 {
		return fmt.Errorf("%w: %s", errIncomplete, strings.Join(missing, " "))
	}
	return nil
}

// mentions reports whether the Gallina text contains name as a whole identifier.
func mentions(text, name string) bool {
	for i := 0; ; {
		j := strings.Index(text[i:], name)
		if j < 0 {
			return false
		}
		j += i
		end := j + len(name)
		isId := func(c byte) bool {
			return c == '_' || c == '\'' || c >= '0' && c <= '9' || c >= 'a' && c <= 'z' || c >= 'A' && c <= 'Z'
		}
		if (j == 0 || !isId(text[j-1])) && (end == len(text) || !isId(text[end])) {
			return true
		}
		i = end
	}
}
