package main

// Nil tracking.
//
// The translator models a byte slice as the list of its elements, which does
// not distinguish a nil slice from an empty one.  A function that compares a
// slice variable with nil gets, for that variable and for every variable its
// nil-ness is derived from, a boolean companion <name>_nil:
//
//   - a tracked parameter b adds the parameter b_nil (the caller says whether
//     b is nil; a well-formed argument satisfies b_nil = true -> b = []);
//   - a tracked named result / `var x []byte` starts with x_nil = true;
//   - x = e re-binds x_nil to the nil-ness of e, given by these rules (each is
//     exact Go semantics):
//       nil                      true
//       y (tracked)              y_nil
//       y[i:j], y[i:j:k]         nil-ness of y  (a slice of a non-nil slice is non-nil, of a nil slice nil)
//       append(y)                nil-ness of y
//       append(y, z...)          nil-ness of y && len z = 0
//       append(y, c1, ...)       false
//       protowire.AppendX(y, …)  nil-ness of y && len (result) = 0
//         [ASSUMPTION N2: a protowire function whose name starts with "Append"
//          returns append(y, ...) of its first argument, as all of them do]
//   - v, n := protowire.ConsumeBytes(y) / ConsumeString(y) with v tracked:
//       v_nil = if n < 0 then true else nil-ness of y
//         [ASSUMPTION N1: on failure these return a nil slice, on success a
//          sub-slice of their argument; this is what wire.go does]
//   - any other source of a tracked variable makes the function Unsupported.
//
// Results of slice type are returned as their contents only (the caller of
// the generated function cannot observe nil versus empty).

import (
	"fmt"
	"go/ast"
	"go/token"
	"go/types"
	"strings"
)

func (t *fnTr) isNilIdent(e ast.Expr) bool {
	id, ok := unparen(e).(*ast.Ident)
	if !ok {
		return false
	}
	_, isNil := t.u.info.Uses[id].(*types.Nil)
	return isNil
}

// localVar resolves an identifier expression to a local variable of the function.
func (t *fnTr) localVar(e ast.Expr) *types.Var {
	id, ok := unparen(e).(*ast.Ident)
	if !ok || id.Name == "_" {
		return nil
	}
	obj := t.u.info.Defs[id]
	if obj == nil {
		obj = t.u.info.Uses[id]
	}
	v, ok := obj.(*types.Var)
	if !ok {
		return nil
	}
	if _, local := t.names[v]; !local {
		return nil
	}
	return v
}

func (t *fnTr) isNilTracked(e ast.Expr) bool {
	v := t.localVar(e)
	return v != nil && t.nilTracked[v]
}

// protowireCall recognises pkg.F(args) for a package with a generated translation.
func (t *fnTr) externName(e *ast.CallExpr) (string, bool) {
	f, ok := unparen(e.Fun).(*ast.SelectorExpr)
	if !ok {
		return "", false
	}
	id, ok := f.X.(*ast.Ident)
	if !ok {
		return "", false
	}
	pn, ok := t.u.info.Uses[id].(*types.PkgName)
	if !ok || t.u.extern[pn.Imported().Path()] == nil {
		return "", false
	}
	return f.Sel.Name, true
}

// nilRoot is the variable whose nil-ness decides (part of) the nil-ness of e.
func (t *fnTr) nilRoot(e ast.Expr) *types.Var {
	switch x := unparen(e).(type) {
	case *ast.Ident:
		return t.localVar(x)
	case *ast.SliceExpr:
		return t.nilRoot(x.X)
	case *ast.CallExpr:
		if id, ok := unparen(x.Fun).(*ast.Ident); ok && isBuiltin(t.u.info.Uses[id], "append") && len(x.Args) > 0 {
			return t.nilRoot(x.Args[0])
		}
		if name, ok := t.externName(x); ok && strings.HasPrefix(name, "Append") && len(x.Args) > 0 {
			return t.nilRoot(x.Args[0])
		}
	}
	return nil
}

func isConsumeSlice(name string) bool { return name == "ConsumeBytes" || name == "ConsumeString" }

func (t *fnTr) computeNilTracked() {
	t.nilTracked = map[*types.Var]bool{}
	body := t.fi.decl.Body
	add := func(v *types.Var) bool {
		if v == nil || t.nilTracked[v] || !isBytes(v.Type()) {
			return false
		}
		if _, isSlice := v.Type().Underlying().(*types.Slice); !isSlice {
			return false
		}
		t.nilTracked[v] = true
		return true
	}
	ast.Inspect(body, func(n ast.Node) bool {
		if be, ok := n.(*ast.BinaryExpr); ok && (be.Op == token.EQL || be.Op == token.NEQ) {
			if t.isNilIdent(be.Y) {
				add(t.localVar(be.X))
			} else if t.isNilIdent(be.X) {
				add(t.localVar(be.Y))
			}
		}
		return true
	})
	if len(t.nilTracked) == 0 {
		return
	}
	for changed := true; changed; {
		changed = false
		ast.Inspect(body, func(n ast.Node) bool {
			switch n := n.(type) {
			case *ast.AssignStmt:
				if len(n.Lhs) == 1 && len(n.Rhs) == 1 {
					if t.isNilTracked(n.Lhs[0]) && add(t.nilRoot(n.Rhs[0])) {
						changed = true
					}
				} else if len(n.Rhs) == 1 && len(n.Lhs) > 0 && t.isNilTracked(n.Lhs[0]) {
					if call, ok := unparen(n.Rhs[0]).(*ast.CallExpr); ok {
						if name, ok := t.externName(call); ok && isConsumeSlice(name) && len(call.Args) == 1 {
							if add(t.nilRoot(call.Args[0])) {
								changed = true
							}
						}
					}
				}
			case *ast.ValueSpec:
				if len(n.Names) == len(n.Values) {
					for i, id := range n.Names {
						if t.isNilTracked(id) && add(t.nilRoot(n.Values[i])) {
							changed = true
						}
					}
				}
			}
			return true
		})
	}
}

// nilExpr is the boolean term "e is nil".
func (t *fnTr) nilExpr(e ast.Expr) string {
	switch x := unparen(e).(type) {
	case *ast.Ident:
		if t.isNilIdent(x) {
			return "true"
		}
		if v := t.localVar(x); v != nil && t.nilTracked[v] {
			return t.names[v] + "_nil"
		}
	case *ast.SliceExpr:
		return t.nilExpr(x.X)
	case *ast.CallExpr:
		if id, ok := unparen(x.Fun).(*ast.Ident); ok && isBuiltin(t.u.info.Uses[id], "append") && len(x.Args) > 0 {
			switch {
			case len(x.Args) == 1:
				return t.nilExpr(x.Args[0])
			case x.Ellipsis.IsValid() && len(x.Args) == 2:
				return "(" + t.nilExpr(x.Args[0]) + " && ((len " + t.expr(x.Args[1]) + ") =? 0))"
			case !x.Ellipsis.IsValid():
				return "false"
			}
		}
		if name, ok := t.externName(x); ok && strings.HasPrefix(name, "Append") && len(x.Args) > 0 {
			return "(" + t.nilExpr(x.Args[0]) + " && ((len " + t.expr(x) + ") =? 0))"
		}
	}
	return t.fail(e, "nil-ness of %s is not determined by the translator's rules", describe(e))
}

// companionLet is the let that re-binds the companion of lhs for "lhs = rhs"
// ("" when lhs is not tracked).
func (t *fnTr) companionLet(lhs, rhs ast.Expr, ind string) string {
	v := t.localVar(lhs)
	if v == nil || !t.nilTracked[v] {
		return ""
	}
	return fmt.Sprintf("%slet %s_nil := %s in\n", ind, t.names[v], t.nilExpr(rhs))
}

// companionMulti handles "v, n := pkg.ConsumeBytes(y)": pre is emitted before
// the call is bound (it snapshots the nil-ness of y), post after it.
func (t *fnTr) companionMulti(s *ast.AssignStmt, call *ast.CallExpr, pats []string, ind string) (pre, post string) {
	for i, l := range s.Lhs {
		if !t.isNilTracked(l) {
			continue
		}
		name, ok := t.externName(call)
		if i != 0 || !ok || !isConsumeSlice(name) || len(call.Args) != 1 || len(pats) != 2 || pats[1] == "_" {
			t.fail(s, "nil-ness of a result of this call is not determined by the translator's rules")
			return "", ""
		}
		tmp := t.fresh()
		pre = fmt.Sprintf("%slet %s := %s in\n", ind, tmp, t.nilExpr(call.Args[0]))
		post = fmt.Sprintf("%slet %s_nil := (if (%s <? 0) then true else %s) in\n", ind, pats[0], pats[1], tmp)
	}
	return pre, post
}
