package main

// Extractor "mset": internal/encoding/messageset/messageset.go -> Gen/MsetGo.v.
//
// Extensions of the copied translator (funcbody.go/translate.go) used here:
//   - calls of encoding/protowire functions become calls of the functions that
//     the `wire` extractor generates into Gen/WireGo.v (go_ConsumeTag, ...).
//     wire.go is translated here as well, only to learn which of them are
//     outcome-typed and to serve its type-checked package for the import;
//   - three-index slice expressions (checked: slice3 of Msg/MsetGoRt.v);
//   - values of type error built by protowire.ParseError(n) (the generated
//     go_ParseError) and errors.New("text") (GoErr "errors.New:text");
//   - comparisons of a byte-slice variable with nil: see "nil tracking" in
//     funcbody.go.

import (
	"fmt"
	"go/types"
	"os"
	"path/filepath"
	"strings"
)

const protowirePath = "google.golang.org/protobuf/encoding/protowire"

var msetExpected = []string{
	"SizeField", "ConsumeFieldValue", "AppendFieldStart", "AppendFieldEnd", "SizeUnknown", "AppendUnknown",
}

func extractMset(repo string) error {
	w, err := TranslateFile(filepath.Join(repo, "encoding", "protowire", "wire.go"), &Options{PkgPath: protowirePath})
	if err != nil {
		return err
	}
	ext := map[string]*FuncDef{}
	for _, f := range w.Funcs {
		ext[f.Name] = f
	}
	opts := &Options{
		Preloaded:  map[string]*types.Package{protowirePath: w.Pkg},
		Extern:     map[string]map[string]*FuncDef{protowirePath: ext},
		ExternQual: map[string]string{protowirePath: "WireGo."},
		Requires:   []string{"Gen.WireGo", "Msg.MsetGoRt"},
	}
	rel := "internal/encoding/messageset/messageset.go"
	u, err := TranslateFile(filepath.Join(repo, filepath.FromSlash(rel)), opts)
	if err != nil {
		return err
	}
	for _, n := range u.Notes {
		fmt.Fprintf(os.Stderr, "srcmodel: note: %s\n", n)
	}
	if err := writeGenerated("MsetGo.v", u.Render(rel)); err != nil {
		return err
	}
	byName := map[string]*FuncDef{}
	for _, f := range u.Funcs {
		byName[f.Name] = f
		if f.Unsupported != "" {
			fmt.Fprintf(os.Stderr, "srcmodel: %s: %s is unsupported: %s\n", rel, f.CoqName, f.Unsupported)
		}
	}
	var missing []string
	for _, n := range msetExpected {
		if f := byName[n]; f == nil || f.Unsupported != "" {
			missing = append(missing, n)
		}
	}
	if len(missing) > 0 {
		return fmt.Errorf("%w: %s", errIncomplete, strings.Join(missing, " "))
	}
	return nil
}
