// Command srcmodel_ranges derives coq/theories/Gen/RangesGo.v from the range lists of
// internal/filedesc/desc_list.go of the repository under verification (Tier T for C36).
//
// Usage: srcmodel_ranges ranges <repo>
//
// The translator (translate.go, funcbody.go) is a copy of /verif/srcmodel's, extended with
// pairs ([2]N arrays) and lists of pairs ([][2]N), `for init; cond; {}` loops and `range`
// loops over slices; extract_ranges.go is a source-to-source front end that turns the
// pointer-receiver methods into first-order functions of the sorted slice.
//
// Exit status: 0 ok; 3 files written but an expected function is unsupported;
// 2 usage; 1 internal error.
package main

import (
	"errors"
	"fmt"
	"os"
	"path/filepath"
)

var errIncomplete = errors.New("expected-translatable function is unsupported")

func main() {
	if len(os.Args) != 3 || os.Args[1] != "ranges" {
		fmt.Fprintln(os.Stderr, "usage: srcmodel_ranges ranges <repo>")
		os.Exit(2)
	}
	repo, err := filepath.Abs(os.Args[2])
	if err != nil {
		fmt.Fprintf(os.Stderr, "srcmodel_ranges: %v\n", err)
		os.Exit(1)
	}
	switch err := extractRanges(repo); {
	case err == nil:
	case errors.Is(err, errIncomplete):
		fmt.Fprintf(os.Stderr, "srcmodel_ranges: %v\n", err)
		os.Exit(3)
	default:
		fmt.Fprintf(os.Stderr, "srcmodel_ranges: %v\n", err)
		os.Exit(1)
	}
}

func writeGenerated(base, content string) error {
	dir, err := os.MkdirTemp("", "srcmodel-ranges-")
	if err != nil {
		return err
	}
	path := filepath.Join(dir, base)
	if err := os.WriteFile(path, []byte(content), 0o644); err != nil {
		return err
	}
	fmt.Printf("WRITE %s\n", path)
	return nil
}
