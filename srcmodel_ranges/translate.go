package main

// Translator from a loop-free, first-order subset of Go to Gallina.
//
// File level (this file): parsing and type checking, constants, the call
// graph, the callee-first order of the output, fail-closed propagation of
// "unsupported", rendering.  The translation of one function body is in
// funcbody.go.
//
// Model (see coq/theories/Base/GoInt.v): every Go integer is a Z in the range
// of its Go type and every operation that can leave the range is followed by
// the wrap_* of the static type of the expression; []byte and string are
// list Z; operations that can panic yield an outcome and are sequenced with
// bind.  Slices are modelled as values: capacity, the nil/empty distinction
// and aliasing of backing arrays (an append that writes into spare capacity
// shared with another live slice) are NOT modelled; comparisons of slices
// with nil are rejected, aliasing is a precondition on callers.
//
// Anything outside the subset makes the whole function (and, transitively,
// every caller) a value of type Unsupported, so that Coq statements about it
// do not type-check.

import (
	"fmt"
	"go/ast"
	"go/constant"
	"go/importer"
	"go/parser"
	"go/token"
	"go/types"
	"os"
	"path"
	"path/filepath"
	"strings"
)

// ConstDef is one integer constant of the translated file.
type ConstDef struct {
	Name  string // Go name
	Value string // Coq literal (negative values parenthesised)
}

// FuncDef is the translation of one top-level function or method.
type FuncDef struct {
	Name        string // Go name; methods are Recv_Name
	CoqName     string // go_<Name>
	Params      string // "(v_b : list Z) (v_v : Z)", possibly empty
	Result      string // Coq result type, e.g. "outcome (Z * Z)"
	Body        string // Gallina term, indented by two spaces
	MayPanic    bool   // result is wrapped in outcome
	Unsupported string // non-empty: reason why the function is not translated
	Pre         string // complete auxiliary definition emitted first (go_X_rec of a recursive function)
	Line        int    // line of the declaration in the source file
}

// Unit is the translation of one Go source file.
type Unit struct {
	Consts []ConstDef
	Funcs  []*FuncDef // callee first
	Notes  []string   // diagnostics that do not influence the output
}

// fnInfo is the translator's view of one function declaration.
type fnInfo struct {
	decl      *ast.FuncDecl
	obj       *types.Func
	name      string
	callees   []*fnInfo // functions of the file referenced by the body, in source order
	recursive bool      // the function can reach itself in the call graph
	mutual    bool      // ... through another function
	def       *FuncDef
}

// unit carries the per-file state shared by the function translators.
type unit struct {
	fset  *token.FileSet
	info  *types.Info
	pkg   *types.Package
	base  string // base name of the source file, for positions
	funcs map[*types.Func]*fnInfo
}

// pos renders a source position as "<file base name>:<line>".
func (u *unit) pos(p token.Pos) string {
	if !p.IsValid() {
		return u.base
	}
	return fmt.Sprintf("%s:%d", u.base, u.fset.Position(p).Line)
}

// sourceImports lists the imports resolved by the source importer.
var sourceImports = map[string]bool{"math": true, "math/bits": true}

// fallbackImporter resolves imports from source and replaces every import it
// cannot resolve by an empty package, so that type checking never aborts.
type fallbackImporter struct {
	inner types.ImporterFrom
	fake  map[string]*types.Package
	notes *[]string
}

func (f *fallbackImporter) Import(p string) (*types.Package, error) {
	return f.ImportFrom(p, ".", 0)
}

func (f *fallbackImporter) ImportFrom(p, dir string, mode types.ImportMode) (pkg *types.Package, err error) {
	if fp, ok := f.fake[p]; ok {
		return fp, nil
	}
	// Only packages whose constants or functions carry meaning for the
	// translation are type-checked from source (each costs parsing its whole
	// import closure); everything else (io, errors, module-internal packages)
	// is used syntactically at most (error variables) and gets an empty package.
	if !sourceImports[p] {
		fp := types.NewPackage(p, path.Base(p))
		fp.MarkComplete()
		f.fake[p] = fp
		return fp, nil
	}
	func() {
		defer func() {
			if r := recover(); r != nil {
				pkg, err = nil, fmt.Errorf("importer panic: %v", r)
			}
		}()
		pkg, err = f.inner.ImportFrom(p, dir, mode)
	}()
	if err == nil && pkg != nil {
		return pkg, nil
	}
	*f.notes = append(*f.notes, fmt.Sprintf("import %q not resolved, using an empty package", p))
	fp := types.NewPackage(p, path.Base(p))
	fp.MarkComplete()
	f.fake[p] = fp
	return fp, nil
}

// TranslateFile translates the constants and functions of one Go file.  The
// file is type-checked on its own (other files of its package are not read);
// identifiers that do not resolve make the functions using them unsupported.
func TranslateFile(file string) (*Unit, error) {
	dir, base := filepath.Split(file)
	if dir == "" {
		dir = "."
	}
	// The source importer resolves module-local imports relative to the
	// current directory.
	if old, err := os.Getwd(); err == nil {
		defer os.Chdir(old)
	}
	if err := os.Chdir(dir); err != nil {
		return nil, err
	}
	fset := token.NewFileSet()
	f, err := parser.ParseFile(fset, base, nil, parser.SkipObjectResolution)
	if err != nil {
		return nil, err
	}
	out := &Unit{}
	info := &types.Info{
		Types:      map[ast.Expr]types.TypeAndValue{},
		Defs:       map[*ast.Ident]types.Object{},
		Uses:       map[*ast.Ident]types.Object{},
		Selections: map[*ast.SelectorExpr]*types.Selection{},
	}
	imp := &fallbackImporter{fake: map[string]*types.Package{}, notes: &out.Notes}
	if inner, ok := importer.ForCompiler(fset, "source", nil).(types.ImporterFrom); ok {
		imp.inner = inner
	} else {
		return nil, fmt.Errorf("source importer unavailable")
	}
	nerr := 0
	conf := types.Config{
		Importer: imp,
		Error:    func(error) { nerr++ }, // errors are tolerated: what does not resolve is rejected later
	}
	pkg, _ := conf.Check(f.Name.Name, fset, []*ast.File{f}, info)
	if pkg == nil {
		return nil, fmt.Errorf("type checking %s produced no package", base)
	}
	if nerr > 0 {
		out.Notes = append(out.Notes, fmt.Sprintf("%d type-check error(s) in %s ignored", nerr, base))
	}
	u := &unit{fset: fset, info: info, pkg: pkg, base: base, funcs: map[*types.Func]*fnInfo{}}

	// Constants.
	for _, d := range f.Decls {
		gd, ok := d.(*ast.GenDecl)
		if !ok || gd.Tok != token.CONST {
			continue
		}
		for _, s := range gd.Specs {
			for _, n := range s.(*ast.ValueSpec).Names {
				c, ok := info.Defs[n].(*types.Const)
				if !ok || n.Name == "_" {
					continue
				}
				if b, ok := c.Type().Underlying().(*types.Basic); !ok || b.Info()&types.IsInteger == 0 {
					continue
				}
				if v := constant.ToInt(c.Val()); v.Kind() == constant.Int {
					out.Consts = append(out.Consts, ConstDef{Name: n.Name, Value: zlit(v.ExactString())})
				}
			}
		}
	}

	// Functions, in source order.
	var fns []*fnInfo
	seen := map[string]*fnInfo{}
	for _, d := range f.Decls {
		fd, ok := d.(*ast.FuncDecl)
		if !ok {
			continue
		}
		fi := &fnInfo{decl: fd, name: funcName(fd)}
		fi.def = &FuncDef{Name: fi.name, CoqName: "go_" + fi.name, Line: fset.Position(fd.Pos()).Line}
		if prev := seen[fi.name]; prev != nil {
			return nil, fmt.Errorf("%s and %s: both translate to %s", u.pos(prev.decl.Pos()), u.pos(fd.Pos()), fi.def.CoqName)
		}
		seen[fi.name] = fi
		if obj, ok := info.Defs[fd.Name].(*types.Func); ok {
			fi.obj = obj
			u.funcs[obj] = fi
		}
		fns = append(fns, fi)
	}

	// Call graph: every reference to a function of the file counts as a call.
	for _, fi := range fns {
		if fi.decl.Body == nil {
			continue
		}
		dup := map[*fnInfo]bool{}
		ast.Inspect(fi.decl.Body, func(n ast.Node) bool {
			if id, ok := n.(*ast.Ident); ok {
				if fo, ok := info.Uses[id].(*types.Func); ok {
					if c := u.funcs[fo]; c != nil && !dup[c] {
						dup[c] = true
						fi.callees = append(fi.callees, c)
					}
				}
			}
			return true
		})
	}
	for _, fi := range fns {
		reach := map[*fnInfo]bool{}
		var walk func(*fnInfo)
		walk = func(g *fnInfo) {
			for _, c := range g.callees {
				if !reach[c] {
					reach[c] = true
					walk(c)
				}
			}
		}
		walk(fi)
		fi.recursive = reach[fi]
		// reachable from a callee other than itself: not plain self-recursion
		reach = map[*fnInfo]bool{}
		for _, c := range fi.callees {
			if c != fi && !reach[c] {
				reach[c] = true
				walk(c)
			}
		}
		fi.mutual = reach[fi]
	}

	// Callee-first order: depth-first post-order over the source order.
	var order []*fnInfo
	visited := map[*fnInfo]bool{}
	var visit func(*fnInfo)
	visit = func(fi *fnInfo) {
		if visited[fi] {
			return
		}
		visited[fi] = true
		for _, c := range fi.callees {
			visit(c)
		}
		order = append(order, fi)
	}
	for _, fi := range fns {
		visit(fi)
	}

	// Translate.  All callees of a non-recursive function precede it.
	for _, fi := range order {
		u.translateFunc(fi)
		out.Funcs = append(out.Funcs, fi.def)
	}
	return out, nil
}

// funcName is the Go name of a function; a method is <ReceiverType>_<Name>.
func funcName(fd *ast.FuncDecl) string {
	if fd.Recv == nil || len(fd.Recv.List) == 0 {
		return fd.Name.Name
	}
	t := fd.Recv.List[0].Type
	for {
		switch x := t.(type) {
		case *ast.StarExpr:
			t = x.X
			continue
		case *ast.ParenExpr:
			t = x.X
			continue
		case *ast.IndexExpr:
			t = x.X
			continue
		case *ast.IndexListExpr:
			t = x.X
			continue
		}
		break
	}
	if id, ok := t.(*ast.Ident); ok {
		return id.Name + "_" + fd.Name.Name
	}
	return "_" + fd.Name.Name
}

// translateFunc fills fi.def.
func (u *unit) translateFunc(fi *fnInfo) {
	fd, def := fi.decl, fi.def
	switch {
	case fi.obj == nil:
		def.Unsupported = "function was not type-checked at " + u.pos(fd.Pos())
		return
	case fd.Body == nil:
		def.Unsupported = "function without body at " + u.pos(fd.Pos())
		return
	}
	if r := u.prescan(fd); r != "" {
		def.Unsupported = r
		return
	}
	recParam := -1
	if fi.recursive {
		if recParam = u.recursionParam(fi); fi.mutual || recParam < 0 {
			def.Unsupported = "recursion at " + u.pos(fd.Pos())
			return
		}
	}
	for _, c := range fi.callees {
		if c != fi && c.def.Unsupported != "" {
			def.Unsupported = "calls unsupported " + c.def.CoqName
			return
		}
	}
	// First assume the function cannot panic; when the body turns out to
	// contain a panic-able operation translate it again in outcome style.
	// A recursive function is always outcome-typed (it can run out of fuel).
	t := newFnTr(u, fi, fi.recursive)
	t.rec = fi.recursive
	t.run()
	if t.bad == "" && t.nhoist > 0 && !t.mayPanic {
		t = newFnTr(u, fi, true)
		t.run()
	}
	if t.bad != "" {
		def.Unsupported = t.bad
		return
	}
	def.Params, def.Result, def.Body, def.MayPanic = t.params, t.result, t.body, t.mayPanic
	if fi.recursive {
		// go_X_rec is structurally recursive on fuel; go_X supplies fuel from
		// the parameter that every self-call decrements.
		for _, n := range t.paramNames {
			if n == "_" {
				def.Unsupported = "recursion with a blank parameter at " + u.pos(fd.Pos())
				return
			}
		}
		rec := def.CoqName + "_rec"
		def.Pre = fmt.Sprintf("Fixpoint %s (rfuel : nat) %s {struct rfuel} : %s :=\n  match rfuel with\n  | O => Fuel\n  | S rfuel' =>\n%s\n  end.\n",
			rec, t.params, t.result, t.body)
		def.Body = fmt.Sprintf("  %s (S (Z.to_nat (%s + 1))) %s", rec, t.paramNames[recParam], strings.Join(t.paramNames, " "))
	}
}

// recursionParam returns the index (among receiver-less parameters) of an
// integer parameter p such that every self-call of the function passes
// syntactically "p - 1" in p's position, or -1.  Every reference to the
// function in its own body must be such a call.
func (u *unit) recursionParam(fi *fnInfo) int {
	if fi.decl.Recv != nil || fi.decl.Body == nil {
		return -1
	}
	sig, ok := fi.obj.Type().(*types.Signature)
	if !ok || sig.Variadic() {
		return -1
	}
	var calls []*ast.CallExpr
	refs := 0
	ast.Inspect(fi.decl.Body, func(n ast.Node) bool {
		switch n := n.(type) {
		case *ast.Ident:
			if u.info.Uses[n] == fi.obj {
				refs++
			}
		case *ast.CallExpr:
			if id, ok := n.Fun.(*ast.Ident); ok && u.info.Uses[id] == fi.obj {
				calls = append(calls, n)
			}
		}
		return true
	})
	if len(calls) == 0 || refs != len(calls) {
		return -1
	}
	for i := 0; i < sig.Params().Len(); i++ {
		p := sig.Params().At(i)
		if !isInteger(p.Type()) || p.Name() == "" || p.Name() == "_" {
			continue
		}
		ok := true
		for _, c := range calls {
			if len(c.Args) != sig.Params().Len() {
				return -1
			}
			be, isBin := c.Args[i].(*ast.BinaryExpr)
			if !isBin || be.Op != token.SUB {
				ok = false
				break
			}
			id, isId := be.X.(*ast.Ident)
			lit, isLit := be.Y.(*ast.BasicLit)
			if !isId || u.info.Uses[id] != p || !isLit || lit.Kind != token.INT || lit.Value != "1" {
				ok = false
				break
			}
		}
		if ok {
			return i
		}
	}
	return -1
}

// prescan rejects constructs that are outside the subset wherever they occur
// in the function (also in code the translation would never reach).
func (u *unit) prescan(fd *ast.FuncDecl) string {
	reason := ""
	ast.Inspect(fd, func(n ast.Node) bool {
		if reason != "" || n == nil {
			return false
		}
		what := ""
		switch n := n.(type) {
		case *ast.ForStmt:
			if n.Post != nil {
				what = "for loop with post statement"
				break
			}
			ast.Inspect(n.Body, func(m ast.Node) bool {
				switch m.(type) {
				case *ast.ForStmt, *ast.RangeStmt:
					what = "nested loop"
				}
				return what == ""
			})
		case *ast.RangeStmt:
			ast.Inspect(n.Body, func(m ast.Node) bool {
				switch m.(type) {
				case *ast.ForStmt, *ast.RangeStmt:
					what = "nested loop"
				}
				return what == ""
			})
		case *ast.GoStmt:
			what = "go statement"
		case *ast.DeferStmt:
			what = "defer statement"
		case *ast.SelectStmt:
			what = "select statement"
		case *ast.SendStmt:
			what = "channel send"
		case *ast.LabeledStmt:
			what = "labeled statement"
		case *ast.BranchStmt:
			what = n.Tok.String() + " statement"
		case *ast.TypeSwitchStmt:
			what = "type switch"
		case *ast.FuncLit:
			what = "closure"
		case *ast.StarExpr:
			what = "pointer"
		case *ast.CompositeLit:
			what = "composite literal"
		case *ast.TypeAssertExpr:
			what = "type assertion"
		case *ast.MapType:
			what = "map type"
		case *ast.ChanType:
			what = "channel type"
		case *ast.StructType:
			what = "struct type"
		case *ast.InterfaceType:
			what = "interface type"
		case *ast.UnaryExpr:
			switch n.Op {
			case token.AND:
				what = "address-of operator"
			case token.ARROW:
				what = "channel receive"
			}
		}
		if what != "" {
			reason = what + " at " + u.pos(n.Pos())
			return false
		}
		return true
	})
	return reason
}

// zlit renders an integer literal; negative literals are parenthesised.
func zlit(s string) string {
	if strings.HasPrefix(s, "-") {
		return "(" + s + ")"
	}
	return s
}

// Render produces the generated Coq file.  rel is the path of the Go source
// relative to the repository root.
func (u *Unit) Render(rel string) string {
	var sb strings.Builder
	fmt.Fprintf(&sb, "(* GENERATED by srcmodel from %s -- do not edit *)\n", rel)
	sb.WriteString("From Coq Require Import List ZArith Bool.\n")
	sb.WriteString("From Coq Require String.\n")
	sb.WriteString("From PB Require Import Base.GoInt.\n")
	sb.WriteString("Import ListNotations.\n")
	// String literals (GoErr, unsupported) need the string notation; String
	// itself must not be imported (its length and ++ clash with List's).
	sb.WriteString("Import String.StringSyntax.\n")
	sb.WriteString("Local Open Scope string_scope.\n")
	sb.WriteString("Open Scope Z_scope.\n\n")
	for _, c := range u.Consts {
		fmt.Fprintf(&sb, "Definition c_%s : Z := %s.\n", c.Name, c.Value)
	}
	for _, f := range u.Funcs {
		sb.WriteString("\n")
		if f.Unsupported != "" {
			fmt.Fprintf(&sb, "Definition %s : Unsupported := unsupported %s.\n", f.CoqName, coqString(f.Unsupported))
			continue
		}
		if f.Pre != "" {
			sb.WriteString(f.Pre)
			sb.WriteString("\n")
		}
		head := "Definition " + f.CoqName
		if f.Params != "" {
			head += " " + f.Params
		}
		fmt.Fprintf(&sb, "%s : %s :=\n%s.\n", head, f.Result, f.Body)
	}
	return sb.String()
}

// coqString renders a Coq string literal of type String.string.
func coqString(s string) string {
	return `"` + strings.ReplaceAll(s, `"`, `""`) + `"`
}
