package main

import (
	"bytes"
	"fmt"
	"go/ast"
	"go/parser"
	"go/printer"
	"go/token"
	"os"
	"path/filepath"
	"reflect"
	"regexp"
	"strings"
)

// Front end for internal/filedesc/desc_list.go (Tier T for C36).
//
// The range lists are structs {List, once, sorted}; every method reads the sorted copy
// through p.lazyInit().sorted.  lazyInit (sync.Once + sort.Slice with a closure) is outside
// the translatable subset and stays modelled by hand (sort_ranges + the AnySort theorems);
// its source text is emitted as a string constant so that a proof by reflexivity pins it.
// A method with receiver (p *T) becomes the function T_<Method>(p_sorted [][2]N, params...):
//
//	X.lazyInit().sorted       ->  X_sorted            for the receiver and every parameter of type *T
//	errors.New("msg: %v", a…) ->  err_<msg>           a package-level error variable (the error SITE class;
//	                                                  the arguments must be variables or niladic method calls
//	                                                  on variables, so dropping them drops no panic)
//	protoreflect.N, protowire.N -> N                  with the declarations of N copied from their packages
//
// Any other use of the receiver stays as it is and makes the function Unsupported (unresolved identifier).
var rangesRel = "internal/filedesc/desc_list.go"

// pointer-receiver types and their translated methods
var rangesRecvs = map[string][]string{
	"EnumRanges":  {"Has", "CheckValid"},
	"FieldRanges": {"Has", "CheckValid", "CheckOverlap"},
}

// value-receiver types (named [2]N arrays) whose methods are translated as they are
var rangesValueRecvs = map[string][]string{
	"enumRange":  {"Start", "End"},
	"fieldRange": {"Start", "End"},
}

var rangesFuncs = []string{"isValidFieldNumber"}

// lazyInit methods whose normalised source text is emitted as c_<T>_lazyInit_src
var rangesPinned = []string{"EnumRanges", "FieldRanges"}

// Coq names (without go_) the proofs rely on
var rangesExpected = []string{
	"enumRange_Start", "enumRange_End", "fieldRange_Start", "fieldRange_End",
	"isValidFieldNumber",
	"EnumRanges_Has", "FieldRanges_Has",
	"EnumRanges_CheckValid", "FieldRanges_CheckValid", "FieldRanges_CheckOverlap",
}

// entry points of the correspondence run: name, binders, argument names, result type without outcome
var rangesRun = []struct{ name, params, args, base string }{
	{"EnumRanges_Has", "(s : list (Z * Z)) (n : Z)", "s n", "bool"},
	{"FieldRanges_Has", "(s : list (Z * Z)) (n : Z)", "s n", "bool"},
	{"EnumRanges_CheckValid", "(s : list (Z * Z))", "s", "go_err"},
	{"FieldRanges_CheckValid", "(s : list (Z * Z)) (ms : bool)", "s ms", "go_err"},
	{"FieldRanges_CheckOverlap", "(p : list (Z * Z)) (q : list (Z * Z))", "p q", "go_err"},
}

var wsRun = regexp.MustCompile(`\s+`)
var nonAlnum = regexp.MustCompile(`[^A-Za-z0-9]+`)

func parseRepoFile(fset *token.FileSet, repo, rel string) (*ast.File, error) {
	return parser.ParseFile(fset, filepath.Join(repo, filepath.FromSlash(rel)), nil, parser.SkipObjectResolution)
}

// findType returns the declaration "type <name> ..." of f.
func findType(f *ast.File, name string) *ast.TypeSpec {
	for _, d := range f.Decls {
		if gd, ok := d.(*ast.GenDecl); ok && gd.Tok == token.TYPE {
			for _, sp := range gd.Specs {
				if ts := sp.(*ast.TypeSpec); ts.Name.Name == name {
					return ts
				}
			}
		}
	}
	return nil
}

// findConstBlock returns the const declaration of f that declares name.
func findConstBlock(f *ast.File, name string) *ast.GenDecl {
	for _, d := range f.Decls {
		if gd, ok := d.(*ast.GenDecl); ok && gd.Tok == token.CONST {
			for _, sp := range gd.Specs {
				for _, n := range sp.(*ast.ValueSpec).Names {
					if n.Name == name {
						return gd
					}
				}
			}
		}
	}
	return nil
}

func extractRanges(repo string) error {
	fset := token.NewFileSet()
	src, err := parseRepoFile(fset, repo, rangesRel)
	if err != nil {
		return err
	}
	wire, err := parseRepoFile(fset, repo, "encoding/protowire/wire.go")
	if err != nil {
		return err
	}
	refl, err := parseRepoFile(fset, repo, "reflect/protoreflect/proto.go")
	if err != nil {
		return err
	}
	pr := func(n any) string {
		var b bytes.Buffer
		printer.Fprint(&b, fset, n)
		return b.String()
	}
	// qualified names of the two packages become plain names
	unqualify := func(e ast.Expr) ast.Expr {
		if sel, ok := e.(*ast.SelectorExpr); ok {
			if id, ok := sel.X.(*ast.Ident); ok && (id.Name == "protoreflect" || id.Name == "protowire") {
				return &ast.Ident{Name: sel.Sel.Name}
			}
		}
		return e
	}

	var out bytes.Buffer
	out.WriteString("package synth\n\n")
	var notes []string
	emitType := func(f *ast.File, name, from string) {
		ts := findType(f, name)
		if ts == nil {
			notes = append(notes, "type "+name+" not found in "+from)
			return
		}
		rewriteExprs(ts, unqualify)
		fmt.Fprintf(&out, "type %s\n\n", pr(ts))
	}
	emitType(wire, "Number", "encoding/protowire/wire.go")
	if cb := findConstBlock(wire, "MinValidNumber"); cb != nil {
		out.WriteString(pr(cb) + "\n\n")
	} else {
		notes = append(notes, "const MinValidNumber not found in encoding/protowire/wire.go")
	}
	emitType(refl, "FieldNumber", "reflect/protoreflect/proto.go")
	emitType(refl, "EnumNumber", "reflect/protoreflect/proto.go")
	for _, n := range []string{"enumRange", "fieldRange"} {
		emitType(src, n, rangesRel)
	}

	// type of the field "sorted" of the list structs
	sortedType := map[string]ast.Expr{}
	for recv := range rangesRecvs {
		ts := findType(src, recv)
		if ts == nil {
			continue
		}
		st, ok := ts.Type.(*ast.StructType)
		if !ok {
			continue
		}
		for _, fl := range st.Fields.List {
			for _, n := range fl.Names {
				if n.Name == "sorted" {
					sortedType[recv] = fl.Type
				}
			}
		}
	}

	errVars := map[string]bool{}
	var errOrder []string
	var funcs bytes.Buffer
	pinned := map[string]string{}
	want := func(list []string, m string) bool {
		for _, x := range list {
			if x == m {
				return true
			}
		}
		return false
	}
	ptrRecvOf := func(e ast.Expr) string {
		st, ok := e.(*ast.StarExpr)
		if !ok {
			return ""
		}
		id, ok := st.X.(*ast.Ident)
		if !ok {
			return ""
		}
		if _, ok := rangesRecvs[id.Name]; ok {
			return id.Name
		}
		return ""
	}
	for _, d := range src.Decls {
		fd, ok := d.(*ast.FuncDecl)
		if !ok || fd.Body == nil {
			continue
		}
		if fd.Recv == nil {
			if want(rangesFuncs, fd.Name.Name) {
				rewriteExprs(fd, unqualify)
				funcs.WriteString(pr(fd) + "\n\n")
			}
			continue
		}
		if len(fd.Recv.List) != 1 || len(fd.Recv.List[0].Names) != 1 {
			continue
		}
		rname := fd.Recv.List[0].Names[0].Name
		if id, ok := fd.Recv.List[0].Type.(*ast.Ident); ok {
			if want(rangesValueRecvs[id.Name], fd.Name.Name) {
				rewriteExprs(fd, unqualify)
				funcs.WriteString(pr(fd) + "\n\n")
			}
			continue
		}
		recv := ptrRecvOf(fd.Recv.List[0].Type)
		if recv == "" {
			continue
		}
		if fd.Name.Name == "lazyInit" && want(rangesPinned, recv) {
			pinned[recv] = strings.TrimSpace(wsRun.ReplaceAllString(pr(fd), " "))
			continue
		}
		if !want(rangesRecvs[recv], fd.Name.Name) {
			continue
		}
		// receiver and *T parameters -> <name>_sorted
		ptrVars := map[string]bool{rname: true}
		params := []*ast.Field{{Names: []*ast.Ident{{Name: rname + "_sorted"}}, Type: sortedType[recv]}}
		for _, p := range fd.Type.Params.List {
			if r := ptrRecvOf(p.Type); r != "" {
				for _, n := range p.Names {
					ptrVars[n.Name] = true
					params = append(params, &ast.Field{Names: []*ast.Ident{{Name: n.Name + "_sorted"}}, Type: sortedType[r]})
				}
				continue
			}
			params = append(params, p)
		}
		if sortedType[recv] == nil {
			continue // struct without a field "sorted": the function is reported as missing below
		}
		fd.Type.Params = &ast.FieldList{List: params}
		fd.Recv = nil
		fd.Name = &ast.Ident{Name: recv + "_" + fd.Name.Name}
		simpleArg := func(e ast.Expr) bool {
			switch x := e.(type) {
			case *ast.Ident:
				return true
			case *ast.CallExpr:
				if sel, ok := x.Fun.(*ast.SelectorExpr); ok && len(x.Args) == 0 {
					_, isId := sel.X.(*ast.Ident)
					return isId
				}
			}
			return false
		}
		rewriteExprs(fd, func(e ast.Expr) ast.Expr {
			e = unqualify(e)
			switch x := e.(type) {
			case *ast.SelectorExpr:
				// X.lazyInit().sorted
				if x.Sel.Name != "sorted" {
					break
				}
				call, ok := x.X.(*ast.CallExpr)
				if !ok || len(call.Args) != 0 {
					break
				}
				sel, ok := call.Fun.(*ast.SelectorExpr)
				if !ok || sel.Sel.Name != "lazyInit" {
					break
				}
				if id, ok := sel.X.(*ast.Ident); ok && ptrVars[id.Name] {
					return &ast.Ident{Name: id.Name + "_sorted"}
				}
			case *ast.CallExpr:
				// errors.New("msg: ...", simple args)
				sel, ok := x.Fun.(*ast.SelectorExpr)
				if !ok || sel.Sel.Name != "New" || len(x.Args) == 0 {
					break
				}
				if id, ok := sel.X.(*ast.Ident); !ok || id.Name != "errors" {
					break
				}
				lit, ok := x.Args[0].(*ast.BasicLit)
				if !ok || lit.Kind != token.STRING {
					break
				}
				for _, a := range x.Args[1:] {
					if !simpleArg(a) {
						return e
					}
				}
				msg := strings.Trim(lit.Value, "\"`")
				if i := strings.Index(msg, ":"); i >= 0 {
					msg = msg[:i]
				}
				name := "err_" + strings.Trim(nonAlnum.ReplaceAllString(msg, "_"), "_")
				if !errVars[name] {
					errVars[name] = true
					errOrder = append(errOrder, name)
				}
				return &ast.Ident{Name: name}
			}
			return e
		})
		funcs.WriteString(pr(fd) + "\n\n")
	}
	for _, n := range errOrder {
		fmt.Fprintf(&out, "var %s error\n", n)
	}
	out.WriteString("\n")
	out.Write(funcs.Bytes())

	dir, err := os.MkdirTemp("", "srcmodel-ranges-synth-")
	if err != nil {
		return err
	}
	defer os.RemoveAll(dir)
	file := filepath.Join(dir, "synth.go")
	if err := os.WriteFile(file, out.Bytes(), 0o644); err != nil {
		return err
	}
	if os.Getenv("SRCMODEL_RANGES_DEBUG") != "" {
		os.Stderr.Write(out.Bytes())
	}
	u, err := TranslateFile(file)
	if err != nil {
		return err
	}
	for _, n := range append(notes, u.Notes...) {
		fmt.Fprintf(os.Stderr, "srcmodel_ranges: note: %s\n", n)
	}

	var sb strings.Builder
	sb.WriteString("(* GENERATED by srcmodel_ranges from " + rangesRel + " -- do not edit.\n" +
		"   Methods with receiver p of type pointer-to-T are translated as functions of p_sorted = p.lazyInit().sorted (and q_sorted for a\n" +
		"   parameter q of that type); errors.New(\"msg: ...\", ...) as the constructor E_err_<msg> of the enumeration go_err (ENil = nil);\n" +
		"   [2]N arrays as pairs, [][2]N slices as lists of pairs; range loops as structural fixes;\n" +
		"   c_<T>_lazyInit_src is the whitespace-normalised source text of the method lazyInit of T. *)\n")
	sb.WriteString("From Coq Require Import List ZArith Bool.\nFrom Coq Require String.\nFrom PB Require Import Base.GoInt Desc.GoPairs.\n" +
		"Import ListNotations.\nImport String.StringSyntax.\nLocal Open Scope string_scope.\nOpen Scope Z_scope.\n\n")
	for _, c := range u.Consts {
		fmt.Fprintf(&sb, "Definition c_%s : Z := %s.\n", c.Name, c.Value)
	}
	// the error values: nil and one constructor per error site class (errors.New message up to ':')
	sb.WriteString("\nInductive go_err := ENil")
	for _, n := range errOrder {
		sb.WriteString(" | E_" + n)
	}
	sb.WriteString(".\n\n")
	for _, r := range rangesPinned {
		fmt.Fprintf(&sb, "Definition c_%s_lazyInit_src : String.string :=\n  %s.\n", r, coqString(pinned[r]))
	}
	byName := map[string]*FuncDef{}
	for _, f := range u.Funcs {
		byName[f.Name] = f
		sb.WriteString("\n")
		if f.Unsupported != "" {
			fmt.Fprintf(os.Stderr, "srcmodel_ranges: %s is unsupported: %s\n", f.CoqName, f.Unsupported)
			fmt.Fprintf(&sb, "Definition %s : Unsupported := unsupported %s.\n", f.CoqName, coqString(f.Unsupported))
			continue
		}
		if f.Pre != "" {
			sb.WriteString(f.Pre + "\n")
		}
		head := "Definition " + f.CoqName
		if f.Params != "" {
			head += " " + f.Params
		}
		fmt.Fprintf(&sb, "%s : %s :=\n%s.\n", head, f.Result, f.Body)
	}
	// run_<F>: what the correspondence executes.  Always of the same type (outcome-typed), so that the
	// extracted driver still builds when F left the translatable subset (then run_<F> = Panic: every go_*
	// case is a mismatch and the harness's own predicate still searches for a concrete failing input).
	sb.WriteString("\n(* ---- entry points of the correspondence run (ops go_has, go_cvalid, go_coverlap) ---- *)\n")
	for _, r := range rangesRun {
		f := byName[r.name]
		body := "Panic"
		if f != nil && f.Unsupported == "" && strings.TrimPrefix(f.Result, "outcome ") == r.base && strings.Count(f.Params, "(v_") == len(strings.Fields(r.args)) {
			body = "go_" + r.name + " " + r.args
			if !f.MayPanic {
				body = "Val (" + body + ")"
			}
		}
		fmt.Fprintf(&sb, "Definition run_%s %s : outcome %s := %s.\n", r.name, r.params, r.base, body)
	}
	var missing []string
	for _, n := range rangesExpected {
		f := byName[n]
		if f == nil {
			// fail closed: the proofs must not silently keep an older definition
			fmt.Fprintf(&sb, "\nDefinition go_%s : Unsupported := unsupported %s.\n", n, coqString("function not found in "+rangesRel))
		}
		if f == nil || f.Unsupported != "" {
			missing = append(missing, n)
		}
	}
	if err := writeGenerated("RangesGo.v", sb.String()); err != nil {
		return err
	}
	if len(missing) > 0 {
		return fmt.Errorf("%w: %s", errIncomplete, strings.Join(missing, " "))
	}
	return nil
}

var exprType = reflect.TypeOf((*ast.Expr)(nil)).Elem()
var nodeType = reflect.TypeOf((*ast.Node)(nil)).Elem()

// rewriteExprs applies f bottom-up to every expression below n (generic walk by reflection).
func rewriteExprs(n ast.Node, f func(ast.Expr) ast.Expr) {
	var walk func(v reflect.Value)
	walk = func(v reflect.Value) {
		switch v.Kind() {
		case reflect.Interface:
			if v.IsNil() {
				return
			}
			walk(v.Elem())
			if v.Type() == exprType && v.CanSet() {
				v.Set(reflect.ValueOf(f(v.Interface().(ast.Expr))))
			}
		case reflect.Ptr:
			if v.IsNil() {
				return
			}
			if _, isObj := v.Interface().(*ast.Object); isObj {
				return
			}
			if v.Type().Implements(nodeType) || v.Elem().Kind() == reflect.Struct {
				walk(v.Elem())
			}
		case reflect.Struct:
			for i := 0; i < v.NumField(); i++ {
				if v.Type().Field(i).IsExported() {
					walk(v.Field(i))
				}
			}
		case reflect.Slice:
			for i := 0; i < v.Len(); i++ {
				walk(v.Index(i))
			}
		}
	}
	walk(reflect.ValueOf(n))
}
