module srcmodel_ranges

go 1.23
