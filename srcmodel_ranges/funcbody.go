package main

// Translation of one function body.
//
// Statements are translated in continuation style: the statements following
// an if/switch are duplicated into both branches, so that an early return
// simply ends its branch.  Each Go assignment becomes one let that re-binds
// the Coq name of the assigned variable.
//
// Expressions are translated to pure Gallina terms.  A sub-expression that
// can panic (index, slice expression, division by a non-constant, call of a
// function that may panic) is replaced by a fresh temporary and recorded as
// a "hoist"; the statement containing the expression emits the hoists, in
// evaluation order, as a chain of bind in front of itself.  Since all other
// operations are total and free of side effects, evaluating the hoisted
// operations first is sound exactly when Go evaluates them unconditionally,
// i.e. everywhere except in the right operand of && and ||, where a hoist is
// rejected.

import (
	"fmt"
	"go/ast"
	"go/constant"
	"go/token"
	"go/types"
	"path"
	"strings"
)

type hoist struct {
	pat  string // binder pattern: "t1" or "'(v_v, v_n)"
	comp string // computation of type outcome _
}

type fnTr struct {
	u        *unit
	fi       *fnInfo
	sig      *types.Signature
	mayPanic bool

	names  map[types.Object]string // Coq names of parameters, results and locals
	synth  map[*ast.Ident]string   // identifiers introduced by the translator
	hoists []hoist                 // pending hoists of the current statement
	nhoist int                     // number of hoists recorded in the whole body
	ntmp   int                     // counter for temporaries t1, t2, ...
	cur    token.Pos               // position of the current statement
	nloop  int                     // counter for loop1, loop2, ...
	inLoop int                     // nesting depth of loops being translated

	loopEnd map[ast.Stmt]string // end-of-body markers of loops: the recursive call
	rec     bool                // the function is self-recursive (body of go_X_rec)

	paramNames []string // Coq names of receiver and parameters
	bad        string   // first reason why the function is unsupported

	params, result, body string
}

func newFnTr(u *unit, fi *fnInfo, mayPanic bool) *fnTr {
	return &fnTr{u: u, fi: fi, mayPanic: mayPanic, names: map[types.Object]string{}, synth: map[*ast.Ident]string{}, loopEnd: map[ast.Stmt]string{}}
}

// fail records the first reason for rejecting the function.
func (t *fnTr) fail(n ast.Node, format string, args ...any) string {
	if t.bad == "" {
		p := t.cur
		if n != nil && n.Pos().IsValid() {
			p = n.Pos()
		}
		t.bad = fmt.Sprintf(format, args...) + " at " + t.u.pos(p)
	}
	return "?"
}

func (t *fnTr) fresh() string {
	t.ntmp++
	return fmt.Sprintf("t%d", t.ntmp)
}

// hoistOp records a panic-able computation and returns the temporary that
// stands for its value.
func (t *fnTr) hoistOp(comp string) string {
	tmp := t.fresh()
	t.hoists = append(t.hoists, hoist{pat: tmp, comp: comp})
	t.nhoist++
	return tmp
}

// emit renders the pending hoists, then line, then the continuation.
func (t *fnTr) emit(ind, line string, k func() string) string {
	hs := t.hoists
	t.hoists = nil
	var sb strings.Builder
	for _, h := range hs {
		fmt.Fprintf(&sb, "%sbind (%s) (fun %s =>\n", ind, h.comp, h.pat)
	}
	sb.WriteString(line)
	if k != nil {
		sb.WriteString(k())
	}
	sb.WriteString(strings.Repeat(")", len(hs)))
	return sb.String()
}

// ---------------------------------------------------------------- types

var errorType = types.Universe.Lookup("error").Type()

func isErrorType(ty types.Type) bool { return ty != nil && types.Identical(ty, errorType) }

func basicInfo(ty types.Type) types.BasicInfo {
	if ty == nil {
		return 0
	}
	if b, ok := ty.Underlying().(*types.Basic); ok {
		return b.Info()
	}
	return 0
}

func isInteger(ty types.Type) bool { return basicInfo(ty)&types.IsInteger != 0 }
func isBoolean(ty types.Type) bool { return basicInfo(ty)&types.IsBoolean != 0 }
func isUnsigned(ty types.Type) bool {
	return basicInfo(ty)&types.IsInteger != 0 && basicInfo(ty)&types.IsUnsigned != 0
}

// isBytes reports whether ty is modelled as list Z: a string or a slice of bytes.
func isBytes(ty types.Type) bool {
	if ty == nil {
		return false
	}
	switch u := ty.Underlying().(type) {
	case *types.Basic:
		return u.Info()&types.IsString != 0
	case *types.Slice:
		b, ok := u.Elem().Underlying().(*types.Basic)
		return ok && b.Kind() == types.Uint8
	}
	return false
}

// isPair reports whether ty is modelled as Z * Z: an array [2]T of integers.
func isPair(ty types.Type) bool {
	if ty == nil {
		return false
	}
	a, ok := ty.Underlying().(*types.Array)
	return ok && a.Len() == 2 && isInteger(a.Elem())
}

// isPairs reports whether ty is modelled as list (Z * Z): a slice of [2]T.
func isPairs(ty types.Type) bool {
	if ty == nil {
		return false
	}
	s, ok := ty.Underlying().(*types.Slice)
	return ok && isPair(s.Elem())
}

// isList: a slice-like value modelled as a Coq list.
func isList(ty types.Type) bool { return isBytes(ty) || isPairs(ty) }

// coqType maps a Go type to its Coq model.
func coqType(ty types.Type) (string, bool) {
	switch {
	case ty == nil:
		return "", false
	case isPair(ty):
		return "(Z * Z)", true
	case isPairs(ty):
		return "list (Z * Z)", true
	case isErrorType(ty):
		return "go_err", true
	case isBoolean(ty):
		return "bool", true
	case isInteger(ty):
		return "Z", true
	case isBytes(ty):
		return "list Z", true
	}
	return "", false
}

func (t *fnTr) coqType(n ast.Node, ty types.Type) string {
	if s, ok := coqType(ty); ok {
		return s
	}
	if ty == nil {
		return t.fail(n, "expression without type")
	}
	return t.fail(n, "unsupported type %s", types.TypeString(ty, func(*types.Package) string { return "" }))
}

// zero is the zero value of a supported type.
func (t *fnTr) zero(n ast.Node, ty types.Type) string {
	switch t.coqType(n, ty) {
	case "Z":
		return "0"
	case "bool":
		return "false"
	case "list Z":
		return "(@nil Z)"
	case "(Z * Z)":
		return "(0, 0)"
	case "list (Z * Z)":
		return "(@nil (Z * Z))"
	case "go_err":
		return "ENil"
	}
	return "?"
}

// wrapOf returns the wrap function of a sized integer type.
func wrapOf(ty types.Type) string {
	b, ok := ty.Underlying().(*types.Basic)
	if !ok {
		return ""
	}
	switch b.Kind() {
	case types.Uint8:
		return "wrap_u8"
	case types.Uint16:
		return "wrap_u16"
	case types.Uint32:
		return "wrap_u32"
	case types.Uint64, types.Uint, types.Uintptr:
		return "wrap_u64"
	case types.Int8:
		return "wrap_i8"
	case types.Int16:
		return "wrap_i16"
	case types.Int32:
		return "wrap_i32"
	case types.Int64, types.Int:
		return "wrap_i64"
	}
	return ""
}

func (t *fnTr) wrapped(n ast.Node, ty types.Type, s string) string {
	w := wrapOf(ty)
	if w == "" {
		return t.fail(n, "arithmetic at a type without a fixed width (%s)", ty)
	}
	return "(" + w + " " + s + ")"
}

// ---------------------------------------------------------------- driver

func (t *fnTr) run() {
	fd := t.fi.decl
	sig, ok := t.fi.obj.Type().(*types.Signature)
	if !ok {
		t.fail(fd, "function without signature")
		return
	}
	t.sig = sig
	t.cur = fd.Pos()
	if sig.TypeParams().Len() > 0 || sig.RecvTypeParams().Len() > 0 {
		t.fail(fd, "generic function")
		return
	}
	if sig.Variadic() {
		t.fail(fd, "variadic function")
		return
	}
	if sig.Results().Len() == 0 {
		t.fail(fd, "function without results")
		return
	}
	t.assignNames()

	var params []string
	binder := func(v *types.Var, n ast.Node) {
		name := "_"
		if s, ok := t.names[v]; ok {
			name = s
		}
		params = append(params, fmt.Sprintf("(%s : %s)", name, t.coqType(n, v.Type())))
		t.paramNames = append(t.paramNames, name)
	}
	if r := sig.Recv(); r != nil {
		binder(r, fd.Recv)
	}
	for i := 0; i < sig.Params().Len(); i++ {
		binder(sig.Params().At(i), fd.Type.Params)
	}
	t.params = strings.Join(params, " ")

	var rts []string
	pre := ""
	base := "  "
	if t.rec {
		base = "    " // inside "match rfuel with | S rfuel' =>"
	}
	for i := 0; i < sig.Results().Len(); i++ {
		r := sig.Results().At(i)
		rts = append(rts, t.coqType(fd.Type.Results, r.Type()))
		switch {
		case r.Name() == "_":
			t.fail(fd.Type.Results, "blank named result")
		case r.Name() != "":
			pre += fmt.Sprintf("%slet %s := %s in\n", base, t.names[r], t.zero(fd.Type.Results, r.Type()))
		}
	}
	t.result = strings.Join(rts, " * ")
	if len(rts) > 1 {
		t.result = "(" + t.result + ")"
	}
	if t.mayPanic {
		t.result = "outcome " + t.result
	}
	t.body = pre + t.stmts(fd.Body.List, base)
}

// assignNames gives every variable declared in the function a Coq name that
// is unique in the function: v_<name> for the first variable of that name,
// v_<name>'<k> for the variables shadowing it or reusing the name in another
// scope.  Flattening nested blocks into one let-chain is therefore safe.
func (t *fnTr) assignNames() {
	count := map[string]int{}
	ast.Inspect(t.fi.decl, func(n ast.Node) bool {
		id, ok := n.(*ast.Ident)
		if !ok || id.Name == "_" {
			return true
		}
		v, ok := t.u.info.Defs[id].(*types.Var)
		if !ok {
			return true
		}
		if _, done := t.names[v]; done {
			return true
		}
		k := count[id.Name]
		count[id.Name] = k + 1
		if k == 0 {
			t.names[v] = "v_" + id.Name
		} else {
			t.names[v] = fmt.Sprintf("v_%s'%d", id.Name, k)
		}
		return true
	})
}

// ---------------------------------------------------------------- statements

func unparen(e ast.Expr) ast.Expr {
	for {
		p, ok := e.(*ast.ParenExpr)
		if !ok {
			return e
		}
		e = p.X
	}
}

func join(a []ast.Stmt, b ...[]ast.Stmt) []ast.Stmt {
	out := append([]ast.Stmt{}, a...)
	for _, x := range b {
		out = append(out, x...)
	}
	return out
}

// lhsName resolves the left-hand side of an assignment to the Coq name of a
// local variable ("_" for the blank identifier) and its type.
func (t *fnTr) lhsName(e ast.Expr) (string, types.Type) {
	id, ok := unparen(e).(*ast.Ident)
	if !ok {
		return t.fail(e, "assignment to %s", describe(e)), nil
	}
	if id.Name == "_" {
		return "_", nil
	}
	obj := t.u.info.Defs[id]
	if obj == nil {
		obj = t.u.info.Uses[id]
	}
	v, ok := obj.(*types.Var)
	if !ok {
		return t.fail(e, "assignment to unresolved identifier %s", id.Name), nil
	}
	name, ok := t.names[v]
	if !ok {
		return t.fail(e, "assignment to non-local variable %s", id.Name), nil
	}
	t.coqType(e, v.Type())
	return name, v.Type()
}

var assignOps = map[token.Token]token.Token{
	token.ADD_ASSIGN: token.ADD, token.SUB_ASSIGN: token.SUB, token.MUL_ASSIGN: token.MUL,
	token.QUO_ASSIGN: token.QUO, token.REM_ASSIGN: token.REM,
	token.AND_ASSIGN: token.AND, token.OR_ASSIGN: token.OR, token.XOR_ASSIGN: token.XOR,
	token.SHL_ASSIGN: token.SHL, token.SHR_ASSIGN: token.SHR, token.AND_NOT_ASSIGN: token.AND_NOT,
}

// synthBinary builds a binary expression node and records its type.
func (t *fnTr) synthBinary(x ast.Expr, op token.Token, y ast.Expr, ty types.Type) ast.Expr {
	be := &ast.BinaryExpr{X: x, Op: op, Y: y}
	t.u.info.Types[be] = types.TypeAndValue{Type: ty}
	return be
}

func (t *fnTr) stmts(ss []ast.Stmt, ind string) string {
	if t.bad != "" {
		return "?"
	}
	if len(ss) == 0 {
		return t.fail(nil, "control reaches the end of the function without return")
	}
	s, rest := ss[0], ss[1:]
	if s.Pos().IsValid() {
		t.cur = s.Pos()
	}
	if len(t.hoists) != 0 {
		return t.fail(s, "internal error: hoisted operations were not emitted")
	}
	next := func() string { return t.stmts(rest, ind) }

	switch s := s.(type) {
	case *ast.EmptyStmt:
		if call, ok := t.loopEnd[s]; ok {
			return ind + call // fall-through at the end of a loop body
		}
		return next()

	case *ast.ForStmt:
		return t.forStmt(s, rest, ind)

	case *ast.RangeStmt:
		return t.rangeStmt(s, rest, ind)

	case *ast.BlockStmt:
		return t.stmts(join(s.List, rest), ind)

	case *ast.ReturnStmt:
		r := t.ret(s)
		return t.emit(ind, ind+r, nil)

	case *ast.DeclStmt:
		gd, ok := s.Decl.(*ast.GenDecl)
		if !ok {
			return t.fail(s, "declaration")
		}
		switch gd.Tok {
		case token.CONST:
			return next() // uses of constants are folded
		case token.VAR:
		default:
			return t.fail(s, "local %s declaration", gd.Tok)
		}
		type pair struct {
			id  *ast.Ident
			val ast.Expr
		}
		var pairs []pair
		for _, sp := range gd.Specs {
			vs := sp.(*ast.ValueSpec)
			if len(vs.Values) != 0 && len(vs.Values) != len(vs.Names) {
				return t.fail(vs, "var declaration from a multi-value expression")
			}
			for i, n := range vs.Names {
				p := pair{id: n}
				if len(vs.Values) > 0 {
					p.val = vs.Values[i]
				}
				pairs = append(pairs, p)
			}
		}
		var step func(i int) string
		step = func(i int) string {
			if i == len(pairs) {
				return next()
			}
			p := pairs[i]
			if p.id.Name == "_" {
				if p.val == nil {
					return step(i + 1)
				}
				if tv, ok := t.u.info.Types[p.val]; ok {
					t.exprAs(p.val, tv.Type)
				} else {
					t.fail(p.val, "expression without type")
				}
				return t.emit(ind, "", func() string { return step(i + 1) })
			}
			name, ty := t.lhsName(p.id)
			val := ""
			if p.val != nil {
				val = t.exprAs(p.val, ty)
			} else {
				val = t.zero(p.id, ty)
			}
			return t.emit(ind, fmt.Sprintf("%slet %s := %s in\n", ind, name, val), func() string { return step(i + 1) })
		}
		return step(0)

	case *ast.IncDecStmt:
		name, ty := t.lhsName(s.X)
		if name == "_" || !isInteger(ty) {
			return t.fail(s, "increment of %s", describe(s.X))
		}
		op := "+"
		if s.Tok == token.DEC {
			op = "-"
		}
		val := t.wrapped(s, ty, "("+name+" "+op+" 1)")
		return t.emit(ind, fmt.Sprintf("%slet %s := %s in\n", ind, name, val), next)

	case *ast.AssignStmt:
		return t.assign(s, ind, next)

	case *ast.IfStmt:
		if s.Init != nil {
			return t.stmts(join([]ast.Stmt{s.Init, &ast.IfStmt{If: s.If, Cond: s.Cond, Body: s.Body, Else: s.Else}}, rest), ind)
		}
		thenS := join(s.Body.List, rest)
		var elseS []ast.Stmt
		switch e := s.Else.(type) {
		case nil:
			elseS = rest
		case *ast.BlockStmt:
			elseS = join(e.List, rest)
		case *ast.IfStmt:
			elseS = join([]ast.Stmt{e}, rest)
		default:
			return t.fail(s.Else, "else branch")
		}
		if tv, ok := t.u.info.Types[s.Cond]; !ok || !isBoolean(tv.Type) {
			return t.fail(s.Cond, "condition that is not a boolean")
		}
		c := t.expr(s.Cond)
		return t.emit(ind, "", func() string {
			a := t.stmts(thenS, ind+"  ")
			b := t.stmts(elseS, ind+"  ")
			return fmt.Sprintf("%sif %s then\n%s\n%selse\n%s", ind, c, a, ind, b)
		})

	case *ast.SwitchStmt:
		return t.switchStmt(s, rest, ind)
	}
	return t.fail(s, "%s", describe(s))
}

func (t *fnTr) assign(s *ast.AssignStmt, ind string, next func() string) string {
	// x op= e
	if op, ok := assignOps[s.Tok]; ok {
		if len(s.Lhs) != 1 || len(s.Rhs) != 1 {
			return t.fail(s, "malformed assignment")
		}
		name, ty := t.lhsName(s.Lhs[0])
		if name == "_" || !isInteger(ty) {
			return t.fail(s, "%s on %s", s.Tok, describe(s.Lhs[0]))
		}
		val := t.expr(t.synthBinary(s.Lhs[0], op, s.Rhs[0], ty))
		return t.emit(ind, fmt.Sprintf("%slet %s := %s in\n", ind, name, val), next)
	}
	if s.Tok != token.ASSIGN && s.Tok != token.DEFINE {
		return t.fail(s, "assignment operator %s", s.Tok)
	}
	// x = e
	if len(s.Lhs) == 1 && len(s.Rhs) == 1 {
		name, ty := t.lhsName(s.Lhs[0])
		if name == "_" {
			tv, ok := t.u.info.Types[s.Rhs[0]]
			if !ok {
				return t.fail(s.Rhs[0], "expression without type")
			}
			ty = tv.Type
		}
		val := t.exprAs(s.Rhs[0], ty)
		if name == "_" {
			return t.emit(ind, "", next) // evaluated for its panics only
		}
		return t.emit(ind, fmt.Sprintf("%slet %s := %s in\n", ind, name, val), next)
	}
	// x, y = f(...)
	if len(s.Rhs) == 1 {
		call, ok := unparen(s.Rhs[0]).(*ast.CallExpr)
		if !ok {
			return t.fail(s, "multi-value assignment from %s", describe(s.Rhs[0]))
		}
		var pats []string
		for _, l := range s.Lhs {
			n, _ := t.lhsName(l)
			pats = append(pats, n)
		}
		pat := "'(" + strings.Join(pats, ", ") + ")"
		val := t.call(call, len(s.Lhs))
		if n := len(t.hoists); n > 0 && t.hoists[n-1].pat == val {
			// the call itself was hoisted: bind its components directly
			t.hoists[n-1].pat = pat
			t.ntmp--
			return t.emit(ind, "", next)
		}
		return t.emit(ind, fmt.Sprintf("%slet %s := %s in\n", ind, pat, val), next)
	}
	// x, y = e1, e2 (all right-hand sides are evaluated first)
	if len(s.Lhs) != len(s.Rhs) {
		return t.fail(s, "malformed assignment")
	}
	var pats, vals []string
	for i, l := range s.Lhs {
		n, ty := t.lhsName(l)
		if n == "_" {
			tv, ok := t.u.info.Types[s.Rhs[i]]
			if !ok {
				return t.fail(s.Rhs[i], "expression without type")
			}
			ty = tv.Type
		}
		pats = append(pats, n)
		vals = append(vals, t.exprAs(s.Rhs[i], ty))
	}
	return t.emit(ind, fmt.Sprintf("%slet '(%s) := (%s) in\n", ind, strings.Join(pats, ", "), strings.Join(vals, ", ")), next)
}

// switchStmt rewrites a switch into an if/else-if chain.
func (t *fnTr) switchStmt(s *ast.SwitchStmt, rest []ast.Stmt, ind string) string {
	if s.Init != nil {
		return t.stmts(join([]ast.Stmt{s.Init, &ast.SwitchStmt{Switch: s.Switch, Tag: s.Tag, Body: s.Body}}, rest), ind)
	}
	tag := s.Tag
	var tagTy types.Type
	bindTag := ""
	if tag != nil {
		tv, ok := t.u.info.Types[tag]
		if !ok {
			return t.fail(tag, "expression without type")
		}
		tagTy = tv.Type
		if !isInteger(tagTy) && !isBoolean(tagTy) {
			return t.fail(tag, "switch on a value of type %s", tagTy)
		}
		if _, isIdent := unparen(tag).(*ast.Ident); !isIdent && tv.Value == nil {
			// evaluate the tag once
			val := t.expr(tag)
			id := &ast.Ident{Name: "switch tag"}
			tmp := t.fresh()
			t.synth[id] = tmp
			t.u.info.Types[id] = types.TypeAndValue{Type: tagTy}
			tag = id
			bindTag = fmt.Sprintf("%slet %s := %s in\n", ind, tmp, val)
		}
	}
	var clauses []*ast.CaseClause
	var def *ast.CaseClause
	for _, c := range s.Body.List {
		cc, ok := c.(*ast.CaseClause)
		if !ok {
			return t.fail(c, "switch clause")
		}
		if cc.List == nil {
			def = cc
		} else {
			clauses = append(clauses, cc)
		}
	}
	boolTy := types.Typ[types.Bool]
	var chain ast.Stmt
	if def != nil {
		chain = &ast.BlockStmt{Lbrace: def.Pos(), List: def.Body}
	}
	for i := len(clauses) - 1; i >= 0; i-- {
		cc := clauses[i]
		var cond ast.Expr
		for _, ce := range cc.List {
			c1 := ce
			if tag != nil {
				c1 = t.synthBinary(tag, token.EQL, ce, boolTy)
			}
			if cond == nil {
				cond = c1
			} else {
				cond = t.synthBinary(cond, token.LOR, c1, boolTy)
			}
		}
		chain = &ast.IfStmt{If: cc.Pos(), Cond: cond, Body: &ast.BlockStmt{Lbrace: cc.Pos(), List: cc.Body}, Else: chain}
	}
	var list []ast.Stmt
	if chain != nil {
		list = []ast.Stmt{chain}
	}
	return t.emit(ind, bindTag, func() string { return t.stmts(join(list, rest), ind) })
}

// ret translates the operand of a return statement.
func (t *fnTr) ret(s *ast.ReturnStmt) string {
	res := t.sig.Results()
	var comps []string
	switch {
	case len(s.Results) == 0:
		for i := 0; i < res.Len(); i++ {
			n, ok := t.names[res.At(i)]
			if !ok {
				return t.fail(s, "bare return without named results")
			}
			comps = append(comps, n)
		}
	case len(s.Results) == 1 && res.Len() > 1:
		call, ok := unparen(s.Results[0]).(*ast.CallExpr)
		if !ok {
			return t.fail(s, "return of a multi-value %s", describe(s.Results[0]))
		}
		comps = []string{t.call(call, res.Len())}
	case len(s.Results) == res.Len():
		for i, r := range s.Results {
			comps = append(comps, t.exprAs(r, res.At(i).Type()))
		}
	default:
		return t.fail(s, "malformed return")
	}
	v := comps[0]
	if len(comps) > 1 {
		v = "(" + strings.Join(comps, ", ") + ")"
	}
	if !t.mayPanic {
		return v
	}
	return valOf(v)
}

// valOf wraps a term (an atom or one parenthesised group) in Val.
func valOf(v string) string {
	if strings.HasPrefix(v, "(") {
		return "Val " + v
	}
	return "Val (" + v + ")"
}

// loopState lists the variables declared outside body that body assigns (the
// parameters of the fix), and the list-typed local variables that body or cond
// mention (their total length bounds the fuel).
func (t *fnTr) loopState(body *ast.BlockStmt, cond ast.Expr) (state []*types.Var, lists []*types.Var) {
	seen := map[*types.Var]bool{}
	outer := func(e ast.Expr) *types.Var {
		id, ok := unparen(e).(*ast.Ident)
		if !ok || id.Name == "_" {
			return nil
		}
		v, ok := t.u.info.Uses[id].(*types.Var)
		if !ok {
			return nil
		}
		if _, local := t.names[v]; !local {
			return nil
		}
		if v.Pos() >= body.Pos() && v.Pos() < body.End() {
			return nil // declared inside the loop body
		}
		return v
	}
	add := func(e ast.Expr) {
		if v := outer(e); v != nil && !seen[v] {
			seen[v] = true
			state = append(state, v)
		}
	}
	ast.Inspect(body, func(n ast.Node) bool {
		switch n := n.(type) {
		case *ast.AssignStmt:
			for _, l := range n.Lhs {
				add(l)
			}
		case *ast.IncDecStmt:
			add(n.X)
		}
		return true
	})
	seenL := map[*types.Var]bool{}
	look := func(n ast.Node) bool {
		if id, ok := n.(*ast.Ident); ok {
			if v := outer(id); v != nil && !seenL[v] && isList(v.Type()) {
				seenL[v] = true
				lists = append(lists, v)
			}
		}
		return true
	}
	if cond != nil {
		ast.Inspect(cond, look)
	}
	ast.Inspect(body, look)
	return state, lists
}

// forStmt translates "for { body }", "for cond { body }" and "for init; cond; { body }"
// (no post statement) into a nested fix over fuel, emitted in place.  The init
// statement is an ordinary statement in front of the loop (its variables are
// not captured by any closure: closures are rejected).  The loop state (the fix
// parameters) are the variables declared outside the loop body that the body
// assigns; the fuel is one more than the total length of the list-typed local
// variables the loop mentions.  A return in the body is a plain Val (the fix has
// the result type of the function); the statements after the loop are inlined in
// the branch that leaves the loop.
func (t *fnTr) forStmt(s *ast.ForStmt, rest []ast.Stmt, ind string) string {
	if s.Post != nil {
		return t.fail(s, "for loop with post statement")
	}
	if s.Init != nil {
		return t.stmts(join([]ast.Stmt{s.Init, &ast.ForStmt{For: s.For, Cond: s.Cond, Body: s.Body}}, rest), ind)
	}
	if t.inLoop > 0 {
		return t.fail(s, "nested loop")
	}
	t.nhoist++ // a loop can run out of fuel: the function is outcome-typed
	state, lists := t.loopState(s.Body, s.Cond)
	var binders, names, lens []string
	for _, v := range state {
		binders = append(binders, fmt.Sprintf("(%s : %s)", t.names[v], t.coqType(s, v.Type())))
		names = append(names, t.names[v])
	}
	for _, v := range lists {
		lens = append(lens, "length "+t.names[v])
	}
	if len(lens) == 0 {
		return t.fail(s, "loop that mentions no list-typed variable")
	}
	t.nloop++
	name := fmt.Sprintf("loop%d", t.nloop)
	marker := &ast.EmptyStmt{Implicit: true}
	t.loopEnd[marker] = strings.TrimSpace(name + " lfuel' " + strings.Join(names, " "))
	body := join(s.Body.List, []ast.Stmt{marker})
	in := ind + "    "
	head := fmt.Sprintf("%s(fix %s (lfuel : nat) %s {struct lfuel} : %s :=\n%s  match lfuel with\n%s  | O => Fuel\n%s  | S lfuel' =>\n",
		ind, name, strings.Join(binders, " "), t.result, ind, ind, ind)
	tail := fmt.Sprintf("\n%s  end) (S (%s)) %s", ind, strings.Join(lens, " + "), strings.Join(names, " "))
	var inner string
	if s.Cond == nil {
		t.inLoop++
		inner = t.stmts(body, in)
		t.inLoop--
	} else {
		if tv, ok := t.u.info.Types[s.Cond]; !ok || !isBoolean(tv.Type) {
			return t.fail(s.Cond, "condition that is not a boolean")
		}
		c := t.expr(s.Cond)
		inner = t.emit(in, "", func() string {
			t.inLoop++
			a := t.stmts(body, in+"  ")
			t.inLoop--
			b := t.stmts(rest, in+"  ")
			return fmt.Sprintf("%sif %s then\n%s\n%selse\n%s", in, c, a, in, b)
		})
	}
	return head + inner + tail
}

// rangeStmt translates "for i, x := range xs { body }" over a slice (of bytes or
// of pairs) into a fix that is structurally recursive on the list: Go evaluates
// xs once, the number of iterations is its length then, and x is a copy of the
// element (the subset has no assignment through an index, so the elements
// cannot change meanwhile).  No fuel is needed.
func (t *fnTr) rangeStmt(s *ast.RangeStmt, rest []ast.Stmt, ind string) string {
	if t.inLoop > 0 {
		return t.fail(s, "nested loop")
	}
	if s.Tok != token.DEFINE {
		return t.fail(s, "range loop that does not declare its variables")
	}
	xt, ok := t.u.info.Types[s.X]
	if !ok || !isList(xt.Type) {
		return t.fail(s.X, "range over a value that is not a byte slice or a slice of pairs")
	}
	if _, isSlice := xt.Type.Underlying().(*types.Slice); !isSlice {
		return t.fail(s.X, "range over a string")
	}
	elem := "Z"
	if isPairs(xt.Type) {
		elem = "(Z * Z)"
	}
	varName := func(e ast.Expr) string {
		if e == nil {
			return ""
		}
		id, ok := e.(*ast.Ident)
		if !ok {
			t.fail(e, "range variable that is not an identifier")
			return ""
		}
		if id.Name == "_" {
			return ""
		}
		v, ok := t.u.info.Defs[id].(*types.Var)
		if !ok {
			t.fail(e, "unresolved range variable")
			return ""
		}
		return t.names[v]
	}
	key, val := varName(s.Key), varName(s.Value)
	x := t.expr(s.X)
	state, _ := t.loopState(s.Body, nil)
	var binders, names []string
	for _, v := range state {
		binders = append(binders, fmt.Sprintf("(%s : %s)", t.names[v], t.coqType(s, v.Type())))
		names = append(names, t.names[v])
	}
	t.nloop++
	name := fmt.Sprintf("loop%d", t.nloop)
	rng, rix, rhd := fmt.Sprintf("rng%d", t.nloop), fmt.Sprintf("rix%d", t.nloop), fmt.Sprintf("rhd%d", t.nloop)
	marker := &ast.EmptyStmt{Implicit: true}
	t.loopEnd[marker] = strings.TrimSpace(fmt.Sprintf("%s %s' (%s + 1) %s", name, rng, rix, strings.Join(names, " ")))
	body := join(s.Body.List, []ast.Stmt{marker})
	in := ind + "    "
	return t.emit(ind, "", func() string {
		head := fmt.Sprintf("%s(fix %s (%s : list %s) (%s : Z) %s {struct %s} : %s :=\n%s  match %s with\n%s  | [] =>\n",
			ind, name, rng, elem, rix, strings.Join(binders, " "), rng, t.result, ind, rng, ind)
		after := t.stmts(rest, in)
		mid := fmt.Sprintf("\n%s  | %s :: %s' =>\n", ind, rhd, rng)
		if key != "" {
			mid += fmt.Sprintf("%slet %s := %s in\n", in, key, rix)
		}
		if val != "" {
			mid += fmt.Sprintf("%slet %s := %s in\n", in, val, rhd)
		}
		t.inLoop++
		b := t.stmts(body, in)
		t.inLoop--
		tail := fmt.Sprintf("\n%s  end) %s 0 %s", ind, x, strings.Join(names, " "))
		return head + after + mid + b + strings.TrimRight(tail, " ")
	})
}

// ---------------------------------------------------------------- expressions

// exprAs translates e in a context that expects a value of type target
// (assignment, argument, result).
func (t *fnTr) exprAs(e ast.Expr, target types.Type) string {
	if target == nil {
		return t.expr(e)
	}
	if isErrorType(target) {
		return t.errExpr(e)
	}
	if id, ok := unparen(e).(*ast.Ident); ok {
		if _, isNil := t.u.info.Uses[id].(*types.Nil); isNil {
			if _, isSlice := target.Underlying().(*types.Slice); isSlice && isBytes(target) {
				return "(@nil Z)"
			}
			return t.fail(e, "nil of type %s", target)
		}
	}
	if tv, ok := t.u.info.Types[e]; ok && target != nil && tv.Type != nil {
		a, okA := coqType(tv.Type)
		b, okB := coqType(target)
		if okA && okB && a != b {
			return t.fail(e, "implicit conversion from %s to %s", tv.Type, target)
		}
	}
	return t.expr(e)
}

// errExpr translates an expression of type error: nil, a local variable of
// type error, or a package-level error variable (decided syntactically, the
// declaring package need not be importable).
func (t *fnTr) errExpr(e ast.Expr) string {
	// Errors are the constructors of the enumeration go_err that the front end emits: ENil and one
	// E_<name> per package-level error variable (= error site class) of the synthesized file.  No Coq
	// string is involved, so the translated functions extract without Coq's String module.
	switch x := unparen(e).(type) {
	case *ast.Ident:
		switch o := t.u.info.Uses[x].(type) {
		case *types.Nil:
			return "ENil"
		case *types.Var:
			if n, ok := t.names[o]; ok {
				if isErrorType(o.Type()) {
					return n
				}
			} else if o.Parent() == t.u.pkg.Scope() && isErrorType(o.Type()) {
				return "E_" + x.Name
			}
		}
	}
	return t.fail(e, "error value that is neither nil nor a package-level variable of the file")
}

func (t *fnTr) expr(e ast.Expr) string {
	if t.bad != "" {
		return "?"
	}
	if id, ok := e.(*ast.Ident); ok {
		if s, ok := t.synth[id]; ok {
			return s
		}
	}
	tv, ok := t.u.info.Types[e]
	if !ok || tv.Type == nil {
		return t.fail(e, "expression without type (%s)", describe(e))
	}
	if tv.Value != nil {
		return t.constant(e, tv)
	}
	if tv.IsType() {
		return t.fail(e, "type used as a value")
	}
	t.coqType(e, tv.Type)
	if t.bad != "" {
		return "?"
	}
	switch e := e.(type) {
	case *ast.ParenExpr:
		return t.expr(e.X)

	case *ast.Ident:
		switch o := t.u.info.Uses[e].(type) {
		case *types.Var:
			if n, ok := t.names[o]; ok {
				return n
			}
			return t.fail(e, "use of non-local variable %s", e.Name)
		case *types.Nil:
			if isBytes(tv.Type) {
				return "(@nil Z)"
			}
		}
		return t.fail(e, "use of identifier %s", e.Name)

	case *ast.UnaryExpr:
		switch e.Op {
		case token.NOT:
			return "(negb " + t.expr(e.X) + ")"
		case token.ADD:
			if isInteger(tv.Type) {
				return t.expr(e.X)
			}
		case token.SUB:
			if isInteger(tv.Type) {
				return t.wrapped(e, tv.Type, "(- "+t.expr(e.X)+")")
			}
		case token.XOR:
			if isInteger(tv.Type) {
				return t.wrapped(e, tv.Type, "(Z.lnot "+t.expr(e.X)+")")
			}
		}
		return t.fail(e, "unary operator %s", e.Op)

	case *ast.BinaryExpr:
		return t.binary(e, tv.Type)

	case *ast.CallExpr:
		return t.call(e, 1)

	case *ast.IndexExpr:
		xt, ok := t.u.info.Types[e.X]
		if ok && isPair(xt.Type) {
			// r[0] / r[1] of an array [2]T: the constant index is checked by the compiler
			it, ok := t.u.info.Types[e.Index]
			if !ok || it.Value == nil {
				return t.fail(e, "index into an array with a non-constant index")
			}
			switch v, exact := constant.Int64Val(constant.ToInt(it.Value)); {
			case exact && v == 0:
				return "(fst " + t.expr(e.X) + ")"
			case exact && v == 1:
				return "(snd " + t.expr(e.X) + ")"
			}
			return t.fail(e, "array index out of range")
		}
		if ok && isPairs(xt.Type) {
			x := t.expr(e.X)
			i := t.intOperand(e.Index)
			return t.hoistOp("index_p " + x + " " + i)
		}
		if !ok || !isBytes(xt.Type) {
			return t.fail(e, "index into a value that is not a byte slice, string or slice of pairs")
		}
		x := t.expr(e.X)
		i := t.intOperand(e.Index)
		return t.hoistOp("index " + x + " " + i)

	case *ast.SliceExpr:
		xt, ok := t.u.info.Types[e.X]
		if !ok || !isList(xt.Type) {
			return t.fail(e, "slice of a value that is not a byte slice, string or slice of pairs")
		}
		if e.Slice3 {
			return t.fail(e, "three-index slice")
		}
		sfx := ""
		if isPairs(xt.Type) {
			sfx = "_p"
		}
		x := t.expr(e.X)
		switch {
		case e.Low != nil && e.High != nil:
			lo := t.intOperand(e.Low)
			hi := t.intOperand(e.High)
			return t.hoistOp("slice_lo_hi" + sfx + " " + x + " " + lo + " " + hi)
		case e.Low != nil:
			return t.hoistOp("slice_lo" + sfx + " " + x + " " + t.intOperand(e.Low))
		case e.High != nil:
			return t.hoistOp("slice_hi" + sfx + " " + x + " " + t.intOperand(e.High))
		}
		return x
	}
	return t.fail(e, "%s", describe(e))
}

// intOperand translates an operand that must be an integer.
func (t *fnTr) intOperand(e ast.Expr) string {
	if tv, ok := t.u.info.Types[e]; !ok || !isInteger(tv.Type) {
		return t.fail(e, "operand that is not an integer")
	}
	return t.expr(e)
}

// constant renders a constant expression folded by the type checker.
func (t *fnTr) constant(e ast.Expr, tv types.TypeAndValue) string {
	switch {
	case isInteger(tv.Type):
		if v := constant.ToInt(tv.Value); v.Kind() == constant.Int {
			return zlit(v.ExactString())
		}
	case isBoolean(tv.Type):
		if tv.Value.Kind() == constant.Bool {
			if constant.BoolVal(tv.Value) {
				return "true"
			}
			return "false"
		}
	case basicInfo(tv.Type)&types.IsString != 0:
		if tv.Value.Kind() == constant.String {
			s := constant.StringVal(tv.Value)
			if s == "" {
				return "(@nil Z)"
			}
			var xs []string
			for i := 0; i < len(s); i++ {
				xs = append(xs, fmt.Sprint(s[i]))
			}
			return "[" + strings.Join(xs, "; ") + "]"
		}
	}
	return t.fail(e, "constant of type %s", tv.Type)
}

func (t *fnTr) binary(e *ast.BinaryExpr, ty types.Type) string {
	xt, okX := t.u.info.Types[e.X]
	yt, okY := t.u.info.Types[e.Y]
	if !okX || !okY {
		return t.fail(e, "operand without type")
	}
	switch e.Op {
	case token.LAND, token.LOR:
		if !isBoolean(xt.Type) || !isBoolean(yt.Type) {
			return t.fail(e, "operator %s on non-booleans", e.Op)
		}
		x := t.expr(e.X)
		outer := t.hoists
		t.hoists = nil
		y := t.expr(e.Y)
		inner := t.hoists
		t.hoists = outer
		if len(inner) > 0 {
			// The right operand can panic and is evaluated only when the left
			// one does not decide: the whole expression becomes one hoisted
			// computation that keeps the short circuit.
			var sb strings.Builder
			for _, h := range inner {
				fmt.Fprintf(&sb, "bind (%s) (fun %s => ", h.comp, h.pat)
			}
			sb.WriteString(valOf(y))
			sb.WriteString(strings.Repeat(")", len(inner)))
			if e.Op == token.LAND {
				return t.hoistOp("if " + x + " then " + sb.String() + " else Val false")
			}
			return t.hoistOp("if " + x + " then Val true else " + sb.String())
		}
		op := "&&"
		if e.Op == token.LOR {
			op = "||"
		}
		return "(" + x + " " + op + " " + y + ")"

	case token.EQL, token.NEQ:
		var s string
		switch {
		case isInteger(xt.Type) && isInteger(yt.Type):
			s = "(" + t.expr(e.X) + " =? " + t.expr(e.Y) + ")"
		case isBoolean(xt.Type) && isBoolean(yt.Type):
			s = "(Bool.eqb " + t.expr(e.X) + " " + t.expr(e.Y) + ")"
		default:
			return t.fail(e, "comparison %s of values that are neither integers nor booleans", e.Op)
		}
		if e.Op == token.NEQ {
			s = "(negb " + s + ")"
		}
		return s

	case token.LSS, token.LEQ, token.GTR, token.GEQ:
		if !isInteger(xt.Type) || !isInteger(yt.Type) {
			return t.fail(e, "comparison %s of non-integers", e.Op)
		}
		x, y := t.expr(e.X), t.expr(e.Y)
		switch e.Op {
		case token.LSS:
			return "(" + x + " <? " + y + ")"
		case token.LEQ:
			return "(" + x + " <=? " + y + ")"
		case token.GTR:
			return "(" + y + " <? " + x + ")"
		default:
			return "(" + y + " <=? " + x + ")"
		}

	case token.SHL, token.SHR:
		if !isInteger(ty) || !isInteger(xt.Type) || !isInteger(yt.Type) {
			return t.fail(e, "shift of non-integers")
		}
		if yt.Value == nil && !isUnsigned(yt.Type) {
			return t.fail(e, "shift by a non-constant count of signed type")
		}
		x, y := t.expr(e.X), t.expr(e.Y)
		if e.Op == token.SHR {
			return "(Z.shiftr " + x + " " + y + ")"
		}
		return t.wrapped(e, ty, "(Z.shiftl "+x+" "+y+")")
	}

	// arithmetic and bitwise operators on integers
	if !isInteger(ty) || !isInteger(xt.Type) || !isInteger(yt.Type) {
		return t.fail(e, "operator %s on non-integers", e.Op)
	}
	x, y := t.expr(e.X), t.expr(e.Y)
	switch e.Op {
	case token.ADD:
		return t.wrapped(e, ty, "("+x+" + "+y+")")
	case token.SUB:
		return t.wrapped(e, ty, "("+x+" - "+y+")")
	case token.MUL:
		return t.wrapped(e, ty, "("+x+" * "+y+")")
	case token.XOR:
		return t.wrapped(e, ty, "(Z.lxor "+x+" "+y+")")
	case token.AND:
		return "(Z.land " + x + " " + y + ")"
	case token.OR:
		return "(Z.lor " + x + " " + y + ")"
	case token.AND_NOT:
		return "(Z.ldiff " + x + " " + y + ")"
	case token.QUO, token.REM:
		nonzero := false
		if yt.Value != nil {
			if v := constant.ToInt(yt.Value); v.Kind() == constant.Int && constant.Sign(v) != 0 {
				nonzero = true
			}
		}
		switch {
		case e.Op == token.QUO && nonzero:
			return t.wrapped(e, ty, "(Z.quot "+x+" "+y+")")
		case e.Op == token.QUO:
			return t.wrapped(e, ty, t.hoistOp("quot_checked "+x+" "+y))
		case nonzero:
			return "(Z.rem " + x + " " + y + ")"
		default:
			return t.hoistOp("rem_checked " + x + " " + y)
		}
	}
	return t.fail(e, "operator %s", e.Op)
}

// call translates a conversion, a builtin, a call of a function of the file
// or a call of a function of an imported package.  nres is the number of
// results the context accepts.
func (t *fnTr) call(e *ast.CallExpr, nres int) string {
	if t.bad != "" {
		return "?"
	}
	info := t.u.info
	if ftv, ok := info.Types[e.Fun]; ok && ftv.IsType() {
		return t.conversion(e, ftv.Type)
	}
	if e.Ellipsis.IsValid() {
		if id, ok := unparen(e.Fun).(*ast.Ident); !ok || !isBuiltin(info.Uses[id], "append") {
			return t.fail(e, "call with ... argument")
		}
	}
	switch f := unparen(e.Fun).(type) {
	case *ast.Ident:
		switch o := info.Uses[f].(type) {
		case *types.Builtin:
			if nres != 1 {
				return t.fail(e, "builtin %s in a multi-value context", o.Name())
			}
			return t.builtin(o.Name(), e)
		case *types.Func:
			return t.userCall(o, nil, e, nres)
		}
		return t.fail(e, "call of %s", f.Name)
	case *ast.SelectorExpr:
		if id, ok := f.X.(*ast.Ident); ok {
			if pn, ok := info.Uses[id].(*types.PkgName); ok {
				return t.externCall(pn, f, e, nres)
			}
		}
		if sel := info.Selections[f]; sel != nil && sel.Kind() == types.MethodVal && !sel.Indirect() {
			if fn, ok := sel.Obj().(*types.Func); ok && len(sel.Index()) == 1 {
				return t.userCall(fn, f.X, e, nres)
			}
		}
		return t.fail(e, "call of selector %s", f.Sel.Name)
	}
	return t.fail(e, "call of %s", describe(e.Fun))
}

func isBuiltin(o types.Object, name string) bool {
	b, ok := o.(*types.Builtin)
	return ok && b.Name() == name
}

func (t *fnTr) conversion(e *ast.CallExpr, to types.Type) string {
	if len(e.Args) != 1 {
		return t.fail(e, "malformed conversion")
	}
	from, ok := t.u.info.Types[e.Args[0]]
	if !ok {
		return t.fail(e, "conversion of an expression without type")
	}
	switch {
	case isInteger(to) && isInteger(from.Type):
		return t.wrapped(e, to, t.expr(e.Args[0]))
	case isBytes(to) && isBytes(from.Type):
		return t.expr(e.Args[0]) // []byte <-> string: same list of bytes
	case isBoolean(to) && isBoolean(from.Type):
		return t.expr(e.Args[0])
	case isPair(to) && isPair(from.Type) && types.Identical(to.Underlying(), from.Type.Underlying()):
		return t.expr(e.Args[0]) // [2]T <-> named [2]T: the same pair
	}
	return t.fail(e, "conversion from %s to %s", from.Type, to)
}

func (t *fnTr) builtin(name string, e *ast.CallExpr) string {
	switch name {
	case "len":
		if len(e.Args) == 1 {
			if at, ok := t.u.info.Types[e.Args[0]]; ok && isList(at.Type) {
				return "(len " + t.expr(e.Args[0]) + ")"
			}
		}
		return t.fail(e, "len of a value that is not a byte slice or string")
	case "append":
		if len(e.Args) == 0 {
			return t.fail(e, "malformed append")
		}
		if at, ok := t.u.info.Types[e.Args[0]]; !ok || !isBytes(at.Type) {
			return t.fail(e, "append to a value that is not a byte slice")
		}
		base := t.expr(e.Args[0])
		if e.Ellipsis.IsValid() {
			if len(e.Args) != 2 {
				return t.fail(e, "malformed append")
			}
			if at, ok := t.u.info.Types[e.Args[1]]; !ok || !isBytes(at.Type) {
				return t.fail(e, "append of a value that is not a byte slice or string")
			}
			return "(" + base + " ++ " + t.expr(e.Args[1]) + ")"
		}
		if len(e.Args) == 1 {
			return base
		}
		var xs []string
		for _, a := range e.Args[1:] {
			xs = append(xs, t.intOperand(a))
		}
		return "(" + base + " ++ [" + strings.Join(xs, "; ") + "])"
	}
	return t.fail(e, "builtin %s", name)
}

// args translates the arguments of a call against the parameter types.
func (t *fnTr) args(e *ast.CallExpr, sig *types.Signature, recv ast.Expr) []string {
	var xs []string
	if recv != nil {
		t.coqType(recv, sig.Recv().Type())
		xs = append(xs, t.exprAs(recv, sig.Recv().Type()))
	}
	if sig.Variadic() || sig.Params().Len() != len(e.Args) {
		t.fail(e, "call with a variadic or multi-value argument list")
		return xs
	}
	for i, a := range e.Args {
		pt := sig.Params().At(i).Type()
		t.coqType(a, pt)
		xs = append(xs, t.exprAs(a, pt))
	}
	return xs
}

func (t *fnTr) checkResults(e *ast.CallExpr, sig *types.Signature, nres int) bool {
	if sig.Results().Len() != nres {
		t.fail(e, "call with %d results in a context for %d", sig.Results().Len(), nres)
		return false
	}
	for i := 0; i < nres; i++ {
		t.coqType(e, sig.Results().At(i).Type())
	}
	return t.bad == ""
}

// app renders an application without enclosing parentheses.
func app(fn string, xs []string) string {
	return strings.Join(append([]string{fn}, xs...), " ")
}

// paren encloses an application in parentheses; atoms stay as they are.
func paren(s string) string {
	if strings.Contains(s, " ") {
		return "(" + s + ")"
	}
	return s
}

func (t *fnTr) userCall(fn *types.Func, recv ast.Expr, e *ast.CallExpr, nres int) string {
	callee := t.u.funcs[fn]
	if callee == nil {
		return t.fail(e, "call of %s, which is not defined in this file", fn.Name())
	}
	sig := fn.Type().(*types.Signature)
	if fn == t.fi.obj {
		// self-call of a function translated as a Fixpoint over fuel
		if !t.rec || recv != nil {
			return t.fail(e, "recursion")
		}
		if !t.checkResults(e, sig, nres) {
			return "?"
		}
		return t.hoistOp(app(t.fi.def.CoqName+"_rec rfuel'", t.args(e, sig, nil)))
	}
	if callee.def.Unsupported != "" || callee.def.Result == "" {
		return t.fail(e, "call of untranslated %s", callee.def.CoqName)
	}
	if !t.checkResults(e, sig, nres) {
		return "?"
	}
	s := app(callee.def.CoqName, t.args(e, sig, recv))
	if callee.def.MayPanic {
		return t.hoistOp(s)
	}
	return paren(s)
}

// externCall translates pkg.F(args) to pkg_F args, where pkg is the last
// element of the import path.  The definition has to be provided by hand
// (Base/GoInt.v) as a total function; otherwise the generated file does not
// compile.
func (t *fnTr) externCall(pn *types.PkgName, f *ast.SelectorExpr, e *ast.CallExpr, nres int) string {
	ftv, ok := t.u.info.Types[e.Fun]
	if !ok {
		return t.fail(e, "call of unresolved %s.%s", pn.Name(), f.Sel.Name)
	}
	sig, ok := ftv.Type.(*types.Signature)
	if !ok {
		return t.fail(e, "call of unresolved %s.%s", pn.Name(), f.Sel.Name)
	}
	if _, isFunc := t.u.info.Uses[f.Sel].(*types.Func); !isFunc {
		return t.fail(e, "call of the function value %s.%s", pn.Name(), f.Sel.Name)
	}
	if !t.checkResults(e, sig, nres) {
		return "?"
	}
	return paren(app(path.Base(pn.Imported().Path())+"_"+f.Sel.Name, t.args(e, sig, nil)))
}

// describe names a syntax node for an "unsupported" reason.
func describe(n ast.Node) string {
	switch n := n.(type) {
	case *ast.ExprStmt:
		return "expression statement"
	case *ast.BasicLit:
		return "literal " + n.Value
	case *ast.SelectorExpr:
		return "selector expression"
	case *ast.IndexExpr:
		return "index expression"
	case *ast.SliceExpr:
		return "slice expression"
	case *ast.FuncLit:
		return "closure"
	case *ast.Ident:
		return "identifier " + n.Name
	}
	s := strings.TrimPrefix(fmt.Sprintf("%T", n), "*ast.")
	return s
}
