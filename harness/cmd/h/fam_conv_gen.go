//go:build verif

package main

// family "conv": generator of random *valid* FileDescriptorProtos
// (proto2, proto3, editions 2023/2024 with feature overrides) together with
// their dependency files, plus an independent re-implementation of the
// scope-based type-name lookup that the generator uses to choose relative /
// partially qualified / absolute spellings of every type reference.

import (
	"fmt"
	"math"
	"strconv"
	"strings"

	"google.golang.org/protobuf/internal/strs"
	"google.golang.org/protobuf/proto"
	"google.golang.org/protobuf/reflect/protoreflect"
	"google.golang.org/protobuf/types/descriptorpb"
)

const (
	convKindOther = 0 // field, oneof, enum value, extension, service, method
	convKindMsg   = 1
	convKindEnum  = 2
)

// convRemote is one descriptor visible through the resolver.
type convRemote struct {
	full     string
	kind     int
	imported bool // declaring file is covered by the import set of the file being built
}

type convType struct {
	full      string
	enum      bool
	closed    bool
	firstZero bool
	values    []string
	extRanges [][2]int32
	mapEntry  bool
	remote    bool
	mset      bool
}

type convFeat struct {
	presence, legacyReq, open, packed, utf8, delim, json bool
}

func convDefaultsFor(edition int) convFeat {
	switch edition {
	case 998:
		return convFeat{presence: true, open: false, packed: false, utf8: false, delim: false, json: false}
	case 999:
		return convFeat{presence: false, open: true, packed: true, utf8: true, delim: false, json: true}
	default:
		return convFeat{presence: true, open: true, packed: true, utf8: true, delim: false, json: true}
	}
}

func convMergeFeat(f convFeat, fs *descriptorpb.FeatureSet) convFeat {
	if fs == nil {
		return f
	}
	if fs.FieldPresence != nil {
		f.presence = *fs.FieldPresence == descriptorpb.FeatureSet_EXPLICIT || *fs.FieldPresence == descriptorpb.FeatureSet_LEGACY_REQUIRED
		f.legacyReq = *fs.FieldPresence == descriptorpb.FeatureSet_LEGACY_REQUIRED
	}
	if fs.EnumType != nil {
		f.open = *fs.EnumType == descriptorpb.FeatureSet_OPEN
	}
	if fs.RepeatedFieldEncoding != nil {
		f.packed = *fs.RepeatedFieldEncoding == descriptorpb.FeatureSet_PACKED
	}
	if fs.Utf8Validation != nil {
		f.utf8 = *fs.Utf8Validation == descriptorpb.FeatureSet_VERIFY
	}
	if fs.MessageEncoding != nil {
		f.delim = *fs.MessageEncoding == descriptorpb.FeatureSet_DELIMITED
	}
	if fs.JsonFormat != nil {
		f.json = *fs.JsonFormat == descriptorpb.FeatureSet_ALLOW
	}
	return f
}

// ---------------------------------------------------------------- lookup oracle

type convEnv struct {
	local  map[string]int // full name -> kind
	remote map[string]convRemote
}

const (
	convResFound       = 0
	convResNotFound    = 1
	convResNotImported = 2
	convResInvalid     = 3
)

func convIdentOK(s string) bool {
	if s == "" {
		return false
	}
	for i := 0; i < len(s); i++ {
		c := s[i]
		letter := c == '_' || ('a' <= c && c <= 'z') || ('A' <= c && c <= 'Z')
		if !(letter || (i > 0 && '0' <= c && c <= '9')) {
			return false
		}
	}
	return true
}

func convFullOK(s string) bool {
	for _, p := range strings.Split(s, ".") {
		if !convIdentOK(p) {
			return false
		}
	}
	return true
}

func convParent(s string) string {
	if i := strings.LastIndexByte(s, '.'); i >= 0 {
		return s[:i]
	}
	return ""
}

// convLookup mirrors the documented search order: scope.ref, parent(scope).ref, ..., ref;
// at every level the file's own declarations win over imported ones.
func (e *convEnv) lookup(scope, ref string) (status int, full string, kind int) {
	r := ref
	if strings.HasPrefix(r, ".") {
		r = r[1:]
		scope = ""
	}
	if !convFullOK(r) {
		return convResInvalid, "", 0
	}
	notImported := false
	for {
		s := r
		if scope != "" {
			s = scope + "." + r
		}
		if k, ok := e.local[s]; ok {
			return convResFound, s, k
		}
		if rm, ok := e.remote[s]; ok {
			if rm.imported {
				return convResFound, s, rm.kind
			}
			notImported = true
		}
		if scope == "" {
			if notImported {
				return convResNotImported, "", 0
			}
			return convResNotFound, "", 0
		}
		scope = convParent(scope)
	}
}

// ---------------------------------------------------------------- generator

type convGen struct {
	c       *Ctx
	edition int // 998 proto2, 999 proto3, 1000, 1001
	path    string
	pkg     string
	liberal bool // feature overrides also on targets protoc would refuse
	env     *convEnv
	types   []*convType // local + imported
	fileFS  convFeat
	fd      *descriptorpb.FileDescriptorProto
	refs    []*convPendingRef
	extUsed map[string]map[int32]bool
	hasDescriptorDep bool
	noNames int
}

type convPendingRef struct {
	scope  string
	target string
	set    func(string)
}

var convMsgNames = []string{"M", "N", "Foo", "Bar", "A", "B", "Inner", "T", "foo", "Msg"}
var convEnumNames = []string{"E", "Kind", "Color", "Foo", "A", "Enum", "e"}
var convFieldNames = []string{"a", "b", "foo", "bar", "id", "value", "key", "name", "foo_bar", "fooBar", "x_1", "_u", "a__b", "Foo", "f1", "f2", "f3", "f4", "f5", "f6", "f7", "f8", "opt_a", "rep_a", "M", "e"}
var convValueNames = []string{"ZERO", "ONE", "TWO", "A", "B", "E_A", "KIND_X", "UNKNOWN", "FOO", "foo", "Bar", "V0", "V1", "V2", "V3", "V4", "V5", "V6"}
var convPkgs = []string{"", "p", "p.q", "foo.bar", "A.B", "x", "conv.t1", "M"}

func convJoin(scope, name string) string {
	if scope == "" {
		return name
	}
	return scope + "." + name
}

func (g *convGen) isEditions() bool { return g.edition >= 1000 }

// claim picks an unused name in scope from the pool (falling back to a counter).
func (g *convGen) taken(full string) bool {
	// a name declared in this file, or (any kind of) name visible through the resolver:
	// protoc refuses the same full name in two files of one link unit
	if _, ok := g.env.local[full]; ok {
		return true
	}
	_, ok := g.env.remote[full]
	return ok
}

func (g *convGen) claim(scope string, pool []string, kind int) string {
	for try := 0; try < 6; try++ {
		n := pool[g.c.Intn(len(pool))]
		if !g.taken(convJoin(scope, n)) {
			g.env.local[convJoin(scope, n)] = kind
			return n
		}
	}
	for {
		g.noNames++
		n := fmt.Sprintf("%s%d", pool[g.c.Intn(len(pool))], g.noNames)
		if !g.taken(convJoin(scope, n)) {
			g.env.local[convJoin(scope, n)] = kind
			return n
		}
	}
}

func (g *convGen) claimExact(scope, n string, kind int) bool {
	if g.taken(convJoin(scope, n)) {
		return false
	}
	g.env.local[convJoin(scope, n)] = kind
	return true
}

func (g *convGen) randFeatures(target string) *descriptorpb.FeatureSet {
	if !g.isEditions() || g.c.Intn(3) != 0 {
		return nil
	}
	fs := &descriptorpb.FeatureSet{}
	lib := g.liberal
	c := g.c
	if (target == "file" || target == "field" || lib) && c.Intn(3) == 0 {
		v := descriptorpb.FeatureSet_EXPLICIT
		if c.Bool() {
			v = descriptorpb.FeatureSet_IMPLICIT
		}
		if target == "field" && c.Intn(3) == 0 {
			v = descriptorpb.FeatureSet_LEGACY_REQUIRED
		}
		fs.FieldPresence = v.Enum()
	}
	if (target == "file" || target == "enum" || lib) && c.Intn(3) == 0 {
		v := descriptorpb.FeatureSet_OPEN
		if c.Bool() {
			v = descriptorpb.FeatureSet_CLOSED
		}
		fs.EnumType = v.Enum()
	}
	if (target == "file" || target == "field" || lib) && c.Intn(3) == 0 {
		v := descriptorpb.FeatureSet_PACKED
		if c.Bool() {
			v = descriptorpb.FeatureSet_EXPANDED
		}
		fs.RepeatedFieldEncoding = v.Enum()
	}
	if (target == "file" || target == "field" || lib) && c.Intn(3) == 0 {
		v := descriptorpb.FeatureSet_VERIFY
		if c.Bool() {
			v = descriptorpb.FeatureSet_NONE
		}
		fs.Utf8Validation = v.Enum()
	}
	if (target == "file" || target == "field" || lib) && c.Intn(3) == 0 {
		v := descriptorpb.FeatureSet_LENGTH_PREFIXED
		if c.Bool() {
			v = descriptorpb.FeatureSet_DELIMITED
		}
		fs.MessageEncoding = v.Enum()
	}
	if (target == "file" || target == "message" || target == "enum" || lib) && c.Intn(3) == 0 {
		v := descriptorpb.FeatureSet_ALLOW
		if c.Bool() {
			v = descriptorpb.FeatureSet_LEGACY_BEST_EFFORT
		}
		fs.JsonFormat = v.Enum()
	}
	if c.Intn(12) == 0 {
		fs.EnforceNamingStyle = descriptorpb.FeatureSet_STYLE_LEGACY.Enum()
	}
	if proto.Size(fs) == 0 && c.Bool() {
		return nil
	}
	return fs
}

func (g *convGen) genEnum(scope string, parentFS convFeat) *descriptorpb.EnumDescriptorProto {
	c := g.c
	name := g.claim(scope, convEnumNames, convKindEnum)
	ed := &descriptorpb.EnumDescriptorProto{Name: proto.String(name)}
	fs := g.randFeatures("enum")
	if fs != nil && fs.FieldPresence != nil && fs.GetFieldPresence() == descriptorpb.FeatureSet_LEGACY_REQUIRED {
		fs.FieldPresence = nil
	}
	eff := convMergeFeat(parentFS, fs)
	if fs != nil || c.Intn(5) == 0 {
		ed.Options = &descriptorpb.EnumOptions{Features: fs}
		if c.Intn(3) == 0 {
			ed.Options.Deprecated = proto.Bool(c.Bool())
		}
	}
	nv := 1 + c.Intn(4)
	used := map[int32]bool{}
	ti := &convType{full: convJoin(scope, name), enum: true, closed: !eff.open}
	alias := false
	seenCanon := map[string]bool{}
	prefix := strings.Replace(strings.ToLower(name), "_", "", -1)
	for i := 0; i < nv; i++ {
		vn := g.claim(scope, convValueNames, convKindOther) // values are siblings of the enum
		// open enums: value names must stay distinct after prefix stripping + camel-casing (protoc rule)
		for try := 0; seenCanon[strs.EnumValueName(strs.TrimEnumPrefix(vn, prefix))] && try < 20; try++ {
			delete(g.env.local, convJoin(scope, vn))
			vn = g.claim(scope, convValueNames, convKindOther)
		}
		seenCanon[strs.EnumValueName(strs.TrimEnumPrefix(vn, prefix))] = true
		var num int32
		switch {
		case i == 0 && (eff.open || c.Intn(3) != 0):
			num = 0
		default:
			for {
				switch c.Intn(8) {
				case 0:
					num = -int32(c.Intn(5)) - 1
				case 1:
					num = math.MaxInt32 - int32(c.Intn(2))
				case 2:
					num = math.MinInt32 + int32(c.Intn(2))
				default:
					num = int32(c.Intn(20))
				}
				if !used[num] {
					break
				}
				if i > 0 && c.Intn(4) == 0 {
					alias = true
					break
				}
			}
		}
		used[num] = true
		v := &descriptorpb.EnumValueDescriptorProto{Name: proto.String(vn), Number: proto.Int32(num)}
		if c.Intn(6) == 0 {
			v.Options = &descriptorpb.EnumValueOptions{Deprecated: proto.Bool(c.Bool())}
		} else if c.Intn(12) == 0 {
			v.Options = &descriptorpb.EnumValueOptions{}
		}
		ed.Value = append(ed.Value, v)
		ti.values = append(ti.values, vn)
	}
	ti.firstZero = ed.Value[0].GetNumber() == 0
	if alias {
		if ed.Options == nil {
			ed.Options = &descriptorpb.EnumOptions{}
		}
		ed.Options.AllowAlias = proto.Bool(true)
	}
	// reserved ranges (inclusive for enums) and names that do not hit a value
	if c.Intn(3) == 0 {
		for k := 0; k < 1+c.Intn(2); k++ {
			lo := int32(100 + 20*k + c.Intn(5))
			hi := lo + int32(c.Intn(5))
			ed.ReservedRange = append(ed.ReservedRange, &descriptorpb.EnumDescriptorProto_EnumReservedRange{Start: proto.Int32(lo), End: proto.Int32(hi)})
		}
		if c.Bool() {
			ed.ReservedRange = append(ed.ReservedRange, &descriptorpb.EnumDescriptorProto_EnumReservedRange{Start: proto.Int32(-200), End: proto.Int32(-100)})
		}
	}
	if c.Intn(4) == 0 {
		ed.ReservedName = append(ed.ReservedName, "RESERVED_"+name, "OLD")
	}
	if g.edition >= 1001 && c.Intn(4) == 0 {
		ed.Visibility = descriptorpb.SymbolVisibility(1 + c.Intn(2)).Enum()
	}
	g.types = append(g.types, ti)
	return ed
}

type convMsgPlan struct {
	md    *descriptorpb.DescriptorProto
	full  string
	fs    convFeat
	plain bool // group / map entry body: filled elsewhere
}

// skeleton: names, nested messages and enums, ranges.
func (g *convGen) genMessageSkeleton(scope string, parentFS convFeat, depth int, plans *[]*convMsgPlan) *descriptorpb.DescriptorProto {
	c := g.c
	name := g.claim(scope, convMsgNames, convKindMsg)
	full := convJoin(scope, name)
	md := &descriptorpb.DescriptorProto{Name: proto.String(name)}
	fs := g.randFeatures("message")
	if fs != nil && fs.FieldPresence != nil && fs.GetFieldPresence() == descriptorpb.FeatureSet_LEGACY_REQUIRED {
		fs.FieldPresence = nil
	}
	eff := convMergeFeat(parentFS, fs)
	if fs != nil || c.Intn(6) == 0 {
		md.Options = &descriptorpb.MessageOptions{Features: fs}
		if c.Intn(3) == 0 {
			md.Options.Deprecated = proto.Bool(c.Bool())
		}
		if c.Intn(5) == 0 {
			md.Options.NoStandardDescriptorAccessor = proto.Bool(true)
		}
	}
	ti := &convType{full: full}
	if g.edition != 999 && c.Intn(3) == 0 {
		starts := []int32{100, 1000, 20000}
		for _, st := range starts {
			if c.Bool() {
				continue
			}
			end := st + 1 + int32(c.Intn(50))
			if st == 20000 && c.Bool() {
				st, end = 400000000+int32(c.Intn(1000)), 536870912
			}
			xr := &descriptorpb.DescriptorProto_ExtensionRange{Start: proto.Int32(st), End: proto.Int32(end)}
			if c.Intn(4) == 0 {
				xr.Options = &descriptorpb.ExtensionRangeOptions{}
				if c.Bool() {
					xr.Options.Verification = descriptorpb.ExtensionRangeOptions_UNVERIFIED.Enum()
				}
			}
			md.ExtensionRange = append(md.ExtensionRange, xr)
			ti.extRanges = append(ti.extRanges, [2]int32{st, end})
		}
	}
	if c.Intn(4) == 0 {
		lo := int32(50 + c.Intn(10))
		md.ReservedRange = append(md.ReservedRange, &descriptorpb.DescriptorProto_ReservedRange{Start: proto.Int32(lo), End: proto.Int32(lo + 1 + int32(c.Intn(10)))})
		if c.Bool() {
			md.ReservedRange = append(md.ReservedRange, &descriptorpb.DescriptorProto_ReservedRange{Start: proto.Int32(80), End: proto.Int32(90)})
		}
	}
	if c.Intn(5) == 0 {
		md.ReservedName = append(md.ReservedName, "reserved_"+name, "old_field")
	}
	if g.edition >= 1001 && c.Intn(4) == 0 {
		md.Visibility = descriptorpb.SymbolVisibility(1 + c.Intn(2)).Enum()
	}
	g.types = append(g.types, ti)
	*plans = append(*plans, &convMsgPlan{md: md, full: full, fs: eff})
	if depth < 3 {
		for i, n := 0, c.Intn(3-depth+1); i < n; i++ {
			md.EnumType = append(md.EnumType, g.genEnum(full, eff))
		}
		for i, n := 0, c.Intn(3-depth+1); i < n; i++ {
			md.NestedType = append(md.NestedType, g.genMessageSkeleton(full, eff, depth+1, plans))
		}
	}
	return md
}

var convScalarKinds = []descriptorpb.FieldDescriptorProto_Type{
	descriptorpb.FieldDescriptorProto_TYPE_DOUBLE, descriptorpb.FieldDescriptorProto_TYPE_FLOAT,
	descriptorpb.FieldDescriptorProto_TYPE_INT64, descriptorpb.FieldDescriptorProto_TYPE_UINT64,
	descriptorpb.FieldDescriptorProto_TYPE_INT32, descriptorpb.FieldDescriptorProto_TYPE_FIXED64,
	descriptorpb.FieldDescriptorProto_TYPE_FIXED32, descriptorpb.FieldDescriptorProto_TYPE_BOOL,
	descriptorpb.FieldDescriptorProto_TYPE_STRING, descriptorpb.FieldDescriptorProto_TYPE_BYTES,
	descriptorpb.FieldDescriptorProto_TYPE_UINT32, descriptorpb.FieldDescriptorProto_TYPE_SFIXED32,
	descriptorpb.FieldDescriptorProto_TYPE_SFIXED64, descriptorpb.FieldDescriptorProto_TYPE_SINT32,
	descriptorpb.FieldDescriptorProto_TYPE_SINT64,
}

var convMapKeyKinds = []descriptorpb.FieldDescriptorProto_Type{
	descriptorpb.FieldDescriptorProto_TYPE_INT64, descriptorpb.FieldDescriptorProto_TYPE_UINT64,
	descriptorpb.FieldDescriptorProto_TYPE_INT32, descriptorpb.FieldDescriptorProto_TYPE_FIXED64,
	descriptorpb.FieldDescriptorProto_TYPE_FIXED32, descriptorpb.FieldDescriptorProto_TYPE_BOOL,
	descriptorpb.FieldDescriptorProto_TYPE_STRING,
	descriptorpb.FieldDescriptorProto_TYPE_UINT32, descriptorpb.FieldDescriptorProto_TYPE_SFIXED32,
	descriptorpb.FieldDescriptorProto_TYPE_SFIXED64, descriptorpb.FieldDescriptorProto_TYPE_SINT32,
	descriptorpb.FieldDescriptorProto_TYPE_SINT64,
}

func convPackable(t descriptorpb.FieldDescriptorProto_Type) bool {
	switch t {
	case descriptorpb.FieldDescriptorProto_TYPE_STRING, descriptorpb.FieldDescriptorProto_TYPE_BYTES,
		descriptorpb.FieldDescriptorProto_TYPE_MESSAGE, descriptorpb.FieldDescriptorProto_TYPE_GROUP:
		return false
	}
	return true
}

// canonical default text for a scalar kind (the form defval.Marshal produces).
func (g *convGen) randDefault(t descriptorpb.FieldDescriptorProto_Type) string {
	c := g.c
	switch t {
	case descriptorpb.FieldDescriptorProto_TYPE_BOOL:
		return strconv.FormatBool(c.Bool())
	case descriptorpb.FieldDescriptorProto_TYPE_INT32, descriptorpb.FieldDescriptorProto_TYPE_SINT32, descriptorpb.FieldDescriptorProto_TYPE_SFIXED32:
		v := []int64{0, 1, -1, math.MaxInt32, math.MinInt32, int64(int32(c.U64()))}
		return strconv.FormatInt(v[c.Intn(len(v))], 10)
	case descriptorpb.FieldDescriptorProto_TYPE_INT64, descriptorpb.FieldDescriptorProto_TYPE_SINT64, descriptorpb.FieldDescriptorProto_TYPE_SFIXED64:
		v := []int64{0, 1, -1, math.MaxInt64, math.MinInt64, int64(c.U64())}
		return strconv.FormatInt(v[c.Intn(len(v))], 10)
	case descriptorpb.FieldDescriptorProto_TYPE_UINT32, descriptorpb.FieldDescriptorProto_TYPE_FIXED32:
		v := []uint64{0, 1, math.MaxUint32, uint64(uint32(c.U64()))}
		return strconv.FormatUint(v[c.Intn(len(v))], 10)
	case descriptorpb.FieldDescriptorProto_TYPE_UINT64, descriptorpb.FieldDescriptorProto_TYPE_FIXED64:
		v := []uint64{0, 1, math.MaxUint64, c.U64()}
		return strconv.FormatUint(v[c.Intn(len(v))], 10)
	case descriptorpb.FieldDescriptorProto_TYPE_FLOAT:
		switch c.Intn(6) {
		case 0:
			return "inf"
		case 1:
			return "-inf"
		case 2:
			return "nan"
		}
		f := math.Float32frombits(uint32(c.U64()))
		if f != f || math.IsInf(float64(f), 0) {
			f = 1.5
		}
		return strconv.FormatFloat(float64(f), 'g', -1, 32)
	case descriptorpb.FieldDescriptorProto_TYPE_DOUBLE:
		switch c.Intn(6) {
		case 0:
			return "inf"
		case 1:
			return "-inf"
		case 2:
			return "nan"
		}
		f := math.Float64frombits(c.U64())
		if f != f || math.IsInf(f, 0) {
			f = -2.25
		}
		return strconv.FormatFloat(f, 'g', -1, 64)
	case descriptorpb.FieldDescriptorProto_TYPE_STRING:
		s := []string{"", "hello", "with space", "quote\"'\\", "é世", "a\nb\tc", "\x00"}
		return s[c.Intn(len(s))]
	case descriptorpb.FieldDescriptorProto_TYPE_BYTES:
		// canonical C-escaped form
		s := []string{"", "abc", `\000\001\377`, `a\"b\'c\\`, `\n\r\t`, `\177~ `}
		return s[c.Intn(len(s))]
	}
	return ""
}

func (g *convGen) pickType(enum bool, pred func(*convType) bool) *convType {
	var cands []*convType
	for _, t := range g.types {
		if t.enum == enum && !t.mapEntry && !t.mset && (pred == nil || pred(t)) {
			cands = append(cands, t)
		}
	}
	if len(cands) == 0 {
		return nil
	}
	return cands[g.c.Intn(len(cands))]
}

func (g *convGen) fieldOptions(f *descriptorpb.FieldDescriptorProto) *descriptorpb.FieldOptions {
	if f.Options == nil {
		f.Options = &descriptorpb.FieldOptions{}
	}
	return f.Options
}

func (g *convGen) nextNumber(used map[int32]bool, last *int32) int32 {
	c := g.c
	for {
		var n int32
		seq := false
		switch c.Intn(12) {
		case 0:
			n = 300000 + int32(c.Intn(3))
		case 1:
			n = 18999 - int32(c.Intn(3))
		case 2:
			n = 15 + int32(c.Intn(3))
		default:
			seq = true
			n = *last + 1 + int32(c.Intn(2))
			// skip 50..99 reserved ranges and the 100..150, 1000..1050 extension ranges
			if n >= 50 && n < 151 {
				n = 151
			}
			if n >= 1000 && n < 1051 {
				n = 1051
			}
		}
		// 19000..19999 implementation reserved; 20000..20050, 400000000.. extension ranges
		if n < 1 || used[n] || (n >= 50 && n < 151) || (n >= 1000 && n < 1051) || (n >= 19000 && n < 20051) || n >= 400000000 {
			if seq {
				*last = n
			}
			continue
		}
		used[n] = true
		if seq {
			*last = n
		}
		return n
	}
}

// fillMessage adds fields, oneofs, map entries and groups to a skeleton message.
func (g *convGen) fillMessage(p *convMsgPlan) {
	c := g.c
	md := p.md
	used := map[int32]bool{}
	var last int32
	type slot struct {
		fields []*descriptorpb.FieldDescriptorProto
		oneof  string // real oneof name, "" none
		synth  bool
	}
	var slots []slot
	nslots := c.Intn(6)
	if c.Intn(10) == 0 {
		nslots += 6
	}
	for i := 0; i < nslots; i++ {
		switch {
		case c.Intn(6) == 0: // real oneof
			on := g.claim(p.full, []string{"o", "choice", "kind", "u", "which"}, convKindOther)
			var fs []*descriptorpb.FieldDescriptorProto
			for k, n := 0, 1+c.Intn(3); k < n; k++ {
				if f := g.genField(p, used, &last, true); f != nil {
					fs = append(fs, f)
				}
			}
			if len(fs) == 0 {
				delete(g.env.local, convJoin(p.full, on))
				continue
			}
			slots = append(slots, slot{fields: fs, oneof: on})
		default:
			f := g.genField(p, used, &last, false)
			if f == nil {
				continue
			}
			s := slot{fields: []*descriptorpb.FieldDescriptorProto{f}}
			if f.GetProto3Optional() {
				s.synth = true
			}
			slots = append(slots, s)
		}
	}
	// real oneofs first, synthetic ones after
	idx := int32(0)
	for _, s := range slots {
		if s.oneof != "" {
			od := &descriptorpb.OneofDescriptorProto{Name: proto.String(s.oneof)}
			if c.Intn(5) == 0 {
				od.Options = &descriptorpb.OneofOptions{}
				if g.isEditions() && c.Bool() {
					od.Options.Features = &descriptorpb.FeatureSet{JsonFormat: descriptorpb.FeatureSet_ALLOW.Enum()}
					if g.liberal {
						od.Options.Features.FieldPresence = descriptorpb.FeatureSet_IMPLICIT.Enum()
					}
				}
			}
			md.OneofDecl = append(md.OneofDecl, od)
			for _, f := range s.fields {
				f.OneofIndex = proto.Int32(idx)
			}
			idx++
		}
	}
	for _, s := range slots {
		if s.synth {
			f := s.fields[0]
			on := "_" + f.GetName()
			if !g.claimExact(p.full, on, convKindOther) {
				f.Proto3Optional = nil
				continue
			}
			md.OneofDecl = append(md.OneofDecl, &descriptorpb.OneofDescriptorProto{Name: proto.String(on)})
			f.OneofIndex = proto.Int32(idx)
			idx++
		}
	}
	for _, s := range slots {
		md.Field = append(md.Field, s.fields...)
	}
}

// genField makes one field of message p (and any map entry / group message it needs).
func (g *convGen) genField(p *convMsgPlan, used map[int32]bool, last *int32, inOneof bool) *descriptorpb.FieldDescriptorProto {
	c := g.c
	name := g.claim(p.full, convFieldNames, convKindOther)
	f := &descriptorpb.FieldDescriptorProto{Name: proto.String(name), Number: proto.Int32(g.nextNumber(used, last))}
	drop := func() *descriptorpb.FieldDescriptorProto {
		delete(g.env.local, convJoin(p.full, name))
		return nil
	}
	// field-level features
	var ffs *descriptorpb.FeatureSet
	if g.isEditions() {
		ffs = g.randFeatures("field")
	}
	label := descriptorpb.FieldDescriptorProto_LABEL_OPTIONAL
	if !inOneof {
		switch c.Intn(10) {
		case 0, 1, 2:
			label = descriptorpb.FieldDescriptorProto_LABEL_REPEATED
		case 3:
			if g.edition == 998 {
				label = descriptorpb.FieldDescriptorProto_LABEL_REQUIRED
			}
		}
	}
	if ffs != nil && ffs.FieldPresence != nil {
		// presence overrides only make sense on singular fields outside oneofs
		if label != descriptorpb.FieldDescriptorProto_LABEL_OPTIONAL || inOneof {
			ffs.FieldPresence = nil
		}
	}
	f.Label = label.Enum()
	eff := convMergeFeat(p.fs, ffs)
	singular := label != descriptorpb.FieldDescriptorProto_LABEL_REPEATED
	hasPresence := singular && (eff.presence || inOneof)

	cat := c.Intn(20)
	switch {
	case cat < 11: // scalar
		f.Type = convScalarKinds[c.Intn(len(convScalarKinds))].Enum()
	case cat < 14: // enum
		t := g.pickType(true, func(t *convType) bool {
			if g.edition == 999 && t.closed {
				return false
			}
			if singular && !hasPresence && !(g.edition == 999 && false) && t.closed {
				// implicit presence requires an open enum
				return false
			}
			return true
		})
		if t == nil {
			f.Type = descriptorpb.FieldDescriptorProto_TYPE_INT32.Enum()
			break
		}
		f.Type = descriptorpb.FieldDescriptorProto_TYPE_ENUM.Enum()
		g.refs = append(g.refs, &convPendingRef{scope: p.full, target: t.full, set: func(s string) { f.TypeName = proto.String(s) }})
		if hasPresence && c.Intn(3) == 0 && !(g.edition == 999) {
			f.DefaultValue = proto.String(t.values[c.Intn(len(t.values))])
		}
	case cat < 17: // message
		t := g.pickType(false, nil)
		if t == nil {
			f.Type = descriptorpb.FieldDescriptorProto_TYPE_STRING.Enum()
			break
		}
		f.Type = descriptorpb.FieldDescriptorProto_TYPE_MESSAGE.Enum()
		g.refs = append(g.refs, &convPendingRef{scope: p.full, target: t.full, set: func(s string) { f.TypeName = proto.String(s) }})
		if ffs != nil && ffs.FieldPresence != nil && ffs.GetFieldPresence() == descriptorpb.FeatureSet_IMPLICIT {
			ffs.FieldPresence = nil
		}
		if c.Intn(4) == 0 {
			g.fieldOptions(f).Lazy = proto.Bool(c.Intn(4) != 0)
		}
	case cat < 18: // map
		if inOneof {
			f.Type = descriptorpb.FieldDescriptorProto_TYPE_BOOL.Enum()
			break
		}
		en := ""
		{
			// strs.MapEntryName
			up := true
			for _, ch := range name {
				switch {
				case ch == '_':
					up = true
				case up:
					en += strings.ToUpper(string(ch))
					up = false
				default:
					en += string(ch)
				}
			}
			en += "Entry"
		}
		if !g.claimExact(p.full, en, convKindMsg) {
			f.Type = descriptorpb.FieldDescriptorProto_TYPE_BOOL.Enum()
			break
		}
		efull := convJoin(p.full, en)
		g.env.local[efull+".key"] = convKindOther
		g.env.local[efull+".value"] = convKindOther
		entry := &descriptorpb.DescriptorProto{Name: proto.String(en), Options: &descriptorpb.MessageOptions{MapEntry: proto.Bool(true)}}
		kf := &descriptorpb.FieldDescriptorProto{Name: proto.String("key"), Number: proto.Int32(1), Label: descriptorpb.FieldDescriptorProto_LABEL_OPTIONAL.Enum(),
			Type: convMapKeyKinds[c.Intn(len(convMapKeyKinds))].Enum(), JsonName: proto.String("key")}
		vf := &descriptorpb.FieldDescriptorProto{Name: proto.String("value"), Number: proto.Int32(2), Label: descriptorpb.FieldDescriptorProto_LABEL_OPTIONAL.Enum(), JsonName: proto.String("value")}
		if c.Intn(3) == 0 {
			kf.JsonName, vf.JsonName = nil, nil
		}
		switch c.Intn(4) {
		case 0:
			if t := g.pickType(false, nil); t != nil {
				vf.Type = descriptorpb.FieldDescriptorProto_TYPE_MESSAGE.Enum()
				g.refs = append(g.refs, &convPendingRef{scope: efull, target: t.full, set: func(s string) { vf.TypeName = proto.String(s) }})
			}
		case 1:
			entryFS := p.fs // map entries carry no features of their own
			if t := g.pickType(true, func(t *convType) bool {
				return t.firstZero && !(g.edition == 999 && t.closed) && !(t.closed && !entryFS.presence)
			}); t != nil {
				vf.Type = descriptorpb.FieldDescriptorProto_TYPE_ENUM.Enum()
				g.refs = append(g.refs, &convPendingRef{scope: efull, target: t.full, set: func(s string) { vf.TypeName = proto.String(s) }})
			}
		}
		if vf.Type == nil {
			vf.Type = convScalarKinds[c.Intn(len(convScalarKinds))].Enum()
		}
		entry.Field = []*descriptorpb.FieldDescriptorProto{kf, vf}
		p.md.NestedType = append(p.md.NestedType, entry)
		g.types = append(g.types, &convType{full: efull, mapEntry: true})
		f.Label = descriptorpb.FieldDescriptorProto_LABEL_REPEATED.Enum()
		f.Type = descriptorpb.FieldDescriptorProto_TYPE_MESSAGE.Enum()
		g.refs = append(g.refs, &convPendingRef{scope: p.full, target: efull, set: func(s string) { f.TypeName = proto.String(s) }})
		if ffs != nil {
			ffs.FieldPresence = nil
		}
	default: // group (proto2) / delimited message (editions)
		switch {
		case g.edition == 998:
			// group Name = N { ... }: message "Name" in the same scope, field "name"
			var gn string
			for _, cand := range []string{"G", "Grp", "Data", "Payload_1", "OptionalGroup", "RG"} {
				if g.taken(convJoin(p.full, cand)) || g.taken(convJoin(p.full, strings.ToLower(cand))) {
					continue
				}
				gn = cand
				break
			}
			if gn == "" {
				f.Type = descriptorpb.FieldDescriptorProto_TYPE_SINT32.Enum()
				break
			}
			delete(g.env.local, convJoin(p.full, name))
			name = strings.ToLower(gn)
			f.Name = proto.String(name)
			g.env.local[convJoin(p.full, name)] = convKindOther
			g.env.local[convJoin(p.full, gn)] = convKindMsg
			gm := &descriptorpb.DescriptorProto{Name: proto.String(gn)}
			gp := &convMsgPlan{md: gm, full: convJoin(p.full, gn), fs: p.fs}
			var l2 int32
			u2 := map[int32]bool{}
			for k, n := 0, c.Intn(3); k < n; k++ {
				if sf := g.genScalarOnly(gp, u2, &l2); sf != nil {
					gm.Field = append(gm.Field, sf)
				}
			}
			p.md.NestedType = append(p.md.NestedType, gm)
			g.types = append(g.types, &convType{full: gp.full})
			f.Type = descriptorpb.FieldDescriptorProto_TYPE_GROUP.Enum()
			g.refs = append(g.refs, &convPendingRef{scope: p.full, target: gp.full, set: func(s string) { f.TypeName = proto.String(s) }})
		case g.isEditions():
			t := g.pickType(false, nil)
			if t == nil {
				f.Type = descriptorpb.FieldDescriptorProto_TYPE_BYTES.Enum()
				break
			}
			f.Type = descriptorpb.FieldDescriptorProto_TYPE_MESSAGE.Enum()
			if ffs == nil {
				ffs = &descriptorpb.FeatureSet{}
			}
			ffs.MessageEncoding = descriptorpb.FeatureSet_DELIMITED.Enum()
			if ffs.FieldPresence != nil && ffs.GetFieldPresence() == descriptorpb.FeatureSet_IMPLICIT {
				ffs.FieldPresence = nil
			}
			g.refs = append(g.refs, &convPendingRef{scope: p.full, target: t.full, set: func(s string) { f.TypeName = proto.String(s) }})
		default:
			f.Type = descriptorpb.FieldDescriptorProto_TYPE_FIXED64.Enum()
		}
	}
	_ = drop
	g.decorateScalar(f, ffs, p.fs, inOneof)
	return f
}

// decorateScalar adds packed / default / json_name / proto3_optional / options.
func (g *convGen) decorateScalar(f *descriptorpb.FieldDescriptorProto, ffs *descriptorpb.FeatureSet, parentFS convFeat, inOneof bool) {
	c := g.c
	t := f.GetType()
	label := f.GetLabel()
	isScalar := t != descriptorpb.FieldDescriptorProto_TYPE_MESSAGE && t != descriptorpb.FieldDescriptorProto_TYPE_GROUP && t != descriptorpb.FieldDescriptorProto_TYPE_ENUM
	if ffs != nil && ffs.FieldPresence != nil && ffs.GetFieldPresence() == descriptorpb.FeatureSet_IMPLICIT && t == descriptorpb.FieldDescriptorProto_TYPE_ENUM {
		// implicit presence on a possibly closed enum: keep it simple
		ffs.FieldPresence = nil
	}
	if ffs != nil {
		g.fieldOptions(f).Features = ffs
	}
	if label == descriptorpb.FieldDescriptorProto_LABEL_REPEATED && convPackable(t) && !g.isEditions() && c.Intn(3) == 0 {
		g.fieldOptions(f).Packed = proto.Bool(c.Bool())
	}
	if label == descriptorpb.FieldDescriptorProto_LABEL_OPTIONAL && g.edition == 999 && !inOneof && c.Intn(4) == 0 {
		f.Proto3Optional = proto.Bool(true)
	}
	presence := label != descriptorpb.FieldDescriptorProto_LABEL_REPEATED && g.edition != 999 && (inOneof || g.presenceOf(f, parentFS))
	if isScalar && presence && c.Intn(3) == 0 {
		f.DefaultValue = proto.String(g.randDefault(t))
	}
	switch c.Intn(6) {
	case 0:
		f.JsonName = proto.String(convJSONCamel(f.GetName()))
	case 1:
		jn := []string{"custom", "JSON_name", "with space", "", f.GetName(), "@type", "fooBar"}
		f.JsonName = proto.String(jn[c.Intn(len(jn))])
	}
	if c.Intn(8) == 0 {
		g.fieldOptions(f).Deprecated = proto.Bool(c.Bool())
	}
	if c.Intn(12) == 0 {
		g.fieldOptions(f).Jstype = descriptorpb.FieldOptions_JS_STRING.Enum()
	}
	if c.Intn(16) == 0 {
		g.fieldOptions(f)
	}
}

func (g *convGen) presenceOf(f *descriptorpb.FieldDescriptorProto, parent convFeat) bool {
	return convMergeFeat(parent, f.GetOptions().GetFeatures()).presence
}

func convJSONCamel(s string) string {
	var b []byte
	was := false
	for i := 0; i < len(s); i++ {
		ch := s[i]
		if ch != '_' {
			if was && 'a' <= ch && ch <= 'z' {
				ch -= 'a' - 'A'
			}
			b = append(b, ch)
		}
		was = s[i] == '_'
	}
	return string(b)
}

func (g *convGen) genScalarOnly(p *convMsgPlan, used map[int32]bool, last *int32) *descriptorpb.FieldDescriptorProto {
	c := g.c
	name := g.claim(p.full, convFieldNames, convKindOther)
	f := &descriptorpb.FieldDescriptorProto{Name: proto.String(name), Number: proto.Int32(g.nextNumber(used, last)),
		Label: descriptorpb.FieldDescriptorProto_LABEL_OPTIONAL.Enum(), Type: convScalarKinds[c.Intn(len(convScalarKinds))].Enum()}
	if c.Intn(3) == 0 {
		f.Label = descriptorpb.FieldDescriptorProto_LABEL_REPEATED.Enum()
	}
	g.decorateScalar(f, nil, p.fs, false)
	return f
}

var convOptionExtendees = []string{"FileOptions", "MessageOptions", "FieldOptions", "EnumOptions", "EnumValueOptions", "OneofOptions", "ServiceOptions", "MethodOptions", "ExtensionRangeOptions"}

func (g *convGen) genExtension(scope string, parentFS convFeat) *descriptorpb.FieldDescriptorProto {
	c := g.c
	var target *convType
	if g.edition == 999 {
		if !g.hasDescriptorDep {
			return nil
		}
		target = &convType{full: "google.protobuf." + convOptionExtendees[c.Intn(len(convOptionExtendees))], extRanges: [][2]int32{{1000, 536870912}}, remote: true}
	} else {
		target = g.pickType(false, func(t *convType) bool { return len(t.extRanges) > 0 })
		if target == nil && g.hasDescriptorDep {
			target = &convType{full: "google.protobuf." + convOptionExtendees[c.Intn(len(convOptionExtendees))], extRanges: [][2]int32{{1000, 536870912}}, remote: true}
		}
	}
	if target == nil {
		return nil
	}
	usedNums := g.extUsed[target.full]
	if usedNums == nil {
		usedNums = map[int32]bool{}
		g.extUsed[target.full] = usedNums
	}
	var num int32
	ok := false
	for try := 0; try < 8 && !ok; try++ {
		r := target.extRanges[c.Intn(len(target.extRanges))]
		span := int(r[1] - r[0])
		switch c.Intn(4) {
		case 0:
			num = r[0]
		case 1:
			num = r[1] - 1
		default:
			num = r[0] + int32(c.Intn(span))
		}
		if num >= 19000 && num <= 19999 {
			continue
		}
		if target.remote && strings.HasPrefix(target.full, "google.protobuf.") && num < 50000 {
			num = 50000 + int32(c.Intn(1000000)) // stay clear of registered option extensions
		}
		ok = !usedNums[num]
	}
	if !ok {
		return nil
	}
	usedNums[num] = true
	name := g.claim(scope, convFieldNames, convKindOther)
	x := &descriptorpb.FieldDescriptorProto{Name: proto.String(name), Number: proto.Int32(num), Label: descriptorpb.FieldDescriptorProto_LABEL_OPTIONAL.Enum()}
	if c.Intn(3) == 0 {
		x.Label = descriptorpb.FieldDescriptorProto_LABEL_REPEATED.Enum()
	}
	g.refs = append(g.refs, &convPendingRef{scope: scope, target: target.full, set: func(s string) { x.Extendee = proto.String(s) }})
	var ffs *descriptorpb.FeatureSet
	if g.isEditions() {
		ffs = g.randFeatures("field")
		if ffs != nil {
			ffs.FieldPresence = nil
		}
	}
	eff := convMergeFeat(parentFS, ffs)
	switch c.Intn(6) {
	case 0:
		if t := g.pickType(true, func(t *convType) bool { return !(g.edition == 999 && t.closed) }); t != nil {
			x.Type = descriptorpb.FieldDescriptorProto_TYPE_ENUM.Enum()
			g.refs = append(g.refs, &convPendingRef{scope: scope, target: t.full, set: func(s string) { x.TypeName = proto.String(s) }})
			if x.GetLabel() == descriptorpb.FieldDescriptorProto_LABEL_OPTIONAL && c.Intn(3) == 0 {
				x.DefaultValue = proto.String(t.values[c.Intn(len(t.values))])
			}
		}
	case 1:
		if t := g.pickType(false, nil); t != nil {
			x.Type = descriptorpb.FieldDescriptorProto_TYPE_MESSAGE.Enum()
			g.refs = append(g.refs, &convPendingRef{scope: scope, target: t.full, set: func(s string) { x.TypeName = proto.String(s) }})
			if c.Intn(4) == 0 {
				g.fieldOptions(x).Lazy = proto.Bool(true)
			}
			if g.isEditions() && c.Intn(4) == 0 {
				if ffs == nil {
					ffs = &descriptorpb.FeatureSet{}
				}
				ffs.MessageEncoding = descriptorpb.FeatureSet_DELIMITED.Enum()
			}
		}
	}
	if x.Type == nil {
		x.Type = convScalarKinds[c.Intn(len(convScalarKinds))].Enum()
	}
	t := x.GetType()
	if ffs != nil {
		g.fieldOptions(x).Features = ffs
	}
	isScalar := t != descriptorpb.FieldDescriptorProto_TYPE_MESSAGE && t != descriptorpb.FieldDescriptorProto_TYPE_ENUM
	if x.GetLabel() == descriptorpb.FieldDescriptorProto_LABEL_REPEATED && convPackable(t) && !g.isEditions() && c.Intn(3) == 0 {
		g.fieldOptions(x).Packed = proto.Bool(c.Bool())
	}
	if isScalar && x.GetLabel() == descriptorpb.FieldDescriptorProto_LABEL_OPTIONAL && c.Intn(3) == 0 {
		x.DefaultValue = proto.String(g.randDefault(t))
	}
	if c.Intn(5) == 0 {
		x.JsonName = proto.String(convJSONCamel(name))
	}
	if g.edition == 999 && x.GetLabel() == descriptorpb.FieldDescriptorProto_LABEL_OPTIONAL && c.Intn(4) == 0 {
		x.Proto3Optional = proto.Bool(true)
	}
	if c.Intn(8) == 0 {
		g.fieldOptions(x).Deprecated = proto.Bool(c.Bool())
	}
	_ = eff
	return x
}

func (g *convGen) genService(scope string) *descriptorpb.ServiceDescriptorProto {
	c := g.c
	name := g.claim(scope, []string{"S", "Svc", "Service", "Foo", "M"}, convKindOther)
	full := convJoin(scope, name)
	sd := &descriptorpb.ServiceDescriptorProto{Name: proto.String(name)}
	if c.Intn(4) == 0 {
		sd.Options = &descriptorpb.ServiceOptions{Deprecated: proto.Bool(c.Bool())}
	}
	for i, n := 0, c.Intn(4); i < n; i++ {
		in, out := g.pickType(false, nil), g.pickType(false, nil)
		if in == nil || out == nil {
			break
		}
		mn := g.claim(full, []string{"Get", "Put", "Do", "M", "Foo", "Stream"}, convKindOther)
		md := &descriptorpb.MethodDescriptorProto{Name: proto.String(mn)}
		g.refs = append(g.refs, &convPendingRef{scope: full, target: in.full, set: func(s string) { md.InputType = proto.String(s) }})
		g.refs = append(g.refs, &convPendingRef{scope: full, target: out.full, set: func(s string) { md.OutputType = proto.String(s) }})
		if c.Intn(3) == 0 {
			md.ClientStreaming = proto.Bool(true)
		}
		if c.Intn(3) == 0 {
			md.ServerStreaming = proto.Bool(true)
		}
		if c.Intn(4) == 0 {
			md.Options = &descriptorpb.MethodOptions{IdempotencyLevel: descriptorpb.MethodOptions_IDEMPOTENT.Enum()}
		}
		sd.Method = append(sd.Method, md)
	}
	return sd
}

// spell chooses a spelling of target as seen from scope that the lookup oracle
// resolves to target.
func (g *convGen) spell(scope, target string, forceAbs bool) string {
	abs := "." + target
	if forceAbs || g.c.Intn(5) < 2 {
		return abs
	}
	segs := strings.Split(target, ".")
	var ok []string
	for i := range segs {
		form := strings.Join(segs[i:], ".")
		if st, full, _ := g.env.lookup(scope, form); st == convResFound && full == target {
			ok = append(ok, form)
		}
	}
	if len(ok) == 0 {
		return abs
	}
	g.c.Stat("spell_relative")
	if g.c.Bool() {
		return ok[len(ok)-1] // shortest
	}
	return ok[g.c.Intn(len(ok))]
}

type convGenOpts struct {
	edition int // 0 = random
	path    string
	pkg     *string
	deps    []*convDepFile
	absOnly bool
	small   bool
}

// convDepFile is an already-built dependency.
type convDepFile struct {
	fd      protoreflect.FileDescriptor
	public  bool
	notDecl bool // known to the resolver but NOT listed as a dependency (must never be resolved)
}

func convWalkRemote(fd protoreflect.FileDescriptor, imported bool, out map[string]convRemote, types *[]*convType) {
	add := func(d protoreflect.Descriptor, kind int) {
		out[string(d.FullName())] = convRemote{full: string(d.FullName()), kind: kind, imported: imported}
	}
	var walkEnum func(e protoreflect.EnumDescriptor)
	walkEnum = func(e protoreflect.EnumDescriptor) {
		add(e, convKindEnum)
		ti := &convType{full: string(e.FullName()), enum: true, closed: e.IsClosed(), remote: true}
		for i := 0; i < e.Values().Len(); i++ {
			add(e.Values().Get(i), convKindOther)
			ti.values = append(ti.values, string(e.Values().Get(i).Name()))
		}
		ti.firstZero = e.Values().Len() > 0 && e.Values().Get(0).Number() == 0
		if imported && types != nil {
			*types = append(*types, ti)
		}
	}
	var walkMsg func(m protoreflect.MessageDescriptor)
	walkMsg = func(m protoreflect.MessageDescriptor) {
		add(m, convKindMsg)
		ti := &convType{full: string(m.FullName()), mapEntry: m.IsMapEntry(), remote: true}
		if o, ok := m.Options().(*descriptorpb.MessageOptions); ok && o.GetMessageSetWireFormat() {
			ti.mset = true
		}
		for i := 0; i < m.ExtensionRanges().Len(); i++ {
			r := m.ExtensionRanges().Get(i)
			ti.extRanges = append(ti.extRanges, [2]int32{int32(r[0]), int32(r[1])})
		}
		if imported && types != nil {
			*types = append(*types, ti)
		}
		for i := 0; i < m.Fields().Len(); i++ {
			add(m.Fields().Get(i), convKindOther)
		}
		for i := 0; i < m.Oneofs().Len(); i++ {
			add(m.Oneofs().Get(i), convKindOther)
		}
		for i := 0; i < m.Extensions().Len(); i++ {
			add(m.Extensions().Get(i), convKindOther)
		}
		for i := 0; i < m.Enums().Len(); i++ {
			walkEnum(m.Enums().Get(i))
		}
		for i := 0; i < m.Messages().Len(); i++ {
			walkMsg(m.Messages().Get(i))
		}
	}
	for i := 0; i < fd.Enums().Len(); i++ {
		walkEnum(fd.Enums().Get(i))
	}
	for i := 0; i < fd.Messages().Len(); i++ {
		walkMsg(fd.Messages().Get(i))
	}
	for i := 0; i < fd.Extensions().Len(); i++ {
		add(fd.Extensions().Get(i), convKindOther)
	}
	for i := 0; i < fd.Services().Len(); i++ {
		s := fd.Services().Get(i)
		add(s, convKindOther)
		for j := 0; j < s.Methods().Len(); j++ {
			add(s.Methods().Get(j), convKindOther)
		}
	}
}

// convImportClosure: paths covered by the imports of a file (direct + transitive public).
func convImportClosure(direct []protoreflect.FileDescriptor) map[string]bool {
	set := map[string]bool{}
	var pub func(imps protoreflect.FileImports)
	pub = func(imps protoreflect.FileImports) {
		for i := 0; i < imps.Len(); i++ {
			if imp := imps.Get(i); imp.IsPublic {
				set[imp.Path()] = true
				pub(imp.Imports())
			}
		}
	}
	for _, d := range direct {
		set[d.Path()] = true
	}
	for _, d := range direct {
		pub(d.Imports())
	}
	return set
}

// convGenFile generates one valid file.  all = every file known to the resolver.
func convGenFile(c *Ctx, o convGenOpts, all []protoreflect.FileDescriptor) (*descriptorpb.FileDescriptorProto, *convEnv) {
	g := &convGen{c: c, env: &convEnv{local: map[string]int{}, remote: map[string]convRemote{}}, extUsed: map[string]map[int32]bool{}}
	g.edition = o.edition
	if g.edition == 0 {
		g.edition = []int{998, 998, 999, 999, 1000, 1000, 1000, 1001}[c.Intn(8)]
	}
	g.liberal = g.isEditions() && c.Intn(8) == 0
	g.path = o.path
	if o.pkg != nil {
		g.pkg = *o.pkg
	} else {
		g.pkg = convPkgs[c.Intn(len(convPkgs))]
	}
	fd := &descriptorpb.FileDescriptorProto{Name: proto.String(o.path)}
	g.fd = fd
	if g.pkg != "" {
		fd.Package = proto.String(g.pkg)
	}
	switch g.edition {
	case 998:
		if c.Bool() {
			fd.Syntax = proto.String("proto2")
		}
	case 999:
		fd.Syntax = proto.String("proto3")
	default:
		fd.Syntax = proto.String("editions")
		fd.Edition = descriptorpb.Edition(g.edition).Enum()
	}
	// dependencies
	var direct []protoreflect.FileDescriptor
	for _, d := range o.deps {
		if d.notDecl {
			continue
		}
		fd.Dependency = append(fd.Dependency, d.fd.Path())
		if d.public {
			fd.PublicDependency = append(fd.PublicDependency, int32(len(fd.Dependency)-1))
		}
		direct = append(direct, d.fd)
		if d.fd.Path() == "google/protobuf/descriptor.proto" {
			g.hasDescriptorDep = true
		}
	}
	closure := convImportClosure(direct)
	for _, f := range all {
		imported := closure[f.Path()]
		var tl *[]*convType
		if f.Path() != "google/protobuf/descriptor.proto" {
			tl = &g.types
		}
		convWalkRemote(f, imported, g.env.remote, tl)
	}
	// file options + features
	ffs := g.randFeatures("file")
	if ffs != nil && ffs.FieldPresence != nil && ffs.GetFieldPresence() == descriptorpb.FeatureSet_LEGACY_REQUIRED {
		ffs.FieldPresence = nil
	}
	if ffs != nil || c.Intn(3) == 0 {
		fd.Options = &descriptorpb.FileOptions{Features: ffs}
		if c.Bool() {
			fd.Options.GoPackage = proto.String("example.com/conv/" + strings.ReplaceAll(o.path, ".proto", ""))
		}
		if c.Intn(4) == 0 {
			fd.Options.JavaMultipleFiles = proto.Bool(true)
		}
		if c.Intn(6) == 0 {
			fd.Options.Deprecated = proto.Bool(true)
		}
	}
	g.fileFS = convMergeFeat(convDefaultsFor(g.edition), ffs)
	// the package segments are part of the namespace seen by lookups of *other* names only
	// through the registry; local declarations start below the package.
	var plans []*convMsgPlan
	ne, nm := c.Intn(3), 1+c.Intn(4)
	if o.small {
		ne, nm = c.Intn(2), 1+c.Intn(2)
	}
	for i := 0; i < ne; i++ {
		fd.EnumType = append(fd.EnumType, g.genEnum(g.pkg, g.fileFS))
	}
	for i := 0; i < nm; i++ {
		fd.MessageType = append(fd.MessageType, g.genMessageSkeleton(g.pkg, g.fileFS, 0, &plans))
	}
	for _, p := range plans {
		g.fillMessage(p)
	}
	// extensions: top level and nested
	for i, n := 0, c.Intn(4); i < n; i++ {
		if x := g.genExtension(g.pkg, g.fileFS); x != nil {
			fd.Extension = append(fd.Extension, x)
		}
	}
	for _, p := range plans {
		if c.Intn(5) == 0 {
			for i, n := 0, 1+c.Intn(2); i < n; i++ {
				if x := g.genExtension(p.full, p.fs); x != nil {
					p.md.Extension = append(p.md.Extension, x)
				}
			}
		}
	}
	for i, n := 0, c.Intn(5)/3; i < n; i++ {
		fd.Service = append(fd.Service, g.genService(g.pkg))
	}
	for _, r := range g.refs {
		r.set(g.spell(r.scope, r.target, o.absOnly))
	}
	if c.Intn(6) == 0 {
		convAddSourceInfo(c, fd)
	}
	return fd, g.env
}

func convAddSourceInfo(c *Ctx, fd *descriptorpb.FileDescriptorProto) {
	sci := &descriptorpb.SourceCodeInfo{}
	for i, n := 0, 1+c.Intn(4); i < n; i++ {
		l := &descriptorpb.SourceCodeInfo_Location{}
		for k, m := 0, c.Intn(4); k < m; k++ {
			l.Path = append(l.Path, int32(c.Intn(12)))
		}
		sl, sc := int32(c.Intn(100)), int32(c.Intn(80))
		if c.Bool() {
			l.Span = []int32{sl, sc, sc + int32(c.Intn(40))}
		} else {
			l.Span = []int32{sl, sc, sl + 1 + int32(c.Intn(5)), int32(c.Intn(80))}
		}
		if c.Intn(3) == 0 {
			l.LeadingComments = proto.String(" leading\n")
		}
		if c.Intn(3) == 0 {
			l.TrailingComments = proto.String(" trailing ")
		}
		if c.Intn(4) == 0 {
			l.LeadingDetachedComments = []string{" d1 ", "d2"}
		}
		sci.Location = append(sci.Location, l)
	}
	fd.SourceCodeInfo = sci
}
