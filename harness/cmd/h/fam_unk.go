//go:build verif

package main

// family "unk" (C09): unknown fields are preserved (input order, number / wire type / payload
// unchanged; the table-driven path re-encodes the tag minimally, the reflection path keeps the raw
// tag), Marshal re-emits them, DiscardUnknown removes them everywhere, and decoding with a schema
// from which fields / extension ranges were deleted, re-encoding and decoding with the full
// schema gives the same message.
//
// Case lines (model-compared; schema lines are emitted through family msg):
//	dec     <id> <f|s> <bytes>            | ok <dump>  or  e<n>        Unmarshal (unknown fields kept)
//	discard <id> <f|s> <bytes>            | ok <dump>  or  e<n>        UnmarshalOptions{DiscardUnknown}
//	evo     <id> <id'> <f|s> <bytes>      | ok <dump>  or  e<n>        decode S' -> encode S' -> decode S
// P lines (C09): see unkOne.
//
// family "unkms" (P lines only, build tag protolegacy): MessageSet types with DiscardUnknown
// (known finding F9).

import (
	"bytes"
	"strings"

	"google.golang.org/protobuf/encoding/protowire"
	"google.golang.org/protobuf/internal/encoding/messageset"
	"google.golang.org/protobuf/internal/flags"
	"google.golang.org/protobuf/proto"
	"google.golang.org/protobuf/reflect/protodesc"
	"google.golang.org/protobuf/reflect/protoreflect"
	"google.golang.org/protobuf/reflect/protoregistry"
	"google.golang.org/protobuf/types/descriptorpb"
	"google.golang.org/protobuf/types/dynamicpb"
)

func init() {
	Register("unk", famUnk)
	Register("unkms", famUnkMS)
}

// ---------------------------------------------------------------- reduced schemas

// unkReduce returns the descriptor of md in a copy of its file from which random fields and all
// extension ranges were deleted.  nil: the reduced file was rejected.
func unkReduce(c *Ctx, md protoreflect.MessageDescriptor) protoreflect.MessageDescriptor {
	fdp := protodesc.ToFileDescriptorProto(md.ParentFile())
	noExt := map[string]bool{} // ".pkg.Msg" whose extension ranges were dropped
	var walk func(dp *descriptorpb.DescriptorProto, fq string)
	walk = func(dp *descriptorpb.DescriptorProto, fq string) {
		if dp.GetOptions().GetMapEntry() {
			return
		}
		for _, n := range dp.NestedType {
			walk(n, fq+"."+n.GetName())
		}
		p := []int{2, 3, 6}[c.Intn(3)]
		var keep []*descriptorpb.FieldDescriptorProto
		dropEntry := map[string]bool{}
		for _, f := range dp.Field {
			if c.Intn(p) != 0 {
				keep = append(keep, f)
				continue
			}
			if f.GetType() == descriptorpb.FieldDescriptorProto_TYPE_MESSAGE && strings.HasPrefix(f.GetTypeName(), fq+".") {
				dropEntry[f.GetTypeName()[len(fq)+1:]] = true // candidate map-entry type of a deleted map field
			}
		}
		dp.Field = keep
		var nested []*descriptorpb.DescriptorProto
		for _, n := range dp.NestedType {
			if n.GetOptions().GetMapEntry() && dropEntry[n.GetName()] {
				continue
			}
			nested = append(nested, n)
		}
		dp.NestedType = nested
		if len(dp.ExtensionRange) > 0 {
			// every extension range is deleted: a registered extension found through the global
			// registry would bring the ORIGINAL descriptors of its message type into the reduced
			// schema (same full names as the reduced ones)
			dp.ExtensionRange = nil
			noExt[fq] = true
		}
		// drop oneof declarations that lost all members
		used := map[int32]bool{}
		for _, f := range dp.Field {
			if f.OneofIndex != nil {
				used[f.GetOneofIndex()] = true
			}
		}
		remap := map[int32]int32{}
		var decls []*descriptorpb.OneofDescriptorProto
		for i, od := range dp.OneofDecl {
			if used[int32(i)] {
				remap[int32(i)] = int32(len(decls))
				decls = append(decls, od)
			}
		}
		dp.OneofDecl = decls
		for _, f := range dp.Field {
			if f.OneofIndex != nil {
				f.OneofIndex = proto.Int32(remap[f.GetOneofIndex()])
			}
		}
	}
	pkg := ""
	if fdp.GetPackage() != "" {
		pkg = "." + fdp.GetPackage()
	}
	for _, m := range fdp.MessageType {
		walk(m, pkg+"."+m.GetName())
	}
	// extensions (declared in this file) of messages that lost their ranges
	filter := func(xs []*descriptorpb.FieldDescriptorProto) []*descriptorpb.FieldDescriptorProto {
		var out []*descriptorpb.FieldDescriptorProto
		for _, x := range xs {
			if !noExt[x.GetExtendee()] {
				out = append(out, x)
			}
		}
		return out
	}
	fdp.Extension = filter(fdp.Extension)
	var walkX func(dp *descriptorpb.DescriptorProto)
	walkX = func(dp *descriptorpb.DescriptorProto) {
		dp.Extension = filter(dp.Extension)
		for _, n := range dp.NestedType {
			walkX(n)
		}
	}
	for _, m := range fdp.MessageType {
		walkX(m)
	}
	fd, err := protodesc.NewFile(fdp, protoregistry.GlobalFiles)
	if err != nil {
		c.Stat("reduce_rejected")
		if c.stats["reduce_rejected"] <= 3 {
			c.Sample("rejected reduced schema: " + err.Error())
		}
		return nil
	}
	// locate md in the new file by its path of names
	var path []string
	for d := protoreflect.Descriptor(md); d != nil; d = d.Parent() {
		if _, ok := d.(protoreflect.FileDescriptor); ok {
			break
		}
		path = append([]string{string(d.Name())}, path...)
	}
	cur := fd.Messages().ByName(protoreflect.Name(path[0]))
	for _, n := range path[1:] {
		if cur == nil {
			return nil
		}
		cur = cur.Messages().ByName(protoreflect.Name(n))
	}
	return cur
}

// ---------------------------------------------------------------- unknown payloads

// unkGenField returns one well-formed field that md does not decode (unknown number, or a known
// number with a wire type its field rejects); with pad, tags and varints may be non-minimal.
func unkGenField(c *Ctx, md protoreflect.MessageDescriptor, pad bool) []byte {
	types := []protowire.Type{0, 1, 2, 5, 3}
	for try := 0; try < 30; try++ {
		var num protowire.Number
		t := types[c.Intn(len(types))]
		switch c.Intn(5) {
		case 0:
			num = protowire.Number(1 + c.Intn(64))
		case 1:
			num = protowire.Number(1 + c.Intn(1<<29-1))
		case 2:
			num = []protowire.Number{1<<29 - 1, 19000, 536870000, 15, 16, 2047, 2048}[c.Intn(7)]
		default:
			if n := md.Fields().Len(); n > 0 {
				num = md.Fields().Get(c.Intn(n)).Number()
			} else {
				num = 1
			}
		}
		if fd := msgFindField(md, num); fd != nil && msgFieldAccepts(fd, t) {
			continue
		}
		b := msgAppendVarintPadded(c, nil, protowire.EncodeTag(num, t), pad)
		return msgGenWireValue(c, b, num, t, 3)
	}
	return nil
}

// unkInject inserts unknown fields between the fields of b (an encoding for md), also inside the
// payloads of known message-typed fields (lengths are re-encoded) and known groups.
func unkInject(c *Ctx, md protoreflect.MessageDescriptor, b []byte, depth int, pad, slow bool) []byte {
	chunks, ok := unkSplit(b)
	if !ok {
		return b
	}
	var out []byte
	maybe := func() {
		for c.Intn(4) == 0 {
			out = append(out, unkGenField(c, md, pad)...)
		}
	}
	for _, ch := range chunks {
		maybe()
		fd := msgFindField(md, ch.num)
		if fd != nil && !fd.IsMap() && fd.Message() != nil && msgFieldAccepts(fd, ch.typ) && depth > 0 && c.Intn(2) == 0 {
			pad := pad
			if slow && fd.IsExtension() {
				// the value of a registered extension is a generated message even inside dynamicpb:
				// it is decoded by the table-driven path, which re-encodes unknown tags minimally
				pad = false
			}
			switch ch.typ {
			case protowire.BytesType:
				if p, n := protowire.ConsumeBytes(ch.val); n >= 0 {
					p2 := unkInject(c, fd.Message(), p, depth-1, pad, slow)
					out = append(out, ch.tag...)
					out = protowire.AppendBytes(out, p2)
					continue
				}
			case protowire.StartGroupType:
				if p, n := protowire.ConsumeGroup(ch.num, ch.val); n >= 0 {
					p2 := unkInject(c, fd.Message(), p, depth-1, pad, slow)
					out = append(out, ch.tag...)
					out = append(out, p2...)
					out = protowire.AppendTag(out, ch.num, protowire.EndGroupType)
					continue
				}
			}
		}
		out = append(out, ch.tag...)
		out = append(out, ch.val...)
	}
	maybe()
	return out
}

// unkRepeat makes known message-typed fields occur SEVERAL times: a singular message / oneof member /
// group occurrence is emitted twice, a map entry twice with the same key, each copy with its own
// injected unknown fields (unknown numbers and wrong-wire-type occurrences) in the sub-message, at
// every nesting level.  The decoder merges the occurrences; the unknown fields of every message node
// must be the concatenation, in input order, of the unknown fields of all its occurrences.
func unkRepeat(c *Ctx, md protoreflect.MessageDescriptor, b []byte, depth int, pad, slow bool) []byte {
	chunks, ok := unkSplit(b)
	if !ok || depth <= 0 {
		return b
	}
	var out []byte
	for _, ch := range chunks {
		fd := msgFindField(md, ch.num)
		if fd == nil || fd.Message() == nil || !msgFieldAccepts(fd, ch.typ) {
			out = append(out, ch.tag...)
			out = append(out, ch.val...)
			continue
		}
		padSub := pad && !(slow && fd.IsExtension())
		copies := 1
		if !fd.IsList() && c.Intn(2) == 0 { // singular message, oneof member, group, map entry
			copies = 2 + c.Intn(2)
		}
		for k := 0; k < copies; k++ {
			switch ch.typ {
			case protowire.BytesType:
				p, n := protowire.ConsumeBytes(ch.val)
				if n < 0 {
					out = append(append(out, ch.tag...), ch.val...)
					continue
				}
				var p2 []byte
				if fd.IsMap() {
					// the entry: keep the key, rework the value message
					ent, ok2 := unkSplit(p)
					if !ok2 {
						p2 = p
					} else {
						for _, e := range ent {
							if e.num == 2 && e.typ == protowire.BytesType && fd.MapValue().Message() != nil {
								if q, m := protowire.ConsumeBytes(e.val); m >= 0 {
									q2 := unkRepeat(c, fd.MapValue().Message(), unkInject(c, fd.MapValue().Message(), q, 1, padSub, slow), depth-1, padSub, slow)
									p2 = append(p2, e.tag...)
									p2 = protowire.AppendBytes(p2, q2)
									continue
								}
							}
							p2 = append(p2, e.tag...)
							p2 = append(p2, e.val...)
						}
					}
				} else {
					p2 = unkRepeat(c, fd.Message(), unkInject(c, fd.Message(), p, 1, padSub, slow), depth-1, padSub, slow)
				}
				out = append(out, ch.tag...)
				out = protowire.AppendBytes(out, p2)
			case protowire.StartGroupType:
				p, n := protowire.ConsumeGroup(ch.num, ch.val)
				if n < 0 {
					out = append(append(out, ch.tag...), ch.val...)
					continue
				}
				p2 := unkRepeat(c, fd.Message(), unkInject(c, fd.Message(), p, 1, padSub, slow), depth-1, padSub, slow)
				out = append(out, ch.tag...)
				out = append(out, p2...)
				out = protowire.AppendTag(out, ch.num, protowire.EndGroupType)
			default:
				out = append(append(out, ch.tag...), ch.val...)
			}
		}
	}
	return out
}

type unkChunk struct {
	num protowire.Number
	typ protowire.Type
	tag []byte // raw tag bytes
	val []byte // raw value bytes
}

func unkSplit(b []byte) ([]unkChunk, bool) {
	var out []unkChunk
	for len(b) > 0 {
		num, typ, n := protowire.ConsumeTag(b)
		if n < 0 || num > protowire.MaxValidNumber {
			return nil, false
		}
		m := protowire.ConsumeFieldValue(num, typ, b[n:])
		if m < 0 {
			return nil, false
		}
		out = append(out, unkChunk{num, typ, b[:n], b[n : n+m]})
		b = b[n+m:]
	}
	return out, true
}

// unkExpected is the independent statement of "which fields are unknown": the concatenation, in
// input order, of the top-level fields of b that md has no field (or registered extension) for,
// or whose wire type the field rejects; fast: tag re-encoded minimally, otherwise raw.
func unkExpected(md protoreflect.MessageDescriptor, b []byte, fast bool) ([]byte, bool) {
	chunks, ok := unkSplit(b)
	if !ok {
		return nil, false
	}
	var out []byte
	for _, ch := range chunks {
		if fd := msgFindField(md, ch.num); fd != nil && msgFieldAccepts(fd, ch.typ) {
			continue
		}
		if fast {
			out = protowire.AppendTag(out, ch.num, ch.typ)
		} else {
			out = append(out, ch.tag...)
		}
		out = append(out, ch.val...)
	}
	return out, true
}

// unkAnywhere reports a message in the tree of m that holds unknown fields (path for the report).
func unkAnywhere(m protoreflect.Message, path string) (string, protoreflect.Message) {
	if len(m.GetUnknown()) > 0 {
		return path + "(" + string(m.Descriptor().FullName()) + ")", m
	}
	var where string
	var holder protoreflect.Message
	m.Range(func(fd protoreflect.FieldDescriptor, v protoreflect.Value) bool {
		p := path + "." + string(fd.Name())
		switch {
		case fd.IsMap():
			if fd.MapValue().Message() == nil {
				return true
			}
			v.Map().Range(func(_ protoreflect.MapKey, mv protoreflect.Value) bool {
				where, holder = unkAnywhere(mv.Message(), p)
				return where == ""
			})
		case fd.IsList():
			if fd.Message() == nil {
				return true
			}
			for i, l := 0, v.List(); i < l.Len() && where == ""; i++ {
				where, holder = unkAnywhere(l.Get(i).Message(), p)
			}
		case fd.Message() != nil:
			where, holder = unkAnywhere(v.Message(), p)
		}
		return where == ""
	})
	return where, holder
}

func unkObs(m protoreflect.Message, err error) []string {
	if err != nil {
		return []string{msgErrClass(err)}
	}
	return append([]string{"ok"}, msgDump(m)...)
}

// unkKnown recognises the recorded findings that affect a decode of b by flavour fl.
func unkKnown(c *Ctx, fl w2aFlavour, b []byte, lazy bool) bool {
	if msgLegacyReach(fl.md) && msgFB1Class(fl.md, b) {
		c.Stat("skipped_FB1")
		return true
	}
	if lazy && !fl.slow && msgHasLazy(fl.md) && msgF1Class(fl.md, b) {
		c.Known("F1", "C09", "lazy decoding duplicates a wrong-wire-type occurrence of a lazy field")
		c.Stat("known_F1")
		return true
	}
	return false
}

// unkLazyCheck decodes b lazily, marshals the result while its lazy fields are still raw buffers
// (non-deterministic Marshal copies them), and requires that this encoding decodes (eagerly) to
// the same message as the eager decode m1 of b.  Returns false when it did not.
func unkLazyCheck(c *Ctx, fl w2aFlavour, b []byte, m1 protoreflect.Message, what string) bool {
	ml, err := w2aUnmarshal(fl, b, proto.UnmarshalOptions{})
	if err != nil {
		c.PropFail("C09", what+"lazy decoding fails where eager decoding succeeds: "+fl.what(), HexB(b))
		return false
	}
	bl, err := proto.MarshalOptions{AllowPartial: true}.Marshal(ml.Interface())
	var m2 protoreflect.Message
	if err == nil {
		m2, err = w2aUnmarshal(fl, bl, proto.UnmarshalOptions{NoLazyDecoding: true})
	}
	if err != nil || !w2aEqToks(msgDump(m2), msgDump(m1)) || !w2aEqToks(msgDump(ml), msgDump(m1)) {
		if !unkKnown(c, fl, b, true) {
			c.PropFail("C09", what+"lazy decoding keeps other unknown fields than eager decoding: "+fl.what(), HexB(b), HexB(bl))
		}
		return false
	}
	return true
}

// unkOne: one random content of one flavour.
//
//	P1 unknown_preserved   GetUnknown() after Unmarshal = unkExpected (full schema, both paths; reduced schema)
//	P2 unknown_reemitted   Marshal ends with the unknown bytes and decodes to an Equal message
//	P3 lazy = eager        (F1 recognised)
//	P4 discard_unknown     no message of the tree decoded with DiscardUnknown holds unknown bytes, and
//	                       the result equals the ordinary decode with every unknown section removed
//	P5 schema_evolution    decode S (encode S' (decode S' (encode S m))) is m (Equal and identical dump)
func unkOne(c *Ctx, t *w2aTarget) {
	fl := t.fls[c.Intn(len(t.fls))]
	defer w2aRecover(c, "C09", fl.what())
	if fl.noDec {
		fl = t.fls[len(t.fls)-1] // legacy generated types: only their dynamicpb flavour
	}
	id := t.schema(c)
	m := fl.new()
	if !w2aFill(c, m, 1+c.Intn(3), true) {
		return
	}
	b0, err := w2aMarshal.Marshal(m.Interface())
	if err != nil {
		c.Stat("marshal_fails")
		return
	}
	pad := c.Bool()
	bi := b0
	if c.Intn(4) != 0 {
		bi = unkInject(c, fl.md, b0, 3, pad, fl.slow)
	}
	if c.Intn(2) == 0 {
		bi = unkRepeat(c, fl.md, bi, 3, pad, fl.slow)
		c.Stat("repeated_occurrences")
	}
	c.Stat("value_" + fl.name)
	eager := proto.UnmarshalOptions{NoLazyDecoding: true}

	if msgLegacyReach(fl.md) && msgFB1Class(fl.md, bi) {
		// finding FB1 (legacy generated message types, also reached from dynamicpb through their
		// extension types): not the modelled decoder
		c.Stat("skipped_FB1")
		return
	}
	// --- P1 / P2 on the full schema
	m1, err := w2aUnmarshal(fl, bi, eager)
	c.Case("unk", "dec", []string{id, fl.mode(), HexB(bi)}, unkObs(m1, err))
	if err != nil {
		c.PropFail("C09", "well-formed input with unknown fields does not decode: "+msgErrClass(err)+" "+fl.what(), HexB(bi))
		return
	}
	if unkKnown(c, fl, bi, false) {
		return
	}
	exp, ok := unkExpected(fl.md, bi, !fl.slow)
	if !ok {
		c.PropFail("C09", "harness: generated input does not split: "+fl.what(), HexB(bi))
		return
	}
	if len(exp) > 0 {
		c.Stat("has_unknown")
	}
	if !bytes.Equal(m1.GetUnknown(), exp) {
		c.PropFail("C09", "unknown fields after Unmarshal are not the rejected input fields in input order: "+fl.what(), HexB(bi), HexB(m1.GetUnknown()), HexB(exp))
	}
	b1, err := w2aMarshal.Marshal(m1.Interface())
	if err != nil {
		c.PropFail("C09", "Marshal fails after Unmarshal: "+fl.what(), HexB(bi))
		return
	}
	if !bytes.HasSuffix(b1, exp) {
		c.PropFail("C09", "Marshal does not re-emit the unknown fields: "+fl.what(), HexB(bi), HexB(b1))
	}
	if m2, err := w2aUnmarshal(fl, b1, eager); err != nil || !proto.Equal(m1.Interface(), m2.Interface()) || !w2aEqToks(msgDump(m1), msgDump(m2)) {
		c.PropFail("C09", "message with unknown fields does not survive Marshal/Unmarshal: "+fl.what(), HexB(bi))
	}

	// --- P2b the table-driven and the reflection path retain the same unknown fields in every message
	// node (identical dumps; with non-minimal tags in the input they differ by the tag normalisation)
	if !pad {
		for _, f2 := range t.fls {
			if f2.name == fl.name || f2.noDec || msgLegacyReach(f2.md) {
				continue
			}
			m2, err2 := w2aUnmarshal(f2, bi, eager)
			if err2 != nil || !w2aEqToks(msgDump(m2), msgDump(m1)) {
				c.PropFail("C09", "generated and dynamicpb decoders retain different unknown fields: "+fl.what(), HexB(bi))
			}
		}
	}
	// --- P2c UnmarshalOptions{Merge:true} into a destination that already holds unknown fields (root and
	// sub-messages): the new unknown fields are appended, in every message node
	if m2f := fl.new(); w2aFill(c, m2f, 1+c.Intn(2), true) {
		if b2, errb := w2aMarshal.Marshal(m2f.Interface()); errb == nil {
			b2 = unkInject(c, fl.md, b2, 3, pad, fl.slow)
			if c.Bool() {
				b2 = unkRepeat(c, fl.md, b2, 3, pad, fl.slow)
			}
			if !(msgLegacyReach(fl.md) && msgFB1Class(fl.md, b2)) {
				dst, _ := w2aUnmarshal(fl, bi, eager)
				errm := w2aOpts(fl, proto.UnmarshalOptions{Merge: true, AllowPartial: true, NoLazyDecoding: true}).Unmarshal(b2, dst.Interface())
				if errm != nil {
					c.PropFail("C09", "UnmarshalOptions{Merge:true} fails on well-formed input: "+fl.what(), HexB(bi), HexB(b2))
				} else {
					c.Case("merge", "into", []string{id, "0", fl.mode(), HexB(bi), HexB(b2)}, append([]string{"ok"}, msgDump(dst)...))
					exp2, _ := unkExpected(fl.md, b2, !fl.slow)
					if !bytes.Equal(dst.GetUnknown(), append(append([]byte(nil), exp...), exp2...)) {
						c.PropFail("C09", "UnmarshalOptions{Merge:true} does not append the new unknown fields to the existing ones: "+fl.what(), HexB(bi), HexB(b2), HexB(dst.GetUnknown()))
					}
					c.Stat("merge_into")
				}
			}
		}
	}

	// --- P3 lazy decoding keeps the same unknown fields
	if !fl.slow && msgHasLazy(fl.md) {
		unkLazyCheck(c, fl, bi, m1, "")
	}

	// --- P4 DiscardUnknown
	md, err := w2aUnmarshal(fl, bi, proto.UnmarshalOptions{DiscardUnknown: true, NoLazyDecoding: c.Bool()})
	c.Case("unk", "discard", []string{id, fl.mode(), HexB(bi)}, unkObs(md, err))
	if err != nil {
		c.PropFail("C09", "DiscardUnknown decoding fails where plain decoding succeeds: "+fl.what(), HexB(bi))
	} else {
		if where, _ := unkAnywhere(md, ""); where != "" {
			c.PropFail("C09", "DiscardUnknown keeps unknown fields at "+where+": "+fl.what(), HexB(bi))
		}
		bd, errd := w2aMarshal.Marshal(md.Interface())
		if errd != nil {
			c.PropFail("C09", "Marshal fails after DiscardUnknown decoding: "+fl.what(), HexB(bi))
		} else if m3, err3 := w2aUnmarshal(fl, bd, eager); err3 != nil || !w2aEqToks(msgDump(m3), msgDump(md)) {
			c.PropFail("C09", "DiscardUnknown result does not survive Marshal/Unmarshal: "+fl.what(), HexB(bi))
		} else if len(exp) == 0 {
			if where, _ := unkAnywhere(m1, ""); where == "" && !w2aEqToks(msgDump(md), msgDump(m1)) {
				c.PropFail("C09", "DiscardUnknown changes a message without unknown fields: "+fl.what(), HexB(bi))
			}
		}
	}

	// --- P1 / P5 with a reduced schema
	red := unkReduce(c, fl.md)
	if red == nil {
		return
	}
	c.Stat("reduced")
	flr := w2aFlavour{"red", red, func() protoreflect.Message { return dynamicpb.NewMessage(red) }, true, false}
	idr := msgSchemaOf(c, red)
	mr, err := w2aUnmarshal(flr, b1, eager)
	c.Case("unk", "dec", []string{idr, "s", HexB(b1)}, unkObs(mr, err))
	if err != nil {
		c.PropFail("C09", "canonical encoding does not decode with a reduced schema: "+msgErrClass(err)+" "+fl.what(), HexB(b1))
		return
	}
	expr, _ := unkExpected(red, b1, false)
	if !bytes.Equal(mr.GetUnknown(), expr) {
		c.PropFail("C09", "reduced schema: unknown fields are not the rejected input fields in input order: "+fl.what(), HexB(b1), HexB(mr.GetUnknown()), HexB(expr))
	}
	if len(expr) > len(exp) {
		c.Stat("reduced_more_unknown")
	}
	br, err := w2aMarshal.Marshal(mr.Interface())
	if err != nil {
		c.PropFail("C09", "Marshal with the reduced schema fails: "+fl.what(), HexB(b1))
		return
	}
	if msgLegacyReach(fl.md) && msgFB1Class(fl.md, br) {
		c.Stat("skipped_FB1")
		return
	}
	me, err := w2aUnmarshal(fl, br, eager)
	c.Case("unk", "evo", []string{id, idr, fl.mode(), HexB(b1)}, unkObs(me, err))
	if err != nil {
		c.PropFail("C09", "re-encoding by a reduced schema does not decode with the full schema: "+fl.what(), HexB(b1), HexB(br))
		return
	}
	if !proto.Equal(m1.Interface(), me.Interface()) || !w2aEqToks(msgDump(m1), msgDump(me)) {
		if !unkKnown(c, fl, br, false) {
			c.PropFail("C09", "schema evolution round trip changes the message: "+fl.what(), HexB(b1), HexB(br))
		}
		return
	}
	if !fl.slow && msgHasLazy(fl.md) {
		unkLazyCheck(c, fl, br, m1, "schema evolution: ")
	}
}

// unkCorpus: boundary inputs first.
func unkCorpus(c *Ctx, corpus []*w2aTarget) {
	byName := map[string]*w2aTarget{}
	for _, t := range corpus {
		byName[string(t.fls[0].md.FullName())] = t
	}
	type item struct {
		typ string
		b   []byte
	}
	items := []item{
		// unknown numbers of every wire type, non-minimal tag, nested group
		{"goproto.proto.test.TestAllTypes", []byte{0xf8, 0xff, 0x03, 0x01, 0xf9, 0xff, 0x83, 0x00, 1, 2, 3, 4, 5, 6, 7, 8, 0xfa, 0xff, 0x03, 0x01, 0x61, 0xfd, 0xff, 0x03, 1, 2, 3, 4,
			0xfb, 0xff, 0x03, 0x0b, 0x08, 0x81, 0x00, 0x0c, 0xfc, 0xff, 0x03}},
		// known numbers with rejected wire types (optional_int32 = 1 as fixed32, optional_string = 14 as varint), interleaved with known
		{"goproto.proto.test.TestAllTypes", []byte{0x0d, 1, 0, 0, 0, 0x08, 0x05, 0x70, 0x07, 0x72, 0x01, 0x61}},
		// F1 witness: lazy field 99 with LEN and VARINT
		{"opaque.lazy_tree.Node", []byte{0x9a, 0x06, 0x02, 0x08, 0x05, 0x98, 0x06, 0x07}},
		// unknown inside a sub-message and inside a group
		{"goproto.proto.test.TestAllTypes", []byte{0x92, 0x01, 0x05, 0x08, 0x01, 0xf8, 0x07, 0x09, 0x83, 0x01, 0x88, 0x01, 0x02, 0xf8, 0x07, 0x03, 0x84, 0x01}},
	}
	// unknown numbers at the tag-size boundaries (1, 2, 3, 4, 5 tag bytes), every wire type
	for _, typ := range []string{"goproto.proto.test.TestAllTypes", "goproto.proto.test.TestAllTypes.NestedMessage",
		"opaque.goproto.proto.testeditions.TestAllTypes", "goproto.proto.test3.TestAllTypes"} {
		for _, num := range []protowire.Number{15, 16, 2047, 2048, 2049, 262143, 262144, 33554431, 33554432, 536870911} {
			for _, wt := range []protowire.Type{protowire.VarintType, protowire.Fixed64Type, protowire.BytesType, protowire.Fixed32Type, protowire.StartGroupType} {
				b := []byte{0x08, 0x03} // a known field first (field 1 is a varint field in all four types)
				b = protowire.AppendTag(b, num, wt)
				switch wt {
				case protowire.VarintType:
					b = append(b, 0x01)
				case protowire.Fixed64Type:
					b = append(b, 1, 2, 3, 4, 5, 6, 7, 8)
				case protowire.BytesType:
					b = append(b, 0x02, 0x61, 0x62)
				case protowire.Fixed32Type:
					b = append(b, 1, 2, 3, 4)
				default:
					b = protowire.AppendTag(append(b, 0x08, 0x01), num, protowire.EndGroupType)
				}
				items = append(items, item{typ, b})
			}
		}
	}
	for _, it := range items {
		t := byName[it.typ]
		if t == nil {
			c.Stat("corpus_type_missing")
			continue
		}
		id := t.schema(c)
		for _, fl := range t.fls {
			func() {
				defer w2aRecover(c, "C09", fl.what())
				m, err := w2aUnmarshal(fl, it.b, proto.UnmarshalOptions{NoLazyDecoding: true})
				c.Case("unk", "dec", []string{id, fl.mode(), HexB(it.b)}, unkObs(m, err))
				if err != nil {
					c.PropFail("C09", "corpus input does not decode: "+fl.what(), HexB(it.b))
					return
				}
				exp, _ := unkExpected(fl.md, it.b, !fl.slow)
				if !bytes.Equal(m.GetUnknown(), exp) {
					c.PropFail("C09", "corpus: unknown fields are not the rejected input fields in input order: "+fl.what(), HexB(it.b), HexB(m.GetUnknown()), HexB(exp))
				}
				md, err := w2aUnmarshal(fl, it.b, proto.UnmarshalOptions{DiscardUnknown: true})
				c.Case("unk", "discard", []string{id, fl.mode(), HexB(it.b)}, unkObs(md, err))
				if err == nil {
					if where, _ := unkAnywhere(md, ""); where != "" {
						c.PropFail("C09", "corpus: DiscardUnknown keeps unknown fields at "+where+": "+fl.what(), HexB(it.b))
					}
				}
				if !fl.slow && msgHasLazy(fl.md) {
					if unkLazyCheck(c, fl, it.b, m, "corpus: ") && msgF1Class(fl.md, it.b) {
						c.Stat("F1_witness_passes")
					}
				}
			}()
		}
	}
}

func famUnk(c *Ctx) {
	nrnd := c.N / 40
	if nrnd < 4 {
		nrnd = 4
	}
	corpus, rnd := w2aTargets(c, nrnd)
	c.StatN("linked_types", len(corpus))
	unkCorpus(c, corpus)
	w2aSchedule(c, corpus, rnd, c.N, func(t *w2aTarget) { unkOne(c, t) })
}

// ---------------------------------------------------------------- MessageSet (F9)

func unkReachesMessageSet(md protoreflect.MessageDescriptor) bool {
	return msgReachesMessageSet(md, map[protoreflect.FullName]bool{})
}

// unkF9Class: holder is a MessageSet message and every unknown field it retained is the
// normalised form of a MessageSet item (field number = type id, wire type LEN) whose type id has
// no registered extension: the input class of known finding F9.
func unkF9Class(holder protoreflect.Message) bool {
	md := holder.Descriptor()
	if !messageset.IsMessageSet(md) {
		return false
	}
	chunks, ok := unkSplit(holder.GetUnknown())
	if !ok || len(chunks) == 0 {
		return false
	}
	for _, ch := range chunks {
		if ch.typ != protowire.BytesType {
			return false
		}
		if _, err := protoregistry.GlobalTypes.FindExtensionByNumber(md.FullName(), ch.num); err == nil {
			return false
		}
	}
	return true
}

func famUnkMS(c *Ctx) {
	if !flags.ProtoLegacy {
		c.Stat("skipped_no_protolegacy")
		return
	}
	var targets []*w2aTarget
	protoregistry.GlobalTypes.RangeMessages(func(mt protoreflect.MessageType) bool {
		md := mt.Descriptor()
		if !md.IsMapEntry() && unkReachesMessageSet(md) {
			targets = append(targets, &w2aTarget{fls: w2aFlavoursOf(mt)})
		}
		return true
	})
	// RangeMessages order is a map order: sort by name for determinism
	for i := 1; i < len(targets); i++ {
		for j := i; j > 0 && targets[j].fls[0].md.FullName() < targets[j-1].fls[0].md.FullName(); j-- {
			targets[j], targets[j-1] = targets[j-1], targets[j]
		}
	}
	c.StatN("messageset_types", len(targets))
	if len(targets) == 0 {
		return
	}
	item := func(typeID uint64, payload []byte) []byte {
		b := protowire.AppendTag(nil, messageset.FieldItem, protowire.StartGroupType)
		b = protowire.AppendTag(b, messageset.FieldTypeID, protowire.VarintType)
		b = protowire.AppendVarint(b, typeID)
		b = protowire.AppendTag(b, messageset.FieldMessage, protowire.BytesType)
		b = protowire.AppendBytes(b, payload)
		return protowire.AppendTag(b, messageset.FieldItem, protowire.EndGroupType)
	}
	for i := 0; i < c.N; i++ {
		t := targets[c.Intn(len(targets))]
		fl := t.fls[c.Intn(len(t.fls))]
		func() {
			defer w2aRecover(c, "C09", fl.what())
			m := fl.new()
			budget := 40
			func() {
				defer func() { recover() }()
				msgRandomFillOpts(c, m, 2, msgFillOpts{budget: &budget, badUTF8: false, unknown: false, dense: c.Bool()})
			}()
			b, err := w2aMarshal.Marshal(m.Interface())
			if err != nil {
				c.Stat("marshal_fails")
				return
			}
			// unknown content at the top level: items with unregistered type ids when the top-level
			// type is a MessageSet, and an ordinary unknown field
			isMS := messageset.IsMessageSet(fl.md)
			if isMS && c.Intn(3) != 0 {
				b = append(b, item(uint64(900000+c.Intn(1000)), c.Bytes(c.Intn(4)))...)
				c.Stat("unknown_item")
			}
			if c.Intn(3) == 0 && !isMS {
				if u := unkGenField(c, fl.md, false); u != nil {
					b = append(b, u...)
					c.Stat("unknown_field")
				}
			}
			md, err := w2aUnmarshal(fl, b, proto.UnmarshalOptions{DiscardUnknown: true})
			if err != nil {
				c.Stat("decode_" + msgErrClass(err))
				return
			}
			c.Stat("decoded_" + fl.name)
			if where, holder := unkAnywhere(md, ""); where != "" {
				if unkF9Class(holder) {
					c.Known("F9", "C09", "MessageSet ignores DiscardUnknown: an item with an unregistered type id is retained")
					c.Stat("known_F9")
				} else {
					c.PropFail("C09", "DiscardUnknown keeps unknown fields at "+where+": "+fl.what(), HexB(b), HexB(holder.GetUnknown()))
				}
			}
		}()
	}
}
