//go:build verif

package main

import (
	"bytes"
	"encoding/base64"
	stdjson "encoding/json"
	"fmt"
	"math"
	"math/big"
	"reflect"
	"regexp"
	"strconv"
	"strings"
	"unicode/utf8"

	"google.golang.org/protobuf/encoding/protojson"
	"google.golang.org/protobuf/internal/detrand"
	pjson "google.golang.org/protobuf/internal/encoding/json"
	"google.golang.org/protobuf/internal/testprotos/test3"
	"google.golang.org/protobuf/proto"
	"google.golang.org/protobuf/reflect/protoreflect"
	"google.golang.org/protobuf/types/known/structpb"
)

// family "json"  (C21): the tokenizer/encoder of internal/encoding/json against the Coq
//                       models Json/JsonLexModel.v, JsonEncModel.v and the RFC 8259
//                       recogniser Json/JsonGrammar.v.
// family "jsonv" (C22): scalar values through protojson.Unmarshal against
//                       Json/JsonNumModel.v, JsonScalarModel.v; math/big oracle.

func init() {
	Register("json", famJson)
	Register("jsonv", famJsonv)
}

// ---------------------------------------------------------------- observations

var jsonSyntaxRe = regexp.MustCompile(`syntax error \(line (\d+):(\d+)\): (.*)`)

// jsonErrClass maps a Decoder error to (class, line, col); the class enum is the one of
// JsonLexModel.v (e_unexpected_token ...).
func jsonErrClass(err error) []string {
	if err == pjson.ErrUnexpectedEOF {
		return []string{"eof", "0", "0"}
	}
	m := jsonSyntaxRe.FindStringSubmatch(strings.ReplaceAll(err.Error(), "\n", " "))
	if m == nil {
		// the message itself may contain newlines/garbage from the input; retry on the prefix only
		s := err.Error()
		i := strings.Index(s, "syntax error (line ")
		if i < 0 {
			return []string{"e?", "0", "0"}
		}
		var l, col int
		rest := s[i+len("syntax error (line "):]
		fmt.Sscanf(rest, "%d:%d", &l, &col)
		j := strings.Index(rest, "): ")
		if j < 0 {
			return []string{"e?", "0", "0"}
		}
		m = []string{"", strconv.Itoa(l), strconv.Itoa(col), rest[j+3:]}
	}
	msg := m[3]
	cls := "e?"
	switch {
	case strings.HasPrefix(msg, "unexpected token"):
		cls = "e1"
	case strings.HasPrefix(msg, "invalid value"):
		cls = "e2"
	case strings.HasPrefix(msg, "invalid UTF-8 in string"):
		cls = "e3"
	case strings.HasPrefix(msg, "invalid character") && strings.Contains(msg, "at start of string"):
		cls = "e7"
	case strings.HasPrefix(msg, "invalid character"):
		cls = "e4"
	case strings.HasPrefix(msg, "invalid escape code"):
		cls = "e5"
	case strings.HasPrefix(msg, "unexpected character"):
		cls = "e6"
	}
	return []string{cls, m[1], m[2]}
}

func jsonKindChar(t pjson.Token) string {
	switch t.Kind() {
	case pjson.Null:
		return "n"
	case pjson.Bool:
		if t.Bool() {
			return "t"
		}
		return "f"
	case pjson.Number:
		return "N"
	case pjson.String:
		return "s"
	case pjson.Name:
		return "k"
	case pjson.ObjectOpen:
		return "{"
	case pjson.ObjectClose:
		return "}"
	case pjson.ArrayOpen:
		return "["
	case pjson.ArrayClose:
		return "]"
	case pjson.EOF:
		return "E"
	}
	return "?"
}

// jsonTokens drives Read until EOF or error.
func jsonTokens(b []byte) (obs []string, ntok int, ok bool) {
	d := pjson.NewDecoder(b)
	var sb strings.Builder
	for i := 0; i <= len(b)+1; i++ {
		t, err := d.Read()
		if err != nil {
			e := jsonErrClass(err)
			return []string{"T" + sb.String(), e[0], e[1], e[2]}, ntok, false
		}
		if t.Kind() == pjson.EOF {
			return []string{"T" + sb.String(), "ok", "0", "0"}, ntok, true
		}
		ntok++
		fmt.Fprintf(&sb, "%s%d:%d,", jsonKindChar(t), t.Pos(), len(t.RawString()))
	}
	return []string{"T" + sb.String(), "loop", "0", "0"}, ntok, false
}

var jsonSurrogateEscRe = regexp.MustCompile(`\\u[dD][89a-fA-F]`)

var jsonNumRe = regexp.MustCompile(`^-?(0|[1-9][0-9]*)(\.[0-9]+)?([eE][+-]?[0-9]+)?$`)

func (c *Ctx) jsonDocCases(b []byte) {
	obs, ntok, ok := jsonTokens(b)
	c.Case("json", "tokens", []string{HexB(b)}, obs)
	valid := stdjson.Valid(b) && utf8.Valid(b)
	c.Case("json", "valid", []string{HexB(b)}, []string{Tok(valid)})
	if ok {
		c.Stat("doc_lex_ok")
	} else {
		c.Stat("doc_lex_" + obs[1])
	}
	if valid {
		c.Stat("doc_valid")
	}
	// C21: reading tokens to EOF succeeded (with at least one token) => RFC 8259
	if ok && ntok > 0 && !valid {
		c.PropFail("C21", "decoder read to EOF but input is not JSON", HexB(b))
	}
	// every JSON text is read to EOF (no depth limit in the tokenizer), except that the tokenizer is
	// stricter about \u escapes: unpaired surrogates are rejected (error class e5)
	if valid && !ok && !jsonSurrogateEscRe.Match(b) {
		c.PropFail("C21", "decoder rejects a JSON text", HexB(b))
	}
	// C21 at the protojson surface: accepted => JSON
	jsonUnmarshalChecks(c, b)
}

func jsonUnmarshalChecks(c *Ctx, b []byte) {
	defer func() {
		if r := recover(); r != nil {
			c.PropFail("C21", fmt.Sprintf("panic in protojson.Unmarshal: %v", r), HexB(b))
		}
	}()
	o := protojson.UnmarshalOptions{DiscardUnknown: true}
	if o.Unmarshal(b, &test3.TestAllTypes{}) == nil {
		c.Stat("pj_accept_msg")
		if !stdjson.Valid(b) {
			c.PropFail("C21", "protojson.Unmarshal(TestAllTypes, DiscardUnknown) accepted non-JSON", HexB(b))
		}
	}
	if o.Unmarshal(b, &structpb.Value{}) == nil {
		c.Stat("pj_accept_value")
		if !stdjson.Valid(b) {
			c.PropFail("C21", "protojson.Unmarshal(structpb.Value) accepted non-JSON", HexB(b))
		}
	}
	// the same bytes as the value of an unknown field and of a Value-typed field
	w := append(append([]byte(`{"zz":`), b...), '}')
	if o.Unmarshal(w, &test3.TestAllTypes{}) == nil {
		c.Stat("pj_accept_unknown")
		if !stdjson.Valid(w) {
			c.PropFail("C21", "protojson.Unmarshal accepted non-JSON in a discarded unknown field", HexB(w))
		}
	}
	w2 := append(append([]byte(`{"a":`), b...), '}')
	if o.Unmarshal(w2, &structpb.Struct{}) == nil {
		c.Stat("pj_accept_struct")
		if !stdjson.Valid(w2) {
			c.PropFail("C21", "protojson.Unmarshal(structpb.Struct) accepted non-JSON", HexB(w2))
		}
	}
}

// ---------------------------------------------------------------- generators

var jsonWs = []string{"", "", "", " ", "\n", "\t", "\r", "  ", " \n\t", "\r\n"}

func jsonGenWs(c *Ctx) string { return jsonWs[c.Intn(len(jsonWs))] }

func jsonDigits(c *Ctx, n int) string {
	var sb strings.Builder
	for i := 0; i < n; i++ {
		sb.WriteByte(byte('0' + c.Intn(10)))
	}
	return sb.String()
}

// jsonGenNumber: a well-formed JSON number in a random notation.
func jsonGenNumber(c *Ctx) string {
	var sb strings.Builder
	if c.Intn(3) == 0 {
		sb.WriteByte('-')
	}
	if c.Intn(4) == 0 {
		sb.WriteByte('0')
	} else {
		sb.WriteByte(byte('1' + c.Intn(9)))
		sb.WriteString(jsonDigits(c, c.Intn(6)))
	}
	if c.Intn(3) == 0 {
		sb.WriteByte('.')
		sb.WriteString(jsonDigits(c, 1+c.Intn(5)))
	}
	if c.Intn(3) == 0 {
		sb.WriteByte("eE"[c.Intn(2)])
		switch c.Intn(3) {
		case 0:
			sb.WriteByte('+')
		case 1:
			sb.WriteByte('-')
		}
		sb.WriteString(jsonDigits(c, 1+c.Intn(3)))
	}
	return sb.String()
}

var jsonBadNumbers = []string{"1e", "1e+", "1E-", "1.", ".5", "-", "+1", "01", "-01", "00", "1.e5", "1e5.5", "0x10", "1_0",
	"1e+-5", "--1", "1..2", "1.2.3", "Infinity", "NaN", "-Infinity", "1a", "1-", "1+", "1e5e5", "0e", "0.e1", "-.5", "1.5E", "1e ", "1 e5", "1e\n5"}

var jsonRunes = []rune{0x20, 0x21, 0x23, 0x5b, 0x5d, 0x7e, 0x7f, 0x80, 0xa0, 0x7ff, 0x800, 0xfff, 0x1000, 0xd7ff, 0xe000, 0xfffd, 0xffff,
	0x10000, 0x3ffff, 0x40000, 0xfffff, 0x100000, 0x10ffff, 'a', 'Z', '0', '/', 0x85, 0x2028, 0x3000, 0x1680}

var jsonBadUtf8 = []string{"\x80", "\xbf", "\xc0\x80", "\xc1\xbf", "\xc2", "\xc2\x20", "\xe0\x80\x80", "\xe0\x9f\xbf", "\xe0\xa0", "\xed\xa0\x80",
	"\xed\xbf\xbf", "\xef\xbf", "\xf0\x80\x80\x80", "\xf0\x8f\xbf\xbf", "\xf0\x90\x80", "\xf4\x90\x80\x80", "\xf5\x80\x80\x80", "\xff", "\xfe", "\xf8\x88\x80\x80\x80"}

var jsonEscapes = []string{`\"`, `\\`, `\/`, `\b`, `\f`, `\n`, `\r`, `\t`, `\u0000`, `\u001f`, `\u0020`, `\u0041`, `\u00e9`, `\u07ff`, `\u0800`,
	`\uffff`, `\ufffd`, `\uFFFD`, `\uAbCd`, `\ud7ff`, `\ue000`, `\ud800\udc00`, `\udbff\udfff`, `\uD83D\uDE00`, `\ud800\udfff`, `\udbff\udc00`}

var jsonBadEscapes = []string{`\a`, `\v`, `\0`, `\x41`, `\'`, `\u`, `\u1`, `\u12`, `\u123`, `\u12g4`, `\u+123`, `\u-123`, `\u 123`, `\ud800`, `\udc00`,
	`\udfff`, `\ud800\ud800`, `\ud800A`, `\ud800\n`, `\ud800\\u dc00`, `\ud800Xudc00`, `\ud800\Udc00`, `\ud800\udbff`, `\ud800`, `\dc00\ud800`,
	`\ud800\udc0`, `\ud800\udc0g`, `\U0041`, `\`, `\ud800\u`, `\ud800\`, `\udbff\udc0`}

// jsonGenStringBody: the characters between the quotes; bad>0 gives the probability (in 1/64) of a malformed piece.
func jsonGenStringBody(c *Ctx, bad int) string {
	var sb strings.Builder
	n := c.Intn(8)
	if c.Intn(16) == 0 {
		n = 8 + c.Intn(40)
	}
	for i := 0; i < n; i++ {
		if bad > 0 && c.Intn(64) < bad {
			switch c.Intn(5) {
			case 0:
				sb.WriteByte(byte(c.Intn(32)))
			case 1:
				sb.WriteString(jsonBadUtf8[c.Intn(len(jsonBadUtf8))])
			case 2:
				sb.WriteString(jsonBadEscapes[c.Intn(len(jsonBadEscapes))])
			case 3:
				sb.WriteByte('"')
			default:
				sb.WriteByte(byte(c.U64()))
			}
			continue
		}
		switch c.Intn(6) {
		case 0, 1:
			sb.WriteByte(byte(0x20 + c.Intn(0x5f)))
			// may produce '"' or '\\': replace to keep the body well formed
		case 2:
			sb.WriteRune(jsonRunes[c.Intn(len(jsonRunes))])
		case 3:
			sb.WriteString(jsonEscapes[c.Intn(len(jsonEscapes))])
		case 4:
			r := rune(c.Intn(0x110000))
			if r >= 0xd800 && r < 0xe000 {
				r = 0xfffd
			}
			if r < 0x20 {
				r = 'x'
			}
			sb.WriteRune(r)
		default:
			sb.WriteString("abc_XYZ-09 .:,{}[]"[c.Intn(18):][:1])
		}
	}
	s := sb.String()
	if bad == 0 {
		// escape stray quote/backslash bytes produced by case 0
		var out strings.Builder
		for i := 0; i < len(s); i++ {
			ch := s[i]
			if ch == '\\' && i+1 < len(s) && strings.ContainsRune(`"\/bfnrtu`, rune(s[i+1])) {
				out.WriteByte(ch)
				out.WriteByte(s[i+1])
				i++
				continue
			}
			if ch == '"' || ch == '\\' {
				out.WriteByte('\\')
			}
			out.WriteByte(ch)
		}
		s = out.String()
	}
	return s
}

func jsonGenString(c *Ctx, bad int) string { return `"` + jsonGenStringBody(c, bad) + `"` }

// jsonGenValue: grammar-directed document.
func jsonGenValue(c *Ctx, depth int, sb *strings.Builder) {
	k := c.Intn(10)
	if depth <= 0 && k >= 6 {
		k = c.Intn(6)
	}
	switch k {
	case 0:
		sb.WriteString("null")
	case 1:
		sb.WriteString("true")
	case 2:
		sb.WriteString("false")
	case 3, 4:
		sb.WriteString(jsonGenNumber(c))
	case 5:
		sb.WriteString(jsonGenString(c, 0))
	case 6, 7:
		sb.WriteByte('[')
		sb.WriteString(jsonGenWs(c))
		n := c.Intn(4)
		for i := 0; i < n; i++ {
			if i > 0 {
				sb.WriteByte(',')
				sb.WriteString(jsonGenWs(c))
			}
			jsonGenValue(c, depth-1, sb)
			sb.WriteString(jsonGenWs(c))
		}
		sb.WriteByte(']')
	default:
		sb.WriteByte('{')
		sb.WriteString(jsonGenWs(c))
		n := c.Intn(4)
		for i := 0; i < n; i++ {
			if i > 0 {
				sb.WriteByte(',')
				sb.WriteString(jsonGenWs(c))
			}
			sb.WriteString(jsonGenString(c, 0))
			sb.WriteString(jsonGenWs(c))
			sb.WriteByte(':')
			sb.WriteString(jsonGenWs(c))
			jsonGenValue(c, depth-1, sb)
			sb.WriteString(jsonGenWs(c))
		}
		sb.WriteByte('}')
	}
}

func jsonGenDoc(c *Ctx) []byte {
	var sb strings.Builder
	sb.WriteString(jsonGenWs(c))
	jsonGenValue(c, 1+c.Intn(4), &sb)
	sb.WriteString(jsonGenWs(c))
	return []byte(sb.String())
}

var jsonSoupPieces = []string{"{", "}", "[", "]", ",", ":", "null", "true", "false", " ", "\n", "\t", "\"a\"", "\"\"", "0", "-1", "1.5", "1e5",
	"nul", "tru", "fals", "nulll", "null_", "true1", "false-", "true.", "null+", "nullx", "Null", "TRUE", "\"", "\\", "'a'", "/", "//", "/*", "#", "+", "-", ".",
	"1e", "01", "\x00", "\xff", "\xc2\xa0", "\xef\xbb\xbf", "\v", "\f", "x", "_", "e", "E", "\"k\":", "\"k\" :", ",,", "::", "[]", "{}", "[[", "}}"}

func jsonGenSoup(c *Ctx) []byte {
	var sb strings.Builder
	n := 1 + c.Intn(8)
	for i := 0; i < n; i++ {
		switch c.Intn(8) {
		case 0:
			sb.WriteString(jsonGenNumber(c))
		case 1:
			sb.WriteString(jsonGenString(c, 4))
		case 2:
			sb.WriteString(jsonBadNumbers[c.Intn(len(jsonBadNumbers))])
		default:
			sb.WriteString(jsonSoupPieces[c.Intn(len(jsonSoupPieces))])
		}
	}
	return []byte(sb.String())
}

const jsonMutAlphabet = "{}[],:\"\\ \n\t0123456789-+.eEntfalsru_x/\x00\x1f\x7f\x80\xc2\xe0\xed\xf0\xf4\xff"

func jsonMutate(c *Ctx, b []byte) []byte {
	b = append([]byte(nil), b...)
	nm := 1 + c.Intn(2)
	for k := 0; k < nm; k++ {
		if len(b) == 0 {
			return []byte{jsonMutAlphabet[c.Intn(len(jsonMutAlphabet))]}
		}
		i := c.Intn(len(b))
		switch c.Intn(8) {
		case 0: // delete
			b = append(b[:i], b[i+1:]...)
		case 1: // insert
			ch := jsonMutAlphabet[c.Intn(len(jsonMutAlphabet))]
			b = append(b[:i], append([]byte{ch}, b[i:]...)...)
		case 2: // replace
			b[i] = jsonMutAlphabet[c.Intn(len(jsonMutAlphabet))]
		case 3: // truncate
			b = b[:i]
		case 4: // duplicate a slice
			j := i + c.Intn(len(b)-i+1)
			b = append(b[:j], append(append([]byte(nil), b[i:j]...), b[j:]...)...)
		case 5: // splice a bad number
			s := jsonBadNumbers[c.Intn(len(jsonBadNumbers))]
			b = append(b[:i], append([]byte(s), b[i:]...)...)
		case 6: // splice a bad escape / utf8 (useful inside strings)
			var s string
			if c.Bool() {
				s = jsonBadEscapes[c.Intn(len(jsonBadEscapes))]
			} else {
				s = jsonBadUtf8[c.Intn(len(jsonBadUtf8))]
			}
			b = append(b[:i], append([]byte(s), b[i:]...)...)
		default: // swap two bytes
			j := c.Intn(len(b))
			b[i], b[j] = b[j], b[i]
		}
	}
	return b
}

func jsonDeep(c *Ctx) []byte {
	n := 1 + c.Intn(120)
	var sb strings.Builder
	kinds := make([]byte, n)
	for i := 0; i < n; i++ {
		if c.Bool() {
			sb.WriteString("[")
			kinds[i] = ']'
		} else {
			sb.WriteString(`{"a":`)
			kinds[i] = '}'
		}
	}
	sb.WriteString("1")
	m := n
	switch c.Intn(4) {
	case 0:
		m = n - 1
	case 1:
		m = n + 1
	}
	for i := n - 1; i >= 0 && m > 0; i-- {
		sb.WriteByte(kinds[i])
		m--
	}
	for ; m > 0; m-- {
		sb.WriteByte(']')
	}
	return []byte(sb.String())
}

var jsonDocCorpus = []string{
	``, ` `, "\n\t\r ", `null`, ` true `, `false`, `0`, `-0`, `"x"`, `[]`, `{}`, `[ ]`, `{ }`, `[1,2]`, `{"a":1,"b":[true,null]}`,
	// F2 witnesses (repaired) and neighbours
	`{"x": 1e}`, `[1e,`, `[1e+]`, `[1e-]`, `[1E]`, `1e`, `1e+`, `[1e5]`, `[1e+5]`, `[1.e5]`, `[1.5e]`, `[1e,2]`, `{"a":1e}`, `[1e ]`,
	// structure
	`[1,]`, `[,1]`, `[1,,2]`, `{"a":1,}`, `{,}`, `{"a"}`, `{"a":}`, `{"a" 1}`, `{1:2}`, `{"a":1 "b":2}`, `[1 2]`, `[1:2]`, `{"a":1]`, `[1}`, `]`, `}`, `,`, `:`,
	`[`, `{`, `{"a"`, `{"a":`, `{"a":1`, `[1`, `[1,`, `1 2`, `1,2`, `null null`, `"a" "b"`, `"a":1`, `{"a":1}}`, `[[]]]`, `{} {}`, `[] []`,
	// literals / delimiter rule
	`nul`, `nulll`, `null_`, `null-`, `null+`, `null.`, `nullA`, `null0`, `null,`, `null]`, `null}`, `null:`, `null"`, `null/`, "null\x00", "null\xff", `[null"a"]`, `[true"a"]`,
	`truefalse`, `true false`, `[truex]`, `[true_]`, `[1"a"]`, `[1[2]]`, `[1{}]`, `{"a":1"b":2}`, `[1.5"x"]`, `["a"1]`, `["a""b"]`, `["a"null]`, `[[]1]`, `[{}1]`,
	// strings
	`"`, `"\`, `"\"`, `"\u`, `"\u0`, `"\u00`, `"\u000`, `"\u0000"`, `"\ud800"`, `"\ud800\udc00"`, `"\udc00\ud800"`, "\"\x00\"", "\"\x1f\"", "\"\x7f\"", "\"\x80\"", "\"\xc2\xa0\"",
	"\"\xed\xa0\x80\"", "\"\xf4\x90\x80\x80\"", "\"\xef\xbf\xbd\"", "\"a\nb\"", "\"a\tb\"", `"\a"`, `"\x41"`, `"\/"`, `{"a":1}`, `{"a\":1}`, `{"a":"\ud800"}`,
	// whitespace kinds
	"\v1", "\f1", "\xc2\xa01", "\xef\xbb\xbf1", "1\v", "[1\f]", "\x001", "1\x00",
	// numbers
	`01`, `-`, `-a`, `+1`, `.5`, `1.`, `-01`, `1.5.5`, `0x1`, `1e5e5`, `-0.0e-0`, `1E+0`, `123456789012345678901234567890`, `1e400`, `-1e-400`, `0e`, `--1`, `-+1`, `1-1`, `1+1`, `1_000`,
}

// ---------------------------------------------------------------- string ops

func (c *Ctx) jsonStrCase(lit []byte) {
	d := pjson.NewDecoder(lit)
	t, err := d.Read()
	var obs []string
	switch {
	case err != nil:
		e := jsonErrClass(err)
		obs = []string{e[0], "x", "0"}
		c.Stat("str_" + e[0])
	case t.Kind() != pjson.String:
		obs = []string{"notstring", "x", "0"}
	default:
		obs = []string{"ok", HexB([]byte(t.ParsedString())), strconv.Itoa(len(t.RawString()))}
		c.Stat("str_ok")
		// C21: an accepted string token is an RFC 8259 string (independent oracle) with the same value
		raw := []byte(t.RawString())
		var s string
		if !utf8.Valid(raw) || stdjson.Unmarshal(raw, &s) != nil {
			c.PropFail("C21", "string token accepted but not a JSON string", HexB(lit))
		} else if s != t.ParsedString() {
			c.PropFail("C21", "string token decodes differently from encoding/json", HexB(lit))
		}
		if !utf8.ValidString(t.ParsedString()) {
			c.PropFail("C21", "decoded string is not valid UTF-8", HexB(lit))
		}
	}
	c.Case("json", "str", []string{HexB(lit)}, obs)
}

func (c *Ctx) jsonEncStrCase(s []byte) {
	e, _ := pjson.NewEncoder(nil, "")
	err := e.WriteString(string(s))
	out := e.Bytes()
	c.Case("json", "encstr", []string{HexB(s)}, []string{HexB(out), Tok(err == nil)})
	if (err == nil) != utf8.Valid(s) {
		c.PropFail("C21", "WriteString error iff invalid UTF-8 violated", HexB(s))
	}
	if err == nil {
		c.Stat("encstr_ok")
		// string_escape_roundtrip on the implementation
		d := pjson.NewDecoder(out)
		t, derr := d.Read()
		if derr != nil || t.Kind() != pjson.String || t.ParsedString() != string(s) || len(t.RawString()) != len(out) {
			c.PropFail("C21", "string escape round trip failed", HexB(s))
		}
		var s2 string
		if stdjson.Unmarshal(out, &s2) != nil || s2 != string(s) {
			c.PropFail("C21", "escaped string is not the JSON string of the input", HexB(s))
		}
	} else {
		c.Stat("encstr_err")
	}
}

func jsonGenRawString(c *Ctx) []byte {
	var sb bytes.Buffer
	n := c.Intn(10)
	for i := 0; i < n; i++ {
		switch c.Intn(8) {
		case 0:
			sb.WriteByte(byte(c.Intn(32)))
		case 1:
			sb.WriteByte("\"\\/\x7f"[c.Intn(4)])
		case 2:
			sb.WriteString(string(jsonRunes[c.Intn(len(jsonRunes))]))
		case 3:
			if c.Intn(4) == 0 {
				sb.WriteString(jsonBadUtf8[c.Intn(len(jsonBadUtf8))])
			} else {
				sb.WriteString("\u00e9")
			}
		case 4:
			r := rune(c.Intn(0x110000))
			if r >= 0xd800 && r < 0xe000 {
				r = 0xfffd
			}
			sb.WriteString(string(r))
		default:
			sb.WriteByte(byte(0x20 + c.Intn(0x5f)))
		}
	}
	return sb.Bytes()
}

// ---------------------------------------------------------------- encoder ops

type jsonTree struct {
	kind byte // n t f s i u [ {
	s    string
	i    int64
	u    uint64
	kids []*jsonTree
	keys []string
}

func jsonGenTree(c *Ctx, depth int, badStr bool) *jsonTree {
	k := c.Intn(9)
	if depth <= 0 && k >= 6 {
		k = c.Intn(6)
	}
	str := func() string {
		if badStr && c.Intn(12) == 0 {
			return string(jsonGenRawString(c))
		}
		b := jsonGenRawString(c)
		return strings.ToValidUTF8(string(b), "?")
	}
	switch k {
	case 0:
		return &jsonTree{kind: 'n'}
	case 1:
		return &jsonTree{kind: "tf"[c.Intn(2)]}
	case 2, 3:
		return &jsonTree{kind: 's', s: str()}
	case 4:
		v := int64(gbits(c))
		if c.Bool() {
			v = -v
		}
		return &jsonTree{kind: 'i', i: v}
	case 5:
		return &jsonTree{kind: 'u', u: gbits(c)}
	case 6, 7:
		t := &jsonTree{kind: '['}
		n := c.Intn(4)
		for i := 0; i < n; i++ {
			t.kids = append(t.kids, jsonGenTree(c, depth-1, badStr))
		}
		return t
	default:
		t := &jsonTree{kind: '{'}
		n := c.Intn(4)
		for i := 0; i < n; i++ {
			t.keys = append(t.keys, str())
			t.kids = append(t.kids, jsonGenTree(c, depth-1, badStr))
		}
		return t
	}
}

// jsonRunTree writes the tree through the Encoder; calls is the flattened call sequence (model input).
func jsonRunTree(e *pjson.Encoder, t *jsonTree, calls *[]string) bool {
	ok := true
	switch t.kind {
	case 'n':
		e.WriteNull()
		*calls = append(*calls, "n")
	case 't':
		e.WriteBool(true)
		*calls = append(*calls, "t")
	case 'f':
		e.WriteBool(false)
		*calls = append(*calls, "f")
	case 's':
		if e.WriteString(t.s) != nil {
			ok = false
		}
		*calls = append(*calls, "s"+HexB([]byte(t.s)))
	case 'i':
		e.WriteInt(t.i)
		*calls = append(*calls, "i"+HexZ(t.i))
	case 'u':
		e.WriteUint(t.u)
		*calls = append(*calls, "u"+HexN(t.u))
	case '[':
		e.StartArray()
		*calls = append(*calls, "[")
		for _, k := range t.kids {
			if !jsonRunTree(e, k, calls) {
				ok = false
			}
		}
		e.EndArray()
		*calls = append(*calls, "]")
	case '{':
		e.StartObject()
		*calls = append(*calls, "{")
		for i, k := range t.kids {
			if e.WriteName(t.keys[i]) != nil {
				ok = false
			}
			*calls = append(*calls, "k"+HexB([]byte(t.keys[i])))
			if !jsonRunTree(e, k, calls) {
				ok = false
			}
		}
		e.EndObject()
		*calls = append(*calls, "}")
	}
	return ok
}

var jsonIndents = []string{"", "", " ", "\t", "  ", " \t", "    "}

// indents NewEncoder must either reject or turn into JSON white space only
var jsonOddIndents = []string{"\v", "\f", "\n", "\r", " \n", "\u0085", "\u00a0", " \u00a0", "\u2003", "\u2028", "\u3000", "x", " x", "\x00", "\t\v", "\u00a0\u00a0"}

func v1c(b []byte) any { v, _ := jsonParseAny(b); return v }

func jsonParseAny(b []byte) (any, error) {
	d := stdjson.NewDecoder(bytes.NewReader(b))
	d.UseNumber()
	var v any
	if err := d.Decode(&v); err != nil {
		return nil, err
	}
	if d.More() {
		return nil, fmt.Errorf("trailing data")
	}
	return v, nil
}

func (c *Ctx) jsonEncCase(t *jsonTree) {
	render := func(indent string) ([]byte, []string, bool) {
		e, err := pjson.NewEncoder(nil, indent)
		if err != nil {
			panic(err)
		}
		var calls []string
		ok := jsonRunTree(e, t, &calls)
		return e.Bytes(), calls, ok
	}
	compact, calls, ok := render("")
	rnd := Tok(detrand.Bool())
	c.Case("json", "enc", append([]string{HexB(nil), rnd}, calls...), []string{HexB(compact), Tok(ok)})
	indent := jsonIndents[1+c.Intn(len(jsonIndents)-1)]
	multi, _, _ := render(indent)
	c.Case("json", "enc", append([]string{HexB([]byte(indent)), rnd}, calls...), []string{HexB(multi), Tok(ok)})
	if !ok {
		c.Stat("enc_badstring")
		return
	}
	c.Stat("enc_ok")
	// indents outside the documented set (space, tab): whatever NewEncoder accepts must still give JSON
	if c.Intn(3) == 0 {
		odd := jsonOddIndents[c.Intn(len(jsonOddIndents))]
		if e, err := pjson.NewEncoder(nil, odd); err != nil {
			c.Stat("enc_odd_indent_rejected")
		} else {
			c.Stat("enc_odd_indent_accepted")
			var calls2 []string
			jsonRunTree(e, t, &calls2)
			out := e.Bytes()
			v3, err3 := jsonParseAny(out)
			if _, _, ok3 := jsonTokens(out); err3 != nil || !ok3 || !stdjson.Valid(out) {
				c.PropFail("C21", "encoder accepts an indent that makes its output non-JSON", HexB([]byte(odd)), HexB(out))
			} else if !reflect.DeepEqual(v1c(compact), v3) {
				c.PropFail("C21", "output with an accepted odd indent parses to a different value", HexB([]byte(odd)), HexB(out))
			}
		}
	}
	// encoder_emits_json / indent_invariant on the implementation
	v1, err1 := jsonParseAny(compact)
	v2, err2 := jsonParseAny(multi)
	if err1 != nil || !stdjson.Valid(compact) || !utf8.Valid(compact) {
		c.PropFail("C21", "compact encoder output is not JSON", HexB(compact))
		return
	}
	if err2 != nil || !stdjson.Valid(multi) || !utf8.Valid(multi) {
		c.PropFail("C21", "indented encoder output is not JSON", HexB(multi))
		return
	}
	if !reflect.DeepEqual(v1, v2) {
		c.PropFail("C21", "indented and compact output parse to different values", HexB(compact), HexB(multi))
	}
	// and our own tokenizer reads both to EOF with the same token kinds
	o1, _, ok1 := jsonTokens(compact)
	o2, _, ok2 := jsonTokens(multi)
	if !ok1 || !ok2 || jsonStripPos(o1[0]) != jsonStripPos(o2[0]) {
		c.PropFail("C21", "decoder disagrees on indented vs compact output", HexB(compact), HexB(multi))
	}
}

var jsonPosRe = regexp.MustCompile(`\d+:\d+,`)

func jsonStripPos(s string) string { return jsonPosRe.ReplaceAllString(s, ",") }

// ---------------------------------------------------------------- family json

func famJson(c *Ctx) {
	for _, s := range jsonDocCorpus {
		c.jsonDocCases([]byte(s))
	}
	for _, s := range jsonBadNumbers {
		c.jsonDocCases([]byte(s))
		c.jsonDocCases([]byte("[" + s + "]"))
		c.jsonDocCases([]byte(`{"a":` + s + "}"))
	}
	for _, s := range jsonEscapes {
		c.jsonStrCase([]byte(`"` + s + `"`))
		c.jsonStrCase([]byte(`"a` + s + `b"`))
	}
	for _, s := range jsonBadEscapes {
		c.jsonStrCase([]byte(`"` + s + `"`))
		c.jsonStrCase([]byte(`"` + s))
		c.jsonStrCase([]byte(`"a` + s + `b"`))
	}
	for _, s := range jsonBadUtf8 {
		c.jsonStrCase([]byte(`"` + s + `"`))
		c.jsonStrCase([]byte(`"a` + s + `b"`))
		c.jsonEncStrCase([]byte(s))
		c.jsonEncStrCase([]byte("ab" + s))
	}
	for _, r := range jsonRunes {
		c.jsonStrCase([]byte(`"` + string(r) + `"`))
		c.jsonEncStrCase([]byte(string(r)))
	}
	for i := 0; i < 0x80; i++ {
		c.jsonEncStrCase([]byte{byte(i)})
		c.jsonStrCase([]byte{'"', byte(i), '"'})
		c.jsonStrCase([]byte{'"', '\\', byte(i), '"'})
	}
	for i := 0x80; i < 0x100; i++ {
		c.jsonStrCase([]byte{'"', byte(i), 0x80, 0x80, 0x80, '"'})
		c.jsonEncStrCase([]byte{byte(i), 0xbf, 0xbf, 0xbf})
	}

	n := c.N
	for i := 0; i < n; i++ {
		switch c.Intn(16) {
		case 0, 1, 2:
			c.Stat("gen_doc")
			c.jsonDocCases(jsonGenDoc(c))
		case 3, 4, 5, 6:
			c.Stat("gen_mutated")
			c.jsonDocCases(jsonMutate(c, jsonGenDoc(c)))
		case 7, 8:
			c.Stat("gen_soup")
			c.jsonDocCases(jsonGenSoup(c))
		case 9:
			c.Stat("gen_deep")
			c.jsonDocCases(jsonDeep(c))
		case 10:
			c.Stat("gen_str")
			c.jsonStrCase([]byte(jsonGenString(c, 0)))
		case 11:
			c.Stat("gen_str_bad")
			s := []byte(jsonGenString(c, 6))
			if c.Intn(4) == 0 {
				s = jsonMutate(c, s)
			}
			c.jsonStrCase(s)
		case 12, 13:
			c.Stat("gen_encstr")
			c.jsonEncStrCase(jsonGenRawString(c))
		default:
			c.Stat("gen_tree")
			c.jsonEncCase(jsonGenTree(c, 1+c.Intn(3), c.Intn(8) == 0))
		}
	}
}

// ================================================================ family jsonv (C22)

type jsonvKind struct {
	field  string
	bits   int
	signed bool
}

var jsonvIntKinds = []jsonvKind{
	{"optionalInt32", 32, true}, {"optionalInt64", 64, true}, {"optionalUint32", 32, false}, {"optionalUint64", 64, false},
	{"optionalSint32", 32, true}, {"optionalSint64", 64, true}, {"optionalFixed32", 32, false}, {"optionalFixed64", 64, false},
	{"optionalSfixed32", 32, true}, {"optionalSfixed64", 64, true},
}

func jsonvGetInt(m *test3.TestAllTypes, k jsonvKind) (set bool, v *big.Int) {
	r := m.ProtoReflect()
	fd := r.Descriptor().Fields().ByJSONName(k.field)
	if !r.Has(fd) {
		return false, nil
	}
	val := r.Get(fd)
	if k.signed {
		return true, big.NewInt(val.Int())
	}
	return true, new(big.Int).SetUint64(val.Uint())
}

func bigHexZ(v *big.Int) string {
	if v.Sign() < 0 {
		return "-" + new(big.Int).Neg(v).Text(16)
	}
	return v.Text(16)
}

var jsonvNumRe = regexp.MustCompile(`^(-?)(0|[1-9][0-9]*)(?:\.([0-9]+))?(?:[eE]([+-]?[0-9]+))?$`)

// jsonvOracle: exact value of a JSON number literal (possibly quoted).  Returns
// (wellformed, integral && representable, value).
func jsonvOracle(lit string, k jsonvKind) (wf bool, rep bool, v *big.Int) {
	if len(lit) >= 2 && lit[0] == '"' && lit[len(lit)-1] == '"' {
		lit = lit[1 : len(lit)-1]
	}
	m := jsonvNumRe.FindStringSubmatch(lit)
	if m == nil {
		return false, false, nil
	}
	digits := m[2] + m[3]
	mant, _ := new(big.Int).SetString(digits, 10)
	if m[1] == "-" {
		mant.Neg(mant)
	}
	exp := new(big.Int)
	if m[4] != "" {
		exp.SetString(m[4], 10)
	}
	exp.Sub(exp, big.NewInt(int64(len(m[3]))))
	if mant.Sign() == 0 {
		return true, true, new(big.Int)
	}
	var val *big.Int
	switch {
	case exp.Sign() >= 0:
		if exp.Cmp(big.NewInt(40)) > 0 {
			return true, false, nil
		}
		val = new(big.Int).Mul(mant, new(big.Int).Exp(big.NewInt(10), exp, nil))
	default:
		ne := new(big.Int).Neg(exp)
		if ne.Cmp(big.NewInt(int64(len(digits)))) > 0 {
			return true, false, nil // |mant| < 10^len(digits) <= 10^ne: not an integer
		}
		q, r := new(big.Int).QuoRem(mant, new(big.Int).Exp(big.NewInt(10), ne, nil), new(big.Int))
		if r.Sign() != 0 {
			return true, false, nil
		}
		val = q
	}
	lo, hi := new(big.Int), new(big.Int)
	if k.signed {
		hi.Lsh(big.NewInt(1), uint(k.bits-1))
		lo.Neg(hi)
		hi.Sub(hi, big.NewInt(1))
	} else {
		hi.Lsh(big.NewInt(1), uint(k.bits))
		hi.Sub(hi, big.NewInt(1))
	}
	if val.Cmp(lo) < 0 || val.Cmp(hi) > 0 {
		return true, false, nil
	}
	return true, true, val
}

// jsonvF6Class mirrors JsonNumModel.f6_class: no integer digits (leading 0), non-zero fraction,
// and an exponent above 20 (or outside int32).
func jsonvF6Class(lit string) bool {
	if len(lit) >= 2 && lit[0] == '"' && lit[len(lit)-1] == '"' {
		lit = lit[1 : len(lit)-1]
	}
	m := jsonvNumRe.FindStringSubmatch(lit)
	if m == nil {
		return false
	}
	frac := strings.TrimRight(m[3], "0")
	intp := m[2]
	if intp == "0" {
		intp = ""
	}
	if intp == "" && frac == "" {
		return false
	}
	x := new(big.Int)
	if m[4] != "" {
		x.SetString(m[4], 10)
	}
	if x.Cmp(big.NewInt(math.MaxInt32)) > 0 || x.Cmp(big.NewInt(math.MinInt32)) < 0 {
		return true
	}
	return intp == "" && x.Cmp(big.NewInt(20)) > 0
}

func (c *Ctx) jsonvIntCase(k jsonvKind, lit string) {
	doc := []byte(`{"` + k.field + `":` + lit + `}`)
	var m test3.TestAllTypes
	err := protojson.Unmarshal(doc, &m)
	var obs []string
	set, v := false, (*big.Int)(nil)
	if err != nil {
		obs = []string{"err"}
	} else if set, v = jsonvGetInt(&m, k); !set {
		obs = []string{"unset"}
	} else {
		obs = []string{"ok", bigHexZ(v)}
	}
	c.Case("jsonv", "int", []string{strconv.Itoa(k.bits), Tok(k.signed), HexB(doc)}, obs)

	// C22 int_decode_exact on the implementation, math/big oracle
	lit = strings.Trim(lit, " \t\r\n")
	wf, rep, want := jsonvOracle(lit, k)
	if !wf {
		c.Stat("int_malformed")
		if err == nil && set {
			c.PropFail("C22", "malformed number literal accepted for an integer field", HexB(doc))
		}
		return
	}
	switch {
	case rep && err == nil && set:
		c.Stat("int_accept")
		if v.Cmp(want) != 0 {
			c.PropFail("C22", "integer decoded to a different value", HexB(doc), bigHexZ(v), bigHexZ(want))
		}
	case rep && (err != nil || !set):
		if jsonvF6Class(lit) {
			c.Stat("int_known_F6")
			c.Known("F6", "C22", "integral representable literal rejected by normalizeToIntString digit-count guard: "+lit)
		} else {
			c.PropFail("C22", "integral representable literal rejected", HexB(doc))
		}
	case !rep && err == nil && set:
		c.PropFail("C22", "non-integral or out-of-range literal accepted", HexB(doc), bigHexZ(v))
	default:
		c.Stat("int_reject")
	}
}

var jsonvLimits = []string{"0", "1", "2", "9", "10", "127", "128", "255", "256", "32767", "32768", "65535", "65536",
	"2147483646", "2147483647", "2147483648", "2147483649", "4294967294", "4294967295", "4294967296", "4294967297",
	"9223372036854775806", "9223372036854775807", "9223372036854775808", "9223372036854775809",
	"18446744073709551614", "18446744073709551615", "18446744073709551616", "18446744073709551617",
	"10000000000000000000", "99999999999999999999", "100000000000000000000", "1000000000000000000000",
	"1000000000", "9999999999", "12345678901234567890", "20000000000000000000", "9007199254740993"}

// jsonvNotations renders the non-negative decimal integer v (a digit string) in a random notation
// denoting the same value (or, with nonint, a nearby non-integral value).
func jsonvNotation(c *Ctx, v string) string {
	trim := strings.TrimRight(v, "0")
	tz := len(v) - len(trim)
	if trim == "" {
		trim, tz = "0", 0
	}
	switch c.Intn(12) {
	case 0:
		return v
	case 1:
		return v + "." + strings.Repeat("0", 1+c.Intn(3))
	case 2: // m e tz
		if tz > 0 {
			k := 1 + c.Intn(tz)
			return v[:len(v)-k] + "eE"[c.Intn(2):][:1] + []string{"", "+"}[c.Intn(2)] + strconv.Itoa(k)
		}
		return v + "e0"
	case 3: // d.ddd e k  (decimal point moved left by k)
		if len(v) > 1 {
			k := 1 + c.Intn(len(v)-1)
			return v[:len(v)-k] + "." + v[len(v)-k:] + "e" + strconv.Itoa(k)
		}
		return v + ".0e0"
	case 4: // 0.00ddd e k   (F6 zone when k > 20)
		z := c.Intn(4)
		k := len(v) + z
		return "0." + strings.Repeat("0", z) + v + "e" + strconv.Itoa(k)
	case 5: // v000 e-3
		k := 1 + c.Intn(4)
		return v + strings.Repeat("0", k) + "e-" + strconv.Itoa(k)
	case 6: // v.000 e-0 / E+00
		return v + ".0" + "E" + []string{"+00", "-0", "0", "-00"}[c.Intn(4)]
	case 7: // trailing fraction zeros together with exponent
		if len(v) > 1 {
			k := 1 + c.Intn(len(v)-1)
			return v[:len(v)-k] + "." + v[len(v)-k:] + strings.Repeat("0", c.Intn(3)) + "e" + []string{"", "+", "+0"}[c.Intn(3)] + strconv.Itoa(k)
		}
		return v + ".00"
	case 8: // trimmed mantissa with larger exponent, extra zeros in front of the exponent digits
		return trim + "e" + strings.Repeat("0", c.Intn(3)) + strconv.Itoa(tz)
	case 9: // non-integral neighbours
		switch c.Intn(4) {
		case 0:
			return v + ".5"
		case 1:
			return v + "e-1"
		case 2:
			return v + "." + strings.Repeat("0", c.Intn(3)) + "1"
		default:
			return v + "1e-" + strconv.Itoa(2+c.Intn(2))
		}
	case 10: // fraction longer than exponent by trailing zeros only
		k := c.Intn(3)
		return v + "." + strings.Repeat("0", k+1+c.Intn(2)) + "e" + strconv.Itoa(k)
	default: // huge / tiny exponents
		return trim + "e" + []string{"20", "21", "19", "2147483647", "2147483648", "-2147483648", "-2147483649", "99999999999999999999", "-99999999999999999999", "-" + strconv.Itoa(tz)}[c.Intn(10)]
	}
}

func jsonvGenLit(c *Ctx) string {
	var v string
	if c.Intn(4) == 0 {
		v = strconv.FormatUint(gbits(c), 10)
	} else {
		b, _ := new(big.Int).SetString(jsonvLimits[c.Intn(len(jsonvLimits))], 10)
		if c.Intn(3) == 0 {
			b.Add(b, big.NewInt(int64(c.Intn(5)-2)))
			if b.Sign() < 0 {
				b.Neg(b)
			}
		}
		if c.Intn(6) == 0 {
			b.Mul(b, new(big.Int).Exp(big.NewInt(10), big.NewInt(int64(c.Intn(4))), nil))
		}
		v = b.String()
	}
	lit := jsonvNotation(c, v)
	if c.Intn(2) == 0 {
		lit = "-" + lit
	}
	switch c.Intn(12) {
	case 0, 1, 2:
		lit = `"` + lit + `"`
	case 3:
		lit = `"` + []string{" ", "", "\\t", "\\u00a0", "\\n"}[c.Intn(5)] + lit + []string{" ", "", "\\u2028", "\\r"}[c.Intn(4)] + `"`
	case 4: // malformed / not a number
		bad := []string{"+" + lit, "0" + lit, lit + "e", lit + ".", "." + lit, lit + "x", `"` + lit, lit + "_", "\"" + lit + " 1\"", "\"\\\"" + lit + "\\\"\"", `""`, `" "`, "true", `"true"`, `"null"`, "[" + lit + "]", "{}", `"1e"`, `"1 "`, `"0x10"`, `"1,"`, `"[1]"`, `"1}"`}
		lit = bad[c.Intn(len(bad))]
	case 5:
		lit = jsonGenNumber(c)
	}
	return lit
}

var jsonvIntCorpus = []string{
	"0", "-0", "0.0", "-0.0", "0e0", "0e5", "0e-5", "0.0e5", "0.000e2147483648", "0e99999999999999999999", "-0e-99999999999999999999", "1e0", "1e2", "100.0", "1.0e2", "1.5e1", "15e-1", "1.5", "1e-1", "10e-1", "100e-2", "100e-3",
	// F6 witnesses and neighbours
	"0.01e21", "0.1e20", "0.000000000000000000001e21", "0.001e22", "0.01e22", "0.1e21", "0.18446744073709551615e20", "0.018446744073709551615e21", "0.9223372036854775807e19", "0.09223372036854775807e20",
	"0.0000000000000000000001e22", "0.00000000000000000001e20", "0.000000000000000000010e21", "1e20", "1e19", "10e18", "0.1e2", "0.10e1", "0.01e2147483648", "1e2147483648", "1e-2147483649", "10e-2147483649",
	`"0.01e21"`, `"1e2"`, `"100"`, `" 1"`, `"1 "`, `"1\n"`, "\"\u00a01\"", `""`, `"1e"`, `"+1"`, `"01"`, `"1" `, "null", "true", `"abc"`, "[1]", "{}", "1e", "01", "+1", "1.", ".1",
	"2147483647", "2147483648", "-2147483648", "-2147483649", "4294967295", "4294967296", "9223372036854775807", "9223372036854775808", "-9223372036854775808", "-9223372036854775809",
	"18446744073709551615", "18446744073709551616", "-1", "-1e0", "-0.1e1", "2147483647.0", "2147483647.5", "2.147483647e9", "2.147483648e9", "21474836470e-1", "1844674407370955161.5e1", "1844674407370955161.6e1",
	"00000000000000000000001", "1e00000000000000000000001", "1e+00000000000000000001", "1E-00000000000000000000", "100000000000000000000e-1", "1000000000000000000000e-2", "184467440737095516150e-1", "10000000000000000000000000000000e-30",
}

func (c *Ctx) jsonvTokIntCase(bits int, signed bool, lit string) {
	d := pjson.NewDecoder([]byte(lit))
	t, err := d.Read()
	obs := []string{"notnumber"}
	if err == nil && t.Kind() == pjson.Number {
		if signed {
			if v, ok := t.Int(bits); ok {
				obs = []string{"ok", HexZ(v)}
			} else {
				obs = []string{"no"}
			}
		} else {
			if v, ok := t.Uint(bits); ok {
				obs = []string{"ok", HexN(v)}
			} else {
				obs = []string{"no"}
			}
		}
	}
	c.Case("jsonv", "tokint", []string{strconv.Itoa(bits), Tok(signed), HexB([]byte(lit))}, obs)
}

// floats: plumbing against strconv.ParseFloat (the oracle the Coq statement is relative to)
func (c *Ctx) jsonvFloatCase(bits int, lit string) {
	field := "optionalDouble"
	if bits == 32 {
		field = "optionalFloat"
	}
	doc := []byte(`{"` + field + `":` + lit + `}`)
	var m test3.TestAllTypes
	err := protojson.Unmarshal(doc, &m)
	lit = strings.Trim(lit, " \t\r\n")
	if lit == "null" {
		return
	}
	inner := lit
	quoted := false
	if len(lit) >= 2 && lit[0] == '"' && lit[len(lit)-1] == '"' {
		inner, quoted = lit[1:len(lit)-1], true
	}
	var want float64
	wantOK := false
	switch {
	case quoted && inner == "NaN":
		want, wantOK = math.NaN(), true
	case quoted && inner == "Infinity":
		want, wantOK = math.Inf(1), true
	case quoted && inner == "-Infinity":
		want, wantOK = math.Inf(-1), true
	case jsonNumRe.MatchString(inner):
		f, perr := strconv.ParseFloat(inner, bits)
		want, wantOK = f, perr == nil
	}
	c.Stat("float_case")
	if (err == nil) != wantOK {
		c.PropFail("C22", "float acceptance differs from the JSON number grammar + strconv.ParseFloat", HexB(doc))
		return
	}
	if err != nil {
		return
	}
	var got float64
	if bits == 32 {
		got = float64(m.GetOptionalFloat())
		if math.Float32bits(m.GetOptionalFloat()) != math.Float32bits(float32(want)) && !(math.IsNaN(want) && math.IsNaN(got)) {
			c.PropFail("C22", "float32 decoded to a different value than ParseFloat(s,32)", HexB(doc))
		}
		return
	}
	got = m.GetOptionalDouble()
	if math.Float64bits(got) != math.Float64bits(want) && !(math.IsNaN(want) && math.IsNaN(got)) {
		c.PropFail("C22", "float64 decoded to a different value than ParseFloat(s,64)", HexB(doc))
	}
}

var jsonvB64Corpus = []string{"", "QQ==", "QQ", "QUI=", "QUI", "QUJD", "QQ=", "Q", "Q===", "QQ==QQ==", "QUJD\n", "QU\nJD", "QQ\n==", "QQ=\n=", "QQ==\n", "-_-_", "+/+/", "-/+_", "-_8", "-_8=", "+/8=", "QQ= =", "QUJDRA", "QUJDRA==", "QUJDRA=", "QUJDRA===", "QR==", "QUJ=", "QUK=", "====", "=", "QQ==Q", "Q\rQ", "\nQQ", "QQ \n", "QUJDREVG", "QUJDREVGRw==", "QUJDREVGR0hJSktMTU5PUA==", "QUJDREVGR0hJSktM TU5PUA==", "QUJDREVGR0hJS\nktMTU5PUA==", "QUJDREVGR0hJSktMTU5PUA", "QUJDREVGR0hJSktMTU5PU-=="}

func jsonEscapeForJSON(s string) string {
	b, _ := stdjson.Marshal(s)
	return string(b)
}

func (c *Ctx) jsonvBytesCase(s string) {
	doc := []byte(`{"optionalBytes":` + jsonEscapeForJSON(s) + `}`)
	var m test3.TestAllTypes
	err := protojson.Unmarshal(doc, &m)
	obs := []string{"err"}
	if err == nil {
		if m.OptionalBytes == nil {
			obs = []string{"unset"}
		} else {
			obs = []string{"ok", HexB(m.OptionalBytes)}
		}
	}
	c.Case("jsonv", "bytes", []string{HexB(doc)}, obs)
}

func (c *Ctx) jsonvBytesRoundTrip(b []byte) {
	encs := []*base64.Encoding{base64.StdEncoding, base64.URLEncoding, base64.RawStdEncoding, base64.RawURLEncoding}
	for i, e := range encs {
		s := e.EncodeToString(b)
		c.jsonvBytesCase(s)
		var m test3.TestAllTypes
		if err := protojson.Unmarshal([]byte(`{"optionalBytes":"`+s+`"}`), &m); err != nil || !bytes.Equal(m.OptionalBytes, b) {
			c.PropFail("C22", fmt.Sprintf("base64 variant %d not accepted or decoded differently", i), HexB(b))
		}
	}
	// output: standard alphabet with padding
	out, err := protojson.MarshalOptions{}.Marshal(&test3.TestAllTypes{OptionalBytes: b})
	want := `{"optionalBytes":"` + base64.StdEncoding.EncodeToString(b) + `"}`
	if err != nil || string(out) != want {
		c.PropFail("C22", "bytes not marshalled as padded standard base64", HexB(b))
	}
	c.Case("jsonv", "mbytes", []string{HexB(b)}, []string{HexB(jsonvFieldValue(out))})
}

// jsonvFieldValue extracts the value bytes of a single-field compact object {"name":VALUE}.
func jsonvFieldValue(out []byte) []byte {
	i := bytes.IndexByte(out, ':')
	if i < 0 || len(out) < i+2 {
		return nil
	}
	return out[i+1 : len(out)-1]
}

func (c *Ctx) jsonvMarshalInt(k jsonvKind, v *big.Int) {
	m := &test3.TestAllTypes{}
	r := m.ProtoReflect()
	fd := r.Descriptor().Fields().ByJSONName(k.field)
	if k.signed {
		if k.bits == 32 {
			r.Set(fd, protoreflect.ValueOfInt32(int32(v.Int64())))
		} else {
			r.Set(fd, protoreflect.ValueOfInt64(v.Int64()))
		}
	} else {
		if k.bits == 32 {
			r.Set(fd, protoreflect.ValueOfUint32(uint32(v.Uint64())))
		} else {
			r.Set(fd, protoreflect.ValueOfUint64(v.Uint64()))
		}
	}
	out, err := protojson.Marshal(m)
	if err != nil {
		c.PropFail("C22", "marshal failed", k.field, v.String())
		return
	}
	val := jsonvFieldValue(out)
	c.Case("jsonv", "mint", []string{strconv.Itoa(k.bits), Tok(k.signed), bigHexZ(v)}, []string{HexB(val)})
	// int64_written_as_string
	want := v.String()
	if k.bits == 64 {
		want = `"` + want + `"`
	}
	if string(val) != want {
		c.PropFail("C22", "integer not written in the canonical form (64-bit as string)", k.field, v.String())
	}
	var m2 test3.TestAllTypes
	if err := protojson.Unmarshal(out, &m2); err != nil || !proto.Equal(m, &m2) {
		c.PropFail("C22", "integer does not round trip through protojson", k.field, v.String())
	}
}

var jsonvEnumCorpus = []string{`"FOO"`, `"BAR"`, `"BAZ"`, `"NEG"`, `"foo"`, `"UNKNOWN"`, `""`, `0`, `1`, `2`, `-1`, `3`, `100`, `1.0`, `1e0`, `10e-1`, `0.1e1`, `1.5`, `"1"`, `2147483647`, `2147483648`, `-2147483648`, `-2147483649`,
	`0.01e21`, `null`, `true`, `[1]`, `"BAR "`, `" BAR"`, `"BAR"`, `"BAR\u0000"`, `1e`, `-0`, `21474836470e-1`}

func (c *Ctx) jsonvEnumCase(lit string, discard bool) {
	doc := []byte(`{"optionalNestedEnum":` + lit + `}`)
	var m test3.TestAllTypes
	err := protojson.UnmarshalOptions{DiscardUnknown: discard}.Unmarshal(doc, &m)
	obs := []string{"err"}
	if err == nil {
		if m.OptionalNestedEnum == nil {
			obs = []string{"unset"}
		} else {
			obs = []string{"ok", HexZ(int64(*m.OptionalNestedEnum))}
		}
	}
	ins := []string{Tok(discard), HexB(doc)}
	vals := (test3.TestAllTypes_NestedEnum)(0).Descriptor().Values()
	for i := 0; i < vals.Len(); i++ {
		ins = append(ins, HexB([]byte(vals.Get(i).Name())), HexZ(int64(vals.Get(i).Number())))
	}
	c.Case("jsonv", "enum", ins, obs)
	// enum_by_name_or_number
	for i := 0; i < vals.Len(); i++ {
		if lit == `"`+string(vals.Get(i).Name())+`"` || lit == strconv.Itoa(int(vals.Get(i).Number())) {
			if err != nil || m.OptionalNestedEnum == nil || int32(*m.OptionalNestedEnum) != int32(vals.Get(i).Number()) {
				c.PropFail("C22", "enum name/number not decoded to its value", HexB(doc))
			}
		}
	}
}

func famJsonv(c *Ctx) {
	for _, lit := range jsonvIntCorpus {
		for _, k := range jsonvIntKinds[:4] {
			c.jsonvIntCase(k, lit)
			if lit[0] != '"' {
				c.jsonvTokIntCase(k.bits, k.signed, lit)
			}
		}
		c.jsonvIntCase(jsonvIntKinds[4+c.Intn(6)], lit)
		c.jsonvFloatCase(64, lit)
		c.jsonvFloatCase(32, lit)
	}
	for _, l := range jsonvLimits {
		for _, k := range jsonvIntKinds[:4] {
			for _, sign := range []string{"", "-"} {
				c.jsonvIntCase(k, sign+l)
				c.jsonvIntCase(k, `"`+sign+l+`"`)
				c.jsonvIntCase(k, sign+l+".0")
				c.jsonvIntCase(k, sign+l+"e0")
				c.jsonvIntCase(k, sign+l+"0e-1")
				c.jsonvIntCase(k, sign+"0."+l+"e"+strconv.Itoa(len(l)))
				c.jsonvIntCase(k, sign+"0.0"+l+"e"+strconv.Itoa(len(l)+1))
				c.jsonvTokIntCase(k.bits, k.signed, sign+l)
			}
		}
	}
	for _, s := range jsonvB64Corpus {
		c.jsonvBytesCase(s)
	}
	for _, s := range jsonvEnumCorpus {
		c.jsonvEnumCase(s, false)
		c.jsonvEnumCase(s, true)
	}
	for _, s := range []string{`"NaN"`, `"Infinity"`, `"-Infinity"`, `"+Infinity"`, `"nan"`, `"Inf"`, `NaN`, `"1e400"`, `1e400`, `-1e400`, `1e-400`, `3.4028235e38`, `3.4028236e38`, `3.40282356779733661637539395458142568448e38`,
		`7.038531e-26`, `1.0000000596046448`, `1.00000017881393421514957253748434595763683319091796875`, `"1.5"`, `" 1.5"`, `"1.5 "`, `""`, `"1e"`, `1e`, `0x1p-2`, `"0x1p-2"`, `1_0`, `"1_0"`, `"Infinity "`, `4.9e-324`, `2.2250738585072011e-308`, `1.7976931348623157e308`, `1.7976931348623159e308`} {
		c.jsonvFloatCase(64, s)
		c.jsonvFloatCase(32, s)
	}

	n := c.N
	for i := 0; i < n; i++ {
		switch c.Intn(16) {
		case 0, 1, 2, 3, 4, 5, 6:
			k := jsonvIntKinds[c.Intn(4)]
			if c.Intn(8) == 0 {
				k = jsonvIntKinds[c.Intn(len(jsonvIntKinds))]
			}
			c.jsonvIntCase(k, jsonvGenLit(c))
		case 7, 8:
			k := jsonvIntKinds[c.Intn(4)]
			lit := jsonvGenLit(c)
			if lit[0] == '"' || !jsonNumRe.MatchString(lit) {
				lit = jsonGenNumber(c)
			}
			c.jsonvTokIntCase(k.bits, k.signed, lit)
		case 9, 10:
			lit := jsonvGenLit(c)
			c.jsonvFloatCase(32+32*c.Intn(2), lit)
		case 11:
			b := c.Bytes(c.Intn(12))
			c.jsonvBytesRoundTrip(b)
		case 12:
			// mutated base64 text
			b := c.Bytes(c.Intn(9))
			s := []*base64.Encoding{base64.StdEncoding, base64.URLEncoding, base64.RawStdEncoding, base64.RawURLEncoding}[c.Intn(4)].EncodeToString(b)
			sb := []byte(s)
			if len(sb) > 0 {
				i := c.Intn(len(sb))
				const alpha = "ABab09+/-_=\n\r .,"
				switch c.Intn(4) {
				case 0:
					sb[i] = alpha[c.Intn(len(alpha))]
				case 1:
					sb = append(sb[:i], append([]byte{alpha[c.Intn(len(alpha))]}, sb[i:]...)...)
				case 2:
					sb = append(sb[:i], sb[i+1:]...)
				default:
					sb = append(sb, alpha[c.Intn(len(alpha))])
				}
			}
			c.jsonvBytesCase(string(sb))
		case 13:
			lit := jsonvEnumCorpus[c.Intn(len(jsonvEnumCorpus))]
			if c.Intn(3) == 0 {
				lit = jsonvGenLit(c)
			}
			c.jsonvEnumCase(lit, c.Bool())
		default:
			k := jsonvIntKinds[c.Intn(len(jsonvIntKinds))]
			var v *big.Int
			g := gbits(c)
			if k.signed {
				x := int64(g)
				if k.bits == 32 {
					x = int64(int32(g))
				}
				v = big.NewInt(x)
			} else {
				x := g
				if k.bits == 32 {
					x = uint64(uint32(g))
				}
				v = new(big.Int).SetUint64(x)
			}
			c.jsonvMarshalInt(k, v)
		}
	}
}
