//go:build verif

// Family conc18 — property C18: concurrent readers of a lazily decoded message.
//
// Parent process: spawns child processes of the same binary (so that a report of
// the race detector, which ends the process with status 66, becomes a P line),
// forwards their lines, and adds a few model-only schedule explorations.
//
// Child process, per experiment: build a random message of a type with
// [lazy=true] fields, marshal it (optionally re-shaping the encoding so that a
// lazy field occurs twice, contiguously or not, and optionally removing the
// index that Unmarshal stored so that readers race to build it), decode it once
// eagerly (the sequential reference) and once lazily (the shared message), then
// release N goroutines that each perform a pre-generated random sequence of
// read-only operations on the shared message.  Every goroutine records, without
// any synchronisation with the others, which instance it obtained for every
// lazy field path and a digest of every result.  After the join the harness
// checks the property's predicate (P lines) and prints the observed execution,
// abstracted to model events (thread, field, pointer class, content digest), as
// one C line that the Coq model (LazyCasModel.check_observed) must accept.
package main

import (
	"fmt"
	"os"
	"reflect"
	"runtime"
	"sort"
	"strconv"
	"strings"
	"sync"
	"sync/atomic"
	"time"

	"google.golang.org/protobuf/encoding/protojson"
	"google.golang.org/protobuf/encoding/prototext"
	"google.golang.org/protobuf/encoding/protowire"
	"google.golang.org/protobuf/internal/protolazy"
	"google.golang.org/protobuf/internal/strs"
	"google.golang.org/protobuf/proto"
	"google.golang.org/protobuf/reflect/protoreflect"

	"google.golang.org/protobuf/internal/testprotos/lazy/lazy_opaque"
	"google.golang.org/protobuf/internal/testprotos/mixed"
	"google.golang.org/protobuf/internal/testprotos/testeditions/testeditions_opaque"
)

// "conc18r" is the same family under a second name: bin/check names a shard's output file
// after (family, seed, shard), so the race and the non-race run must not share a name.
func init() { Register("conc18", famConc18); Register("conc18r", famConc18) }

type conc18Root struct {
	name string
	mk   func() proto.Message
}

var conc18Roots = []conc18Root{
	{"lazy_opaque.Node", func() proto.Message { return &lazy_opaque.Node{} }},
	{"mixed.OpaqueLazy", func() proto.Message { return &mixed.OpaqueLazy{} }},
	{"testeditions_opaque.TestAllTypes", func() proto.Message { return &testeditions_opaque.TestAllTypes{} }},
	{"testeditions_opaque.TestRequiredLazy", func() proto.Message { return &testeditions_opaque.TestRequiredLazy{} }},
	{"lazy_opaque.Node", func() proto.Message { return &lazy_opaque.Node{} }},
}

func famConc18(c *Ctx) {
	if concIsChild() {
		if os.Getenv(concChildEnv) == "witness" {
			conc18WitnessFG1(c)
		}
		for i := 0; i < c.N; i++ {
			conc18Experiment(c)
		}
		return
	}
	if concRaceEnabled {
		c.Stat("race_detector_on")
	} else {
		c.Stat("race_detector_off")
	}
	per := 25
	mode := "witness" // the first child also runs the corpus (witness of finding FG1)
	for remaining := c.N; remaining > 0; remaining -= per {
		k := per
		if remaining < k {
			k = remaining
		}
		seed := c.U64() >> 1
		res := concRunChild("conc18", mode, seed, k, c.Tier, nil, 10*time.Minute)
		mode = "1"
		concForward(c, res.lines)
		c.Stat("child_processes")
		st := strconv.FormatUint(seed, 10)
		if res.race {
			c.PropFail("C18", "data race reported by the race detector", "childseed="+st, concTok(res.raceInfo))
		}
		if res.timedOut {
			c.PropFail("C18", "readers did not terminate (child process timed out)", "childseed="+st)
		} else if res.crashed {
			c.PropFail("C18", "reader process crashed (fatal error or unrecovered panic)", "childseed="+st,
				"exit="+strconv.Itoa(res.exitCode), concTok(conc18Tail(res.stderr)))
		}
	}
	if !concRaceEnabled {
		conc18Schedules(c)
	}
}

func conc18Tail(s string) string {
	for _, ln := range strings.Split(s, "\n") {
		if strings.HasPrefix(ln, "fatal error:") || strings.HasPrefix(ln, "panic:") {
			return ln
		}
	}
	if len(s) > 200 {
		s = s[len(s)-200:]
	}
	return s
}

// ---------------------------------------------------------------- corpus: witness of finding FG1

// conc18WitnessFG1 replays the minimal witness of finding FG1 (schedule dependent, so it is
// retried until it shows or a budget is spent).  Root R = Node{bytes: 1 MiB, nested: C}, C =
// Node{int32: 5, nested: G} where G is encoded as two occurrences of field 99 (merged on decode: raw
// 10 bytes, re-encoded 7 bytes).  R is decoded lazily and C is forced, so C.nested is the only
// undecoded lazy field.  One goroutine calls proto.Marshal(R), another one the getter C.GetNested().
// When the getter publishes G between Marshal's size pass (which counted the raw bytes through
// lazy.SizeField) and its append pass (which now re-encodes G), the length prefix computed for C
// no longer matches and Marshal returns errors.MismatchedSizeCalculation, although nobody modified
// the message.  The big bytes field (number 15, appended before field 99) widens the window.
func conc18WitnessFG1(c *Ctx) {
	g1, _ := proto.Marshal(lazy_opaque.Node_builder{Int32: proto.Int32(7)}.Build())
	g2, _ := proto.Marshal(lazy_opaque.Node_builder{Int64: proto.Int64(9)}.Build())
	var cb []byte
	cb = protowire.AppendVarint(protowire.AppendTag(cb, 1, protowire.VarintType), 5)
	cb = protowire.AppendBytes(protowire.AppendTag(cb, 99, protowire.BytesType), g1)
	cb = protowire.AppendBytes(protowire.AppendTag(cb, 99, protowire.BytesType), g2)
	var rb []byte
	rb = protowire.AppendBytes(protowire.AppendTag(rb, 15, protowire.BytesType), make([]byte, 1<<20))
	rb = protowire.AppendBytes(protowire.AppendTag(rb, 99, protowire.BytesType), cb)
	want := &lazy_opaque.Node{}
	if err := (proto.UnmarshalOptions{NoLazyDecoding: true}).Unmarshal(rb, want); err != nil {
		c.PropFail("C18", "harness: FG1 witness does not decode", concTok(err.Error()))
		return
	}
	// sequentially the same calls succeed, in either order
	for order := 0; order < 2; order++ {
		m := &lazy_opaque.Node{}
		proto.Unmarshal(rb, m)
		child := m.GetNested()
		if order == 0 {
			child.GetNested()
		}
		out, err := proto.Marshal(m)
		got := &lazy_opaque.Node{}
		if err != nil || proto.Unmarshal(out, got) != nil || !proto.Equal(got, want) {
			c.PropFail("C18", "FG1 witness fails sequentially", "order="+strconv.Itoa(order))
			return
		}
	}
	budget := 400
	for it := 1; it <= budget; it++ {
		m := &lazy_opaque.Node{}
		if err := proto.Unmarshal(rb, m); err != nil {
			c.PropFail("C18", "harness: FG1 witness does not decode lazily", concTok(err.Error()))
			return
		}
		child := m.GetNested()
		var out []byte
		var merr error
		var wg sync.WaitGroup
		wg.Add(2)
		go func() { defer wg.Done(); out, merr = proto.Marshal(m) }()
		go func() {
			defer wg.Done()
			time.Sleep(time.Duration(it%250) * time.Microsecond)
			child.GetNested().GetInt32()
		}()
		wg.Wait()
		if merr != nil {
			if strings.Contains(merr.Error(), "size mismatch") {
				c.Known("FG1", "C18", conc18FG1What)
				c.Stat("known_FG1_witness_reproduced")
				c.StatN("known_FG1_witness_iterations", it)
			} else {
				c.PropFail("C18", "FG1 witness: Marshal failed with an unexpected error", concTok(merr.Error()))
			}
			return
		}
		got := &lazy_opaque.Node{}
		if err := proto.Unmarshal(out, got); err != nil || !proto.Equal(got, want) {
			c.PropFail("C18", "FG1 witness: Marshal succeeded with a wrong result", "iteration="+strconv.Itoa(it))
			return
		}
	}
	c.Stat("known_FG1_witness_not_reproduced_this_run")
}

// ---------------------------------------------------------------- model-only schedule exploration

// conc18Schedules drives the executable model through random, heavily
// interleaved schedules.  No implementation is involved: the expected
// observation is that the model's invariant checker accepts the final state
// (all returns agree with the published pointer, whose content is complete;
// at most one CAS won per field) and that the produced trace replays.
func conc18Schedules(c *Ctx) {
	n := c.N / 4
	if n > 400 {
		n = 400
	}
	for i := 0; i < n; i++ {
		nt := 2 + c.Intn(5)
		nf := 1 + c.Intn(3)
		var ins []string
		ins = append(ins, "n:"+strconv.Itoa(nt))
		present := make([]bool, nf)
		for f := 0; f < nf; f++ {
			present[f] = c.Intn(5) != 0
			ins = append(ins, fmt.Sprintf("f:%d:%s:%d:%x", f, Tok(present[f]), f%2, c.U64()))
		}
		var nx []string
		for m := 0; m < 2; m++ {
			if c.Bool() {
				nx = append(nx, strconv.Itoa(m))
			}
		}
		ins = append(ins, "x:"+strings.Join(nx, ","))
		// a step "s:t:f" runs the next action of thread t; f is the field of the call it starts
		// when t is idle.  A call needs at most 14 steps.
		steps := nt * nf * 2 * 14
		for s := 0; s < steps; s++ {
			ins = append(ins, fmt.Sprintf("s:%d:%d", c.Intn(nt), c.Intn(nf)))
		}
		c.Case("conc18", "sched", ins, []string{"ok"})
		c.Stat("model_schedules")
	}
}

// ---------------------------------------------------------------- message generation

func conc18IsLazy(fd protoreflect.FieldDescriptor) bool {
	if l, ok := fd.(interface{ IsLazy() bool }); ok {
		return l.IsLazy()
	}
	return false
}

func conc18IsSingularMsg(fd protoreflect.FieldDescriptor) bool {
	return (fd.Kind() == protoreflect.MessageKind || fd.Kind() == protoreflect.GroupKind) && !fd.IsList() && !fd.IsMap()
}

func conc18Scalar(c *Ctx, fd protoreflect.FieldDescriptor) protoreflect.Value {
	pick64 := func() uint64 {
		switch c.Intn(6) {
		case 0:
			return 0
		case 1:
			return 1
		case 2:
			return ^uint64(0)
		case 3:
			return uint64(1) << uint(c.Intn(64))
		}
		return c.U64()
	}
	switch fd.Kind() {
	case protoreflect.BoolKind:
		return protoreflect.ValueOfBool(c.Bool())
	case protoreflect.Int32Kind, protoreflect.Sint32Kind, protoreflect.Sfixed32Kind:
		return protoreflect.ValueOfInt32(int32(pick64()))
	case protoreflect.Int64Kind, protoreflect.Sint64Kind, protoreflect.Sfixed64Kind:
		return protoreflect.ValueOfInt64(int64(pick64()))
	case protoreflect.Uint32Kind, protoreflect.Fixed32Kind:
		return protoreflect.ValueOfUint32(uint32(pick64()))
	case protoreflect.Uint64Kind, protoreflect.Fixed64Kind:
		return protoreflect.ValueOfUint64(pick64())
	case protoreflect.FloatKind:
		return protoreflect.ValueOfFloat32(float32(int32(pick64())) / 8)
	case protoreflect.DoubleKind:
		return protoreflect.ValueOfFloat64(float64(int64(pick64())) / 8)
	case protoreflect.StringKind:
		n := c.Intn(9)
		b := make([]byte, n)
		for i := range b {
			b[i] = byte('a' + c.Intn(26))
		}
		return protoreflect.ValueOfString(string(b))
	case protoreflect.BytesKind:
		return protoreflect.ValueOfBytes(c.Bytes(c.Intn(9)))
	case protoreflect.EnumKind:
		vs := fd.Enum().Values()
		return protoreflect.ValueOfEnum(vs.Get(c.Intn(vs.Len())).Number())
	}
	panic("conc18: unexpected kind " + fd.Kind().String())
}

// conc18Populate fills m.  spine > 0 forces one lazy message field of m to be
// set (recursively, spine-1), so that the message has a chain of lazy fields of
// that depth; budget bounds the number of submessages.
func conc18Populate(c *Ctx, m protoreflect.Message, spine int, budget *int) {
	fds := m.Descriptor().Fields()
	var lazyIdx []int
	for i := 0; i < fds.Len(); i++ {
		if conc18IsSingularMsg(fds.Get(i)) && conc18IsLazy(fds.Get(i)) {
			lazyIdx = append(lazyIdx, i)
		}
	}
	spineField := -1
	if spine > 0 && len(lazyIdx) > 0 {
		spineField = lazyIdx[c.Intn(len(lazyIdx))]
	}
	for i := 0; i < fds.Len(); i++ {
		fd := fds.Get(i)
		required := fd.Cardinality() == protoreflect.Required
		switch {
		case fd.IsMap():
			if c.Intn(10) != 0 {
				continue
			}
			mp := m.Mutable(fd).Map()
			for k := 1 + c.Intn(2); k > 0; k-- {
				key := conc18Scalar(c, fd.MapKey()).MapKey()
				if fd.MapValue().Message() != nil {
					v := mp.NewValue()
					if *budget > 0 {
						*budget--
						conc18Populate(c, v.Message(), 0, budget)
					}
					mp.Set(key, v)
				} else {
					mp.Set(key, conc18Scalar(c, fd.MapValue()))
				}
			}
		case fd.IsList():
			if c.Intn(10) != 0 {
				continue
			}
			l := m.Mutable(fd).List()
			for k := 1 + c.Intn(2); k > 0; k-- {
				if fd.Message() != nil {
					v := l.NewElement()
					if *budget > 0 {
						*budget--
						conc18Populate(c, v.Message(), 0, budget)
					}
					l.Append(v)
				} else {
					l.Append(conc18Scalar(c, fd))
				}
			}
		case conc18IsSingularMsg(fd):
			lazy := conc18IsLazy(fd)
			switch {
			case i == spineField:
				conc18Populate(c, m.Mutable(fd).Message(), spine-1, budget)
			case *budget > 0 && (required || (lazy && c.Intn(3) == 0) || (!lazy && c.Intn(12) == 0)):
				*budget--
				sp := 0
				if lazy && c.Bool() {
					sp = c.Intn(3)
				}
				conc18Populate(c, m.Mutable(fd).Message(), sp, budget)
			case required:
				m.Mutable(fd)
			}
		default:
			if required || c.Intn(3) == 0 {
				m.Set(fd, conc18Scalar(c, fd))
			}
		}
	}
}

// conc18Split re-shapes a valid encoding: occurrences of lazy message fields are
// split, at a field boundary of their payload, into two occurrences that are
// either adjacent or separated by the remaining fields of the parent.  Decoding
// merges the two occurrences, so the message value is unchanged.
func conc18Split(c *Ctx, b []byte, md protoreflect.MessageDescriptor, apart bool, changed *bool) []byte {
	var out, tail []byte
	for len(b) > 0 {
		num, typ, n := protowire.ConsumeField(b)
		if n < 0 {
			return append(out, b...)
		}
		field := b[:n]
		b = b[n:]
		fd := md.Fields().ByNumber(num)
		if fd == nil || !conc18IsSingularMsg(fd) || typ != protowire.BytesType {
			out = append(out, field...)
			continue
		}
		_, _, tn := protowire.ConsumeTag(field)
		payload, _ := protowire.ConsumeBytes(field[tn:])
		payload = conc18Split(c, payload, fd.Message(), apart, changed)
		// field boundaries of the payload
		var cuts []int
		for rest, off := payload, 0; len(rest) > 0; {
			_, _, k := protowire.ConsumeField(rest)
			if k < 0 {
				cuts = nil
				break
			}
			off += k
			rest = rest[k:]
			if len(rest) > 0 {
				cuts = append(cuts, off)
			}
		}
		if conc18IsLazy(fd) && len(cuts) > 0 && c.Intn(3) != 0 {
			cut := cuts[c.Intn(len(cuts))]
			*changed = true
			out = protowire.AppendTag(out, num, protowire.BytesType)
			out = protowire.AppendBytes(out, payload[:cut])
			if apart {
				tail = protowire.AppendTag(tail, num, protowire.BytesType)
				tail = protowire.AppendBytes(tail, payload[cut:])
			} else {
				out = protowire.AppendTag(out, num, protowire.BytesType)
				out = protowire.AppendBytes(out, payload[cut:])
			}
			continue
		}
		out = protowire.AppendTag(out, num, protowire.BytesType)
		out = protowire.AppendBytes(out, payload)
	}
	return append(out, tail...)
}

// ---------------------------------------------------------------- paths

type conc18Path struct {
	fds     []protoreflect.FieldDescriptor
	prefix  []int // index of the path of every proper prefix and of the path itself
	lazy    bool  // the last hop is a [lazy=true] field
	present bool  // set in the eager copy
	parent  int   // index of the parent path, -1 = root message
	field   int   // model field id (lazy paths only), else -1
	dig     uint64
}

func conc18Key(parent int, num protoreflect.FieldNumber) string {
	return strconv.Itoa(parent) + "/" + strconv.Itoa(int(num))
}

var conc18DetOpts = proto.MarshalOptions{Deterministic: true, AllowPartial: true}

func conc18MsgDigest(m proto.Message) uint64 {
	if m == nil || !m.ProtoReflect().IsValid() {
		return 0
	}
	b, err := conc18DetOpts.Marshal(m)
	if err != nil {
		return concDigest([]byte("error"))
	}
	return concMix(concDigest(b), uint64(len(b)))
}

func conc18Paths(eager proto.Message) ([]conc18Path, map[string]int) {
	var paths []conc18Path
	index := map[string]int{}
	type item struct {
		m      protoreflect.Message
		parent int
	}
	queue := []item{{eager.ProtoReflect(), -1}}
	absent := 0
	for len(queue) > 0 && len(paths) < 40 {
		it := queue[0]
		queue = queue[1:]
		fds := it.m.Descriptor().Fields()
		for i := 0; i < fds.Len(); i++ {
			fd := fds.Get(i)
			if !conc18IsSingularMsg(fd) {
				continue
			}
			has := it.m.Has(fd)
			lazy := conc18IsLazy(fd)
			if !has && !(lazy && absent < 3) {
				continue
			}
			if !has {
				absent++
			}
			p := conc18Path{lazy: lazy, present: has, parent: it.parent, field: -1}
			if it.parent >= 0 {
				p.fds = append(append([]protoreflect.FieldDescriptor{}, paths[it.parent].fds...), fd)
				p.prefix = append([]int{}, paths[it.parent].prefix...)
			} else {
				p.fds = []protoreflect.FieldDescriptor{fd}
			}
			idx := len(paths)
			p.prefix = append(p.prefix, idx)
			if has {
				sub := it.m.Get(fd).Message()
				p.dig = conc18MsgDigest(sub.Interface())
				if len(p.fds) < 9 {
					queue = append(queue, item{sub, idx})
				}
			}
			paths = append(paths, p)
			index[conc18Key(it.parent, fd.Number())] = idx
		}
	}
	nf := 0
	for i := range paths {
		if paths[i].lazy {
			paths[i].field = nf
			nf++
		}
	}
	return paths, index
}

// ---------------------------------------------------------------- readers

type conc18Event struct {
	field  int
	msg    proto.Message // kept so that the instance stays alive until classes are assigned
	ptr    uintptr
	dig    uint64
	digNow bool
}

type conc18Rec struct {
	events []conc18Event
	digNow uint64 // bit stream: digest the obtained submessage immediately?
}

func (r *conc18Rec) event(field int, m proto.Message) {
	if r == nil || field < 0 {
		return
	}
	e := conc18Event{field: field, msg: m}
	if m != nil {
		e.ptr = reflect.ValueOf(m).Pointer()
	}
	now := r.digNow&1 == 1
	r.digNow = r.digNow>>1 | r.digNow<<63
	if now && m != nil {
		e.dig = conc18MsgDigest(m)
		e.digNow = true
	}
	r.events = append(r.events, e)
}

// conc18Hop reads one message field of cur, through the generated getter or through reflection.
func conc18Hop(cur proto.Message, fd protoreflect.FieldDescriptor, typed bool) proto.Message {
	if typed {
		mv := reflect.ValueOf(cur).MethodByName("Get" + strs.GoCamelCase(string(fd.Name())))
		if mv.IsValid() && mv.Type().NumIn() == 0 && mv.Type().NumOut() == 1 {
			out := mv.Call(nil)[0]
			if out.Kind() == reflect.Ptr {
				if out.IsNil() {
					return nil
				}
				if m, ok := out.Interface().(proto.Message); ok {
					return m
				}
			}
		}
	}
	v := cur.ProtoReflect().Get(fd)
	m := v.Message()
	if !m.IsValid() {
		return nil
	}
	return m.Interface()
}

// conc18Walk follows path px from root (px < 0: the root itself).
func conc18Walk(root proto.Message, paths []conc18Path, px int, typedMask uint64, rec *conc18Rec) proto.Message {
	if px < 0 {
		return root
	}
	p := &paths[px]
	cur := root
	for i, fd := range p.fds {
		next := conc18Hop(cur, fd, typedMask>>uint(i)&1 == 1)
		rec.event(paths[p.prefix[i]].field, next)
		if next == nil {
			return nil
		}
		cur = next
	}
	return cur
}

const (
	conc18OpWalk = iota
	conc18OpHas
	conc18OpRange
	conc18OpScalars
	conc18OpSize
	conc18OpSizeDet
	conc18OpMarshalDet
	conc18OpMarshal
	conc18OpEqual
	conc18OpClone
	conc18OpMerge
	conc18OpJSON
	conc18OpText
	conc18OpCheckInit
	conc18NumOps
)

var conc18OpNames = []string{"walk", "has", "range", "scalars", "size", "sizedet", "marshaldet", "marshal",
	"equal", "clone", "merge", "json", "text", "checkinit"}

// digest returned when non-deterministic Marshal fails with errors.MismatchedSizeCalculation
const conc18SizeMismatch = 0xF61F61F61

const conc18FG1What = "proto.Marshal racing with a getter that decodes a lazy field whose raw encoding is not canonical fails with 'size mismatch' (size pass counted the raw bytes, append pass re-encoded the decoded field)"

type conc18Op struct {
	kind  int
	path  int
	typed uint64
}

// conc18Eval performs one read-only operation and returns a digest of its result.
// The same function computes the sequential reference (root = eagerRoot, rec = nil).
func conc18Eval(op conc18Op, root, eagerRoot proto.Message, paths []conc18Path, index map[string]int, canonical bool, rec *conc18Rec) uint64 {
	sub := conc18Walk(root, paths, op.path, op.typed, rec)
	if sub == nil {
		return 0xdead
	}
	switch op.kind {
	case conc18OpWalk:
		return 1
	case conc18OpHas:
		var d uint64
		pm := sub.ProtoReflect()
		fds := pm.Descriptor().Fields()
		for i := 0; i < fds.Len(); i++ {
			d = d<<1 | d>>63
			if pm.Has(fds.Get(i)) {
				d ^= 1
			}
		}
		return d
	case conc18OpRange:
		var d uint64
		sub.ProtoReflect().Range(func(fd protoreflect.FieldDescriptor, v protoreflect.Value) bool {
			d += concMix(uint64(fd.Number()), 77)
			if conc18IsSingularMsg(fd) {
				if ci, ok := index[conc18Key(op.path, fd.Number())]; ok {
					var m proto.Message
					if v.Message().IsValid() {
						m = v.Message().Interface()
					}
					rec.event(paths[ci].field, m)
				}
			}
			return true
		})
		return d
	case conc18OpScalars:
		var d uint64
		pm := sub.ProtoReflect()
		fds := pm.Descriptor().Fields()
		for i := 0; i < fds.Len(); i++ {
			fd := fds.Get(i)
			if fd.Message() != nil || fd.IsList() || fd.IsMap() {
				continue
			}
			d = concMix(d, concDigest([]byte(fmt.Sprintf("%d=%v", fd.Number(), pm.Get(fd).Interface()))))
		}
		return d
	case conc18OpSize:
		n := proto.Size(sub)
		if !canonical {
			// a lazy field that occurs twice in the input is kept as two raw occurrences until
			// it is decoded: the size legitimately depends on what has been decoded so far
			return 2
		}
		return uint64(n)
	case conc18OpSizeDet:
		return uint64(conc18DetOpts.Size(sub))
	case conc18OpMarshalDet:
		return conc18MsgDigest(sub)
	case conc18OpMarshal:
		b, err := proto.MarshalOptions{AllowPartial: true}.Marshal(sub)
		if err != nil {
			if strings.Contains(err.Error(), "size mismatch") {
				return conc18SizeMismatch // errors.MismatchedSizeCalculation: see finding FG1
			}
			return concDigest([]byte("error"))
		}
		// map order and raw-versus-reencoded lazy fields make the bytes history dependent:
		// decode the output again and digest the value
		chk := sub.ProtoReflect().New().Interface()
		if err := (proto.UnmarshalOptions{AllowPartial: true, NoLazyDecoding: true}).Unmarshal(b, chk); err != nil {
			return concDigest([]byte("undecodable"))
		}
		return conc18MsgDigest(chk)
	case conc18OpEqual:
		esub := conc18Walk(eagerRoot, paths, op.path, 0, nil)
		if esub == nil {
			return 0xdeae
		}
		if proto.Equal(sub, esub) && proto.Equal(esub, sub) {
			return 1
		}
		return 0
	case conc18OpClone:
		return conc18MsgDigest(proto.Clone(sub))
	case conc18OpMerge:
		dst := sub.ProtoReflect().New().Interface()
		proto.Merge(dst, sub)
		return conc18MsgDigest(dst)
	case conc18OpJSON:
		b, err := protojson.MarshalOptions{AllowPartial: true}.Marshal(sub)
		if err != nil {
			return concDigest([]byte("error"))
		}
		return concDigest(b)
	case conc18OpText:
		b, err := prototext.MarshalOptions{AllowPartial: true}.Marshal(sub)
		if err != nil {
			return concDigest([]byte("error"))
		}
		return concDigest(b)
	case conc18OpCheckInit:
		if proto.CheckInitialized(sub) == nil {
			return 1
		}
		return 0
	}
	return 0
}

// conc18StripIndex replaces the lazy info of m by one without the index that
// Unmarshal stored, so that the first readers find lazy.index nil and race to
// build and publish it (protolazy.FindFieldInProto).  Returns false if m has no lazy info.
func conc18StripIndex(m proto.Message) bool {
	rv := reflect.ValueOf(m)
	if rv.Kind() != reflect.Ptr || rv.IsNil() {
		return false
	}
	f := rv.Elem().FieldByName("XXX_lazyUnmarshalInfo")
	if !f.IsValid() || !f.CanSet() {
		return false
	}
	old, ok := f.Interface().(*protolazy.XXX_lazyUnmarshalInfo)
	if !ok || old == nil || old.Protobuf == nil {
		return false
	}
	ni := &protolazy.XXX_lazyUnmarshalInfo{Protobuf: old.Protobuf}
	ni.SetUnmarshalFlags(old.UnmarshalFlags())
	f.Set(reflect.ValueOf(ni))
	return true
}

// conc18Undecoded counts the lazy fields of m that are present but not yet decoded.
func conc18Undecoded(m proto.Message) int {
	rv := reflect.ValueOf(m).Elem()
	n := 0
	fds := m.ProtoReflect().Descriptor().Fields()
	for i := 0; i < fds.Len(); i++ {
		fd := fds.Get(i)
		if !conc18IsSingularMsg(fd) || !conc18IsLazy(fd) {
			continue
		}
		f := rv.FieldByName("xxx_hidden_" + strs.GoCamelCase(string(fd.Name())))
		if f.IsValid() && f.Kind() == reflect.Ptr && f.IsNil() && m.ProtoReflect().Has(fd) {
			n++
		}
	}
	return n
}

func conc18Experiment(c *Ctx) {
	expSeed := c.U64()
	ri := c.Intn(len(conc18Roots))
	root := conc18Roots[ri]
	spine := 1 + c.Intn(5)
	nthreads := []int{2, 4, 8, 16}[c.Intn(4)]
	variant := c.Intn(3) // 0 canonical, 1 lazy fields duplicated contiguously, 2 duplicated apart
	noidx := c.Intn(3) == 0
	id := []string{fmt.Sprintf("exp=%x", expSeed), root.name, "variant=" + strconv.Itoa(variant), "noidx=" + Tok(noidx),
		"threads=" + strconv.Itoa(nthreads)}

	src := root.mk()
	budget := 10
	conc18Populate(c, src.ProtoReflect(), spine, &budget)
	b, err := conc18DetOpts.Marshal(src)
	if err != nil {
		c.Stat("skip_marshal_error")
		return
	}
	canonical := true
	if variant != 0 {
		changed := false
		b = conc18Split(c, b, src.ProtoReflect().Descriptor(), variant == 2, &changed)
		canonical = !changed
	}
	eager := root.mk()
	if err := (proto.UnmarshalOptions{AllowPartial: true, NoLazyDecoding: true}).Unmarshal(b, eager); err != nil {
		c.PropFail("C18", "harness: eager decode of generated input failed", append(id, HexB(b))...)
		return
	}
	shared := root.mk()
	if err := (proto.UnmarshalOptions{AllowPartial: true}).Unmarshal(b, shared); err != nil {
		c.PropFail("C18", "lazy decode rejects an input the eager decode accepts", append(id, HexB(b))...)
		return
	}
	if !proto.Equal(src, eager) {
		c.Stat("split_changed_value")
	}
	paths, index := conc18Paths(eager)
	if und := conc18Undecoded(shared); und > 0 {
		c.Stat("root_has_undecoded_lazy_fields")
	} else {
		c.Stat("root_fully_decoded_at_start")
	}
	var noidxMsgs []string
	if noidx {
		if conc18StripIndex(shared) {
			noidxMsgs = append(noidxMsgs, "0")
			c.Stat("index_stripped")
		}
	}

	// pre-generate every reader's program
	deepest, deepLen := -1, 0
	for i := range paths {
		if paths[i].lazy && paths[i].present && len(paths[i].fds) > deepLen {
			deepest, deepLen = i, len(paths[i].fds)
		}
	}
	progs := make([][]conc18Op, nthreads)
	recs := make([]*conc18Rec, nthreads)
	for t := range progs {
		nops := 3 + c.Intn(8)
		for k := 0; k < nops; k++ {
			op := conc18Op{kind: c.Intn(conc18NumOps), path: c.Intn(len(paths)+1) - 1, typed: c.U64()}
			if k == 0 && deepest >= 0 && c.Intn(10) < 7 {
				op = conc18Op{kind: conc18OpWalk, path: deepest, typed: c.U64()}
			}
			progs[t] = append(progs[t], op)
		}
		recs[t] = &conc18Rec{digNow: c.U64()}
	}
	// sequential reference: the same operations on the eagerly decoded copy, one goroutine
	want := make([][]uint64, nthreads)
	for t := range progs {
		for _, op := range progs[t] {
			want[t] = append(want[t], conc18Eval(op, eager, eager, paths, index, canonical, nil))
		}
	}

	// concurrent readers
	got := make([][]uint64, nthreads)
	panics := make([]string, nthreads)
	var ready int32
	start := make(chan struct{})
	var wg sync.WaitGroup
	for t := 0; t < nthreads; t++ {
		wg.Add(1)
		go func(t int) {
			defer wg.Done()
			defer func() {
				if r := recover(); r != nil {
					panics[t] = fmt.Sprint(r)
				}
			}()
			res := make([]uint64, 0, len(progs[t]))
			defer func() { got[t] = res }()
			atomic.AddInt32(&ready, 1)
			<-start
			for atomic.LoadInt32(&ready) < int32(nthreads) {
				runtime.Gosched()
			}
			for _, op := range progs[t] {
				res = append(res, conc18Eval(op, shared, eager, paths, index, canonical, recs[t]))
			}
		}(t)
	}
	close(start)
	wg.Wait()

	// ---- the property's predicate
	failed := false
	for t := range progs {
		if panics[t] != "" {
			failed = true
			c.PropFail("C18", "panic in a concurrent reader", append(id, "thread="+strconv.Itoa(t), concTok(panics[t]), HexB(b))...)
		}
		for k := range got[t] {
			if got[t][k] != want[t][k] {
				op := progs[t][k]
				if got[t][k] == conc18SizeMismatch && op.kind == conc18OpMarshal && !canonical {
					// finding FG1, recognised narrowly: non-deterministic Marshal, the specific
					// size-mismatch error, and an input in which a lazy field's raw encoding
					// (two occurrences) differs in length from its re-encoding
					c.Known("FG1", "C18", conc18FG1What)
					c.Stat("known_FG1_in_random_experiment")
					continue
				}
				failed = true
				c.PropFail("C18", "result of a concurrent read differs from the sequential result",
					append(id, "thread="+strconv.Itoa(t), "op="+conc18OpNames[op.kind], "path="+strconv.Itoa(op.path), HexB(b))...)
			}
		}
		for k := range got[t] {
			c.Stat("op_" + conc18OpNames[progs[t][k].kind])
		}
	}
	// merge the per-thread event lists round robin; classes per field in order of first appearance
	type fieldInfo struct {
		classes map[uintptr]int
	}
	finfo := map[int]*fieldInfo{}
	var evToks []string
	nev := 0
	for k := 0; ; k++ {
		any := false
		for t := 0; t < nthreads; t++ {
			if k >= len(recs[t].events) {
				continue
			}
			any = true
			e := &recs[t].events[k]
			if !e.digNow && e.msg != nil {
				e.dig = conc18MsgDigest(e.msg)
			}
			fi := finfo[e.field]
			if fi == nil {
				fi = &fieldInfo{classes: map[uintptr]int{}}
				finfo[e.field] = fi
			}
			cls := 0
			if e.msg != nil {
				var ok bool
				if cls, ok = fi.classes[e.ptr]; !ok {
					cls = len(fi.classes) + 1
					fi.classes[e.ptr] = cls
				}
			}
			evToks = append(evToks, fmt.Sprintf("e:%d:%d:%d:%x", t, e.field, cls, e.dig))
			nev++
		}
		if !any {
			break
		}
	}
	var fieldToks []string
	for i := range paths {
		p := &paths[i]
		if !p.lazy {
			continue
		}
		fieldToks = append(fieldToks, fmt.Sprintf("f:%d:%s:%d:%x", p.field, Tok(p.present), p.parent+1, p.dig))
		fi := finfo[p.field]
		if fi == nil {
			c.Stat("lazy_field_not_visited")
			continue
		}
		c.Stat("lazy_field_visited")
		if len(fi.classes) > 1 {
			failed = true
			c.PropFail("C18", "two readers obtained different instances of the same lazy submessage",
				append(id, "path="+strconv.Itoa(i), "instances="+strconv.Itoa(len(fi.classes)), HexB(b))...)
		}
	}
	for t := range recs {
		for _, e := range recs[t].events {
			var p *conc18Path
			for i := range paths {
				if paths[i].field == e.field {
					p = &paths[i]
				}
			}
			if p == nil {
				continue
			}
			switch {
			case p.present && e.msg == nil:
				failed = true
				c.PropFail("C18", "reader obtained nil for a lazy field that is set", append(id, "thread="+strconv.Itoa(t), HexB(b))...)
			case !p.present && e.msg != nil:
				failed = true
				c.PropFail("C18", "reader obtained a submessage for a lazy field that is not set", append(id, "thread="+strconv.Itoa(t), HexB(b))...)
			case p.present && e.dig != p.dig:
				failed = true
				c.PropFail("C18", "lazy submessage seen by a reader differs from the sequential decode",
					append(id, "thread="+strconv.Itoa(t), "field="+strconv.Itoa(e.field), HexB(b))...)
			}
		}
	}
	if conc18MsgDigest(shared) != conc18MsgDigest(eager) {
		failed = true
		c.PropFail("C18", "shared message differs from the sequential decode after the readers finished", append(id, HexB(b))...)
	}
	_ = failed

	// ---- the observed execution, for the model
	sort.Strings(noidxMsgs)
	ins := []string{"n:" + strconv.Itoa(nthreads)}
	ins = append(ins, fieldToks...)
	ins = append(ins, "x:"+strings.Join(noidxMsgs, ","))
	ins = append(ins, evToks...)
	c.Case("conc18", "trace", ins, []string{"ok"})

	c.Stat("type_" + root.name)
	c.Stat("variant_" + strconv.Itoa(variant))
	c.Stat("threads_" + strconv.Itoa(nthreads))
	c.Stat("lazy_depth_" + strconv.Itoa(deepLen))
	c.StatN("events", nev)
	if !canonical {
		c.Stat("noncanonical_input")
	}
}
