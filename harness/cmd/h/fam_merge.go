//go:build verif

package main

// family "merge" (C07): proto.Merge / proto.Clone / UnmarshalOptions{Merge:true} against the merge
// model (coq/theories/Msg/MergeModel.v) and against each other.
//
// Case lines (model-compared; schema lines are emitted through family msg):
//	merge <id> 0 <value a> <value b>            | ok <dump of proto.Merge(a', b)>       a' = binary copy of a
//	clone <id> 0 <value a>                      | ok <dump of proto.Clone(a)>
//	into  <id> 0 <f|s> <bytes x> <bytes y>      | ok <dump of Unmarshal(x) then UnmarshalOptions{Merge}(y)>  or  e<n>
// P lines (C07):
//	Merge(a,b) not Equal / not identical to Unmarshal(Marshal(a) || Marshal(b))
//	Unmarshal(x||y) differs from Merge(Unmarshal x, Unmarshal y)
//	UnmarshalOptions{Merge:true}(y) into m differs from Merge(m, Unmarshal(y))
//	Clone(m) differs from m; Merge(m, empty) changes m; Merge(empty, m) differs from m
//	after Merge(dst, src) / Clone(src), mutating src changes dst

import (
	"google.golang.org/protobuf/encoding/protowire"
	"google.golang.org/protobuf/proto"
	"google.golang.org/protobuf/reflect/protoreflect"
)

func init() { Register("merge", famMerge) }

// mergeKnown recognises the recorded findings that make a decode-based comparison differ.
func mergeKnown(c *Ctx, fl w2aFlavour, b []byte, lazy bool) bool {
	if msgLegacyReach(fl.md) && msgFB1Class(fl.md, b) {
		c.Stat("skipped_FB1")
		return true
	}
	if lazy && !fl.slow && msgHasLazy(fl.md) && msgF1Class(fl.md, b) {
		c.Known("F1", "C07", "lazy decoding duplicates a wrong-wire-type occurrence of a lazy field")
		c.Stat("known_F1")
		return true
	}
	return false
}

// mergeZeroImplicit recognises finding FA6 (a property-statement refutation, not a code defect):
// y contains, at a position that merges with earlier content (top level, or inside singular
// message/group fields), an occurrence of an implicit-presence scalar field whose decoded value
// is the zero value.  On the wire the last occurrence wins and clears the field, whereas
// Unmarshal(y) does not have the field populated, so Merge(Unmarshal x, Unmarshal y) keeps x's value.
func mergeZeroImplicit(md protoreflect.MessageDescriptor, y []byte, depth int) bool {
	chunks, ok := msgSplitFields(y)
	if !ok || depth <= 0 {
		return false
	}
	for _, ch := range chunks {
		fd := msgFindField(md, ch.num)
		if fd == nil || fd.IsList() || fd.IsMap() || !msgFieldAccepts(fd, ch.typ) {
			continue
		}
		if sub := fd.Message(); sub != nil {
			var p []byte
			n := -1
			if ch.typ == protowire.BytesType {
				p, n = protowire.ConsumeBytes(ch.val)
			} else if ch.typ == protowire.StartGroupType {
				p, n = protowire.ConsumeGroup(ch.num, ch.val)
			}
			if n >= 0 && mergeZeroImplicit(sub, p, depth-1) {
				return true
			}
			continue
		}
		if fd.HasPresence() {
			continue
		}
		switch ch.typ {
		case protowire.VarintType:
			v, _ := protowire.ConsumeVarint(ch.val)
			switch fd.Kind() {
			case protoreflect.Int32Kind, protoreflect.Uint32Kind, protoreflect.Sint32Kind, protoreflect.EnumKind:
				v &= 0xffffffff
			}
			if v == 0 {
				return true
			}
		case protowire.Fixed32Type:
			if v, _ := protowire.ConsumeFixed32(ch.val); v == 0 {
				return true
			}
		case protowire.Fixed64Type:
			if v, _ := protowire.ConsumeFixed64(ch.val); v == 0 {
				return true
			}
		case protowire.BytesType:
			if p, n := protowire.ConsumeBytes(ch.val); n >= 0 && len(p) == 0 {
				return true
			}
		}
	}
	return false
}

// mergeSame compares two messages: proto.Equal (the property) and identical canonical dumps (the
// model-level statement: same bits, same unknown bytes in the same order).
func mergeSame(x, y protoreflect.Message) (equal, identical bool) {
	return proto.Equal(x.Interface(), y.Interface()), w2aEqToks(msgDump(x), msgDump(y))
}

func w2aEqToks(a, b []string) bool {
	if len(a) != len(b) {
		return false
	}
	for i := range a {
		if a[i] != b[i] {
			return false
		}
	}
	return true
}

// mergeMutate changes everything reachable from m in place: bytes are flipped inside their
// backing arrays, list elements and map values are overwritten, elements are appended, unknown
// bytes are flipped and extended.  Used to detect aliasing between a merge source and its target.
func mergeMutate(c *Ctx, m protoreflect.Message, depth int) {
	type ent struct {
		fd protoreflect.FieldDescriptor
		v  protoreflect.Value
	}
	var es []ent
	m.Range(func(fd protoreflect.FieldDescriptor, v protoreflect.Value) bool {
		es = append(es, ent{fd, v})
		return true
	})
	flip := func(v protoreflect.Value) {
		if b := v.Bytes(); len(b) > 0 {
			b[0] ^= 0x55
			b[len(b)-1] ^= 0xaa
		}
	}
	for _, e := range es {
		fd := e.fd
		switch {
		case fd.IsMap():
			mp := e.v.Map()
			var keys []protoreflect.MapKey
			mp.Range(func(k protoreflect.MapKey, _ protoreflect.Value) bool { keys = append(keys, k); return true })
			vf := fd.MapValue()
			for _, k := range keys {
				switch {
				case vf.Message() != nil:
					if depth > 0 {
						mergeMutate(c, mp.Get(k).Message(), depth-1)
					}
				case vf.Kind() == protoreflect.BytesKind:
					flip(mp.Get(k))
					mp.Set(k, protoreflect.ValueOfBytes([]byte("mutated")))
				default:
					mp.Set(k, msgScalar(c, vf, false))
				}
			}
			if len(keys) > 1 {
				mp.Clear(keys[0])
			}
			nk := msgScalar(c, fd.MapKey(), false).MapKey()
			if vf.Message() != nil {
				mp.Set(nk, mp.NewValue())
			} else {
				mp.Set(nk, msgScalar(c, vf, false))
			}
		case fd.IsList():
			l := e.v.List()
			for i := 0; i < l.Len(); i++ {
				switch {
				case fd.Message() != nil:
					if depth > 0 {
						mergeMutate(c, l.Get(i).Message(), depth-1)
					}
				case fd.Kind() == protoreflect.BytesKind:
					flip(l.Get(i))
					l.Set(i, protoreflect.ValueOfBytes([]byte("mutated")))
				default:
					l.Set(i, msgScalar(c, fd, false))
				}
			}
			if fd.Message() != nil {
				l.Append(l.NewElement())
			} else {
				l.Append(msgScalar(c, fd, false))
			}
		case fd.Message() != nil:
			if depth > 0 {
				mergeMutate(c, e.v.Message(), depth-1)
			}
		case fd.Kind() == protoreflect.BytesKind:
			flip(e.v)
			m.Set(fd, protoreflect.ValueOfBytes([]byte("mutated")))
		default:
			m.Set(fd, msgScalar(c, fd, false))
		}
	}
	if u := m.GetUnknown(); len(u) > 0 {
		u[0] ^= 0x7f // in place: an aliased copy would see it (the content need not stay well-formed)
		u[len(u)-1] ^= 0x01
	}
	m.SetUnknown(append(append([]byte(nil), m.GetUnknown()...), 0xf8, 0x07, 0x01))
}

// mergeAliasing: Merge(dst, src) / Clone(src), then mutate src; dst must not change.
func mergeAliasing(c *Ctx, fl w2aFlavour, dst, src protoreflect.Message, what string) {
	before := msgDump(dst)
	mergeMutate(c, src, 3)
	if !w2aEqToks(before, msgDump(dst)) {
		c.PropFail("C07", "mutating the source after "+what+" changes the destination: "+fl.what())
	}
}

func mergeOnePair(c *Ctx, t *w2aTarget) { mergeOnePairOpts(c, t, false) }

// mergeOnePairOpts: with lazyDense, the table-driven flavour is used, both messages are densely
// populated (so that [lazy=true] fields are present on both sides) and every decode is lazy.
func mergeOnePairOpts(c *Ctx, t *w2aTarget, lazyDense bool) {
	fl := t.fls[c.Intn(len(t.fls))]
	if lazyDense {
		fl = t.fls[0]
	}
	defer w2aRecover(c, "C07", fl.what())
	id := t.schema(c)
	depth := 1 + c.Intn(3)
	a, b := fl.new(), fl.new()
	if lazyDense {
		fill := func(m protoreflect.Message) (ok bool) {
			defer func() {
				if r := recover(); r != nil {
					ok = false
				}
			}()
			budget := 120
			msgRandomFillOpts(c, m, 2, msgFillOpts{budget: &budget, badUTF8: false, unknown: c.Bool(), dense: true})
			return true
		}
		if !fill(a) || !fill(b) {
			return
		}
		c.Stat("pair_lazy_dense")
	} else if !w2aFill(c, a, depth, true) || !w2aFill(c, b, depth, true) {
		return
	}
	if c.Intn(12) == 0 {
		b = fl.new() // empty source
	}
	if c.Intn(12) == 0 {
		a = fl.new() // empty destination: Merge = Clone
	}
	lazyA := !fl.slow && msgHasLazy(fl.md) && (c.Bool() || lazyDense) // destination still holds undecoded lazy fields
	c.Stat("pair_" + fl.name)

	// --- Merge(a', b) against the model and against the decoder
	a1, ba, err := w2aBinCopy(fl, a, !lazyA)
	if err != nil {
		c.Stat("copy_fails")
		return
	}
	bb, err := w2aMarshal.Marshal(b.Interface())
	if err != nil {
		c.Stat("marshal_fails")
		return
	}
	if !fl.noDec && lazyA && msgF1Class(fl.md, ba) {
		c.Stat("skipped_F1_destination")
		lazyA = false
		if a1, ba, err = w2aBinCopy(fl, a, true); err != nil {
			return
		}
	}
	var da []string
	if lazyA {
		// dumping a' would decode its lazy fields: take the dump of an eager copy
		a2, _, err2 := w2aBinCopy(fl, a, true)
		if err2 != nil {
			return
		}
		da = msgDump(a2)
	} else {
		da = msgDump(a1)
	}
	db := msgDump(b)
	proto.Merge(a1.Interface(), b.Interface())
	dm := msgDump(a1)
	c.Case("merge", "merge", append(append([]string{id, "0"}, da...), db...), append([]string{"ok"}, dm...))
	if !w2aEqToks(db, msgDump(b)) {
		c.PropFail("C07", "Merge(dst, src) changed src: "+fl.what())
	}

	if !fl.noDec {
		cat := w2aCat(ba, bb)
		for _, nolazy := range []bool{true, false} {
			if !nolazy && (fl.slow || !msgHasLazy(fl.md)) {
				continue
			}
			u, err := w2aUnmarshal(fl, cat, proto.UnmarshalOptions{NoLazyDecoding: nolazy})
			if err != nil {
				c.PropFail("C07", "Unmarshal(Marshal(a) || Marshal(b)) fails: "+fl.what(), HexB(ba), HexB(bb))
				continue
			}
			if eq, id2 := mergeSame(a1, u); !eq || !id2 {
				if mergeKnown(c, fl, cat, !nolazy) {
					continue
				}
				if !eq {
					c.PropFail("C07", "Merge(a, b) not Equal Unmarshal(Marshal(a) || Marshal(b)): "+fl.what(), HexB(ba), HexB(bb))
				} else {
					c.PropFail("C07", "Merge(a, b) and Unmarshal(Marshal(a) || Marshal(b)) are Equal but not identical: "+fl.what(), HexB(ba), HexB(bb))
				}
			}
		}
	}

	// --- Clone, Merge with the empty message
	cl := proto.Clone(b.Interface()).ProtoReflect()
	dcl := msgDump(cl)
	c.Case("merge", "clone", append([]string{id, "0"}, db...), append([]string{"ok"}, dcl...))
	if !proto.Equal(cl.Interface(), b.Interface()) || !w2aEqToks(dcl, db) {
		c.PropFail("C07", "Clone(m) differs from m: "+fl.what(), HexB(bb))
	}
	e1 := fl.new()
	proto.Merge(e1.Interface(), b.Interface())
	if !proto.Equal(e1.Interface(), b.Interface()) || !w2aEqToks(msgDump(e1), db) {
		c.PropFail("C07", "Merge(empty, m) differs from m: "+fl.what(), HexB(bb))
	}
	proto.Merge(cl.Interface(), fl.new().Interface())
	if !w2aEqToks(msgDump(cl), db) {
		c.PropFail("C07", "Merge(m, empty) changes m: "+fl.what(), HexB(bb))
	}

	// --- Unmarshal(x || y) = Merge(Unmarshal x, Unmarshal y); UnmarshalOptions{Merge:true}
	if !fl.noDec {
		x, y := ba, bb
		switch c.Intn(3) {
		case 0:
			x, y = msgRewrite(c, fl.md, ba, 3), msgRewrite(c, fl.md, bb, 3)
		case 1:
			x, y = msgRewriteOpts(c, fl.md, ba, 3, true), msgRewriteOpts(c, fl.md, bb, 3, true)
		}
		lazy := !fl.slow && msgHasLazy(fl.md) && (c.Bool() || lazyDense)
		o := proto.UnmarshalOptions{NoLazyDecoding: !lazy}
		mx, ex := w2aUnmarshal(fl, x, o)
		my, ey := w2aUnmarshal(fl, y, o)
		mxy, exy := w2aUnmarshal(fl, w2aCat(x, y), o)
		known := mergeKnown(c, fl, w2aCat(x, y), lazy) || mergeKnown(c, fl, x, lazy) || mergeKnown(c, fl, y, lazy)
		switch {
		case known:
		case ex != nil || ey != nil:
			c.Stat("pair_undecodable")
		case exy != nil:
			c.PropFail("C07", "x and y decode but x || y does not: "+fl.what(), HexB(x), HexB(y))
		default:
			// model line: decode x, then decode y into the result
			mi, _ := w2aUnmarshal(fl, x, proto.UnmarshalOptions{NoLazyDecoding: true})
			ei := proto.UnmarshalOptions{Merge: true, AllowPartial: true, NoLazyDecoding: true}.Unmarshal(y, mi.Interface())
			if ei != nil {
				c.PropFail("C07", "y decodes into a fresh message but not into Unmarshal(x): "+fl.what(), HexB(x), HexB(y))
			} else {
				c.Case("merge", "into", []string{id, "0", fl.mode(), HexB(x), HexB(y)}, append([]string{"ok"}, msgDump(mi)...))
			}
			// UnmarshalOptions{Merge:true} (same laziness as the other decodes) vs Merge(m, Unmarshal(y))
			m3, _ := w2aUnmarshal(fl, x, o)
			o3 := o
			o3.Merge, o3.AllowPartial = true, true
			if err := o3.Unmarshal(y, m3.Interface()); err != nil {
				c.PropFail("C07", "UnmarshalOptions{Merge:true} fails on decodable input: "+fl.what(), HexB(x), HexB(y))
			}
			if eq, id2 := mergeSame(mxy, m3); !eq || !id2 {
				c.PropFail("C07", "Unmarshal(x || y) differs from UnmarshalOptions{Merge:true}(y) into Unmarshal(x): "+fl.what(), HexB(x), HexB(y))
			}
			proto.Merge(mx.Interface(), my.Interface())
			eq1, id1 := mergeSame(mx, mxy)
			eq2, id2 := mergeSame(mx, m3)
			if !eq1 || !id1 || !eq2 || !id2 {
				if mergeZeroImplicit(fl.md, y, 8) {
					c.Known("FA6", "C07", "an explicit zero of an implicit-presence field in y clears the field on the wire but not in Merge(Unmarshal x, Unmarshal y)")
					c.Stat("known_FA6")
				} else if !eq1 || !id1 {
					c.PropFail("C07", "Unmarshal(x || y) differs from Merge(Unmarshal x, Unmarshal y): "+fl.what(), HexB(x), HexB(y))
				} else {
					c.PropFail("C07", "UnmarshalOptions{Merge:true}(y) into Unmarshal(x) differs from Merge(Unmarshal x, Unmarshal y): "+fl.what(), HexB(x), HexB(y))
				}
			}
		}
	}

	// --- aliasing: the merge result shares nothing mutable with its source
	{
		src, _, err := w2aBinCopy(fl, b, true)
		if err == nil {
			dst, _, err2 := w2aBinCopy(fl, a, true)
			if err2 == nil {
				proto.Merge(dst.Interface(), src.Interface())
				mergeAliasing(c, fl, dst, src, "Merge(dst, src)")
			}
		}
		src2, _, err := w2aBinCopy(fl, b, true)
		if err == nil {
			cl2 := proto.Clone(src2.Interface()).ProtoReflect()
			mergeAliasing(c, fl, cl2, src2, "Clone(src)")
		}
	}
}

// mergeCorpus: boundary cases first (the repaired F14 input, oneof replacement, map upsert).
func mergeCorpus(c *Ctx, corpus []*w2aTarget) {
	byName := map[string]*w2aTarget{}
	for _, t := range corpus {
		byName[string(t.fls[0].md.FullName())] = t
	}
	type item struct {
		typ  string
		a, b []byte
	}
	tag := func(num int, t protowire.Type, rest ...byte) []byte {
		return append(protowire.AppendTag(nil, protowire.Number(num), t), rest...)
	}
	items := []item{
		// F14 (repaired): implicit-presence float/double holding -0.0 must be merged
		{"goproto.proto.test3.TestAllTypes", tag(91, protowire.Fixed32Type, 0, 0, 0x80, 0x3f), tag(91, protowire.Fixed32Type, 0, 0, 0, 0x80)},
		{"goproto.proto.test3.TestAllTypes", nil, tag(92, protowire.Fixed64Type, 0, 0, 0, 0, 0, 0, 0, 0x80)},
		// oneof: same message member merges, another member replaces
		{"goproto.proto.test.TestAllTypes", tag(112, protowire.BytesType, 0x02, 0x08, 0x01), tag(112, protowire.BytesType, 0x04, 0x12, 0x02, 0x08, 0x07)},
		{"goproto.proto.test.TestAllTypes", tag(112, protowire.BytesType, 0x02, 0x08, 0x01), tag(111, protowire.VarintType, 0x05)},
		{"goproto.proto.test.TestAllTypes", tag(111, protowire.VarintType, 0x05), tag(112, protowire.BytesType, 0x00)},
		// map upsert replaces the whole entry (no recursive merge of message values)
		{"goproto.proto.test.TestAllTypes", tag(71, protowire.BytesType, 0x07, 0x0a, 0x01, 0x6b, 0x12, 0x02, 0x08, 0x01), tag(71, protowire.BytesType, 0x05, 0x0a, 0x01, 0x6b, 0x12, 0x00)},
		// unknown fields append
		{"goproto.proto.test.TestAllTypes", tag(8191, protowire.VarintType, 0x01), tag(8191, protowire.VarintType, 0x02)},
	}
	for _, it := range items {
		t := byName[it.typ]
		if t == nil {
			c.PropFail("C07", "corpus type not linked: "+it.typ)
			continue
		}
		id := t.schema(c)
		for _, fl := range t.fls {
			func() {
				defer w2aRecover(c, "C07", fl.what())
				a, ea := w2aUnmarshal(fl, it.a, proto.UnmarshalOptions{NoLazyDecoding: true})
				b, eb := w2aUnmarshal(fl, it.b, proto.UnmarshalOptions{NoLazyDecoding: true})
				if ea != nil || eb != nil {
					c.PropFail("C07", "corpus input does not decode: "+fl.what(), HexB(it.a), HexB(it.b))
					return
				}
				da, db := msgDump(a), msgDump(b)
				proto.Merge(a.Interface(), b.Interface())
				c.Case("merge", "merge", append(append([]string{id, "0"}, da...), db...), append([]string{"ok"}, msgDump(a)...))
				u, err := w2aUnmarshal(fl, w2aCat(it.a, it.b), proto.UnmarshalOptions{NoLazyDecoding: true})
				if err != nil {
					c.PropFail("C07", "corpus concatenation does not decode: "+fl.what(), HexB(it.a), HexB(it.b))
					return
				}
				if eq, id2 := mergeSame(a, u); !eq || !id2 {
					c.PropFail("C07", "Merge(a, b) differs from Unmarshal(a || b) on a corpus pair: "+fl.what(), HexB(it.a), HexB(it.b))
				}
				c.Case("merge", "into", []string{id, "0", fl.mode(), HexB(it.a), HexB(it.b)}, append([]string{"ok"}, msgDump(u)...))
				cl := proto.Clone(b.Interface()).ProtoReflect()
				if !proto.Equal(cl.Interface(), b.Interface()) || !w2aEqToks(msgDump(cl), db) {
					c.PropFail("C07", "Clone(m) differs from m on a corpus input: "+fl.what(), HexB(it.b))
				}
			}()
		}
	}
}

func famMerge(c *Ctx) {
	nrnd := c.N / 40
	if nrnd < 4 {
		nrnd = 4
	}
	corpus, rnd := w2aTargets(c, nrnd)
	c.StatN("linked_types", len(corpus))
	mergeCorpus(c, corpus)
	w2aSchedule(c, corpus, rnd, c.N, func(t *w2aTarget) { mergeOnePair(c, t) })
	// types that declare a [lazy=true] field: merges between two lazily decoded messages whose
	// lazy fields are populated on both sides
	k := 2 + c.N/400
	for _, t := range corpus {
		fl := t.fls[0]
		if fl.noDec || fl.slow {
			continue
		}
		direct := false
		for i := 0; i < fl.md.Fields().Len(); i++ {
			if msgIsLazyField(fl.md.Fields().Get(i)) {
				direct = true
			}
		}
		if !direct {
			continue
		}
		c.Stat("lazy_types")
		for i := 0; i < k; i++ {
			mergeOnePairOpts(c, t, true)
		}
	}
}
