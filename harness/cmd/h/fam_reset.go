//go:build verif

package main

import (
	"bytes"
	"fmt"
	"math"
	"reflect"
	"sort"
	"strconv"
	"strings"

	"google.golang.org/protobuf/encoding/protowire"
	"google.golang.org/protobuf/proto"
	"google.golang.org/protobuf/reflect/protoreflect"
	"google.golang.org/protobuf/reflect/protoregistry"
	"google.golang.org/protobuf/types/dynamicpb"

	lazypb "google.golang.org/protobuf/internal/testprotos/lazy"
	lazyhybridpb "google.golang.org/protobuf/internal/testprotos/lazy/lazy_hybrid"
	lazyopaquepb "google.golang.org/protobuf/internal/testprotos/lazy/lazy_opaque"
	testpb "google.golang.org/protobuf/internal/testprotos/test"
	test3pb "google.golang.org/protobuf/internal/testprotos/test3"
	testeditionspb "google.golang.org/protobuf/internal/testprotos/testeditions"
	testhybridpb "google.golang.org/protobuf/internal/testprotos/testeditions/testeditions_hybrid"
	testopaquepb "google.golang.org/protobuf/internal/testprotos/testeditions/testeditions_opaque"
)

// family "reset": C15 (Unmarshal without Merge and proto.Reset erase all prior state).
//
// A history is generated as a list of ABSTRACT operations (field class, field
// number, zero/non-zero, element counts, wire items and the position of an
// injected decoding failure) and realised on a corpus message.  After every
// step the harness reads the populated field numbers, the populated extension
// numbers, the unknown bytes and (generated types, default build) which Go
// struct cells are non-zero; the Coq model (Msg/ResetModel.v) recomputes these
// from the abstract history.  At the end the property's own predicate is
// evaluated: Unmarshal into the dirty message vs. into a fresh one, and
// proto.Reset vs. a new message.

// "resetpr" / "resetlg" are the same family under other names: props/C15.json
// runs them with -tags protoreflect / protolegacy (lazily stored extensions), and
// bin/check names the output file after the family.
func init() {
	Register("reset", famReset)
	Register("resetpr", famReset)
	Register("resetlg", famReset)
}

type resetFld struct {
	fd  protoreflect.FieldDescriptor
	cls string // sp si m ml l lo mp o
	grp int    // index of the real oneof + 1, or 0
}

type resetTyp struct {
	name    string
	flav    string // open | opaque | dyn   (hybrid types have the open layout without -tags protoopaque)
	mt      protoreflect.MessageType
	flds    []*resetFld
	byCls   map[string][]*resetFld
	msgFlds []*resetFld // singular, non-oneof, length-prefixed message fields (targets of the bad-nested failure)
	exts    []protoreflect.ExtensionType
	hasLazy bool
	utf8    *resetFld // a singular string field that enforces UTF-8, if any
}

type resetRng struct{ s uint64 }

func (r *resetRng) next() uint64 {
	r.s += 0x9e3779b97f4a7c15
	z := r.s
	z = (z ^ (z >> 30)) * 0xbf58476d1ce4e5b9
	z = (z ^ (z >> 27)) * 0x94d049bb133111eb
	return z ^ (z >> 31)
}
func (r *resetRng) intn(n int) int { return int(r.next() % uint64(n)) }

func resetIsLazy(fd protoreflect.FieldDescriptor) bool {
	l, ok := fd.(interface{ IsLazy() bool })
	return ok && l.IsLazy()
}

func resetClass(fd protoreflect.FieldDescriptor, flav string) (string, int) {
	if od := fd.ContainingOneof(); od != nil && !od.IsSynthetic() {
		return "o", od.Index() + 1
	}
	switch {
	case fd.IsMap():
		return "mp", 0
	case fd.IsList():
		if flav == "opaque" && fd.Message() != nil {
			return "lo", 0
		}
		return "l", 0
	case fd.Message() != nil:
		if flav == "opaque" && resetIsLazy(fd) {
			return "ml", 0
		}
		return "m", 0
	case fd.HasPresence():
		return "sp", 0
	}
	return "si", 0
}

func resetMkTyp(name, flav string, mt protoreflect.MessageType) *resetTyp {
	rt := &resetTyp{name: name, flav: flav, mt: mt, byCls: map[string][]*resetFld{}}
	md := mt.Descriptor()
	fds := md.Fields()
	for i := 0; i < fds.Len(); i++ {
		fd := fds.Get(i)
		if fd.IsWeak() || fd.Cardinality() == protoreflect.Required {
			continue
		}
		cls, grp := resetClass(fd, flav)
		f := &resetFld{fd: fd, cls: cls, grp: grp}
		rt.flds = append(rt.flds, f)
		rt.byCls[cls] = append(rt.byCls[cls], f)
		if (cls == "m" || cls == "ml") && fd.Kind() == protoreflect.MessageKind {
			rt.msgFlds = append(rt.msgFlds, f)
		}
		if rt.utf8 == nil && (cls == "sp" || cls == "si") && fd.Kind() == protoreflect.StringKind {
			if s, ok := fd.(interface{ EnforceUTF8() bool }); ok && s.EnforceUTF8() {
				rt.utf8 = f
			}
		}
	}
	sort.Slice(rt.flds, func(i, j int) bool { return rt.flds[i].fd.Number() < rt.flds[j].fd.Number() })
	protoregistry.GlobalTypes.RangeExtensionsByMessage(md.FullName(), func(xt protoreflect.ExtensionType) bool {
		xd := xt.TypeDescriptor()
		if xd.Cardinality() != protoreflect.Required && !(xd.Message() != nil && xd.Message().RequiredNumbers().Len() > 0) {
			rt.exts = append(rt.exts, xt)
		}
		return true
	})
	sort.Slice(rt.exts, func(i, j int) bool {
		return rt.exts[i].TypeDescriptor().Number() < rt.exts[j].TypeDescriptor().Number()
	})
	if flav != "dyn" {
		t := reflect.TypeOf(mt.New().Interface()).Elem()
		if _, ok := t.FieldByName("XXX_lazyUnmarshalInfo"); ok {
			rt.hasLazy = true
		}
	}
	return rt
}

var resetTypes []*resetTyp

func resetInitTypes() {
	if resetTypes != nil {
		return
	}
	add := func(name, flav string, m proto.Message) {
		resetTypes = append(resetTypes, resetMkTyp(name, flav, m.ProtoReflect().Type()))
	}
	add("test.TestAllTypes", "open", &testpb.TestAllTypes{})
	add("test.TestAllExtensions", "open", &testpb.TestAllExtensions{})
	add("test3.TestAllTypes", "open", &test3pb.TestAllTypes{})
	add("testeditions.TestAllTypes", "open", &testeditionspb.TestAllTypes{})
	add("testeditions.TestAllExtensions", "open", &testeditionspb.TestAllExtensions{})
	add("lazy.Node", "open", &lazypb.Node{})
	add("hybrid.TestAllTypes", "open", &testhybridpb.TestAllTypes{})
	add("hybrid.TestAllExtensions", "open", &testhybridpb.TestAllExtensions{})
	add("lazy_hybrid.Node", "open", &lazyhybridpb.Node{})
	add("opaque.TestAllTypes", "opaque", &testopaquepb.TestAllTypes{})
	add("opaque.TestAllExtensions", "opaque", &testopaquepb.TestAllExtensions{})
	add("lazy_opaque.Node", "opaque", &lazyopaquepb.Node{})
	for _, m := range []proto.Message{&testpb.TestAllTypes{}, &testpb.TestAllExtensions{}, &test3pb.TestAllTypes{}, &testeditionspb.TestAllTypes{}} {
		md := m.ProtoReflect().Descriptor()
		resetTypes = append(resetTypes, resetMkTyp("dyn."+string(md.FullName()), "dyn", dynamicpb.NewMessageType(md)))
	}
}

// ---------------------------------------------------------------- values

func resetScalar(fd protoreflect.FieldDescriptor, r *resetRng, nz bool) (protoreflect.Value, bool) {
	k := uint64(0)
	if nz {
		k = r.next()%1000 + 1
	}
	switch fd.Kind() {
	case protoreflect.BoolKind:
		return protoreflect.ValueOfBool(nz), nz
	case protoreflect.EnumKind:
		vals := fd.Enum().Values()
		if nz {
			for i := 0; i < vals.Len(); i++ {
				v := vals.Get((i + int(k)) % vals.Len())
				if v.Number() != 0 {
					return protoreflect.ValueOfEnum(v.Number()), true
				}
			}
		}
		if vals.ByNumber(0) != nil {
			return protoreflect.ValueOfEnum(0), false
		}
		return protoreflect.ValueOfEnum(vals.Get(0).Number()), true
	case protoreflect.Int32Kind, protoreflect.Sint32Kind, protoreflect.Sfixed32Kind:
		v := int32(k)
		if k%3 == 2 {
			v = -v
		}
		return protoreflect.ValueOfInt32(v), nz
	case protoreflect.Int64Kind, protoreflect.Sint64Kind, protoreflect.Sfixed64Kind:
		v := int64(k) << (k % 40)
		if k%3 == 2 {
			v = -v
		}
		return protoreflect.ValueOfInt64(v), nz
	case protoreflect.Uint32Kind, protoreflect.Fixed32Kind:
		return protoreflect.ValueOfUint32(uint32(k)), nz
	case protoreflect.Uint64Kind, protoreflect.Fixed64Kind:
		return protoreflect.ValueOfUint64(k << (k % 50)), nz
	case protoreflect.FloatKind:
		return protoreflect.ValueOfFloat32(float32(k) / 4), nz
	case protoreflect.DoubleKind:
		return protoreflect.ValueOfFloat64(float64(k) / 8), nz
	case protoreflect.StringKind:
		// explicit-presence strings are *string in opaque structs: like bytes, an
		// empty value has a representation the model does not track
		if !nz && !fd.HasPresence() {
			return protoreflect.ValueOfString(""), false
		}
		return protoreflect.ValueOfString("s" + strconv.FormatUint(r.next()%1000+1, 10)), true
	case protoreflect.BytesKind:
		// zero-length bytes have two representations (nil, empty) that the model
		// does not distinguish: bytes values are always non-empty
		return protoreflect.ValueOfBytes([]byte("b" + strconv.FormatUint(r.next()%1000+1, 10))), true
	}
	panic("resetScalar: kind " + fd.Kind().String())
}

// resetFill populates a child message deterministically.
func resetFill(m protoreflect.Message, r *resetRng, depth int) {
	fds := m.Descriptor().Fields()
	n := r.intn(4) // 0: present but empty child
	for i := 0; i < n && fds.Len() > 0; i++ {
		fd := fds.Get(r.intn(fds.Len()))
		switch {
		case fd.IsWeak() || fd.IsMap() || fd.IsList() || fd.Cardinality() == protoreflect.Required:
			continue
		case fd.Message() != nil:
			if depth > 0 && fd.Message().RequiredNumbers().Len() == 0 {
				resetFill(m.Mutable(fd).Message(), r, depth-1)
			}
		default:
			v, _ := resetScalar(fd, r, true)
			m.Set(fd, v)
		}
	}
}

func resetElem(fd protoreflect.FieldDescriptor, newMsg func() protoreflect.Value, r *resetRng) protoreflect.Value {
	if fd.Message() != nil {
		v := newMsg()
		resetFill(v.Message(), r, 1)
		return v
	}
	v, _ := resetScalar(fd, r, true)
	return v
}

func resetMapFill(mp protoreflect.Map, fd protoreflect.FieldDescriptor, cnt int, r *resetRng) {
	for i := 0; i < cnt; i++ {
		var k protoreflect.Value
		if fd.MapKey().Kind() == protoreflect.BoolKind {
			k = protoreflect.ValueOfBool(r.intn(2) == 0)
		} else {
			k, _ = resetScalar(fd.MapKey(), r, true)
		}
		mp.Set(protoreflect.MapKey(k), resetElem(fd.MapValue(), func() protoreflect.Value { return mp.NewValue() }, r))
	}
}

// resetSet performs "Set field f" on m by reflection; returns the effective nz.
func resetSet(m protoreflect.Message, f *resetFld, nz bool, cnt int, seed uint64) bool {
	r := &resetRng{s: seed}
	fd := f.fd
	switch {
	case fd.IsList():
		l := m.NewField(fd).List()
		for i := 0; i < cnt; i++ {
			l.Append(resetElem(fd, func() protoreflect.Value { return l.NewElement() }, r))
		}
		m.Set(fd, protoreflect.ValueOfList(l))
		return cnt > 0
	case fd.IsMap():
		mp := m.NewField(fd).Map()
		resetMapFill(mp, fd, cnt, r)
		m.Set(fd, protoreflect.ValueOfMap(mp))
		return cnt > 0
	case fd.Message() != nil:
		v := m.NewField(fd)
		resetFill(v.Message(), r, 1)
		m.Set(fd, v)
		return true
	}
	v, enz := resetScalar(fd, r, nz)
	m.Set(fd, v)
	return enz
}

func resetXSet(m protoreflect.Message, rt *resetTyp, x int, cnt int, seed uint64) {
	r := &resetRng{s: seed}
	xt := rt.exts[x]
	xd := xt.TypeDescriptor()
	switch {
	case xd.IsList():
		l := xt.New().List()
		for i := 0; i < cnt; i++ {
			l.Append(resetElem(xd, func() protoreflect.Value { return l.NewElement() }, r))
		}
		m.Set(xd, protoreflect.ValueOfList(l))
	case xd.Message() != nil:
		v := xt.New()
		resetFill(v.Message(), r, 1)
		m.Set(xd, v)
	default:
		v, _ := resetScalar(xd, r, true)
		m.Set(xd, v)
	}
}

// ---------------------------------------------------------------- abstract ops

type resetItem struct {
	kind byte // 'f' field, 'x' extension, 'u' unknown
	f    *resetFld
	x    int
	nz   bool
	cnt  int
	seed uint64
	raw  []byte // the wire chunk of this item
}

type resetOp struct {
	kind  string
	f     *resetFld
	x     int
	nz    bool
	cnt   int
	seed  uint64
	raw   []byte
	items []resetItem
	fail  int // -1: no failure; k: the bad chunk stands before item k
	fkind int
	ff    *resetFld // the message field holding the bad nested payload (fkind 5)
	wire  []byte
}

func resetB(b bool) string {
	if b {
		return "1"
	}
	return "0"
}

func (f *resetFld) tok() string {
	return fmt.Sprintf("%x:%s:%d", uint64(f.fd.Number()), f.cls, f.grp)
}

func resetItemsTok(rt *resetTyp, items []resetItem) string {
	var s []string
	for _, it := range items {
		switch it.kind {
		case 'f':
			s = append(s, fmt.Sprintf("f.%x.%s.%d.%s.%d", uint64(it.f.fd.Number()), it.f.cls, it.f.grp, resetB(it.nz), it.cnt))
		case 'x':
			xd := rt.exts[it.x].TypeDescriptor()
			s = append(s, fmt.Sprintf("x.%x.%s.%d", uint64(xd.Number()), resetB(xd.IsList()), it.cnt))
		case 'u':
			s = append(s, "u."+HexB(it.raw))
		}
	}
	if len(s) == 0 {
		return "-"
	}
	return strings.Join(s, ";")
}

func (o *resetOp) tok(rt *resetTyp) string {
	switch o.kind {
	case "set":
		return fmt.Sprintf("set:%s:%s:%d", o.f.tok(), resetB(o.nz), o.cnt)
	case "clr", "mut", "app", "trn":
		return o.kind + ":" + o.f.tok()
	case "xset":
		xd := rt.exts[o.x].TypeDescriptor()
		return fmt.Sprintf("xset:%x:%s:%d", uint64(xd.Number()), resetB(xd.IsList()), o.cnt)
	case "xclr":
		return fmt.Sprintf("xclr:%x", uint64(rt.exts[o.x].TypeDescriptor().Number()))
	case "unk":
		return "unk:" + HexB(o.raw)
	case "mrg":
		return "mrg:" + resetItemsTok(rt, o.items)
	case "um", "un":
		fl := "n"
		if o.fail >= 0 {
			// second part: protolazy.buildIndex still accepts the input (it only
			// skips top-level fields): field number 0, bad nested payload, invalid UTF-8
			fl = strconv.Itoa(o.fail) + "." + resetB(o.fkind == 2 || o.fkind == 5 || o.fkind == 6)
			if o.fkind == 5 {
				fl += "." + fmt.Sprintf("%x.%s", uint64(o.ff.fd.Number()), o.ff.cls)
			}
		}
		return o.kind + ":" + fl + ":" + resetItemsTok(rt, o.items)
	}
	return o.kind // size dmar touch rst
}

func resetDet(m protoreflect.Message) []byte {
	b, err := proto.MarshalOptions{Deterministic: true, AllowPartial: true}.Marshal(m.Interface())
	if err != nil {
		panic("resetDet: " + err.Error())
	}
	return b
}

func resetUnknownNum(rt *resetTyp, r *resetRng) protowire.Number {
	for {
		n := protowire.Number(100000 + r.intn(5000))
		if rt.mt.Descriptor().Fields().ByNumber(n) != nil {
			continue
		}
		if _, err := protoregistry.GlobalTypes.FindExtensionByNumber(rt.mt.Descriptor().FullName(), n); err == nil {
			continue
		}
		return n
	}
}

func resetRawUnknown(rt *resetTyp, seed uint64) []byte {
	r := &resetRng{s: seed}
	n := 1 + r.intn(2)
	var b []byte
	for i := 0; i < n; i++ {
		num := resetUnknownNum(rt, r)
		switch r.intn(3) {
		case 0:
			b = protowire.AppendTag(b, num, protowire.VarintType)
			b = protowire.AppendVarint(b, r.next()>>uint(r.intn(64)))
		case 1:
			b = protowire.AppendTag(b, num, protowire.Fixed32Type)
			b = protowire.AppendFixed32(b, uint32(r.next()))
		default:
			b = protowire.AppendTag(b, num, protowire.BytesType)
			b = protowire.AppendBytes(b, []byte("u"+strconv.Itoa(r.intn(100))))
		}
	}
	return b
}

// resetWireItem computes the wire chunk of an item and fixes its effective nz.
func resetWireItem(rt *resetTyp, it *resetItem) {
	switch it.kind {
	case 'u':
		it.raw = resetRawUnknown(rt, it.seed)
	case 'x':
		tmp := rt.mt.New()
		resetXSet(tmp, rt, it.x, it.cnt, it.seed)
		it.raw = resetDet(tmp)
	case 'f':
		tmp := rt.mt.New()
		it.nz = resetSet(tmp, it.f, it.nz, it.cnt, it.seed)
		if it.f.cls == "si" && !it.nz {
			// a zero value of an implicit-presence field is not emitted by Marshal
			// but is legal on the wire
			fd := it.f.fd
			switch fd.Kind() {
			case protoreflect.Fixed32Kind, protoreflect.Sfixed32Kind, protoreflect.FloatKind:
				it.raw = protowire.AppendFixed32(protowire.AppendTag(nil, fd.Number(), protowire.Fixed32Type), 0)
			case protoreflect.Fixed64Kind, protoreflect.Sfixed64Kind, protoreflect.DoubleKind:
				it.raw = protowire.AppendFixed64(protowire.AppendTag(nil, fd.Number(), protowire.Fixed64Type), 0)
			case protoreflect.StringKind:
				it.raw = protowire.AppendBytes(protowire.AppendTag(nil, fd.Number(), protowire.BytesType), nil)
			default:
				it.raw = protowire.AppendVarint(protowire.AppendTag(nil, fd.Number(), protowire.VarintType), 0)
			}
		} else {
			it.raw = resetDet(tmp)
		}
	}
}

func resetCnt(c *Ctx, min int) int { return min + c.Intn(4-min) }

func resetGenItem(c *Ctx, rt *resetTyp) resetItem {
	it := resetItem{seed: c.U64()}
	k := c.Intn(20)
	switch {
	case k < 3 && len(rt.exts) > 0:
		it.kind = 'x'
		it.x = c.Intn(len(rt.exts))
		if rt.exts[it.x].TypeDescriptor().IsList() {
			it.cnt = resetCnt(c, 1)
		}
	case k < 6:
		it.kind = 'u'
	case len(rt.flds) == 0:
		it.kind = 'u'
	default:
		it.kind = 'f'
		it.f = resetPickFld(c, rt)
		it.nz = c.Intn(4) != 0
		if it.f.fd.IsList() || it.f.fd.IsMap() {
			it.cnt = resetCnt(c, 1)
		}
	}
	resetWireItem(rt, &it)
	return it
}

// resetPickFld: uniform over classes first (so that the few lazy / oneof /
// message fields are hit as often as the many scalars), then over fields.
func resetPickFld(c *Ctx, rt *resetTyp) *resetFld {
	if c.Intn(3) == 0 {
		return rt.flds[c.Intn(len(rt.flds))]
	}
	var keys []string
	for _, k := range []string{"sp", "si", "m", "ml", "l", "lo", "mp", "o"} {
		if len(rt.byCls[k]) > 0 {
			keys = append(keys, k)
		}
	}
	fs := rt.byCls[keys[c.Intn(len(keys))]]
	return fs[c.Intn(len(fs))]
}

func resetGenItems(c *Ctx, rt *resetTyp, max int) []resetItem {
	n := c.Intn(max + 1)
	var items []resetItem
	for i := 0; i < n; i++ {
		items = append(items, resetGenItem(c, rt))
	}
	return items
}

// resetGenWire fills o.items / o.fail / o.wire for an unmarshal operation.
func resetGenWire(c *Ctx, rt *resetTyp, o *resetOp, failing bool) {
	o.items = resetGenItems(c, rt, 5)
	o.fail = -1
	if failing {
		o.fail = c.Intn(len(o.items) + 1)
		o.fkind = c.Intn(7)
		if o.fkind == 5 {
			if len(rt.msgFlds) == 0 {
				o.fkind = 2
			} else {
				o.ff = rt.msgFlds[c.Intn(len(rt.msgFlds))]
			}
		}
		if o.fkind == 6 && rt.utf8 == nil {
			o.fkind = 3
		}
	}
	resetBuildWire(rt, o)
}

func resetBuildWire(rt *resetTyp, o *resetOp) {
	var b []byte
	for i, it := range o.items {
		if i == o.fail {
			var stop bool
			b, stop = resetBad(rt, o, b)
			if stop {
				o.wire = b
				return
			}
		}
		b = append(b, it.raw...)
	}
	if o.fail == len(o.items) {
		b, _ = resetBad(rt, o, b)
	}
	o.wire = b
}

// resetBad appends the chunk that makes decoding fail.
func resetBad(rt *resetTyp, o *resetOp, b []byte) ([]byte, bool) {
	switch o.fkind {
	case 0: // truncated varint (end of input)
		b = protowire.AppendTag(b, 100001, protowire.VarintType)
		return append(b, 0x80), true
	case 1: // truncated length-delimited value (end of input)
		b = protowire.AppendTag(b, 100001, protowire.BytesType)
		return append(b, 5, 'a', 'b'), true
	case 2: // field number 0
		return append(b, 0x00, 0x00), false
	case 3: // end-group marker without a group
		return protowire.AppendTag(b, 1, protowire.EndGroupType), false
	case 4: // reserved wire type 7
		return protowire.AppendVarint(b, uint64(100002)<<3|7), false
	case 5: // message field whose payload does not parse
		b = protowire.AppendTag(b, o.ff.fd.Number(), protowire.BytesType)
		return append(b, 2, 0x08, 0x80), false
	default: // invalid UTF-8 in a validated string field
		b = protowire.AppendTag(b, rt.utf8.fd.Number(), protowire.BytesType)
		return append(b, 1, 0xff), false
	}
}

func resetGenOp(c *Ctx, rt *resetTyp) *resetOp {
	o := &resetOp{seed: c.U64(), fail: -1}
	for {
		k := c.Intn(100)
		switch {
		case k < 18 && len(rt.flds) > 0:
			o.kind = "set"
			o.f = resetPickFld(c, rt)
			o.nz = c.Intn(4) != 0
			if o.f.fd.IsList() || o.f.fd.IsMap() {
				o.cnt = resetCnt(c, 0)
			}
			// effective nz: compute on a scratch message
			o.nz = resetSet(rt.mt.New(), o.f, o.nz, o.cnt, o.seed)
		case k < 28 && len(rt.flds) > 0:
			o.kind = "clr"
			o.f = resetPickFld(c, rt)
		case k < 34 && len(rt.flds) > 0:
			o.f = resetPickFld(c, rt)
			fd := o.f.fd
			if !(fd.IsList() || fd.IsMap() || fd.Message() != nil) {
				continue
			}
			o.kind = "mut"
		case k < 40 && len(rt.flds) > 0:
			o.f = resetPickFld(c, rt)
			if !(o.f.fd.IsList() || o.f.fd.IsMap()) {
				continue
			}
			o.kind = "app"
		case k < 43 && len(rt.flds) > 0:
			o.f = resetPickFld(c, rt)
			if !o.f.fd.IsList() {
				continue
			}
			o.kind = "trn"
		case k < 49:
			if len(rt.exts) == 0 {
				continue
			}
			o.kind = "xset"
			o.x = c.Intn(len(rt.exts))
			if rt.exts[o.x].TypeDescriptor().IsList() {
				o.cnt = resetCnt(c, 0)
			}
		case k < 52:
			if len(rt.exts) == 0 {
				continue
			}
			o.kind = "xclr"
			o.x = c.Intn(len(rt.exts))
		case k < 57:
			o.kind = "unk"
			if c.Intn(4) != 0 {
				o.raw = resetRawUnknown(rt, o.seed)
			}
		case k < 61:
			o.kind = "size"
		case k < 64:
			o.kind = "dmar"
		case k < 69:
			o.kind = "touch"
		case k < 76:
			o.kind = "mrg"
			o.items = resetGenItems(c, rt, 4)
		case k < 86:
			o.kind = "um"
			resetGenWire(c, rt, o, false)
		case k < 94:
			o.kind = "um"
			resetGenWire(c, rt, o, true)
		case k < 96:
			o.kind = "un"
			resetGenWire(c, rt, o, c.Intn(3) == 0)
		default:
			o.kind = "rst"
		}
		return o
	}
}

// ---------------------------------------------------------------- applying an op

func resetTouch(m protoreflect.Message) {
	m.Range(func(fd protoreflect.FieldDescriptor, v protoreflect.Value) bool {
		switch {
		case fd.IsMap():
			if fd.MapValue().Message() != nil {
				v.Map().Range(func(_ protoreflect.MapKey, mv protoreflect.Value) bool {
					resetTouch(mv.Message())
					return true
				})
			}
		case fd.IsList():
			if fd.Message() != nil {
				for i := 0; i < v.List().Len(); i++ {
					resetTouch(v.List().Get(i).Message())
				}
			}
		case fd.Message() != nil:
			resetTouch(v.Message())
		}
		return true
	})
}

func resetApply(rt *resetTyp, m protoreflect.Message, o *resetOp) {
	switch o.kind {
	case "set":
		resetSet(m, o.f, o.nz, o.cnt, o.seed)
	case "clr":
		m.Clear(o.f.fd)
	case "mut":
		m.Mutable(o.f.fd)
	case "app":
		r := &resetRng{s: o.seed}
		if o.f.fd.IsList() {
			l := m.Mutable(o.f.fd).List()
			l.Append(resetElem(o.f.fd, func() protoreflect.Value { return l.NewElement() }, r))
		} else {
			resetMapFill(m.Mutable(o.f.fd).Map(), o.f.fd, 1, r)
		}
	case "trn":
		m.Mutable(o.f.fd).List().Truncate(0)
	case "xset":
		resetXSet(m, rt, o.x, o.cnt, o.seed)
	case "xclr":
		m.Clear(rt.exts[o.x].TypeDescriptor())
	case "unk":
		m.SetUnknown(protoreflect.RawFields(append([]byte(nil), o.raw...)))
	case "size":
		proto.Size(m.Interface())
	case "dmar":
		proto.MarshalOptions{Deterministic: true, AllowPartial: true}.Marshal(m.Interface())
	case "touch":
		resetTouch(m)
	case "mrg":
		src := rt.mt.New()
		for _, it := range o.items {
			switch it.kind {
			case 'f':
				resetSet(src, it.f, it.nz, it.cnt, it.seed)
			case 'x':
				resetXSet(src, rt, it.x, it.cnt, it.seed)
			case 'u':
				src.SetUnknown(append(src.GetUnknown(), it.raw...))
			}
		}
		proto.Merge(m.Interface(), src.Interface())
	case "um":
		proto.UnmarshalOptions{Merge: true, AllowPartial: true}.Unmarshal(append([]byte(nil), o.wire...), m.Interface())
	case "un":
		proto.UnmarshalOptions{AllowPartial: true}.Unmarshal(append([]byte(nil), o.wire...), m.Interface())
	case "rst":
		proto.Reset(m.Interface())
	default:
		panic("resetApply: " + o.kind)
	}
}

func resetTry(f func()) (pan string) {
	defer func() {
		if r := recover(); r != nil {
			pan = fmt.Sprint(r)
			if len(pan) > 120 {
				pan = pan[:120]
			}
			pan = strings.Map(func(r rune) rune {
				if r == '\t' || r == '\n' {
					return ' '
				}
				return r
			}, pan)
		}
	}()
	f()
	return ""
}

// ---------------------------------------------------------------- observations

// resetObs: populated field numbers ; populated extension numbers ; unknown ; concrete cells
func resetObs(rt *resetTyp, m protoreflect.Message) string {
	var has, xs []string
	for _, f := range rt.flds {
		if m.Has(f.fd) {
			has = append(has, strconv.FormatUint(uint64(f.fd.Number()), 16))
		}
	}
	for _, xt := range rt.exts {
		if m.Has(xt.TypeDescriptor()) {
			xs = append(xs, strconv.FormatUint(uint64(xt.TypeDescriptor().Number()), 16))
		}
	}
	return strings.Join(has, ",") + ";" + strings.Join(xs, ",") + ";" + HexB(m.GetUnknown()) + ";" + resetConcrete(rt, m)
}

// resetConcrete (generated types in the default build): the numbers of the
// struct fields holding a non-zero Go value (oneofs: g<index>), and
// p = some presence bit set, z = lazy info allocated, s = size cache non-zero,
// e = number of entries of the extension map.
func resetConcrete(rt *resetTyp, m protoreflect.Message) string {
	if rt.flav == "dyn" || !resetFastBuild {
		return "-"
	}
	v := reflect.ValueOf(m.Interface()).Elem()
	t := v.Type()
	var nums []int
	var grps []int
	p, z, s, e := "0", "0", "0", "0"
	for i := 0; i < t.NumField(); i++ {
		sf := t.Field(i)
		fv := v.Field(i)
		switch sf.Name {
		case "state", "unknownFields", "XXX_raceDetectHookData":
			continue
		case "sizeCache":
			s = resetB(!fv.IsZero())
			continue
		case "extensionFields":
			e = strconv.Itoa(fv.Len())
			continue
		case "XXX_presence":
			p = resetB(!fv.IsZero())
			continue
		case "XXX_lazyUnmarshalInfo":
			z = resetB(!fv.IsZero())
			continue
		}
		if on, ok := sf.Tag.Lookup("protobuf_oneof"); ok {
			if !fv.IsZero() {
				grps = append(grps, m.Descriptor().Oneofs().ByName(protoreflect.Name(on)).Index()+1)
			}
			continue
		}
		tag, ok := sf.Tag.Lookup("protobuf")
		if !ok {
			continue
		}
		parts := strings.Split(tag, ",")
		if len(parts) < 2 {
			continue
		}
		num, err := strconv.Atoi(parts[1])
		if err != nil {
			continue
		}
		if fd := m.Descriptor().Fields().ByNumber(protoreflect.FieldNumber(num)); fd == nil || fd.IsWeak() || fd.Cardinality() == protoreflect.Required {
			continue
		}
		if !fv.IsZero() {
			nums = append(nums, num)
		}
	}
	sort.Ints(nums)
	sort.Ints(grps)
	var toks []string
	for _, n := range nums {
		toks = append(toks, strconv.FormatUint(uint64(n), 16))
	}
	for _, g := range grps {
		toks = append(toks, "g"+strconv.Itoa(g))
	}
	return strings.Join(toks, ",") + "/p" + p + "z" + z + "s" + s + "e" + e
}

// resetAllZero: every struct field except the message state is the zero value.
func resetAllZero(m protoreflect.Message) string {
	v := reflect.ValueOf(m.Interface()).Elem()
	t := v.Type()
	for i := 0; i < t.NumField(); i++ {
		if t.Field(i).Name == "state" {
			continue
		}
		if !v.Field(i).IsZero() {
			return t.Field(i).Name
		}
	}
	return ""
}

func resetDumpVal(sb *strings.Builder, fd protoreflect.FieldDescriptor, v protoreflect.Value) {
	switch {
	case fd.Message() != nil:
		sb.WriteString("{")
		resetDump(sb, v.Message())
		sb.WriteString("}")
	case fd.Kind() == protoreflect.BytesKind:
		sb.WriteString(HexB(v.Bytes()))
	case fd.Kind() == protoreflect.FloatKind:
		fmt.Fprintf(sb, "%x", math.Float32bits(float32(v.Float())))
	case fd.Kind() == protoreflect.DoubleKind:
		fmt.Fprintf(sb, "%x", math.Float64bits(v.Float()))
	case fd.Kind() == protoreflect.StringKind:
		fmt.Fprintf(sb, "%q", v.String())
	default:
		fmt.Fprintf(sb, "%v", v.Interface())
	}
}

// resetDump: canonical dump through Range (fields sorted by number; map entries sorted).
func resetDump(sb *strings.Builder, m protoreflect.Message) {
	type ent struct {
		fd protoreflect.FieldDescriptor
		v  protoreflect.Value
	}
	var es []ent
	m.Range(func(fd protoreflect.FieldDescriptor, v protoreflect.Value) bool {
		es = append(es, ent{fd, v})
		return true
	})
	sort.Slice(es, func(i, j int) bool {
		if es[i].fd.Number() != es[j].fd.Number() {
			return es[i].fd.Number() < es[j].fd.Number()
		}
		return es[i].fd.FullName() < es[j].fd.FullName()
	})
	for _, e := range es {
		fmt.Fprintf(sb, "%d", e.fd.Number())
		if e.fd.IsExtension() {
			sb.WriteString("x")
		}
		sb.WriteString("=")
		switch {
		case e.fd.IsList():
			sb.WriteString("[")
			for i := 0; i < e.v.List().Len(); i++ {
				resetDumpVal(sb, e.fd, e.v.List().Get(i))
				sb.WriteString(",")
			}
			sb.WriteString("]")
		case e.fd.IsMap():
			var kv []string
			e.v.Map().Range(func(k protoreflect.MapKey, v protoreflect.Value) bool {
				var s strings.Builder
				fmt.Fprintf(&s, "%v:", k.Interface())
				resetDumpVal(&s, e.fd.MapValue(), v)
				kv = append(kv, s.String())
				return true
			})
			sort.Strings(kv)
			sb.WriteString("<" + strings.Join(kv, ",") + ">")
		default:
			resetDumpVal(sb, e.fd, e.v)
		}
		sb.WriteString(" ")
	}
	if u := m.GetUnknown(); len(u) > 0 {
		sb.WriteString("?" + HexB(u))
	}
}

func resetDumpS(m protoreflect.Message) string {
	var sb strings.Builder
	resetDump(&sb, m)
	return sb.String()
}

func resetErrClass(err error) string {
	if err == nil {
		return "ok"
	}
	return "err"
}

// ---------------------------------------------------------------- one history

type resetHist struct {
	rt    *resetTyp
	ops   []*resetOp
	final *resetOp // the non-merge Unmarshal of the predicate
}

func (h *resetHist) desc() []string {
	s := []string{h.rt.name}
	for _, o := range h.ops {
		s = append(s, o.tok(h.rt))
	}
	s = append(s, "FINAL", HexB(h.final.wire))
	return s
}

// resetReplay applies the history; it stops at the first panicking op and returns
// the number of ops applied and the observation after each.
func resetReplay(h *resetHist, m protoreflect.Message, observe bool) (n int, obs []string, pan string) {
	for _, o := range h.ops {
		if p := resetTry(func() { resetApply(h.rt, m, o) }); p != "" {
			return n, obs, o.kind + ": " + p
		}
		n++
		if observe {
			var ob string
			if p := resetTry(func() { ob = resetObs(h.rt, m) }); p != "" {
				return n - 1, obs, "obs after " + o.kind + ": " + p
			}
			obs = append(obs, ob)
		}
	}
	return n, obs, ""
}

func resetRun(c *Ctx, h *resetHist) {
	rt := h.rt
	m1 := rt.mt.New()
	m2 := rt.mt.New()
	n1, obs, pan1 := resetReplay(h, m1, true)
	n2, _, pan2 := resetReplay(h, m2, false)
	if pan1 != "" {
		c.Stat("hist_panic_mid")
		c.Stat("hist_panic_mid:" + strings.SplitN(pan1, ":", 2)[0])
		if len(pan1) > 0 && c.stats["hist_panic_mid"] <= 3 {
			c.Sample("mid-history panic (state after a failed decode; history cut there): " + rt.name + " " + pan1)
		}
	}
	if n1 != n2 && !(pan1 != "" && strings.HasPrefix(pan1, "obs after")) {
		c.PropFail("C15", "replaying the same history panicked at different steps", append(h.desc(), pan1, pan2)...)
	}
	// ---- model/implementation correspondence on the applied prefix
	ins := []string{rt.flav, resetB(resetFastBuild), resetB(rt.hasLazy)}
	for i := 0; i < len(obs); i++ {
		ins = append(ins, h.ops[i].tok(rt))
	}
	c.Case("reset", "hist", ins, append([]string{strconv.Itoa(len(obs))}, obs...))
	c.Stat("type:" + rt.name)
	for i := 0; i < len(obs); i++ {
		o := h.ops[i]
		k := o.kind
		if (k == "um" || k == "un") && o.fail >= 0 {
			k += "_fail" + strconv.Itoa(o.fkind)
		}
		c.Stat("op:" + k)
	}

	// ---- (a) Unmarshal into the dirty message vs. into a fresh one
	b := h.final.wire
	fresh := rt.mt.New()
	var err1, err2 error
	p1 := resetTry(func() {
		err1 = proto.UnmarshalOptions{AllowPartial: true}.Unmarshal(append([]byte(nil), b...), m1.Interface())
	})
	p2 := resetTry(func() {
		err2 = proto.UnmarshalOptions{AllowPartial: true}.Unmarshal(append([]byte(nil), b...), fresh.Interface())
	})
	switch {
	case p1 != "" || p2 != "":
		c.PropFail("C15", "Unmarshal panicked: dirty="+p1+" fresh="+p2, h.desc()...)
	case resetErrClass(err1) != resetErrClass(err2):
		c.PropFail("C15", "Unmarshal verdict differs: dirty="+resetErrClass(err1)+" fresh="+resetErrClass(err2), h.desc()...)
	default:
		c.Stat("final_unmarshal_" + resetErrClass(err1))
		var d1, d2 string
		var b1, b2 []byte
		var e12, e21 bool
		q1 := resetTry(func() { d1 = resetDumpS(m1); b1 = resetDet(m1); e12 = proto.Equal(m1.Interface(), fresh.Interface()) })
		q2 := resetTry(func() {
			d2 = resetDumpS(fresh)
			b2 = resetDet(fresh)
			e21 = proto.Equal(fresh.Interface(), m1.Interface())
		})
		switch {
		case q1 != "" || q2 != "":
			if err1 == nil {
				c.PropFail("C15", "reading the message after a successful Unmarshal panicked: dirty="+q1+" fresh="+q2, h.desc()...)
			} else if (q1 == "") != (q2 == "") {
				c.PropFail("C15", "after a failed Unmarshal only one of dirty/fresh can be read: dirty="+q1+" fresh="+q2, h.desc()...)
			} else {
				c.Stat("final_failed_unmarshal_unreadable")
			}
		case !e12 || !e21:
			c.PropFail("C15", "Unmarshal into a used message is not proto.Equal to Unmarshal into a fresh one", append(h.desc(), d1, d2)...)
		case !bytes.Equal(b1, b2):
			c.PropFail("C15", "deterministic bytes differ after Unmarshal into used vs fresh message", append(h.desc(), HexB(b1), HexB(b2))...)
		case d1 != d2:
			c.PropFail("C15", "Range dump differs after Unmarshal into used vs fresh message", append(h.desc(), d1, d2)...)
		}
		if o1, o2 := resetObs(rt, m1), resetObs(rt, fresh); o1 != o2 && q1 == "" && q2 == "" {
			// concrete cells too: the used message must be indistinguishable from the fresh one
			c.PropFail("C15", "state after Unmarshal differs between used and fresh message", append(h.desc(), o1, o2)...)
		}
	}

	// ---- (b) proto.Reset
	if p := resetTry(func() { proto.Reset(m2.Interface()) }); p != "" {
		c.PropFail("C15", "Reset panicked: "+p, h.desc()...)
		return
	}
	var what string
	p := resetTry(func() {
		empty := rt.mt.New()
		visited := 0
		m2.Range(func(protoreflect.FieldDescriptor, protoreflect.Value) bool { visited++; return true })
		switch {
		case visited != 0:
			what = "Range visits a field after Reset"
		case len(m2.GetUnknown()) != 0:
			what = "unknown fields survive Reset"
		case !proto.Equal(m2.Interface(), empty.Interface()) || !proto.Equal(empty.Interface(), m2.Interface()):
			what = "message not Equal to a new one after Reset"
		case proto.Size(m2.Interface()) != 0:
			what = "Size != 0 after Reset"
		case len(resetDet(m2)) != 0:
			what = "Marshal not empty after Reset"
		}
		if what != "" {
			return
		}
		for _, f := range rt.flds {
			if m2.Has(f.fd) {
				what = "Has(" + string(f.fd.Name()) + ") after Reset"
				return
			}
		}
		for _, xt := range rt.exts {
			if m2.Has(xt.TypeDescriptor()) {
				what = "extension " + string(xt.TypeDescriptor().FullName()) + " present after Reset"
				return
			}
		}
		if b, err := (proto.MarshalOptions{AllowPartial: true}).Marshal(m2.Interface()); err != nil || len(b) != 0 {
			what = "Marshal not empty after Reset"
			return
		}
		if rt.flav != "dyn" && resetFastBuild {
			// generated Reset: no residue in any concrete component.  (Size/Marshal
			// above ran on the reset message and may have stored the size cache.)
			m3 := rt.mt.New()
			if _, _, p3 := resetReplay(h, m3, false); p3 == pan2 {
				proto.Reset(m3.Interface())
				if fld := resetAllZero(m3); fld != "" {
					what = "struct field " + fld + " not zero after Reset"
				}
			}
		}
		if rt.flav == "dyn" && resetFastBuild {
			// dynamicpb.Message.Reset.  (Under -tags protoreflect, resetMessage leaves an
			// extension that was set to an empty list in the maps: Range does not visit it.
			// The model predicts that residue; it is not observable through the API.)
			v := reflect.ValueOf(m2.Interface()).Elem()
			if v.FieldByName("known").Len() != 0 || v.FieldByName("ext").Len() != 0 || !v.FieldByName("unknown").IsNil() {
				what = "dynamicpb maps not empty after Reset"
			}
		}
	})
	if p != "" {
		c.PropFail("C15", "reading the message after Reset panicked: "+p, h.desc()...)
	} else if what != "" {
		c.PropFail("C15", what, h.desc()...)
	}
	// a reset message must also behave like a new one afterwards
	var d1, d2 string
	fresh2 := rt.mt.New()
	p = resetTry(func() {
		e1 := proto.UnmarshalOptions{Merge: true, AllowPartial: true}.Unmarshal(append([]byte(nil), b...), m2.Interface())
		e2 := proto.UnmarshalOptions{Merge: true, AllowPartial: true}.Unmarshal(append([]byte(nil), b...), fresh2.Interface())
		if e1 == nil && e2 == nil {
			d1, d2 = resetDumpS(m2)+HexB(resetDet(m2)), resetDumpS(fresh2)+HexB(resetDet(fresh2))
		} else {
			d1, d2 = resetErrClass(e1), resetErrClass(e2)
		}
	})
	if p != "" {
		if err1 == nil {
			c.PropFail("C15", "merge into a reset message panicked: "+p, h.desc()...)
		}
	} else if d1 != d2 {
		c.PropFail("C15", "merge into a reset message differs from merge into a new one", append(h.desc(), d1, d2)...)
	}
}

// ---------------------------------------------------------------- corpus + driver

func resetFirst(rt *resetTyp, cls ...string) *resetFld {
	for _, k := range cls {
		if fs := rt.byCls[k]; len(fs) > 0 {
			return fs[0]
		}
	}
	return nil
}

func resetFieldItem(rt *resetTyp, f *resetFld, nz bool, cnt int, seed uint64) resetItem {
	it := resetItem{kind: 'f', f: f, nz: nz, cnt: cnt, seed: seed}
	if (f.fd.IsList() || f.fd.IsMap()) && cnt == 0 {
		it.cnt = 1
	}
	resetWireItem(rt, &it)
	return it
}

func resetWireOp(rt *resetTyp, kind string, items []resetItem, fail, fkind int, ff *resetFld) *resetOp {
	o := &resetOp{kind: kind, items: items, fail: fail, fkind: fkind, ff: ff}
	if fkind == 6 && rt.utf8 == nil {
		o.fkind = 3
	}
	resetBuildWire(rt, o)
	return o
}

// resetCorpus: the boundary histories, instantiated on every corpus type.
func resetCorpus(rt *resetTyp) []*resetHist {
	var hs []*resetHist
	msg := resetFirst(rt, "ml", "m")
	sc := resetFirst(rt, "sp", "si")
	lst := resetFirst(rt, "lo", "l")
	mp := resetFirst(rt, "mp")
	one := resetFirst(rt, "o")
	add := func(final *resetOp, ops ...*resetOp) {
		var os []*resetOp
		for _, o := range ops {
			if o != nil {
				os = append(os, o)
			}
		}
		hs = append(hs, &resetHist{rt: rt, ops: os, final: final})
	}
	empty := resetWireOp(rt, "un", nil, -1, 0, nil)
	unk := &resetOp{kind: "unk", raw: resetRawUnknown(rt, 7)}
	fo := func(kind string, f *resetFld) *resetOp {
		if f == nil {
			return nil
		}
		return &resetOp{kind: kind, f: f, nz: true, cnt: 2, seed: 11}
	}
	// unknown + size cache + reset
	add(empty, unk, &resetOp{kind: "size"}, &resetOp{kind: "rst"}, unk)
	if msg != nil {
		one1 := []resetItem{resetFieldItem(rt, msg, true, 0, 3)}
		var two []resetItem
		two = append(two, one1...)
		if sc != nil {
			two = append(two, resetFieldItem(rt, sc, true, 0, 4))
		}
		// (lazy) decode, clear by reflection, failing merge-decode after the message field, then decode again
		for fk := 0; fk < 7; fk++ {
			var ff *resetFld
			if fk == 5 {
				if len(rt.msgFlds) == 0 {
					continue
				}
				ff = rt.msgFlds[0]
			}
			add(resetWireOp(rt, "un", two, -1, 0, nil),
				resetWireOp(rt, "um", one1, -1, 0, nil), fo("clr", msg), resetWireOp(rt, "um", two, 1, fk, ff))
			add(resetWireOp(rt, "un", two, 2, fk, ff),
				resetWireOp(rt, "um", two, 0, fk, ff), &resetOp{kind: "size"})
		}
		add(resetWireOp(rt, "un", one1, -1, 0, nil),
			resetWireOp(rt, "um", one1, -1, 0, nil), &resetOp{kind: "touch"}, fo("mut", msg), resetWireOp(rt, "um", one1, -1, 0, nil), &resetOp{kind: "dmar"})
		add(empty, fo("mut", msg), fo("clr", msg), fo("set", msg))
	}
	if lst != nil {
		add(empty, fo("set", lst), fo("clr", lst))
		add(empty, fo("mut", lst), fo("app", lst), fo("trn", lst))
		add(resetWireOp(rt, "un", []resetItem{resetFieldItem(rt, lst, true, 2, 5)}, -1, 0, nil), fo("app", lst), fo("app", lst))
	}
	if mp != nil {
		add(empty, fo("mut", mp), fo("app", mp), fo("clr", mp))
	}
	if one != nil {
		fs := rt.byCls["o"]
		other := fs[len(fs)-1]
		add(resetWireOp(rt, "un", []resetItem{resetFieldItem(rt, one, false, 0, 6)}, -1, 0, nil),
			fo("set", one), fo("set", other), fo("clr", one), resetWireOp(rt, "um", []resetItem{resetFieldItem(rt, one, true, 0, 8), resetFieldItem(rt, other, true, 0, 9)}, -1, 0, nil))
	}
	if sc != nil {
		add(resetWireOp(rt, "un", []resetItem{resetFieldItem(rt, sc, false, 0, 6)}, -1, 0, nil),
			&resetOp{kind: "set", f: sc, nz: resetSet(rt.mt.New(), sc, false, 0, 1), seed: 1}, fo("set", sc), fo("clr", sc))
	}
	if len(rt.exts) > 0 {
		for x := range rt.exts {
			xd := rt.exts[x].TypeDescriptor()
			if x > 40 && !(xd.IsList() || xd.Message() != nil) {
				continue
			}
			cnt := 0
			if xd.IsList() {
				cnt = 2
			}
			xi := resetItem{kind: 'x', x: x, cnt: cnt, seed: 21}
			if xd.IsList() {
				xi.cnt = 2
			}
			resetWireItem(rt, &xi)
			add(resetWireOp(rt, "un", []resetItem{xi}, -1, 0, nil),
				&resetOp{kind: "xset", x: x, cnt: 0, seed: 22}, &resetOp{kind: "size"})
			add(empty, resetWireOp(rt, "um", []resetItem{xi}, -1, 0, nil), &resetOp{kind: "xclr", x: x}, resetWireOp(rt, "um", []resetItem{xi, xi}, 1, 2, nil))
			add(empty, resetWireOp(rt, "um", []resetItem{xi}, -1, 0, nil), &resetOp{kind: "touch"}, &resetOp{kind: "mrg", items: []resetItem{xi}})
		}
	}
	return hs
}

func famReset(c *Ctx) {
	resetInitTypes()
	// (a) boundary corpus
	for _, rt := range resetTypes {
		for _, h := range resetCorpus(rt) {
			resetRun(c, h)
			c.Stat("corpus_histories")
		}
	}
	// (b) generated histories
	for i := 0; i < c.N; i++ {
		rt := resetTypes[c.Intn(len(resetTypes))]
		h := &resetHist{rt: rt}
		k := 1 + c.Intn(12)
		for j := 0; j < k; j++ {
			h.ops = append(h.ops, resetGenOp(c, rt))
		}
		h.final = &resetOp{kind: "un"}
		resetGenWire(c, rt, h.final, c.Intn(4) == 0)
		resetRun(c, h)
		c.Stat("generated_histories")
	}
}
