//go:build verif

package main

// family "textrt" (C24): prototext round-trips every message with valid content.
//
// P lines: Unmarshal(Marshal_opts(m)) is not Equal (bit-for-bit floats, all NaNs equal) to the binary
// copy of m with unknown fields removed -- for every combination of Multiline / Indent / EmitASCII;
// Marshal fails for valid content / succeeds for invalid content (invalid UTF-8 in a validated string).
// The float32 sweeps of C24 live in family textdv (fam_textdv.go, P lines tagged C24).
//
// Case lines (model-compared, see ocaml/fam_textrt.ml):
//
//	schema <id> <schema+name tokens>                       | ok
//	enc <id> <opts bits> <value dump> T <impl text tree>   | ok       (model tree matches)
//	enc <id> <opts bits> <value dump> X                    | err utf8
//	dec <id> <text tree>                                   | ok <value dump>  or  err
//
// opts bits: 1 Multiline, 2 Indent, 4 EmitASCII.

import (
	"fmt"
	"math"
	"math/big"
	"strconv"
	"strings"
	"unicode/utf8"

	"google.golang.org/protobuf/encoding/prototext"
	"google.golang.org/protobuf/internal/strs"
	"google.golang.org/protobuf/proto"
	"google.golang.org/protobuf/reflect/protoreflect"
)

func init() { Register("textrt", famTextrt) }

func textrtOpts(bits int) prototext.MarshalOptions {
	o := prototext.MarshalOptions{AllowPartial: true}
	o.Multiline = bits&1 != 0
	if bits&2 != 0 {
		o.Indent = " \t"
	}
	o.EmitASCII = bits&4 != 0
	return o
}

// ---------------------------------------------------------------- tiny reference reader

type textrtReader struct {
	b   []byte
	i   int
	out []string
}

func (r *textrtReader) ws() {
	for r.i < len(r.b) && (r.b[r.i] == ' ' || r.b[r.i] == '\n' || r.b[r.i] == '\t' || r.b[r.i] == '\r') {
		r.i++
	}
}

func textrtHexVal(c byte) (int, bool) {
	switch {
	case c >= '0' && c <= '9':
		return int(c - '0'), true
	case c >= 'a' && c <= 'f':
		return int(c-'a') + 10, true
	case c >= 'A' && c <= 'F':
		return int(c-'A') + 10, true
	}
	return 0, false
}

// str reads a double-quoted literal as the encoder writes it: \" \\ \n \r \t \xHH \uHHHH \UHHHHHHHH.
func (r *textrtReader) str() ([]byte, error) {
	r.i++ // opening quote
	var out []byte
	for {
		if r.i >= len(r.b) {
			return nil, fmt.Errorf("unterminated string")
		}
		c := r.b[r.i]
		switch {
		case c == '"':
			r.i++
			return out, nil
		case c == '\\':
			if r.i+1 >= len(r.b) {
				return nil, fmt.Errorf("dangling escape")
			}
			e := r.b[r.i+1]
			r.i += 2
			hex := func(n int) (rune, error) {
				if r.i+n > len(r.b) {
					return 0, fmt.Errorf("short escape")
				}
				v := 0
				for k := 0; k < n; k++ {
					d, ok := textrtHexVal(r.b[r.i+k])
					if !ok {
						return 0, fmt.Errorf("bad hex digit")
					}
					v = v*16 + d
				}
				r.i += n
				return rune(v), nil
			}
			switch e {
			case '"', '\\':
				out = append(out, e)
			case 'n':
				out = append(out, '\n')
			case 'r':
				out = append(out, '\r')
			case 't':
				out = append(out, '\t')
			case 'x':
				v, err := hex(2)
				if err != nil {
					return nil, err
				}
				out = append(out, byte(v))
			case 'u':
				v, err := hex(4)
				if err != nil {
					return nil, err
				}
				out = utf8.AppendRune(out, v)
			case 'U':
				v, err := hex(8)
				if err != nil {
					return nil, err
				}
				out = utf8.AppendRune(out, v)
			default:
				return nil, fmt.Errorf("unexpected escape \\%c", e)
			}
		default:
			out = append(out, c)
			r.i++
		}
	}
}

func textrtLitToken(s string) []string {
	iv := "-"
	digits := s
	if strings.HasPrefix(digits, "-") {
		digits = digits[1:]
	}
	isInt := len(digits) > 0
	for i := 0; i < len(digits); i++ {
		if digits[i] < '0' || digits[i] > '9' {
			isInt = false
		}
	}
	if isInt {
		z, _ := new(big.Int).SetString(s, 10)
		if z.Sign() < 0 {
			iv = "-" + new(big.Int).Neg(z).Text(16)
		} else {
			iv = z.Text(16)
		}
	}
	// strconv.ParseFloat at both sizes; a range error still yields the (infinite) value, as Token.Float32/64 accept it
	ann := func(bits int) string {
		f, err := strconv.ParseFloat(s, bits)
		if err != nil {
			if ne, ok := err.(*strconv.NumError); !ok || ne.Err != strconv.ErrRange {
				return "-"
			}
		}
		if s == "nan" || strings.HasSuffix(s, "inf") || strings.HasSuffix(s, "infinity") {
			return "-"
		}
		if bits == 32 {
			return HexN(uint64(math.Float32bits(float32(f))))
		}
		return HexN(math.Float64bits(f))
	}
	return []string{"L", HexB([]byte(s)), iv, ann(64), ann(32)}
}

// msg reads fields up to the closing brace (top = up to the end of input).
func (r *textrtReader) msg(top bool) error {
	at := len(r.out)
	r.out = append(r.out, "M", "")
	n := 0
	for {
		r.ws()
		if r.i >= len(r.b) {
			if !top {
				return fmt.Errorf("missing }")
			}
			break
		}
		if r.b[r.i] == '}' {
			if top {
				return fmt.Errorf("unexpected }")
			}
			r.i++
			break
		}
		// name
		start := r.i
		if r.b[r.i] == '[' {
			for r.i < len(r.b) && r.b[r.i] != ']' {
				r.i++
			}
			if r.i >= len(r.b) {
				return fmt.Errorf("missing ]")
			}
			r.i++
		} else {
			for r.i < len(r.b) && r.b[r.i] != ':' {
				c := r.b[r.i]
				if !(c == '_' || c >= '0' && c <= '9' || c >= 'a' && c <= 'z' || c >= 'A' && c <= 'Z') {
					return fmt.Errorf("bad name character %q", c)
				}
				r.i++
			}
		}
		name := r.b[start:r.i]
		if r.i >= len(r.b) || r.b[r.i] != ':' || len(name) == 0 {
			return fmt.Errorf("missing :")
		}
		r.i++
		r.out = append(r.out, HexB(name))
		r.ws()
		if r.i >= len(r.b) {
			return fmt.Errorf("missing value")
		}
		switch c := r.b[r.i]; {
		case c == '{':
			r.i++
			if err := r.msg(false); err != nil {
				return err
			}
		case c == '"':
			s, err := r.str()
			if err != nil {
				return err
			}
			r.out = append(r.out, "S", HexB(s))
		default:
			st := r.i
			for r.i < len(r.b) && !strings.ContainsRune(" \n\t\r}{\"", rune(r.b[r.i])) {
				r.i++
			}
			if st == r.i {
				return fmt.Errorf("empty literal")
			}
			r.out = append(r.out, textrtLitToken(string(r.b[st:r.i]))...)
		}
		n++
	}
	r.out[at+1] = strconv.Itoa(n)
	return nil
}

// textrtTree parses the encoder's output into tree tokens:
//
//	M <n> (<name xhex> <value>)...     value = M ... | S <xbytes> | L <xraw> <int or -> <f64 or -> <f32 or ->
func textrtTree(b []byte) ([]string, error) {
	r := &textrtReader{b: b}
	if err := r.msg(true); err != nil {
		return nil, err
	}
	return r.out, nil
}

// ---------------------------------------------------------------- classification

func textrtURLOK(url string) bool {
	// what the text lexer accepts between [ and ] as a type URL and returns unchanged
	name := url
	if i := strings.LastIndexByte(url, '/'); i >= 0 {
		name = url[i+1:]
		if i > 0 && url[0] == '/' {
			return false
		}
	}
	for i := 0; i < len(url); i++ {
		c := url[i]
		switch {
		case c == '/' || c == '-' || c == '_' || c >= '0' && c <= '9' || c >= 'a' && c <= 'z' || c >= 'A' && c <= 'Z':
		case strings.IndexByte(".~!$&()*+,;=", c) >= 0:
		case c == '%':
			if i+2 >= len(url) {
				return false
			}
			if _, ok := textrtHexVal(url[i+1]); !ok {
				return false
			}
			if _, ok := textrtHexVal(url[i+2]); !ok {
				return false
			}
		default:
			return false
		}
	}
	for _, part := range strings.Split(name, ".") {
		if part == "" {
			return false
		}
	}
	for i := 0; i < len(name); i++ {
		if c := name[i]; c == '%' || (c != '.' && strings.IndexByte("~!$&()*+,;=", c) >= 0) {
			return false
		}
	}
	return true
}

// textrtMarshalable: does the text encoder accept the content of m (no invalid UTF-8 in a
// validated string, outside Any values that fall back to the unexpanded form)?
func textrtUnrep(m protoreflect.Message) (reason string, lossy string, urlBad bool) {
	rtWalk(m, func(x protoreflect.Message) bool {
		if rtWkt(x.Descriptor()) == "Any" {
			em, _ := rtResolveAny(x)
			if em == nil {
				return true // printed as an ordinary message
			}
			r2, l2, u2 := textrtUnrep(em)
			if r2 != "" {
				return true // expansion fails, printed as an ordinary message
			}
			if u2 {
				urlBad = true
			}
			// urlBad (finding FWD1) is tracked separately from the other reasons that make a value lossy
			if l2 != "" {
				lossy = l2
			}
			if !rtAnyCanonical(x, em) {
				lossy = "any_noncanonical"
			}
			if !textrtURLOK(x.Get(rtField(x, 1)).String()) {
				urlBad = true
			}
			return false
		}
		x.Range(func(fd protoreflect.FieldDescriptor, v protoreflect.Value) bool {
			chk := func(fd protoreflect.FieldDescriptor, v protoreflect.Value) {
				if fd.Kind() == protoreflect.StringKind && strs.EnforceUTF8(fd) && !utf8.ValidString(v.String()) {
					reason = "utf8"
				}
			}
			switch {
			case fd.IsMap():
				v.Map().Range(func(k protoreflect.MapKey, mv protoreflect.Value) bool {
					chk(fd.MapKey(), k.Value())
					chk(fd.MapValue(), mv)
					return true
				})
			case fd.IsList():
				for i := 0; i < v.List().Len(); i++ {
					chk(fd, v.List().Get(i))
				}
			default:
				chk(fd, v)
			}
			return true
		})
		return true
	})
	return
}

// ---------------------------------------------------------------- one message

type textrtCfg struct {
	emitC bool
}

func textrtOne(c *Ctx, t *rtTarget, m protoreflect.Message, cfg textrtCfg) {
	what := jsonrtDescribe(t)
	defer func() {
		if r := recover(); r != nil {
			c.PropFail("C24", fmt.Sprintf("panic (%s): %v", what, r))
		}
	}()
	reason, lossy, urlBad := textrtUnrep(m)
	if reason != "" {
		urlBad = false // Marshal fails before anything is expanded
	}
	exp := rtBinaryCopyStripped(t, m)
	if exp == nil && reason == "" {
		c.PropFail("C24", "content has no binary encoding but is classified valid: "+what)
		return
	}
	if c.Intn(3) == 0 {
		rtAddUnknown(c, m)
		c.Stat("with_unknown")
	}
	switch {
	case reason != "":
		c.Stat("invalid_" + reason)
	case lossy != "":
		c.Stat("lossy_" + lossy)
	case urlBad:
		c.Stat("lossy_any_url")
	default:
		c.Stat("valid")
	}
	var val []string
	var id string
	if cfg.emitC {
		var extra []protoreflect.MessageDescriptor
		rtAnyTypes(m, map[protoreflect.FullName]bool{}, &extra)
		id = rtSchemaOf(c, "textrt", t.md, extra)
		val = msgDump(m)
		// the model's validity predicate (hypothesis of the round-trip theorem) and its FWD1 exclusion
		// against the harness's independent classification
		cls := "v"
		switch {
		case reason != "":
			cls = "nv"
		case lossy != "":
			cls = "nv"
		case urlBad:
			cls = "fwd1"
		}
		c.Case("textrt", "cls", append([]string{id}, val...), []string{cls})
	}
	for bits := 0; bits < 8; bits++ {
		mo := textrtOpts(bits)
		ob := strconv.Itoa(bits)
		b, err := mo.Marshal(m.Interface())
		if err != nil {
			c.Stat("marshal_err")
			if reason == "" {
				c.PropFail("C24", "Marshal fails for valid content: "+err.Error()+" "+what+" opts="+ob, HexB(rtBinary(m)))
			} else if !strings.Contains(err.Error(), "invalid UTF-8") {
				c.PropFail("C24", "Marshal fails with an unexpected error: "+err.Error()+" "+what)
			}
			if cfg.emitC {
				c.Case("textrt", "enc", append(append([]string{id, ob}, val...), "X"), []string{"err", "utf8"})
			}
			continue
		}
		c.Stat("marshal_ok")
		if reason != "" {
			c.PropFail("C24", "Marshal succeeds for invalid content ("+reason+"): "+what+" opts="+ob, HexB(b))
			continue
		}
		tree, terr := textrtTree(b)
		if terr != nil {
			c.PropFail("C24", "Marshal output is not read by the reference reader: "+terr.Error()+" "+what+" opts="+ob, HexB(b))
			continue
		}
		if cfg.emitC {
			c.Case("textrt", "enc", append(append(append([]string{id, ob}, val...), "T"), tree...), []string{"ok"})
		}
		m2 := t.new()
		err = prototext.UnmarshalOptions{AllowPartial: true}.Unmarshal(b, m2.Interface())
		if err != nil {
			if urlBad {
				c.Known("FWD1", "C24", "expanded Any whose type URL has characters outside the text lexer's URL alphabet does not parse back")
				c.Stat("known_FWD1")
				continue
			}
			c.PropFail("C24", "Unmarshal(Marshal(m)) fails: "+err.Error()+" "+what+" opts="+ob, HexB(b))
			continue
		}
		if cfg.emitC && (bits == 0 || c.Intn(4) == 0) {
			c.Case("textrt", "dec", append([]string{id}, tree...), append([]string{"ok"}, msgDump(m2)...))
		}
		if urlBad {
			if lossy == "" && !proto.Equal(exp.Interface(), m2.Interface()) {
				c.Known("FWD1", "C24", "expanded Any whose type URL has characters outside the text lexer's URL alphabet changes in a round trip")
				c.Stat("known_FWD1")
			}
			continue
		}
		if lossy != "" {
			continue
		}
		if proto.Equal(exp.Interface(), m2.Interface()) && rtSameBits(exp, m2) {
			continue
		}
		c.PropFail("C24", "Unmarshal(Marshal(m)) not Equal strip_unknown(m): "+what+" opts="+ob+" diff: "+rtDiff(exp, m2), HexB(b), HexB(rtBinary(m)))
	}
}

func textrtCorpus(c *Ctx, all []*rtTarget, cfg textrtCfg) {
	// historical F7 witnesses (repaired) and boundary floats through a whole message
	if t := jsonrtFind(all, "pb2.Scalars", "gen"); t != nil {
		for _, bits := range []uint32{0x15ae43fd, 0x95ae43fd, 0, 0x80000000, 1, 0x7f7fffff, 0x7f800000, 0xff800000, 0x7fc00000, 0xffc00001, 0x00800000, 0x007fffff} {
			m := t.new()
			m.Set(t.md.Fields().ByName("opt_float"), protoreflect.ValueOfFloat32(math.Float32frombits(bits)))
			m.Set(t.md.Fields().ByName("opt_double"), protoreflect.ValueOfFloat64(float64(math.Float32frombits(bits))))
			textrtOne(c, t, m, cfg)
		}
	} else {
		c.PropFail("C24", "corpus type not linked: pb2.Scalars")
	}
	// FWD1 witness: an Any whose type URL uses a scheme ("https://...") expands to [https://...]
	if t := jsonrtFind(all, "google.protobuf.Any", "gen"); t != nil {
		for _, url := range []string{"https://example.com/pb2.Nested", "type.googleapis.com /pb2.Nested", "a#b/pb2.Nested", "//x/pb2.Nested"} {
			m := t.new()
			m.Set(rtField(m, 1), protoreflect.ValueOfString(url))
			m.Set(rtField(m, 2), protoreflect.ValueOfBytes([]byte{0x0a, 0x01, 'x'}))
			before := c.stats["known_FWD1"]
			textrtOne(c, t, m, cfg)
			if c.stats["known_FWD1"] == before {
				c.Stat("FWD1_witness_passes")
			}
		}
	}
}

func famTextrt(c *Ctx) {
	cfg := textrtCfg{emitC: true}
	nrnd := c.N / 40
	if nrnd < 4 {
		nrnd = 4
	}
	all, heavy, rnd := rtTargets(c, nrnd)
	c.StatN("linked_targets", len(all))
	textrtCorpus(c, all, cfg)
	pool := rtAnyPool()
	run := func(t *rtTarget) {
		var m protoreflect.Message
		func() {
			defer func() {
				if r := recover(); r != nil {
					c.Stat("fill_panic")
					c.Sample(fmt.Sprintf("fill panic %s: %v", jsonrtDescribe(t), r))
					m = nil
				}
			}()
			m = t.new()
			budget := 60 + c.Intn(200)
			o := rtFillOpts{budget: &budget, unrep: c.Intn(3) == 0, unknown: false, dense: c.Intn(8) == 0, anyPool: pool}
			if c.Intn(12) != 0 {
				rtFill(c, m, 1+c.Intn(3), o)
			}
		}()
		if m == nil {
			return
		}
		c.Stat("fl_" + t.name)
		textrtOne(c, t, m, cfg)
	}
	spent := 0
	start := c.Intn(len(all))
	for i := 0; i < len(all) && spent < c.N/3; i++ {
		run(all[(start+i)%len(all)])
		spent++
	}
	for spent < c.N {
		run(rtPick(c, all, heavy, rnd))
		spent++
	}
}
