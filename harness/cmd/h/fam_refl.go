//go:build verif

package main

// family "refl": C28 (the reflection API follows the protoreflect contract).
//
// A history of up to 40 protoreflect operations is generated against the LIVE message (so that
// list indexes, map keys and paths into sub-messages mostly exist), executed on one flavour
// (open / hybrid / opaque generated type, or dynamicpb of the same descriptor, or dynamicpb of a
// random schema) and every result is written down.  The Coq model (Msg/ReflectModel.v: the
// abstract message of the codec model with the contract's operations) recomputes all results.
//
// Case lines
//	defs <id> <ntypes> { T<k> { <num> <d|e> <scalar tok> }*k }        | ok
//	     explicit defaults ("d") and first enum values ("e") per message type of schema <id>
//	ops <id> <flavour> <init value> <nops> <op>...                    | { <result> ; }...
//	op     = <code> <r|w> <pathlen> { F <num> | L <num> <idx> | M <num> <key> }* <args>
//	         (r: the focused sub-message is reached with Get, w: with Mutable)
//	result = s <dump of the whole message>   after a mutating operation
//	         h0|h1  n<hex>  v<valid> <n> <val>*  o0 | o1 <val>  u<bytes>  p (panic)
//
// P lines (the contract evaluated on the implementation alone, after every operation): Get of an
// unpopulated field is not the default / not an empty read-only composite; Range visits a field
// twice, visits an unpopulated field or misses a populated one; two members of a oneof
// populated, WhichOneof inconsistent with Has; a write through a read-only empty composite does
// not panic; list and map post-conditions (Len after Append/Truncate/Set/Clear, Get after Set).

import (
	"fmt"
	"reflect"
	"sort"
	"strconv"
	"strings"

	"google.golang.org/protobuf/proto"
	"google.golang.org/protobuf/reflect/protoreflect"
	"google.golang.org/protobuf/types/dynamicpb"

	lazypb "google.golang.org/protobuf/internal/testprotos/lazy"
	lazyhybridpb "google.golang.org/protobuf/internal/testprotos/lazy/lazy_hybrid"
	lazyopaquepb "google.golang.org/protobuf/internal/testprotos/lazy/lazy_opaque"
	testpb "google.golang.org/protobuf/internal/testprotos/test"
	test3pb "google.golang.org/protobuf/internal/testprotos/test3"
	test3hybridpb "google.golang.org/protobuf/internal/testprotos/test3/test3_hybrid"
	test3opaquepb "google.golang.org/protobuf/internal/testprotos/test3/test3_opaque"
	testeditionspb "google.golang.org/protobuf/internal/testprotos/testeditions"
	testedhybridpb "google.golang.org/protobuf/internal/testprotos/testeditions/testeditions_hybrid"
	testedopaquepb "google.golang.org/protobuf/internal/testprotos/testeditions/testeditions_opaque"
)

func init() { Register("refl", famRefl) }

// ---------------------------------------------------------------- flavours

type reflFlavour struct {
	name string // flavour label: open hybrid opaque legacy dyn
	md   protoreflect.MessageDescriptor
	new  func() protoreflect.Message
}

// reflGoFlavour classifies a generated message type by the protogen tag of its first field.
func reflGoFlavour(mt protoreflect.MessageType) string {
	t := reflect.TypeOf(mt.New().Interface())
	if t.Kind() == reflect.Ptr && t.Elem().Kind() == reflect.Struct && t.Elem().NumField() > 0 {
		tag := t.Elem().Field(0).Tag.Get("protogen")
		switch {
		case strings.HasPrefix(tag, "opaque."):
			return "opaque"
		case strings.HasPrefix(tag, "hybrid."):
			return "hybrid"
		case strings.HasPrefix(tag, "open."):
			return "open"
		}
	}
	return "open0" // generated before the protogen tag existed: open structs
}

func reflGen(mt protoreflect.MessageType) reflFlavour {
	return reflFlavour{reflGoFlavour(mt), mt.Descriptor(), func() protoreflect.Message { return mt.New() }}
}
func reflDyn(md protoreflect.MessageDescriptor) reflFlavour {
	return reflFlavour{"dyn", md, func() protoreflect.Message { return dynamicpb.NewMessage(md) }}
}

func reflCoreTypes() []protoreflect.MessageType {
	ms := []proto.Message{
		(*testpb.TestAllTypes)(nil), (*testpb.TestAllExtensions)(nil), (*testpb.TestRequired)(nil),
		(*test3pb.TestAllTypes)(nil), (*test3hybridpb.TestAllTypes)(nil), (*test3opaquepb.TestAllTypes)(nil),
		(*testeditionspb.TestAllTypes)(nil), (*testedhybridpb.TestAllTypes)(nil), (*testedopaquepb.TestAllTypes)(nil),
		(*testeditionspb.TestAllExtensions)(nil), (*testedhybridpb.TestAllExtensions)(nil), (*testedopaquepb.TestAllExtensions)(nil),
		(*lazypb.Node)(nil), (*lazyhybridpb.Node)(nil), (*lazyopaquepb.Node)(nil),
		(*lazypb.Holder)(nil), (*lazypb.Top)(nil), (*lazypb.FTop)(nil),
	}
	var out []protoreflect.MessageType
	for _, m := range ms {
		out = append(out, m.ProtoReflect().Type())
	}
	return out
}

// ---------------------------------------------------------------- descriptors

var reflFieldsCache = map[protoreflect.MessageDescriptor][]protoreflect.FieldDescriptor{}
var reflDynFieldsCache = map[protoreflect.MessageDescriptor][]protoreflect.FieldDescriptor{}

// reflFields returns the declared fields followed by the registered (generated) extensions.
func reflFields(md protoreflect.MessageDescriptor) []protoreflect.FieldDescriptor {
	if fs, ok := reflFieldsCache[md]; ok {
		return fs
	}
	var fs []protoreflect.FieldDescriptor
	fds := md.Fields()
	for i := 0; i < fds.Len(); i++ {
		fs = append(fs, fds.Get(i))
	}
	for _, xd := range msgExtensionsOf(md) {
		fs = append(fs, xd)
	}
	reflFieldsCache[md] = fs
	return fs
}

// reflFieldsM returns the fields and extensions to use with message m: dynamicpb identifies an
// extension by the identity of its descriptor, and the shared fillers populate dynamicpb messages
// with dynamicpb extension types (msgDynTypes), so a dynamicpb message is addressed with those.
func reflFieldsM(m protoreflect.Message) []protoreflect.FieldDescriptor {
	md := m.Descriptor()
	if _, isDyn := m.(*dynamicpb.Message); !isDyn {
		return reflFields(md)
	}
	if fs, ok := reflDynFieldsCache[md]; ok {
		return fs
	}
	var fs []protoreflect.FieldDescriptor
	fds := md.Fields()
	for i := 0; i < fds.Len(); i++ {
		fs = append(fs, fds.Get(i))
	}
	for _, xd := range msgExtensionsOf(md) {
		if xt, err := msgDynTypes().FindExtensionByNumber(md.FullName(), xd.Number()); err == nil {
			fs = append(fs, xt.TypeDescriptor())
		}
	}
	reflDynFieldsCache[md] = fs
	return fs
}

func reflIsMsg(fd protoreflect.FieldDescriptor) bool {
	return fd.Message() != nil && !fd.IsMap() && !fd.IsList()
}

// reflDefault is the contract's default of a singular scalar field, from the descriptor.
func reflDefault(fd protoreflect.FieldDescriptor) protoreflect.Value {
	if fd.Kind() == protoreflect.BytesKind {
		return protoreflect.ValueOfBytes(fd.Default().Bytes())
	}
	return fd.Default()
}

// reflElemZero is the contract's NewElement / NewValue of a scalar kind.
func reflElemZero(fd protoreflect.FieldDescriptor) protoreflect.Value {
	switch fd.Kind() {
	case protoreflect.BoolKind:
		return protoreflect.ValueOfBool(false)
	case protoreflect.EnumKind:
		return protoreflect.ValueOfEnum(fd.Enum().Values().Get(0).Number())
	case protoreflect.Int32Kind, protoreflect.Sint32Kind, protoreflect.Sfixed32Kind:
		return protoreflect.ValueOfInt32(0)
	case protoreflect.Uint32Kind, protoreflect.Fixed32Kind:
		return protoreflect.ValueOfUint32(0)
	case protoreflect.Int64Kind, protoreflect.Sint64Kind, protoreflect.Sfixed64Kind:
		return protoreflect.ValueOfInt64(0)
	case protoreflect.Uint64Kind, protoreflect.Fixed64Kind:
		return protoreflect.ValueOfUint64(0)
	case protoreflect.FloatKind:
		return protoreflect.ValueOfFloat32(0)
	case protoreflect.DoubleKind:
		return protoreflect.ValueOfFloat64(0)
	case protoreflect.StringKind:
		return protoreflect.ValueOfString("")
	case protoreflect.BytesKind:
		return protoreflect.ValueOfBytes(nil)
	}
	panic("reflElemZero")
}

var reflDefsDone = map[string]bool{}

// reflSchemaOf emits the schema (family msg) and the defaults table (family refl) once.
func reflSchemaOf(c *Ctx, md protoreflect.MessageDescriptor) string {
	id := msgSchemaOf(c, md)
	if reflDefsDone[id] {
		return id
	}
	reflDefsDone[id] = true
	idx := map[protoreflect.FullName]int{}
	var list []protoreflect.MessageDescriptor
	msgCollect(md, idx, &list)
	toks := []string{id, strconv.Itoa(len(list))}
	for _, d := range list {
		var ft []string
		n := 0
		for _, fd := range reflFields(d) {
			vfd := fd
			if fd.IsMap() {
				vfd = fd.MapValue()
			}
			if vfd.Kind() == protoreflect.EnumKind {
				ft = append(ft, HexN(uint64(fd.Number())), "e", "z"+HexZ(int64(vfd.Enum().Values().Get(0).Number())))
				n++
			}
			if fd.IsMap() || fd.IsList() || fd.Message() != nil {
				continue
			}
			dv := reflDefault(fd)
			if msgScalarToken(fd, dv) != msgScalarToken(fd, reflElemZeroNonEnum(fd)) {
				ft = append(ft, HexN(uint64(fd.Number())), "d", msgScalarToken(fd, dv))
				n++
			}
		}
		toks = append(toks, "T"+strconv.Itoa(n))
		toks = append(toks, ft...)
	}
	c.Case("refl", "defs", toks, []string{"ok"})
	return id
}

// reflElemZeroNonEnum: the zero of the kind (enum: number 0).
func reflElemZeroNonEnum(fd protoreflect.FieldDescriptor) protoreflect.Value {
	if fd.Kind() == protoreflect.EnumKind {
		return protoreflect.ValueOfEnum(0)
	}
	return reflElemZero(fd)
}

// ---------------------------------------------------------------- tokens

func reflPanics(f func()) (p bool) {
	defer func() {
		if r := recover(); r != nil {
			p = true
		}
	}()
	f()
	return false
}

func reflSortedKeys(mp protoreflect.Map) []protoreflect.MapKey {
	var keys []protoreflect.MapKey
	mp.Range(func(k protoreflect.MapKey, _ protoreflect.Value) bool { keys = append(keys, k); return true })
	sort.Slice(keys, func(i, j int) bool { return msgKeyLess(keys[i], keys[j]) })
	return keys
}

// reflValueToks renders a field value as  v<valid> <n> <val>*.
// valid < 0: take the validity of the composite itself.
func reflValueToks(fd protoreflect.FieldDescriptor, v protoreflect.Value, valid int) []string {
	flag := func(b bool) string {
		if valid >= 0 {
			b = valid == 1
		}
		return "v" + Tok(b)
	}
	switch {
	case fd.IsMap():
		mp := v.Map()
		keys := reflSortedKeys(mp)
		toks := []string{flag(mp.IsValid()), strconv.Itoa(len(keys))}
		for _, k := range keys {
			toks = append(toks, "E", msgScalarToken(fd.MapKey(), k.Value()))
			toks = msgAppendValue(toks, fd.MapValue(), mp.Get(k))
		}
		return toks
	case fd.IsList():
		l := v.List()
		toks := []string{flag(l.IsValid()), strconv.Itoa(l.Len())}
		for i := 0; i < l.Len(); i++ {
			toks = msgAppendValue(toks, fd, l.Get(i))
		}
		return toks
	case fd.Message() != nil:
		return msgAppendDump([]string{flag(v.Message().IsValid()), "1"}, v.Message())
	}
	return []string{"v1", "1", msgScalarToken(fd, v)}
}

// ---------------------------------------------------------------- executor

type reflStep struct {
	kind byte // F L M
	fd   protoreflect.FieldDescriptor
	idx  int
	key  protoreflect.MapKey
}

type reflExec struct {
	c     *Ctx
	fl    reflFlavour
	top   protoreflect.Message
	ops   []string
	res   []string
	nops  int
	stop  bool
	where string
	// start of the last operation in ops / res
	lastOp, lastRes int
}

func (x *reflExec) fail(what string, extra ...string) {
	ops := x.ops
	if len(ops) > 300 {
		ops = append([]string{"..."}, ops[len(ops)-300:]...)
	}
	x.c.PropFail("C28", fmt.Sprintf("%s [%s %s after %s]", what, x.fl.name, x.fl.md.FullName(), x.where), append(extra, ops...)...)
}

func reflPathToks(path []reflStep) []string {
	toks := []string{strconv.Itoa(len(path))}
	for _, st := range path {
		toks = append(toks, string(st.kind), HexN(uint64(st.fd.Number())))
		switch st.kind {
		case 'L':
			toks = append(toks, HexN(uint64(st.idx)))
		case 'M':
			toks = append(toks, msgScalarToken(st.fd.MapKey(), st.key.Value()))
		}
	}
	return toks
}

// navigate reaches the focused sub-message (may panic like the implementation does).
func (x *reflExec) navigate(path []reflStep, write bool) protoreflect.Message {
	cur := x.top
	for _, st := range path {
		var v protoreflect.Value
		if write {
			v = cur.Mutable(st.fd)
		} else {
			v = cur.Get(st.fd)
		}
		switch st.kind {
		case 'F':
			cur = v.Message()
		case 'L':
			cur = v.List().Get(st.idx).Message()
		case 'M':
			cur = v.Map().Get(st.key).Message()
		}
	}
	return cur
}

// run executes one operation: code + navigation + args are recorded, f computes the result
// tokens on the focused message; mutating operations are followed by the dump of the whole message.
func (x *reflExec) run(code string, path []reflStep, write bool, args []string, mutating bool, f func(m protoreflect.Message) []string) (panicked bool) {
	nav := "r"
	if write {
		nav = "w"
	}
	x.lastOp, x.lastRes = len(x.ops), len(x.res)
	x.ops = append(x.ops, code, nav)
	x.ops = append(x.ops, reflPathToks(path)...)
	x.ops = append(x.ops, args...)
	x.nops++
	var out []string
	var cur protoreflect.Message
	panicked = reflPanics(func() {
		cur = x.navigate(path, write)
		out = f(cur)
	})
	switch {
	case panicked:
		x.res = append(x.res, "p")
		if mutating {
			// the navigation (and nothing else) may have populated sub-messages
			x.res = msgAppendDump(append(x.res, "s"), x.top)
		}
	case mutating:
		x.res = msgAppendDump(append(append(x.res, out...), "s"), x.top)
	default:
		x.res = append(x.res, out...)
	}
	x.res = append(x.res, ";")
	x.c.Stat("op_" + code)
	if panicked {
		x.c.Stat("op_panics")
	}
	// the contract's invariants, on the implementation alone
	x.where = code
	reflCheckInvariants(x, x.top)
	if len(path) > 0 && !panicked {
		if !reflPanics(func() { cur = x.navigate(path, false) }) && cur != nil {
			reflCheckInvariants(x, cur)
		}
	}
	return panicked
}

// reflCheckInvariants evaluates the state-independent part of the contract on m.
func reflCheckInvariants(x *reflExec, m protoreflect.Message) {
	md := m.Descriptor()
	seen := map[protoreflect.FieldNumber]int{}
	m.Range(func(fd protoreflect.FieldDescriptor, v protoreflect.Value) bool {
		seen[fd.Number()]++
		if !m.Has(fd) {
			x.fail("Range visits unpopulated field " + string(fd.FullName()))
		} else if strings.Join(reflValueToks(fd, v, 1), " ") != strings.Join(reflValueToks(fd, m.Get(fd), 1), " ") {
			x.fail("Range value differs from Get for " + string(fd.FullName()))
		}
		return true
	})
	for _, fd := range reflFieldsM(m) {
		n := seen[fd.Number()]
		has := m.Has(fd)
		if n > 1 {
			x.fail("Range visits a field twice: " + string(fd.FullName()))
		}
		if has && n == 0 {
			x.fail("Range misses populated field " + string(fd.FullName()))
		}
		if has {
			continue
		}
		v := m.Get(fd)
		switch {
		case fd.IsMap():
			if v.Map().Len() != 0 || v.Map().IsValid() {
				x.fail("Get of unpopulated map is not an empty read-only map: " + string(fd.FullName()))
			}
		case fd.IsList():
			// an extension list that was obtained with Mutable stays allocated (valid, empty)
			if v.List().Len() != 0 || (v.List().IsValid() && !fd.IsExtension()) {
				x.fail("Get of unpopulated list is not an empty read-only list: " + string(fd.FullName()))
			}
		case fd.Message() != nil:
			if v.Message().IsValid() || strings.Join(msgDump(v.Message()), " ") != "M 0 x" {
				x.fail("Get of unpopulated message is not an empty read-only message: " + string(fd.FullName()))
			}
		default:
			if got, want := msgScalarToken(fd, v), msgScalarToken(fd, reflDefault(fd)); got != want {
				x.fail("Get of unpopulated scalar is not the default: "+string(fd.FullName()), got, want)
			}
		}
	}
	ods := md.Oneofs()
	for i := 0; i < ods.Len(); i++ {
		od := ods.Get(i)
		var pop protoreflect.FieldDescriptor
		cnt := 0
		for j := 0; j < od.Fields().Len(); j++ {
			if fd := od.Fields().Get(j); m.Has(fd) {
				cnt++
				pop = fd
			}
		}
		if cnt > 1 {
			x.fail("two members of oneof populated: " + string(od.FullName()))
		}
		w := m.WhichOneof(od)
		if cnt == 1 && (w == nil || w.Number() != pop.Number()) || cnt == 0 && w != nil {
			x.fail("WhichOneof inconsistent with Has: " + string(od.FullName()))
		}
	}
}

// ---------------------------------------------------------------- value generation

// reflSmallFill populates a fresh sub-message with a few values.
func reflSmallFill(c *Ctx, m protoreflect.Message, depth int) {
	budget := 2 + c.Intn(8)
	msgRandomFillOpts(c, m, depth, msgFillOpts{budget: &budget, badUTF8: true, unknown: c.Intn(3) == 0})
}

// reflNewSingular returns a fresh value for one element of fd (a scalar, or a populated new message
// created by mk).
func reflNewSingular(c *Ctx, fd protoreflect.FieldDescriptor, mk func() protoreflect.Value) protoreflect.Value {
	if fd.Message() != nil {
		v := mk()
		if c.Intn(4) != 0 {
			reflSmallFill(c, v.Message(), 1)
		}
		return v
	}
	return msgScalar(c, fd, true)
}

func reflSingularToks(fd protoreflect.FieldDescriptor, v protoreflect.Value) []string {
	return msgAppendValue(nil, fd, v)
}

func reflKeyOf(c *Ctx, fd protoreflect.FieldDescriptor, mp protoreflect.Map) protoreflect.MapKey {
	// an existing key half of the time
	if mp.Len() > 0 && c.Intn(2) == 0 {
		keys := reflSortedKeys(mp)
		return keys[c.Intn(len(keys))]
	}
	if c.Intn(3) == 0 {
		// small key space so that keys collide
		switch fd.MapKey().Kind() {
		case protoreflect.BoolKind:
			return protoreflect.ValueOfBool(c.Bool()).MapKey()
		case protoreflect.StringKind:
			return protoreflect.ValueOfString([]string{"", "a", "b"}[c.Intn(3)]).MapKey()
		case protoreflect.Int32Kind, protoreflect.Sint32Kind, protoreflect.Sfixed32Kind:
			return protoreflect.ValueOfInt32(int32(c.Intn(3)) - 1).MapKey()
		case protoreflect.Int64Kind, protoreflect.Sint64Kind, protoreflect.Sfixed64Kind:
			return protoreflect.ValueOfInt64(int64(c.Intn(3)) - 1).MapKey()
		case protoreflect.Uint32Kind, protoreflect.Fixed32Kind:
			return protoreflect.ValueOfUint32(uint32(c.Intn(3))).MapKey()
		case protoreflect.Uint64Kind, protoreflect.Fixed64Kind:
			return protoreflect.ValueOfUint64(uint64(c.Intn(3))).MapKey()
		}
	}
	return msgScalar(c, fd.MapKey(), true).MapKey()
}

// ---------------------------------------------------------------- operations

func reflNum(fd protoreflect.FieldDescriptor) string { return HexN(uint64(fd.Number())) }

func (x *reflExec) opHas(path []reflStep, w bool, fd protoreflect.FieldDescriptor, viaProto bool) {
	code := "has"
	if viaProto {
		code = "xhas"
	}
	x.run(code, path, w, []string{reflNum(fd)}, false, func(m protoreflect.Message) []string {
		if viaProto {
			return []string{"h" + Tok(proto.HasExtension(m.Interface(), fd.(protoreflect.ExtensionTypeDescriptor).Type()))}
		}
		return []string{"h" + Tok(m.Has(fd))}
	})
}

// validity of the composite returned by Get is part of the contract except for extension lists
// (an allocated empty extension list is returned as it is)
func reflGetValid(fd protoreflect.FieldDescriptor, v protoreflect.Value) int {
	if fd.IsExtension() && fd.IsList() {
		if v.List().Len() > 0 {
			return 1
		}
		return 0
	}
	return -1
}

// reflFWE3Class: an unpopulated message-typed or repeated extension whose type is a dynamicpb
// extension type: its zero value is the read-only empty *dynamicpb.Message / emptyList, which the
// type's own InterfaceOf rejects.
func reflFWE3Class(m protoreflect.Message, fd protoreflect.FieldDescriptor) bool {
	if !fd.IsExtension() || !(reflIsMsg(fd) || fd.IsList()) || m.Has(fd) {
		return false
	}
	xt := fd.(protoreflect.ExtensionTypeDescriptor).Type()
	if !strings.HasPrefix(fmt.Sprintf("%T", xt), "dynamicpb.") {
		return false
	}
	z := xt.Zero()
	if fd.IsList() {
		return !z.List().IsValid()
	}
	return !z.Message().IsValid()
}

func (x *reflExec) opGet(path []reflStep, w bool, fd protoreflect.FieldDescriptor, viaProto bool) {
	code := "get"
	if viaProto {
		code = "xget"
	}
	x.run(code, path, w, []string{reflNum(fd)}, false, func(m protoreflect.Message) []string {
		var v protoreflect.Value
		if viaProto {
			xt := fd.(protoreflect.ExtensionTypeDescriptor).Type()
			if reflFWE3Class(m, fd) {
				// finding FWE3: proto.GetExtension of an unset message-typed extension panics with a
				// dynamicpb extension type (InterfaceOf type-checks the invalid zero message)
				if reflPanics(func() { proto.GetExtension(m.Interface(), xt) }) {
					x.c.Known("FWE3", "C28", "proto.GetExtension of an unpopulated message-typed or repeated extension with a dynamicpb extension type panics")
					x.c.Stat("known_FWE3")
					v = m.Get(fd)
					return reflValueToks(fd, v, reflGetValid(fd, v))
				}
			}
			v = xt.ValueOf(proto.GetExtension(m.Interface(), xt))
		} else {
			v = m.Get(fd)
		}
		return reflValueToks(fd, v, reflGetValid(fd, v))
	})
}

func (x *reflExec) opClear(path []reflStep, fd protoreflect.FieldDescriptor, viaProto bool) {
	code := "clear"
	if viaProto {
		code = "xclr"
	}
	x.run(code, path, true, []string{reflNum(fd)}, true, func(m protoreflect.Message) []string {
		if viaProto {
			proto.ClearExtension(m.Interface(), fd.(protoreflect.ExtensionTypeDescriptor).Type())
		} else {
			m.Clear(fd)
		}
		if m.Has(fd) {
			x.fail("Has after Clear: " + string(fd.FullName()))
		}
		return nil
	})
}

// opSet stores a fresh value (built against the read view cur of the focused message).
func (x *reflExec) opSet(path []reflStep, w bool, cur protoreflect.Message, fd protoreflect.FieldDescriptor, viaProto bool) {
	c := x.c
	var v protoreflect.Value
	var toks []string
	switch {
	case fd.IsMap():
		v = cur.NewField(fd)
		mp := v.Map()
		for n := c.Intn(4); n > 0; n-- {
			mp.Set(reflKeyOf(c, fd, mp), reflNewSingular(c, fd.MapValue(), mp.NewValue))
		}
		toks = reflValueToks(fd, v, 1)[1:]
	case fd.IsList():
		v = cur.NewField(fd)
		l := v.List()
		for n := c.Intn(4); n > 0; n-- {
			l.Append(reflNewSingular(c, fd, l.NewElement))
		}
		toks = reflValueToks(fd, v, 1)[1:]
	default:
		v = reflNewSingular(c, fd, func() protoreflect.Value { return cur.NewField(fd) })
		toks = append([]string{"1"}, reflSingularToks(fd, v)...)
	}
	code := "set"
	if viaProto {
		code = "xset"
	}
	x.run(code, path, w, append([]string{reflNum(fd)}, toks...), true, func(m protoreflect.Message) []string {
		ro := !m.IsValid()
		if viaProto {
			xt := fd.(protoreflect.ExtensionTypeDescriptor).Type()
			proto.SetExtension(m.Interface(), xt, xt.InterfaceOf(v))
		} else {
			m.Set(fd, v)
		}
		if ro {
			x.fail("Set through a read-only empty message does not panic: " + string(fd.FullName()))
		}
		return nil
	})
}

func (x *reflExec) opMutable(path []reflStep, w bool, fd protoreflect.FieldDescriptor) {
	x.run("mut", path, w, []string{reflNum(fd)}, true, func(m protoreflect.Message) []string {
		v := m.Mutable(fd)
		out := reflValueToks(fd, v, -1)
		if reflIsMsg(fd) && !m.Has(fd) {
			x.fail("message field not populated after Mutable: " + string(fd.FullName()))
		}
		return out
	})
}

func (x *reflExec) opNewField(path []reflStep, w bool, fd protoreflect.FieldDescriptor) {
	x.run("newf", path, w, []string{reflNum(fd)}, false, func(m protoreflect.Message) []string {
		return reflValueToks(fd, m.NewField(fd), -1)
	})
}

func (x *reflExec) opWhich(path []reflStep, w bool, od protoreflect.OneofDescriptor) {
	x.run("which", path, w, []string{HexN(uint64(od.Index()))}, false, func(m protoreflect.Message) []string {
		if fd := m.WhichOneof(od); fd != nil {
			return []string{"n" + reflNum(fd)}
		}
		return []string{"n0"}
	})
}

func (x *reflExec) opRange(path []reflStep, w bool) {
	x.run("range", path, w, nil, false, func(m protoreflect.Message) []string {
		return msgAppendDump([]string{"s"}, m)
	})
}

func (x *reflExec) opGetUnknown(path []reflStep, w bool) {
	x.run("getunk", path, w, nil, false, func(m protoreflect.Message) []string {
		return []string{"u" + HexB(m.GetUnknown())}
	})
}

func (x *reflExec) opSetUnknown(path []reflStep, w bool, b []byte) {
	x.run("setunk", path, w, []string{HexB(b)}, true, func(m protoreflect.Message) []string {
		ro := !m.IsValid()
		m.SetUnknown(protoreflect.RawFields(b))
		if ro {
			x.fail("SetUnknown on a read-only empty message does not panic: " + string(m.Descriptor().FullName()))
		}
		return nil
	})
}

// list operations; viaGet: the list is taken from Get (read-only when the field is unpopulated)
func reflListOf(m protoreflect.Message, fd protoreflect.FieldDescriptor, viaGet bool) protoreflect.List {
	if viaGet {
		return m.Get(fd).List()
	}
	return m.Mutable(fd).List()
}
func reflMapOf(m protoreflect.Message, fd protoreflect.FieldDescriptor, viaGet bool) protoreflect.Map {
	if viaGet {
		return m.Get(fd).Map()
	}
	return m.Mutable(fd).Map()
}
func reflVia(viaGet bool) string {
	if viaGet {
		return "g"
	}
	return "m"
}

// reflListArg chooses the index / new length for list operation op on a list of length curLen.
func reflListArg(c *Ctx, op, curLen int) int {
	if op == 4 {
		switch {
		case curLen > 0 && c.Intn(6) != 0:
			return c.Intn(curLen + 1)
		case c.Intn(12) == 0:
			return curLen + 1 + c.Intn(2) // beyond the end: must panic
		}
		return curLen
	}
	if curLen > 0 && c.Intn(8) != 0 {
		return c.Intn(curLen)
	}
	return curLen + c.Intn(2)
}

const (
	reflLLen = iota
	reflLGet
	reflLSet
	reflLAppend
	reflLTruncate
	reflLAppendMutable
	reflLNewElement
)
const (
	reflMLen = iota
	reflMGet
	reflMSet
	reflMClear
	reflMHas
	reflMRange
	reflMMutable
	reflMNewValue
)

func (x *reflExec) opList(path []reflStep, w bool, cur protoreflect.Message, fd protoreflect.FieldDescriptor, viaGet bool, op int, arg int) {
	c := x.c
	idx := func() int { return arg }
	if viaGet && fd.IsExtension() && !cur.Has(fd) && cur.Get(fd).List().IsValid() {
		viaGet = false // an allocated empty extension list is not read-only
	}
	base := []string{reflNum(fd), reflVia(viaGet)}
	switch op {
	case 0:
		x.run("llen", path, w, base, !viaGet, func(m protoreflect.Message) []string {
			return []string{"n" + HexN(uint64(reflListOf(m, fd, viaGet).Len()))}
		})
	case 1:
		i := idx()
		x.run("lget", path, w, append(base, HexN(uint64(i))), !viaGet, func(m protoreflect.Message) []string {
			v := reflListOf(m, fd, viaGet).Get(i)
			return append([]string{"v1", "1"}, reflSingularToks(fd, v)...)
		})
	case 2:
		i := idx()
		v := reflNewSingular(c, fd, func() protoreflect.Value { return cur.NewField(fd).List().NewElement() })
		x.run("lset", path, w, append(append(base, HexN(uint64(i))), reflSingularToks(fd, v)...), true, func(m protoreflect.Message) []string {
			l := reflListOf(m, fd, viaGet)
			l.Set(i, v)
			if got, want := strings.Join(reflSingularToks(fd, l.Get(i)), " "), strings.Join(reflSingularToks(fd, v), " "); got != want {
				x.fail("List.Get after Set differs: " + string(fd.FullName()))
			}
			return nil
		})
	case 3:
		v := reflNewSingular(c, fd, func() protoreflect.Value { return cur.NewField(fd).List().NewElement() })
		x.run("lapp", path, w, append(base, reflSingularToks(fd, v)...), true, func(m protoreflect.Message) []string {
			l := reflListOf(m, fd, viaGet)
			ro := !l.IsValid()
			n := l.Len()
			l.Append(v)
			if ro {
				x.fail("Append through a read-only empty list does not panic: " + string(fd.FullName()))
			}
			if l.Len() != n+1 || !m.Has(fd) {
				x.fail("List.Len/Has after Append: " + string(fd.FullName()))
			}
			return nil
		})
	case 4:
		x.truncate(path, w, fd, viaGet, arg)
	case 5:
		x.run("lappmut", path, w, base, true, func(m protoreflect.Message) []string {
			l := reflListOf(m, fd, viaGet)
			ro := !l.IsValid()
			n := l.Len()
			v := l.AppendMutable()
			if ro {
				x.fail("AppendMutable through a read-only empty list does not panic: " + string(fd.FullName()))
			}
			if l.Len() != n+1 || !v.Message().IsValid() || strings.Join(msgDump(v.Message()), " ") != "M 0 x" {
				x.fail("AppendMutable does not append a new empty mutable message: " + string(fd.FullName()))
			}
			return nil
		})
	case 6:
		x.run("lnew", path, w, base, !viaGet, func(m protoreflect.Message) []string {
			v := reflListOf(m, fd, viaGet).NewElement()
			return append([]string{"v1", "1"}, reflSingularToks(fd, v)...)
		})
	}
}

// truncate: Truncate(n).  The contract: "Get, Set, and Truncate panic with out of bound indexes".
func (x *reflExec) truncate(path []reflStep, w bool, fd protoreflect.FieldDescriptor, viaGet bool, n int) {
	grew := false
	x.run("ltrunc", path, w, []string{reflNum(fd), reflVia(viaGet), HexN(uint64(n))}, true, func(m protoreflect.Message) []string {
		l := reflListOf(m, fd, viaGet)
		ro := !l.IsValid()
		before := l.Len()
		l.Truncate(n)
		if ro {
			x.fail("Truncate through a read-only empty list does not panic: " + string(fd.FullName()))
		}
		if n > before {
			grew = true // no panic although n is out of bounds
			l.Truncate(before)
			return nil
		}
		if l.Len() != n || m.Has(fd) != (n > 0) {
			x.fail("List.Len/Has after Truncate: " + string(fd.FullName()))
		}
		return nil
	})
	if grew {
		x.c.Known("FWE1", "C28", "List.Truncate(n) with Len < n <= cap does not panic and resurrects truncated elements")
		x.c.Stat("known_FWE1")
		x.stop = true
		x.dropLast()
	}
}

// dropLast removes the last recorded operation (and its result) from the case.
func (x *reflExec) dropLast() {
	x.ops = x.ops[:x.lastOp]
	x.res = x.res[:x.lastRes]
	x.nops--
}

func (x *reflExec) opMap(path []reflStep, w bool, cur protoreflect.Message, fd protoreflect.FieldDescriptor, viaGet bool, op int, key *protoreflect.MapKey) {
	c := x.c
	curMap := cur.Get(fd).Map()
	reflKeyOf := func(c *Ctx, fd protoreflect.FieldDescriptor, mp protoreflect.Map) protoreflect.MapKey {
		if key != nil {
			return *key
		}
		return reflKeyOf(c, fd, mp)
	}
	base := []string{reflNum(fd), reflVia(viaGet)}
	kfd, vfd := fd.MapKey(), fd.MapValue()
	switch op {
	case 0:
		x.run("mlen", path, w, base, !viaGet, func(m protoreflect.Message) []string {
			return []string{"n" + HexN(uint64(reflMapOf(m, fd, viaGet).Len()))}
		})
	case 1:
		k := reflKeyOf(c, fd, curMap)
		x.run("mget", path, w, append(base, msgScalarToken(kfd, k.Value())), !viaGet, func(m protoreflect.Message) []string {
			mp := reflMapOf(m, fd, viaGet)
			v := mp.Get(k)
			if v.IsValid() != mp.Has(k) {
				x.fail("Map.Has differs from Get().IsValid: " + string(fd.FullName()))
			}
			if !v.IsValid() {
				return []string{"o0"}
			}
			return append([]string{"o1"}, reflSingularToks(vfd, v)...)
		})
	case 2:
		k := reflKeyOf(c, fd, curMap)
		v := reflNewSingular(c, vfd, func() protoreflect.Value { return cur.NewField(fd).Map().NewValue() })
		x.run("mset", path, w, append(append(base, msgScalarToken(kfd, k.Value())), reflSingularToks(vfd, v)...), true, func(m protoreflect.Message) []string {
			mp := reflMapOf(m, fd, viaGet)
			ro := !mp.IsValid()
			n, had := mp.Len(), mp.Has(k)
			mp.Set(k, v)
			if ro {
				x.fail("Set through a read-only empty map does not panic: " + string(fd.FullName()))
			}
			want := n + 1
			if had {
				want = n
			}
			if mp.Len() != want || !mp.Has(k) || !m.Has(fd) ||
				strings.Join(reflSingularToks(vfd, mp.Get(k)), " ") != strings.Join(reflSingularToks(vfd, v), " ") {
				x.fail("Map.Len/Has/Get after Set: " + string(fd.FullName()))
			}
			return nil
		})
	case 3:
		k := reflKeyOf(c, fd, curMap)
		x.run("mclr", path, w, append(base, msgScalarToken(kfd, k.Value())), true, func(m protoreflect.Message) []string {
			mp := reflMapOf(m, fd, viaGet)
			n, had := mp.Len(), mp.Has(k)
			mp.Clear(k)
			want := n
			if had {
				want = n - 1
			}
			if mp.Len() != want || mp.Has(k) || m.Has(fd) != (want > 0) {
				x.fail("Map.Len/Has after Clear: " + string(fd.FullName()))
			}
			return nil
		})
	case 4:
		k := reflKeyOf(c, fd, curMap)
		x.run("mhas", path, w, append(base, msgScalarToken(kfd, k.Value())), !viaGet, func(m protoreflect.Message) []string {
			return []string{"h" + Tok(reflMapOf(m, fd, viaGet).Has(k))}
		})
	case 5:
		x.run("mrange", path, w, base, !viaGet, func(m protoreflect.Message) []string {
			mp := reflMapOf(m, fd, viaGet)
			seen := map[string]bool{}
			n := 0
			mp.Range(func(k protoreflect.MapKey, v protoreflect.Value) bool {
				n++
				kt := msgScalarToken(kfd, k.Value())
				if seen[kt] {
					x.fail("Map.Range visits a key twice: " + string(fd.FullName()))
				}
				seen[kt] = true
				return true
			})
			if n != mp.Len() {
				x.fail("Map.Range does not call f Len times: " + string(fd.FullName()))
			}
			return reflValueToks(fd, protoreflect.ValueOfMap(mp), 1)
		})
	case 6:
		k := reflKeyOf(c, fd, curMap)
		x.run("mmut", path, w, append(base, msgScalarToken(kfd, k.Value())), true, func(m protoreflect.Message) []string {
			mp := reflMapOf(m, fd, viaGet)
			ro := !mp.IsValid()
			v := mp.Mutable(k)
			if ro {
				x.fail("Mutable through a read-only empty map does not panic: " + string(fd.FullName()))
			}
			if !mp.Has(k) || !v.Message().IsValid() {
				x.fail("Map.Mutable does not store a mutable entry: " + string(fd.FullName()))
			}
			return append([]string{"v1", "1"}, reflSingularToks(vfd, v)...)
		})
	case 7:
		x.run("mnew", path, w, base, !viaGet, func(m protoreflect.Message) []string {
			v := reflMapOf(m, fd, viaGet).NewValue()
			return append([]string{"v1", "1"}, reflSingularToks(vfd, v)...)
		})
	}
}

// ---------------------------------------------------------------- generation

// pickPath walks down from the top message without modifying it and returns the path and the
// read view of the focused message.
func (x *reflExec) pickPath() ([]reflStep, protoreflect.Message) {
	c := x.c
	cur := x.top
	var path []reflStep
	for depth := 0; depth < 3 && c.Intn(5) < 2; depth++ {
		var cands []reflStep
		var popd []reflStep
		for _, fd := range reflFieldsM(cur) {
			switch {
			case reflIsMsg(fd):
				st := reflStep{kind: 'F', fd: fd}
				cands = append(cands, st)
				if cur.Has(fd) {
					popd = append(popd, st)
				}
			case fd.IsList() && fd.Message() != nil:
				if n := cur.Get(fd).List().Len(); n > 0 {
					popd = append(popd, reflStep{kind: 'L', fd: fd, idx: c.Intn(n)})
				}
			case fd.IsMap() && fd.MapValue().Message() != nil:
				if mp := cur.Get(fd).Map(); mp.Len() > 0 {
					keys := reflSortedKeys(mp)
					popd = append(popd, reflStep{kind: 'M', fd: fd, key: keys[c.Intn(len(keys))]})
				}
			}
		}
		var st reflStep
		switch {
		case len(popd) > 0 && c.Intn(3) != 0:
			st = popd[c.Intn(len(popd))]
		case len(cands) > 0:
			st = cands[c.Intn(len(cands))]
		default:
			return path, cur
		}
		path = append(path, st)
		v := cur.Get(st.fd)
		switch st.kind {
		case 'F':
			cur = v.Message()
		case 'L':
			cur = v.List().Get(st.idx).Message()
		case 'M':
			cur = v.Map().Get(st.key).Message()
		}
	}
	return path, cur
}

// pickField prefers populated fields.
func reflPickField(c *Ctx, cur protoreflect.Message, ok func(protoreflect.FieldDescriptor) bool) protoreflect.FieldDescriptor {
	var all, pop []protoreflect.FieldDescriptor
	for _, fd := range reflFieldsM(cur) {
		if ok != nil && !ok(fd) {
			continue
		}
		all = append(all, fd)
		if cur.Has(fd) {
			pop = append(pop, fd)
		}
	}
	if len(pop) > 0 && c.Intn(2) == 0 {
		return pop[c.Intn(len(pop))]
	}
	if len(all) == 0 {
		return nil
	}
	return all[c.Intn(len(all))]
}

// genOp generates and executes one random operation.
func (x *reflExec) genOp() {
	c := x.c
	path, cur := x.pickPath()
	readNav := c.Intn(3) != 0  // navigation for read operations
	writeNav := c.Intn(8) != 0 // navigation for write operations (r: panics when the focus is read-only)
	isExt := func(fd protoreflect.FieldDescriptor) bool { return fd.IsExtension() }
	viaProto := func(fd protoreflect.FieldDescriptor) bool { return fd.IsExtension() && c.Intn(2) == 0 }
	switch k := c.Intn(100); {
	case k < 18:
		if fd := reflPickField(c, cur, nil); fd != nil {
			x.opSet(path, writeNav, cur, fd, viaProto(fd))
		}
	case k < 22:
		if fd := reflPickField(c, cur, isExt); fd != nil {
			x.opSet(path, writeNav, cur, fd, viaProto(fd))
		}
	case k < 30:
		if fd := reflPickField(c, cur, nil); fd != nil {
			x.opClear(path, fd, viaProto(fd))
		}
	case k < 35:
		if fd := reflPickField(c, cur, nil); fd != nil {
			x.opHas(path, !readNav, fd, viaProto(fd))
		}
	case k < 44:
		if fd := reflPickField(c, cur, nil); fd != nil {
			x.opGet(path, !readNav, fd, viaProto(fd))
		}
	case k < 52:
		// Mutable: composite fields mostly, a scalar now and then (must panic)
		fd := reflPickField(c, cur, func(fd protoreflect.FieldDescriptor) bool {
			return fd.IsList() || fd.IsMap() || fd.Message() != nil
		})
		if fd == nil || c.Intn(12) == 0 {
			fd = reflPickField(c, cur, nil)
		}
		if fd != nil {
			x.opMutable(path, writeNav, fd)
		}
	case k < 54:
		if fd := reflPickField(c, cur, nil); fd != nil {
			x.opNewField(path, !readNav, fd)
		}
	case k < 58:
		if ods := cur.Descriptor().Oneofs(); ods.Len() > 0 {
			var real []protoreflect.OneofDescriptor
			for i := 0; i < ods.Len(); i++ {
				if !ods.Get(i).IsSynthetic() {
					real = append(real, ods.Get(i))
				}
			}
			if len(real) > 0 {
				x.opWhich(path, !readNav, real[c.Intn(len(real))])
			}
		}
	case k < 61:
		x.opRange(path, !readNav)
	case k < 62:
		x.opGetUnknown(path, !readNav)
	case k < 64:
		x.opSetUnknown(path, writeNav, msgGenUnknown(c, cur.Descriptor()))
	case k < 84:
		fd := reflPickField(c, cur, func(fd protoreflect.FieldDescriptor) bool { return fd.IsList() })
		if fd == nil {
			return
		}
		op := []int{reflLLen, reflLGet, reflLGet, reflLSet, reflLSet, reflLAppend, reflLAppend, reflLAppend, reflLAppend,
			reflLTruncate, reflLTruncate, reflLAppendMutable, reflLNewElement}[c.Intn(13)]
		if op == reflLAppendMutable && fd.Message() == nil && c.Intn(4) != 0 {
			op = reflLAppend
		}
		write := op == reflLSet || op == reflLAppend || op == reflLTruncate || op == reflLAppendMutable
		viaGet := c.Intn(4) == 0
		nav := !readNav
		if write {
			nav = writeNav
		}
		x.opList(path, nav, cur, fd, viaGet, op, reflListArg(c, op, cur.Get(fd).List().Len()))
	default:
		fd := reflPickField(c, cur, func(fd protoreflect.FieldDescriptor) bool { return fd.IsMap() })
		if fd == nil {
			return
		}
		op := []int{reflMLen, reflMGet, reflMGet, reflMSet, reflMSet, reflMSet, reflMSet, reflMClear, reflMClear, reflMHas,
			reflMRange, reflMMutable, reflMNewValue}[c.Intn(13)]
		if op == reflMMutable && fd.MapValue().Message() == nil && c.Intn(4) != 0 {
			op = reflMSet
		}
		write := op == reflMSet || op == reflMClear || op == reflMMutable
		viaGet := c.Intn(4) == 0
		nav := !readNav
		if write {
			nav = writeNav
		}
		x.opMap(path, nav, cur, fd, viaGet, op, nil)
	}
}

// ---------------------------------------------------------------- scripted corpus

func reflFirst(m protoreflect.Message, n int, ok func(protoreflect.FieldDescriptor) bool) []protoreflect.FieldDescriptor {
	var out []protoreflect.FieldDescriptor
	for _, fd := range reflFieldsM(m) {
		if len(out) < n && ok(fd) {
			out = append(out, fd)
		}
	}
	return out
}

// reflScripts: the boundary histories (run first on every core type and flavour).
var reflScripts = []func(x *reflExec){
	// defaults of every field of the empty message, NewField, Mutable of everything
	func(x *reflExec) {
		for _, fd := range reflFieldsM(x.top) {
			x.opGet(nil, false, fd, false)
			x.opHas(nil, false, fd, false)
		}
		for _, fd := range reflFieldsM(x.top) {
			x.opNewField(nil, false, fd)
		}
	},
	func(x *reflExec) {
		for _, fd := range reflFieldsM(x.top) {
			x.opMutable(nil, true, fd)
			x.opGet(nil, false, fd, false)
			x.opClear(nil, fd, false)
		}
	},
	// every field: set, get, has, clear, get; zero values of implicit-presence fields
	func(x *reflExec) {
		for _, fd := range reflFieldsM(x.top) {
			x.opSet(nil, true, x.top, fd, false)
			x.opGet(nil, false, fd, false)
			x.opHas(nil, false, fd, false)
		}
		x.opRange(nil, false)
		for _, fd := range reflFieldsM(x.top) {
			if !fd.IsList() && !fd.IsMap() && fd.Message() == nil {
				z := reflElemZeroNonEnum(fd)
				x.run("set", nil, true, append([]string{reflNum(fd), "1"}, reflSingularToks(fd, z)...), true, func(m protoreflect.Message) []string {
					m.Set(fd, z)
					return nil
				})
				x.opHas(nil, false, fd, false)
			}
		}
		for _, fd := range reflFieldsM(x.top) {
			x.opClear(nil, fd, false)
			x.opGet(nil, false, fd, false)
		}
	},
	// oneofs: Set a member, Mutable / Set another member, Clear
	func(x *reflExec) {
		ods := x.fl.md.Oneofs()
		for i := 0; i < ods.Len(); i++ {
			od := ods.Get(i)
			if od.IsSynthetic() {
				continue
			}
			fs := od.Fields()
			for j := 0; j < fs.Len(); j++ {
				a, b := fs.Get(j), fs.Get((j+1)%fs.Len())
				x.opSet(nil, true, x.top, a, false)
				x.opWhich(nil, false, od)
				if reflIsMsg(b) {
					x.opMutable(nil, true, b)
				} else {
					x.opSet(nil, true, x.top, b, false)
				}
				x.opWhich(nil, false, od)
				x.opHas(nil, false, a, false)
				x.opGet(nil, false, a, false)
				x.opClear(nil, a, false)
				x.opWhich(nil, false, od)
				x.opClear(nil, b, false)
				x.opWhich(nil, false, od)
			}
		}
	},
	// lists: Append, Truncate, Append, Set, Get, read-only empty list, out-of-range indexes
	func(x *reflExec) {
		kinds := map[string]bool{}
		for _, fd := range reflFieldsM(x.top) {
			if !fd.IsList() {
				continue
			}
			key := fmt.Sprintf("%v/%v/%v", fd.Kind() == protoreflect.MessageKind || fd.Kind() == protoreflect.GroupKind, fd.Kind() == protoreflect.EnumKind, fd.IsExtension())
			if kinds[key] {
				continue
			}
			kinds[key] = true
			x.opList(nil, true, x.top, fd, true, reflLAppend, 0) // read-only: panics
			x.opList(nil, true, x.top, fd, true, reflLAppendMutable, 0)
			x.opList(nil, true, x.top, fd, true, reflLTruncate, 0)
			x.opList(nil, true, x.top, fd, true, reflLLen, 0)
			x.opList(nil, true, x.top, fd, true, reflLNewElement, 0)
			for k := 0; k < 3; k++ {
				x.opList(nil, true, x.top, fd, false, reflLAppend, 0)
			}
			x.opList(nil, true, x.top, fd, false, reflLTruncate, 1)
			x.opList(nil, true, x.top, fd, true, reflLAppend, 0)
			x.opList(nil, true, x.top, fd, false, reflLAppendMutable, 0)
			x.opList(nil, true, x.top, fd, true, reflLSet, 0)
			x.opList(nil, true, x.top, fd, true, reflLSet, 5) // out of range
			x.opList(nil, true, x.top, fd, true, reflLGet, 1)
			x.opList(nil, true, x.top, fd, true, reflLGet, 7) // out of range
			x.opGet(nil, false, fd, false)
			x.opList(nil, true, x.top, fd, false, reflLTruncate, 0)
			x.opHas(nil, false, fd, false)
			x.opGet(nil, false, fd, false)
			x.opList(nil, true, x.top, fd, true, reflLAppend, 0) // read-only again
			x.opSet(nil, true, x.top, fd, false)
			x.opClear(nil, fd, false)
		}
	},
	// maps
	func(x *reflExec) {
		n := 0
		for _, fd := range reflFieldsM(x.top) {
			if !fd.IsMap() || n >= 6 {
				continue
			}
			n++
			mk := func() *protoreflect.MapKey { k := reflKeyOf(x.c, fd, x.top.Get(fd).Map()); return &k }
			k1, k2 := mk(), mk()
			x.opMap(nil, true, x.top, fd, true, reflMSet, k1) // read-only: panics
			x.opMap(nil, true, x.top, fd, true, reflMClear, k1)
			x.opMap(nil, true, x.top, fd, true, reflMLen, nil)
			x.opMap(nil, true, x.top, fd, true, reflMNewValue, nil)
			x.opMap(nil, true, x.top, fd, false, reflMSet, k1)
			x.opMap(nil, true, x.top, fd, true, reflMSet, k1)
			x.opMap(nil, true, x.top, fd, true, reflMSet, k2)
			x.opMap(nil, true, x.top, fd, true, reflMGet, k1)
			x.opMap(nil, true, x.top, fd, true, reflMRange, nil)
			x.opMap(nil, true, x.top, fd, false, reflMMutable, k2)
			x.opMap(nil, true, x.top, fd, false, reflMClear, k1)
			x.opMap(nil, true, x.top, fd, false, reflMHas, k1)
			x.opMap(nil, true, x.top, fd, false, reflMClear, k2)
			x.opHas(nil, false, fd, false)
			x.opGet(nil, false, fd, false)
			x.opMap(nil, true, x.top, fd, false, reflMMutable, k1)
			x.opSet(nil, true, x.top, fd, false)
		}
	},
	// extensions through proto.*Extension
	func(x *reflExec) {
		for _, fd := range reflFirst(x.top, 40, func(fd protoreflect.FieldDescriptor) bool { return fd.IsExtension() }) {
			x.opGet(nil, false, fd, true)
			x.opHas(nil, false, fd, true)
			x.opSet(nil, true, x.top, fd, true)
			x.opHas(nil, false, fd, true)
			x.opGet(nil, false, fd, true)
			x.opGet(nil, false, fd, false)
			x.opClear(nil, fd, true)
			x.opHas(nil, false, fd, false)
			x.opMutable(nil, true, fd)
			x.opHas(nil, false, fd, true)
			x.opSet(nil, true, x.top, fd, false)
		}
		x.opRange(nil, false)
	},
	// sub-messages: writes through a read-only empty message panic; Mutable populates
	func(x *reflExec) {
		for _, fd := range reflFirst(x.top, 4, reflIsMsg) {
			p := []reflStep{{kind: 'F', fd: fd}}
			sub := x.top.Get(fd).Message()
			if f2 := reflPickField(x.c, sub, nil); f2 != nil {
				x.opSet(p, false, sub, f2, false)
				x.opMutable(p, false, f2)
				x.opGet(p, false, f2, false)
				x.opSetUnknown(p, false, []byte{0xa0, 0x1f, 0x01})
				x.opHas(nil, false, fd, false)
				x.opSet(p, true, sub, f2, false)
				x.opHas(nil, false, fd, false)
				x.opSetUnknown(p, false, []byte{0xa0, 0x1f, 0x01})
				x.opGetUnknown(p, false)
				x.opClear(nil, fd, false)
				x.opGetUnknown(p, false)
			}
		}
	},
	// regression input of the repaired finding FWE2: members of synthetic oneofs (proto3 optional
	// fields; witness opaque test3.TestAllTypes.optional_nested_message): Set / Mutable / Clear and a
	// scalar set to its zero value; WhichOneof of the synthetic oneof is compared with Has after
	// every operation by reflCheckInvariants
	func(x *reflExec) {
		for _, fd := range reflFieldsM(x.top) {
			od := fd.ContainingOneof()
			if od == nil || !od.IsSynthetic() {
				continue
			}
			if reflIsMsg(fd) {
				x.opMutable(nil, true, fd)
				x.opHas(nil, false, fd, false)
				x.opClear(nil, fd, false)
				x.opSet(nil, true, x.top, fd, false)
				x.opGet(nil, false, fd, false)
				x.opClear(nil, fd, false)
				x.opMutable(nil, true, fd)
			} else {
				z := reflElemZeroNonEnum(fd)
				x.run("set", nil, true, append([]string{reflNum(fd), "1"}, reflSingularToks(fd, z)...), true, func(m protoreflect.Message) []string {
					m.Set(fd, z)
					return nil
				})
				x.opHas(nil, false, fd, false)
				x.opClear(nil, fd, false)
				x.opSet(nil, true, x.top, fd, false)
			}
		}
		x.opRange(nil, false)
	},
	// finding FWE1: Truncate beyond the length, within the capacity
	func(x *reflExec) {
		for _, fd := range reflFirst(x.top, 1, func(fd protoreflect.FieldDescriptor) bool { return fd.IsList() }) {
			for k := 0; k < 3; k++ {
				x.opList(nil, true, x.top, fd, false, reflLAppend, 0)
			}
			x.opList(nil, true, x.top, fd, false, reflLTruncate, 1)
			x.opList(nil, true, x.top, fd, false, reflLTruncate, 3)
		}
	},
}

// ---------------------------------------------------------------- driver

func (x *reflExec) emit(id string, init []string) {
	ins := append([]string{id, x.fl.name}, init...)
	ins = append(ins, strconv.Itoa(x.nops))
	ins = append(ins, x.ops...)
	x.c.Case("refl", "ops", ins, x.res)
}

// reflInit creates the initial message: empty, filled through reflection, or decoded (lazily
// where the type has lazy fields) from the encoding of a filled message.
func reflInit(c *Ctx, fl reflFlavour) (protoreflect.Message, []string) {
	m := fl.new()
	switch c.Intn(4) {
	case 0:
		return m, msgDump(m)
	case 1, 2:
		budget := 5 + c.Intn(40)
		msgRandomFillOpts(c, m, 2, msgFillOpts{budget: &budget, badUTF8: true, unknown: true})
		return m, msgDump(m)
	}
	budget := 5 + c.Intn(40)
	msgRandomFillOpts(c, m, 2, msgFillOpts{budget: &budget})
	b, err := proto.MarshalOptions{AllowPartial: true}.Marshal(m.Interface())
	if err != nil {
		return m, msgDump(m)
	}
	m2 := fl.new()
	uo := proto.UnmarshalOptions{AllowPartial: true}
	if _, isDyn := m2.(*dynamicpb.Message); isDyn {
		// dynamicpb identifies extensions by descriptor identity: decode with the dynamicpb
		// extension types that the fillers and the operations use
		uo.Resolver = msgDynTypes()
	}
	if err := uo.Unmarshal(b, m2.Interface()); err != nil {
		c.Stat("init_decode_fails")
		return m, msgDump(m)
	}
	c.Stat("init_decoded")
	// the dump of the source is the initial state; the decoded message is not read here
	return m2, msgDump(m)
}

func reflUsable(md protoreflect.MessageDescriptor) bool {
	return !msgLegacyReach(md)
}

func famRefl(c *Ctx) {
	core := reflCoreTypes()
	// 1. scripted histories on the core types, every flavour
	for _, mt := range core {
		for _, fl := range []reflFlavour{reflGen(mt), reflDyn(mt.Descriptor())} {
			id := reflSchemaOf(c, fl.md)
			for si, sc := range reflScripts {
				x := &reflExec{c: c, fl: fl, top: fl.new()}
				init := msgDump(x.top)
				func() {
					defer func() {
						if r := recover(); r != nil {
							x.fail(fmt.Sprintf("harness panic in script %d: %v", si, r))
						}
					}()
					sc(x)
				}()
				if x.nops > 0 {
					x.emit(id, init)
				}
				c.Stat("script_" + fl.name)
			}
		}
	}
	// 2. random histories
	all := msgAllTypes()
	var rnd []protoreflect.MessageDescriptor
	for i := 0; i < c.N; i++ {
		var fl reflFlavour
		switch k := c.Intn(10); {
		case k < 4:
			mt := core[c.Intn(len(core))]
			if c.Intn(3) == 0 {
				fl = reflDyn(mt.Descriptor())
			} else {
				fl = reflGen(mt)
			}
		case k < 8:
			mt := all[c.Intn(len(all))]
			if !reflUsable(mt.Descriptor()) {
				c.Stat("skip_legacy")
				continue
			}
			if c.Intn(3) == 0 {
				fl = reflDyn(mt.Descriptor())
			} else {
				fl = reflGen(mt)
			}
		default:
			if len(rnd) == 0 || c.Intn(4) == 0 {
				rnd = append(rnd, msgRandomSchemas(c, 1)...)
			}
			if len(rnd) == 0 {
				continue
			}
			fl = reflDyn(rnd[c.Intn(len(rnd))])
			fl.name = "dynrnd"
		}
		id := reflSchemaOf(c, fl.md)
		top, init := reflInit(c, fl)
		x := &reflExec{c: c, fl: fl, top: top}
		nops := 5 + c.Intn(36)
		func() {
			defer func() {
				if r := recover(); r != nil {
					x.fail(fmt.Sprintf("harness panic: %v", r))
				}
			}()
			for tries := 0; x.nops < nops && tries < 3*nops && !x.stop; tries++ {
				x.genOp()
			}
		}()
		if x.nops > 0 {
			x.emit(id, init)
		}
		c.Stat("hist_" + fl.name)
		c.StatN("ops_total", x.nops)
	}
}
