//go:build verif && !protolegacy

package main

import (
	"fmt"
	"os"
)

// MessageSet support exists only in builds with -tags protolegacy; the real
// family is in fam_mset.go.  props/C47.json runs it with "tags": "verif,protolegacy".
func init() {
	stub := func(c *Ctx) {
		fmt.Fprintln(os.Stderr, "family mset needs a harness built with -tags verif,protolegacy (MessageSet support is compiled out otherwise)")
		os.Exit(2)
	}
	Register("mset", stub)
	Register("msetr", stub)
}
