//go:build verif

package main

import (
	"fmt"
	"sort"
	"strings"

	"google.golang.org/protobuf/proto"
	"google.golang.org/protobuf/reflect/protoreflect"
	"google.golang.org/protobuf/types/descriptorpb"
	"google.golang.org/protobuf/types/known/fieldmaskpb"

	testpb "google.golang.org/protobuf/internal/testprotos/test"
	test3pb "google.golang.org/protobuf/internal/testprotos/test3"
	testedpb "google.golang.org/protobuf/internal/testprotos/testeditions"
)

// ---------------------------------------------------------------- C44: FieldMask path-set algebra

func knownPathToks(ps []string) []string {
	out := make([]string, len(ps))
	for i, p := range ps {
		out[i] = HexB([]byte(p))
	}
	return out
}

// independent oracles ------------------------------------------------------

// knownCovers: brute-force coverage, straight from the property text.
func knownCovers(mask []string, p string) bool {
	for _, q := range mask {
		if q == p || strings.HasPrefix(p, q+".") {
			return true
		}
	}
	return false
}

// knownKeyLess: lexicographic order over bytes ranked by (b - '.') mod 256.
func knownKeyLess(x, y string) bool {
	for i := 0; i < len(x) && i < len(y); i++ {
		if x[i] != y[i] {
			return (int(x[i])+210)%256 < (int(y[i])+210)%256
		}
	}
	return len(x) < len(y)
}

func knownCanonical(out []string) string {
	for i := 1; i < len(out); i++ {
		if !knownKeyLess(out[i-1], out[i]) {
			return "not strictly sorted"
		}
	}
	for i := range out {
		for j := range out {
			if i != j && knownCovers([]string{out[i]}, out[j]) {
				return "not prefix-free"
			}
		}
	}
	return ""
}

// knownProbes: paths on which coverage is compared: every input path, its
// dot-prefixes, some extensions, and neighbours that differ in one byte.
func knownProbes(c *Ctx, masks ...[]string) []string {
	seen := map[string]bool{}
	var out []string
	add := func(s string) {
		if !seen[s] {
			seen[s] = true
			out = append(out, s)
		}
	}
	add("")
	add(".")
	add("a")
	for _, m := range masks {
		for _, p := range m {
			add(p)
			add(p + ".")
			add(p + ".a")
			add(p + "..b")
			add(p + "a")
			add(p + "-")
			add(p + "/")
			for i := 0; i < len(p); i++ {
				if p[i] == '.' {
					add(p[:i])
					add(p[:i+1])
				}
			}
			if len(p) > 0 {
				add(p[:len(p)-1])
			}
		}
	}
	return out
}

// observation form of a path list: count first (so that the empty list is a token too)
func knownOutToks(ps []string) []string {
	return append([]string{fmt.Sprintf("n%d", len(ps))}, knownPathToks(ps)...)
}

func knownCopy(ps []string) []string { return append([]string(nil), ps...) }
func knownSame(a, b []string) bool {
	if len(a) != len(b) {
		return false
	}
	for i := range a {
		if a[i] != b[i] {
			return false
		}
	}
	return true
}

func knownJoinMasks(ms [][]string) []string {
	var ins []string
	for i, m := range ms {
		if i > 0 {
			ins = append(ins, ",")
		}
		ins = append(ins, knownPathToks(m)...)
	}
	return ins
}

// one Normalize observation + property predicate
func knownNormalize(c *Ctx, paths []string) {
	x := &fieldmaskpb.FieldMask{Paths: knownCopy(paths)}
	x.Normalize()
	out := x.GetPaths()
	c.Case("known", "norm", knownPathToks(paths), knownOutToks(out))
	if w := knownCanonical(out); w != "" {
		c.PropFail("C44", "Normalize result "+w, knownPathToks(paths)...)
	}
	for _, p := range knownProbes(c, paths, out) {
		if knownCovers(paths, p) != knownCovers(out, p) {
			c.PropFail("C44", "Normalize changes coverage of "+HexB([]byte(p)), knownPathToks(paths)...)
			break
		}
	}
	y := &fieldmaskpb.FieldMask{Paths: knownCopy(out)}
	y.Normalize()
	if !knownSame(y.GetPaths(), out) {
		c.PropFail("C44", "Normalize not idempotent", knownPathToks(paths)...)
	}
	c.Stat(fmt.Sprintf("fm.norm.in%d.out%d", knownMin(len(paths), 5), knownMin(len(out), 5)))
}

func knownMin(a, b int) int {
	if a < b {
		return a
	}
	return b
}

func knownUnionIntersect(c *Ctx, ms [][]string) {
	if len(ms) < 2 {
		return
	}
	orig := make([][]string, len(ms))
	fms := make([]*fieldmaskpb.FieldMask, len(ms))
	for i, m := range ms {
		orig[i] = knownCopy(m)
		fms[i] = &fieldmaskpb.FieldMask{Paths: knownCopy(m)}
	}
	ins := knownJoinMasks(ms)
	u := fieldmaskpb.Union(fms[0], fms[1], fms[2:]...).GetPaths()
	c.Case("known", "union", ins, knownOutToks(u))
	it := fieldmaskpb.Intersect(fms[0], fms[1], fms[2:]...).GetPaths()
	c.Case("known", "isect", ins, knownOutToks(it))
	for i := range fms {
		if !knownSame(fms[i].GetPaths(), orig[i]) {
			c.PropFail("C44", "Union/Intersect modified an input mask", ins...)
		}
	}
	if w := knownCanonical(u); w != "" {
		c.PropFail("C44", "Union result "+w, ins...)
	}
	if w := knownCanonical(it); w != "" {
		c.PropFail("C44", "Intersect result "+w, ins...)
	}
	all := append([][]string{u, it}, ms...)
	for _, p := range knownProbes(c, all...) {
		any, every := false, true
		for _, m := range ms {
			cv := knownCovers(m, p)
			any = any || cv
			every = every && cv
		}
		if knownCovers(u, p) != any {
			c.PropFail("C44", "Union coverage wrong on "+HexB([]byte(p)), ins...)
			break
		}
		if knownCovers(it, p) != every {
			c.PropFail("C44", "Intersect coverage wrong on "+HexB([]byte(p)), ins...)
			break
		}
	}
	c.Stat(fmt.Sprintf("fm.ui.masks%d.isect%d", knownMin(len(ms), 4), knownMin(len(it), 3)))
}

func knownLessHpp(c *Ctx, x, y string) {
	// lessPath / hasPathPrefix are unexported: observe them through Normalize on two paths.
	m := &fieldmaskpb.FieldMask{Paths: []string{x, y}}
	m.Normalize()
	c.Case("known", "norm", knownPathToks([]string{x, y}), knownOutToks(m.GetPaths()))
	// property: the order is total and antisymmetric on distinct strings, '.' least
	m2 := &fieldmaskpb.FieldMask{Paths: []string{y, x}}
	m2.Normalize()
	if !knownSame(m.GetPaths(), m2.GetPaths()) {
		c.PropFail("C44", "Normalize depends on input order (comparator not a strict total order)", knownPathToks([]string{x, y})...)
	}
}

// ---- generators
var knownSmallAlpha = []byte{'a', 'b', '.'}
var knownWideAlpha = []byte{'a', 'b', '.', '.', '-', '/', '_', 'A', 'z', '0', 0x00, 0x2d, 0x2f, 0xff, 0x80, ','}

// all strings over knownSmallAlpha of length <= n (including "")
func knownAllStrings(alpha []byte, n int) []string {
	out := []string{""}
	prev := []string{""}
	for l := 1; l <= n; l++ {
		var cur []string
		for _, p := range prev {
			for _, ch := range alpha {
				cur = append(cur, p+string([]byte{ch}))
			}
		}
		out = append(out, cur...)
		prev = cur
	}
	return out
}

func knownRandPath(c *Ctx, alpha []byte, maxlen int) string {
	n := c.Intn(maxlen + 1)
	b := make([]byte, n)
	for i := range b {
		b[i] = alpha[c.Intn(len(alpha))]
	}
	return string(b)
}

var knownSegs = []string{"a", "b", "ab", "a_b", "foo", "foo_bar", "f", "x", "user", "display_name", "photo", "A", "a-", "a/"}

func knownStructuredPath(c *Ctx) string {
	n := 1 + c.Intn(4)
	parts := make([]string, n)
	for i := range parts {
		parts[i] = knownSegs[c.Intn(len(knownSegs))]
		if c.Intn(25) == 0 {
			parts[i] = ""
		}
	}
	return strings.Join(parts, ".")
}

func knownRandMask(c *Ctx, maxn int) []string {
	n := c.Intn(maxn + 1)
	m := make([]string, 0, n)
	for i := 0; i < n; i++ {
		switch c.Intn(10) {
		case 0, 1:
			m = append(m, knownRandPath(c, knownSmallAlpha, 4))
		case 2:
			m = append(m, knownRandPath(c, knownWideAlpha, 5))
		default:
			p := knownStructuredPath(c)
			if len(m) > 0 && c.Intn(3) == 0 { // extend / truncate an existing path: creates cover relations
				q := m[c.Intn(len(m))]
				switch c.Intn(4) {
				case 0:
					p = q + "." + knownSegs[c.Intn(len(knownSegs))]
				case 1:
					p = q
				case 2:
					if i := strings.LastIndexByte(q, '.'); i >= 0 {
						p = q[:i]
					}
				case 3:
					p = q + string([]byte{knownWideAlpha[c.Intn(len(knownWideAlpha))]})
				}
			}
			m = append(m, p)
		}
	}
	return m
}

func knownFieldMaskAlgebra(c *Ctx, budget int) {
	// (a) corpus / boundary cases first
	corpus := [][]string{
		{}, {""}, {"", ""}, {"."}, {"a", "a"}, {"a.b", "a"}, {"a", "a.b"}, {"a", "ab", "a.b"}, {"a-", "a.b", "a"},
		{"a.b", "a-b", "a/b", "a"}, {"b", "a.b.c", "a.b", "a"}, {"a..b", "a."}, {"a.", "a"}, {"\xff", "\x00", ".", "-"},
		{"user.display_name", "photo", "user"}, {"a", "b", "c", "a.b", "b.c", "c.d"},
	}
	for _, m := range corpus {
		knownNormalize(c, m)
	}
	for i := range corpus {
		for j := range corpus {
			knownUnionIntersect(c, [][]string{corpus[i], corpus[j]})
		}
	}
	knownUnionIntersect(c, [][]string{{"a", "b.c"}, {"a.b", "b"}, {"a.b.c", "b.c.d", "x"}})
	knownUnionIntersect(c, [][]string{{"a"}, {"a.b"}, {"a.b.c"}, {"a.b.c.d"}})
	knownUnionIntersect(c, [][]string{{"a"}, {"b"}, {"a", "b"}})

	// (b) exhaustive small universe over {a,b,.}
	strs3 := knownAllStrings(knownSmallAlpha, 3) // 40 strings
	strs2 := knownAllStrings(knownSmallAlpha, 2) // 13 strings
	for _, x := range strs3 {
		for _, y := range strs3 {
			if c.Tier == "thorough" || c.Intn(4) == 0 {
				knownLessHpp(c, x, y)
			}
		}
	}
	if c.Tier == "thorough" {
		for _, x := range strs3 {
			for _, y := range strs3 {
				knownNormalize(c, []string{x, y})
				knownUnionIntersect(c, [][]string{{x}, {y}})
				for _, z := range strs2 {
					knownNormalize(c, []string{x, y, z})
					knownUnionIntersect(c, [][]string{{x, z}, {y}})
				}
			}
		}
		for _, x := range strs2 {
			for _, y := range strs2 {
				for _, z := range strs2 {
					for _, w := range strs2 {
						knownUnionIntersect(c, [][]string{{x, y}, {z, w}})
					}
				}
			}
		}
	} else {
		for _, x := range strs2 {
			for _, y := range strs2 {
				for _, z := range strs2 {
					knownNormalize(c, []string{x, y, z})
					if c.Intn(3) == 0 {
						knownUnionIntersect(c, [][]string{{x, z}, {y}})
					}
				}
			}
		}
	}
	// (c) random
	for i := 0; i < budget; i++ {
		switch c.Intn(4) {
		case 0:
			knownNormalize(c, knownRandMask(c, 8))
		case 1:
			knownLessHpp(c, knownRandPath(c, knownWideAlpha, 4), knownRandPath(c, knownWideAlpha, 4))
		default:
			n := 2 + c.Intn(3)
			ms := make([][]string, n)
			for k := range ms {
				ms[k] = knownRandMask(c, 6)
				if k > 0 && c.Intn(2) == 0 { // share / refine paths of the first mask
					for _, p := range ms[0] {
						switch c.Intn(4) {
						case 0:
							ms[k] = append(ms[k], p)
						case 1:
							ms[k] = append(ms[k], p+"."+knownSegs[c.Intn(len(knownSegs))])
						case 2:
							if j := strings.IndexByte(p, '.'); j >= 0 {
								ms[k] = append(ms[k], p[:j])
							}
						}
					}
				}
			}
			knownUnionIntersect(c, ms)
		}
	}
}

// ---------------------------------------------------------------- C44: IsValid / New / Append

type knownSchema struct {
	id    int
	msg   proto.Message
	mds   []protoreflect.MessageDescriptor
	index map[protoreflect.FullName]int
	tok   string
}

func knownBuildSchema(id int, m proto.Message) *knownSchema {
	s := &knownSchema{id: id, msg: m, index: map[protoreflect.FullName]int{}}
	var visit func(md protoreflect.MessageDescriptor)
	visit = func(md protoreflect.MessageDescriptor) {
		if _, ok := s.index[md.FullName()]; ok {
			return
		}
		s.index[md.FullName()] = len(s.mds)
		s.mds = append(s.mds, md)
		for i := 0; i < md.Fields().Len(); i++ {
			if fm := md.Fields().Get(i).Message(); fm != nil {
				visit(fm)
			}
		}
	}
	visit(m.ProtoReflect().Descriptor())
	var sb strings.Builder
	for i, md := range s.mds {
		if i > 0 {
			sb.WriteByte(';')
		}
		sb.WriteString(HexB([]byte(md.Name())))
		sb.WriteByte(':')
		for j := 0; j < md.Fields().Len(); j++ {
			fd := md.Fields().Get(j)
			if j > 0 {
				sb.WriteByte(',')
			}
			k, ref := "s", 0
			if fm := fd.Message(); fm != nil {
				ref = s.index[fm.FullName()]
				k = "m"
				if fd.Kind() == protoreflect.GroupKind {
					k = "g"
				}
			}
			fmt.Fprintf(&sb, "%s/%s/%s/%d/%s", HexB([]byte(fd.Name())), k, Tok(fd.IsList() || fd.IsMap()), ref, HexB([]byte(fd.TextName())))
		}
	}
	s.tok = sb.String()
	return s
}

// knownTextNameOracle: the property's reading of "names a field reachable through
// singular message fields": split at dots; every segment is the text-format name of a
// field of the current message; every non-final field is a singular message.
// Independent of numValidPaths (no ByName/ToLower lookup, linear scan over TextName()).
func knownTextNameOracle(md protoreflect.MessageDescriptor, path string) bool {
	for _, seg := range strings.Split(path, ".") {
		if md == nil {
			return false
		}
		var fd protoreflect.FieldDescriptor
		for j := 0; j < md.Fields().Len(); j++ {
			if g := md.Fields().Get(j); g.TextName() == seg {
				fd = g
			}
		}
		if fd == nil {
			return false
		}
		md = fd.Message()
		if fd.IsList() || fd.IsMap() {
			md = nil
		}
	}
	return true
}

func knownValidOne(c *Ctx, s *knownSchema, path string) bool {
	_, err := fieldmaskpb.New(s.msg, path)
	got := err == nil
	c.Case("known", "pvalid", []string{fmt.Sprint(s.id), "0", HexB([]byte(path))}, []string{Tok(got)})
	x := &fieldmaskpb.FieldMask{Paths: []string{path}}
	if x.IsValid(s.msg) != got {
		c.PropFail("C44", "IsValid and New disagree", fmt.Sprint(s.id), HexB([]byte(path)))
	}
	if want := knownTextNameOracle(s.mds[0], path); want != got {
		// (F16, repaired in /repo: names of DELIMITED fields that are not group-like were rejected)
		c.PropFail("C44", fmt.Sprintf("path validity: got %v want %v", got, want), fmt.Sprint(s.id), HexB([]byte(path)))
	}
	c.Stat("fm.valid." + Tok(got))
	return got
}

func knownAppend(c *Ctx, s *knownSchema, have, paths []string) {
	x := &fieldmaskpb.FieldMask{Paths: knownCopy(have)}
	err := x.Append(s.msg, paths...)
	ins := append([]string{fmt.Sprint(s.id), "0"}, knownPathToks(have)...)
	ins = append(ins, ",")
	ins = append(ins, knownPathToks(paths)...)
	c.Case("known", "append", ins, append([]string{Tok(err != nil)}, knownOutToks(x.GetPaths())...))
	y := &fieldmaskpb.FieldMask{Paths: knownCopy(paths)}
	iv := y.IsValid(s.msg)
	c.Case("known", "isvalid", append([]string{fmt.Sprint(s.id), "0"}, knownPathToks(paths)...), []string{Tok(iv)})
	// property: appended = have ++ longest prefix of individually valid paths; error iff one is left
	n := 0
	for n < len(paths) {
		if _, e := fieldmaskpb.New(s.msg, paths[n]); e != nil {
			break
		}
		n++
	}
	want := append(knownCopy(have), paths[:n]...)
	if !knownSame(want, x.GetPaths()) || (err != nil) != (n < len(paths)) || iv != (n == len(paths)) {
		c.PropFail("C44", "Append/IsValid do not accept exactly the longest valid prefix", ins...)
	}
	var nilMask *fieldmaskpb.FieldMask
	if nilMask.IsValid(s.msg) {
		c.PropFail("C44", "nil FieldMask reported valid")
	}
}

// random walk over the descriptor producing a mostly valid path, then mutations
func knownGenSchemaPath(c *Ctx, s *knownSchema) string {
	md := s.mds[0]
	var segs []string
	depth := 1 + c.Intn(4)
	for d := 0; d < depth && md != nil && md.Fields().Len() > 0; d++ {
		fd := md.Fields().Get(c.Intn(md.Fields().Len()))
		// prefer message-typed fields while there is depth left
		if d+1 < depth && fd.Message() == nil && c.Intn(3) > 0 {
			for k := 0; k < 8 && fd.Message() == nil; k++ {
				fd = md.Fields().Get(c.Intn(md.Fields().Len()))
			}
		}
		name := string(fd.Name())
		if fd.Kind() == protoreflect.GroupKind && c.Intn(4) > 0 {
			name = string(fd.Message().Name())
		}
		switch c.Intn(40) {
		case 0:
			name = fd.JSONName()
		case 1:
			name = strings.ToUpper(name)
		case 2:
			name = strings.ToLower(name)
		case 3:
			name = string(fd.FullName())
		case 4:
			if od := fd.ContainingOneof(); od != nil {
				name = string(od.Name())
			}
		case 5:
			if fd.Message() != nil {
				name = string(fd.Message().Name())
			}
		case 6:
			if len(name) > 1 {
				name = name[:len(name)-1]
			}
		case 7:
			name = name + "x"
		}
		segs = append(segs, name)
		md = fd.Message()
		if (fd.IsList() || fd.IsMap()) && c.Intn(3) > 0 {
			break
		}
	}
	p := strings.Join(segs, ".")
	switch c.Intn(30) {
	case 0:
		p += "."
	case 1:
		p = "." + p
	case 2:
		p = strings.Replace(p, ".", "..", 1)
	case 3:
		p = ""
	case 4:
		p = strings.Replace(p, ".", ",", 1)
	case 5:
		p += ".key"
	case 6:
		p += ".value"
	}
	return p
}

func knownFieldMaskValidity(c *Ctx, budget int) {
	msgs := []proto.Message{
		&testpb.TestAllTypes{}, &test3pb.TestAllTypes{}, &testedpb.TestAllTypes{},
		&descriptorpb.FileDescriptorProto{}, &testpb.TestRequiredGroupFields{}, &fieldmaskpb.FieldMask{},
	}
	var schemas []*knownSchema
	for i, m := range msgs {
		s := knownBuildSchema(i, m)
		schemas = append(schemas, s)
		c.Case("known", "schema", []string{fmt.Sprint(s.id), s.tok}, []string{"ok", fmt.Sprint(len(s.mds))})
	}
	// corpus: every field name and every group message name of every root, plus two-level paths
	for _, s := range schemas {
		md := s.mds[0]
		var names []string
		for i := 0; i < md.Fields().Len(); i++ {
			fd := md.Fields().Get(i)
			names = append(names, string(fd.Name()))
			if fd.Message() != nil {
				names = append(names, string(fd.Message().Name()))
				for j := 0; j < fd.Message().Fields().Len() && j < 3; j++ {
					sub := fd.Message().Fields().Get(j)
					names = append(names, string(fd.Name())+"."+string(sub.Name()))
					names = append(names, string(fd.Message().Name())+"."+string(sub.Name()))
				}
			}
		}
		sort.Strings(names)
		if c.Tier != "thorough" && len(names) > 150 {
			// deterministic thinning
			var t []string
			for i, n := range names {
				if i%3 == int(c.Seed%3) || strings.Contains(n, "roup") || strings.Contains(n, "delimited") {
					t = append(t, n)
				}
			}
			names = t
		}
		for _, n := range names {
			knownValidOne(c, s, n)
		}
		for _, n := range []string{"", ".", "paths", "paths.x", "optional_nested_message.corecursive.optional_int32",
			"optionalgroup", "OptionalGroup", "OptionalGroup.a", "optionalgroup.a", "OPTIONALGROUP", "Optionalgroup",
			"not_group_like_delimited", "not_group_like_delimited.a", "repeatedgroup", "RepeatedGroup", "RepeatedGroup.a",
			"map_int32_int32", "map_int32_int32.key", "map_string_nested_message.value", "oneof_field", "oneof_nested_message.a",
			"message_type", "message_type.name", "options.java_package", "options.features.field_presence", "source_code_info.location",
			"Key", "optional_int32\x00", "[goproto.proto.test.optional_int32]"} {
			knownValidOne(c, s, n)
		}
	}
	for i := 0; i < budget; i++ {
		s := schemas[c.Intn(len(schemas))]
		if c.Intn(3) > 0 {
			knownValidOne(c, s, knownGenSchemaPath(c, s))
		} else {
			n := c.Intn(5)
			var have, paths []string
			for k := 0; k < c.Intn(3); k++ {
				have = append(have, knownGenSchemaPath(c, s))
			}
			for k := 0; k < n; k++ {
				paths = append(paths, knownGenSchemaPath(c, s))
			}
			knownAppend(c, s, have, paths)
		}
	}
}
