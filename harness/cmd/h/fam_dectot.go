//go:build verif

package main

// family "dectot": C06 -- binary decoding is total, bounded and agrees with validation.
//
// Case lines (model-compared, model = Msg/ValidateMsgModel.v on top of Msg/MsgDec.v):
//	val <schema id> <limit> <bytes>            | <status 1 unknown 2 invalid 3 valid> <initialized 0/1>
//	dec <schema id> <f|s> <limit> <bytes>      | ok | e1 parse | e2 depth | e3 utf8 | e4 required
// (the `schema` lines are emitted through msgSchemaOf, family msg)
//
// P lines (the wirefuzz oracle, internal/fuzz/wirefuzz/fuzz.go, for every corpus type):
//	panic in Unmarshal / Validate / CheckInitialized / Marshal
//	Validate = Valid but Unmarshal fails; Validate = Invalid but Unmarshal succeeds
//	Validate or Unmarshal report a partial message as initialized
//	strict Unmarshal verdict differs from CheckInitialized of the decoded message
//	Unmarshal ok but re-Marshal -> Unmarshal is not Equal / Size differs / is not Valid
//	an initialized normalised message is reported as partial
//	the result depends on bytes after the end of the input slice (over-read)
//	lazy (default) and eager verdicts differ under AllowPartial

import (
	"bytes"
	"fmt"
	"sort"
	"strings"
	"unicode/utf8"

	"google.golang.org/protobuf/encoding/protowire"
	"google.golang.org/protobuf/internal/impl"
	"google.golang.org/protobuf/internal/strs"
	"google.golang.org/protobuf/proto"
	"google.golang.org/protobuf/reflect/protoreflect"
	"google.golang.org/protobuf/reflect/protoregistry"
	"google.golang.org/protobuf/runtime/protoiface"
	"google.golang.org/protobuf/types/dynamicpb"
)

func init() { Register("dectot", famDectot) }

// ---------------------------------------------------------------- wire trees with schema

// dectotNode is one field occurrence of a (mostly) well-formed encoding, parsed along the
// schema so that nested messages, groups and map entries are nodes too.  Rendering a tree
// recomputes every length prefix, so a defect injected into one node stays local.
type dectotNode struct {
	num  protowire.Number
	typ  protowire.Type
	raw  []byte        // value bytes of a leaf (without tag; LEN: without the length prefix)
	kids []*dectotNode // content of a parsed message / group / map entry
	sub  bool          // kids is the content (LEN or group)
	md   protoreflect.MessageDescriptor
	fd   protoreflect.FieldDescriptor

	// defects / encoding variants
	tagLen   int    // encode the tag varint with this many bytes (0 = minimal)
	lenLen   int    // encode the length varint with this many bytes (0 = minimal)
	lenDelta int64  // added to the length prefix
	lenAbs   uint64 // if lenSet: the length prefix
	lenSet   bool
	endNum   protowire.Number // groups: number in the end tag (0 = num)
	noEnd    bool             // groups: no end tag
	rawTag   []byte           // if non-nil: emitted instead of the tag
}

func dectotParse(md protoreflect.MessageDescriptor, b []byte, depth int) ([]*dectotNode, bool) {
	var out []*dectotNode
	for len(b) > 0 {
		num, typ, n := protowire.ConsumeTag(b)
		if n < 0 || num > protowire.MaxValidNumber {
			return nil, false
		}
		b = b[n:]
		m := protowire.ConsumeFieldValue(num, typ, b)
		if m < 0 {
			return nil, false
		}
		nd := &dectotNode{num: num, typ: typ}
		var fd protoreflect.FieldDescriptor
		if md != nil {
			fd = msgFindField(md, num)
		}
		nd.fd = fd
		val := b[:m]
		switch typ {
		case protowire.BytesType:
			p, _ := protowire.ConsumeBytes(val)
			nd.raw = p
			if fd != nil && fd.Message() != nil && depth > 0 && fd.Kind() != protoreflect.GroupKind {
				if kids, ok := dectotParse(fd.Message(), p, depth-1); ok {
					nd.kids, nd.sub, nd.md = kids, true, fd.Message()
				}
			}
		case protowire.StartGroupType:
			content, k := protowire.ConsumeGroup(num, val)
			if k < 0 {
				return nil, false
			}
			var sub protoreflect.MessageDescriptor
			if fd != nil && fd.Kind() == protoreflect.GroupKind {
				sub = fd.Message()
			}
			kids, ok := dectotParse(sub, content, depth-1)
			if !ok {
				return nil, false
			}
			nd.kids, nd.sub, nd.md = kids, true, sub
		default:
			nd.raw = val
		}
		out = append(out, nd)
		b = b[m:]
	}
	return out, true
}

func dectotVarintN(b []byte, v uint64, n int) []byte {
	if n <= 0 || n < protowire.SizeVarint(v) {
		return protowire.AppendVarint(b, v)
	}
	for i := 0; i < n-1; i++ {
		b = append(b, byte(v&0x7f)|0x80)
		v >>= 7
	}
	return append(b, byte(v&0x7f))
}

func dectotRender(b []byte, nodes []*dectotNode) []byte {
	for _, nd := range nodes {
		if nd.rawTag != nil {
			b = append(b, nd.rawTag...)
		} else {
			b = dectotVarintN(b, protowire.EncodeTag(nd.num, nd.typ), nd.tagLen)
		}
		var content []byte
		if nd.sub {
			content = dectotRender(nil, nd.kids)
		} else {
			content = nd.raw
		}
		switch nd.typ {
		case protowire.BytesType:
			l := uint64(int64(len(content)) + nd.lenDelta)
			if nd.lenSet {
				l = nd.lenAbs
			}
			b = dectotVarintN(b, l, nd.lenLen)
			b = append(b, content...)
		case protowire.StartGroupType:
			b = append(b, content...)
			if nd.sub && !nd.noEnd {
				en := nd.endNum
				if en == 0 {
					en = nd.num
				}
				b = protowire.AppendVarint(b, protowire.EncodeTag(en, protowire.EndGroupType))
			}
		default:
			b = append(b, content...)
		}
	}
	return b
}

func dectotCollect(nodes []*dectotNode, out *[]*dectotNode) {
	for _, nd := range nodes {
		*out = append(*out, nd)
		if nd.sub {
			dectotCollect(nd.kids, out)
		}
	}
}

// dectotDefect damages one random node of the tree (in place) and reports what it did.
func dectotDefect(c *Ctx, roots *[]*dectotNode) string {
	var all []*dectotNode
	dectotCollect(*roots, &all)
	if len(all) == 0 {
		// nothing to damage: add a stray field
		*roots = append(*roots, &dectotNode{num: protowire.Number(1 + c.Intn(30)), typ: protowire.Type(c.Intn(8)), raw: c.Bytes(c.Intn(4))})
		return "stray"
	}
	nd := all[c.Intn(len(all))]
	bigLens := []uint64{1 << 31, 1<<31 - 1, 1 << 32, 1<<32 + uint64(len(nd.raw)), 1 << 62, 1 << 63, 1<<64 - 1, 1<<63 - 1, 0xffffffff, 1 << 35}
	switch c.Intn(16) {
	case 0: // another wire type, value bytes unchanged
		nd.typ = protowire.Type(c.Intn(8))
		if nd.sub && nd.typ != protowire.BytesType && nd.typ != protowire.StartGroupType {
			nd.raw, nd.sub = dectotRender(nil, nd.kids), false
		}
		return "wiretype"
	case 1: // non-minimal tag (still valid up to 10 bytes)
		nd.tagLen = 2 + c.Intn(9)
		return "tag_nonminimal"
	case 2: // tag varint too long / overflowing
		t := protowire.EncodeTag(nd.num, nd.typ)
		switch c.Intn(3) {
		case 0:
			nd.rawTag = dectotVarintN(nil, t, 11)
		case 1:
			nd.rawTag = append(dectotVarintN(nil, t, 10)[:9], 0x02)
			for i := 0; i < 9; i++ {
				nd.rawTag[i] |= 0x80
			}
		default:
			nd.rawTag = dectotVarintN(nil, t|uint64(1+c.Intn(7))<<32, 0) // field number above 2^29-1
		}
		return "tag_overlong"
	case 3: // field number 0 or above the maximum
		if c.Bool() {
			nd.rawTag = protowire.AppendVarint(nil, uint64(nd.typ))
		} else {
			nd.rawTag = protowire.AppendVarint(nil, uint64(1<<29+c.Intn(1<<20))<<3|uint64(nd.typ))
		}
		return "tag_number"
	case 4: // varint value: non-minimal / too long / overflowing
		if nd.typ == protowire.VarintType {
			v, _ := protowire.ConsumeVarint(nd.raw)
			switch c.Intn(4) {
			case 0:
				nd.raw = dectotVarintN(nil, v, 10)
			case 1:
				nd.raw = dectotVarintN(nil, v, 11)
			case 2:
				nd.raw = append(bytes.Repeat([]byte{0xff}, 9), byte(2+c.Intn(126)))
			default:
				nd.raw = dectotVarintN(nil, v, 2+c.Intn(8))
			}
			return "varint_form"
		}
		nd.lenLen = 2 + c.Intn(10)
		return "len_nonminimal"
	case 5: // length +-1
		if nd.typ == protowire.BytesType {
			nd.lenDelta = int64(1 - 2*c.Intn(2))
			if len(nd.raw) == 0 && !nd.sub {
				nd.lenDelta = 1
			}
			return "len_pm1"
		}
		if len(nd.raw) > 0 {
			nd.raw = nd.raw[:len(nd.raw)-1]
		}
		return "value_short"
	case 6: // huge length
		if nd.typ == protowire.BytesType {
			nd.lenSet, nd.lenAbs = true, bigLens[c.Intn(len(bigLens))]
			return "len_huge"
		}
		nd.raw = append(nd.raw, byte(c.U64()))
		return "value_long"
	case 7: // group end marker
		if nd.typ == protowire.StartGroupType && nd.sub {
			switch c.Intn(3) {
			case 0:
				nd.noEnd = true
			case 1:
				nd.endNum = nd.num + protowire.Number(1+c.Intn(3))
			default:
				// a second end marker (typ Fixed32 with no value bytes renders as the bare tag)
				nd.kids = append(nd.kids, &dectotNode{rawTag: protowire.AppendVarint(nil, protowire.EncodeTag(nd.num, protowire.EndGroupType)), typ: protowire.Fixed32Type})
			}
			return "group_end"
		}
		// a stray end-group tag
		nd.rawTag = protowire.AppendVarint(nil, protowire.EncodeTag(nd.num, protowire.EndGroupType))
		nd.raw, nd.sub, nd.typ = nil, false, protowire.Fixed32Type
		return "stray_end"
	case 8: // corrupt the payload (UTF-8, nested content)
		if !nd.sub && len(nd.raw) > 0 {
			nd.raw = append([]byte(nil), nd.raw...)
			nd.raw[c.Intn(len(nd.raw))] = []byte{0xff, 0xc0, 0x80, 0xed, 0xf4, 0x00}[c.Intn(6)]
			return "payload_byte"
		}
		if nd.sub {
			nd.raw, nd.sub = append(dectotRender(nil, nd.kids), byte(c.U64())), false
			return "content_garbage"
		}
		nd.raw = []byte{0xff}
		return "payload_byte"
	case 9: // bad UTF-8 appended to a string-like payload
		if nd.typ == protowire.BytesType && !nd.sub {
			nd.raw = append(append([]byte(nil), nd.raw...), msgBadStrings[c.Intn(len(msgBadStrings))]...)
			return "bad_utf8"
		}
		nd.tagLen = 10
		return "tag_nonminimal"
	case 10: // start a group that never ends / nest groups
		nd.typ = protowire.StartGroupType
		nd.sub, nd.kids, nd.noEnd = true, nil, c.Bool()
		return "group_open"
	case 11: // packed <-> single for scalars: wrap the value in a LEN payload
		if nd.typ != protowire.BytesType && nd.typ != protowire.StartGroupType {
			k := 1 + c.Intn(3)
			nd.raw = bytes.Repeat(nd.raw, k)
			if c.Intn(3) == 0 && len(nd.raw) > 0 {
				nd.raw = nd.raw[:len(nd.raw)-1] // truncated last element
			}
			nd.typ = protowire.BytesType
			return "to_packed"
		}
		if nd.typ == protowire.BytesType && !nd.sub {
			// packed payload -> drop a byte inside
			if len(nd.raw) > 1 {
				i := c.Intn(len(nd.raw))
				nd.raw = append(append([]byte(nil), nd.raw[:i]...), nd.raw[i+1:]...)
			}
			return "packed_cut"
		}
		return "none"
	case 12: // duplicate the node (repeated occurrence)
		*roots = append(*roots, nd)
		return "duplicate"
	case 13: // empty the content
		nd.raw, nd.kids = nil, nil
		return "empty"
	case 14: // random value bytes
		nd.raw, nd.sub = c.Bytes(c.Intn(12)), false
		return "random_value"
	default: // reserved wire types 6/7
		nd.typ = protowire.Type(6 + c.Intn(2))
		nd.sub = false
		return "reserved_type"
	}
}

// ---------------------------------------------------------------- nesting

// dectotMsgFields returns the fields of md (and registered extensions) whose values are messages.
func dectotMsgFields(md protoreflect.MessageDescriptor) []protoreflect.FieldDescriptor {
	var out []protoreflect.FieldDescriptor
	fds := md.Fields()
	for i := 0; i < fds.Len(); i++ {
		fd := fds.Get(i)
		if fd.IsMap() {
			if fd.MapValue().Message() != nil {
				out = append(out, fd)
			}
			continue
		}
		if fd.Message() != nil {
			out = append(out, fd)
		}
	}
	for _, xd := range msgExtensionsOf(md) {
		if xd.Message() != nil && !xd.IsMap() {
			out = append(out, xd)
		}
	}
	return out
}

// dectotNest builds an encoding nested `levels` message levels below md along random
// message-typed fields (sub-messages, groups, lists, map values); returns the bytes and whether
// a message-typed extension or a map was used on the way.
func dectotNest(c *Ctx, md protoreflect.MessageDescriptor, levels int, leaf []byte) (b []byte, viaExt bool, cost int) {
	return dectotNestFn(c, md, levels, func(protoreflect.MessageDescriptor) ([]byte, int) { return leaf, 0 }, nil, false)
}

// dectotNestFn: the innermost content is built by leafFn from the innermost message type (it
// returns the bytes and the levels they need below that message); entryExtra is added to every
// map entry on the way (next to key and value); preferMap steers the path through map fields.
func dectotNestFn(c *Ctx, md protoreflect.MessageDescriptor, levels int,
	leafFn func(protoreflect.MessageDescriptor) ([]byte, int), entryExtra []byte, preferMap bool) (b []byte, viaExt bool, cost int) {
	var path []protoreflect.FieldDescriptor
	cur := md
	for i := 0; i < levels; i++ {
		cands := dectotMsgFields(cur)
		if len(cands) == 0 {
			break
		}
		// prefer fields that can continue
		var fd protoreflect.FieldDescriptor
		for try := 0; try < 4; try++ {
			fd = cands[c.Intn(len(cands))]
			if preferMap && !fd.IsMap() && try < 3 {
				continue
			}
			next := fd.Message()
			if fd.IsMap() {
				next = fd.MapValue().Message()
			}
			if len(dectotMsgFields(next)) > 0 {
				break
			}
		}
		path = append(path, fd)
		if fd.IsMap() {
			cur = fd.MapValue().Message()
		} else {
			cur = fd.Message()
		}
	}
	inner, leafCost := leafFn(cur)
	cost = 1 + leafCost
	for i := len(path) - 1; i >= 0; i-- {
		fd := path[i]
		var out []byte
		switch {
		case fd.IsMap():
			var entry []byte
			if c.Bool() {
				entry = msgAppendScalarField(entry, 1, fd.MapKey(), msgScalar(c, fd.MapKey(), false))
			}
			if entryExtra != nil && c.Bool() {
				entry = append(entry, entryExtra...)
			}
			entry = protowire.AppendTag(entry, 2, protowire.BytesType)
			entry = protowire.AppendBytes(entry, inner)
			if entryExtra != nil && c.Bool() {
				entry = append(entry, entryExtra...)
			}
			out = protowire.AppendTag(out, fd.Number(), protowire.BytesType)
			out = protowire.AppendBytes(out, entry)
			cost += 2
		case fd.Kind() == protoreflect.GroupKind:
			out = protowire.AppendTag(out, fd.Number(), protowire.StartGroupType)
			out = append(out, inner...)
			out = protowire.AppendTag(out, fd.Number(), protowire.EndGroupType)
			cost++
		default:
			out = protowire.AppendTag(out, fd.Number(), protowire.BytesType)
			out = protowire.AppendBytes(out, inner)
			cost++
		}
		if fd.IsExtension() {
			viaExt = true
		}
		inner = out
	}
	return inner, viaExt, cost
}

// ---------------------------------------------------------------- running the implementation

type dectotTarget struct {
	mt        protoreflect.MessageType
	md        protoreflect.MessageDescriptor
	id        string
	fast      bool // generated table-driven type whose decoder is the modelled one
	validable bool // impl.Validate can judge it
	exact     bool // recursion counter threaded through every nested message
	lazy      bool
}

func dectotClass(err error) string {
	if err == nil {
		return "ok"
	}
	if strings.Contains(err.Error(), "required field") {
		return "e4"
	}
	return msgErrClass(err)
}

type dectotOut struct {
	m     protoreflect.Message
	class string
	pan   interface{}
}

func dectotUnmarshal(newm func() protoreflect.Message, b []byte, o proto.UnmarshalOptions) (out dectotOut) {
	defer func() {
		if r := recover(); r != nil {
			out.pan = r
			out.class = "panic"
		}
	}()
	out.m = newm()
	err := o.Unmarshal(b, out.m.Interface())
	out.class = dectotClass(err)
	return out
}

func dectotValidate(mt protoreflect.MessageType, b []byte, limit int) (st impl.ValidationStatus, init bool, pan interface{}) {
	defer func() {
		if r := recover(); r != nil {
			pan = r
		}
	}()
	out, s := impl.Validate(mt, protoiface.UnmarshalInput{Buf: b, Depth: limit})
	return s, out.Flags&protoiface.UnmarshalInitialized != 0, nil
}

// dectotMethodFlags calls the Unmarshal fast-path method directly and returns its output flags.
func dectotMethodFlags(mt protoreflect.MessageType, b []byte, limit int, nolazy bool) (init bool, err error, pan interface{}) {
	defer func() {
		if r := recover(); r != nil {
			pan = r
		}
	}()
	m := mt.New()
	methods := m.ProtoMethods()
	if methods == nil || methods.Unmarshal == nil {
		return false, nil, nil
	}
	if limit == 0 {
		limit = protowire.DefaultRecursionLimit
	}
	in := protoiface.UnmarshalInput{Message: m, Buf: b, Resolver: protoregistry.GlobalTypes, Depth: limit}
	if nolazy {
		in.Flags |= protoiface.UnmarshalNoLazyDecoding
	}
	out, err := methods.Unmarshal(in)
	return out.Flags&protoiface.UnmarshalInitialized != 0, err, nil
}

func dectotCheckInit(m protoreflect.Message) (ok bool, pan interface{}) {
	defer func() {
		if r := recover(); r != nil {
			pan = r
		}
	}()
	return proto.CheckInitialized(m.Interface()) == nil, nil
}

// dectotKnown recognises the recorded findings that make the C06 oracle fire.
//
//	FWB3  the recursion counter restarts at every message-typed extension value (and legacy
//	      message value): the disagreement disappears when the input is judged without a limit
//	      that matters, and the type reaches such a value.
func dectotKnownDepthRestart(c *Ctx, t *dectotTarget, b []byte, limit int) bool {
	if t.exact {
		return false
	}
	// the validator (which threads the counter) accepts the input at an unreachable limit
	st, _, _ := dectotValidate(t.mt, b, 1<<30)
	if st != impl.ValidationValid {
		return false
	}
	c.Known("FWB3", "C06", "recursion limit restarts at a message-typed extension / legacy message value")
	c.Stat("known_FWB3")
	return true
}

// dectotMapWtAtLimit recognises finding FWB4: in a message that sits exactly at the recursion
// limit (rem = levels still available below it = 0) a map-typed field occurs with a wire type
// other than LEN.  consumeMap decrements the depth before it looks at the wire type and fails
// with the recursion-depth error; the validator skips the occurrence as an unknown field.
func dectotMapWtAtLimit(md protoreflect.MessageDescriptor, b []byte, rem int) bool {
	chunks, ok := msgSplitFields(b)
	if !ok {
		return false
	}
	for _, ch := range chunks {
		fd := msgFindField(md, ch.num)
		if fd == nil {
			continue
		}
		switch {
		case fd.IsMap():
			if ch.typ != protowire.BytesType {
				if rem == 0 {
					return true
				}
				continue
			}
			if vm := fd.MapValue().Message(); vm != nil && rem >= 2 {
				entry, n := protowire.ConsumeBytes(ch.val)
				if n < 0 {
					continue
				}
				es, ok := msgSplitFields(entry)
				if !ok {
					continue
				}
				for _, e := range es {
					if e.num == 2 && e.typ == protowire.BytesType {
						if p, k := protowire.ConsumeBytes(e.val); k >= 0 && dectotMapWtAtLimit(vm, p, rem-2) {
							return true
						}
					}
				}
			}
		case fd.Message() != nil && rem >= 1:
			if fd.Kind() == protoreflect.GroupKind && ch.typ == protowire.StartGroupType {
				if p, n := protowire.ConsumeGroup(ch.num, ch.val); n >= 0 && dectotMapWtAtLimit(fd.Message(), p, rem-1) {
					return true
				}
			}
			if fd.Kind() == protoreflect.MessageKind && ch.typ == protowire.BytesType {
				if p, n := protowire.ConsumeBytes(ch.val); n >= 0 && dectotMapWtAtLimit(fd.Message(), p, rem-1) {
					return true
				}
			}
		}
	}
	return false
}

// dectotFL1Class recognises the consequence of finding FL1 for the validator: a repeated string
// extension with enforced UTF-8 carries an invalid string (the table-driven decoder has no
// validating coder for it and accepts; the validator rejects).
func dectotFL1Class(md protoreflect.MessageDescriptor, b []byte, depth int) bool {
	chunks, ok := msgSplitFields(b)
	if !ok || depth < 0 {
		return false
	}
	for _, ch := range chunks {
		fd := msgFindField(md, ch.num)
		if fd == nil {
			continue
		}
		if fd.IsExtension() && fd.IsList() && fd.Kind() == protoreflect.StringKind && strs.EnforceUTF8(fd) && ch.typ == protowire.BytesType {
			if p, n := protowire.ConsumeBytes(ch.val); n >= 0 && !utf8.Valid(p) {
				return true
			}
		}
		sub := fd.Message()
		if sub == nil || fd.IsMap() {
			continue
		}
		if ch.typ == protowire.BytesType && fd.Kind() == protoreflect.MessageKind {
			if p, n := protowire.ConsumeBytes(ch.val); n >= 0 && dectotFL1Class(sub, p, depth-1) {
				return true
			}
		}
		if ch.typ == protowire.StartGroupType && fd.Kind() == protoreflect.GroupKind {
			if p, n := protowire.ConsumeGroup(ch.num, ch.val); n >= 0 && dectotFL1Class(sub, p, depth-1) {
				return true
			}
		}
	}
	return false
}

// dectotFWB5Class recognises finding FWB5 on a decoded message: somewhere in it a oneof holds a
// member that is not the first member of its oneof, is message-typed, and whose value lacks a
// required field.  initOneofFieldCoders installs isInit only on the first member's coder, so
// the decode loop ignores the "not initialized" result of any other member.
func dectotFWB5Class(m protoreflect.Message, depth int) bool {
	found := false
	if depth < 0 {
		return false
	}
	m.Range(func(fd protoreflect.FieldDescriptor, v protoreflect.Value) bool {
		switch {
		case fd.IsMap():
			if fd.MapValue().Message() != nil {
				v.Map().Range(func(_ protoreflect.MapKey, mv protoreflect.Value) bool {
					found = found || dectotFWB5Class(mv.Message(), depth-1)
					return !found
				})
			}
		case fd.IsList():
			if fd.Message() != nil {
				for i := 0; i < v.List().Len() && !found; i++ {
					found = dectotFWB5Class(v.List().Get(i).Message(), depth-1)
				}
			}
		case fd.Message() != nil:
			if od := fd.ContainingOneof(); od != nil && !od.IsSynthetic() && od.Fields().Get(0).Number() != fd.Number() &&
				proto.CheckInitialized(v.Message().Interface()) != nil {
				found = true
			} else {
				found = dectotFWB5Class(v.Message(), depth-1)
			}
		}
		return !found
	})
	return found
}

func dectotOne(c *Ctx, t *dectotTarget, b []byte, limit int, what string) {
	c.Stat("in_" + what)
	name := string(t.md.FullName())
	fail := func(msg string) {
		c.PropFail("C06", msg+" ("+name+", "+what+fmt.Sprintf(", limit=%d)", limit), HexB(b))
	}
	lim := limit
	if lim == 0 {
		lim = protowire.DefaultRecursionLimit
	}
	// cap == len: any read beyond the input is a slice-bounds panic
	tight := make([]byte, len(b))
	copy(tight, b)
	tight = tight[:len(b):len(b)]
	newGen := func() protoreflect.Message { return t.mt.New() }
	newDyn := func() protoreflect.Message { return dynamicpb.NewMessage(t.md) }

	if t.fast {
		if msgLegacyReach(t.md) && msgFB1Class(t.md, b) {
			c.Stat("skipped_FB1")
			return
		}
		eager := dectotUnmarshal(newGen, tight, proto.UnmarshalOptions{AllowPartial: true, RecursionLimit: limit, NoLazyDecoding: true})
		if eager.pan != nil {
			fail(fmt.Sprintf("panic in Unmarshal (eager): %v", eager.pan))
			return
		}
		c.Stat("eager_" + eager.class)
		if eager.class == "e9" {
			c.Sample("unclassified error: " + msgLastOtherErr)
		}
		strict := dectotUnmarshal(newGen, tight, proto.UnmarshalOptions{RecursionLimit: limit, NoLazyDecoding: true})
		if strict.pan != nil {
			fail(fmt.Sprintf("panic in Unmarshal (strict): %v", strict.pan))
			return
		}
		if t.lazy {
			lz := dectotUnmarshal(newGen, tight, proto.UnmarshalOptions{AllowPartial: true, RecursionLimit: limit})
			if lz.pan != nil {
				fail(fmt.Sprintf("panic in Unmarshal (lazy): %v", lz.pan))
			} else if (lz.class == "ok") != (eager.class == "ok") {
				fail("lazy and eager Unmarshal verdicts differ: " + lz.class + " vs " + eager.class)
			} else if lz.class != eager.class {
				c.Stat("lazy_error_class_differs")
			}
			if lz.pan == nil && lz.class != "ok" {
				dectotAfterFailure(c, t, lz.m, tight, fail)
			}
		}
		// over-read: the same input followed by bytes that would continue a valid parse
		if c.Intn(4) == 0 {
			big := append(append([]byte(nil), b...), 0x08, 0x01, 0x00, 0x80, 0x80)
			over := dectotUnmarshal(newGen, big[:len(b)], proto.UnmarshalOptions{AllowPartial: true, RecursionLimit: limit, NoLazyDecoding: true})
			if over.class != eager.class || (over.class == "ok" && !msgEqualToks(msgDump(over.m), msgDump(eager.m))) {
				fail("result depends on bytes after the end of the input")
			}
		}
		var ci, fwb5 bool
		if eager.class == "ok" {
			var pan interface{}
			ci, pan = dectotCheckInit(eager.m)
			if pan != nil {
				fail(fmt.Sprintf("panic in CheckInitialized: %v", pan))
				return
			}
			want := "ok"
			if !ci {
				want = "e4"
			}
			if strict.class != want {
				// (FWB5, repaired in /repo by 4b33314: the witness stays in the corpus, a regression is a failure)
				fwb5 = strict.class == "ok" && dectotFWB5Class(eager.m, 50)
				fail("strict Unmarshal verdict " + strict.class + " but CheckInitialized says " + want)
			}
			c.Stat(fmt.Sprintf("checkinit_%v", ci))
		} else if strict.class != eager.class {
			fail("strict and AllowPartial Unmarshal fail differently: " + strict.class + " vs " + eager.class)
		}
		uinit, uerr, upan := dectotMethodFlags(t.mt, tight, limit, true)
		if upan != nil {
			fail(fmt.Sprintf("panic in methods.Unmarshal: %v", upan))
		} else if (uerr == nil) != (eager.class == "ok") {
			fail("methods.Unmarshal and proto.Unmarshal verdicts differ")
		} else if uerr == nil && uinit && !ci {
			fwb5 = fwb5 || dectotFWB5Class(eager.m, 50)
			fail("Unmarshal reports a partial message as initialized")
		}
		if t.validable {
			st, vinit, pan := dectotValidate(t.mt, tight, limit)
			if pan != nil {
				fail(fmt.Sprintf("panic in Validate: %v", pan))
				return
			}
			c.Stat(fmt.Sprintf("validate_%d", int(st)))
			switch {
			case st == impl.ValidationValid && eager.class != "ok":
				if eager.class == "e2" && dectotMapWtAtLimit(t.md, b, lim-1) {
					c.Known("FWB4", "C06", "a map field with a non-LEN wire type at the recursion limit fails with the depth error")
					c.Stat("known_FWB4")
				} else if !dectotKnownDepthRestart(c, t, b, limit) {
					fail("Validate = Valid but Unmarshal fails with " + eager.class)
				}
			case st == impl.ValidationInvalid && eager.class == "ok":
				if dectotFL1Class(t.md, b, 100) {
					c.Known("FL1", "C06", "repeated string extension: the validator checks UTF-8, the table-driven decoder does not")
					c.Stat("known_FL1")
				} else if !dectotKnownDepthRestart(c, t, b, limit) {
					fail("Validate = Invalid but Unmarshal succeeds")
				}
			case st == impl.ValidationUnknown:
				fail("Validate = Unknown for a type without aberrant messages")
			case st == impl.ValidationValid && vinit && !ci:
				fail("Validate reports a partial message as initialized")
			}
			c.Case("dectot", "val", []string{t.id, HexN(uint64(lim)), HexB(b)}, []string{HexN(uint64(st)), Tok(vinit)})
		}
		if (t.exact || limit == 0) && !fwb5 {
			// (with FWB5 the strict verdict is not "AllowPartial verdict, then CheckInitialized")
			c.Case("dectot", "dec", []string{t.id, "f", HexN(uint64(lim)), HexB(b)}, []string{strict.class})
		}
		if eager.class == "ok" {
			dectotRoundTrip(c, t, eager.m, ci, fail)
		}
	}
	// reflection path
	slow := dectotUnmarshal(newDyn, tight, proto.UnmarshalOptions{RecursionLimit: limit})
	if slow.pan != nil {
		fail(fmt.Sprintf("panic in Unmarshal (dynamicpb): %v", slow.pan))
		return
	}
	c.Stat("slow_" + slow.class)
	if msgLegacyReach(t.md) && msgFB1Class(t.md, b) {
		return
	}
	if t.exact || limit == 0 {
		c.Case("dectot", "dec", []string{t.id, "s", HexN(uint64(lim)), HexB(b)}, []string{slow.class})
	}
}

// dectotAfterFailure: a message that a failed (lazy) Unmarshal left behind must still be usable:
// Size/Marshal/Range return and a merging Unmarshal returns (an error or nil), never panics.
// Finding FWB1: the retained buffer of the failed call has no index, and building one fails.
func dectotAfterFailure(c *Ctx, t *dectotTarget, m protoreflect.Message, b []byte, fail func(string)) {
	try := func(what string, f func()) {
		defer func() {
			if r := recover(); r != nil {
				s := fmt.Sprint(r)
				if strings.Contains(s, "findFieldInfo: error building index") || strings.Contains(s, "lazyUnmarshal: can't find field data") {
					c.Known("FWB1", "C06", "a failed lazy Unmarshal leaves a message whose lazy fields panic on access / merge-Unmarshal")
					c.Stat("known_FWB1")
					return
				}
				fail("panic in " + what + " after a failed Unmarshal: " + s)
			}
		}()
		f()
	}
	try("Unmarshal{Merge}", func() {
		proto.UnmarshalOptions{Merge: true, AllowPartial: true}.Unmarshal(b, m.Interface())
	})
	try("Size", func() { proto.Size(m.Interface()) })
	try("Range", func() { msgDump(m) })
	c.Stat("after_failure_probes")
}

// dectotRoundTrip: the second half of the wirefuzz oracle for a successfully decoded message.
func dectotRoundTrip(c *Ctx, t *dectotTarget, m protoreflect.Message, ci bool, fail func(string)) {
	defer func() {
		if r := recover(); r != nil {
			fail(fmt.Sprintf("panic in the round trip of a decoded message: %v", r))
		}
	}()
	b1, err := proto.MarshalOptions{AllowPartial: !ci}.Marshal(m.Interface())
	if err != nil {
		fail("Marshal of a decoded message fails: " + dectotClass(err))
		return
	}
	if sz := proto.Size(m.Interface()); sz != len(b1) {
		fail(fmt.Sprintf("Size = %d but len(Marshal) = %d for a decoded message", sz, len(b1)))
	}
	m2 := t.mt.New()
	if err := (proto.UnmarshalOptions{AllowPartial: !ci, NoLazyDecoding: true}).Unmarshal(b1, m2.Interface()); err != nil {
		fail("Unmarshal(Marshal(decoded)) fails: " + dectotClass(err))
		return
	}
	if !proto.Equal(m.Interface(), m2.Interface()) {
		fail("Unmarshal(Marshal(decoded)) is not Equal to decoded")
	}
	if t.validable {
		st, vinit, pan := dectotValidate(t.mt, b1, 0)
		if pan != nil || st != impl.ValidationValid {
			if !(st == impl.ValidationInvalid && !t.exact) { // deeper than the limit through an extension (FWB3)
				fail(fmt.Sprintf("re-marshalled message is not Valid (status %d)", int(st)))
			}
		} else if ci && !vinit {
			fail("Validate reports an initialized normalised message as partial")
		}
		if ci {
			if uinit, uerr, _ := dectotMethodFlags(t.mt, b1, 0, true); uerr == nil && !uinit {
				fail("Unmarshal reports an initialized normalised message as partial")
			}
		}
	}
}

// ---------------------------------------------------------------- inputs

func dectotFill(c *Ctx, t *dectotTarget, depth int) ([]byte, bool) {
	var det []byte
	ok := true
	func() {
		defer func() {
			if r := recover(); r != nil {
				ok = false
			}
		}()
		m := t.mt.New()
		budget := 8 + c.Intn(60)
		if c.Intn(5) == 0 {
			budget = 100 + c.Intn(150)
		}
		msgRandomFillOpts(c, m, depth, msgFillOpts{budget: &budget, badUTF8: false, unknown: true, dense: c.Intn(8) == 0})
		var err error
		det, err = msgDetOpts.Marshal(m.Interface())
		if err != nil {
			ok = false
		}
	}()
	return det, ok
}

func dectotLimitFor(c *Ctx, t *dectotTarget) int {
	if c.Intn(3) != 0 {
		return 0
	}
	return 1 + c.Intn(6)
}

// dectotBase runs every G-MUT derivative of one random valid content.
func dectotBase(c *Ctx, t *dectotTarget) {
	det, ok := dectotFill(c, t, 1+c.Intn(3))
	if !ok {
		c.Stat("fill_failed")
		return
	}
	det2, ok2 := dectotFill(c, t, 1+c.Intn(2))
	dectotOne(c, t, det, 0, "valid")
	dectotOne(c, t, msgRewrite(c, t.md, det, 3), dectotLimitFor(c, t), "rewrite")
	if ok2 {
		dectotOne(c, t, append(append([]byte(nil), det...), det2...), 0, "concat")
		if len(det) > 0 && len(det2) > 0 {
			i, j := c.Intn(len(det)+1), c.Intn(len(det2)+1)
			dectotOne(c, t, append(append([]byte(nil), det[:i]...), det2[j:]...), 0, "splice")
		}
	}
	// truncation: every offset of short encodings, sampled offsets of longer ones
	if len(det) <= 48 {
		for i := 0; i < len(det); i++ {
			dectotOne(c, t, det[:i], 0, "truncate")
		}
	} else {
		for k := 0; k < 24; k++ {
			dectotOne(c, t, det[:c.Intn(len(det))], 0, "truncate")
		}
	}
	// local defects in an otherwise well-formed encoding
	for k := 0; k < 10; k++ {
		src := det
		if k%3 == 2 && ok2 {
			src = det2
		}
		roots, okp := dectotParse(t.md, src, 6)
		if !okp {
			break
		}
		d := dectotDefect(c, &roots)
		if c.Intn(4) == 0 {
			dectotDefect(c, &roots)
			d = "two_defects"
		}
		dectotOne(c, t, dectotRender(nil, roots), dectotLimitFor(c, t), "defect")
		c.Stat("defect_" + d)
	}
	// byte-level damage
	for k := 0; k < 4; k++ {
		dectotOne(c, t, msgMutate(c, det), dectotLimitFor(c, t), "bytemut")
	}
	// groups: balanced, mismatched, unterminated, crossed
	for k := 0; k < 3; k++ {
		if !dectotGroupAimed(c, t) {
			break
		}
	}
}

// dectotDeep: nesting around the recursion limit, with small custom limits.
func dectotDeep(c *Ctx, t *dectotTarget) {
	levels := c.Intn(9)
	b, _, cost := dectotNest(c, t.md, levels, nil)
	for _, d := range []int{-1, 0, 1} {
		lim := cost + d
		if lim < 1 {
			continue
		}
		dectotOne(c, t, b, lim, "nest")
	}
	if c.Intn(3) == 0 {
		dectotOne(c, t, b, 0, "nest")
	}
}

// dectotGroupFields lists the group-typed fields of md and of the messages one level below it.
func dectotGroupAimed(c *Ctx, t *dectotTarget) bool {
	type cand struct {
		outer protoreflect.FieldDescriptor // nil: the group field is a field of md
		fd    protoreflect.FieldDescriptor
	}
	var cands []cand
	scan := func(md protoreflect.MessageDescriptor, outer protoreflect.FieldDescriptor) {
		fds := md.Fields()
		for i := 0; i < fds.Len(); i++ {
			if fd := fds.Get(i); fd.Kind() == protoreflect.GroupKind {
				cands = append(cands, cand{outer, fd})
			}
		}
		for _, xd := range msgExtensionsOf(md) {
			if xd.Kind() == protoreflect.GroupKind {
				cands = append(cands, cand{outer, xd})
			}
		}
	}
	scan(t.md, nil)
	fds := t.md.Fields()
	for i := 0; i < fds.Len(); i++ {
		if fd := fds.Get(i); fd.Kind() == protoreflect.MessageKind && !fd.IsMap() {
			scan(fd.Message(), fd)
		}
	}
	if len(cands) == 0 {
		return false
	}
	cd := cands[c.Intn(len(cands))]
	num := cd.fd.Number()
	var content []byte
	if sub := lazyTypeOf(cd.fd.Message()); sub != nil && c.Bool() {
		content = lazyFillBytes(c, sub, 1, 6)
	}
	end := num
	what := "group_ok"
	switch c.Intn(6) {
	case 0:
		end = num + 1
		what = "group_mismatch"
	case 1:
		end = num - 1
		if end < 1 {
			end = num + 2
		}
		what = "group_mismatch"
	case 2:
		end = 0 // no end marker
		what = "group_unterminated"
	case 3:
		// an inner group of another number closes first
		content = append(content, protowire.AppendTag(nil, num+7, protowire.StartGroupType)...)
		content = append(content, protowire.AppendTag(nil, num, protowire.EndGroupType)...)
		what = "group_crossed"
	}
	b := protowire.AppendTag(nil, num, protowire.StartGroupType)
	b = append(b, content...)
	if end != 0 {
		b = protowire.AppendTag(b, end, protowire.EndGroupType)
	}
	if c.Intn(3) == 0 {
		b = append(b, protowire.AppendTag(nil, num, protowire.EndGroupType)...) // a stray end marker after the group
		what = "group_stray_end"
	}
	if cd.outer != nil {
		b = protowire.AppendBytes(protowire.AppendTag(nil, cd.outer.Number(), protowire.BytesType), b)
	}
	dectotOne(c, t, b, dectotLimitFor(c, t), what)
	return true
}

// dectotBoundaryField returns one field whose number sits at a boundary the decoders check
// (2^29-1 is the largest valid number; tags up to 2^31-1 still fit protowire.ConsumeTag), with a
// minimal or padded tag, and a value of a random wire type.
func dectotBoundaryField(c *Ctx) []byte {
	nums := []uint64{1<<29 - 1, 1 << 29, 1<<29 + 1, 1<<31 - 1, 1 << 31, 1<<32 - 1, 1 << 29, 1 << 29, 1<<29 - 2, 0}
	num := nums[c.Intn(len(nums))]
	typ := []uint64{0, 2, 5, 1, 0}[c.Intn(5)]
	tag := num<<3 | typ
	pad := 0
	if c.Intn(3) == 0 {
		pad = protowire.SizeVarint(tag) + 1 + c.Intn(3)
		if pad > 10 {
			pad = 10
		}
	}
	b := dectotVarintN(nil, tag, pad)
	switch typ {
	case 0:
		b = append(b, byte(c.Intn(2)))
	case 2:
		b = append(b, 0)
	case 5:
		b = append(b, 0, 0, 0, 0)
	case 1:
		b = append(b, 0, 0, 0, 0, 0, 0, 0, 0)
	}
	return b
}

// dectotBoundary: a boundary-numbered field in every nesting context -- top level, sub-messages,
// groups, extension values, oneof members, and map entries (before / after key and value, and
// inside message values).
func dectotBoundary(c *Ctx, t *dectotTarget) {
	extra := dectotBoundaryField(c)
	// directly: an entry of each kind of map (scalar / message value) with the extra field
	var maps []protoreflect.FieldDescriptor
	for i, fds := 0, t.md.Fields(); i < fds.Len(); i++ {
		if fds.Get(i).IsMap() {
			maps = append(maps, fds.Get(i))
		}
	}
	if len(maps) > 0 && c.Bool() {
		fd := maps[c.Intn(len(maps))]
		for try := 0; try < 3 && fd.MapValue().Message() == nil; try++ {
			fd = maps[c.Intn(len(maps))]
		}
		var entry []byte
		pos := c.Intn(3)
		if pos == 0 {
			entry = append(entry, extra...)
		}
		entry = msgAppendScalarField(entry, 1, fd.MapKey(), msgScalar(c, fd.MapKey(), false))
		if pos == 1 {
			entry = append(entry, extra...)
		}
		if fd.MapValue().Message() != nil {
			entry = append(protowire.AppendTag(entry, 2, protowire.BytesType), 0)
		} else {
			entry = msgAppendScalarField(entry, 2, fd.MapValue(), msgScalar(c, fd.MapValue(), false))
		}
		if pos == 2 {
			entry = append(entry, extra...)
		}
		dectotOne(c, t, protowire.AppendBytes(protowire.AppendTag(nil, fd.Number(), protowire.BytesType), entry), 0, "boundary_tag_entry")
		return
	}
	levels := c.Intn(4)
	inLeaf := c.Intn(3) != 0
	b, _, _ := dectotNestFn(c, t.md, levels, func(protoreflect.MessageDescriptor) ([]byte, int) {
		if inLeaf {
			return extra, 0
		}
		return nil, 0
	}, extra, c.Bool())
	dectotOne(c, t, b, 0, "boundary_tag")
}

// dectotSiblings: breadth instead of depth -- N sequential occurrences (N well above the
// recursion limit) of one depth-consuming construct (group, sub-message, map entry with or
// without a message value, packed list) at a shallow real depth, with a small custom limit that
// the real nesting fits: the verdict must not depend on the number of siblings.
func dectotSiblingBytes(c *Ctx, md protoreflect.MessageDescriptor, n int) ([]byte, int) {
	cands := dectotMsgFields(md)
	var groups []protoreflect.FieldDescriptor
	for _, fd := range cands {
		if fd.Kind() == protoreflect.GroupKind {
			groups = append(groups, fd)
		}
	}
	fds := md.Fields()
	for i := 0; i < fds.Len(); i++ {
		if fd := fds.Get(i); fd.IsMap() && fd.MapValue().Message() == nil {
			cands = append(cands, fd) // scalar-valued maps consume a level too
		}
	}
	if len(cands) == 0 {
		return nil, 0
	}
	fd := cands[c.Intn(len(cands))]
	if len(groups) > 0 && c.Bool() {
		fd = groups[c.Intn(len(groups))]
	}
	var one []byte
	cost := 1
	switch {
	case fd.IsMap():
		var entry []byte
		if c.Bool() {
			entry = msgAppendScalarField(entry, 1, fd.MapKey(), msgScalar(c, fd.MapKey(), false))
		}
		if fd.MapValue().Message() != nil && c.Bool() {
			entry = append(protowire.AppendTag(entry, 2, protowire.BytesType), 0)
			cost = 2
		}
		one = protowire.AppendBytes(protowire.AppendTag(nil, fd.Number(), protowire.BytesType), entry)
	case fd.Kind() == protoreflect.GroupKind:
		one = protowire.AppendTag(protowire.AppendTag(nil, fd.Number(), protowire.StartGroupType), fd.Number(), protowire.EndGroupType)
	default:
		one = append(protowire.AppendTag(nil, fd.Number(), protowire.BytesType), 0)
	}
	return bytes.Repeat(one, n), cost
}

func dectotSiblings(c *Ctx, t *dectotTarget) {
	slack := c.Intn(3)
	n := 0
	b, _, cost := dectotNestFn(c, t.md, c.Intn(3), func(md protoreflect.MessageDescriptor) ([]byte, int) {
		n = 8 + c.Intn(8)
		return dectotSiblingBytes(c, md, n+14)
	}, nil, false)
	limit := cost + slack // the real nesting fits; there are more siblings than levels
	if limit < 1 || limit > 20 {
		return
	}
	dectotOne(c, t, b, limit, "siblings")
	if slack == 0 && limit > 1 {
		dectotOne(c, t, b, limit-1, "siblings")
	}
}

func dectotRandom(c *Ctx, t *dectotTarget) {
	if c.Intn(3) == 0 && dectotGroupAimed(c, t) {
		return
	}
	switch c.Intn(3) {
	case 0:
		dectotOne(c, t, c.Bytes(c.Intn(24)), 0, "random")
	case 1:
		// random tags of declared fields followed by random bytes
		var b []byte
		fds := t.md.Fields()
		for k := c.Intn(4); k >= 0 && fds.Len() > 0; k-- {
			fd := fds.Get(c.Intn(fds.Len()))
			b = protowire.AppendTag(b, fd.Number(), protowire.Type(c.Intn(6)))
			b = append(b, c.Bytes(c.Intn(6))...)
		}
		dectotOne(c, t, b, dectotLimitFor(c, t), "random_known_tags")
	default:
		// well-formed wire data of random shape
		var b []byte
		for k := c.Intn(4); k >= 0; k-- {
			num := protowire.Number(1 + c.Intn(30))
			if fds := t.md.Fields(); fds.Len() > 0 && c.Bool() {
				num = fds.Get(c.Intn(fds.Len())).Number()
			}
			typ := []protowire.Type{0, 1, 2, 5, 3}[c.Intn(5)]
			b = protowire.AppendTag(b, num, typ)
			b = msgGenWireValue(c, b, num, typ, 2)
		}
		dectotOne(c, t, b, dectotLimitFor(c, t), "random_wellformed")
	}
}

// ---------------------------------------------------------------- corpus

func dectotFind(c *Ctx, targets []*dectotTarget, name string) *dectotTarget {
	for _, t := range targets {
		if string(t.md.FullName()) == name {
			return t
		}
	}
	c.PropFail("C06", "corpus type not linked: "+name)
	return nil
}

func dectotCorpus(c *Ctx, targets []*dectotTarget) {
	ensure := func(t *dectotTarget) {
		if t.id == "" {
			t.id = msgSchemaOf(c, t.md)
		}
	}
	// FWB3: 50 levels through a message-typed extension with RecursionLimit 5 decode; the validator rejects
	if t := dectotFind(c, targets, "goproto.proto.test.TestAllExtensions"); t != nil {
		ensure(t)
		var inner []byte
		for i := 0; i < 50; i++ {
			num := protowire.Number(18)
			if (50-i)%2 == 0 {
				num = 2
			}
			inner = protowire.AppendBytes(protowire.AppendTag(nil, num, protowire.BytesType), inner)
		}
		before := c.stats["known_FWB3"]
		dectotOne(c, t, inner, 5, "corpus_FWB3")
		if c.stats["known_FWB3"] == before {
			c.Stat("FWB3_witness_passes")
		}
	}
	// the default limit on a plain recursive type: 10000 levels decode, 10001 do not (P lines only:
	// the model would need quadratic time on this input)
	if t := dectotFind(c, targets, "opaque.lazy_tree.Node"); t != nil {
		ensure(t)
		for _, levels := range []int{9999, 10000} {
			size := make([]int, levels+1)
			for i := levels - 1; i >= 0; i-- {
				size[i] = 2 + protowire.SizeBytes(size[i+1])
			}
			var b []byte
			for i := 0; i < levels; i++ {
				b = protowire.AppendTag(b, 99, protowire.BytesType)
				b = protowire.AppendVarint(b, uint64(size[i+1]))
			}
			for _, nolazy := range []bool{true, false} {
				r := dectotUnmarshal(func() protoreflect.Message { return t.mt.New() }, b, proto.UnmarshalOptions{NoLazyDecoding: nolazy})
				want := "ok"
				if levels >= 10000 {
					want = "e2"
				}
				if r.class != want && !(r.class == "e1" && want == "e2" && !nolazy) {
					c.PropFail("C06", fmt.Sprintf("%d nested levels under the default limit: %s, want %s (nolazy=%v)", levels, r.class, want, nolazy))
				}
				c.Stat("corpus_default_limit")
			}
			st, _, _ := dectotValidate(t.mt, b, 0)
			if (st == impl.ValidationValid) != (levels < 10000) {
				c.PropFail("C06", fmt.Sprintf("Validate on %d nested levels under the default limit: status %d", levels, int(st)))
			}
		}
		// boundary inputs from decode_test.go / the repository's fuzz corpus shapes
		for _, in := range [][]byte{
			{}, {0x00}, {0x08}, {0x08, 0x80}, {0x0a}, {0x0a, 0x01}, {0x0b}, {0x0c}, {0x0b, 0x0c}, {0x0b, 0x14},
			{0x9a, 0x06, 0x02, 0x08, 0x05, 0x98, 0x06, 0x07}, // F1
			{0x9a, 0x06, 0x02, 0x08, 0x05, 0x08, 0x80},       // FWB1
			{0x9a, 0x06, 0x01, 0x08}, {0x9a, 0x06, 0x03, 0x72, 0x01, 0xff},
			{0xff, 0xff, 0xff, 0xff, 0xff, 0xff, 0xff, 0xff, 0xff, 0x01, 0x00},
			{0xf8, 0xff, 0xff, 0xff, 0x0f, 0x00}, {0x80, 0x80, 0x80, 0x80, 0x80, 0x80, 0x80, 0x80, 0x80, 0x80, 0x01},
		} {
			dectotOne(c, t, in, 0, "corpus")
		}
	}
	// FWB4: a map field occurring as VARINT at RecursionLimit 1 (the message itself is the one level)
	if t := dectotFind(c, targets, "goproto.proto.test.TestAllTypes"); t != nil {
		ensure(t)
		if fd := t.md.Fields().ByName("map_int32_int32"); fd != nil {
			before := c.stats["known_FWB4"]
			dectotOne(c, t, protowire.AppendVarint(protowire.AppendTag(nil, fd.Number(), protowire.VarintType), 0), 1, "corpus_FWB4")
			if c.stats["known_FWB4"] == before {
				c.Stat("FWB4_witness_passes")
			}
			dectotOne(c, t, protowire.AppendVarint(protowire.AppendTag(nil, fd.Number(), protowire.VarintType), 0), 2, "corpus")
		}
	}
	// FL1 seen through the validator: every linked repeated string extension with enforced UTF-8
	for _, t := range targets {
		for _, xd := range msgExtensionsOf(t.md) {
			if xd.IsList() && xd.Kind() == protoreflect.StringKind && strs.EnforceUTF8(xd) && t.validable {
				ensure(t)
				b := protowire.AppendBytes(protowire.AppendTag(nil, xd.Number(), protowire.BytesType), []byte{0xff})
				before := c.stats["known_FL1"]
				dectotOne(c, t, b, 0, "corpus_FL1")
				if c.stats["known_FL1"] == before {
					c.Stat("FL1_witness_passes")
				}
			}
		}
	}
	// FWB5: the second member of a oneof is a message without its required field
	for _, n := range []string{"goproto.proto.test.TestOneofWithRequired", "opaque.goproto.proto.testeditions.TestOneofWithRequired"} {
		if t := dectotFind(c, targets, n); t != nil {
			ensure(t)
			dectotOne(c, t, []byte{0x12, 0x00}, 0, "corpus_FWB5")
			dectotOne(c, t, []byte{0x12, 0x02, 0x08, 0x01}, 0, "corpus")
			dectotOne(c, t, []byte{0x08, 0x01}, 0, "corpus")
		}
	}
	// required fields: below a list, a map value, a oneof, a group; the validator's required mask
	if t := dectotFind(c, targets, "goproto.proto.test.TestRequiredForeign"); t != nil {
		ensure(t)
		for _, in := range [][]byte{
			{}, {0x0a, 0x00}, {0x0a, 0x02, 0x08, 0x01}, {0x0a, 0x02, 0x08, 0x01, 0x0a, 0x00}, {0x0a, 0x00, 0x0a, 0x02, 0x08, 0x01},
			{0x12, 0x00}, {0x12, 0x02, 0x08, 0x01, 0x12, 0x00},
			{0x1a, 0x00}, {0x1a, 0x02, 0x08, 0x01}, {0x1a, 0x04, 0x12, 0x02, 0x08, 0x01}, {0x1a, 0x02, 0x12, 0x00},
			{0x1a, 0x06, 0x12, 0x00, 0x12, 0x02, 0x08, 0x01}, {0x1a, 0x06, 0x12, 0x02, 0x08, 0x01, 0x12, 0x00},
			{0x22, 0x00}, {0x22, 0x02, 0x08, 0x01}, {0x0a, 0x02, 0x0d, 0x01}, {0x0a, 0x05, 0x0d, 0x01, 0x00, 0x00, 0x00},
			{0x0a, 0x03, 0x0a, 0x01, 0x01},
		} {
			dectotOne(c, t, in, 0, "corpus")
		}
	}
}

// ---------------------------------------------------------------- driver

func famDectot(c *Ctx) {
	var targets []*dectotTarget
	for _, mt := range msgAllTypes() {
		md := mt.Descriptor()
		_, isMI := mt.(*impl.MessageInfo)
		legacy := msgLegacyReach(md)
		targets = append(targets, &dectotTarget{mt: mt, md: md, fast: !legacy, validable: isMI && !legacy,
			exact: msgDepthExact(mt), lazy: msgHasLazy(md)})
	}
	c.StatN("linked_types", len(targets))
	dectotCorpus(c, targets)
	// weights: the all-kinds / required / lazy families always, the rest sampled
	var core, rest []*dectotTarget
	for _, t := range targets {
		n := string(t.md.FullName())
		switch {
		case strings.Contains(n, "goproto.proto.test"), strings.Contains(n, "lazy"), strings.Contains(n, "required"),
			strings.Contains(n, "goproto.proto.fuzz"):
			core = append(core, t)
		default:
			rest = append(rest, t)
		}
	}
	sort.SliceStable(core, func(i, j int) bool { return core[i].md.FullName() < core[j].md.FullName() })
	heavy := map[string]bool{}
	for _, n := range []string{"goproto.proto.test.TestAllTypes", "goproto.proto.test3.TestAllTypes", "goproto.proto.testeditions.TestAllTypes",
		"opaque.goproto.proto.testeditions.TestAllTypes", "hybrid.goproto.proto.testeditions.TestAllTypes",
		"goproto.proto.test.TestAllExtensions", "goproto.proto.testeditions.TestAllExtensions", "goproto.proto.test3.TestAllTypes",
		"opaque.lazy_tree.Node", "goproto.proto.test.TestRequired", "goproto.proto.test.TestRequiredForeign",
		"goproto.proto.test.TestRequiredGroupFields", "opaque.goproto.proto.testeditions.TestRequiredLazy",
		"goproto.proto.test.OpaqueLazy", "goproto.proto.fuzz.Fuzz", "goproto.proto.test.TestPackedTypes", "goproto.proto.test.TestPackedExtensions",
		"goproto.proto.testeditions.TestRequiredForeign", "goproto.proto.test.FooRequest"} {
		heavy[n] = true
	}
	var heavies []*dectotTarget
	for _, t := range targets {
		if heavy[string(t.md.FullName())] {
			heavies = append(heavies, t)
		}
	}
	c.StatN("core_types", len(core))
	run := func(t *dectotTarget) {
		if t.id == "" {
			t.id = msgSchemaOf(c, t.md)
		}
		defer func() {
			if r := recover(); r != nil {
				c.PropFail("C06", fmt.Sprintf("panic in the harness or the implementation (%s): %v", t.md.FullName(), r))
			}
		}()
		switch c.Intn(8) {
		case 6:
			dectotBoundary(c, t)
			dectotBoundary(c, t)
			dectotSiblings(c, t)
		case 7:
			dectotSiblings(c, t)
			dectotSiblings(c, t)
			dectotBoundary(c, t)
		case 0:
			dectotDeep(c, t)
		case 1:
			dectotRandom(c, t)
			dectotRandom(c, t)
		default:
			dectotBase(c, t)
		}
		c.Stat("bases")
	}
	spent := 0
	// pass 1: a seed-dependent window of the core types
	start := c.Intn(len(core))
	for i := 0; i < len(core) && spent < c.N/3; i++ {
		run(core[(start+i)%len(core)])
		spent++
	}
	for spent < c.N {
		switch c.Intn(5) {
		case 0, 1:
			run(heavies[c.Intn(len(heavies))])
		case 2:
			run(core[c.Intn(len(core))])
		default:
			run(rest[c.Intn(len(rest))])
		}
		spent++
	}
}
