//go:build verif

package main

// family "jsonrt" (C20): protojson round-trips every JSON-representable message.
//
// P lines (the property's own predicate on the implementation):
//   - Unmarshal(Marshal_opts(m)) is not Equal (bit-for-bit floats) to the binary copy of m with unknown
//     fields removed, for every option set tried;
//   - Marshal fails for representable content / succeeds for unrepresentable content.
//
// Case lines (model-compared, see ocaml/fam_jsonrt.ml):
//
//	schema <id> <schema+name tokens>                         | ok
//	enc <id> <opts bits> <value dump> T <impl JSON tree>     | ok          (model tree matches) or
//	enc <id> <opts bits> <value dump> X                      | err <class> (Marshal failed)
//	dec <id> <JSON tree>                                     | ok <value dump>  or  err
//
// opts bits: 1 Multiline, 2 Indent, 4 UseProtoNames, 8 UseEnumNumbers, 16 EmitUnpopulated, 32 EmitDefaultValues.

import (
	"bytes"
	stdjson "encoding/json"
	"fmt"
	"math"
	"math/big"
	"strconv"
	"strings"

	"google.golang.org/protobuf/encoding/protojson"
	"google.golang.org/protobuf/proto"
	"google.golang.org/protobuf/reflect/protodesc"
	"google.golang.org/protobuf/reflect/protoreflect"
	"google.golang.org/protobuf/reflect/protoregistry"
	"google.golang.org/protobuf/types/descriptorpb"
	"google.golang.org/protobuf/types/dynamicpb"
)

func init() { Register("jsonrt", famJsonrt) }

func jsonrtOpts(bits int) protojson.MarshalOptions {
	o := protojson.MarshalOptions{AllowPartial: true}
	o.Multiline = bits&1 != 0
	if bits&2 != 0 {
		o.Indent = "\t "
	}
	o.UseProtoNames = bits&4 != 0
	o.UseEnumNumbers = bits&8 != 0
	o.EmitUnpopulated = bits&16 != 0
	o.EmitDefaultValues = bits&32 != 0
	return o
}

// ---------------------------------------------------------------- JSON text -> tree tokens

// jsonrtNumToken: N <text> <int or -> <f64 bits> <f32 bits>
func jsonrtNumToken(s string) []string {
	iv := "-"
	if r, ok := new(big.Rat).SetString(s); ok && r.IsInt() && !strings.ContainsAny(s, ".eE") {
		z := r.Num()
		if z.Sign() < 0 {
			iv = "-" + new(big.Int).Neg(z).Text(16)
		} else {
			iv = z.Text(16)
		}
	}
	f64, _ := strconv.ParseFloat(s, 64)
	f32, _ := strconv.ParseFloat(s, 32)
	return []string{"N", HexB([]byte(s)), iv, HexN(math.Float64bits(f64)), HexN(uint64(math.Float32bits(float32(f32))))}
}

// jsonrtTree parses JSON text with encoding/json (token stream, numbers kept as text, object
// members in the emitted order, duplicates kept) into tree tokens:
//
//	O <n> (<key xhex> <value>)...   A <n> <value>...   S <xhex>   T   F   Z   N ...
func jsonrtTree(b []byte) ([]string, error) {
	d := stdjson.NewDecoder(bytes.NewReader(b))
	d.UseNumber()
	var out []string
	var val func() error
	val = func() error {
		t, err := d.Token()
		if err != nil {
			return err
		}
		switch x := t.(type) {
		case stdjson.Delim:
			switch x {
			case '{':
				at := len(out)
				out = append(out, "O", "")
				n := 0
				for d.More() {
					k, err := d.Token()
					if err != nil {
						return err
					}
					ks, ok := k.(string)
					if !ok {
						return fmt.Errorf("object key is not a string")
					}
					out = append(out, HexB([]byte(ks)))
					if err := val(); err != nil {
						return err
					}
					n++
				}
				if _, err := d.Token(); err != nil {
					return err
				}
				out[at+1] = strconv.Itoa(n)
			case '[':
				at := len(out)
				out = append(out, "A", "")
				n := 0
				for d.More() {
					if err := val(); err != nil {
						return err
					}
					n++
				}
				if _, err := d.Token(); err != nil {
					return err
				}
				out[at+1] = strconv.Itoa(n)
			default:
				return fmt.Errorf("unexpected delimiter")
			}
		case string:
			out = append(out, "S", HexB([]byte(x)))
		case stdjson.Number:
			out = append(out, jsonrtNumToken(string(x))...)
		case bool:
			if x {
				out = append(out, "T")
			} else {
				out = append(out, "F")
			}
		case nil:
			out = append(out, "Z")
		default:
			return fmt.Errorf("unexpected token %T", t)
		}
		return nil
	}
	if err := val(); err != nil {
		return nil, err
	}
	if _, err := d.Token(); err == nil {
		return nil, fmt.Errorf("trailing data")
	}
	return out, nil
}

// ---------------------------------------------------------------- F11

// jsonrtF11Shaped: a singular explicit-presence field outside every oneof (synthetic ones included)
// whose type is google.protobuf.Value or google.protobuf.NullValue.
func jsonrtF11Shaped(fd protoreflect.FieldDescriptor) bool {
	if fd.IsList() || fd.IsMap() || !fd.HasPresence() || fd.ContainingOneof() != nil || fd.IsExtension() {
		return false
	}
	if md := fd.Message(); md != nil && md.FullName() == "google.protobuf.Value" {
		return true
	}
	if ed := fd.Enum(); ed != nil && ed.FullName() == "google.protobuf.NullValue" {
		return true
	}
	return false
}

func jsonrtIsNullish(fd protoreflect.FieldDescriptor, v protoreflect.Value) bool {
	if fd.Enum() != nil {
		return v.Enum() == 0
	}
	m := v.Message()
	n, ok := 0, false
	m.Range(func(f protoreflect.FieldDescriptor, x protoreflect.Value) bool {
		n++
		ok = f.Number() == 1 && x.Enum() == 0
		return true
	})
	return n == 1 && ok && len(m.GetUnknown()) == 0
}

// jsonrtF11Repair walks the original o and the round-trip result g in parallel and clears in g every
// F11-shaped field that is unset in o and holds a JSON null in g.  Returns the number of repairs.
func jsonrtF11Repair(o, g protoreflect.Message) int {
	if o.Descriptor().FullName() != g.Descriptor().FullName() {
		return 0
	}
	n := 0
	if rtWkt(o.Descriptor()) == "Any" {
		if o.Get(rtField(o, 1)).String() != g.Get(rtField(g, 1)).String() {
			return 0
		}
		eo, _ := rtResolveAny(o)
		eg, _ := rtResolveAny(g)
		if eo == nil || eg == nil {
			return 0
		}
		n = jsonrtF11Repair(eo, eg)
		if n > 0 {
			b, err := proto.MarshalOptions{AllowPartial: true, Deterministic: true}.Marshal(eg.Interface())
			if err == nil {
				if len(b) > 0 {
					g.Set(rtField(g, 2), protoreflect.ValueOfBytes(b))
				} else {
					g.Clear(rtField(g, 2))
				}
			}
		}
		return n
	}
	if rtWkt(o.Descriptor()) != "" && rtWkt(o.Descriptor()) != "Empty" {
		return 0 // special mappings never go through the unpopulated-field ranger
	}
	fds := o.Descriptor().Fields()
	for i := 0; i < fds.Len(); i++ {
		fd := fds.Get(i)
		if jsonrtF11Shaped(fd) && !o.Has(fd) && g.Has(fd) && jsonrtIsNullish(fd, g.Get(fd)) {
			g.Clear(fd)
			n++
		}
	}
	o.Range(func(fd protoreflect.FieldDescriptor, vo protoreflect.Value) bool {
		if !g.Has(fd) {
			return true
		}
		vg := g.Get(fd)
		switch {
		case fd.IsMap():
			if fd.MapValue().Message() != nil {
				vo.Map().Range(func(k protoreflect.MapKey, x protoreflect.Value) bool {
					if vg.Map().Has(k) {
						n += jsonrtF11Repair(x.Message(), vg.Map().Get(k).Message())
					}
					return true
				})
			}
		case fd.IsList():
			if fd.Message() != nil && vo.List().Len() == vg.List().Len() {
				for i := 0; i < vo.List().Len(); i++ {
					n += jsonrtF11Repair(vo.List().Get(i).Message(), vg.List().Get(i).Message())
				}
			}
		case fd.Message() != nil:
			n += jsonrtF11Repair(vo.Message(), g.Mutable(fd).Message())
		}
		return true
	})
	return n
}

// jsonrtF11Unset: some message reachable from m (also through the content of Any values) has an unset
// F11-shaped field.
func jsonrtF11Unset(m protoreflect.Message) bool {
	found := false
	rtWalk(m, func(x protoreflect.Message) bool {
		if rtWkt(x.Descriptor()) == "Any" {
			if em, _ := rtResolveAny(x); em != nil && x.Has(rtField(x, 1)) && jsonrtF11Unset(em) {
				found = true
			}
			return false
		}
		if w := rtWkt(x.Descriptor()); w != "" && w != "Empty" {
			return !found // special mappings never go through the unpopulated-field ranger; their parts may
		}
		fds := x.Descriptor().Fields()
		for i := 0; i < fds.Len(); i++ {
			if fd := fds.Get(i); jsonrtF11Shaped(fd) && !x.Has(fd) {
				found = true
			}
		}
		return !found
	})
	return found
}

// ---------------------------------------------------------------- one message

type jsonrtCfg struct {
	emitC bool
}

func jsonrtDescribe(t *rtTarget) string { return t.name + " " + string(t.md.FullName()) }

// jsonrtOptionSets: the option combinations tried for one message (quick: all-off, all-on and 8 random
// combinations; thorough: all 64) and the subset for which model-compared case lines are written
// (always all-off, all-on and 8 random ones: the case files of 64 trees per message would be too large).
func jsonrtOptionSets(c *Ctx) (all []int, withC map[int]bool) {
	withC = map[int]bool{0: true, 63: true}
	sel := []int{0, 63}
	for len(sel) < 10 {
		b := c.Intn(64)
		if !withC[b] {
			withC[b] = true
			sel = append(sel, b)
		}
	}
	if c.Tier == "thorough" {
		for i := 0; i < 64; i++ {
			all = append(all, i)
		}
		return all, withC
	}
	return sel, withC
}

func jsonrtOne(c *Ctx, t *rtTarget, m protoreflect.Message, cfg jsonrtCfg) {
	what := jsonrtDescribe(t)
	defer func() {
		if r := recover(); r != nil {
			c.PropFail("C20", fmt.Sprintf("panic (%s): %v", what, r))
		}
	}()
	reason, lossy := rtJSONUnrep(m)
	exp := rtBinaryCopyStripped(t, m)
	if exp == nil && reason == "" {
		// no binary encoding, yet classified representable: cannot happen (invalid UTF-8 is a reason)
		c.PropFail("C20", "content has no binary encoding but is classified JSON-representable: "+what)
		return
	}
	if c.Intn(3) == 0 {
		rtAddUnknown(c, m)
		c.Stat("with_unknown")
	}
	if n := rtCountEscaped(m, false); n > 0 {
		c.Stat("msgs_with_any_embedded_escaped_strings")
		c.StatN("any_embedded_escaped_strings", n)
	}
	if reason != "" {
		c.Stat("unrep_" + reason)
	} else if lossy != "" {
		c.Stat("lossy_" + lossy)
	} else {
		c.Stat("representable")
	}
	var val []string
	var id string
	if cfg.emitC {
		var extra []protoreflect.MessageDescriptor
		rtAnyTypes(m, map[protoreflect.FullName]bool{}, &extra)
		id = rtSchemaOf(c, "jsonrt", t.md, extra)
		val = msgDump(m)
		// the representability predicate of the proved theorem (json_valid2) and its F11 exclusion against
		// the harness's independent classification, for EmitUnpopulated off / on
		{
			cls := "v"
			if reason != "" || lossy != "" {
				cls = "nv"
			}
			c.Case("jsonrt", "cls", append([]string{id, "0"}, val...), []string{cls})
			if cls == "v" && jsonrtF11Unset(m) {
				cls = "f11"
			}
			c.Case("jsonrt", "cls", append([]string{id, "1"}, val...), []string{cls})
		}
	}
	optSets, withC := jsonrtOptionSets(c)
	for _, bits := range optSets {
		mo := jsonrtOpts(bits)
		emitC := cfg.emitC && withC[bits]
		b, err := mo.Marshal(m.Interface())
		ob := strconv.Itoa(bits)
		if err != nil {
			cls := rtJSONErrClass(err)
			c.Stat("marshal_err")
			if reason == "" {
				c.PropFail("C20", "Marshal fails for representable content ("+cls+"): "+what+" opts="+ob, HexB(rtBinary(m)))
			} else if strings.HasPrefix(cls, "other:") {
				c.PropFail("C20", "Marshal fails with an error outside the enumerated classes: "+cls+" "+what)
			}
			if emitC {
				c.Case("jsonrt", "enc", append(append([]string{id, ob}, val...), "X"), []string{"err", cls})
			}
			continue
		}
		c.Stat("marshal_ok")
		if reason != "" {
			c.PropFail("C20", "Marshal succeeds for unrepresentable content ("+reason+"): "+what+" opts="+ob, HexB(b))
			continue
		}
		tree, terr := jsonrtTree(b)
		if terr != nil || !stdjson.Valid(b) {
			c.PropFail("C20", "Marshal output is not JSON: "+what+" opts="+ob, HexB(b))
			continue
		}
		if emitC {
			c.Case("jsonrt", "enc", append(append(append([]string{id, ob}, val...), "T"), tree...), []string{"ok"})
		}
		// Unmarshal must not modify its input, and decoding the same bytes twice must give the same result
		b0 := append([]byte(nil), b...)
		m2 := t.new()
		err = protojson.UnmarshalOptions{AllowPartial: true}.Unmarshal(b, m2.Interface())
		if !bytes.Equal(b, b0) {
			c.PropFail("C20", "Unmarshal modified its input: "+what+" opts="+ob, HexB(b0), HexB(b))
			b = append(b[:0], b0...)
		}
		m3 := t.new()
		err3 := protojson.UnmarshalOptions{AllowPartial: true}.Unmarshal(b, m3.Interface())
		if (err == nil) != (err3 == nil) || (err == nil && !(proto.Equal(m2.Interface(), m3.Interface()) && rtSameBits(m2, m3))) {
			c.PropFail("C20", "decoding the same JSON bytes twice gives different results: "+what+" opts="+ob, HexB(b0))
		}
		if err != nil {
			c.PropFail("C20", "Unmarshal(Marshal(m)) fails: "+err.Error()+" "+what+" opts="+ob, HexB(b0))
			continue
		}
		if emitC && (bits == 0 || bits == 63 || c.Intn(4) == 0) {
			c.Case("jsonrt", "dec", append([]string{id}, tree...), append([]string{"ok"}, msgDump(m2)...))
		}
		if lossy != "" {
			continue
		}
		if proto.Equal(exp.Interface(), m2.Interface()) && rtSameBits(exp, m2) {
			continue
		}
		if mo.EmitUnpopulated {
			if n := jsonrtF11Repair(exp, m2); n > 0 && proto.Equal(exp.Interface(), m2.Interface()) && rtSameBits(exp, m2) {
				c.Known("F11", "C20", "EmitUnpopulated emits null for an unset presence-tracked Value/NullValue field; null unmarshals into a set field")
				c.Stat("known_F11")
				continue
			}
		}
		c.PropFail("C20", "Unmarshal(Marshal(m)) not Equal strip_unknown(m): "+what+" opts="+ob+" diff: "+rtDiff(exp, m2), HexB(b), HexB(rtBinary(m)))
	}
}

func rtBinary(m protoreflect.Message) []byte {
	b, _ := proto.MarshalOptions{AllowPartial: true, Deterministic: true}.Marshal(m.Interface())
	return b
}

// ---------------------------------------------------------------- corpus

func jsonrtFind(all []*rtTarget, name, flavour string) *rtTarget {
	for _, t := range all {
		if string(t.md.FullName()) == name && t.name == flavour {
			return t
		}
	}
	return nil
}

func jsonrtCorpus(c *Ctx, all []*rtTarget, cfg jsonrtCfg) {
	// F11 witness: textpb2.KnownTypes{} (and its editions twin) under EmitUnpopulated
	for _, n := range []string{"pb2.KnownTypes", "pbeditions.KnownTypes"} {
		for _, fl := range []string{"gen", "dyn"} {
			if t := jsonrtFind(all, n, fl); t != nil {
				before := c.stats["known_F11"]
				jsonrtOne(c, t, t.new(), cfg)
				if c.stats["known_F11"] == before {
					c.Stat("F11_witness_passes")
				}
			} else {
				c.PropFail("C20", "corpus type not linked: "+n)
			}
		}
	}
	// boundary scalars
	if t := jsonrtFind(all, "pb2.Scalars", "gen"); t != nil {
		for _, v := range []struct {
			i64 int64
			u64 uint64
			f32 uint32
			f64 uint64
		}{
			{math.MaxInt64, math.MaxUint64, 0x7f7fffff, 0x7fefffffffffffff},
			{math.MinInt64, 0, 0x00000001, 0x0000000000000001},
			{1 << 53, 1<<53 + 1, 0x80000000, 0x8000000000000000},
			{-(1 << 53) - 1, 1 << 63, 0x7fc00001, 0x7ff8000000000001},
			{0, 0, 0x7f800000, 0xfff0000000000000},
			{-1, 1, 0x15ae43fd, 0x3eb0c6f7a0b5ed8d},
			{9007199254740993, 18446744073709551615, 0x60ad78ec, 0x444b1ae4d6e2ef50}, // 1e20f, 1e21
			{1, 1, 0x358637bd, 0x3eb0c6f7a0b5ed8d},                                   // 1e-6
			{1, 1, 0x358637bc, 0x3eb0c6f7a0b5ed8c},
		} {
			m := t.new()
			fds := t.md.Fields()
			m.Set(fds.ByName("opt_int64"), protoreflect.ValueOfInt64(v.i64))
			m.Set(fds.ByName("opt_uint64"), protoreflect.ValueOfUint64(v.u64))
			m.Set(fds.ByName("opt_float"), protoreflect.ValueOfFloat32(math.Float32frombits(v.f32)))
			m.Set(fds.ByName("opt_double"), protoreflect.ValueOfFloat64(math.Float64frombits(v.f64)))
			m.Set(fds.ByName("opt_sint64"), protoreflect.ValueOfInt64(-v.i64))
			m.Set(fds.ByName("opt_bytes"), protoreflect.ValueOfBytes([]byte{0xfb, 0xff, 0xfe, byte(v.u64)}))
			jsonrtOne(c, t, m, cfg)
		}
	}
}

// jsonrtWktCorpus: range boundaries of Timestamp / Duration, FieldMask paths, Value kinds.
func jsonrtWktCorpus(c *Ctx, all []*rtTarget, cfg jsonrtCfg) {
	setSN := func(t *rtTarget, secs int64, nanos int32) protoreflect.Message {
		m := t.new()
		if secs != 0 {
			m.Set(rtField(m, 1), protoreflect.ValueOfInt64(secs))
		}
		if nanos != 0 {
			m.Set(rtField(m, 2), protoreflect.ValueOfInt32(nanos))
		}
		return m
	}
	for _, fl := range []string{"gen", "dyn"} {
		if t := jsonrtFind(all, "google.protobuf.Timestamp", fl); t != nil {
			for _, sn := range [][2]int64{{rtMinTsSecs, 0}, {rtMaxTsSecs, 999999999}, {rtMinTsSecs - 1, 0}, {rtMaxTsSecs + 1, 0}, {0, -1}, {0, 1000000000},
				{0, 0}, {-1, 999999999}, {951782400, 120000000}, {68169600, 450}, {-11644473600, 1000}} {
				jsonrtOne(c, t, setSN(t, sn[0], int32(sn[1])), cfg)
			}
		}
		if t := jsonrtFind(all, "google.protobuf.Duration", fl); t != nil {
			for _, sn := range [][2]int64{{rtMaxDurSecs, 999999999}, {-rtMaxDurSecs, -999999999}, {rtMaxDurSecs + 1, 0}, {-rtMaxDurSecs - 1, 0},
				{0, 1000000000}, {0, -1000000000}, {1, -1}, {-1, 1}, {0, -5}, {0, 5}, {-3, -500000000}, {7, 1000}, {0, 0}} {
				jsonrtOne(c, t, setSN(t, sn[0], int32(sn[1])), cfg)
			}
		}
		if t := jsonrtFind(all, "google.protobuf.FieldMask", fl); t != nil {
			for _, paths := range [][]string{{}, {"foo"}, {"foo_bar", "a.b_c.d"}, {"fooBar"}, {"foo__bar"}, {"foo_3"}, {""}, {"a,b"}, {"foo_"}, {"_foo"}} {
				m := t.new()
				if len(paths) > 0 {
					l := m.Mutable(rtField(m, 1)).List()
					for _, p := range paths {
						l.Append(protoreflect.ValueOfString(p))
					}
				}
				jsonrtOne(c, t, m, cfg)
			}
		}
		if t := jsonrtFind(all, "google.protobuf.Value", fl); t != nil {
			for k := 0; k < 9; k++ {
				m := t.new()
				switch k {
				case 0:
				case 1:
					m.Set(rtField(m, 1), protoreflect.ValueOfEnum(0))
				case 2:
					m.Set(rtField(m, 2), protoreflect.ValueOfFloat64(math.NaN()))
				case 3:
					m.Set(rtField(m, 2), protoreflect.ValueOfFloat64(-0.0*math.Copysign(1, -1)))
				case 4:
					m.Set(rtField(m, 3), protoreflect.ValueOfString("NaN"))
				case 5:
					m.Set(rtField(m, 4), protoreflect.ValueOfBool(false))
				case 6:
					m.Mutable(rtField(m, 5))
				case 7:
					m.Mutable(rtField(m, 6))
				default:
					m.Set(rtField(m, 2), protoreflect.ValueOfFloat64(math.Inf(-1)))
				}
				jsonrtOne(c, t, m, cfg)
			}
		}
	}
}

// jsonrtKW: the schema of the Coq witness of C20_json_roundtrip_refuted (verif.KW: optional NullValue,
// optional Value, Struct, ListValue, Int64Value, repeated Value) as a dynamic message type.
func jsonrtKW(c *Ctx) *rtTarget {
	opt := descriptorpb.FieldDescriptorProto_LABEL_OPTIONAL.Enum()
	rep := descriptorpb.FieldDescriptorProto_LABEL_REPEATED.Enum()
	msg := descriptorpb.FieldDescriptorProto_TYPE_MESSAGE.Enum()
	f := func(name, json string, num int32, label *descriptorpb.FieldDescriptorProto_Label, typ *descriptorpb.FieldDescriptorProto_Type, tn string) *descriptorpb.FieldDescriptorProto {
		fd := &descriptorpb.FieldDescriptorProto{Name: proto.String(name), JsonName: proto.String(json), Number: proto.Int32(num), Label: label, Type: typ}
		if tn != "" {
			fd.TypeName = proto.String(tn)
		}
		return fd
	}
	fdp := &descriptorpb.FileDescriptorProto{
		Name: proto.String("verif/kw.proto"), Package: proto.String("verif"), Syntax: proto.String("proto2"),
		Dependency: []string{"google/protobuf/struct.proto", "google/protobuf/wrappers.proto", "google/protobuf/timestamp.proto", "google/protobuf/duration.proto", "google/protobuf/field_mask.proto", "google/protobuf/any.proto"},
		MessageType: []*descriptorpb.DescriptorProto{{Name: proto.String("KW"), Field: []*descriptorpb.FieldDescriptorProto{
			f("opt_null", "optNull", 1, opt, descriptorpb.FieldDescriptorProto_TYPE_ENUM.Enum(), ".google.protobuf.NullValue"),
			f("n", "n", 2, opt, descriptorpb.FieldDescriptorProto_TYPE_INT32.Enum(), ""),
			f("opt_value", "optValue", 3, opt, msg, ".google.protobuf.Value"),
			f("st", "st", 4, opt, msg, ".google.protobuf.Struct"),
			f("lv", "lv", 5, opt, msg, ".google.protobuf.ListValue"),
			f("w", "w", 6, opt, msg, ".google.protobuf.Int64Value"),
			f("rv", "rv", 7, rep, msg, ".google.protobuf.Value"),
			f("ts", "ts", 8, opt, msg, ".google.protobuf.Timestamp"),
			f("dur", "dur", 9, opt, msg, ".google.protobuf.Duration"),
			f("fm", "fm", 10, opt, msg, ".google.protobuf.FieldMask"),
			f("anys", "anys", 11, rep, msg, ".google.protobuf.Any"),
			f("any_map", "anyMap", 12, rep, msg, ".verif.KW.AnyMapEntry"),
			f("names", "names", 13, rep, descriptorpb.FieldDescriptorProto_TYPE_STRING.Enum(), ""),
		}, NestedType: []*descriptorpb.DescriptorProto{{Name: proto.String("AnyMapEntry"),
			Field: []*descriptorpb.FieldDescriptorProto{
				f("key", "key", 1, opt, descriptorpb.FieldDescriptorProto_TYPE_STRING.Enum(), ""),
				f("value", "value", 2, opt, msg, ".google.protobuf.Any"),
			}, Options: &descriptorpb.MessageOptions{MapEntry: proto.Bool(true)}}}}},
	}
	fd, err := protodesc.NewFile(fdp, protoregistry.GlobalFiles)
	if err != nil {
		c.PropFail("C20", "witness schema verif.KW rejected: "+err.Error())
		return nil
	}
	md := fd.Messages().Get(0)
	return &rtTarget{name: "rnd", md: md, new: func() protoreflect.Message { return dynamicpb.NewMessage(md) }}
}

// jsonrtAnyCorpus: Any values whose JSON contains strings and keys written with an escape -- the
// decoder reads every Any object twice over the same bytes (findTypeURL on a clone, then the real
// read), so the two passes must not interfere: Any of ordinary messages, of well-known types, of Any,
// and Any values inside lists and maps.
func jsonrtAnyCorpus(c *Ctx, all []*rtTarget, kw *rtTarget, cfg jsonrtCfg) {
	anyT := jsonrtFind(all, "google.protobuf.Any", "gen")
	if anyT == nil {
		c.PropFail("C20", "corpus type not linked: google.protobuf.Any")
		return
	}
	mkAny := func(flavour *rtTarget, em protoreflect.Message) protoreflect.Message {
		b, err := proto.MarshalOptions{AllowPartial: true, Deterministic: true}.Marshal(em.Interface())
		if err != nil {
			return nil
		}
		a := flavour.new()
		a.Set(rtField(a, 1), protoreflect.ValueOfString("type.googleapis.com/"+string(em.Descriptor().FullName())))
		if len(b) > 0 {
			a.Set(rtField(a, 2), protoreflect.ValueOfBytes(b))
		}
		return a
	}
	strs := []string{"a\"b", "back\\slash", "line\nfeed", "tab\there", "\x00\x1f", "é\"日本\\", "<&>\u2028\"", "\\u0041", "\"", "plain"}
	var embedded []protoreflect.Message
	for _, name := range []string{"pb2.Scalars", "pb3.Scalars"} {
		if t := jsonrtFind(all, name, "gen"); t != nil {
			for _, s := range strs {
				m := t.new()
				fn := protoreflect.Name("opt_string")
				if name == "pb3.Scalars" {
					fn = "s_string"
				}
				if fd := t.md.Fields().ByName(fn); fd != nil {
					m.Set(fd, protoreflect.ValueOfString(s))
					embedded = append(embedded, m)
				}
			}
		}
	}
	if t := jsonrtFind(all, "google.protobuf.StringValue", "gen"); t != nil {
		for _, s := range strs[:4] {
			m := t.new()
			m.Set(rtField(m, 1), protoreflect.ValueOfString(s))
			embedded = append(embedded, m)
		}
	}
	if t := jsonrtFind(all, "google.protobuf.Struct", "gen"); t != nil {
		for i, s := range strs[:6] {
			m := t.new()
			mp := m.Mutable(rtField(m, 1)).Map()
			v := mp.NewValue()
			v.Message().Set(rtField(v.Message(), 3), protoreflect.ValueOfString(strs[(i+3)%len(strs)]))
			mp.Set(protoreflect.ValueOfString(s).MapKey(), v)
			embedded = append(embedded, m)
		}
	}
	if t := jsonrtFind(all, "pb3.Maps", "gen"); t != nil {
		if fd := t.md.Fields().ByName("str_to_nested"); fd != nil {
			m := t.new()
			mp := m.Mutable(fd).Map()
			mp.Set(protoreflect.ValueOfString("k\"ey\n").MapKey(), mp.NewValue())
			embedded = append(embedded, m)
		}
	}
	var anys []protoreflect.Message
	for i, em := range embedded {
		a := mkAny(anyT, em)
		if a == nil {
			continue
		}
		anys = append(anys, a)
		jsonrtOne(c, anyT, a, cfg)
		if i%4 == 0 { // Any of Any
			if aa := mkAny(anyT, a); aa != nil {
				jsonrtOne(c, anyT, aa, cfg)
			}
		}
	}
	if kw != nil && len(anys) > 0 {
		// Any values in a list and in a map (with an escaped key)
		m := kw.new()
		fds := kw.md.Fields()
		l := m.Mutable(fds.ByName("anys")).List()
		mp := m.Mutable(fds.ByName("any_map")).Map()
		for i, a := range anys {
			if i%3 == 0 {
				e := l.NewElement()
				e.Message().Set(rtField(e.Message(), 1), a.Get(rtField(a, 1)))
				if a.Has(rtField(a, 2)) {
					e.Message().Set(rtField(e.Message(), 2), a.Get(rtField(a, 2)))
				}
				l.Append(e)
			}
			if i%5 == 0 {
				e := mp.NewValue()
				e.Message().Set(rtField(e.Message(), 1), a.Get(rtField(a, 1)))
				if a.Has(rtField(a, 2)) {
					e.Message().Set(rtField(e.Message(), 2), a.Get(rtField(a, 2)))
				}
				mp.Set(protoreflect.ValueOfString(strs[i%len(strs)]).MapKey(), e)
			}
		}
		jsonrtOne(c, kw, m, cfg)
	}
}

func famJsonrt(c *Ctx) {
	cfg := jsonrtCfg{emitC: true}
	nrnd := c.N / 40
	if nrnd < 4 {
		nrnd = 4
	}
	all, heavy, rnd := rtTargets(c, nrnd)
	c.StatN("linked_targets", len(all))
	jsonrtCorpus(c, all, cfg)
	jsonrtWktCorpus(c, all, cfg)
	kw := jsonrtKW(c)
	if kw != nil {
		// the Coq witness of the refutation: verif.KW{} under EmitUnpopulated
		before := c.stats["known_F11"]
		jsonrtOne(c, kw, kw.new(), cfg)
		if c.stats["known_F11"] == before {
			c.Stat("F11_coq_witness_passes")
		}
		heavy = append(heavy, kw, kw)
	}
	jsonrtAnyCorpus(c, all, kw, cfg)
	pool := rtAnyPool()
	run := func(t *rtTarget) {
		var m protoreflect.Message
		func() {
			defer func() {
				if r := recover(); r != nil {
					c.Stat("fill_panic")
					c.Sample(fmt.Sprintf("fill panic %s: %v", jsonrtDescribe(t), r))
					m = nil
				}
			}()
			m = t.new()
			budget := 60 + c.Intn(200)
			o := rtFillOpts{budget: &budget, unrep: c.Intn(3) == 0, unknown: false, dense: c.Intn(8) == 0, anyPool: pool}
			if c.Intn(12) != 0 {
				rtFill(c, m, 1+c.Intn(3), o)
			}
		}()
		if m == nil {
			return
		}
		if !rtNamesOK(t.md) {
			c.Stat("skipped_name_conflict")
			return
		}
		c.Stat("fl_" + t.name)
		jsonrtOne(c, t, m, cfg)
	}
	spent := 0
	start := c.Intn(len(all))
	for i := 0; i < len(all) && spent < c.N/3; i++ {
		run(all[(start+i)%len(all)])
		spent++
	}
	for spent < c.N {
		run(rtPick(c, all, heavy, rnd))
		spent++
	}
}
