//go:build verif

package main

// family "conv": canonical accessor snapshot of a protoreflect.FileDescriptor.
//
// The snapshot is a list of text lines, one per accessor group, in declaration
// order.  Cross references are printed as full name + IsPlaceholder (never
// followed), so two independently built descriptors of the same schema give the
// same text exactly when they agree on every accessor listed here.

import (
	"fmt"
	"math"
	"sort"
	"strings"

	"google.golang.org/protobuf/internal/filedesc"
	"google.golang.org/protobuf/internal/strs"
	"google.golang.org/protobuf/proto"
	"google.golang.org/protobuf/reflect/protoreflect"
)

type convSnapOpts struct {
	locations bool // include SourceLocations
	features  bool // include the (non-accessor) resolved EditionFeatures of file/message/enum/field/extension
	eagerOnly bool // only accessors that filedesc serves without lazy initialisation

	// recognisers of listed known findings (narrow masks, see KNOWN_FINDINGS.txt)
	maskExtLazy bool            // FK2: IsLazy of extensions whose options say lazy=true
	maskPacked  map[string]bool // FK3: fields whose options carry both packed and features.repeated_field_encoding
}

type convSnapper struct {
	o     convSnapOpts
	lines []string
}

func (s *convSnapper) add(format string, a ...any) {
	s.lines = append(s.lines, fmt.Sprintf(format, a...))
}

func convOptBytes(m protoreflect.ProtoMessage) string {
	if m == nil {
		return "nilif"
	}
	if !m.ProtoReflect().IsValid() {
		return "nil"
	}
	b, err := proto.MarshalOptions{Deterministic: true, AllowPartial: true}.Marshal(m)
	if err != nil {
		return "err:" + err.Error()
	}
	return fmt.Sprintf("%s:%x", m.ProtoReflect().Descriptor().FullName(), b)
}

func convRef(d protoreflect.Descriptor) string {
	if d == nil {
		return "<nil>"
	}
	pf := "<nofile>"
	if f := d.ParentFile(); f != nil {
		pf = f.Path()
	}
	return fmt.Sprintf("%s(ph=%v,file=%s)", d.FullName(), d.IsPlaceholder(), pf)
}

func convMsgRef(d protoreflect.MessageDescriptor) string {
	if d == nil {
		return "<nil>"
	}
	return fmt.Sprintf("%s,mapentry=%v", convRef(d), d.IsMapEntry())
}

func (s *convSnapper) enumRef(d protoreflect.EnumDescriptor) string {
	if d == nil {
		return "<nil>"
	}
	return fmt.Sprintf("%s,closed=%v", convRef(d), d.IsClosed())
}

func convFeatStr(f filedesc.EditionFeatures) string {
	return fmt.Sprintf("presence=%v legacyreq=%v open=%v packed=%v utf8=%v delim=%v json=%v legacyjson=%v api=%d strip=%d",
		f.IsFieldPresence, f.IsLegacyRequired, f.IsOpenEnum, f.IsPacked, f.IsUTF8Validated, f.IsDelimitedEncoded,
		f.IsJSONCompliant, f.GenerateLegacyUnmarshalJSON, f.APILevel, f.StripEnumPrefix)
}

func (s *convSnapper) base(tag string, d protoreflect.Descriptor) {
	par := "<nil>"
	if p := d.Parent(); p != nil {
		par = string(p.FullName())
		if _, ok := p.(protoreflect.FileDescriptor); ok {
			par = "file:" + par
		}
	}
	pf := "<nofile>"
	if f := d.ParentFile(); f != nil {
		pf = f.Path()
	}
	s.add("%s %s name=%s index=%d syntax=%v ph=%v parent=%s file=%s", tag, d.FullName(), d.Name(), d.Index(), d.Syntax(), d.IsPlaceholder(), par, pf)
}

func convValue(fd protoreflect.FieldDescriptor, v protoreflect.Value) string {
	if !v.IsValid() {
		return "<invalid>"
	}
	switch x := v.Interface().(type) {
	case float32:
		return fmt.Sprintf("f32:%08x", math.Float32bits(x))
	case float64:
		return fmt.Sprintf("f64:%016x", math.Float64bits(x))
	case []byte:
		return fmt.Sprintf("bytes:%x", x)
	case string:
		return fmt.Sprintf("string:%x", x)
	case protoreflect.EnumNumber:
		return fmt.Sprintf("enum:%d", x)
	case protoreflect.Message, protoreflect.List, protoreflect.Map:
		return fmt.Sprintf("composite:%T", x)
	default:
		return fmt.Sprintf("%T:%v", x, x)
	}
}

func (s *convSnapper) field(tag string, fd protoreflect.FieldDescriptor) {
	s.base(tag, fd)
	packed := fmt.Sprint(fd.IsPacked())
	if s.o.maskPacked[string(fd.FullName())] {
		packed = "*"
	}
	s.add(" num=%d card=%v kind=%v ext=%v weak=%v packed=%s list=%v map=%v presence=%v",
		fd.Number(), fd.Cardinality(), fd.Kind(), fd.IsExtension(), fd.IsWeak(), packed, fd.IsList(), fd.IsMap(), fd.HasPresence())
	s.add(" containingmsg=%s", convMsgRef(fd.ContainingMessage()))
	if s.o.eagerOnly {
		return
	}
	s.add(" hasjson=%v json=%q text=%q optkw=%v", fd.HasJSONName(), fd.JSONName(), fd.TextName(), fd.HasOptionalKeyword())
	s.add(" mapkey=%s mapvalue=%s", convRef(fd.MapKey()), convRef(fd.MapValue()))
	s.add(" oneof=%s msg=%s enum=%s", convRef(fd.ContainingOneof()), convMsgRef(fd.Message()), s.enumRef(fd.Enum()))
	dev := "<nil>"
	if ev := fd.DefaultEnumValue(); ev != nil {
		dev = fmt.Sprintf("%s=%d(ph=%v)", ev.FullName(), ev.Number(), ev.IsPlaceholder())
	}
	s.add(" hasdefault=%v default=%s defaultenum=%s", fd.HasDefault(), convValue(fd, fd.Default()), dev)
	lazy := "n/a"
	if l, ok := fd.(interface{ IsLazy() bool }); ok {
		lazy = fmt.Sprint(l.IsLazy())
		if s.o.maskExtLazy && fd.IsExtension() {
			if o, ok := fd.Options().(interface{ GetLazy() bool }); ok && o.GetLazy() {
				lazy = "*"
			}
		}
	}
	eu := "n/a"
	if l, ok := fd.(interface{ EnforceUTF8() bool }); ok {
		eu = fmt.Sprint(l.EnforceUTF8())
	}
	s.add(" lazy=%s enforceutf8=%s strs.enforceutf8=%v", lazy, eu, strs.EnforceUTF8(fd))
	s.add(" options=%s", convOptBytes(fd.Options()))
	if s.o.features && !s.o.maskPacked[string(fd.FullName())] {
		switch x := fd.(type) {
		case *filedesc.Field:
			s.add(" features=%s", convFeatStr(x.L1.EditionFeatures))
		case *filedesc.Extension:
			s.add(" features=%s", convFeatStr(x.L1.EditionFeatures))
		}
	}
}

func (s *convSnapper) enum(ed protoreflect.EnumDescriptor) {
	s.base("enum", ed)
	vis := "n/a"
	if v, ok := ed.(interface{ Visibility() int32 }); ok {
		vis = fmt.Sprint(v.Visibility())
	}
	s.add(" closed=%v visibility=%s", ed.IsClosed(), vis)
	if s.o.features {
		if x, ok := ed.(*filedesc.Enum); ok {
			s.add(" features=%s", convFeatStr(x.L1.EditionFeatures))
		}
	}
	if s.o.eagerOnly {
		// only top-level enums carry eager values
		if _, top := ed.Parent().(protoreflect.FileDescriptor); !top {
			return
		}
	}
	vs := ed.Values()
	for i := 0; i < vs.Len(); i++ {
		v := vs.Get(i)
		s.base("value", v)
		if s.o.eagerOnly {
			s.add(" number=%d", v.Number())
		} else {
			s.add(" number=%d options=%s", v.Number(), convOptBytes(v.Options()))
		}
		if vs.ByName(v.Name()) == nil {
			s.add(" !ByName(%s)=nil", v.Name())
		}
	}
	if s.o.eagerOnly {
		return
	}
	s.add(" options=%s", convOptBytes(ed.Options()))
	var rn []string
	for i, ns := 0, ed.ReservedNames(); i < ns.Len(); i++ {
		rn = append(rn, string(ns.Get(i)))
	}
	var rr []string
	for i, rs := 0, ed.ReservedRanges(); i < rs.Len(); i++ {
		r := rs.Get(i)
		rr = append(rr, fmt.Sprintf("%d-%d", r[0], r[1]))
	}
	s.add(" reservednames=%q reservedranges=%v", rn, rr)
}

func (s *convSnapper) message(md protoreflect.MessageDescriptor) {
	s.base("message", md)
	vis := "n/a"
	if v, ok := md.(interface{ Visibility() int32 }); ok {
		vis = fmt.Sprint(v.Visibility())
	}
	mset := "n/a"
	if v, ok := md.(interface{ IsMessageSet() bool }); ok {
		mset = fmt.Sprint(v.IsMessageSet())
	}
	s.add(" mapentry=%v messageset=%s visibility=%s", md.IsMapEntry(), mset, vis)
	if s.o.features {
		if x, ok := md.(*filedesc.Message); ok {
			s.add(" features=%s", convFeatStr(x.L1.EditionFeatures))
		}
	}
	if !s.o.eagerOnly {
		s.add(" options=%s", convOptBytes(md.Options()))
		for i, fs := 0, md.Fields(); i < fs.Len(); i++ {
			s.field("field", fs.Get(i))
		}
		for i, os := 0, md.Oneofs(); i < os.Len(); i++ {
			od := os.Get(i)
			s.base("oneof", od)
			var members []string
			for j, fs := 0, od.Fields(); j < fs.Len(); j++ {
				members = append(members, string(fs.Get(j).FullName()))
			}
			s.add(" synthetic=%v members=%v options=%s", od.IsSynthetic(), members, convOptBytes(od.Options()))
		}
		var rn []string
		for i, ns := 0, md.ReservedNames(); i < ns.Len(); i++ {
			rn = append(rn, string(ns.Get(i)))
		}
		var rr []string
		for i, rs := 0, md.ReservedRanges(); i < rs.Len(); i++ {
			r := rs.Get(i)
			rr = append(rr, fmt.Sprintf("%d-%d", r[0], r[1]))
		}
		var xr []string
		for i, rs := 0, md.ExtensionRanges(); i < rs.Len(); i++ {
			r := rs.Get(i)
			xr = append(xr, fmt.Sprintf("%d-%d:%s", r[0], r[1], convOptBytes(md.ExtensionRangeOptions(i))))
		}
		var rq []string
		for i, ns := 0, md.RequiredNumbers(); i < ns.Len(); i++ {
			rq = append(rq, fmt.Sprint(ns.Get(i)))
		}
		s.add(" reservednames=%q reservedranges=%v extranges=%v required=%v", rn, rr, xr, rq)
	}
	for i, es := 0, md.Enums(); i < es.Len(); i++ {
		s.enum(es.Get(i))
	}
	for i, ms := 0, md.Messages(); i < ms.Len(); i++ {
		s.message(ms.Get(i))
	}
	for i, xs := 0, md.Extensions(); i < xs.Len(); i++ {
		s.field("extension", xs.Get(i))
	}
}

func (s *convSnapper) file(fd protoreflect.FileDescriptor) {
	ed := "n/a"
	if e, ok := fd.(interface{ Edition() int32 }); ok {
		ed = fmt.Sprint(e.Edition())
		if fd.Syntax() != protoreflect.Editions {
			// "Only used if Syntax == Editions"
			ed = "-"
		}
	}
	s.add("file path=%s package=%s fullname=%s name=%s syntax=%v edition=%s ph=%v index=%d parentnil=%v",
		fd.Path(), fd.Package(), fd.FullName(), fd.Name(), fd.Syntax(), ed, fd.IsPlaceholder(), fd.Index(), fd.Parent() == nil)
	if s.o.features {
		if x, ok := fd.(*filedesc.File); ok {
			s.add(" features=%s", convFeatStr(x.L1.EditionFeatures))
		}
	}
	if !s.o.eagerOnly {
		s.add(" options=%s", convOptBytes(fd.Options()))
		for i, imps := 0, fd.Imports(); i < imps.Len(); i++ {
			imp := imps.Get(i)
			s.add(" import path=%s public=%v weak=%v ph=%v", imp.Path(), imp.IsPublic, imp.IsWeak, imp.IsPlaceholder())
		}
		if oi, ok := fd.(interface {
			OptionImports() protoreflect.FileImports
		}); ok {
			for i, imps := 0, oi.OptionImports(); i < imps.Len(); i++ {
				imp := imps.Get(i)
				s.add(" optionimport path=%s ph=%v", imp.Path(), imp.IsPlaceholder())
			}
		}
		if s.o.locations {
			locs := fd.SourceLocations()
			s.add(" locations=%d", locs.Len())
			for i := 0; i < locs.Len(); i++ {
				l := locs.Get(i)
				s.add(" loc path=%v span=%d:%d-%d:%d lead=%q trail=%q detached=%q", []int32(l.Path), l.StartLine, l.StartColumn, l.EndLine, l.EndColumn,
					l.LeadingComments, l.TrailingComments, l.LeadingDetachedComments)
			}
		}
	}
	for i, es := 0, fd.Enums(); i < es.Len(); i++ {
		s.enum(es.Get(i))
	}
	for i, ms := 0, fd.Messages(); i < ms.Len(); i++ {
		s.message(ms.Get(i))
	}
	for i, xs := 0, fd.Extensions(); i < xs.Len(); i++ {
		s.field("extension", xs.Get(i))
	}
	for i, ss := 0, fd.Services(); i < ss.Len(); i++ {
		sd := ss.Get(i)
		s.base("service", sd)
		if s.o.eagerOnly {
			continue
		}
		s.add(" options=%s", convOptBytes(sd.Options()))
		for j, ms := 0, sd.Methods(); j < ms.Len(); j++ {
			m := ms.Get(j)
			s.base("method", m)
			s.add(" in=%s out=%s cs=%v ss=%v options=%s", convMsgRef(m.Input()), convMsgRef(m.Output()), m.IsStreamingClient(), m.IsStreamingServer(), convOptBytes(m.Options()))
		}
	}
}

// convSnap returns the snapshot lines; a panic inside an accessor is turned
// into a final "PANIC" line (the caller reports it).
func convSnap(fd protoreflect.FileDescriptor, o convSnapOpts) (lines []string) {
	s := &convSnapper{o: o}
	defer func() {
		if r := recover(); r != nil {
			s.add("PANIC %v", r)
			lines = s.lines
		}
	}()
	s.file(fd)
	return s.lines
}

// convDiff returns a short one-token description of the first difference.
func convDiff(a, b []string) string {
	n := len(a)
	if len(b) < n {
		n = len(b)
	}
	ctx := ""
	for i := 0; i < n; i++ {
		if !strings.HasPrefix(a[i], " ") {
			ctx = a[i]
		}
		if a[i] != b[i] {
			return convTok(fmt.Sprintf("at[%s] A{%s} B{%s}", convHead(ctx), a[i], b[i]))
		}
	}
	if len(a) != len(b) {
		return convTok(fmt.Sprintf("length %d vs %d", len(a), len(b)))
	}
	return ""
}

func convHead(s string) string {
	f := strings.Fields(s)
	if len(f) >= 2 {
		return f[0] + " " + f[1]
	}
	return s
}

func convTok(s string) string {
	s = strings.ReplaceAll(s, "\t", " ")
	s = strings.ReplaceAll(s, "\n", " ")
	if len(s) > 600 {
		s = s[:600] + "..."
	}
	return s
}

func convSortedKeys(m map[string]bool) []string {
	var ks []string
	for k := range m {
		ks = append(ks, k)
	}
	sort.Strings(ks)
	return ks
}
