//go:build verif

package main

// family "dval" — C35: protodesc.NewFile never crashes and rejects invalid schemas.
//
//   C dval validate <allow> <syntax> <pkg> <ast...> | <class>     first error class (or "ok") of
//        FileOptions{AllowUnresolvable}.New(ast-as-proto, nil), compared with the Coq model
//   P C35 panic / abnormal child exit / hang (other than the recognised F10 class)
//   P C35 an injected definite error was accepted; a valid base was rejected
//
// Every NewFile call happens in a child process (fam_dval_child.go).

import (
	"fmt"
	"sort"
	"strings"

	"google.golang.org/protobuf/proto"
	"google.golang.org/protobuf/reflect/protodesc"
	"google.golang.org/protobuf/reflect/protoreflect"
	"google.golang.org/protobuf/reflect/protoregistry"
	"google.golang.org/protobuf/types/descriptorpb"
	"google.golang.org/protobuf/types/gofeaturespb"

	_ "google.golang.org/protobuf/internal/testprotos/editionsfuzztest"
	_ "google.golang.org/protobuf/internal/testprotos/test"
	_ "google.golang.org/protobuf/internal/testprotos/test3"
	_ "google.golang.org/protobuf/internal/testprotos/testeditions"
	_ "google.golang.org/protobuf/types/known/anypb"
	_ "google.golang.org/protobuf/types/known/structpb"
)

func init() { Register("dval", famDval) }

// one planned observation
type dvalCase struct {
	In      *dvalInput
	AST     *dvalFile // non-nil: emit a C line
	Expect  string    // "", "accept" (valid base), "reject" (injected definite error)
	What    string    // description for P lines / stats
	Witness string    // short printable form of the input
	Vis     []string  // non-nil: tokens of a "visible" C line (multi-file import graph, subject, target)
}

const dvalTestdataPrefix = "cmd/protoc-gen-go/testdata/"

// dvalIsF10 is the recogniser of known finding F10: desc.go skips the "edition not supported"
// check for file names under cmd/protoc-gen-go/testdata/, after which editions.go either
// panics in toEditionProto ("unknown value for edition") or calls os.Exit(1) in
// getFeatureSetFor ("unsupported edition") for an edition without embedded defaults.
func dvalIsF10(cs *dvalCase, o dvalOutcome) bool {
	p := cs.In.P
	if p == nil || cs.In.Flags&dvalFlagNilFile != 0 {
		return false
	}
	if !strings.HasPrefix(p.GetName(), dvalTestdataPrefix) || p.GetSyntax() != "editions" {
		return false
	}
	ed := p.GetEdition()
	if (ed >= descriptorpb.Edition_EDITION_PROTO2 && ed <= descriptorpb.Edition_EDITION_2024) || ed == descriptorpb.Edition_EDITION_UNSTABLE {
		return false
	}
	switch o.Kind {
	case "panic":
		return strings.HasPrefix(o.Text, "unknown value for edition")
	case "exit":
		return strings.Contains(o.Text, "internal error: unsupported edition")
	}
	return false
}

// Known findings of this work package (KNOWN_FINDINGS.txt), recognised narrowly by the
// injection class that produced the input AND the exact outcome.
func dvalKnownAccepted(cs *dvalCase) string {
	switch cs.What {
	case "inject:packed-nonpackable":
		return "FM1"
	case "inject:implementation-reserved-field-number":
		return "FM2"
	}
	return ""
}

func dvalEmit(c *Ctx, cs *dvalCase, o dvalOutcome) {
	if cs.Witness == "" {
		if o.Kind != "ok" && o.Kind != "err" || cs.Expect != "" {
			cs.Witness = dvalWitness(cs.In)
		}
	}
	class := dvalClass(o)
	c.Stat("class:" + class)
	if cs.AST != nil {
		c.Case("dval", "validate", dvalTokens(cs.AST), []string{class})
	}
	if cs.Vis != nil {
		// the reference resolved / was refused because the file is not imported: compared with
		// the visibility rule of the model; any other outcome is judged by the expectation below
		switch {
		case o.Kind == "ok":
			c.Case("dval", "visible", cs.Vis, []string{"1"})
		case o.Kind == "err" && strings.Contains(o.Text, "is not imported"):
			c.Case("dval", "visible", cs.Vis, []string{"0"})
		}
	}
	switch o.Kind {
	case "panic", "exit", "hang":
		if dvalIsF10(cs, o) {
			c.Known("F10", "C35", "NewFile "+o.Kind+" for an unsupported edition under the testdata path prefix")
			c.Stat("known:F10:" + o.Kind)
			return
		}
		c.PropFail("C35", "NewFile "+o.Kind+": "+dvalTail(o.Text), cs.What, cs.Witness)
		return
	}
	switch cs.Expect {
	case "accept":
		if o.Kind != "ok" {
			c.PropFail("C35", "valid base rejected: "+dvalTail(o.Text), cs.What, cs.Witness)
		}
	case "reject":
		if o.Kind == "ok" {
			if id := dvalKnownAccepted(cs); id != "" {
				c.Known(id, "C35", cs.What+" accepted")
				c.Stat("known:" + id)
				return
			}
			c.PropFail("C35", "injected definite error accepted", cs.What, cs.Witness)
		} else {
			c.Stat("rejected:" + cs.What)
		}
	}
}

func dvalASTCase(f *dvalFile, expect, what string) *dvalCase {
	in := &dvalInput{P: dvalFileP(f)}
	if f.Allow {
		in.Flags |= dvalFlagAllow
	}
	return &dvalCase{In: in, AST: f, Expect: expect, What: what}
}

func dvalWitness(in *dvalInput) string {
	if in.Flags&dvalFlagNilFile != 0 {
		return "nil-file"
	}
	b := dvalSerialise(in)
	if len(b) > 4000 {
		b = b[:4000]
	}
	return fmt.Sprintf("flags=%d;proto=%s", in.Flags, HexB(b))
}

// ---------------------------------------------------------------- corpus (boundary cases first)

func dvalCorpus() []*dvalCase {
	var out []*dvalCase
	add := func(what string, flags byte, p *descriptorpb.FileDescriptorProto) {
		in := &dvalInput{Flags: flags, P: p}
		out = append(out, &dvalCase{In: in, What: "corpus:" + what})
	}
	// F10 witness and its neighbours
	for _, ed := range []int32{99999, 0, 1, 2, 900, 1002, 99997, 99998, 2147483647, -5, 998, 999, 1000, 1001, 9999} {
		add(fmt.Sprintf("F10-edition-%d", ed), 0, &descriptorpb.FileDescriptorProto{Name: proto.String(dvalTestdataPrefix + "x.proto"),
			Syntax: proto.String("editions"), Edition: descriptorpb.Edition(ed).Enum()})
		add(fmt.Sprintf("edition-%d-other-path", ed), 0, &descriptorpb.FileDescriptorProto{Name: proto.String("x.proto"),
			Syntax: proto.String("editions"), Edition: descriptorpb.Edition(ed).Enum()})
	}
	add("F10-no-edition", 0, &descriptorpb.FileDescriptorProto{Name: proto.String(dvalTestdataPrefix + "x.proto"), Syntax: proto.String("editions")})
	out = append(out, &dvalCase{In: &dvalInput{Flags: dvalFlagNilFile}, What: "corpus:nil-file", Witness: "nil-file"})
	add("empty-file", 0, &descriptorpb.FileDescriptorProto{})
	add("nil-elements", dvalFlagNilify, &descriptorpb.FileDescriptorProto{Name: proto.String("a.proto"),
		MessageType: []*descriptorpb.DescriptorProto{{}, {Name: proto.String("M"), Field: []*descriptorpb.FieldDescriptorProto{{}},
			NestedType: []*descriptorpb.DescriptorProto{{}}, EnumType: []*descriptorpb.EnumDescriptorProto{{}},
			OneofDecl: []*descriptorpb.OneofDescriptorProto{{}}, ExtensionRange: []*descriptorpb.DescriptorProto_ExtensionRange{{}},
			ReservedRange: []*descriptorpb.DescriptorProto_ReservedRange{{}}}},
		EnumType:       []*descriptorpb.EnumDescriptorProto{{}, {Name: proto.String("E"), Value: []*descriptorpb.EnumValueDescriptorProto{{}}}},
		Extension:      []*descriptorpb.FieldDescriptorProto{{}},
		Service:        []*descriptorpb.ServiceDescriptorProto{{}, {Name: proto.String("S"), Method: []*descriptorpb.MethodDescriptorProto{{}}}},
		SourceCodeInfo: &descriptorpb.SourceCodeInfo{Location: []*descriptorpb.SourceCodeInfo_Location{{}}}})
	add("nil-named-elements", dvalFlagNilify, &descriptorpb.FileDescriptorProto{Name: proto.String("a.proto"),
		MessageType: []*descriptorpb.DescriptorProto{{Name: proto.String("M"),
			Field:          []*descriptorpb.FieldDescriptorProto{{Name: proto.String("f"), Number: proto.Int32(1), Label: descriptorpb.FieldDescriptorProto_LABEL_OPTIONAL.Enum(), Type: descriptorpb.FieldDescriptorProto_TYPE_INT32.Enum()}},
			ExtensionRange: []*descriptorpb.DescriptorProto_ExtensionRange{{}}, ReservedRange: []*descriptorpb.DescriptorProto_ReservedRange{{}}}},
		EnumType: []*descriptorpb.EnumDescriptorProto{{Name: proto.String("E"), Value: []*descriptorpb.EnumValueDescriptorProto{{Name: proto.String("V")}},
			ReservedRange: []*descriptorpb.EnumDescriptorProto_EnumReservedRange{{}}}}})
	// public import index out of range / negative / duplicate
	for _, idx := range [][]int32{{0}, {-1}, {5}, {0, 0}, {2147483647}, {-2147483648}} {
		add(fmt.Sprintf("public-dependency-%v", idx), dvalFlagGlobal, &descriptorpb.FileDescriptorProto{Name: proto.String("a.proto"),
			Dependency: []string{"google/protobuf/any.proto"}, PublicDependency: idx})
	}
	add("self-import", dvalFlagGlobal, &descriptorpb.FileDescriptorProto{Name: proto.String("a.proto"), Dependency: []string{"a.proto"}})
	add("dup-import", dvalFlagGlobal, &descriptorpb.FileDescriptorProto{Name: proto.String("a.proto"), Dependency: []string{"google/protobuf/any.proto", "google/protobuf/any.proto"}})
	add("unresolvable-import", dvalFlagGlobal, &descriptorpb.FileDescriptorProto{Name: proto.String("a.proto"), Dependency: []string{"nope.proto"}})
	add("unresolvable-import-allowed", dvalFlagGlobal|dvalFlagAllow, &descriptorpb.FileDescriptorProto{Name: proto.String("a.proto"), Dependency: []string{"nope.proto"}})
	add("option-dependency", dvalFlagGlobal, &descriptorpb.FileDescriptorProto{Name: proto.String("a.proto"), OptionDependency: []string{"nope.proto", "google/protobuf/any.proto", "a.proto"}})
	for _, span := range [][]int32{{}, {1}, {1, 2}, {1, 2, 3}, {1, 2, 3, 4}, {1, 2, 3, 4, 5}, {-1, -1, -1}} {
		add(fmt.Sprintf("span-%d", len(span)), 0, &descriptorpb.FileDescriptorProto{Name: proto.String("a.proto"),
			SourceCodeInfo: &descriptorpb.SourceCodeInfo{Location: []*descriptorpb.SourceCodeInfo_Location{{Path: []int32{4, 0, -7}, Span: span}}}})
	}
	// services with odd type names
	for _, tn := range []string{"", ".", "M", ".M", "M.f", ".zz.U"} {
		for _, fl := range []byte{0, dvalFlagAllow} {
			add("service-"+tn, fl, &descriptorpb.FileDescriptorProto{Name: proto.String("a.proto"),
				MessageType: []*descriptorpb.DescriptorProto{{Name: proto.String("M"), Field: []*descriptorpb.FieldDescriptorProto{{Name: proto.String("f"), Number: proto.Int32(1), Label: descriptorpb.FieldDescriptorProto_LABEL_OPTIONAL.Enum(), Type: descriptorpb.FieldDescriptorProto_TYPE_INT32.Enum()}}}},
				Service:     []*descriptorpb.ServiceDescriptorProto{{Name: proto.String("S"), Method: []*descriptorpb.MethodDescriptorProto{{Name: proto.String("m"), InputType: proto.String(tn), OutputType: proto.String(tn)}}}}})
		}
	}
	// default values
	i32 := descriptorpb.FieldDescriptorProto_TYPE_INT32.Enum()
	opt := descriptorpb.FieldDescriptorProto_LABEL_OPTIONAL.Enum()
	for _, syn := range []string{"proto2", "proto3"} {
		for _, dv := range []string{"", "1", "x", "99999999999", "-0", "0x10", "nan"} {
			for _, ty := range []descriptorpb.FieldDescriptorProto_Type{5, 1, 8, 9, 12, 14, 11, 13} {
				f := &descriptorpb.FieldDescriptorProto{Name: proto.String("f"), Number: proto.Int32(1), Label: opt, Type: ty.Enum(), DefaultValue: proto.String(dv)}
				if ty == 14 {
					f.TypeName = proto.String(".E")
				}
				if ty == 11 {
					f.TypeName = proto.String(".M")
				}
				for _, fl := range []byte{0, dvalFlagAllow} {
					add("default-"+syn+"-"+dv, fl, &descriptorpb.FileDescriptorProto{Name: proto.String("a.proto"), Syntax: proto.String(syn),
						MessageType: []*descriptorpb.DescriptorProto{{Name: proto.String("M"), Field: []*descriptorpb.FieldDescriptorProto{f, {Name: proto.String("g"), Number: proto.Int32(2), Label: opt, Type: i32}}}},
						EnumType:    []*descriptorpb.EnumDescriptorProto{{Name: proto.String("E"), Value: []*descriptorpb.EnumValueDescriptorProto{{Name: proto.String("x"), Number: proto.Int32(0)}}}}})
				}
			}
		}
	}
	return out
}

// dvalASTCorpus: hand-written AST boundary cases (also compared with the model).
func dvalASTCorpus() []*dvalCase {
	var out []*dvalCase
	i32p := func(v int32) *int32 { return &v }
	sp := func(s string) *string { return &s }
	mk := func(what string, f *dvalFile) {
		for _, allow := range []bool{false, true} {
			g := dvalCopy(f)
			g.Allow = allow
			out = append(out, dvalASTCase(g, "", "astcorpus:"+what))
		}
	}
	one := func(syn int, fl dvalField, extra ...dvalMsg) *dvalFile {
		return &dvalFile{Syntax: syn, Pkg: "p", Msgs: append([]dvalMsg{{Name: "M", Fields: []dvalField{fl}}}, extra...)}
	}
	for syn := 0; syn < 4; syn++ {
		mk("empty", &dvalFile{Syntax: syn})
		mk("one-int32", one(syn, dvalField{Name: "f", Num: 1, Label: 1, Type: 5}))
		for _, n := range []int32{0, -1, 1, 18999, 19000, 19999, 20000, 1<<29 - 1, 1 << 29, 2147483647, -2147483648} {
			mk(fmt.Sprintf("num-%d", n), one(syn, dvalField{Name: "f", Num: n, Label: 1, Type: 5}))
		}
		for lab := int32(-1); lab <= 4; lab++ {
			mk(fmt.Sprintf("label-%d", lab), one(syn, dvalField{Name: "f", Num: 1, Label: lab, Type: 5}))
		}
		for ty := int32(-1); ty <= 19; ty++ {
			mk(fmt.Sprintf("type-%d", ty), one(syn, dvalField{Name: "f", Num: 1, Label: 1, Type: ty}))
			mk(fmt.Sprintf("type-%d-tn", ty), one(syn, dvalField{Name: "f", Num: 1, Label: 3, Type: ty, TypeName: ".p.M", Packed: 2}))
			mk(fmt.Sprintf("type-%d-en", ty), &dvalFile{Syntax: syn, Pkg: "p", Enums: []dvalEnum{{Name: "E", Vals: []dvalEVal{{"A", 0, true}}}},
				Msgs: []dvalMsg{{Name: "M", Fields: []dvalField{{Name: "f", Num: 1, Label: 1, Type: ty, TypeName: "E"}}}}})
		}
		for _, tn := range dvalAdvTypeNames {
			mk("tn-"+tn, one(syn, dvalField{Name: "f", Num: 1, Label: 1, Type: 11, TypeName: tn}))
			mk("tn0-"+tn, one(syn, dvalField{Name: "f", Num: 1, Label: 1, Type: 0, TypeName: tn}))
			mk("xt-"+tn, &dvalFile{Syntax: syn, Pkg: "p", Msgs: []dvalMsg{{Name: "M1", ExtRanges: []dvalRange{{100, 200}}}},
				Exts: []dvalField{{Name: "x", Num: 100, Label: 1, Type: 5, Extendee: sp(tn)}}})
		}
		for _, nm := range dvalAdvNames {
			mk("name-"+nm, one(syn, dvalField{Name: nm, Num: 1, Label: 1, Type: 5}))
		}
		for _, oi := range []int32{0, 1, -1, 2147483647} {
			mk(fmt.Sprintf("oneof-%d", oi), &dvalFile{Syntax: syn, Pkg: "p", Msgs: []dvalMsg{{Name: "M", Oneofs: []string{"o"},
				Fields: []dvalField{{Name: "f", Num: 1, Label: 1, Type: 5, Oneof: i32p(oi)}}}}})
		}
		mk("p3opt", &dvalFile{Syntax: syn, Pkg: "p", Msgs: []dvalMsg{{Name: "M", Oneofs: []string{"_f"},
			Fields: []dvalField{{Name: "f", Num: 1, Label: 1, Type: 5, Oneof: i32p(0), P3Opt: true}}}}})
		mk("p3opt-no-oneof", one(syn, dvalField{Name: "f", Num: 1, Label: 1, Type: 5, P3Opt: true}))
		mk("synthetic-before-real", &dvalFile{Syntax: syn, Pkg: "p", Msgs: []dvalMsg{{Name: "M", Oneofs: []string{"_f", "o"},
			Fields: []dvalField{{Name: "f", Num: 1, Label: 1, Type: 5, Oneof: i32p(0), P3Opt: true}, {Name: "g", Num: 2, Label: 1, Type: 5, Oneof: i32p(1)}}}}})
		// ranges
		for _, r := range []dvalRange{{1, 2}, {1, 1}, {2, 1}, {0, 1}, {1, 1 << 29}, {1, 1<<29 + 1}, {5, -2147483648}, {1 << 29, -2147483648}, {-2147483648, 5}, {19000, 20000}} {
			for _, ms := range []bool{false, true} {
				mk(fmt.Sprintf("res-%v-%v", r, ms), &dvalFile{Syntax: syn, Pkg: "p", Msgs: []dvalMsg{{Name: "M", ResRanges: []dvalRange{r}, MsgSet: ms}}})
				mk(fmt.Sprintf("ext-%v-%v", r, ms), &dvalFile{Syntax: syn, Pkg: "p", Msgs: []dvalMsg{{Name: "M", ExtRanges: []dvalRange{r}, MsgSet: ms}}})
			}
			mk(fmt.Sprintf("eres-%v", r), &dvalFile{Syntax: syn, Pkg: "p", Enums: []dvalEnum{{Name: "E", Vals: []dvalEVal{{"A", 0, true}}, ResRanges: []dvalRange{r}}}})
		}
		mk("overlap-sweep", &dvalFile{Syntax: syn, Pkg: "p", Msgs: []dvalMsg{{Name: "M",
			ResRanges: []dvalRange{{10, 20}, {30, 40}, {50, 60}}, ExtRanges: []dvalRange{{20, 30}, {40, 50}, {59, 70}}}}})
		// overlaps by exactly one number / touching ranges / the same range twice
		for _, rs := range [][]dvalRange{{{10, 20}, {19, 30}}, {{10, 20}, {20, 30}}, {{19, 30}, {10, 20}}, {{10, 20}, {10, 20}}, {{10, 11}, {10, 30}}, {{10, 30}, {29, 30}}} {
			mk(fmt.Sprintf("res-adjacent-%v", rs), &dvalFile{Syntax: syn, Pkg: "p", Msgs: []dvalMsg{{Name: "M", ResRanges: rs}}})
			mk(fmt.Sprintf("ext-adjacent-%v", rs), &dvalFile{Syntax: syn, Pkg: "p", Msgs: []dvalMsg{{Name: "M", ExtRanges: rs}}})
			mk(fmt.Sprintf("res-ext-adjacent-%v", rs), &dvalFile{Syntax: syn, Pkg: "p", Msgs: []dvalMsg{{Name: "M", ResRanges: rs[:1], ExtRanges: rs[1:]}}})
			mk(fmt.Sprintf("field-at-edge-%v", rs), &dvalFile{Syntax: syn, Pkg: "p", Msgs: []dvalMsg{{Name: "M", ResRanges: rs[:1],
				Fields: []dvalField{{Name: "f", Num: rs[0].E, Label: 1, Type: 5}, {Name: "g", Num: rs[0].E - 1, Label: 1, Type: 5}, {Name: "h", Num: rs[0].S - 1, Label: 1, Type: 5}}}}})
		}
		for _, rs := range [][]dvalRange{{{1, 5}, {5, 9}}, {{1, 5}, {6, 9}}, {{6, 9}, {1, 5}}, {{1, 5}, {1, 5}}} {
			mk(fmt.Sprintf("eres-adjacent-%v", rs), &dvalFile{Syntax: syn, Pkg: "p", Enums: []dvalEnum{{Name: "E", Vals: []dvalEVal{{"A", 0, true}}, ResRanges: rs}}})
		}
		mk("overlap-sweep-ok", &dvalFile{Syntax: syn, Pkg: "p", Msgs: []dvalMsg{{Name: "M",
			ResRanges: []dvalRange{{50, 60}, {10, 20}, {30, 40}}, ExtRanges: []dvalRange{{40, 50}, {20, 30}, {60, 70}}}}})
		// enum corner cases
		mk("enum-alias", &dvalFile{Syntax: syn, Pkg: "p", Enums: []dvalEnum{{Name: "E", Alias: true, Vals: []dvalEVal{{"A", 0, true}, {"B", 0, true}}}}})
		mk("enum-alias-none", &dvalFile{Syntax: syn, Pkg: "p", Enums: []dvalEnum{{Name: "E", Alias: true, Vals: []dvalEVal{{"A", 0, true}, {"B", 1, true}}}}})
		mk("enum-nonum", &dvalFile{Syntax: syn, Pkg: "p", Enums: []dvalEnum{{Name: "E", Vals: []dvalEVal{{"A", 0, false}, {"B", 1, true}}}}})
		mk("enum-prefix-conflict", &dvalFile{Syntax: syn, Pkg: "p", Enums: []dvalEnum{{Name: "My_Enum", Vals: []dvalEVal{{"MYENUM_FOO", 0, true}, {"my_enum__foo", 1, true}}}}})
		mk("enum-prefix-conflict2", &dvalFile{Syntax: syn, Pkg: "p", Enums: []dvalEnum{{Name: "E", Vals: []dvalEVal{{"FOO_BAR", 0, true}, {"foo_bar", 1, true}, {"E_", 2, true}, {"E", 3, true}}}}})
		mk("enum-prefix-same-number", &dvalFile{Syntax: syn, Pkg: "p", Enums: []dvalEnum{{Name: "E", Alias: true, Vals: []dvalEVal{{"FOO", 0, true}, {"Foo", 0, true}}}}})
		// extension of a later sibling with unsorted / invalid ranges (binary search over unvalidated ranges)
		mk("ext-unvalidated-ranges", &dvalFile{Syntax: syn, Pkg: "p", Msgs: []dvalMsg{
			{Name: "A", Exts: []dvalField{{Name: "x", Num: 15, Label: 1, Type: 5, Extendee: sp(".p.B")}}},
			{Name: "B", ExtRanges: []dvalRange{{10, 100}, {12, 14}, {20, 13}}}}})
		// json names on extensions
		for _, j := range []string{"fooBar", "foo_bar", "FooBar", ""} {
			mk("ext-json-"+j, &dvalFile{Syntax: syn, Pkg: "p", Msgs: []dvalMsg{{Name: "B", ExtRanges: []dvalRange{{10, 100}}}},
				Exts: []dvalField{{Name: "foo_bar", Num: 15, Label: 1, Type: 5, Extendee: sp(".p.B"), JSON: sp(j)}}})
		}
		// group and map shapes
		mk("group-ok", &dvalFile{Syntax: syn, Pkg: "p", Msgs: []dvalMsg{{Name: "M", Msgs: []dvalMsg{{Name: "G"}},
			Fields: []dvalField{{Name: "g", Num: 1, Label: 1, Type: 10, TypeName: ".p.M.G"}}}}})
		mk("group-lower", &dvalFile{Syntax: syn, Pkg: "p", Msgs: []dvalMsg{{Name: "M", Msgs: []dvalMsg{{Name: "g"}},
			Fields: []dvalField{{Name: "g", Num: 1, Label: 1, Type: 10, TypeName: ".p.M.g"}}}}})
		mk("group-scope", &dvalFile{Syntax: syn, Pkg: "p", Msgs: []dvalMsg{{Name: "G"}, {Name: "M",
			Fields: []dvalField{{Name: "g", Num: 1, Label: 1, Type: 10, TypeName: ".p.G"}}}}})
		mk("group-map-entry", &dvalFile{Syntax: syn, Pkg: "p", Msgs: []dvalMsg{{Name: "M", Msgs: []dvalMsg{{Name: "FEntry", MapEntry: true,
			Fields: []dvalField{{Name: "key", Num: 1, Label: 1, Type: 5}, {Name: "value", Num: 2, Label: 1, Type: 5}}}},
			Fields: []dvalField{{Name: "f", Num: 1, Label: 3, Type: 10, TypeName: ".p.M.FEntry"}}}}})
		mk("group-inside-map-entry", &dvalFile{Syntax: syn, Pkg: "p", Msgs: []dvalMsg{{Name: "G"}, {Name: "M", Msgs: []dvalMsg{{Name: "FEntry", MapEntry: true,
			Fields: []dvalField{{Name: "key", Num: 1, Label: 1, Type: 5}, {Name: "value", Num: 2, Label: 1, Type: 10, TypeName: ".p.G"}}}},
			Fields: []dvalField{{Name: "f", Num: 1, Label: 3, Type: 11, TypeName: ".p.M.FEntry"}}}}})
		for kt := int32(0); kt <= 18; kt++ {
			mk(fmt.Sprintf("map-key-%d", kt), &dvalFile{Syntax: syn, Pkg: "p", Msgs: []dvalMsg{{Name: "M", Msgs: []dvalMsg{{Name: "FooBarEntry", MapEntry: true,
				Fields: []dvalField{{Name: "key", Num: 1, Label: 1, Type: kt}, {Name: "value", Num: 2, Label: 1, Type: 5}}}},
				Fields: []dvalField{{Name: "foo_bar", Num: 1, Label: 3, Type: 11, TypeName: "FooBarEntry"}}}}})
		}
		mk("map-value-enum-nonzero", &dvalFile{Syntax: syn, Pkg: "p", Enums: []dvalEnum{{Name: "E", Vals: []dvalEVal{{"A", 1, true}}}},
			Msgs: []dvalMsg{{Name: "M", Msgs: []dvalMsg{{Name: "FEntry", MapEntry: true,
				Fields: []dvalField{{Name: "key", Num: 1, Label: 1, Type: 5}, {Name: "value", Num: 2, Label: 1, Type: 14, TypeName: ".p.E"}}}},
				Fields: []dvalField{{Name: "f", Num: 1, Label: 3, Type: 11, TypeName: ".p.M.FEntry"}}}}})
		mk("ext-map-entry", &dvalFile{Syntax: syn, Pkg: "p", Msgs: []dvalMsg{{Name: "B", ExtRanges: []dvalRange{{10, 100}}}, {Name: "FEntry", MapEntry: true}},
			Exts: []dvalField{{Name: "x", Num: 15, Label: 3, Type: 11, TypeName: ".p.FEntry", Extendee: sp(".p.B")}}})
		mk("ext-options", &dvalFile{Syntax: syn, Pkg: "p",
			Exts: []dvalField{{Name: "x", Num: 50000, Label: 1, Type: 5, Extendee: sp(".google.protobuf.FieldOptions")}}})
		mk("msgset", &dvalFile{Syntax: syn, Pkg: "p", Msgs: []dvalMsg{{Name: "B", MsgSet: true, ExtRanges: []dvalRange{{4, 2147483647}}}}})
	}
	return out
}

// ---------------------------------------------------------------- proto-level base and edits

var dvalLinked []*descriptorpb.FileDescriptorProto

func dvalLinkedFiles() []*descriptorpb.FileDescriptorProto {
	if dvalLinked != nil {
		return dvalLinked
	}
	var fds []protoreflect.FileDescriptor
	protoregistry.GlobalFiles.RangeFiles(func(fd protoreflect.FileDescriptor) bool {
		fds = append(fds, fd)
		return true
	})
	sort.Slice(fds, func(i, j int) bool { return fds[i].Path() < fds[j].Path() })
	for _, fd := range fds {
		// The legacy test fixtures (internal/testprotos/legacy) import twelve historical generations, two of which
		// (2016) never register their file descriptor: such a file cannot be rebuilt against GlobalFiles and is
		// not a "valid base" for this family (it is linked in by other harness families).
		if strings.HasPrefix(fd.Path(), "internal/testprotos/legacy/") {
			continue
		}
		dvalLinked = append(dvalLinked, protodesc.ToFileDescriptorProto(fd))
	}
	return dvalLinked
}

func dvalHasMessageSet(p *descriptorpb.FileDescriptorProto) bool {
	var any func(ms []*descriptorpb.DescriptorProto) bool
	any = func(ms []*descriptorpb.DescriptorProto) bool {
		for _, m := range ms {
			if m.GetOptions().GetMessageSetWireFormat() || any(m.NestedType) {
				return true
			}
		}
		return false
	}
	return any(p.MessageType)
}

var dvalAdvStrings = []string{"", ".", "..", "a", "a.b", ".a.b", "a..b", "1", "*", "*.a", "key", "value", "proto2", "proto3", "editions",
	dvalTestdataPrefix + "y.proto", "google/protobuf/descriptor.proto", "google/protobuf/any.proto", ".google.protobuf.Any", "google.protobuf.Any",
	".google.protobuf.FieldOptions", "\xff", "0", "-1", "1e400", "inf", "true", "a b", strings.Repeat("a.", 300) + "a", strings.Repeat("A", 2000)}
var dvalAdvInt32 = []int32{0, 1, -1, 2, 3, 15, 16, 18999, 19000, 19999, 20000, 1<<29 - 1, 1 << 29, 2147483647, -2147483648, 998, 999, 1000, 1001, 1002, 9999, 99999, 900}

// dvalCollect lists every message node of a proto tree.
func dvalCollect(m protoreflect.Message, out *[]protoreflect.Message, depth int) {
	*out = append(*out, m)
	if depth > 12 {
		return
	}
	m.Range(func(fd protoreflect.FieldDescriptor, v protoreflect.Value) bool {
		if fd.Message() == nil || fd.IsMap() {
			return true
		}
		if fd.IsList() {
			l := v.List()
			for i := 0; i < l.Len(); i++ {
				dvalCollect(l.Get(i).Message(), out, depth+1)
			}
		} else {
			dvalCollect(v.Message(), out, depth+1)
		}
		return true
	})
}

func dvalAdvScalar(c *Ctx, fd protoreflect.FieldDescriptor, pool []string) protoreflect.Value {
	switch fd.Kind() {
	case protoreflect.BoolKind:
		return protoreflect.ValueOfBool(c.Bool())
	case protoreflect.Int32Kind, protoreflect.Sint32Kind, protoreflect.Sfixed32Kind:
		if c.Intn(4) == 0 {
			return protoreflect.ValueOfInt32(int32(c.Intn(40)) - 3)
		}
		return protoreflect.ValueOfInt32(dvalAdvInt32[c.Intn(len(dvalAdvInt32))])
	case protoreflect.Int64Kind, protoreflect.Sint64Kind, protoreflect.Sfixed64Kind:
		return protoreflect.ValueOfInt64(int64(c.U64()) >> uint(c.Intn(64)))
	case protoreflect.Uint32Kind, protoreflect.Fixed32Kind:
		return protoreflect.ValueOfUint32(uint32(c.U64()) >> uint(c.Intn(32)))
	case protoreflect.Uint64Kind, protoreflect.Fixed64Kind:
		return protoreflect.ValueOfUint64(c.U64() >> uint(c.Intn(64)))
	case protoreflect.FloatKind:
		return protoreflect.ValueOfFloat32(float32(c.Intn(100)) - 3.5)
	case protoreflect.DoubleKind:
		return protoreflect.ValueOfFloat64(float64(c.Intn(100)) - 3.5)
	case protoreflect.StringKind:
		if len(pool) > 0 && c.Bool() {
			return protoreflect.ValueOfString(pool[c.Intn(len(pool))])
		}
		return protoreflect.ValueOfString(dvalAdvStrings[c.Intn(len(dvalAdvStrings))])
	case protoreflect.BytesKind:
		return protoreflect.ValueOfBytes(c.Bytes(c.Intn(6)))
	case protoreflect.EnumKind:
		vs := fd.Enum().Values()
		if c.Intn(4) == 0 {
			return protoreflect.ValueOfEnum(protoreflect.EnumNumber(dvalAdvInt32[c.Intn(len(dvalAdvInt32))]))
		}
		return protoreflect.ValueOfEnum(vs.Get(c.Intn(vs.Len())).Number())
	}
	return fd.Default()
}

// dvalStringPool: strings that occur in the file (names, type names) — edits reuse them to
// create collisions and dangling or re-targeted references.
func dvalStringPool(root protoreflect.Message) []string {
	seen := map[string]bool{}
	var nodes []protoreflect.Message
	dvalCollect(root, &nodes, 0)
	for _, n := range nodes {
		n.Range(func(fd protoreflect.FieldDescriptor, v protoreflect.Value) bool {
			if fd.Kind() == protoreflect.StringKind && !fd.IsList() && !fd.IsMap() {
				seen[v.String()] = true
			}
			return true
		})
		if len(seen) > 400 {
			break
		}
	}
	out := make([]string, 0, len(seen))
	for s := range seen {
		out = append(out, s)
	}
	sort.Strings(out)
	return out
}

// dvalProtoEdit applies one random field edit somewhere in the proto tree.
func dvalProtoEdit(c *Ctx, root protoreflect.Message, pool []string) string {
	var nodes []protoreflect.Message
	dvalCollect(root, &nodes, 0)
	m := nodes[c.Intn(len(nodes))]
	fds := m.Descriptor().Fields()
	if fds.Len() == 0 {
		return "noop"
	}
	// prefer populated fields: edits of what is there are more interesting than additions
	var fd protoreflect.FieldDescriptor
	if c.Intn(3) != 0 {
		var set []protoreflect.FieldDescriptor
		m.Range(func(f protoreflect.FieldDescriptor, _ protoreflect.Value) bool { set = append(set, f); return true })
		sort.Slice(set, func(i, j int) bool { return set[i].Number() < set[j].Number() })
		if len(set) > 0 {
			fd = set[c.Intn(len(set))]
		}
	}
	if fd == nil {
		fd = fds.Get(c.Intn(fds.Len()))
	}
	if fd.IsMap() {
		return "noop"
	}
	what := string(m.Descriptor().Name()) + "." + string(fd.Name())
	switch {
	case fd.IsList():
		l := m.Mutable(fd).List()
		switch op := c.Intn(6); {
		case op == 0 && l.Len() > 0: // delete an element
			i := c.Intn(l.Len())
			for j := i; j+1 < l.Len(); j++ {
				l.Set(j, l.Get(j+1))
			}
			l.Truncate(l.Len() - 1)
			return what + ":del"
		case op == 1 && l.Len() > 0: // duplicate an element
			v := l.Get(c.Intn(l.Len()))
			if fd.Message() != nil {
				v = protoreflect.ValueOfMessage(proto.Clone(v.Message().Interface()).ProtoReflect())
			}
			l.Append(v)
			return what + ":dup"
		case op == 2 && l.Len() > 1: // swap
			i, j := c.Intn(l.Len()), c.Intn(l.Len())
			a, b := l.Get(i), l.Get(j)
			if fd.Message() != nil {
				a = protoreflect.ValueOfMessage(proto.Clone(a.Message().Interface()).ProtoReflect())
				b = protoreflect.ValueOfMessage(proto.Clone(b.Message().Interface()).ProtoReflect())
			}
			l.Set(i, b)
			l.Set(j, a)
			return what + ":swap"
		case op == 3:
			m.Clear(fd)
			return what + ":clear"
		case op == 4 && fd.Message() == nil && l.Len() > 0:
			l.Set(c.Intn(l.Len()), dvalAdvScalar(c, fd, pool))
			return what + ":setelem"
		default:
			if fd.Message() != nil {
				l.Append(l.NewElement()) // empty element (nil after nilify)
			} else {
				l.Append(dvalAdvScalar(c, fd, pool))
			}
			return what + ":append"
		}
	case fd.Message() != nil:
		switch c.Intn(3) {
		case 0:
			m.Clear(fd)
			return what + ":clear"
		case 1:
			m.Set(fd, protoreflect.ValueOfMessage(m.NewField(fd).Message()))
			return what + ":empty"
		default:
			// populate one scalar of the sub-message (features, options)
			sub := m.Mutable(fd).Message()
			sfds := sub.Descriptor().Fields()
			sfd := sfds.Get(c.Intn(sfds.Len()))
			if !sfd.IsList() && !sfd.IsMap() && sfd.Message() == nil {
				sub.Set(sfd, dvalAdvScalar(c, sfd, pool))
			} else if sfd.Message() != nil && !sfd.IsList() && !sfd.IsMap() {
				sub.Mutable(sfd)
			}
			return what + ":sub"
		}
	default:
		if c.Intn(4) == 0 {
			m.Clear(fd)
			return what + ":clear"
		}
		m.Set(fd, dvalAdvScalar(c, fd, pool))
		return what + ":set"
	}
}

// dvalRandomFeatures sets random feature overrides (including the Go extension) on options messages.
func dvalRandomFeatureSet(c *Ctx) *descriptorpb.FeatureSet {
	fs := &descriptorpb.FeatureSet{}
	r := fs.ProtoReflect()
	fds := r.Descriptor().Fields()
	for i := 0; i < fds.Len(); i++ {
		fd := fds.Get(i)
		if fd.Kind() == protoreflect.EnumKind && c.Intn(3) == 0 {
			vs := fd.Enum().Values()
			n := vs.Get(c.Intn(vs.Len())).Number()
			if c.Intn(8) == 0 {
				n = protoreflect.EnumNumber(c.Intn(9) - 1)
			}
			r.Set(fd, protoreflect.ValueOfEnum(n))
		}
	}
	if c.Intn(3) == 0 {
		gf := &gofeaturespb.GoFeatures{}
		if c.Bool() {
			gf.LegacyUnmarshalJsonEnum = proto.Bool(c.Bool())
		}
		if c.Bool() {
			gf.ApiLevel = gofeaturespb.GoFeatures_APILevel(c.Intn(5)).Enum()
		}
		if c.Bool() {
			gf.StripEnumPrefix = gofeaturespb.GoFeatures_StripEnumPrefix(c.Intn(5)).Enum()
		}
		proto.SetExtension(fs, gofeaturespb.E_Go, gf)
	}
	return fs
}

// ---------------------------------------------------------------- driver

func famDval(c *Ctx) {
	defer dvalStopChild()
	var plan []*dvalCase
	flush := func() {
		if len(plan) == 0 {
			return
		}
		ins := make([]*dvalInput, len(plan))
		for i, cs := range plan {
			ins[i] = cs.In
		}
		outs := dvalRunBatch(ins)
		for i, cs := range plan {
			dvalEmit(c, cs, outs[i])
		}
		plan = plan[:0]
	}
	push := func(cs *dvalCase) {
		plan = append(plan, cs)
		if len(plan) >= 1000 {
			flush()
		}
	}

	// (a) corpus
	for _, cs := range dvalCorpus() {
		push(cs)
	}
	for _, cs := range dvalASTCorpus() {
		push(cs)
	}
	for _, cs := range dvalMultiCorpus() {
		push(cs)
	}
	flush()
	// linked files: the descriptor protos of real, valid files must be accepted
	linked := dvalLinkedFiles()
	for _, p := range linked {
		for _, fl := range []byte{dvalFlagGlobal, dvalFlagGlobal | dvalFlagAllow} {
			in := &dvalInput{Flags: fl, P: p}
			cs := &dvalCase{In: in, What: "linked:" + p.GetName(), Witness: "linked file " + p.GetName()}
			if !dvalHasMessageSet(p) {
				cs.Expect = "accept"
			}
			push(cs)
		}
	}
	c.StatN("linked_files", len(linked))
	flush()

	n := c.N
	for produced := 0; produced < n; {
		base := dvalGenValid(c)
		// (a') multi-file schemas: import visibility
		for k := 0; k < 6; k++ {
			push(dvalMultiCase(c))
			produced++
		}
		// (b) the valid base itself, under both AllowUnresolvable settings
		for _, allow := range []bool{false, true} {
			g := dvalCopy(base)
			g.Allow = allow
			push(dvalASTCase(g, "accept", "valid-base"))
			produced++
		}
		c.Stat(fmt.Sprintf("base:syntax%d", base.Syntax))
		// (c) targeted injections
		for k := 0; k < 6; k++ {
			inj := dvalInjections[c.Intn(len(dvalInjections))]
			g := dvalCopy(base)
			if !inj.Apply(c, g) {
				c.Stat("inject-na:" + inj.Class)
				continue
			}
			g.Allow = c.Bool()
			if inj.NeedAllowOff {
				g.Allow = false
			}
			push(dvalASTCase(g, "reject", "inject:"+inj.Class))
			produced++
		}
		// (d) random / adversarial edits of the AST (model-compared, no expectation)
		for k := 0; k < 8; k++ {
			g := dvalCopy(base)
			for j, m := 0, 1+c.Intn(3); j < m; j++ {
				dvalMutate(c, g)
			}
			push(dvalASTCase(g, "", "mutate"))
			produced++
		}
		// (e) proto-level edits of the AST-derived proto and of linked files (robustness only)
		for k := 0; k < 6; k++ {
			var p *descriptorpb.FileDescriptorProto
			flags := byte(0)
			if c.Intn(3) == 0 && len(linked) > 0 {
				p = proto.Clone(linked[c.Intn(len(linked))]).(*descriptorpb.FileDescriptorProto)
				if proto.Size(p) > 60000 {
					p = proto.Clone(dvalFileP(base)).(*descriptorpb.FileDescriptorProto)
				} else {
					flags |= dvalFlagGlobal
				}
			} else {
				p = dvalFileP(base)
				if c.Intn(3) == 0 {
					flags |= dvalFlagGlobal
				}
			}
			if c.Bool() {
				flags |= dvalFlagAllow
			}
			if c.Intn(4) == 0 {
				flags |= dvalFlagNilify
			}
			pool := dvalStringPool(p.ProtoReflect())
			var ops []string
			if c.Intn(4) == 0 { // feature overrides somewhere
				switch c.Intn(3) {
				case 0:
					if p.Options == nil {
						p.Options = &descriptorpb.FileOptions{}
					}
					p.Options.Features = dvalRandomFeatureSet(c)
				case 1:
					if len(p.MessageType) > 0 {
						m := p.MessageType[c.Intn(len(p.MessageType))]
						if m.Options == nil {
							m.Options = &descriptorpb.MessageOptions{}
						}
						m.Options.Features = dvalRandomFeatureSet(c)
					}
				case 2:
					if len(p.MessageType) > 0 {
						m := p.MessageType[c.Intn(len(p.MessageType))]
						if len(m.Field) > 0 {
							f := m.Field[c.Intn(len(m.Field))]
							if f.Options == nil {
								f.Options = &descriptorpb.FieldOptions{}
							}
							f.Options.Features = dvalRandomFeatureSet(c)
						}
					}
				}
				ops = append(ops, "features")
			}
			if c.Intn(10) == 0 { // steer towards the F10 neighbourhood
				p.Name = proto.String(dvalTestdataPrefix + "z.proto")
				p.Syntax = proto.String("editions")
				p.Edition = descriptorpb.Edition(dvalAdvInt32[c.Intn(len(dvalAdvInt32))]).Enum()
				ops = append(ops, "f10ish")
			}
			for j, m := 0, 1+c.Intn(4); j < m; j++ {
				ops = append(ops, dvalProtoEdit(c, p.ProtoReflect(), pool))
			}
			in := &dvalInput{Flags: flags, P: p}
			push(&dvalCase{In: in, What: "protoedit:" + strings.Join(ops, ",")})
			c.Stat("protoedit")
			produced++
		}
	}
	flush()
}
