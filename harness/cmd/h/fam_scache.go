//go:build verif

package main

// family "scache": C16 — the size cache never makes Marshal output stale.
//
// A history is a random interleaving of mutations at random paths of a nested
// corpus message with Size / Marshal (with and without the caller's
// UseCachedSize, with and without Deterministic) / Equal / Clone.  The harness
// keeps a *mirror* of the content (plain Go values; it is the source of truth
// for "the current content") next to the real message tree.
//
//   C line:  scache hist <T0> <op>... | <obs>...
//     the abstract tree (own-bytes length + framed children + the sizecache
//     cells read out of the Go structs) and the abstract op sequence, with, per
//     op, the observed result and the observed caches of the whole tree.  The
//     extracted Coq model (Msg/SizeCacheModel.v) re-runs the history.
//   P lines: a Marshal that is not the encoding of the current content (the
//     reference is the deterministic encoding of a message rebuilt from the
//     mirror), Size != len(Marshal), a read-only op that changed a cache, ...

import (
	"bytes"
	"fmt"
	"google.golang.org/protobuf/runtime/protoiface"
	"reflect"
	"strconv"
	"strings"

	"google.golang.org/protobuf/encoding/protowire"
	"google.golang.org/protobuf/internal/encoding/messageset"
	"google.golang.org/protobuf/internal/impl"
	"google.golang.org/protobuf/internal/strs"
	"google.golang.org/protobuf/proto"
	"google.golang.org/protobuf/reflect/protoreflect"
	"google.golang.org/protobuf/reflect/protoregistry"

	lazypb "google.golang.org/protobuf/internal/testprotos/lazy"
	lazyhybridpb "google.golang.org/protobuf/internal/testprotos/lazy/lazy_hybrid"
	lazyopaquepb "google.golang.org/protobuf/internal/testprotos/lazy/lazy_opaque"
	testpb "google.golang.org/protobuf/internal/testprotos/test"
	test3pb "google.golang.org/protobuf/internal/testprotos/test3"
	testeditionspb "google.golang.org/protobuf/internal/testprotos/testeditions"
	testhybridpb "google.golang.org/protobuf/internal/testprotos/testeditions/testeditions_hybrid"
	testopaquepb "google.golang.org/protobuf/internal/testprotos/testeditions/testeditions_opaque"
)

func init() { Register("scache", famScache) }

var scacheRoots = []proto.Message{
	(*testpb.TestAllTypes)(nil),
	(*testpb.TestAllExtensions)(nil),
	(*test3pb.TestAllTypes)(nil),
	(*testeditionspb.TestAllTypes)(nil),
	(*testhybridpb.TestAllTypes)(nil),
	(*testopaquepb.TestAllTypes)(nil),
	(*testeditionspb.TestAllExtensions)(nil),
	(*testopaquepb.TestAllExtensions)(nil),
	(*lazyopaquepb.Node)(nil),
	(*lazyhybridpb.Node)(nil),
	(*lazypb.Node)(nil),
	(*lazypb.Tree)(nil),
}

const scacheMaxDepth = 3 // root = depth 0, so trees have at most 4 levels

// ---------------------------------------------------------------- mirror

type scacheScal struct {
	fd   protoreflect.FieldDescriptor
	v    protoreflect.Value   // singular
	list []protoreflect.Value // repeated
}

type scacheNode struct {
	msg     protoreflect.Message // nil while the node only exists inside a lazy buffer
	md      protoreflect.MessageDescriptor
	scal    map[protoreflect.FieldNumber]*scacheScal
	order   []protoreflect.FieldNumber // insertion order of scal (for deterministic iteration)
	unknown []byte
	kids    []*scacheKid
	parent  *scacheNode
	depth   int
}

type scacheKid struct {
	fd     protoreflect.FieldDescriptor // extension: the ExtensionTypeDescriptor
	isList bool
	isMap  bool
	key    protoreflect.MapKey
	node   *scacheNode
	raw    bool // still undecoded bytes in the parent's lazy buffer / lazy extension
}

type scacheInfo struct {
	scalars []protoreflect.FieldDescriptor
	kids    []protoreflect.FieldDescriptor // message-typed fields and message-typed extensions
}

var scacheInfos = map[protoreflect.FullName]*scacheInfo{}

func scacheScalarKind(k protoreflect.Kind) bool {
	switch k {
	case protoreflect.Int32Kind, protoreflect.Int64Kind, protoreflect.Uint32Kind, protoreflect.Uint64Kind,
		protoreflect.Sint32Kind, protoreflect.Sint64Kind, protoreflect.BoolKind,
		protoreflect.Fixed32Kind, protoreflect.Fixed64Kind, protoreflect.Sfixed32Kind, protoreflect.Sfixed64Kind,
		protoreflect.StringKind, protoreflect.BytesKind:
		return true
	}
	return false
}

func scacheIsMsgKind(fd protoreflect.FieldDescriptor) bool {
	return fd.Kind() == protoreflect.MessageKind || fd.Kind() == protoreflect.GroupKind
}

func scacheInfoOf(md protoreflect.MessageDescriptor) *scacheInfo {
	if in, ok := scacheInfos[md.FullName()]; ok {
		return in
	}
	in := &scacheInfo{}
	fds := md.Fields()
	for i := 0; i < fds.Len(); i++ {
		fd := fds.Get(i)
		if fd.IsWeak() {
			continue
		}
		if cd := scacheChildDescOrNil(fd); cd != nil && messageset.IsMessageSet(cd) {
			continue // MessageSet-typed children: see scacheMessageSetProbe (finding F13u)
		}
		switch {
		case fd.IsMap():
			if scacheIsMsgKind(fd.MapValue()) && scacheScalarKind(fd.MapKey().Kind()) {
				in.kids = append(in.kids, fd)
			}
		case scacheIsMsgKind(fd):
			in.kids = append(in.kids, fd)
		case scacheScalarKind(fd.Kind()):
			if oo := fd.ContainingOneof(); oo != nil && !oo.IsSynthetic() {
				continue // a scalar oneof member would silently clear a message member
			}
			in.scalars = append(in.scalars, fd)
		}
	}
	if md.ExtensionRanges().Len() > 0 {
		protoregistry.GlobalTypes.RangeExtensionsByMessage(md.FullName(), func(xt protoreflect.ExtensionType) bool {
			xd := xt.TypeDescriptor()
			if scacheIsMsgKind(xd) && !xd.IsMap() {
				in.kids = append(in.kids, xd)
			}
			return true
		})
		// registry iteration order is random: sort by number
		for i := 1; i < len(in.kids); i++ {
			for j := i; j > 0 && in.kids[j].IsExtension() && in.kids[j-1].IsExtension() && in.kids[j].Number() < in.kids[j-1].Number(); j-- {
				in.kids[j], in.kids[j-1] = in.kids[j-1], in.kids[j]
			}
		}
	}
	scacheInfos[md.FullName()] = in
	return in
}

// ---------------------------------------------------------------- sizes computed by the harness (protowire only)

func scacheValSize(kind protoreflect.Kind, v protoreflect.Value) int {
	switch kind {
	case protoreflect.Int32Kind, protoreflect.Int64Kind:
		return protowire.SizeVarint(uint64(v.Int()))
	case protoreflect.Uint32Kind, protoreflect.Uint64Kind:
		return protowire.SizeVarint(v.Uint())
	case protoreflect.Sint32Kind, protoreflect.Sint64Kind:
		return protowire.SizeVarint(protowire.EncodeZigZag(v.Int()))
	case protoreflect.BoolKind:
		return 1
	case protoreflect.Fixed32Kind, protoreflect.Sfixed32Kind:
		return 4
	case protoreflect.Fixed64Kind, protoreflect.Sfixed64Kind:
		return 8
	case protoreflect.StringKind:
		return protowire.SizeBytes(len(v.String()))
	case protoreflect.BytesKind:
		return protowire.SizeBytes(len(v.Bytes()))
	}
	panic("scache: unsupported kind " + kind.String())
}

func scacheIsZero(kind protoreflect.Kind, v protoreflect.Value) bool {
	switch kind {
	case protoreflect.Int32Kind, protoreflect.Int64Kind, protoreflect.Sint32Kind, protoreflect.Sint64Kind,
		protoreflect.Sfixed32Kind, protoreflect.Sfixed64Kind:
		return v.Int() == 0
	case protoreflect.Uint32Kind, protoreflect.Uint64Kind, protoreflect.Fixed32Kind, protoreflect.Fixed64Kind:
		return v.Uint() == 0
	case protoreflect.BoolKind:
		return !v.Bool()
	case protoreflect.StringKind:
		return len(v.String()) == 0
	case protoreflect.BytesKind:
		return len(v.Bytes()) == 0
	}
	return false
}

func scacheScalSize(s *scacheScal) int {
	fd := s.fd
	tag := protowire.SizeTag(fd.Number())
	if fd.IsList() {
		if len(s.list) == 0 {
			return 0
		}
		n := 0
		if fd.IsPacked() {
			for _, v := range s.list {
				n += scacheValSize(fd.Kind(), v)
			}
			return tag + protowire.SizeBytes(n)
		}
		for _, v := range s.list {
			n += tag + scacheValSize(fd.Kind(), v)
		}
		return n
	}
	if !fd.HasPresence() && scacheIsZero(fd.Kind(), s.v) {
		return 0
	}
	return tag + scacheValSize(fd.Kind(), s.v)
}

func (n *scacheNode) ownSize() int {
	sz := len(n.unknown)
	for _, num := range n.order {
		sz += scacheScalSize(n.scal[num])
	}
	return sz
}

// framing of a child: letter, tag length, (map) key-field length
func (k *scacheKid) framing() (byte, int, int) {
	tag := protowire.SizeTag(k.fd.Number())
	switch {
	case k.isMap:
		return 'm', tag, 1 + scacheValSize(k.fd.MapKey().Kind(), k.key.Value())
	case k.fd.IsExtension() && k.fd.Kind() == protoreflect.GroupKind:
		return 'y', tag, 0 // appendGroupValue: through proto.MarshalOptions.MarshalAppend
	case k.fd.IsExtension():
		return 'x', tag, 0 // appendMessageValue: through proto.MarshalOptions
	case k.fd.Kind() == protoreflect.GroupKind:
		return 'g', tag, 0
	default:
		return 'l', tag, 0
	}
}

// kind_size of the model, computed here only to size undecoded lazy children
func (k *scacheKid) framedSize(s int) int {
	letter, tag, key := k.framing()
	switch letter {
	case 'm':
		return tag + protowire.SizeBytes(key+1+protowire.SizeBytes(s))
	case 'g', 'y':
		return 2*tag + s
	default:
		return tag + protowire.SizeBytes(s)
	}
}

func (n *scacheNode) size() int {
	sz := n.ownSize()
	for _, k := range n.kids {
		sz += k.framedSize(k.node.size())
	}
	return sz
}

// ---------------------------------------------------------------- reading the Go structs

func scacheCacheOf(m protoreflect.Message) int64 {
	rv := reflect.ValueOf(m.Interface())
	if rv.Kind() != reflect.Ptr || rv.IsNil() {
		return -1
	}
	rv = rv.Elem()
	if rv.Kind() != reflect.Struct {
		return -1
	}
	f := rv.FieldByName("sizeCache")
	if !f.IsValid() {
		f = rv.FieldByName("XXX_sizecache")
	}
	if !f.IsValid() {
		return -1
	}
	return f.Int()
}

func scacheFieldIsLazy(fd protoreflect.FieldDescriptor) bool {
	l, ok := fd.(interface{ IsLazy() bool })
	return ok && l.IsLazy()
}

// undecoded reports whether the (present) child k of the real message m is
// still held as bytes (lazy message field with a nil pointer / lazy extension).
func scacheUndecoded(m protoreflect.Message, k *scacheKid) bool {
	if k.fd.IsExtension() {
		return impl.IsLazy(m, k.fd)
	}
	if k.isList || k.isMap || !scacheFieldIsLazy(k.fd) {
		return false
	}
	rv := reflect.ValueOf(m.Interface())
	if rv.Kind() != reflect.Ptr || rv.IsNil() {
		return false
	}
	rv = rv.Elem()
	name := strs.GoCamelCase(string(k.fd.Name()))
	f := rv.FieldByName("xxx_hidden_" + name)
	if !f.IsValid() {
		f = rv.FieldByName(name)
	}
	if !f.IsValid() || f.Kind() != reflect.Ptr {
		return false
	}
	if !f.IsNil() {
		return false
	}
	// nil pointer: undecoded only if the message really has lazy state (opaque/hybrid presence)
	return rv.FieldByName("XXX_lazyUnmarshalInfo").IsValid() || rv.FieldByName("XXX_presence").IsValid()
}

// ---------------------------------------------------------------- abstract tokens

func (n *scacheNode) abs(sb *strings.Builder) {
	c := int64(0)
	if n.msg != nil {
		c = scacheCacheOf(n.msg)
	}
	sb.WriteByte('(')
	sb.WriteString(strconv.FormatInt(c, 16))
	sb.WriteString(",r")
	sb.WriteString(strconv.FormatInt(int64(n.ownSize()), 16))
	for _, k := range n.kids {
		sb.WriteByte(',')
		k.abs(sb)
	}
	sb.WriteByte(')')
}

func (k *scacheKid) abs(sb *strings.Builder) {
	if k.raw {
		sb.WriteByte('r')
		sb.WriteString(strconv.FormatInt(int64(k.framedSize(k.node.size())), 16))
		return
	}
	letter, tag, key := k.framing()
	sb.WriteByte(letter)
	sb.WriteString(strconv.Itoa(tag))
	if letter == 'm' {
		sb.WriteByte('.')
		sb.WriteString(strconv.FormatInt(int64(key), 16))
	}
	k.node.abs(sb)
}

func (k *scacheKid) absString() string {
	var sb strings.Builder
	k.abs(&sb)
	return sb.String()
}

func (n *scacheNode) caches(out *[]string) {
	if n.msg == nil {
		return
	}
	*out = append(*out, strconv.FormatInt(scacheCacheOf(n.msg), 16))
	for _, k := range n.kids {
		if !k.raw {
			k.node.caches(out)
		}
	}
}

func (n *scacheNode) path() string {
	var idx []string
	for x := n; x.parent != nil; x = x.parent {
		i := -1
		for j, k := range x.parent.kids {
			if k.node == x {
				i = j + 1
			}
		}
		idx = append([]string{strconv.Itoa(i)}, idx...)
	}
	return strings.Join(idx, ".")
}

// ---------------------------------------------------------------- building real messages from the mirror

func scacheSetScal(m protoreflect.Message, s *scacheScal) {
	if s.fd.IsList() {
		if len(s.list) == 0 {
			m.Clear(s.fd)
			return
		}
		m.Clear(s.fd)
		l := m.Mutable(s.fd).List()
		for _, v := range s.list {
			l.Append(v)
		}
		return
	}
	m.Set(s.fd, s.v)
}

// build populates the (empty) real message m with the content of n.  With
// bind, the mirror nodes are attached to the real messages created.
func (n *scacheNode) build(m protoreflect.Message, bind bool) {
	if bind {
		n.msg = m
	}
	for _, num := range n.order {
		scacheSetScal(m, n.scal[num])
	}
	if len(n.unknown) > 0 {
		m.SetUnknown(append(protoreflect.RawFields(nil), n.unknown...))
	}
	for _, k := range n.kids {
		var cm protoreflect.Message
		switch {
		case k.isMap:
			cm = m.Mutable(k.fd).Map().Mutable(k.key).Message()
		case k.isList:
			cm = m.Mutable(k.fd).List().AppendMutable().Message()
		default:
			cm = m.Mutable(k.fd).Message()
		}
		if bind {
			k.raw = false
		}
		k.node.build(cm, bind)
	}
}

func scacheDetBytes(m proto.Message) ([]byte, error) {
	return proto.MarshalOptions{Deterministic: true, AllowPartial: true}.Marshal(m)
}

// ---------------------------------------------------------------- a history

type scacheHist struct {
	c    *Ctx
	mt   protoreflect.MessageType
	root *scacheNode
	t0   string
	ops  []string
	obs  []string
	fail bool
}

func (h *scacheHist) cachesTok() string {
	var cs []string
	h.root.caches(&cs)
	return "c:" + strings.Join(cs, ".")
}

func (h *scacheHist) push(op, obs string) {
	h.ops = append(h.ops, op)
	h.obs = append(h.obs, obs)
}

func (h *scacheHist) propFail(what string, extra ...string) {
	h.fail = true
	ins := append([]string{string(h.mt.Descriptor().FullName()), h.t0}, h.ops...)
	ins = append(ins, extra...)
	h.c.PropFail("C16", what, ins...)
}

// fresh rebuilds the current content from the mirror into a brand-new message.
func (h *scacheHist) fresh(n *scacheNode) proto.Message {
	var m protoreflect.Message
	if n.parent == nil {
		m = h.mt.New()
	} else {
		m = n.msg.New()
	}
	n.build(m, false)
	return m.Interface()
}

func (n *scacheNode) walk(f func(*scacheNode)) {
	f(n)
	for _, k := range n.kids {
		if !k.raw {
			k.node.walk(f)
		}
	}
}

func (h *scacheHist) liveNodes() []*scacheNode {
	var out []*scacheNode
	h.root.walk(func(n *scacheNode) { out = append(out, n) })
	return out
}

// realChild fetches the real message of kid k (which must be decoded).
func scacheRealChild(n *scacheNode, k *scacheKid) protoreflect.Message {
	switch {
	case k.isMap:
		return n.msg.Get(k.fd).Map().Get(k.key).Message()
	case k.isList:
		idx := 0
		for _, o := range n.kids {
			if o == k {
				break
			}
			if o.fd == k.fd {
				idx++
			}
		}
		return n.msg.Get(k.fd).List().Get(idx).Message()
	default:
		return n.msg.Get(k.fd).Message()
	}
}

// bind attaches the mirror subtree n to the real message m (after Unmarshal or
// after a lazy child got decoded): children that are still undecoded stay raw.
func (n *scacheNode) bind(m protoreflect.Message) {
	n.msg = m
	for _, k := range n.kids {
		if scacheUndecoded(m, k) {
			k.raw = true
			k.node.unbind()
			continue
		}
		k.raw = false
		k.node.bind(scacheRealChild(n, k))
	}
}

func (n *scacheNode) unbind() {
	n.msg = nil
	for _, k := range n.kids {
		k.raw = true
		k.node.unbind()
	}
}

// resync notices lazy children that were decoded by the last operation and
// tells the model (OSet: the Raw item becomes a Sub item with fresh structs).
func (h *scacheHist) resync() {
	var rec func(n *scacheNode)
	rec = func(n *scacheNode) {
		for i, k := range n.kids {
			if k.raw {
				if scacheUndecoded(n.msg, k) {
					continue
				}
				k.raw = false
				k.node.bind(scacheRealChild(n, k))
				h.c.Stat("lazy_decoded")
				// 'L' = OSet reported after the fact: the decode happened inside the
				// operation that is pushed next, so no cache dump is compared here
				h.push("L"+n.path()+";"+strconv.Itoa(i+1)+";"+k.absString(), "-")
			}
			rec(k.node)
		}
	}
	rec(h.root)
}

// ---------------------------------------------------------------- value generators

var scacheLens = []int{0, 1, 2, 5, 100, 120, 124, 125, 126, 127, 128, 129, 130, 200, 300}
var scacheBigLens = []int{16370, 16378, 16380, 16381, 16382, 16383, 16384, 16385, 16390, 20000}

func scacheLen(c *Ctx) int {
	switch c.Intn(24) {
	case 0:
		return scacheBigLens[c.Intn(len(scacheBigLens))]
	case 1, 2, 3, 4:
		return c.Intn(140)
	default:
		return scacheLens[c.Intn(len(scacheLens))]
	}
}

var scacheInts = []int64{0, 1, -1, 127, 128, 16383, 16384, 2097151, 2097152, 1<<31 - 1, -(1 << 31), 1 << 20}

func scacheValue(c *Ctx, kind protoreflect.Kind) protoreflect.Value {
	switch kind {
	case protoreflect.Int32Kind, protoreflect.Sint32Kind, protoreflect.Sfixed32Kind:
		return protoreflect.ValueOfInt32(int32(scacheInts[c.Intn(len(scacheInts))]))
	case protoreflect.Int64Kind, protoreflect.Sint64Kind, protoreflect.Sfixed64Kind:
		if c.Intn(4) == 0 {
			return protoreflect.ValueOfInt64(int64(c.U64()))
		}
		return protoreflect.ValueOfInt64(scacheInts[c.Intn(len(scacheInts))])
	case protoreflect.Uint32Kind, protoreflect.Fixed32Kind:
		return protoreflect.ValueOfUint32(uint32(scacheInts[c.Intn(len(scacheInts))]))
	case protoreflect.Uint64Kind, protoreflect.Fixed64Kind:
		if c.Intn(4) == 0 {
			return protoreflect.ValueOfUint64(c.U64())
		}
		return protoreflect.ValueOfUint64(uint64(scacheInts[c.Intn(len(scacheInts))]))
	case protoreflect.BoolKind:
		return protoreflect.ValueOfBool(c.Bool())
	case protoreflect.StringKind:
		return protoreflect.ValueOfString(strings.Repeat("a", scacheLen(c)))
	case protoreflect.BytesKind:
		return protoreflect.ValueOfBytes(bytes.Repeat([]byte{0x5a}, scacheLen(c)))
	}
	panic("scache: unsupported kind")
}

func scacheKeyValue(c *Ctx, kind protoreflect.Kind) protoreflect.MapKey {
	switch kind {
	case protoreflect.StringKind:
		return protoreflect.ValueOfString(strings.Repeat("k", c.Intn(4)) + strconv.Itoa(c.Intn(5))).MapKey()
	case protoreflect.BoolKind:
		return protoreflect.ValueOfBool(c.Bool()).MapKey()
	default:
		return scacheValue(c, kind).MapKey()
	}
}

// a well-formed unknown field (number outside every corpus message's known fields)
func scacheUnknown(c *Ctx) []byte {
	if c.Intn(5) == 0 {
		return nil
	}
	var b []byte
	b = protowire.AppendTag(b, protowire.Number(500000+c.Intn(8)), protowire.BytesType)
	b = protowire.AppendBytes(b, bytes.Repeat([]byte{0x33}, scacheLen(c)))
	return b
}

// ---------------------------------------------------------------- random mirror subtrees

func scacheNewNode(md protoreflect.MessageDescriptor, parent *scacheNode) *scacheNode {
	n := &scacheNode{md: md, scal: map[protoreflect.FieldNumber]*scacheScal{}, parent: parent}
	if parent != nil {
		n.depth = parent.depth + 1
	}
	return n
}

func (n *scacheNode) setScal(s *scacheScal) {
	if _, ok := n.scal[s.fd.Number()]; !ok {
		n.order = append(n.order, s.fd.Number())
	}
	n.scal[s.fd.Number()] = s
}

func (n *scacheNode) delScal(num protoreflect.FieldNumber) {
	if _, ok := n.scal[num]; !ok {
		return
	}
	delete(n.scal, num)
	for i, x := range n.order {
		if x == num {
			n.order = append(n.order[:i], n.order[i+1:]...)
			break
		}
	}
}

func scacheGenScal(c *Ctx, fd protoreflect.FieldDescriptor) *scacheScal {
	s := &scacheScal{fd: fd}
	if fd.IsList() {
		for i, k := 0, 1+c.Intn(4); i < k; i++ {
			s.list = append(s.list, scacheValue(c, fd.Kind()))
		}
		return s
	}
	s.v = scacheValue(c, fd.Kind())
	return s
}

// canAdd reports whether a new child for fd can be added to n, and returns the
// children that have to go first (same singular field / other member of the oneof).
func (n *scacheNode) conflicts(fd protoreflect.FieldDescriptor) []*scacheKid {
	var out []*scacheKid
	if fd.IsList() || fd.IsMap() {
		return nil
	}
	for _, k := range n.kids {
		if k.fd == fd {
			out = append(out, k)
			continue
		}
		if oo := fd.ContainingOneof(); oo != nil && !fd.IsExtension() && !k.fd.IsExtension() && k.fd.ContainingOneof() == oo {
			out = append(out, k)
		}
	}
	return out
}

func scacheChildDescOrNil(fd protoreflect.FieldDescriptor) protoreflect.MessageDescriptor {
	if fd.IsMap() {
		return fd.MapValue().Message()
	}
	return fd.Message()
}

func scacheChildDesc(fd protoreflect.FieldDescriptor) protoreflect.MessageDescriptor {
	if fd.IsMap() {
		return fd.MapValue().Message()
	}
	return fd.Message()
}

// genKid creates a new mirror child of n for field fd (nil if it would
// conflict with an existing child or a map key is taken).
func (n *scacheNode) genKid(c *Ctx, fd protoreflect.FieldDescriptor, populate int) *scacheKid {
	k := &scacheKid{fd: fd, isList: fd.IsList(), isMap: fd.IsMap()}
	if k.isMap {
		k.key = scacheKeyValue(c, fd.MapKey().Kind())
		for _, o := range n.kids {
			if o.fd == fd && o.key.Interface() == k.key.Interface() {
				return nil
			}
		}
	}
	k.node = scacheNewNode(scacheChildDesc(fd), n)
	k.node.populate(c, populate)
	return k
}

// populate fills n with random scalars and (budget permitting) children.
func (n *scacheNode) populate(c *Ctx, budget int) {
	if budget <= 0 {
		return
	}
	in := scacheInfoOf(n.md)
	if len(in.scalars) > 0 {
		for i, k := 0, c.Intn(3); i < k; i++ {
			n.setScal(scacheGenScal(c, in.scalars[c.Intn(len(in.scalars))]))
		}
	}
	if c.Intn(4) == 0 {
		n.unknown = scacheUnknown(c)
	}
	if n.depth >= scacheMaxDepth || len(in.kids) == 0 {
		return
	}
	for i, k := 0, c.Intn(3); i < k; i++ {
		fd := in.kids[c.Intn(len(in.kids))]
		if len(n.conflicts(fd)) > 0 {
			continue
		}
		if kid := n.genKid(c, fd, budget-1); kid != nil {
			n.kids = append(n.kids, kid)
		}
	}
}

// ---------------------------------------------------------------- operations

func (h *scacheHist) opSetScalar(n *scacheNode) {
	in := scacheInfoOf(n.md)
	c := h.c
	if len(in.scalars) == 0 || c.Intn(6) == 0 {
		// unknown fields
		n.unknown = scacheUnknown(c)
		n.msg.SetUnknown(append(protoreflect.RawFields(nil), n.unknown...))
		c.Stat("op_unknown")
	} else {
		fd := in.scalars[c.Intn(len(in.scalars))]
		if _, has := n.scal[fd.Number()]; has && c.Intn(4) == 0 {
			n.delScal(fd.Number())
			n.msg.Clear(fd)
			c.Stat("op_clear_scalar")
		} else {
			s := scacheGenScal(c, fd)
			n.setScal(s)
			scacheSetScal(n.msg, s)
			c.Stat("op_set_scalar")
		}
	}
	h.push("S"+n.path()+";0;r"+strconv.FormatInt(int64(n.ownSize()), 16), h.cachesTok())
}

func (h *scacheHist) removeKid(n *scacheNode, i int) {
	k := n.kids[i]
	switch {
	case k.isMap:
		n.msg.Mutable(k.fd).Map().Clear(k.key)
	case k.isList:
		// protoreflect lists only shrink at the end: truncate and re-append the
		// remaining elements (the same message values, so their structs survive)
		l := n.msg.Mutable(k.fd).List()
		idx := 0
		for _, o := range n.kids[:i] {
			if o.fd == k.fd {
				idx++
			}
		}
		var keep []protoreflect.Value
		for j := idx + 1; j < l.Len(); j++ {
			keep = append(keep, l.Get(j))
		}
		l.Truncate(idx)
		for _, v := range keep {
			l.Append(v)
		}
	default:
		n.msg.Clear(k.fd)
	}
	n.kids = append(n.kids[:i:i], n.kids[i+1:]...)
	k.node.parent = nil
	h.push("D"+n.path()+";"+strconv.Itoa(i+1), h.cachesTok())
}

func (h *scacheHist) opDelKid(n *scacheNode) bool {
	if len(n.kids) == 0 {
		return false
	}
	i := h.c.Intn(len(n.kids))
	if n.kids[i].isList {
		// all elements of a lazy repeated extension share one buffer: decode first
		if n.kids[i].raw {
			return false
		}
	}
	h.c.Stat("op_del_kid")
	h.removeKid(n, i)
	return true
}

// opAddKid adds a child message: either an empty one created in place
// (Mutable / AppendMutable), or a populated detached subtree that may already
// have been Sized (so it arrives with non-zero caches).
func (h *scacheHist) opAddKid(n *scacheNode) bool {
	c := h.c
	in := scacheInfoOf(n.md)
	if n.depth >= scacheMaxDepth || len(in.kids) == 0 || len(n.kids) >= 6 {
		return false
	}
	fd := in.kids[c.Intn(len(in.kids))]
	for _, k := range n.conflicts(fd) {
		if k.raw && k.fd != fd {
			return false
		}
		for i, o := range n.kids {
			if o == k {
				c.Stat("op_replace_kid")
				h.removeKid(n, i)
				break
			}
		}
	}
	if fd.IsList() {
		// a raw (lazy extension) list cannot be appended to without decoding it
		for _, k := range n.kids {
			if k.fd == fd && k.raw {
				return false
			}
		}
	}
	mode := c.Intn(3)
	budget := 0
	if mode > 0 {
		budget = 1 + c.Intn(2)
	}
	kid := n.genKid(c, fd, budget)
	if kid == nil {
		return false
	}
	var cm protoreflect.Message
	if mode == 0 {
		switch {
		case kid.isMap:
			cm = n.msg.Mutable(fd).Map().Mutable(kid.key).Message()
		case kid.isList:
			cm = n.msg.Mutable(fd).List().AppendMutable().Message()
		default:
			cm = n.msg.Mutable(fd).Message()
		}
		kid.node.build(cm, true)
		c.Stat("op_add_empty_kid")
	} else {
		switch {
		case kid.isMap:
			cm = n.msg.Mutable(fd).Map().NewValue().Message()
		case kid.isList:
			cm = n.msg.Mutable(fd).List().NewElement().Message()
		default:
			cm = n.msg.NewField(fd).Message()
		}
		kid.node.build(cm, true)
		if mode == 2 {
			// Size the detached submessage first: it is attached with warm caches
			proto.Size(cm.Interface())
			c.Stat("op_attach_sized_kid")
		} else {
			c.Stat("op_attach_kid")
		}
		switch {
		case kid.isMap:
			n.msg.Mutable(fd).Map().Set(kid.key, protoreflect.ValueOfMessage(cm))
		case kid.isList:
			n.msg.Mutable(fd).List().Append(protoreflect.ValueOfMessage(cm))
		default:
			n.msg.Set(fd, protoreflect.ValueOfMessage(cm))
		}
	}
	n.kids = append(n.kids, kid)
	h.push("I"+n.path()+";"+strconv.Itoa(len(n.kids))+";"+kid.absString(), h.cachesTok())
	return true
}

// opTouch reads an undecoded lazy child, which decodes it.
func (h *scacheHist) opTouch() bool {
	var cands []*scacheNode
	h.root.walk(func(n *scacheNode) {
		for _, k := range n.kids {
			if k.raw {
				cands = append(cands, n)
				break
			}
		}
	})
	if len(cands) == 0 {
		return false
	}
	n := cands[h.c.Intn(len(cands))]
	for _, k := range n.kids {
		if k.raw {
			if k.isList {
				n.msg.Get(k.fd).List().Len()
			} else {
				n.msg.Get(k.fd).Message().IsValid()
			}
			break
		}
	}
	h.c.Stat("op_touch_lazy")
	h.resync()
	return true
}

func scacheIsMismatch(err error) bool {
	return err != nil && strings.Contains(err.Error(), "size mismatch")
}

func (h *scacheHist) opSize(n *scacheNode, uc, det bool) {
	want := n.size()
	got := proto.MarshalOptions{UseCachedSize: uc, Deterministic: det, AllowPartial: true}.Size(n.msg.Interface())
	h.c.Stat(fmt.Sprintf("op_size_uc%v", uc))
	if !uc && got != want {
		h.propFail("Size differs from the length of the encoding of the current content", "size", n.path(), strconv.Itoa(got), strconv.Itoa(want))
	}
	h.resync()
	h.push("Z"+n.path()+";"+Tok(uc), strconv.FormatInt(int64(got), 16)+"/"+h.cachesTok())
}

// staleCaches counts the live nodes below n whose cache is set but wrong
func (n *scacheNode) staleCaches() int {
	k := 0
	n.walk(func(x *scacheNode) {
		if cv := scacheCacheOf(x.msg); cv > 0 && int(cv-1) != x.size() {
			k++
		}
	})
	return k
}

func (h *scacheHist) opMarshal(n *scacheNode, uc, det bool) {
	c := h.c
	m := n.msg.Interface()
	if st := n.staleCaches(); st > 0 {
		c.Stat(fmt.Sprintf("marshal_uc%v_with_stale_caches", uc))
		if st > 1 {
			c.Stat(fmt.Sprintf("marshal_uc%v_with_2plus_stale_caches", uc))
		}
	}
	// every entry point of the marshaler: Marshal, MarshalAppend onto a buffer with and without spare capacity
	// (a reused buf[:0] is the common production pattern), MarshalState
	mo := proto.MarshalOptions{UseCachedSize: uc, Deterministic: det, AllowPartial: true}
	var out []byte
	var err error
	switch fl := c.Intn(5); fl {
	case 0, 1:
		out, err = mo.Marshal(m)
		c.Stat("marshal_api_Marshal")
	default:
		pre := c.Intn(4)
		spare := 0
		if fl != 2 {
			spare = 1 + c.Intn(96)
		}
		buf := make([]byte, pre, pre+spare)
		for i := range buf {
			buf[i] = 0xa5
		}
		var full []byte
		if fl == 4 {
			var st protoiface.MarshalOutput
			st, err = mo.MarshalState(protoiface.MarshalInput{Message: m.ProtoReflect(), Buf: buf})
			full = st.Buf
			c.Stat("marshal_api_MarshalState")
		} else {
			full, err = mo.MarshalAppend(buf, m)
			c.Stat(fmt.Sprintf("marshal_api_MarshalAppend_spare%v", spare > 0))
		}
		if err == nil {
			if len(full) < pre || !bytes.Equal(full[:pre], buf[:pre]) {
				h.propFail("MarshalAppend does not preserve the prefix of its buffer", "marshal", n.path())
			} else {
				out = full[pre:]
			}
		}
	}
	c.Stat(fmt.Sprintf("op_marshal_uc%v_det%v", uc, det))
	h.resync()
	op := "M" + n.path() + ";" + Tok(uc)
	if err != nil {
		if !uc || !scacheIsMismatch(err) {
			h.propFail("Marshal failed: "+err.Error(), "marshal", n.path())
			h.push(op, "err")
			return
		}
		c.Stat("marshal_mismatch_reported")
		h.push(op, "mm")
		// which siblings were visited before the failure depends on field / map
		// order: re-establish a known cache state before comparing caches again
		h.opSize(h.root, false, false)
		return
	}
	// the property: the output encodes the current content
	ref, rerr := scacheDetBytes(h.fresh(n))
	if rerr != nil {
		h.propFail("reference Marshal failed: "+rerr.Error(), "marshal", n.path())
	} else {
		if len(out) != len(ref) {
			h.propFail("Marshal length differs from the encoding of the current content", "marshal", n.path(), HexB(out), HexB(ref))
		} else if det && !bytes.Equal(out, ref) {
			h.propFail("deterministic Marshal differs from the encoding of the current content", "marshal", n.path(), HexB(out), HexB(ref))
		} else if !det {
			back := n.msg.New().Interface()
			if uerr := (proto.UnmarshalOptions{AllowPartial: true}).Unmarshal(out, back); uerr != nil {
				h.propFail("Marshal output does not decode: "+uerr.Error(), "marshal", n.path(), HexB(out))
			} else if b2, _ := scacheDetBytes(back); !bytes.Equal(b2, ref) {
				h.propFail("Marshal output decodes to different content", "marshal", n.path(), HexB(out), HexB(ref))
			}
		}
		if len(out) != n.size() {
			h.propFail("len(Marshal) differs from the harness-computed size", "marshal", n.path(), strconv.Itoa(len(out)), strconv.Itoa(n.size()))
		}
		if !uc {
			// (an uncached Size rewrites the caches the Marshal just stored: no
			// perturbation of the cache state; with uc it would be one)
			if sz := proto.Size(m); sz != len(out) {
				h.propFail("Size != len(Marshal)", "marshal", n.path(), strconv.Itoa(sz), strconv.Itoa(len(out)))
			}
		}
	}
	h.push(op, "ok"+strconv.FormatInt(int64(len(out)), 16)+"/"+h.cachesTok())
}

func (h *scacheHist) opEqual(n *scacheNode) {
	before, nops := h.cachesTok(), len(h.ops)
	fr := h.fresh(n)
	e1 := proto.Equal(n.msg.Interface(), fr)
	e2 := proto.Equal(fr, n.msg.Interface())
	h.c.Stat("op_equal")
	h.resync()
	if !e1 || !e2 {
		h.propFail("message not Equal to a rebuild of its current content", "equal", n.path())
	}
	if after := h.cachesTok(); len(h.ops) == nops && after != before {
		h.propFail("Equal changed a size cache", "equal", n.path(), before, after)
	}
	p := n.path()
	h.push("E"+p+";"+p, Tok(e1 && e2))
}

func (h *scacheHist) opClone(n *scacheNode) {
	cl := proto.Clone(n.msg.Interface())
	h.c.Stat("op_clone")
	h.resync()
	out, err := scacheDetBytes(cl)
	ref, _ := scacheDetBytes(h.fresh(n))
	if err != nil || !bytes.Equal(out, ref) {
		h.propFail("Marshal of a Clone differs from the encoding of the current content", "clone", n.path(), HexB(out), HexB(ref))
	}
	if !proto.Equal(cl, n.msg.Interface()) {
		h.propFail("Clone not Equal to its source", "clone", n.path())
	}
	h.push("C"+n.path(), "ok"+strconv.FormatInt(int64(len(out)), 16))
}

// ---------------------------------------------------------------- driver

func (h *scacheHist) start(fromWire bool) bool {
	c := h.c
	h.root = scacheNewNode(h.mt.Descriptor(), nil)
	if fromWire {
		h.root.populate(c, 3)
		ref, err := scacheDetBytes(h.fresh0())
		if err != nil {
			return false
		}
		m := h.mt.New()
		if err := (proto.UnmarshalOptions{AllowPartial: true}).Unmarshal(ref, m.Interface()); err != nil {
			h.c.PropFail("C16", "cannot decode a reference encoding: "+err.Error(), HexB(ref))
			return false
		}
		h.root.bind(m)
		c.Stat("start_from_wire")
	} else {
		h.root.populate(c, c.Intn(3))
		h.root.build(h.mt.New(), true)
		c.Stat("start_built")
	}
	var sb strings.Builder
	h.root.abs(&sb)
	h.t0 = sb.String()
	return true
}

func (h *scacheHist) fresh0() proto.Message {
	m := h.mt.New()
	h.root.build(m, false)
	return m.Interface()
}

func (h *scacheHist) randomOp() {
	c := h.c
	nodes := h.liveNodes()
	n := nodes[c.Intn(len(nodes))]
	if c.Intn(3) == 0 {
		n = nodes[len(nodes)-1-c.Intn((len(nodes)+1)/2)] // favour deep nodes
	}
	switch r := c.Intn(100); {
	case r < 28:
		h.opSetScalar(n)
	case r < 42:
		if !h.opAddKid(n) {
			h.opSetScalar(n)
		}
	case r < 50:
		if !h.opDelKid(n) {
			h.opSetScalar(n)
		}
	case r < 54:
		if !h.opTouch() {
			h.opSetScalar(n)
		}
	case r < 64:
		h.opSize(n, false, c.Intn(4) == 0)
	case r < 70:
		h.opSize(n, true, false)
	case r < 86:
		h.opMarshal(n, false, c.Bool())
	case r < 92:
		h.opMarshal(n, true, c.Intn(4) == 0)
	case r < 96:
		h.opEqual(n)
	default:
		h.opClone(n)
	}
}

func (h *scacheHist) emit() {
	h.c.Case("scache", "hist", append([]string{h.t0}, h.ops...), h.obs)
}

func scacheRun(c *Ctx, mt protoreflect.MessageType, fromWire bool, nops int, script func(h *scacheHist)) {
	h := &scacheHist{c: c, mt: mt}
	defer func() {
		if r := recover(); r != nil {
			h.propFail(fmt.Sprintf("panic: %v", r))
		}
	}()
	if !h.start(fromWire) {
		return
	}
	c.Stat("type_" + string(mt.Descriptor().FullName()))
	if script != nil {
		script(h)
	}
	for i := 0; i < nops && !h.fail; i++ {
		h.randomOp()
	}
	// every history ends with the property's own question
	if !h.fail {
		h.opMarshal(h.root, false, true)
	}
	h.emit()
}

// deepest returns a deepest live node
func (h *scacheHist) deepest() *scacheNode {
	var best *scacheNode
	h.root.walk(func(n *scacheNode) {
		if best == nil || n.depth > best.depth {
			best = n
		}
	})
	return best
}

// boundary scripts: stale caches right before a Marshal, on every corpus type
func scacheScripts() []func(h *scacheHist) {
	grow := func(h *scacheHist) {
		// make sure there is some depth
		for i := 0; i < 6; i++ {
			h.opAddKid(h.deepest())
		}
		h.opSize(h.root, false, false) // fill every cache
		d := h.deepest()
		h.opSetScalar(d) // mutate the deepest node: every cache on the path is stale now
		h.opSetScalar(d)
		h.opMarshal(h.root, false, true)
		h.opSize(h.root, false, false)
		h.opSetScalar(h.deepest())
		h.opMarshal(h.root, true, false) // documented misuse: must fail loudly or be right
		h.opMarshal(h.root, false, false)
	}
	sub := func(h *scacheHist) {
		for i := 0; i < 4; i++ {
			h.opAddKid(h.root)
		}
		ns := h.liveNodes()
		if len(ns) > 1 {
			h.opSize(ns[1], false, false) // Size on a submessage
			h.opSetScalar(ns[len(ns)-1])  // then mutate a sibling / descendant
			h.opSetScalar(ns[1])
		}
		h.opMarshal(h.root, false, true)
		h.opSize(h.root, true, false)
	}
	return []func(h *scacheHist){grow, sub}
}

// scacheMessageSetProbe: in a build without the protolegacy tag, sizePointerSlow
// counts the unknown bytes of a message_set_wire_format message
// (`flags.ProtoLegacy && mi.isMessageSet` is false, so the ordinary loop runs),
// but marshalAppendPointer never writes them (`!mi.isMessageSet`, without the
// flag).  So Size != len(Marshal) and, as a submessage, Marshal fails with a
// size mismatch although no cache is stale.  Recorded as finding F13u (a facet
// of F13: MessageSet types in builds without protolegacy); recognised narrowly:
// a MessageSet-typed message with unknown bytes, nothing else.
func scacheMessageSetProbe(c *Ctx) {
	h := &lazypb.Holder{}
	ms := h.ProtoReflect().Mutable(h.ProtoReflect().Descriptor().Fields().ByName("data")).Message()
	if !messageset.IsMessageSet(ms.Descriptor()) {
		return
	}
	var unk []byte
	unk = protowire.AppendTag(unk, 500000, protowire.VarintType)
	unk = protowire.AppendVarint(unk, 1)
	ms.SetUnknown(unk)
	sz := proto.Size(ms.Interface())
	out, err := proto.MarshalOptions{AllowPartial: true}.Marshal(ms.Interface())
	_, perr := proto.MarshalOptions{AllowPartial: true}.Marshal(h)
	c.Stat("messageset_probe")
	if err == nil && sz == len(out) && perr == nil {
		return // consistent (e.g. built with -tags protolegacy, or repaired)
	}
	if err == nil && sz == len(out)+len(unk) && scacheIsMismatch(perr) {
		c.Known("F13u", "C16", "MessageSet-typed message with unknown fields, build without protolegacy: Size counts the unknown bytes, Marshal drops them; the parent's Marshal reports a size mismatch")
		return
	}
	c.PropFail("C16", "MessageSet with unknown fields: Size/Marshal disagree in an unlisted way", strconv.Itoa(sz), HexB(out), fmt.Sprint(err), fmt.Sprint(perr))
}

func famScache(c *Ctx) {
	scacheMessageSetProbe(c)
	var mts []protoreflect.MessageType
	for _, m := range scacheRoots {
		mts = append(mts, m.ProtoReflect().Type())
	}
	// boundary corpus first
	for _, mt := range mts {
		for _, sc := range scacheScripts() {
			scacheRun(c, mt, false, 0, sc)
			scacheRun(c, mt, true, 0, sc)
		}
	}
	for i := 0; i < c.N; i++ {
		mt := mts[c.Intn(len(mts))]
		fromWire := c.Intn(3) == 0
		if strings.Contains(string(mt.Descriptor().FullName()), "lazy") && c.Bool() {
			fromWire = true // lazy fields / lazy extensions only arise from Unmarshal
		}
		scacheRun(c, mt, fromWire, 6+c.Intn(18), nil)
	}
}
