//go:build verif && protoreflect

package main

// resetFastBuild = false: built with -tags protoreflect, package proto ignores
// the generated methods: proto.Reset is resetMessage (reflection
// Clear of every field + Range/Clear of extensions + SetUnknown(nil)) and
// proto.Unmarshal is unmarshalMessageSlow.
const resetFastBuild = false
