//go:build verif

package main

import (
	"fmt"

	"google.golang.org/protobuf/encoding/protowire"
	"google.golang.org/protobuf/proto"
	"google.golang.org/protobuf/reflect/protodesc"
	"google.golang.org/protobuf/reflect/protoreflect"
	"google.golang.org/protobuf/reflect/protoregistry"
	"google.golang.org/protobuf/types/descriptorpb"
	"google.golang.org/protobuf/types/dynamicpb"
)

// Custom options for the "gen" family.  A request declares, at file level (in the
// file that uses them or in an imported one), extensions of the eight *Options
// messages of descriptor.proto whose type is a message with map fields (string and
// integer keys, message values), repeated fields and a nested message.  The harness
// binary does not know these extensions, so the option values travel as unknown
// fields of the options messages; protogen re-links them (Options.New: "fully-linked
// descriptors if new extensions were found") through dynamicpb, and internal_gengo
// marshals the descriptor — maps included — into file_*_rawDesc.  Only a
// deterministic marshal makes those bytes reproducible.

var genOptTargets = []string{"FileOptions", "MessageOptions", "FieldOptions", "EnumOptions",
	"EnumValueOptions", "OneofOptions", "ServiceOptions", "MethodOptions"}

func genOptNumber(target string) int32 {
	for i, t := range genOptTargets {
		if t == target {
			return int32(50001 + i)
		}
	}
	panic("unknown option target " + target)
}

func genOptMapEntry(name string, keyT, valT descriptorpb.FieldDescriptorProto_Type, valTypeName string) *descriptorpb.DescriptorProto {
	val := &descriptorpb.FieldDescriptorProto{Name: proto.String("value"), Number: proto.Int32(2),
		Label: descriptorpb.FieldDescriptorProto_LABEL_OPTIONAL.Enum(), Type: valT.Enum()}
	if valTypeName != "" {
		val.TypeName = proto.String(valTypeName)
	}
	return &descriptorpb.DescriptorProto{Name: proto.String(name), Options: &descriptorpb.MessageOptions{MapEntry: proto.Bool(true)},
		Field: []*descriptorpb.FieldDescriptorProto{
			{Name: proto.String("key"), Number: proto.Int32(1), Label: descriptorpb.FieldDescriptorProto_LABEL_OPTIONAL.Enum(), Type: keyT.Enum()}, val}}
}

// genOptMessages: the option type XOpt and its nested value type XInner, declared in
// scope (".pkg").
//
//	message XInner { map<string,string> kv = 1; repeated string names = 2; optional int64 v = 3; }
//	message XOpt { map<string,int32> sm = 1; map<int32,string> im = 2; map<string,XInner> mm = 3;
//	               repeated int32 r = 4; optional XInner inner = 5; optional string s = 6; map<uint64,bool> um = 7; }
func genOptMessages(scope string) []*descriptorpb.DescriptorProto {
	rep := descriptorpb.FieldDescriptorProto_LABEL_REPEATED.Enum()
	opt := descriptorpb.FieldDescriptorProto_LABEL_OPTIONAL.Enum()
	msg := descriptorpb.FieldDescriptorProto_TYPE_MESSAGE.Enum()
	str, i32, i64, u64, bl := descriptorpb.FieldDescriptorProto_TYPE_STRING, descriptorpb.FieldDescriptorProto_TYPE_INT32,
		descriptorpb.FieldDescriptorProto_TYPE_INT64, descriptorpb.FieldDescriptorProto_TYPE_UINT64, descriptorpb.FieldDescriptorProto_TYPE_BOOL
	inner := &descriptorpb.DescriptorProto{Name: proto.String("XInner"),
		NestedType: []*descriptorpb.DescriptorProto{genOptMapEntry("KvEntry", str, str, "")},
		Field: []*descriptorpb.FieldDescriptorProto{
			{Name: proto.String("kv"), Number: proto.Int32(1), Label: rep, Type: msg, TypeName: proto.String(scope + ".XInner.KvEntry")},
			{Name: proto.String("names"), Number: proto.Int32(2), Label: rep, Type: str.Enum()},
			{Name: proto.String("v"), Number: proto.Int32(3), Label: opt, Type: i64.Enum()},
		}}
	xopt := &descriptorpb.DescriptorProto{Name: proto.String("XOpt"),
		NestedType: []*descriptorpb.DescriptorProto{
			genOptMapEntry("SmEntry", str, i32, ""), genOptMapEntry("ImEntry", i32, str, ""),
			genOptMapEntry("MmEntry", str, descriptorpb.FieldDescriptorProto_TYPE_MESSAGE, scope+".XInner"),
			genOptMapEntry("UmEntry", u64, bl, "")},
		Field: []*descriptorpb.FieldDescriptorProto{
			{Name: proto.String("sm"), Number: proto.Int32(1), Label: rep, Type: msg, TypeName: proto.String(scope + ".XOpt.SmEntry")},
			{Name: proto.String("im"), Number: proto.Int32(2), Label: rep, Type: msg, TypeName: proto.String(scope + ".XOpt.ImEntry")},
			{Name: proto.String("mm"), Number: proto.Int32(3), Label: rep, Type: msg, TypeName: proto.String(scope + ".XOpt.MmEntry")},
			{Name: proto.String("r"), Number: proto.Int32(4), Label: rep, Type: i32.Enum()},
			{Name: proto.String("inner"), Number: proto.Int32(5), Label: opt, Type: msg, TypeName: proto.String(scope + ".XInner")},
			{Name: proto.String("s"), Number: proto.Int32(6), Label: opt, Type: str.Enum()},
			{Name: proto.String("um"), Number: proto.Int32(7), Label: rep, Type: msg, TypeName: proto.String(scope + ".XOpt.UmEntry")},
		}}
	return []*descriptorpb.DescriptorProto{inner, xopt}
}

// genOptDeclare adds the option types and the file-level extensions to fd.
func genOptDeclare(fd *descriptorpb.FileDescriptorProto) {
	scope := "." + fd.GetPackage()
	fd.MessageType = append(fd.MessageType, genOptMessages(scope)...)
	for _, t := range genOptTargets {
		fd.Extension = append(fd.Extension,
			&descriptorpb.FieldDescriptorProto{Name: proto.String("xo_" + t), Number: proto.Int32(genOptNumber(t)),
				Label: descriptorpb.FieldDescriptorProto_LABEL_OPTIONAL.Enum(), Type: descriptorpb.FieldDescriptorProto_TYPE_MESSAGE.Enum(),
				TypeName: proto.String(scope + ".XOpt"), Extendee: proto.String(".google.protobuf." + t)},
			&descriptorpb.FieldDescriptorProto{Name: proto.String("xr_" + t), Number: proto.Int32(genOptNumber(t) + 100),
				Label: descriptorpb.FieldDescriptorProto_LABEL_REPEATED.Enum(), Type: descriptorpb.FieldDescriptorProto_TYPE_SINT32.Enum(),
				Extendee: proto.String(".google.protobuf." + t)})
	}
	has := false
	for _, d := range fd.Dependency {
		if d == "google/protobuf/descriptor.proto" {
			has = true
		}
	}
	if !has {
		fd.Dependency = append(fd.Dependency, "google/protobuf/descriptor.proto")
	}
}

// the option type once more, linked, to encode values with dynamicpb
var genOptHelper protoreflect.MessageDescriptor

func genOptHelperMD() protoreflect.MessageDescriptor {
	if genOptHelper == nil {
		fd := &descriptorpb.FileDescriptorProto{Name: proto.String("verif/opthelper.proto"), Package: proto.String("verif.opthelper"),
			MessageType: genOptMessages(".verif.opthelper")}
		f, err := protodesc.NewFile(fd, &protoregistry.Files{})
		if err != nil {
			panic(err)
		}
		genOptHelper = f.Messages().ByName("XOpt")
	}
	return genOptHelper
}

var genOptKeys = []string{"a", "b", "zz", "k1", "k2", "", "é", "key with space", "Z", "m"}

// genOptValue: a random XOpt value (several entries per map), wire bytes
func genOptValue(c *Ctx, depth int) []byte {
	md := genOptHelperMD()
	m := dynamicpb.NewMessage(md)
	f := func(n string) protoreflect.FieldDescriptor { return md.Fields().ByName(protoreflect.Name(n)) }
	fillInner := func(in protoreflect.Message) {
		imd := in.Descriptor()
		kv := in.Mutable(imd.Fields().ByName("kv")).Map()
		for i, n := 0, 2+c.Intn(4); i < n; i++ {
			kv.Set(protoreflect.ValueOfString(genOptKeys[c.Intn(len(genOptKeys))]).MapKey(), protoreflect.ValueOfString(fmt.Sprint("v", i)))
		}
		if c.Bool() {
			l := in.Mutable(imd.Fields().ByName("names")).List()
			l.Append(protoreflect.ValueOfString("n1"))
			l.Append(protoreflect.ValueOfString("n0"))
		}
		if c.Bool() {
			in.Set(imd.Fields().ByName("v"), protoreflect.ValueOfInt64(int64(c.Intn(1000))-500))
		}
	}
	if c.Intn(8) > 0 {
		sm := m.Mutable(f("sm")).Map()
		for i, n := 0, 2+c.Intn(5); i < n; i++ {
			sm.Set(protoreflect.ValueOfString(genOptKeys[c.Intn(len(genOptKeys))]).MapKey(), protoreflect.ValueOfInt32(int32(i)))
		}
	}
	if c.Intn(3) > 0 {
		im := m.Mutable(f("im")).Map()
		for i, n := 0, 2+c.Intn(5); i < n; i++ {
			im.Set(protoreflect.ValueOfInt32(int32(c.Intn(40))-20).MapKey(), protoreflect.ValueOfString(fmt.Sprint("s", i)))
		}
	}
	if c.Intn(3) == 0 {
		um := m.Mutable(f("um")).Map()
		for i, n := 0, 2+c.Intn(3); i < n; i++ {
			um.Set(protoreflect.ValueOfUint64(c.U64()>>uint(c.Intn(64))).MapKey(), protoreflect.ValueOfBool(c.Bool()))
		}
	}
	if c.Intn(3) == 0 && depth < 1 {
		mm := m.Mutable(f("mm")).Map()
		for i, n := 0, 2+c.Intn(2); i < n; i++ {
			v := mm.NewValue()
			fillInner(v.Message())
			mm.Set(protoreflect.ValueOfString(genOptKeys[c.Intn(len(genOptKeys))]).MapKey(), v)
		}
	}
	if c.Intn(3) == 0 {
		l := m.Mutable(f("r")).List()
		for i, n := 0, 1+c.Intn(4); i < n; i++ {
			l.Append(protoreflect.ValueOfInt32(int32(c.Intn(100))))
		}
	}
	if c.Intn(3) == 0 {
		fillInner(m.Mutable(f("inner")).Message())
	}
	if c.Intn(3) == 0 {
		m.Set(f("s"), protoreflect.ValueOfString("text"))
	}
	b, err := proto.MarshalOptions{Deterministic: true}.Marshal(m)
	if err != nil {
		panic(err)
	}
	return b
}

// genOptSet attaches the custom options of the given target to an options message
// (as unknown fields: the extension is not linked into this binary).
func genOptSet(c *Ctx, opts proto.Message, target string) {
	var b []byte
	b = protowire.AppendTag(b, protowire.Number(genOptNumber(target)), protowire.BytesType)
	b = protowire.AppendBytes(b, genOptValue(c, 0))
	if c.Intn(3) == 0 { // the repeated sint32 extension, unpacked
		for i, n := 0, 1+c.Intn(3); i < n; i++ {
			b = protowire.AppendTag(b, protowire.Number(genOptNumber(target)+100), protowire.VarintType)
			b = protowire.AppendVarint(b, protowire.EncodeZigZag(int64(c.Intn(20))-10))
		}
	}
	r := opts.ProtoReflect()
	r.SetUnknown(append(append([]byte(nil), r.GetUnknown()...), b...))
}

// genOptApply puts custom options on the file and on a random selection of its
// declarations (every level at which protoc-gen-go embeds options in the raw descriptor).
func genOptApply(c *Ctx, fd *descriptorpb.FileDescriptorProto, always bool) {
	yes := func() bool { return always || c.Intn(3) == 0 }
	if fd.Options == nil {
		fd.Options = &descriptorpb.FileOptions{}
	}
	genOptSet(c, fd.Options, "FileOptions")
	var doEnum func(ed *descriptorpb.EnumDescriptorProto)
	doEnum = func(ed *descriptorpb.EnumDescriptorProto) {
		if yes() {
			if ed.Options == nil {
				ed.Options = &descriptorpb.EnumOptions{}
			}
			genOptSet(c, ed.Options, "EnumOptions")
		}
		for _, v := range ed.Value {
			if yes() {
				if v.Options == nil {
					v.Options = &descriptorpb.EnumValueOptions{}
				}
				genOptSet(c, v.Options, "EnumValueOptions")
			}
		}
	}
	var doMsg func(md *descriptorpb.DescriptorProto)
	doMsg = func(md *descriptorpb.DescriptorProto) {
		if md.GetOptions().GetMapEntry() || md.GetName() == "XOpt" || md.GetName() == "XInner" {
			return
		}
		if yes() {
			if md.Options == nil {
				md.Options = &descriptorpb.MessageOptions{}
			}
			genOptSet(c, md.Options, "MessageOptions")
		}
		for _, f := range md.Field {
			if yes() {
				if f.Options == nil {
					f.Options = &descriptorpb.FieldOptions{}
				}
				genOptSet(c, f.Options, "FieldOptions")
			}
		}
		for _, o := range md.OneofDecl {
			if yes() {
				if o.Options == nil {
					o.Options = &descriptorpb.OneofOptions{}
				}
				genOptSet(c, o.Options, "OneofOptions")
			}
		}
		for _, n := range md.NestedType {
			doMsg(n)
		}
		for _, e := range md.EnumType {
			doEnum(e)
		}
	}
	for _, md := range fd.MessageType {
		doMsg(md)
	}
	for _, ed := range fd.EnumType {
		doEnum(ed)
	}
	for _, x := range fd.Extension {
		if yes() && x.GetExtendee() != "" && len(x.GetName()) > 3 && x.GetName()[:3] != "xo_" && x.GetName()[:3] != "xr_" {
			if x.Options == nil {
				x.Options = &descriptorpb.FieldOptions{}
			}
			genOptSet(c, x.Options, "FieldOptions")
		}
	}
	for _, s := range fd.Service {
		if yes() {
			if s.Options == nil {
				s.Options = &descriptorpb.ServiceOptions{}
			}
			genOptSet(c, s.Options, "ServiceOptions")
		}
		for _, m := range s.Method {
			if yes() {
				if m.Options == nil {
					m.Options = &descriptorpb.MethodOptions{}
				}
				genOptSet(c, m.Options, "MethodOptions")
			}
		}
	}
}

// genDescriptorClosure: descriptor.proto (what the declaring file imports)
func genDescriptorClosure() []*descriptorpb.FileDescriptorProto {
	var dep []*descriptorpb.FileDescriptorProto
	genClosure(descriptorpb.File_google_protobuf_descriptor_proto, map[string]bool{}, &dep)
	return dep
}

// genMergeFiles: extra followed by files, each file name once (first occurrence wins), so
// that dependencies stay in front of their users.
func genMergeFiles(extra, files []*descriptorpb.FileDescriptorProto) []*descriptorpb.FileDescriptorProto {
	have := map[string]bool{}
	var out []*descriptorpb.FileDescriptorProto
	for _, l := range [][]*descriptorpb.FileDescriptorProto{extra, files} {
		for _, f := range l {
			if !have[f.GetName()] {
				have[f.GetName()] = true
				out = append(out, f)
			}
		}
	}
	return out
}

// genOptionCorpus: fixed-shape requests (values still drawn from the seed) with
// options at every level: declared in an imported file, and declared in the using file.
func genOptionCorpus(c *Ctx) []*genReq {
	mkUse := func(name, pkg string) *descriptorpb.FileDescriptorProto {
		opt := descriptorpb.FieldDescriptorProto_LABEL_OPTIONAL.Enum()
		return &descriptorpb.FileDescriptorProto{
			Name: proto.String(name), Package: proto.String(pkg), Syntax: proto.String("proto2"),
			Options: &descriptorpb.FileOptions{GoPackage: proto.String("example.com/corpus/" + pkg)},
			EnumType: []*descriptorpb.EnumDescriptorProto{{Name: proto.String("E"), Value: []*descriptorpb.EnumValueDescriptorProto{
				{Name: proto.String("E_ZERO"), Number: proto.Int32(0)}, {Name: proto.String("E_ONE"), Number: proto.Int32(1)}}}},
			MessageType: []*descriptorpb.DescriptorProto{{Name: proto.String("M"),
				Field: []*descriptorpb.FieldDescriptorProto{
					{Name: proto.String("a"), Number: proto.Int32(1), Label: opt, Type: descriptorpb.FieldDescriptorProto_TYPE_INT32.Enum()},
					{Name: proto.String("b"), Number: proto.Int32(2), Label: opt, Type: descriptorpb.FieldDescriptorProto_TYPE_STRING.Enum(), OneofIndex: proto.Int32(0)},
					{Name: proto.String("e"), Number: proto.Int32(3), Label: opt, Type: descriptorpb.FieldDescriptorProto_TYPE_ENUM.Enum(), TypeName: proto.String("." + pkg + ".E"), OneofIndex: proto.Int32(0)}},
				OneofDecl:  []*descriptorpb.OneofDescriptorProto{{Name: proto.String("o")}},
				NestedType: []*descriptorpb.DescriptorProto{{Name: proto.String("N")}}}},
			Service: []*descriptorpb.ServiceDescriptorProto{{Name: proto.String("S"), Method: []*descriptorpb.MethodDescriptorProto{
				{Name: proto.String("Call"), InputType: proto.String("." + pkg + ".M"), OutputType: proto.String("." + pkg + ".M")}}}},
		}
	}
	var out []*genReq
	// (a) declared in an imported file
	decl := &descriptorpb.FileDescriptorProto{Name: proto.String("corpus/opts.proto"), Package: proto.String("corpus.opts"), Syntax: proto.String("proto2"),
		Options: &descriptorpb.FileOptions{GoPackage: proto.String("example.com/corpus/opts")}}
	genOptDeclare(decl)
	use := mkUse("corpus/use.proto", "corpususe")
	use.Dependency = []string{"corpus/opts.proto"}
	genOptApply(c, use, true)
	files := genMergeFiles(genDescriptorClosure(), []*descriptorpb.FileDescriptorProto{decl, use})
	for _, p := range []string{"", "default_api_level=API_OPAQUE"} {
		r := genMakeReq(c, "options-imported", files, []string{"corpus/use.proto"}, p)
		r.reps = true
		out = append(out, r)
	}
	// (b) declared in the file that uses them
	self := mkUse("corpus/self.proto", "corpusself")
	genOptDeclare(self)
	genOptApply(c, self, true)
	files = genMergeFiles(genDescriptorClosure(), []*descriptorpb.FileDescriptorProto{self})
	r := genMakeReq(c, "options-samefile", files, []string{"corpus/self.proto"}, "")
	r.reps = true
	out = append(out, r)
	for _, r := range out {
		if cl, _, detail := genRun(r.bytes); cl != "ok" {
			c.PropFail("C40", "option corpus request not generated ("+cl+"): "+detail, r.desc)
		}
	}
	return out
}
