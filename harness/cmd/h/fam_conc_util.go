//go:build verif

// Shared helpers of the concurrency families conc18 / conc19: child processes
// (the race detector terminates the process with status 66, and first use
// happens once per process), digests, token sanitising.
package main

import (
	"bufio"
	"bytes"
	"fmt"
	"hash/fnv"
	"os"
	"os/exec"
	"strconv"
	"strings"
	"time"
)

const concChildEnv = "VERIF_CONC_CHILD"

func concIsChild() bool { return os.Getenv(concChildEnv) != "" }

func concDigest(b []byte) uint64 {
	h := fnv.New64a()
	h.Write(b)
	return h.Sum64()
}

func concMix(a, b uint64) uint64 {
	x := a ^ (b + 0x9e3779b97f4a7c15 + (a << 6) + (a >> 2))
	x *= 0xbf58476d1ce4e5b9
	return x ^ (x >> 29)
}

// concTok makes an arbitrary string safe as one harness token.
func concTok(s string) string {
	s = strings.Map(func(r rune) rune {
		if r == '\t' || r == '\n' || r == '\r' {
			return ' '
		}
		return r
	}, s)
	if len(s) > 300 {
		s = s[:300]
	}
	if s == "" {
		s = "-"
	}
	return s
}

type concChildResult struct {
	lines    []string // complete output lines of the child (C/P/K/S/X)
	exitCode int
	race     bool   // the race detector printed a report
	raceInfo string // first frames of the first report
	crashed  bool   // non-zero exit that is not the race detector's
	stderr   string
	timedOut bool
}

// concRunChild re-executes this binary as `h <fam> -seed S -n N -tier T -out tmp`
// with VERIF_CONC_CHILD=<mode> (plus extra environment) and collects its output.
func concRunChild(fam string, mode string, seed uint64, n int, tier string, extraEnv []string, timeout time.Duration) concChildResult {
	var res concChildResult
	tmp, err := os.CreateTemp("", "verif-conc-*.cases")
	if err != nil {
		res.crashed = true
		res.stderr = err.Error()
		return res
	}
	tmp.Close()
	defer os.Remove(tmp.Name())
	cmd := exec.Command(os.Args[0], fam, "-seed", strconv.FormatUint(seed, 10), "-n", strconv.Itoa(n),
		"-tier", tier, "-out", tmp.Name())
	cmd.Env = append(os.Environ(), concChildEnv+"="+mode)
	cmd.Env = append(cmd.Env, extraEnv...)
	var eb bytes.Buffer
	cmd.Stderr = &eb
	cmd.Stdout = &eb
	if err := cmd.Start(); err != nil {
		res.crashed = true
		res.stderr = err.Error()
		return res
	}
	done := make(chan error, 1)
	go func() { done <- cmd.Wait() }()
	select {
	case err = <-done:
	case <-time.After(timeout):
		cmd.Process.Kill()
		err = <-done
		res.timedOut = true
	}
	res.stderr = eb.String()
	if err != nil {
		if ee, ok := err.(*exec.ExitError); ok {
			res.exitCode = ee.ExitCode()
		} else {
			res.exitCode = -1
		}
	}
	if strings.Contains(res.stderr, "WARNING: DATA RACE") {
		res.race = true
		res.raceInfo = concRaceSummary(res.stderr)
	}
	if res.exitCode != 0 && !(res.race && res.exitCode == 66) {
		res.crashed = true
	}
	if fh, err := os.Open(tmp.Name()); err == nil {
		sc := bufio.NewScanner(fh)
		sc.Buffer(make([]byte, 1<<20), 1<<26)
		for sc.Scan() {
			res.lines = append(res.lines, sc.Text())
		}
		fh.Close()
	}
	return res
}

// concRaceSummary extracts the access kinds and the first repository frames of the first report.
func concRaceSummary(stderr string) string {
	var out []string
	in := false
	for _, ln := range strings.Split(stderr, "\n") {
		t := strings.TrimSpace(ln)
		if strings.HasPrefix(t, "WARNING: DATA RACE") {
			if in {
				break
			}
			in = true
			continue
		}
		if !in {
			continue
		}
		if strings.HasPrefix(t, "==================") {
			break
		}
		if strings.HasPrefix(t, "Read at") || strings.HasPrefix(t, "Write at") || strings.HasPrefix(t, "Previous ") ||
			strings.HasPrefix(t, "Atomic ") {
			w := strings.Fields(t)
			if len(w) > 2 {
				w = w[:2]
			}
			out = append(out, strings.Join(w, " ")+":")
			continue
		}
		if strings.HasPrefix(t, "google.golang.org/protobuf/") && !strings.Contains(t, "/verifh/") {
			if i := strings.LastIndex(t, "/"); i >= 0 {
				t = t[i+1:]
			}
			if len(out) < 14 {
				out = append(out, t)
			}
		}
	}
	return strings.Join(out, " ")
}

// concForward copies the child's lines into the parent's output, keeping the counters right.
func concForward(c *Ctx, lines []string) {
	for _, ln := range lines {
		if len(ln) < 2 || ln[1] != '\t' {
			continue
		}
		switch ln[0] {
		case 'C':
			c.Cases++
			fmt.Fprintln(c.w, ln)
		case 'P':
			c.Fails++
			fmt.Fprintln(c.w, ln)
		case 'K', 'X':
			fmt.Fprintln(c.w, ln)
		case 'S':
			p := strings.Split(ln, "\t")
			if len(p) == 3 && !strings.HasPrefix(p[1], "_") {
				if v, err := strconv.Atoi(p[2]); err == nil {
					c.StatN(p[1], v)
				}
			}
		}
	}
}
