//go:build verif

package main

// Shared helpers of the families merge (C07), unk (C09) and req (C10).  They build on the message
// infrastructure of common_msg.go (types, schema/value dumps, random fills) without changing it.
//
//	w2aFlavoursOf(mt)           generated + dynamicpb flavour of one linked type
//	w2aTargets(c, nrnd)         all corpus types + nrnd random schema files (dynamicpb)
//	w2aSchedule(c, ...)         budget distribution (every corpus type once per rotation, heavy types, random schemas)
//	w2aFill(c, m, depth, unk)   random valid (UTF-8 clean) content; recovers generator panics
//	w2aBinCopy(fl, m, nolazy)   independent copy through the wire format (never proto.Clone / proto.Merge)
//	w2aUnmarshal(fl, b, o)      fresh message of the flavour decoded from b

import (
	"fmt"

	"google.golang.org/protobuf/proto"
	"google.golang.org/protobuf/reflect/protoreflect"
	"google.golang.org/protobuf/types/dynamicpb"
)

type w2aFlavour struct {
	name  string // gen | dyn | rnd
	md    protoreflect.MessageDescriptor
	new   func() protoreflect.Message
	slow  bool // reflection path (dynamicpb)
	noDec bool // legacy generated messages: table-driven decoder is not the modelled one (finding FB1)
}

func (fl w2aFlavour) mode() string {
	if fl.slow {
		return "s"
	}
	return "f"
}

func (fl w2aFlavour) what() string { return fl.name + " " + string(fl.md.FullName()) }

func w2aFlavoursOf(mt protoreflect.MessageType) []w2aFlavour {
	md := mt.Descriptor()
	return []w2aFlavour{
		{"gen", md, func() protoreflect.Message { return mt.New() }, false, msgLegacyReach(md)},
		{"dyn", md, func() protoreflect.Message { return dynamicpb.NewMessage(md) }, true, false},
	}
}

type w2aTarget struct {
	fls []w2aFlavour
	id  string // schema id (assigned on first use)
}

func (t *w2aTarget) schema(c *Ctx) string {
	if t.id == "" {
		t.id = msgSchemaOf(c, t.fls[0].md)
	}
	return t.id
}

var w2aHeavy = map[string]bool{
	"goproto.proto.test.TestAllTypes": true, "goproto.proto.test3.TestAllTypes": true, "goproto.proto.testeditions.TestAllTypes": true,
	"hybrid.goproto.proto.test3.TestAllTypes": true, "opaque.goproto.proto.test3.TestAllTypes": true,
	"hybrid.goproto.proto.testeditions.TestAllTypes": true, "opaque.goproto.proto.testeditions.TestAllTypes": true,
	"goproto.proto.test.TestAllExtensions": true, "goproto.proto.testeditions.TestAllExtensions": true,
	"opaque.lazy_opaque.Node": true, "goproto.proto.test.TestRequired": true,
	"goproto.proto.test.TestRequiredForeign": true, "opaque.goproto.proto.testeditions.TestRequiredForeign": true,
	"goproto.proto.test.TestRequiredLazy": true, "opaque.goproto.proto.testeditions.TestRequiredLazy": true,
	"goproto.proto.test.TestRequiredGroupFields": true,
}

func w2aTargets(c *Ctx, nrnd int) (corpus, rnd []*w2aTarget) {
	for _, mt := range msgAllTypes() {
		corpus = append(corpus, &w2aTarget{fls: w2aFlavoursOf(mt)})
	}
	for _, md := range msgRandomSchemas(c, nrnd) {
		md := md
		rnd = append(rnd, &w2aTarget{fls: []w2aFlavour{{"rnd", md, func() protoreflect.Message { return dynamicpb.NewMessage(md) }, true, false}}})
	}
	return
}

// w2aSchedule spends budget calls of run: 2/5 on a seed-dependent rotation through the corpus
// (so that a few seeds cover every linked type), the rest on random schemas (1/3), heavy types
// (2/9) and uniformly chosen corpus types.
func w2aSchedule(c *Ctx, corpus, rnd []*w2aTarget, budget int, run func(t *w2aTarget)) {
	spent := 0
	if len(corpus) > 0 {
		start := c.Intn(len(corpus))
		for i := 0; i < len(corpus) && spent < budget*2/5; i++ {
			run(corpus[(start+i)%len(corpus)])
			spent++
		}
	}
	for spent < budget {
		switch {
		case len(rnd) > 0 && (len(corpus) == 0 || c.Intn(3) == 0):
			run(rnd[c.Intn(len(rnd))])
		case c.Intn(3) == 0:
			for {
				t := corpus[c.Intn(len(corpus))]
				if w2aHeavy[string(t.fls[0].md.FullName())] || c.Intn(50) == 0 {
					run(t)
					break
				}
			}
		default:
			run(corpus[c.Intn(len(corpus))])
		}
		spent++
	}
}

// w2aFill fills m with random content that Marshal accepts (valid UTF-8).  false: the generator
// panicked (counted, not a property failure).
func w2aFill(c *Ctx, m protoreflect.Message, depth int, unknown bool) (ok bool) {
	defer func() {
		if r := recover(); r != nil {
			c.Stat("fill_panic")
			ok = false
		}
	}()
	budget := 60 + c.Intn(200)
	msgRandomFillOpts(c, m, depth, msgFillOpts{budget: &budget, badUTF8: false, unknown: unknown, dense: c.Intn(8) == 0})
	return true
}

var w2aMarshal = proto.MarshalOptions{AllowPartial: true, Deterministic: true}

func w2aUnmarshal(fl w2aFlavour, b []byte, o proto.UnmarshalOptions) (protoreflect.Message, error) {
	m := fl.new()
	o.AllowPartial = true
	err := o.Unmarshal(b, m.Interface())
	return m, err
}

// w2aBinCopy returns an independent copy of m made through the wire format.
func w2aBinCopy(fl w2aFlavour, m protoreflect.Message, nolazy bool) (protoreflect.Message, []byte, error) {
	b, err := w2aMarshal.Marshal(m.Interface())
	if err != nil {
		return nil, nil, err
	}
	m2, err := w2aUnmarshal(fl, b, proto.UnmarshalOptions{NoLazyDecoding: nolazy})
	return m2, b, err
}

func w2aCat(x, y []byte) []byte { return append(append([]byte(nil), x...), y...) }

func w2aRecover(c *Ctx, prop, what string) {
	if r := recover(); r != nil {
		c.PropFail(prop, fmt.Sprintf("panic (%s): %v", what, r))
	}
}
