//go:build verif

package main

// family "legacy" (C46): messages known only through older generated code or
// struct tags behave like dynamicpb messages of the same schema.
//
//	internal/impl/legacy_message.go   legacyLoadMessageDesc / aberrantLoadMessageDesc
//	internal/impl/legacy_file.go      gzip raw descriptors
//	internal/impl/legacy_enum.go, legacy_extension.go, legacy_export.go
//	internal/encoding/tag/tag.go      the struct-tag codec
//	protoadapt/convert.go
//
// C lines (compared with the Coq model Desc/TagModel.v):
//
//	tag   <record>            | <tag string>
//	untag <gokind> <string>   | <record>
//
// P lines: for the twelve historical generations of the legacy test schema and for
// struct-tag-only ("aberrant") types: deterministic wire bytes, protojson /
// prototext output, reflection snapshots and cross-decoding against
// dynamicpb messages of the same schema; descriptors derived from struct tags
// against the descriptors embedded in the generated code.

import (
	"bytes"
	"compress/gzip"
	"fmt"
	"io"
	"math"
	"reflect"
	"sort"
	"strconv"
	"strings"

	"google.golang.org/protobuf/encoding/protojson"
	"google.golang.org/protobuf/encoding/prototext"
	"google.golang.org/protobuf/encoding/protowire"
	ptag "google.golang.org/protobuf/internal/encoding/tag"
	"google.golang.org/protobuf/proto"
	"google.golang.org/protobuf/protoadapt"
	"google.golang.org/protobuf/reflect/protodesc"
	"google.golang.org/protobuf/reflect/protoreflect"
	"google.golang.org/protobuf/reflect/protoregistry"
	"google.golang.org/protobuf/runtime/protoiface"
	"google.golang.org/protobuf/runtime/protoimpl"
	"google.golang.org/protobuf/types/dynamicpb"

	p2a "google.golang.org/protobuf/internal/testprotos/legacy/proto2_20160225_2fc053c5"
	p2b "google.golang.org/protobuf/internal/testprotos/legacy/proto2_20160519_a4ab9ec5"
	p2c "google.golang.org/protobuf/internal/testprotos/legacy/proto2_20180125_92554152"
	p2d "google.golang.org/protobuf/internal/testprotos/legacy/proto2_20180430_b4deda09"
	p2e "google.golang.org/protobuf/internal/testprotos/legacy/proto2_20180814_aa810b61"
	p2f "google.golang.org/protobuf/internal/testprotos/legacy/proto2_20190205_c823c79e"
	p3a "google.golang.org/protobuf/internal/testprotos/legacy/proto3_20160225_2fc053c5"
	p3b "google.golang.org/protobuf/internal/testprotos/legacy/proto3_20160519_a4ab9ec5"
	p3c "google.golang.org/protobuf/internal/testprotos/legacy/proto3_20180125_92554152"
	p3d "google.golang.org/protobuf/internal/testprotos/legacy/proto3_20180430_b4deda09"
	p3e "google.golang.org/protobuf/internal/testprotos/legacy/proto3_20180814_aa810b61"
	p3f "google.golang.org/protobuf/internal/testprotos/legacy/proto3_20190205_c823c79e"
)

func init() { Register("legacy", famLegacy) }

// Shadow types: the same struct (fields and tags) without any method, so the
// runtime knows them only through their struct tags (aberrant messages).
type (
	LegacyShadowP2a p2a.Message
	LegacyShadowP2b p2b.Message
	LegacyShadowP2c p2c.Message
	LegacyShadowP2d p2d.Message
	LegacyShadowP2e p2e.Message
	LegacyShadowP2f p2f.Message
	LegacyShadowP3a p3a.Message
	LegacyShadowP3b p3b.Message
	LegacyShadowP3c p3c.Message
	LegacyShadowP3d p3d.Message
	LegacyShadowP3e p3e.Message
	LegacyShadowP3f p3f.Message
)

// the three methods of the v1 Message interface (no Descriptor method: the descriptor must come from the tags)
func (m *LegacyShadowP2a) Reset()          { *m = LegacyShadowP2a{} }
func (m *LegacyShadowP2a) String() string  { return "LegacyShadowP2a" }
func (*LegacyShadowP2a) ProtoMessage()     {}
func (m *LegacyShadowP2b) Reset()          { *m = LegacyShadowP2b{} }
func (m *LegacyShadowP2b) String() string  { return "LegacyShadowP2b" }
func (*LegacyShadowP2b) ProtoMessage()     {}
func (m *LegacyShadowP2c) Reset()          { *m = LegacyShadowP2c{} }
func (m *LegacyShadowP2c) String() string  { return "LegacyShadowP2c" }
func (*LegacyShadowP2c) ProtoMessage()     {}
func (m *LegacyShadowP2d) Reset()          { *m = LegacyShadowP2d{} }
func (m *LegacyShadowP2d) String() string  { return "LegacyShadowP2d" }
func (*LegacyShadowP2d) ProtoMessage()     {}
func (m *LegacyShadowP2e) Reset()          { *m = LegacyShadowP2e{} }
func (m *LegacyShadowP2e) String() string  { return "LegacyShadowP2e" }
func (*LegacyShadowP2e) ProtoMessage()     {}
func (m *LegacyShadowP2f) Reset()          { *m = LegacyShadowP2f{} }
func (m *LegacyShadowP2f) String() string  { return "LegacyShadowP2f" }
func (*LegacyShadowP2f) ProtoMessage()     {}
func (m *LegacyShadowP3a) Reset()          { *m = LegacyShadowP3a{} }
func (m *LegacyShadowP3a) String() string  { return "LegacyShadowP3a" }
func (*LegacyShadowP3a) ProtoMessage()     {}
func (m *LegacyShadowP3b) Reset()          { *m = LegacyShadowP3b{} }
func (m *LegacyShadowP3b) String() string  { return "LegacyShadowP3b" }
func (*LegacyShadowP3b) ProtoMessage()     {}
func (m *LegacyShadowP3c) Reset()          { *m = LegacyShadowP3c{} }
func (m *LegacyShadowP3c) String() string  { return "LegacyShadowP3c" }
func (*LegacyShadowP3c) ProtoMessage()     {}
func (m *LegacyShadowP3d) Reset()          { *m = LegacyShadowP3d{} }
func (m *LegacyShadowP3d) String() string  { return "LegacyShadowP3d" }
func (*LegacyShadowP3d) ProtoMessage()     {}
func (m *LegacyShadowP3e) Reset()          { *m = LegacyShadowP3e{} }
func (m *LegacyShadowP3e) String() string  { return "LegacyShadowP3e" }
func (*LegacyShadowP3e) ProtoMessage()     {}
func (m *LegacyShadowP3f) Reset()          { *m = LegacyShadowP3f{} }
func (m *LegacyShadowP3f) String() string  { return "LegacyShadowP3f" }
func (*LegacyShadowP3f) ProtoMessage()     {}
func (m *LegacyAbMessage) Reset()          { *m = LegacyAbMessage{} }
func (m *LegacyAbMessage) String() string  { return "LegacyAbMessage" }
func (*LegacyAbMessage) ProtoMessage()     {}
func (m *LegacyAb3Message) Reset()         { *m = LegacyAb3Message{} }
func (m *LegacyAb3Message) String() string { return "LegacyAb3Message" }
func (*LegacyAb3Message) ProtoMessage()    {}

// legacyWrappersOf returns the oneof wrapper types of a generated legacy message
// (XXX_OneofFuncs in the older generations, XXX_OneofWrappers in the newest).
func legacyWrappersOf(m any) []any {
	for _, name := range []string{"XXX_OneofWrappers", "XXX_OneofFuncs"} {
		if fn, ok := reflect.TypeOf(m).MethodByName(name); ok {
			for _, v := range fn.Func.Call([]reflect.Value{reflect.Zero(fn.Type.In(0))}) {
				if w, ok := v.Interface().([]any); ok {
					return w
				}
			}
		}
	}
	return nil
}

// Oneof wrappers and extension ranges are carried by methods, not tags: hand them on.
func (*LegacyShadowP2a) XXX_OneofWrappers() []any { return legacyWrappersOf((*p2a.Message)(nil)) }
func (*LegacyShadowP2a) ExtensionRangeArray() []protoiface.ExtensionRangeV1 {
	return (*p2a.Message)(nil).ExtensionRangeArray()
}
func (*LegacyShadowP2b) XXX_OneofWrappers() []any { return legacyWrappersOf((*p2b.Message)(nil)) }
func (*LegacyShadowP2b) ExtensionRangeArray() []protoiface.ExtensionRangeV1 {
	return (*p2b.Message)(nil).ExtensionRangeArray()
}
func (*LegacyShadowP2c) XXX_OneofWrappers() []any { return legacyWrappersOf((*p2c.Message)(nil)) }
func (*LegacyShadowP2c) ExtensionRangeArray() []protoiface.ExtensionRangeV1 {
	return (*p2c.Message)(nil).ExtensionRangeArray()
}
func (*LegacyShadowP2d) XXX_OneofWrappers() []any { return legacyWrappersOf((*p2d.Message)(nil)) }
func (*LegacyShadowP2d) ExtensionRangeArray() []protoiface.ExtensionRangeV1 {
	return (*p2d.Message)(nil).ExtensionRangeArray()
}
func (*LegacyShadowP2e) XXX_OneofWrappers() []any { return legacyWrappersOf((*p2e.Message)(nil)) }
func (*LegacyShadowP2e) ExtensionRangeArray() []protoiface.ExtensionRangeV1 {
	return (*p2e.Message)(nil).ExtensionRangeArray()
}
func (*LegacyShadowP2f) XXX_OneofWrappers() []any { return legacyWrappersOf((*p2f.Message)(nil)) }
func (*LegacyShadowP2f) ExtensionRangeArray() []protoiface.ExtensionRangeV1 {
	return (*p2f.Message)(nil).ExtensionRangeArray()
}
func (*LegacyShadowP3a) XXX_OneofWrappers() []any { return legacyWrappersOf((*p3a.Message)(nil)) }
func (*LegacyShadowP3b) XXX_OneofWrappers() []any { return legacyWrappersOf((*p3b.Message)(nil)) }
func (*LegacyShadowP3c) XXX_OneofWrappers() []any { return legacyWrappersOf((*p3c.Message)(nil)) }
func (*LegacyShadowP3d) XXX_OneofWrappers() []any { return legacyWrappersOf((*p3d.Message)(nil)) }
func (*LegacyShadowP3e) XXX_OneofWrappers() []any { return legacyWrappersOf((*p3e.Message)(nil)) }
func (*LegacyShadowP3f) XXX_OneofWrappers() []any { return legacyWrappersOf((*p3f.Message)(nil)) }

// the message name is not in the tags either (XXX_MessageName is the v1 hook for it)
func (*LegacyShadowP2a) XXX_MessageName() string { return "google.golang.org.proto2_20160225.Message" }
func (*LegacyShadowP2b) XXX_MessageName() string { return "google.golang.org.proto2_20160519.Message" }
func (*LegacyShadowP2c) XXX_MessageName() string { return "google.golang.org.proto2_20180125.Message" }
func (*LegacyShadowP2d) XXX_MessageName() string { return "google.golang.org.proto2_20180430.Message" }
func (*LegacyShadowP2e) XXX_MessageName() string { return "google.golang.org.proto2_20180814.Message" }
func (*LegacyShadowP2f) XXX_MessageName() string { return "google.golang.org.proto2_20190205.Message" }
func (*LegacyShadowP3a) XXX_MessageName() string { return "google.golang.org.proto3_20160225.Message" }
func (*LegacyShadowP3b) XXX_MessageName() string { return "google.golang.org.proto3_20160519.Message" }
func (*LegacyShadowP3c) XXX_MessageName() string { return "google.golang.org.proto3_20180125.Message" }
func (*LegacyShadowP3d) XXX_MessageName() string { return "google.golang.org.proto3_20180430.Message" }
func (*LegacyShadowP3e) XXX_MessageName() string { return "google.golang.org.proto3_20180814.Message" }
func (*LegacyShadowP3f) XXX_MessageName() string { return "google.golang.org.proto3_20190205.Message" }

type legacyGen struct {
	name   string
	proto3 bool
	newMsg func() any    // *pkg.Message
	shadow func(any) any // (*LegacyShadowX)(m)
	md     protoreflect.MessageDescriptor
	xts    []protoreflect.ExtensionType // extensions of Message, by number
	// proto3 generations before 2018-08 do not mark their tags "proto3": read through the tags
	// alone their plain scalar fields have explicit presence that the Go field cannot express
	// and zero values are written (this is what github.com/golang/protobuf did with such a
	// struct too); presence and bytes are then not comparable with the generated descriptor
	oldProto3 bool
}

var legacyGens = []*legacyGen{
	{name: "proto2_20160225", newMsg: func() any { return new(p2a.Message) }, shadow: func(m any) any { return (*LegacyShadowP2a)(m.(*p2a.Message)) }},
	{name: "proto2_20160519", newMsg: func() any { return new(p2b.Message) }, shadow: func(m any) any { return (*LegacyShadowP2b)(m.(*p2b.Message)) }},
	{name: "proto2_20180125", newMsg: func() any { return new(p2c.Message) }, shadow: func(m any) any { return (*LegacyShadowP2c)(m.(*p2c.Message)) }},
	{name: "proto2_20180430", newMsg: func() any { return new(p2d.Message) }, shadow: func(m any) any { return (*LegacyShadowP2d)(m.(*p2d.Message)) }},
	{name: "proto2_20180814", newMsg: func() any { return new(p2e.Message) }, shadow: func(m any) any { return (*LegacyShadowP2e)(m.(*p2e.Message)) }},
	{name: "proto2_20190205", newMsg: func() any { return new(p2f.Message) }, shadow: func(m any) any { return (*LegacyShadowP2f)(m.(*p2f.Message)) }},
	{name: "proto3_20160225", proto3: true, newMsg: func() any { return new(p3a.Message) }, shadow: func(m any) any { return (*LegacyShadowP3a)(m.(*p3a.Message)) }},
	{name: "proto3_20160519", proto3: true, newMsg: func() any { return new(p3b.Message) }, shadow: func(m any) any { return (*LegacyShadowP3b)(m.(*p3b.Message)) }},
	{name: "proto3_20180125", proto3: true, newMsg: func() any { return new(p3c.Message) }, shadow: func(m any) any { return (*LegacyShadowP3c)(m.(*p3c.Message)) }},
	{name: "proto3_20180430", proto3: true, newMsg: func() any { return new(p3d.Message) }, shadow: func(m any) any { return (*LegacyShadowP3d)(m.(*p3d.Message)) }},
	{name: "proto3_20180814", proto3: true, newMsg: func() any { return new(p3e.Message) }, shadow: func(m any) any { return (*LegacyShadowP3e)(m.(*p3e.Message)) }},
	{name: "proto3_20190205", proto3: true, newMsg: func() any { return new(p3f.Message) }, shadow: func(m any) any { return (*LegacyShadowP3f)(m.(*p3f.Message)) }},
}

func legacyV2(m any) proto.Message { return protoimpl.X.ProtoMessageV2Of(m) }

func legacySetup() {
	if legacyGens[0].md != nil {
		return
	}
	for _, g := range legacyGens {
		g.md = legacyV2(g.newMsg()).ProtoReflect().Descriptor()
		if sf, ok := reflect.TypeOf(g.newMsg()).Elem().FieldByName("OptionalBool"); ok && g.proto3 {
			g.oldProto3 = !strings.Contains(sf.Tag.Get("protobuf"), "proto3")
		}
		protoregistry.GlobalTypes.RangeExtensionsByMessage(g.md.FullName(), func(xt protoreflect.ExtensionType) bool {
			g.xts = append(g.xts, xt)
			return true
		})
		sort.Slice(g.xts, func(i, j int) bool {
			return g.xts[i].TypeDescriptor().Number() < g.xts[j].TypeDescriptor().Number()
		})
	}
}

// ---------------------------------------------------------------- random content through protoreflect

func legacyString(c *Ctx, utf8 bool) string {
	n := c.Intn(6)
	var sb strings.Builder
	for i := 0; i < n; i++ {
		switch c.Intn(8) {
		case 0:
			sb.WriteRune([]rune{'é', 'ß', '世', '😀', 0x7f, 0}[c.Intn(6)])
		case 1:
			sb.WriteByte(`",\'{}[]`[c.Intn(8)])
		default:
			sb.WriteByte(byte('a' + c.Intn(26)))
		}
	}
	return sb.String()
}

func legacyScalar(c *Ctx, fd protoreflect.FieldDescriptor) protoreflect.Value {
	pick64 := func() uint64 {
		switch c.Intn(6) {
		case 0:
			return 0
		case 1:
			return 1
		case 2:
			return ^uint64(0)
		case 3:
			return 1 << uint(c.Intn(64))
		default:
			return c.U64() >> uint(c.Intn(64))
		}
	}
	switch fd.Kind() {
	case protoreflect.BoolKind:
		return protoreflect.ValueOfBool(c.Bool())
	case protoreflect.Int32Kind, protoreflect.Sint32Kind, protoreflect.Sfixed32Kind:
		return protoreflect.ValueOfInt32(int32(pick64()))
	case protoreflect.Int64Kind, protoreflect.Sint64Kind, protoreflect.Sfixed64Kind:
		return protoreflect.ValueOfInt64(int64(pick64()))
	case protoreflect.Uint32Kind, protoreflect.Fixed32Kind:
		return protoreflect.ValueOfUint32(uint32(pick64()))
	case protoreflect.Uint64Kind, protoreflect.Fixed64Kind:
		return protoreflect.ValueOfUint64(pick64())
	case protoreflect.FloatKind:
		switch c.Intn(8) {
		case 0:
			return protoreflect.ValueOfFloat32(float32(math.Copysign(0, -1)))
		case 1:
			return protoreflect.ValueOfFloat32(float32(math.Inf(1 - 2*c.Intn(2))))
		case 2:
			return protoreflect.ValueOfFloat32(float32(c.Intn(1000)) / 8)
		}
		f := math.Float32frombits(uint32(c.U64()))
		if f != f {
			f = float32(math.NaN())
		}
		return protoreflect.ValueOfFloat32(f)
	case protoreflect.DoubleKind:
		switch c.Intn(8) {
		case 0:
			return protoreflect.ValueOfFloat64(math.Copysign(0, -1))
		case 1:
			return protoreflect.ValueOfFloat64(math.Inf(1 - 2*c.Intn(2)))
		case 2:
			return protoreflect.ValueOfFloat64(float64(c.Intn(1000)) / 8)
		}
		f := math.Float64frombits(c.U64())
		if f != f {
			f = math.NaN()
		}
		return protoreflect.ValueOfFloat64(f)
	case protoreflect.StringKind:
		return protoreflect.ValueOfString(legacyString(c, true))
	case protoreflect.BytesKind:
		return protoreflect.ValueOfBytes(c.Bytes(c.Intn(6)))
	case protoreflect.EnumKind:
		// an enum known only through a struct tag is open and has the single value 0: numbers
		// 0..2 are drawn for it (the intended-schema pairs declare exactly these)
		vs := fd.Enum().Values()
		n := vs.Len()
		if n < 3 && !fd.Enum().IsClosed() {
			n = 3
		}
		i := c.Intn(n)
		if i >= vs.Len() {
			return protoreflect.ValueOfEnum(protoreflect.EnumNumber(i))
		}
		return protoreflect.ValueOfEnum(vs.Get(i).Number())
	}
	panic("legacy: not a scalar kind: " + fd.Kind().String())
}

func legacyFillField(c *Ctx, m protoreflect.Message, fd protoreflect.FieldDescriptor, depth int) {
	isMsg := func(fd protoreflect.FieldDescriptor) bool {
		return fd.Kind() == protoreflect.MessageKind || fd.Kind() == protoreflect.GroupKind
	}
	switch {
	case fd.IsMap():
		mp := m.Mutable(fd).Map()
		for i, n := 0, c.Intn(3); i < n; i++ {
			k := legacyScalar(c, fd.MapKey()).MapKey()
			if isMsg(fd.MapValue()) {
				legacyFill(c, mp.Mutable(k).Message(), depth-1, nil)
			} else {
				mp.Set(k, legacyScalar(c, fd.MapValue()))
			}
		}
	case fd.IsList():
		l := m.Mutable(fd).List()
		for i, n := 0, c.Intn(3); i < n; i++ {
			if isMsg(fd) {
				legacyFill(c, l.AppendMutable().Message(), depth-1, nil)
			} else {
				l.Append(legacyScalar(c, fd))
			}
		}
	case isMsg(fd):
		legacyFill(c, m.Mutable(fd).Message(), depth-1, nil)
	default:
		m.Set(fd, legacyScalar(c, fd))
	}
}

// legacyFill populates m; the choices depend only on the PRNG stream and the descriptor
func legacyFill(c *Ctx, m protoreflect.Message, depth int, xts []protoreflect.ExtensionType) {
	fds := m.Descriptor().Fields()
	p := 3
	if depth <= 0 {
		p = 12
	}
	for i := 0; i < fds.Len(); i++ {
		fd := fds.Get(i)
		if c.Intn(p) != 0 {
			continue
		}
		if depth <= 0 && (fd.Message() != nil) {
			continue
		}
		legacyFillField(c, m, fd, depth)
	}
	for _, xt := range xts {
		if c.Intn(6) == 0 {
			legacyFillField(c, m, xt.TypeDescriptor(), depth)
		}
	}
}

// ---------------------------------------------------------------- canonical dumps

func legacyDumpValue(sb *strings.Builder, fd protoreflect.FieldDescriptor, v protoreflect.Value) {
	switch fd.Kind() {
	case protoreflect.BoolKind:
		fmt.Fprintf(sb, "%v", v.Bool())
	case protoreflect.EnumKind:
		fmt.Fprintf(sb, "e%d", v.Enum())
	case protoreflect.Int32Kind, protoreflect.Sint32Kind, protoreflect.Sfixed32Kind, protoreflect.Int64Kind, protoreflect.Sint64Kind, protoreflect.Sfixed64Kind:
		fmt.Fprintf(sb, "%d", v.Int())
	case protoreflect.Uint32Kind, protoreflect.Fixed32Kind, protoreflect.Uint64Kind, protoreflect.Fixed64Kind:
		fmt.Fprintf(sb, "%d", v.Uint())
	case protoreflect.FloatKind:
		fmt.Fprintf(sb, "f%08x", math.Float32bits(float32(v.Float())))
	case protoreflect.DoubleKind:
		fmt.Fprintf(sb, "d%016x", math.Float64bits(v.Float()))
	case protoreflect.StringKind:
		fmt.Fprintf(sb, "%q", v.String())
	case protoreflect.BytesKind:
		fmt.Fprintf(sb, "x%x", v.Bytes())
	case protoreflect.MessageKind, protoreflect.GroupKind:
		legacyDump(sb, v.Message())
	}
}

func legacyDumpField(sb *strings.Builder, fd protoreflect.FieldDescriptor, v protoreflect.Value) {
	fmt.Fprintf(sb, "%d:", fd.Number())
	switch {
	case fd.IsMap():
		type kv struct {
			k string
			v protoreflect.Value
		}
		var kvs []kv
		v.Map().Range(func(k protoreflect.MapKey, v protoreflect.Value) bool {
			var ks strings.Builder
			legacyDumpValue(&ks, fd.MapKey(), k.Value())
			kvs = append(kvs, kv{ks.String(), v})
			return true
		})
		sort.Slice(kvs, func(i, j int) bool { return kvs[i].k < kvs[j].k })
		sb.WriteString("{")
		for _, e := range kvs {
			sb.WriteString(e.k + "=>")
			legacyDumpValue(sb, fd.MapValue(), e.v)
			sb.WriteString(",")
		}
		sb.WriteString("}")
	case fd.IsList():
		sb.WriteString("[")
		l := v.List()
		for i := 0; i < l.Len(); i++ {
			legacyDumpValue(sb, fd, l.Get(i))
			sb.WriteString(",")
		}
		sb.WriteString("]")
	default:
		legacyDumpValue(sb, fd, v)
	}
	sb.WriteString(";")
}

// reflection snapshot: the populated fields as Range reports them (sorted by
// number), cross-checked with Has / WhichOneof, plus the unknown bytes
func legacyDump(sb *strings.Builder, m protoreflect.Message) {
	type ent struct {
		fd protoreflect.FieldDescriptor
		v  protoreflect.Value
	}
	var es []ent
	m.Range(func(fd protoreflect.FieldDescriptor, v protoreflect.Value) bool {
		es = append(es, ent{fd, v})
		return true
	})
	sort.Slice(es, func(i, j int) bool { return es[i].fd.Number() < es[j].fd.Number() })
	sb.WriteString("(")
	for _, e := range es {
		if !m.Has(e.fd) {
			sb.WriteString("!has")
		}
		legacyDumpField(sb, e.fd, e.v)
	}
	fds := m.Descriptor().Fields()
	n := 0
	for i := 0; i < fds.Len(); i++ {
		if m.Has(fds.Get(i)) {
			n++
		}
	}
	fmt.Fprintf(sb, "#%d", n)
	ods := m.Descriptor().Oneofs()
	for i := 0; i < ods.Len(); i++ {
		if fd := m.WhichOneof(ods.Get(i)); fd != nil {
			fmt.Fprintf(sb, "o%d=%d", i, fd.Number())
		}
	}
	if u := m.GetUnknown(); len(u) > 0 {
		fmt.Fprintf(sb, "u%x", []byte(u))
	}
	sb.WriteString(")")
}

func legacyDumpStr(m proto.Message) string {
	var sb strings.Builder
	legacyDump(&sb, m.ProtoReflect())
	return sb.String()
}

// ---------------------------------------------------------------- the differential check

var (
	legacyMO = proto.MarshalOptions{Deterministic: true, AllowPartial: true}
	legacyUO = proto.UnmarshalOptions{AllowPartial: true}
	legacyJO = protojson.MarshalOptions{AllowPartial: true}
	legacyTO = prototext.MarshalOptions{AllowPartial: true}
)

type legacyObs struct {
	dump, text, json string
	wire             []byte
	size             int
	errs             string
}

func legacyObserve(m proto.Message) (o legacyObs) {
	o.dump = legacyDumpStr(m)
	var err error
	o.wire, err = legacyMO.Marshal(m)
	if err != nil {
		o.errs += "wire;"
	}
	o.size = legacyMO.Size(m)
	j, err := legacyJO.Marshal(m)
	if err != nil {
		o.errs += "json;"
	}
	o.json = string(j)
	t, err := legacyTO.Marshal(m)
	if err != nil {
		o.errs += "text;"
	}
	o.text = string(t)
	return o
}

func legacyDiff(a, b legacyObs) string {
	switch {
	case a.errs != b.errs:
		return "marshal errors (" + a.errs + " vs " + b.errs + ")"
	case a.dump != b.dump:
		return "reflection snapshots"
	case !bytes.Equal(a.wire, b.wire):
		return "deterministic wire bytes"
	case a.size != b.size:
		return "Size"
	case a.json != b.json:
		return "protojson output"
	case a.text != b.text:
		return "prototext output"
	}
	return ""
}

// legacyPair fills a legacy-wrapped message and a dynamicpb message of the same
// descriptor with the same content and compares every observable.
func legacyPair(c *Ctx, label string, newA func() proto.Message, xts []protoreflect.ExtensionType, seed uint64) {
	defer func() {
		if r := recover(); r != nil {
			c.PropFail("C46", fmt.Sprintf("panic: %v", r), label, HexN(seed))
		}
	}()
	a := newA()
	md := a.ProtoReflect().Descriptor()
	b := dynamicpb.NewMessage(md)
	save := c.rng
	c.rng = seed
	legacyFill(c, a.ProtoReflect(), 2, xts)
	c.rng = seed
	legacyFill(c, b, 2, xts)
	c.rng = save

	oa, ob := legacyObserve(a), legacyObserve(b)
	if d := legacyDiff(oa, ob); d != "" {
		c.PropFail("C46", "legacy and dynamicpb message with the same content differ in "+d, label, HexN(seed))
		return
	}
	c.Stat("pair:" + label)
	if oa.size != len(oa.wire) && !strings.Contains(oa.errs, "wire") {
		c.PropFail("C46", "Size differs from len(Marshal)", label, HexN(seed))
	}
	if !proto.Equal(a, b) {
		c.PropFail("C46", "legacy and dynamicpb message with the same content are not proto.Equal", label, HexN(seed))
	}
	if strings.Contains(oa.errs, "wire") {
		return
	}
	// cross-decoding: each decodes the other's bytes (they are equal; decode both ways anyway)
	a2, b2 := newA(), dynamicpb.NewMessage(md)
	ea, eb := legacyUO.Unmarshal(ob.wire, a2), legacyUO.Unmarshal(oa.wire, b2)
	if (ea == nil) != (eb == nil) {
		c.PropFail("C46", "cross-decoding: acceptance differs", label, HexN(seed))
		return
	}
	if ea != nil {
		c.PropFail("C46", "own output does not decode", label, HexN(seed))
		return
	}
	oa2, ob2 := legacyObserve(a2), legacyObserve(b2)
	if d := legacyDiff(oa2, ob2); d != "" {
		c.PropFail("C46", "after cross-decoding: legacy and dynamicpb differ in "+d, label, HexN(seed))
	}
	if oa2.dump != oa.dump {
		c.PropFail("C46", "decoding the encoded content changes the reflection snapshot", label, HexN(seed))
	}
	if !proto.Equal(a, a2) || !proto.Equal(a2, b2) {
		c.PropFail("C46", "decoded messages are not proto.Equal to the original", label, HexN(seed))
	}
	// text and JSON cross-parsing
	if !strings.Contains(oa.errs, "json") {
		a3, b3 := newA(), dynamicpb.NewMessage(md)
		uj := protojson.UnmarshalOptions{AllowPartial: true}
		e1, e2 := uj.Unmarshal([]byte(ob.json), a3), uj.Unmarshal([]byte(oa.json), b3)
		if e1 != nil || e2 != nil {
			c.PropFail("C46", "protojson output does not parse back", label, HexN(seed))
		} else if d := legacyDiff(legacyObserve(a3), legacyObserve(b3)); d != "" {
			c.PropFail("C46", "after JSON cross-parsing: legacy and dynamicpb differ in "+d, label, HexN(seed))
		}
	}
	if !strings.Contains(oa.errs, "text") {
		a3, b3 := newA(), dynamicpb.NewMessage(md)
		ut := prototext.UnmarshalOptions{AllowPartial: true}
		e1, e2 := ut.Unmarshal([]byte(ob.text), a3), ut.Unmarshal([]byte(oa.text), b3)
		if e1 != nil || e2 != nil {
			c.PropFail("C46", "prototext output does not parse back", label, HexN(seed))
		} else if d := legacyDiff(legacyObserve(a3), legacyObserve(b3)); d != "" {
			c.PropFail("C46", "after text cross-parsing: legacy and dynamicpb differ in "+d, label, HexN(seed))
		} else if legacyObserve(a3).dump != oa.dump {
			c.PropFail("C46", "prototext round trip changes the reflection snapshot", label, HexN(seed))
		}
	}
	// Clone / Merge / Reset through the legacy wrapper
	cl := proto.Clone(a)
	if !proto.Equal(cl, a) || legacyDumpStr(cl) != oa.dump {
		c.PropFail("C46", "Clone of a legacy message differs", label, HexN(seed))
	}
	mg := dynamicpb.NewMessage(md)
	proto.Merge(mg, a)
	if legacyDumpStr(mg) != oa.dump {
		c.PropFail("C46", "Merge(legacy -> dynamicpb) differs", label, HexN(seed))
	}
	proto.Reset(a)
	if legacyDumpStr(a) != legacyDumpStr(newA()) {
		c.PropFail("C46", "Reset does not give an empty legacy message", label, HexN(seed))
	}
}

// legacyUnknown: unknown fields survive in both (when the legacy struct has a place for them)
func legacyUnknownPair(c *Ctx, g *legacyGen) {
	a := legacyV2(g.newMsg())
	var u []byte
	for i, n := 0, 1+c.Intn(3); i < n; i++ {
		num := protowire.Number(60000 + c.Intn(100))
		switch c.Intn(3) {
		case 0:
			u = protowire.AppendVarint(protowire.AppendTag(u, num, protowire.VarintType), c.U64())
		case 1:
			u = protowire.AppendBytes(protowire.AppendTag(u, num, protowire.BytesType), c.Bytes(c.Intn(5)))
		case 2:
			u = protowire.AppendFixed32(protowire.AppendTag(u, num, protowire.Fixed32Type), uint32(c.U64()))
		}
	}
	b := dynamicpb.NewMessage(g.md)
	ea, eb := legacyUO.Unmarshal(u, a), legacyUO.Unmarshal(u, b)
	if ea != nil || eb != nil {
		c.PropFail("C46", "unknown fields rejected", g.name, HexB(u))
		return
	}
	ga := a.ProtoReflect().GetUnknown()
	if len(ga) == 0 {
		// this generation's struct has no XXX_unrecognized field: unknown fields are dropped (by design)
		c.Stat("unknown:dropped:" + g.name)
		return
	}
	c.Stat("unknown:kept")
	oa, ob := legacyObserve(a), legacyObserve(b)
	if d := legacyDiff(oa, ob); d != "" {
		c.PropFail("C46", "with unknown fields: legacy and dynamicpb differ in "+d, g.name, HexB(u))
	}
}

// ---------------------------------------------------------------- descriptors derived from struct tags

func legacyFieldSig(fd protoreflect.FieldDescriptor) string {
	var sb strings.Builder
	fmt.Fprintf(&sb, "%s #%d %v %v packed=%v json=%s", fd.Name(), fd.Number(), fd.Cardinality(), fd.Kind(), fd.IsPacked(), fd.JSONName())
	if fd.HasDefault() {
		fmt.Fprintf(&sb, " def=")
		if fd.Kind() == protoreflect.EnumKind {
			fmt.Fprintf(&sb, "e%d", fd.Default().Enum())
		} else {
			legacyDumpValue(&sb, fd, fd.Default())
		}
	}
	if fd.Enum() != nil {
		fmt.Fprintf(&sb, " enum=%s", fd.Enum().FullName())
	}
	if fd.Message() != nil && !fd.IsMap() {
		fmt.Fprintf(&sb, " msg=%s", fd.Message().FullName())
	}
	if fd.IsMap() {
		fmt.Fprintf(&sb, " map<%v,%v", fd.MapKey().Kind(), fd.MapValue().Kind())
		if fd.MapValue().Message() != nil {
			fmt.Fprintf(&sb, ":%s", fd.MapValue().Message().FullName())
		}
		if fd.MapValue().Enum() != nil {
			fmt.Fprintf(&sb, ":%s", fd.MapValue().Enum().FullName())
		}
		sb.WriteString(">")
	}
	fmt.Fprintf(&sb, " presence=%v", fd.HasPresence())
	return sb.String()
}

// the descriptor derived from the struct tags of the shadow type against the
// descriptor embedded in the generated code (oneof members and extension ranges
// are carried by methods, which the shadow type does not have)
func legacyShadowDescriptors(c *Ctx, g *legacyGen) {
	defer func() {
		if r := recover(); r != nil {
			c.PropFail("C46", fmt.Sprintf("panic deriving a descriptor from struct tags: %v", r), g.name)
		}
	}()
	sm := legacyV2(g.shadow(g.newMsg()))
	smd := sm.ProtoReflect().Descriptor()
	if (smd.Syntax() == protoreflect.Proto3) != g.proto3 {
		c.PropFail("C46", "derived descriptor has the wrong syntax", g.name)
	}
	fds := g.md.Fields()
	strip := func(sig string) string {
		if g.oldProto3 { // unmarked tags: neither presence nor the proto3 packed default can be read from them
			sig = sig[:strings.Index(sig, " presence=")]
			sig = strings.Replace(strings.Replace(sig, " packed=true", "", 1), " packed=false", "", 1)
		}
		return sig
	}
	for i := 0; i < fds.Len(); i++ {
		fd := fds.Get(i)
		sfd := smd.Fields().ByNumber(fd.Number())
		if sfd == nil {
			c.PropFail("C46", "field missing from the descriptor derived from struct tags", g.name, string(fd.Name()))
			continue
		}
		want, got := strip(legacyFieldSig(fd)), strip(legacyFieldSig(sfd))
		if want != got {
			c.PropFail("C46", "field derived from its struct tag differs from the generated descriptor", g.name, want, got)
		}
		if (fd.ContainingOneof() == nil) != (sfd.ContainingOneof() == nil) ||
			(fd.ContainingOneof() != nil && fd.ContainingOneof().Name() != sfd.ContainingOneof().Name()) {
			c.PropFail("C46", "oneof membership derived from the struct differs from the generated descriptor", g.name, string(fd.Name()))
		}
		c.Stat("derived-field")
	}
	if smd.Fields().Len() != fds.Len() {
		c.PropFail("C46", "derived descriptor has extra fields", g.name)
	}
	if smd.Oneofs().Len() != g.md.Oneofs().Len() {
		c.PropFail("C46", "derived descriptor has a different number of oneofs", g.name)
	}
	for i := 0; i < g.md.ExtensionRanges().Len(); i++ {
		if smd.ExtensionRanges().Len() != g.md.ExtensionRanges().Len() || smd.ExtensionRanges().Get(i) != g.md.ExtensionRanges().Get(i) {
			c.PropFail("C46", "extension ranges derived from ExtensionRangeArray differ", g.name)
		}
	}
	// the legacy extension descriptors are derived from ExtensionDesc.Tag: compare with the raw file descriptor
	fd0 := g.md.ParentFile()
	var raw []protoreflect.ExtensionDescriptor
	var walk func(ms protoreflect.MessageDescriptors)
	for i := 0; i < fd0.Extensions().Len(); i++ {
		raw = append(raw, fd0.Extensions().Get(i))
	}
	walk = func(ms protoreflect.MessageDescriptors) {
		for i := 0; i < ms.Len(); i++ {
			for j := 0; j < ms.Get(i).Extensions().Len(); j++ {
				raw = append(raw, ms.Get(i).Extensions().Get(j))
			}
			walk(ms.Get(i).Messages())
		}
	}
	walk(fd0.Messages())
	byName := map[protoreflect.FullName]protoreflect.ExtensionDescriptor{}
	for _, x := range raw {
		byName[x.FullName()] = x
	}
	for _, xt := range g.xts {
		xd := xt.TypeDescriptor()
		rx := byName[xd.FullName()]
		if rx == nil {
			c.PropFail("C46", "legacy extension not found in the raw descriptor", g.name, string(xd.FullName()))
			continue
		}
		// JSON names of extensions are not carried by the tag; compare the rest
		sig := func(fd protoreflect.FieldDescriptor) string {
			s := legacyFieldSig(fd)
			i := strings.Index(s, " json=")
			j := strings.Index(s[i+1:], " ")
			if j < 0 {
				return s[:i]
			}
			return s[:i] + s[i+1+j:]
		}
		if want, got := sig(rx), sig(xd); want != got {
			c.PropFail("C46", "extension derived from ExtensionDesc.Tag differs from the raw descriptor", g.name, want, got)
		}
		if rx.ContainingMessage().FullName() != xd.ContainingMessage().FullName() {
			c.PropFail("C46", "extension derived from ExtensionDesc has the wrong extendee", g.name, string(xd.FullName()))
		}
		c.Stat("derived-extension")
	}
}

// the same struct value seen through the generated methods and through its tags only
func legacyShadowPair(c *Ctx, g *legacyGen, seed uint64) {
	defer func() {
		if r := recover(); r != nil {
			c.PropFail("C46", fmt.Sprintf("panic (shadow): %v", r), g.name, HexN(seed))
		}
	}()
	if g.oldProto3 {
		c.Stat("shadow:skipped-unmarked-proto3")
		return
	}
	m := g.newMsg()
	a := legacyV2(m)
	save := c.rng
	c.rng = seed
	legacyFill(c, a.ProtoReflect(), 2, g.xts)
	c.rng = save
	s := legacyV2(g.shadow(m)) // same memory, known through struct tags only
	wa, ea := legacyMO.Marshal(a)
	ws, es := legacyMO.Marshal(s)
	if (ea == nil) != (es == nil) || !bytes.Equal(wa, ws) {
		c.PropFail("C46", "struct-tag-only view of a message marshals differently from the generated view", g.name, HexN(seed))
		return
	}
	c.Stat("shadow:" + g.name)
	if ea != nil {
		return
	}
	// decode into a fresh shadow, compare with decoding into the generated type
	m2 := g.newMsg()
	if err := legacyUO.Unmarshal(wa, legacyV2(g.shadow(m2))); err != nil {
		c.PropFail("C46", "struct-tag-only type rejects the generated type's bytes", g.name, HexN(seed))
		return
	}
	if !proto.Equal(legacyV2(m2), a) {
		c.PropFail("C46", "decoding through the struct-tag-only view gives different content", g.name, HexN(seed))
	}
	ja, e1 := legacyJO.Marshal(a)
	js, e2 := legacyJO.Marshal(s)
	if (e1 == nil) != (e2 == nil) || string(ja) != string(js) {
		c.PropFail("C46", "struct-tag-only view differs in protojson output", g.name, HexN(seed))
	}
}

// ---------------------------------------------------------------- hand-declared aberrant types

type LegacyAbEnum int32

type LegacyAbMessage struct {
	OptBool    *bool            `protobuf:"varint,1,opt,name=opt_bool,def=1"`
	OptInt32   *int32           `protobuf:"varint,2,opt,name=opt_int32,def=-12345"`
	OptSint32  *int32           `protobuf:"zigzag32,3,opt,name=opt_sint32"`
	OptUint64  *uint64          `protobuf:"varint,4,opt,name=opt_uint64"`
	OptFixed32 *uint32          `protobuf:"fixed32,5,opt,name=opt_fixed32"`
	OptSfix64  *int64           `protobuf:"fixed64,6,opt,name=opt_sfixed64"`
	OptFloat   *float32         `protobuf:"fixed32,7,opt,name=opt_float,def=3.14159"`
	OptDouble  *float64         `protobuf:"fixed64,8,opt,name=opt_double"`
	OptString  *string          `protobuf:"bytes,9,opt,name=opt_string,def=hello, \"world!\"\n"`
	OptBytes   []byte           `protobuf:"bytes,10,opt,name=opt_bytes"`
	OptEnum    *LegacyAbEnum    `protobuf:"varint,11,opt,name=opt_enum,enum=verif.LegacyAbEnum"`
	OptMessage *LegacyAbMessage `protobuf:"bytes,12,opt,name=opt_message"`
	ReqInt64   *int64           `protobuf:"varint,13,req,name=req_int64"`

	RepBool    []bool             `protobuf:"varint,18,rep,packed,name=rep_bool"`
	RepInt32   []int32            `protobuf:"varint,19,rep,name=rep_int32"`
	RepSint64  []int64            `protobuf:"zigzag64,20,rep,packed,name=rep_sint64"`
	RepFixed64 []uint64           `protobuf:"fixed64,21,rep,name=rep_fixed64"`
	RepDouble  []float64          `protobuf:"fixed64,22,rep,packed,name=rep_double"`
	RepString  []string           `protobuf:"bytes,31,rep,name=rep_string"`
	RepBytes   [][]byte           `protobuf:"bytes,32,rep,name=rep_bytes"`
	RepEnum    []LegacyAbEnum     `protobuf:"varint,33,rep,name=rep_enum,enum=verif.LegacyAbEnum"`
	RepMessage []*LegacyAbMessage `protobuf:"bytes,34,rep,name=rep_message"`

	MapStringInt32   map[string]int32            `protobuf:"bytes,36,rep,name=map_string_int32" protobuf_key:"bytes,1,opt,name=key" protobuf_val:"varint,2,opt,name=value"`
	MapInt64Sint32   map[int64]int32             `protobuf:"bytes,37,rep,name=map_int64_sint32" protobuf_key:"varint,1,opt,name=key" protobuf_val:"zigzag32,2,opt,name=value"`
	MapStringBytes   map[string][]byte           `protobuf:"bytes,49,rep,name=map_string_bytes" protobuf_key:"bytes,1,opt,name=key" protobuf_val:"bytes,2,opt,name=value"`
	MapStringMessage map[string]*LegacyAbMessage `protobuf:"bytes,51,rep,name=map_string_message" protobuf_key:"bytes,1,opt,name=key" protobuf_val:"bytes,2,opt,name=value"`

	OneofUnion isLegacyAbOneof `protobuf_oneof:"oneof_union"`

	XXX_unrecognized []byte
}

func (m *LegacyAbMessage) XXX_OneofWrappers() []any {
	return []any{(*LegacyAbOneofBool)(nil), (*LegacyAbOneofString)(nil), (*LegacyAbOneofMessage)(nil)}
}

type isLegacyAbOneof interface{ isLegacyAbOneof() }
type LegacyAbOneofBool struct {
	OneofBool bool `protobuf:"varint,52,opt,name=oneof_bool,oneof"`
}
type LegacyAbOneofString struct {
	OneofString string `protobuf:"bytes,65,opt,name=oneof_string,oneof"`
}
type LegacyAbOneofMessage struct {
	OneofMessage *LegacyAbMessage `protobuf:"bytes,68,opt,name=oneof_message,oneof"`
}

func (*LegacyAbOneofBool) isLegacyAbOneof()    {}
func (*LegacyAbOneofString) isLegacyAbOneof()  {}
func (*LegacyAbOneofMessage) isLegacyAbOneof() {}

// proto3 flavour: plain scalars, marked proto3
type LegacyAb3Message struct {
	Bool     bool                `protobuf:"varint,1,opt,name=f_bool,json=fBool,proto3"`
	Int32    int32               `protobuf:"varint,2,opt,name=f_int32,json=fInt32,proto3"`
	Sint64   int64               `protobuf:"zigzag64,3,opt,name=f_sint64,json=fSint64,proto3"`
	Fixed32  uint32              `protobuf:"fixed32,4,opt,name=f_fixed32,json=fFixed32,proto3"`
	Float    float32             `protobuf:"fixed32,5,opt,name=f_float,json=fFloat,proto3"`
	Double   float64             `protobuf:"fixed64,6,opt,name=f_double,json=fDouble,proto3"`
	String_  string              `protobuf:"bytes,7,opt,name=f_string,json=fString,proto3"`
	Bytes    []byte              `protobuf:"bytes,8,opt,name=f_bytes,json=fBytes,proto3"`
	Enum     LegacyAbEnum        `protobuf:"varint,9,opt,name=f_enum,json=fEnum,proto3,enum=verif.LegacyAbEnum"`
	Message  *LegacyAb3Message   `protobuf:"bytes,10,opt,name=f_message,json=fMessage,proto3"`
	RepInt32 []int32             `protobuf:"varint,11,rep,packed,name=rep_int32,json=repInt32,proto3"`
	RepStr   []string            `protobuf:"bytes,12,rep,name=rep_string,json=repString,proto3"`
	RepMsg   []*LegacyAb3Message `protobuf:"bytes,13,rep,name=rep_message,json=repMessage,proto3"`
	MapU32B  map[uint32]bool     `protobuf:"bytes,14,rep,name=map_u32_bool,json=mapU32Bool,proto3" protobuf_key:"varint,1,opt,name=key,proto3" protobuf_val:"varint,2,opt,name=value,proto3"`
	// explicitly unpacked in the .proto: the 2017+ generators omit "packed" then
	RepUnpacked []int64 `protobuf:"varint,15,rep,name=rep_unpacked,json=repUnpacked,proto3"`

	XXX_unrecognized []byte
}

// a struct with a protobuf_oneof field whose wrapper types are not announced by any method:
// the derived descriptor has a oneof without members
type LegacyAbNoWrappers struct {
	F *int32          `protobuf:"varint,1,opt,name=f"`
	U isLegacyAbOneof `protobuf_oneof:"u"`
}

func (m *LegacyAbNoWrappers) Reset()         { *m = LegacyAbNoWrappers{} }
func (m *LegacyAbNoWrappers) String() string { return "LegacyAbNoWrappers" }
func (*LegacyAbNoWrappers) ProtoMessage()    {}

func legacyEmptyOneof(c *Ctx) {
	defer func() {
		if r := recover(); r != nil {
			if strings.Contains(fmt.Sprint(r), "index out of range [0] with length 0") {
				// FJ3: initOneofFieldCoders indexes the first member of a oneof that has none
				c.Known("FJ3", "C46", "Marshal panics for a struct-tag-only message whose protobuf_oneof field has no announced wrapper types")
				return
			}
			c.PropFail("C46", fmt.Sprintf("panic for a struct with a member-less oneof: %v", r))
		}
	}()
	v := int32(7)
	m := legacyV2(&LegacyAbNoWrappers{F: &v})
	if m.ProtoReflect().Descriptor().Oneofs().Len() != 1 {
		c.PropFail("C46", "member-less oneof not derived")
	}
	b, err := legacyMO.Marshal(m)
	if err != nil || !bytes.Equal(b, []byte{8, 7}) {
		c.PropFail("C46", "struct with a member-less oneof marshals wrongly")
	}
}

func legacyAberrantPairs(c *Ctx, seed uint64) {
	legacyPair(c, "aberrant/proto2", func() proto.Message { return legacyV2(new(LegacyAbMessage)) }, nil, seed)
	legacyPair(c, "aberrant/proto3", func() proto.Message { return legacyV2(new(LegacyAb3Message)) }, nil, seed)
	legacyAbSchemaPair(c, 0, seed)
	legacyAbSchemaPair(c, 1, seed)
}

// what the tags of LegacyAbMessage / LegacyAb3Message mean, field by field
func legacyAberrantDescriptors(c *Ctx) {
	defer func() {
		if r := recover(); r != nil {
			c.PropFail("C46", fmt.Sprintf("panic deriving an aberrant descriptor: %v", r))
		}
	}()
	type want struct {
		num    int32
		name   string
		kind   protoreflect.Kind
		card   protoreflect.Cardinality
		packed bool
		oneof  bool
	}
	check := func(label string, md protoreflect.MessageDescriptor, proto3 bool, ws []want) {
		if (md.Syntax() == protoreflect.Proto3) != proto3 {
			c.PropFail("C46", "aberrant message: wrong syntax", label)
		}
		if md.Fields().Len() != len(ws) {
			c.PropFail("C46", "aberrant message: wrong number of fields", label)
		}
		for _, w := range ws {
			fd := md.Fields().ByNumber(protoreflect.FieldNumber(w.num))
			if fd == nil {
				c.PropFail("C46", "aberrant message: field missing", label, w.name)
				continue
			}
			c.Stat("aberrant-field")
			got := want{int32(fd.Number()), string(fd.Name()), fd.Kind(), fd.Cardinality(), fd.IsPacked(), fd.ContainingOneof() != nil}
			if got != w {
				if label == "proto3" && w.name == "rep_unpacked" && got.packed && !w.packed {
					got.packed = false
					if got == w {
						// FJ2: a proto3 repeated scalar whose tag lacks "packed" (explicit [packed=false]) is derived as packed
						c.Known("FJ2", "C46", "proto3 repeated scalar with [packed=false] (tag without \"packed\") is derived as packed")
						continue
					}
				}
				c.PropFail("C46", "aberrant message: field derived from its tag is wrong", label, fmt.Sprintf("%+v", w), fmt.Sprintf("%+v", got))
			}
		}
	}
	md := legacyV2(new(LegacyAbMessage)).ProtoReflect().Descriptor()
	K := protoreflect.Kind(0)
	_ = K
	opt, req, rep := protoreflect.Optional, protoreflect.Required, protoreflect.Repeated
	check("proto2", md, false, []want{
		{1, "opt_bool", protoreflect.BoolKind, opt, false, false},
		{2, "opt_int32", protoreflect.Int32Kind, opt, false, false},
		{3, "opt_sint32", protoreflect.Sint32Kind, opt, false, false},
		{4, "opt_uint64", protoreflect.Uint64Kind, opt, false, false},
		{5, "opt_fixed32", protoreflect.Fixed32Kind, opt, false, false},
		{6, "opt_sfixed64", protoreflect.Sfixed64Kind, opt, false, false},
		{7, "opt_float", protoreflect.FloatKind, opt, false, false},
		{8, "opt_double", protoreflect.DoubleKind, opt, false, false},
		{9, "opt_string", protoreflect.StringKind, opt, false, false},
		{10, "opt_bytes", protoreflect.BytesKind, opt, false, false},
		{11, "opt_enum", protoreflect.EnumKind, opt, false, false},
		{12, "opt_message", protoreflect.MessageKind, opt, false, false},
		{13, "req_int64", protoreflect.Int64Kind, req, false, false},
		{18, "rep_bool", protoreflect.BoolKind, rep, true, false},
		{19, "rep_int32", protoreflect.Int32Kind, rep, false, false},
		{20, "rep_sint64", protoreflect.Sint64Kind, rep, true, false},
		{21, "rep_fixed64", protoreflect.Fixed64Kind, rep, false, false},
		{22, "rep_double", protoreflect.DoubleKind, rep, true, false},
		{31, "rep_string", protoreflect.StringKind, rep, false, false},
		{32, "rep_bytes", protoreflect.BytesKind, rep, false, false},
		{33, "rep_enum", protoreflect.EnumKind, rep, false, false},
		{34, "rep_message", protoreflect.MessageKind, rep, false, false},
		{36, "map_string_int32", protoreflect.MessageKind, rep, false, false},
		{37, "map_int64_sint32", protoreflect.MessageKind, rep, false, false},
		{49, "map_string_bytes", protoreflect.MessageKind, rep, false, false},
		{51, "map_string_message", protoreflect.MessageKind, rep, false, false},
		{52, "oneof_bool", protoreflect.BoolKind, opt, false, true},
		{65, "oneof_string", protoreflect.StringKind, opt, false, true},
		{68, "oneof_message", protoreflect.MessageKind, opt, false, true},
	})
	if fd := md.Fields().ByNumber(37); fd != nil && (!fd.IsMap() || fd.MapKey().Kind() != protoreflect.Int64Kind || fd.MapValue().Kind() != protoreflect.Sint32Kind) {
		c.PropFail("C46", "aberrant message: map field derived wrongly", "map_int64_sint32")
	}
	if fd := md.Fields().ByNumber(1); fd != nil && (!fd.HasDefault() || !fd.Default().Bool()) {
		c.PropFail("C46", "aberrant message: default derived wrongly", "opt_bool")
	}
	if fd := md.Fields().ByNumber(9); fd != nil && (!fd.HasDefault() || fd.Default().String() != "hello, \"world!\"\n") {
		c.PropFail("C46", "aberrant message: default derived wrongly", "opt_string")
	}
	md3 := legacyV2(new(LegacyAb3Message)).ProtoReflect().Descriptor()
	check("proto3", md3, true, []want{
		{1, "f_bool", protoreflect.BoolKind, opt, false, false},
		{2, "f_int32", protoreflect.Int32Kind, opt, false, false},
		{3, "f_sint64", protoreflect.Sint64Kind, opt, false, false},
		{4, "f_fixed32", protoreflect.Fixed32Kind, opt, false, false},
		{5, "f_float", protoreflect.FloatKind, opt, false, false},
		{6, "f_double", protoreflect.DoubleKind, opt, false, false},
		{7, "f_string", protoreflect.StringKind, opt, false, false},
		{8, "f_bytes", protoreflect.BytesKind, opt, false, false},
		{9, "f_enum", protoreflect.EnumKind, opt, false, false},
		{10, "f_message", protoreflect.MessageKind, opt, false, false},
		{11, "rep_int32", protoreflect.Int32Kind, rep, true, false},
		{12, "rep_string", protoreflect.StringKind, rep, false, false},
		{13, "rep_message", protoreflect.MessageKind, rep, false, false},
		{14, "map_u32_bool", protoreflect.MessageKind, rep, false, false},
		{15, "rep_unpacked", protoreflect.Int64Kind, rep, false, false},
	})
	// the derived descriptor survives a trip through descriptorpb (it is self-consistent)
	for _, d := range []protoreflect.MessageDescriptor{md, md3} {
		dp := protodesc.ToDescriptorProto(d)
		if dp.GetName() != string(d.Name()) || len(dp.GetField()) != d.Fields().Len() {
			c.PropFail("C46", "aberrant descriptor does not convert to a DescriptorProto", string(d.FullName()))
		}
	}
}

// ---------------------------------------------------------------- API paths

func legacyAPIs(c *Ctx, g *legacyGen) {
	defer func() {
		if r := recover(); r != nil {
			c.PropFail("C46", fmt.Sprintf("panic in a wrapping API: %v", r), g.name)
		}
	}()
	m := g.newMsg()
	v2a := protoimpl.X.ProtoMessageV2Of(m)
	v2b := protoadapt.MessageV2Of(m.(protoadapt.MessageV1))
	if v2a.ProtoReflect().Descriptor() != v2b.ProtoReflect().Descriptor() {
		c.PropFail("C46", "protoadapt.MessageV2Of and protoimpl.X.ProtoMessageV2Of give different descriptors", g.name)
	}
	if v1 := protoadapt.MessageV1Of(v2a); reflect.TypeOf(v1) != reflect.TypeOf(m) {
		c.PropFail("C46", "MessageV1Of(MessageV2Of(m)) is not the original type", g.name)
	}
	if v1 := protoimpl.X.ProtoMessageV1Of(v2a); reflect.TypeOf(v1) != reflect.TypeOf(m) {
		c.PropFail("C46", "ProtoMessageV1Of(ProtoMessageV2Of(m)) is not the original type", g.name)
	}
	if protoimpl.X.MessageDescriptorOf(m) != g.md {
		c.PropFail("C46", "MessageDescriptorOf is not stable", g.name)
	}
	mt := protoimpl.X.MessageTypeOf(m)
	if mt.Descriptor() != g.md || reflect.TypeOf(mt.New().Interface()) != reflect.TypeOf(v2a) {
		c.PropFail("C46", "MessageTypeOf gives a different type", g.name)
	}
	// the descriptor loaded from the gzip-compressed bytes describes the same file as the registered one
	// (two separate builds of the same raw descriptor: equal content, not the same object)
	fd := g.md.ParentFile()
	if rfd, err := protoregistry.GlobalFiles.FindFileByPath(fd.Path()); err == nil && // (the 2016 generations do not register their file)
		!proto.Equal(protodesc.ToFileDescriptorProto(rfd), protodesc.ToFileDescriptorProto(fd)) {
		c.PropFail("C46", "legacy file descriptor differs from the registered one", g.name, fd.Path())
	}
	// legacy enums (legacy_enum.go, legacy_export.go): the Go enum types of the struct fields
	mt0 := reflect.TypeOf(m).Elem()
	for i := 0; i < mt0.NumField(); i++ {
		sf := mt0.Field(i)
		tag := sf.Tag.Get("protobuf")
		if !strings.Contains(tag, "enum=") || sf.Type.Kind() == reflect.Map {
			continue
		}
		et := sf.Type
		for et.Kind() == reflect.Ptr || et.Kind() == reflect.Slice {
			et = et.Elem()
		}
		if et.Kind() != reflect.Int32 {
			continue
		}
		fdesc := ptag.Unmarshal(tag, et, legacyAnyEnumValues{})
		want := g.md.Fields().ByNumber(fdesc.Number())
		if want == nil || want.Enum() == nil {
			c.PropFail("C46", "struct field with enum= tag has no enum field in the descriptor", g.name, sf.Name)
			continue
		}
		vs := want.Enum().Values()
		ev := reflect.New(et).Elem()
		ev.SetInt(int64(vs.Get(vs.Len() - 1).Number()))
		e := ev.Interface()
		ed := protoimpl.X.EnumDescriptorOf(e)
		if ed.FullName() != want.Enum().FullName() || ed.Values().Len() != vs.Len() {
			c.PropFail("C46", "EnumDescriptorOf(legacy enum) differs from the field's enum", g.name, sf.Name)
		}
		pe := protoimpl.X.EnumOf(e)
		if pe.Number() != vs.Get(vs.Len()-1).Number() || pe.Descriptor() != ed || protoimpl.X.EnumTypeOf(e).Descriptor() != ed {
			c.PropFail("C46", "EnumOf / EnumTypeOf(legacy enum) inconsistent", g.name, sf.Name)
		}
		if got := protoimpl.X.EnumTypeOf(e).New(pe.Number()); got.Number() != pe.Number() || got.Descriptor() != ed {
			c.PropFail("C46", "EnumTypeOf(legacy enum).New differs", g.name, sf.Name)
		}
		last := vs.Get(vs.Len() - 1)
		if str := protoimpl.X.EnumStringOf(ed, last.Number()); str != string(last.Name()) {
			c.PropFail("C46", "EnumStringOf(legacy enum) differs from the value name", g.name, sf.Name)
		}
		if n, err := protoimpl.X.UnmarshalJSONEnum(ed, []byte(strconv.Quote(string(last.Name())))); err != nil || n != last.Number() {
			c.PropFail("C46", "UnmarshalJSONEnum by name", g.name, sf.Name)
		}
		if n, err := protoimpl.X.UnmarshalJSONEnum(ed, []byte(strconv.Itoa(int(last.Number())))); err != nil || n != last.Number() {
			c.PropFail("C46", "UnmarshalJSONEnum by number", g.name, sf.Name)
		}
		if _, err := protoimpl.X.UnmarshalJSONEnum(ed, []byte(`"NO_SUCH_VALUE"`)); err == nil {
			c.PropFail("C46", "UnmarshalJSONEnum accepts an unknown name", g.name, sf.Name)
		}
		// the enum= name in the tag is the legacy enum name of the descriptor
		if i := strings.Index(tag, "enum="); i >= 0 {
			name := tag[i+5:]
			if j := strings.IndexByte(name, ','); j >= 0 {
				name = name[:j]
			}
			if got := protoimpl.X.LegacyEnumName(ed); got != name {
				c.PropFail("C46", "LegacyEnumName differs from the enum= name in the generated tag", g.name, name, got)
			}
		}
		c.Stat("legacy-enum")
	}
	// CompressGZIP (used by newer generated code to embed descriptors) inflates to the input
	raw, _ := proto.Marshal(protodesc.ToFileDescriptorProto(fd))
	if zr, err := gzip.NewReader(bytes.NewReader(protoimpl.X.CompressGZIP(raw))); err != nil {
		c.PropFail("C46", "CompressGZIP output is not gzip", g.name)
	} else if back, err := io.ReadAll(zr); err != nil || !bytes.Equal(back, raw) {
		c.PropFail("C46", "CompressGZIP output does not inflate to its input", g.name)
	}
	// a round trip of the file through descriptorpb gives an equal schema: dynamicpb on the
	// rebuilt descriptor produces the same bytes (done per content in legacyRebuiltPair)
	c.Stat("apis")
}

var legacyRebuilt = map[string]protoreflect.MessageDescriptor{}

// the same content in a dynamicpb message over an independently rebuilt copy of the schema
func legacyRebuiltPair(c *Ctx, g *legacyGen, seed uint64) {
	defer func() {
		if r := recover(); r != nil {
			c.PropFail("C46", fmt.Sprintf("panic (rebuilt schema): %v", r), g.name, HexN(seed))
		}
	}()
	rmd := legacyRebuilt[g.name]
	if rmd == nil {
		fdp := protodesc.ToFileDescriptorProto(g.md.ParentFile())
		fd, err := protodesc.NewFile(fdp, protoregistry.GlobalFiles)
		if err != nil {
			c.PropFail("C46", "the legacy file descriptor does not rebuild through descriptorpb: "+err.Error(), g.name)
			return
		}
		rmd = fd.Messages().ByName(g.md.Name())
		legacyRebuilt[g.name] = rmd
	}
	a := legacyV2(g.newMsg())
	b := dynamicpb.NewMessage(rmd)
	save := c.rng
	c.rng = seed
	legacyFill(c, a.ProtoReflect(), 2, nil)
	c.rng = seed
	legacyFill(c, b, 2, nil)
	c.rng = save
	oa, ob := legacyObserve(a), legacyObserve(b)
	if d := legacyDiff(oa, ob); d != "" {
		c.PropFail("C46", "legacy message and dynamicpb over the rebuilt schema differ in "+d, g.name, HexN(seed))
		return
	}
	c.Stat("rebuilt:" + g.name)
}

func famLegacy(c *Ctx) {
	legacySetup()
	for _, g := range legacyGens {
		legacyAPIs(c, g)
		legacyShadowDescriptors(c, g)
	}
	legacyAberrantDescriptors(c)
	legacyEmptyOneof(c)
	famLegacyTags(c)
	legacyXCorpus(c)
	legacyXLinkedCorpus(c)
	for i := 0; i < c.N; i++ {
		g := legacyGens[i%len(legacyGens)]
		seed := c.U64()
		switch c.Intn(10) {
		case 0:
			legacyShadowPair(c, g, seed)
		case 1:
			legacyAberrantPairs(c, seed)
		case 2:
			legacyUnknownPair(c, g)
		case 3:
			legacyRebuiltPair(c, g, seed)
		case 4:
			legacyXRandom(c, seed)
		case 5:
			legacyXLinkedRandom(c, seed)
		default:
			legacyPair(c, g.name, func() proto.Message { return legacyV2(g.newMsg()) }, g.xts, seed)
		}
	}
}
