//go:build verif

package main

// Shared helpers of the format round-trip families jsonrt (C20) and textrt (C24).  Prefix: rt.
//
//	rtTargets(c)                  corpus types (two flavours each) + random schemas
//	rtFill(c, m, depth, o)        random population, aware of the well-known types (mostly
//	                              representable content, a controlled share of unrepresentable content)
//	rtBinaryCopyStripped(m)       expected value of a round trip: binary copy with unknown fields removed
//	                              through reflection (never proto.Clone / proto.Merge)
//	rtSameBits(a, b)              proto.Equal refined to bit-for-bit floats (all NaNs equal)
//	rtJSONUnrep(m) / rtTextUnrep(m)   independent classification of content the format cannot represent
//	rtSchemaTokens / rtNamesTokens    schema + name tables for the model (format: ocaml/fam_rt.ml)

import (
	"fmt"
	"math"
	"sort"
	"strconv"
	"strings"
	"unicode/utf8"

	"google.golang.org/protobuf/proto"
	"google.golang.org/protobuf/reflect/protoreflect"
	"google.golang.org/protobuf/reflect/protoregistry"
	"google.golang.org/protobuf/types/dynamicpb"
)

// ---------------------------------------------------------------- targets

type rtTarget struct {
	name string // flavour name: gen | dyn | rnd
	md   protoreflect.MessageDescriptor
	new  func() protoreflect.Message
	id   string // schema id once emitted
}

var rtHeavy = map[string]bool{
	"goproto.proto.test.TestAllTypes": true, "goproto.proto.test3.TestAllTypes": true,
	"goproto.proto.testeditions.TestAllTypes": true, "goproto.proto.test.TestAllExtensions": true,
	"goproto.proto.testeditions.TestAllExtensions": true,
	"pb2.KnownTypes":                               true, "pb2.Scalars": true, "pb2.Nests": true, "pb2.Maps": true, "pb2.Enums": true,
	"pb2.Extensions": true, "pb2.Repeats": true, "pb2.Requireds": true, "pb2.IndirectRequired": true,
	"pb3.Scalars": true, "pb3.Maps": true, "pb3.Nests": true, "pb3.Oneofs": true, "pb3.Proto3Optional": true, "pb3.Enums": true,
	"pbeditions.KnownTypes": true, "pbeditions.Scalars": true, "pbeditions.Nests": true,
	"protobuf_test_messages.proto3.TestAllTypesProto3":      true,
	"protobuf_test_messages.proto2.TestAllTypesProto2":      true,
	"protobuf_test_messages.editions.TestAllTypesEdition2023": true,
	"google.protobuf.Struct": true, "google.protobuf.Value": true, "google.protobuf.Any": true,
	"google.protobuf.Timestamp": true, "google.protobuf.Duration": true, "google.protobuf.FieldMask": true,
	"google.protobuf.ListValue": true, "google.protobuf.Int64Value": true, "google.protobuf.BytesValue": true,
	"google.protobuf.Empty": true, "google.protobuf.FloatValue": true, "google.protobuf.StringValue": true,
	"google.protobuf.Type": true, "google.protobuf.Api": true,
}

// rtWktTargets: corpus types dominated by well-known-type fields (extra weight).
var rtWktTargets = map[string]bool{
	"pb2.KnownTypes": true, "pbeditions.KnownTypes": true,
	"protobuf_test_messages.proto3.TestAllTypesProto3":        true,
	"protobuf_test_messages.editions.TestAllTypesEdition2023": true,
	"google.protobuf.Struct": true, "google.protobuf.Value": true, "google.protobuf.Any": true,
	"google.protobuf.Timestamp": true, "google.protobuf.Duration": true, "google.protobuf.FieldMask": true,
	"google.protobuf.ListValue": true, "google.protobuf.Option": true, "verif.KW": true,
}

// rtPick chooses the next target: random schemas, well-known-type heavy types, all-kinds types, any type.
func rtPick(c *Ctx, all, heavy, rnd []*rtTarget) *rtTarget {
	var wkt []*rtTarget
	for _, t := range heavy {
		if rtWktTargets[string(t.md.FullName())] {
			wkt = append(wkt, t)
		}
	}
	switch k := c.Intn(8); {
	case k < 2 && len(rnd) > 0:
		return rnd[c.Intn(len(rnd))]
	case k < 4 && len(wkt) > 0:
		return wkt[c.Intn(len(wkt))]
	case k < 7 && len(heavy) > 0:
		return heavy[c.Intn(len(heavy))]
	}
	return all[c.Intn(len(all))]
}

// rtTargets returns (all corpus targets, the heavy subset, random-schema targets).
func rtTargets(c *Ctx, nrnd int) (all, heavy, rnd []*rtTarget) {
	for _, mt := range msgAllTypes() {
		mt := mt
		md := mt.Descriptor()
		g := &rtTarget{name: "gen", md: md, new: func() protoreflect.Message { return mt.New() }}
		d := &rtTarget{name: "dyn", md: md, new: func() protoreflect.Message { return dynamicpb.NewMessage(md) }}
		all = append(all, g, d)
		if rtHeavy[string(md.FullName())] || rtWktTargets[string(md.FullName())] {
			heavy = append(heavy, g, d)
		}
	}
	for _, md := range msgRandomSchemas(c, nrnd) {
		md := md
		rnd = append(rnd, &rtTarget{name: "rnd", md: md, new: func() protoreflect.Message { return dynamicpb.NewMessage(md) }})
	}
	return
}

// ---------------------------------------------------------------- well-known types

const rtWktPkg = "google.protobuf."

// rtWkt returns the short name of md when md is one of the types with a special JSON mapping
// (Empty included, although its mapping is the ordinary one), "" otherwise.
func rtWkt(md protoreflect.MessageDescriptor) string {
	fn := string(md.FullName())
	if !strings.HasPrefix(fn, rtWktPkg) {
		return ""
	}
	switch s := fn[len(rtWktPkg):]; s {
	case "Any", "Timestamp", "Duration", "BoolValue", "Int32Value", "Int64Value", "UInt32Value", "UInt64Value",
		"FloatValue", "DoubleValue", "StringValue", "BytesValue", "Struct", "ListValue", "Value", "FieldMask", "Empty":
		return s
	}
	return ""
}

// rtWktCode: the code of a well-known type in the name tables (0 = ordinary message).
func rtWktCode(md protoreflect.MessageDescriptor) int {
	switch rtWkt(md) {
	case "Any":
		return 1
	case "Timestamp":
		return 2
	case "Duration":
		return 3
	case "BoolValue", "Int32Value", "Int64Value", "UInt32Value", "UInt64Value", "FloatValue", "DoubleValue", "StringValue", "BytesValue":
		return 4
	case "Struct":
		return 5
	case "ListValue":
		return 6
	case "Value":
		return 7
	case "FieldMask":
		return 8
	case "Empty":
		return 9
	}
	return 0
}

const (
	rtMaxDurSecs = 315576000000
	rtMaxTsSecs  = 253402300799
	rtMinTsSecs  = -62135596800
)

func rtField(m protoreflect.Message, num int) protoreflect.FieldDescriptor {
	return m.Descriptor().Fields().ByNumber(protoreflect.FieldNumber(num))
}

type rtFillOpts struct {
	budget  *int
	unrep   bool // allow content the JSON/text mapping cannot represent
	unknown bool // add unknown fields
	dense   bool
	anyPool []protoreflect.MessageType
}

var rtMaskGood = []string{"foo", "foo_bar", "foo.bar_baz", "a.b.c", "f1", "user.display_name", "x_y_z", "a1.b2", "f_a1"}
var rtMaskBad = []string{"fooBar", "foo__bar", "foo_Bar", "foo_3", "foo_", "", "foo bar", "1a", "a..b", "_1", "Foo", "foo_.bar"}

func rtPickSecs(c *Ctx, lo, hi int64) int64 {
	switch c.Intn(8) {
	case 0:
		return lo
	case 1:
		return hi
	case 2:
		return 0
	case 3:
		return int64(c.Intn(5)) - 2
	case 4:
		return lo + int64(c.U64()%uint64(hi-lo+1))
	default:
		return int64(c.Intn(4000000000)) - 2000000000
	}
}

func rtPickNanos(c *Ctx) int32 {
	switch c.Intn(6) {
	case 0:
		return 0
	case 1:
		return int32(c.Intn(1000)) * 1000000
	case 2:
		return int32(c.Intn(1000000)) * 1000
	case 3:
		return 999999999
	case 4:
		return []int32{1, 10, 100, 1000, 100000000, 500000000, 999999000, 999000000}[c.Intn(8)]
	default:
		return int32(c.Intn(1000000000))
	}
}

// rtFillValue fills a google.protobuf.Value.
func rtFillValue(c *Ctx, m protoreflect.Message, depth int, o rtFillOpts) {
	*o.budget--
	k := c.Intn(7)
	if depth <= 0 && k >= 4 {
		k = c.Intn(4)
	}
	if o.unrep && c.Intn(12) == 0 {
		switch c.Intn(3) {
		case 0:
			return // no kind set
		case 1:
			m.Set(rtField(m, 2), protoreflect.ValueOfFloat64([]float64{math.NaN(), math.Inf(1), math.Inf(-1)}[c.Intn(3)]))
			return
		default:
			m.Set(rtField(m, 1), protoreflect.ValueOfEnum(protoreflect.EnumNumber(1+c.Intn(3))))
			return
		}
	}
	switch k {
	case 0:
		m.Set(rtField(m, 1), protoreflect.ValueOfEnum(0))
	case 1:
		var f float64
		for {
			f = math.Float64frombits(msgU64(c))
			if c.Intn(3) == 0 {
				f = float64(int64(c.Intn(2001)) - 1000)
			}
			if !math.IsNaN(f) && !math.IsInf(f, 0) {
				break
			}
		}
		m.Set(rtField(m, 2), protoreflect.ValueOfFloat64(f))
	case 2:
		s := msgStrings[c.Intn(len(msgStrings))]
		if c.Intn(6) == 0 {
			s = []string{"NaN", "Infinity", "-Infinity", "1", "null", "true", "{}"}[c.Intn(7)]
		}
		if c.Intn(3) == 0 {
			s = rtString(c)
		}
		if o.unrep && c.Intn(15) == 0 {
			s = msgBadStrings[c.Intn(len(msgBadStrings))]
		}
		m.Set(rtField(m, 3), protoreflect.ValueOfString(s))
	case 3:
		m.Set(rtField(m, 4), protoreflect.ValueOfBool(c.Bool()))
	case 4, 5:
		rtFillStruct(c, m.Mutable(rtField(m, 5)).Message(), depth-1, o)
	default:
		rtFillListValue(c, m.Mutable(rtField(m, 6)).Message(), depth-1, o)
	}
}

func rtFillStruct(c *Ctx, m protoreflect.Message, depth int, o rtFillOpts) {
	fd := rtField(m, 1)
	n := c.Intn(4)
	if n == 0 {
		return
	}
	mp := m.Mutable(fd).Map()
	for i := 0; i < n && *o.budget > 0; i++ {
		key := []string{"", "a", "k" + strconv.Itoa(c.Intn(10)), "@type", "value", "é\"\\", " "}[c.Intn(7)]
		if o.unrep && c.Intn(20) == 0 {
			key = msgBadStrings[c.Intn(len(msgBadStrings))]
		}
		v := mp.NewValue()
		rtFillValue(c, v.Message(), depth, o)
		mp.Set(protoreflect.ValueOfString(key).MapKey(), v)
	}
}

func rtFillListValue(c *Ctx, m protoreflect.Message, depth int, o rtFillOpts) {
	fd := rtField(m, 1)
	n := c.Intn(4)
	if n == 0 {
		return
	}
	l := m.Mutable(fd).List()
	for i := 0; i < n && *o.budget > 0; i++ {
		v := l.NewElement()
		rtFillValue(c, v.Message(), depth, o)
		l.Append(v)
	}
}

// rtAnyPool: registered (global) message types that may be embedded in an Any.
func rtAnyPool() []protoreflect.MessageType {
	var out []protoreflect.MessageType
	for _, n := range []string{
		"pb2.Scalars", "pb3.Scalars", "google.protobuf.StringValue", "google.protobuf.Struct", "pb2.Nested", "pb3.Maps",
		"pb2.Nested", "pb2.Scalars", "pb2.Enums", "pb2.KnownTypes", "pb2.PartialRequired", "pb2.Maps", "pb2.Extensions",
		"pb3.Scalars", "pb3.Nests", "pb3.Maps", "pb3.Oneofs",
		"goproto.proto.test.TestAllTypes.NestedMessage", "goproto.proto.test3.ForeignMessage",
		"google.protobuf.Duration", "google.protobuf.Timestamp", "google.protobuf.Struct", "google.protobuf.Value",
		"google.protobuf.ListValue", "google.protobuf.Int64Value", "google.protobuf.StringValue", "google.protobuf.BoolValue",
		"google.protobuf.BytesValue", "google.protobuf.DoubleValue", "google.protobuf.FloatValue", "google.protobuf.UInt64Value",
		"google.protobuf.Empty", "google.protobuf.FieldMask", "google.protobuf.Any",
	} {
		if mt, err := protoregistry.GlobalTypes.FindMessageByName(protoreflect.FullName(n)); err == nil {
			out = append(out, mt)
		}
	}
	return out
}

var rtAnyPrefixes = []string{"type.googleapis.com/", "type.googleapis.com/", "", "/", "example.com/x/", "a.b-c_d~e/"}

func rtFillAny(c *Ctx, m protoreflect.Message, depth int, o rtFillOpts) {
	*o.budget--
	if c.Intn(12) == 0 {
		return // empty Any
	}
	if o.unrep && c.Intn(4) == 0 {
		switch c.Intn(4) {
		case 0: // value without type_url
			m.Set(rtField(m, 2), protoreflect.ValueOfBytes([]byte{8, 1}))
		case 1: // unresolvable
			m.Set(rtField(m, 1), protoreflect.ValueOfString("type.googleapis.com/verif.NoSuchType"))
			if c.Bool() {
				m.Set(rtField(m, 2), protoreflect.ValueOfBytes([]byte{8, 1}))
			}
		case 2: // malformed bytes
			m.Set(rtField(m, 1), protoreflect.ValueOfString("type.googleapis.com/pb2.Nested"))
			m.Set(rtField(m, 2), protoreflect.ValueOfBytes([]byte{0x0a, 0x05, 1}))
		default: // a name that is not a message
			m.Set(rtField(m, 1), protoreflect.ValueOfString("type.googleapis.com/pb2.Enum"))
		}
		return
	}
	if len(o.anyPool) == 0 {
		return
	}
	mt := o.anyPool[c.Intn(len(o.anyPool))]
	em := mt.New()
	{
		o2 := o
		o2.unknown = false
		o2.dense = c.Bool()
		d := depth - 1
		if d < 1 {
			d = 1
		}
		if *o2.budget < 12 {
			extra := 12
			o2.budget = &extra
		}
		rtFill(c, em, d, o2)
	}
	b, err := proto.MarshalOptions{AllowPartial: true, Deterministic: true}.Marshal(em.Interface())
	if err != nil {
		return
	}
	prefix := rtAnyPrefixes[c.Intn(len(rtAnyPrefixes))]
	if o.unrep && c.Intn(8) == 0 {
		// fine for JSON; not read back by the text lexer (finding FWD1)
		prefix = []string{"https://example.com/", "a b/", "x:y/", "caf\u00e9/", "a%zz/", "a#b/"}[c.Intn(6)]
	}
	m.Set(rtField(m, 1), protoreflect.ValueOfString(prefix+string(mt.Descriptor().FullName())))
	if len(b) > 0 {
		m.Set(rtField(m, 2), protoreflect.ValueOfBytes(b))
	}
}

// rtFillWkt fills m when it is a well-known type with constrained content; reports whether it did.
func rtFillWkt(c *Ctx, m protoreflect.Message, depth int, o rtFillOpts) bool {
	switch rtWkt(m.Descriptor()) {
	case "Timestamp":
		secs, nanos := rtPickSecs(c, rtMinTsSecs, rtMaxTsSecs), rtPickNanos(c)
		if o.unrep && c.Intn(6) == 0 {
			switch c.Intn(4) {
			case 0:
				secs = rtMaxTsSecs + 1 + int64(c.Intn(3))
			case 1:
				secs = rtMinTsSecs - 1 - int64(c.Intn(3))
			case 2:
				nanos = -1 - int32(c.Intn(5))
			default:
				nanos = 1000000000 + int32(c.Intn(5))
			}
		} else if secs < rtMinTsSecs || secs > rtMaxTsSecs {
			secs = 0
		}
		if secs != 0 {
			m.Set(rtField(m, 1), protoreflect.ValueOfInt64(secs))
		}
		if nanos != 0 {
			m.Set(rtField(m, 2), protoreflect.ValueOfInt32(nanos))
		}
	case "Duration":
		secs, nanos := rtPickSecs(c, -rtMaxDurSecs, rtMaxDurSecs), rtPickNanos(c)
		if secs < 0 || (secs == 0 && c.Bool()) {
			nanos = -nanos
		}
		if o.unrep && c.Intn(6) == 0 {
			switch c.Intn(4) {
			case 0:
				secs = rtMaxDurSecs + 1 + int64(c.Intn(3))
			case 1:
				secs = -rtMaxDurSecs - 1 - int64(c.Intn(3))
			case 2:
				nanos = []int32{1000000000, -1000000000, math.MaxInt32, math.MinInt32}[c.Intn(4)]
			default:
				secs, nanos = 1+int64(c.Intn(5)), -1-int32(c.Intn(5))
				if c.Bool() {
					secs, nanos = -secs, -nanos
				}
			}
		} else if secs < -rtMaxDurSecs || secs > rtMaxDurSecs {
			secs = 0
		}
		if secs != 0 {
			m.Set(rtField(m, 1), protoreflect.ValueOfInt64(secs))
		}
		if nanos != 0 {
			m.Set(rtField(m, 2), protoreflect.ValueOfInt32(nanos))
		}
	case "FieldMask":
		n := c.Intn(4)
		if n > 0 {
			l := m.Mutable(rtField(m, 1)).List()
			for i := 0; i < n; i++ {
				s := rtMaskGood[c.Intn(len(rtMaskGood))]
				if o.unrep && c.Intn(6) == 0 {
					s = rtMaskBad[c.Intn(len(rtMaskBad))]
				}
				l.Append(protoreflect.ValueOfString(s))
			}
		}
	case "Value":
		rtFillValue(c, m, depth, o)
	case "Struct":
		rtFillStruct(c, m, depth, o)
	case "ListValue":
		rtFillListValue(c, m, depth, o)
	case "Any":
		rtFillAny(c, m, depth, o)
	default:
		return false
	}
	if o.unknown && c.Intn(6) == 0 {
		m.SetUnknown(msgGenUnknown(c, m.Descriptor()))
	}
	return true
}

// rtEscPieces: characters the JSON / text encoders escape (quote, backslash, control characters, DEL),
// characters other JSON encoders escape (< > & U+2028 U+2029, /), and multi-byte runes to put next to them.
var rtEscPieces = []string{"\"", "\\", "\n", "\t", "\r", "\b", "\f", "\x00", "\x01", "\x1f", "\x7f", "<", ">", "&", "/", "'",
	"\u2028", "\u2029", "\u0080", "\u009f", "é", "日本", "\U0001F600", "\ufffd", "a", "Z", " ", "\\u0041", "\\\"", "\\n"}

// rtString: a valid UTF-8 string that (usually) needs escaping, with multi-byte runes next to the escapes.
func rtString(c *Ctx) string {
	var b []byte
	for k := 1 + c.Intn(5); k > 0; k-- {
		b = append(b, rtEscPieces[c.Intn(len(rtEscPieces))]...)
	}
	return string(b)
}

// rtNeedsEscape: the JSON encoder writes s with at least one escape sequence.
func rtNeedsEscape(s string) bool {
	for i := 0; i < len(s); i++ {
		if s[i] < 0x20 || s[i] == '"' || s[i] == '\\' {
			return true
		}
	}
	return false
}

// rtCountEscaped counts the strings (field values, list elements, map keys and values) of m and of
// everything reachable from it, inside Any values too, that are written with an escape.
// inAny: only those inside the content of an Any.
func rtCountEscaped(m protoreflect.Message, inside bool) (inAny int) {
	rtWalk(m, func(x protoreflect.Message) bool {
		if rtWkt(x.Descriptor()) == "Any" && x.Has(rtField(x, 1)) {
			if em, _ := rtResolveAny(x); em != nil {
				inAny += rtCountEscaped(em, true)
			}
			return false
		}
		if !inside {
			return true
		}
		x.Range(func(fd protoreflect.FieldDescriptor, v protoreflect.Value) bool {
			chk := func(fd protoreflect.FieldDescriptor, v protoreflect.Value) {
				if fd.Kind() == protoreflect.StringKind && rtNeedsEscape(v.String()) {
					inAny++
				}
			}
			switch {
			case fd.IsMap():
				v.Map().Range(func(k protoreflect.MapKey, mv protoreflect.Value) bool {
					chk(fd.MapKey(), k.Value())
					chk(fd.MapValue(), mv)
					return true
				})
			case fd.IsList():
				for i := 0; i < v.List().Len(); i++ {
					chk(fd, v.List().Get(i))
				}
			default:
				chk(fd, v)
			}
			return true
		})
		return true
	})
	return
}

func rtScalar(c *Ctx, fd protoreflect.FieldDescriptor, o rtFillOpts) protoreflect.Value {
	if fd.Kind() == protoreflect.EnumKind && fd.Enum().FullName() == "google.protobuf.NullValue" && !(o.unrep && c.Intn(10) == 0) {
		return protoreflect.ValueOfEnum(0)
	}
	if fd.Kind() == protoreflect.StringKind && c.Intn(2) == 0 {
		return protoreflect.ValueOfString(rtString(c))
	}
	if fd.Kind() == protoreflect.StringKind && !o.unrep {
		return msgScalar(c, fd, false)
	}
	return msgScalar(c, fd, c.Intn(2) == 0)
}

func rtFillSub(c *Ctx, sub protoreflect.Message, depth int, o rtFillOpts) {
	if rtWkt(sub.Descriptor()) != "" && rtWkt(sub.Descriptor()) != "Empty" {
		rtFill(c, sub, depth, o) // constrained content even at depth 0
		return
	}
	if depth > 0 {
		rtFill(c, sub, depth-1, o)
	}
}

func rtFillField(c *Ctx, m protoreflect.Message, fd protoreflect.FieldDescriptor, depth int, o rtFillOpts) {
	if *o.budget <= 0 {
		return
	}
	*o.budget--
	switch {
	case fd.IsMap():
		mp := m.Mutable(fd).Map()
		n := msgCount(c)
		if n > 12 {
			n = 12
		}
		*o.budget -= n
		for j := 0; j < n; j++ {
			k := rtScalar(c, fd.MapKey(), o).MapKey()
			if fd.MapValue().Message() != nil {
				v := mp.NewValue()
				rtFillSub(c, v.Message(), depth, o)
				mp.Set(k, v)
			} else {
				mp.Set(k, rtScalar(c, fd.MapValue(), o))
			}
		}
	case fd.IsList():
		var l protoreflect.List
		if fd.IsExtension() {
			l = m.NewField(fd).List()
		} else {
			l = m.Mutable(fd).List()
		}
		n := msgCount(c)
		if n > 12 {
			n = 12
		}
		if fd.Message() != nil && n > 3 {
			n = 3
		}
		*o.budget -= n
		for j := 0; j < n; j++ {
			if fd.Message() != nil {
				v := l.NewElement()
				rtFillSub(c, v.Message(), depth, o)
				l.Append(v)
			} else {
				l.Append(rtScalar(c, fd, o))
			}
		}
		if fd.IsExtension() && l.Len() > 0 {
			m.Set(fd, protoreflect.ValueOfList(l))
		}
	case fd.Message() != nil:
		if fd.IsExtension() {
			v := m.NewField(fd)
			rtFillSub(c, v.Message(), depth, o)
			m.Set(fd, v)
		} else {
			rtFillSub(c, m.Mutable(fd).Message(), depth, o)
		}
	default:
		m.Set(fd, rtScalar(c, fd, o))
	}
}

// rtFill populates m with random content.
func rtFill(c *Ctx, m protoreflect.Message, depth int, o rtFillOpts) {
	if rtFillWkt(c, m, depth, o) {
		return
	}
	md := m.Descriptor()
	fds := md.Fields()
	p := 3
	switch c.Intn(4) {
	case 0:
		p = 2
	case 1:
		p = 6
	}
	if fds.Len() > 40 {
		p *= 3
	}
	for i := 0; i < fds.Len(); i++ {
		if !o.dense && c.Intn(p) != 0 {
			continue
		}
		rtFillField(c, m, fds.Get(i), depth, o)
	}
	for _, xd := range msgExtensionsOf(md) {
		if c.Intn(p+1) != 0 {
			continue
		}
		rtFillField(c, m, xd, depth, o)
	}
	if o.unknown && c.Intn(4) == 0 {
		m.SetUnknown(msgGenUnknown(c, md))
	}
}

// ---------------------------------------------------------------- expected values

// rtStripUnknown removes unknown fields everywhere (not inside Any.value bytes).
func rtStripUnknown(m protoreflect.Message) {
	if len(m.GetUnknown()) > 0 {
		m.SetUnknown(nil)
	}
	m.Range(func(fd protoreflect.FieldDescriptor, v protoreflect.Value) bool {
		switch {
		case fd.IsMap():
			if fd.MapValue().Message() != nil {
				v.Map().Range(func(_ protoreflect.MapKey, mv protoreflect.Value) bool {
					rtStripUnknown(mv.Message())
					return true
				})
			}
		case fd.IsList():
			if fd.Message() != nil {
				l := v.List()
				for i := 0; i < l.Len(); i++ {
					rtStripUnknown(l.Get(i).Message())
				}
			}
		case fd.Message() != nil:
			rtStripUnknown(v.Message())
		}
		return true
	})
}

// rtBinaryCopyStripped returns a binary copy of m (Marshal -> Unmarshal into a fresh message of
// the same flavour) with unknown fields removed.  nil when the content has no binary encoding
// (invalid UTF-8 in a validated string).
func rtBinaryCopyStripped(t *rtTarget, m protoreflect.Message) protoreflect.Message {
	b, err := proto.MarshalOptions{AllowPartial: true, Deterministic: true}.Marshal(m.Interface())
	if err != nil {
		return nil
	}
	m2 := t.new()
	if err := (proto.UnmarshalOptions{AllowPartial: true}).Unmarshal(b, m2.Interface()); err != nil {
		return nil
	}
	rtStripUnknown(m2)
	return m2
}

func rtSameScalarBits(fd protoreflect.FieldDescriptor, a, b protoreflect.Value) bool {
	switch fd.Kind() {
	case protoreflect.FloatKind:
		x, y := float32(a.Float()), float32(b.Float())
		if x != x && y != y {
			return true
		}
		return math.Float32bits(x) == math.Float32bits(y)
	case protoreflect.DoubleKind:
		x, y := a.Float(), b.Float()
		if x != x && y != y {
			return true
		}
		return math.Float64bits(x) == math.Float64bits(y)
	case protoreflect.BytesKind:
		return string(a.Bytes()) == string(b.Bytes())
	case protoreflect.MessageKind, protoreflect.GroupKind:
		return rtSameBits(a.Message(), b.Message())
	}
	return a.Interface() == b.Interface()
}

// rtSameBits: same populated fields, same values, floats compared by bit pattern (all NaNs equal),
// no unknown fields compared.
func rtSameBits(a, b protoreflect.Message) bool {
	ok := true
	n := 0
	a.Range(func(fd protoreflect.FieldDescriptor, va protoreflect.Value) bool {
		n++
		if !b.Has(fd) {
			ok = false
			return false
		}
		vb := b.Get(fd)
		switch {
		case fd.IsMap():
			ma, mb := va.Map(), vb.Map()
			if ma.Len() != mb.Len() {
				ok = false
				return false
			}
			ma.Range(func(k protoreflect.MapKey, x protoreflect.Value) bool {
				if !mb.Has(k) || !rtSameScalarBits(fd.MapValue(), x, mb.Get(k)) {
					ok = false
				}
				return ok
			})
		case fd.IsList():
			la, lb := va.List(), vb.List()
			if la.Len() != lb.Len() {
				ok = false
				return false
			}
			for i := 0; i < la.Len() && ok; i++ {
				ok = rtSameScalarBits(fd, la.Get(i), lb.Get(i))
			}
		default:
			ok = rtSameScalarBits(fd, va, vb)
		}
		return ok
	})
	if !ok {
		return false
	}
	nb := 0
	b.Range(func(protoreflect.FieldDescriptor, protoreflect.Value) bool { nb++; return true })
	return n == nb
}

// ---------------------------------------------------------------- unrepresentable content

// rtWalk calls f for m and every message value reachable from it through populated fields
// (not through Any.value); f returning false prunes the descent below that message.
func rtWalk(m protoreflect.Message, f func(protoreflect.Message) bool) {
	if !f(m) {
		return
	}
	m.Range(func(fd protoreflect.FieldDescriptor, v protoreflect.Value) bool {
		switch {
		case fd.IsMap():
			if fd.MapValue().Message() != nil {
				v.Map().Range(func(_ protoreflect.MapKey, mv protoreflect.Value) bool {
					rtWalk(mv.Message(), f)
					return true
				})
			}
		case fd.IsList():
			if fd.Message() != nil {
				l := v.List()
				for i := 0; i < l.Len(); i++ {
					rtWalk(l.Get(i).Message(), f)
				}
			}
		case fd.Message() != nil:
			rtWalk(v.Message(), f)
		}
		return true
	})
}

func rtMaskPathReversible(s string) bool {
	if !protoreflect.FullName(s).IsValid() {
		return false
	}
	for i := 0; i < len(s); i++ {
		ch := s[i]
		if ch >= 'A' && ch <= 'Z' {
			return false
		}
		if ch == '_' && (i+1 >= len(s) || s[i+1] < 'a' || s[i+1] > 'z') {
			return false
		}
	}
	return true
}

// rtResolveAny: the embedded message of an Any (nil, reason when it cannot be produced).
func rtResolveAny(m protoreflect.Message) (protoreflect.Message, string) {
	url := m.Get(rtField(m, 1)).String()
	name := url
	if i := strings.LastIndexByte(url, '/'); i >= 0 {
		name = url[i+1:]
	}
	mt, err := protoregistry.GlobalTypes.FindMessageByName(protoreflect.FullName(name))
	if err != nil {
		return nil, "any_unresolvable"
	}
	em := mt.New()
	if err := (proto.UnmarshalOptions{AllowPartial: true}).Unmarshal(m.Get(rtField(m, 2)).Bytes(), em.Interface()); err != nil {
		return nil, "any_malformed"
	}
	return em, ""
}

// rtJSONUnrep classifies content that the JSON mapping cannot represent ("" = representable).
// lossy is set for content that Marshal accepts but that cannot survive a round trip by the
// mapping's own definition (NullValue numbers other than 0; Any values that are not the canonical
// deterministic encoding of their content without unknown fields).
func rtJSONUnrep(m protoreflect.Message) (reason string, lossy string) {
	set := func(r string) {
		if reason == "" {
			reason = r
		}
	}
	rtWalk(m, func(x protoreflect.Message) bool {
		md := x.Descriptor()
		switch rtWkt(md) {
		case "Timestamp":
			s, n := x.Get(rtField(x, 1)).Int(), x.Get(rtField(x, 2)).Int()
			if s < rtMinTsSecs || s > rtMaxTsSecs || n < 0 || n > 999999999 {
				set("timestamp_range")
			}
			return false
		case "Duration":
			s, n := x.Get(rtField(x, 1)).Int(), x.Get(rtField(x, 2)).Int()
			if s < -rtMaxDurSecs || s > rtMaxDurSecs || n < -999999999 || n > 999999999 || (s > 0 && n < 0) || (s < 0 && n > 0) {
				set("duration_range")
			}
			return false
		case "FieldMask":
			l := x.Get(rtField(x, 1)).List()
			for i := 0; i < l.Len(); i++ {
				if !rtMaskPathReversible(l.Get(i).String()) {
					set("fieldmask_path")
				}
			}
			return false
		case "Value":
			n := 0
			x.Range(func(fd protoreflect.FieldDescriptor, v protoreflect.Value) bool {
				n++
				if fd.Number() == 2 && (math.IsNaN(v.Float()) || math.IsInf(v.Float(), 0)) {
					set("value_nonfinite")
				}
				if fd.Number() == 1 && v.Enum() != 0 {
					lossy = "nullvalue_nonzero"
				}
				if fd.Number() == 3 && !utf8.ValidString(v.String()) {
					set("utf8")
				}
				return true
			})
			if n == 0 {
				set("value_empty")
			}
			return true
		case "Any":
			hasT, hasV := x.Has(rtField(x, 1)), x.Has(rtField(x, 2))
			if !hasT {
				if hasV {
					set("any_no_type")
				}
				return false
			}
			if !utf8.ValidString(x.Get(rtField(x, 1)).String()) {
				set("utf8")
			}
			em, why := rtResolveAny(x)
			if em == nil {
				set(why)
				return false
			}
			r2, l2 := rtJSONUnrep(em)
			if r2 != "" {
				set(r2)
			}
			if l2 != "" {
				lossy = l2
			}
			if !rtAnyCanonical(x, em) {
				lossy = "any_noncanonical"
			}
			return false
		}
		x.Range(func(fd protoreflect.FieldDescriptor, v protoreflect.Value) bool {
			chk := func(fd protoreflect.FieldDescriptor, v protoreflect.Value) {
				switch fd.Kind() {
				case protoreflect.StringKind:
					if !utf8.ValidString(v.String()) {
						set("utf8")
					}
				case protoreflect.EnumKind:
					if fd.Enum().FullName() == "google.protobuf.NullValue" && v.Enum() != 0 {
						lossy = "nullvalue_nonzero"
					}
				}
			}
			switch {
			case fd.IsMap():
				v.Map().Range(func(k protoreflect.MapKey, mv protoreflect.Value) bool {
					chk(fd.MapKey(), k.Value())
					chk(fd.MapValue(), mv)
					return true
				})
			case fd.IsList():
				for i := 0; i < v.List().Len(); i++ {
					chk(fd, v.List().Get(i))
				}
			default:
				chk(fd, v)
			}
			return true
		})
		return true
	})
	return
}

// rtJSONErrClass projects a protojson.Marshal error to the class used by rtJSONUnrep.
func rtJSONErrClass(err error) string {
	s := err.Error()
	switch {
	case strings.Contains(s, "invalid UTF-8"):
		return "utf8"
	case strings.Contains(s, "google.protobuf.Timestamp"):
		return "timestamp_range"
	case strings.Contains(s, "google.protobuf.Duration"):
		return "duration_range"
	case strings.Contains(s, "google.protobuf.FieldMask"):
		return "fieldmask_path"
	case strings.Contains(s, "none of the oneof fields is set"):
		return "value_empty"
	case strings.Contains(s, "google.protobuf.Value.number_value"):
		return "value_nonfinite"
	case strings.Contains(s, "google.protobuf.Any: type_url is not set"), strings.Contains(s, "type_url is not set"):
		return "any_no_type"
	case strings.Contains(s, "unable to resolve"):
		return "any_unresolvable"
	case strings.Contains(s, "unable to unmarshal"):
		return "any_malformed"
	}
	return "other:" + s
}

// ---------------------------------------------------------------- schema + names for the model

// rtCollectRoots: type table for root md plus the types embedded in Any values of m.
func rtCollectTypes(md protoreflect.MessageDescriptor, extra []protoreflect.MessageDescriptor) (map[protoreflect.FullName]int, []protoreflect.MessageDescriptor) {
	idx := map[protoreflect.FullName]int{}
	var list []protoreflect.MessageDescriptor
	msgCollect(md, idx, &list)
	for _, e := range extra {
		msgCollect(e, idx, &list)
	}
	return idx, list
}

// rtSchemaTokens: the msg-family schema tokens (structure) followed by the name tables:
//
//	N <ntypes> then per type:  T <fullname> <wkt code> <nfields> then per field (same order as the
//	structure tokens: declared fields, then extensions by number):
//	   <textname> <jsonname> <inoneof 0/1> <enum index or -1>
//	then  E <nenums> and per enum:  <fullname> <isnull 0/1> <nvals> (<name> <number HexZ>)...
//
// names are x-hex tokens.
func rtSchemaTokens(idx map[protoreflect.FullName]int, list []protoreflect.MessageDescriptor) []string {
	toks := []string{strconv.Itoa(len(list))}
	for _, d := range list {
		fds := d.Fields()
		xs := msgExtensionsOf(d)
		toks = append(toks, "M"+strconv.Itoa(fds.Len()+len(xs)))
		for i := 0; i < fds.Len(); i++ {
			toks = append(toks, msgFieldToken(fds.Get(i), idx))
		}
		for _, xd := range xs {
			toks = append(toks, msgFieldToken(xd, idx))
		}
	}
	eidx := map[protoreflect.FullName]int{}
	var enums []protoreflect.EnumDescriptor
	enumOf := func(fd protoreflect.FieldDescriptor) int {
		if fd.IsMap() {
			fd = fd.MapValue()
		}
		ed := fd.Enum()
		if ed == nil {
			return -1
		}
		if i, ok := eidx[ed.FullName()]; ok {
			return i
		}
		eidx[ed.FullName()] = len(enums)
		enums = append(enums, ed)
		return len(enums) - 1
	}
	toks = append(toks, "N", strconv.Itoa(len(list)))
	for _, d := range list {
		fds := d.Fields()
		xs := msgExtensionsOf(d)
		toks = append(toks, "T", HexB([]byte(d.FullName())), strconv.Itoa(rtWktCode(d)), strconv.Itoa(fds.Len()+len(xs)))
		one := func(fd protoreflect.FieldDescriptor) {
			toks = append(toks, HexB([]byte(fd.TextName())), HexB([]byte(fd.JSONName())), Tok(fd.ContainingOneof() != nil), strconv.Itoa(enumOf(fd)))
		}
		for i := 0; i < fds.Len(); i++ {
			one(fds.Get(i))
		}
		for _, xd := range xs {
			one(xd)
		}
	}
	toks = append(toks, "E", strconv.Itoa(len(enums)))
	for _, ed := range enums {
		vs := ed.Values()
		toks = append(toks, HexB([]byte(ed.FullName())), Tok(ed.FullName() == "google.protobuf.NullValue"), strconv.Itoa(vs.Len()))
		for i := 0; i < vs.Len(); i++ {
			toks = append(toks, HexB([]byte(vs.Get(i).Name())), HexZ(int64(vs.Get(i).Number())))
		}
	}
	return toks
}

// rtAnyTypes: descriptors of the messages embedded in (resolvable) Any values reachable from m,
// including those nested inside embedded messages.
func rtAnyTypes(m protoreflect.Message, seen map[protoreflect.FullName]bool, out *[]protoreflect.MessageDescriptor) {
	rtWalk(m, func(x protoreflect.Message) bool {
		if rtWkt(x.Descriptor()) == "Any" && x.Has(rtField(x, 1)) {
			if em, _ := rtResolveAny(x); em != nil {
				if !seen[em.Descriptor().FullName()] {
					seen[em.Descriptor().FullName()] = true
					*out = append(*out, em.Descriptor())
				}
				rtAnyTypes(em, seen, out)
			} else {
				// unresolvable by content, but the name may still be a registered type
				url := x.Get(rtField(x, 1)).String()
				if i := strings.LastIndexByte(url, '/'); i >= 0 {
					url = url[i+1:]
				}
				if mt, err := protoregistry.GlobalTypes.FindMessageByName(protoreflect.FullName(url)); err == nil && !seen[mt.Descriptor().FullName()] {
					seen[mt.Descriptor().FullName()] = true
					*out = append(*out, mt.Descriptor())
				}
			}
			return false
		}
		return true
	})
}

var rtSchemaIDs = map[string]string{}

// rtSchemaOf emits (once per distinct table) the schema case line of family fam for root md
// extended by the Any-embedded types, and returns its id.
func rtSchemaOf(c *Ctx, fam string, md protoreflect.MessageDescriptor, extra []protoreflect.MessageDescriptor) string {
	sort.Slice(extra, func(i, j int) bool { return extra[i].FullName() < extra[j].FullName() })
	key := fam + ":" + string(md.FullName())
	for _, e := range extra {
		key += "|" + string(e.FullName())
	}
	if id, ok := rtSchemaIDs[key]; ok {
		return id
	}
	id := strconv.Itoa(len(rtSchemaIDs))
	rtSchemaIDs[key] = id
	idx, list := rtCollectTypes(md, extra)
	c.Case(fam, "schema", append([]string{id}, rtSchemaTokens(idx, list)...), []string{"ok"})
	return id
}

var rtNamesOKCache = map[protoreflect.FullName]bool{}

// rtNamesOK: in md and every message type reachable from it, the name under which a field is
// written (JSON name, or text name with UseProtoNames) finds that same field again when looked up
// the way the JSON decoder does (JSON names first, then text names): JSON names pairwise distinct,
// text names pairwise distinct, and no field's JSON name is another field's text name.  Schemas
// that violate this (legal in proto2, e.g. fields CamelCase and CamelCase_) have no JSON mapping.
func rtNamesOK(md protoreflect.MessageDescriptor) bool {
	if v, ok := rtNamesOKCache[md.FullName()]; ok {
		return v
	}
	idx, list := rtCollectTypes(md, nil)
	_ = idx
	ok := true
	for _, d := range list {
		byJSON := map[string]int{}
		byText := map[string]int{}
		fds := d.Fields()
		for i := 0; i < fds.Len(); i++ {
			fd := fds.Get(i)
			if _, dup := byJSON[fd.JSONName()]; dup {
				ok = false
			}
			if _, dup := byText[fd.TextName()]; dup {
				ok = false
			}
			byJSON[fd.JSONName()] = i
			byText[fd.TextName()] = i
		}
		for n, i := range byJSON {
			if j, hit := byText[n]; hit && j != i {
				ok = false
			}
		}
	}
	rtNamesOKCache[md.FullName()] = ok
	return ok
}

// rtCanonNaN replaces every NaN in m by the NaN the decoders produce (math.NaN(), narrowed for float).
func rtCanonNaN(m protoreflect.Message) {
	fix := func(fd protoreflect.FieldDescriptor, v protoreflect.Value) (protoreflect.Value, bool) {
		switch fd.Kind() {
		case protoreflect.FloatKind:
			if f := v.Float(); f != f {
				return protoreflect.ValueOfFloat32(float32(math.NaN())), true
			}
		case protoreflect.DoubleKind:
			if f := v.Float(); f != f {
				return protoreflect.ValueOfFloat64(math.NaN()), true
			}
		}
		return v, false
	}
	type upd struct {
		fd protoreflect.FieldDescriptor
		v  protoreflect.Value
	}
	var sets []upd
	m.Range(func(fd protoreflect.FieldDescriptor, v protoreflect.Value) bool {
		switch {
		case fd.IsMap():
			mp := v.Map()
			var ks []protoreflect.MapKey
			mp.Range(func(k protoreflect.MapKey, mv protoreflect.Value) bool {
				if fd.MapValue().Message() != nil {
					rtCanonNaN(mv.Message())
				} else if _, ch := fix(fd.MapValue(), mv); ch {
					ks = append(ks, k)
				}
				return true
			})
			for _, k := range ks {
				nv, _ := fix(fd.MapValue(), mp.Get(k))
				mp.Set(k, nv)
			}
		case fd.IsList():
			l := v.List()
			for i := 0; i < l.Len(); i++ {
				if fd.Message() != nil {
					rtCanonNaN(l.Get(i).Message())
				} else if nv, ch := fix(fd, l.Get(i)); ch {
					l.Set(i, nv)
				}
			}
		case fd.Message() != nil:
			rtCanonNaN(v.Message())
		default:
			if nv, ch := fix(fd, v); ch {
				sets = append(sets, upd{fd, nv})
			}
		}
		return true
	})
	for _, u := range sets {
		m.Set(u.fd, u.v)
	}
}

// rtAnyCanonical: the value bytes of Any x (embedded message em already decoded from them) are what
// the decoders of both formats reproduce: the deterministic encoding of the content without unknown
// fields and with canonical NaNs.
func rtAnyCanonical(x, em protoreflect.Message) bool {
	em2 := em.New()
	b0 := x.Get(rtField(x, 2)).Bytes()
	if err := (proto.UnmarshalOptions{AllowPartial: true}).Unmarshal(b0, em2.Interface()); err != nil {
		return false
	}
	rtStripUnknown(em2)
	rtCanonNaN(em2)
	b1, err := proto.MarshalOptions{AllowPartial: true, Deterministic: true}.Marshal(em2.Interface())
	return err == nil && string(b0) == string(b1)
}

// rtDiff describes the first difference between a (expected) and b (got); "" when none is found.
func rtDiff(a, b protoreflect.Message) string {
	if a.Descriptor().FullName() != b.Descriptor().FullName() {
		return "type"
	}
	res := ""
	sc := func(fd protoreflect.FieldDescriptor, x, y protoreflect.Value) string {
		if fd.Message() != nil {
			return rtDiff(x.Message(), y.Message())
		}
		if !rtSameScalarBits(fd, x, y) {
			return fmt.Sprintf("%v != %v", x.Interface(), y.Interface())
		}
		return ""
	}
	a.Range(func(fd protoreflect.FieldDescriptor, va protoreflect.Value) bool {
		name := string(fd.FullName())
		if !b.Has(fd) {
			res = name + ": missing in result"
			return false
		}
		vb := b.Get(fd)
		switch {
		case fd.IsMap():
			va.Map().Range(func(k protoreflect.MapKey, x protoreflect.Value) bool {
				if !vb.Map().Has(k) {
					res = fmt.Sprintf("%s[%v]: missing in result", name, k.Interface())
				} else if d := sc(fd.MapValue(), x, vb.Map().Get(k)); d != "" {
					res = fmt.Sprintf("%s[%v]: %s", name, k.Interface(), d)
				}
				return res == ""
			})
			if res == "" && va.Map().Len() != vb.Map().Len() {
				res = name + ": extra map entries in result"
			}
		case fd.IsList():
			if va.List().Len() != vb.List().Len() {
				res = fmt.Sprintf("%s: list length %d != %d", name, va.List().Len(), vb.List().Len())
				return false
			}
			for i := 0; i < va.List().Len() && res == ""; i++ {
				if d := sc(fd, va.List().Get(i), vb.List().Get(i)); d != "" {
					res = fmt.Sprintf("%s[%d]: %s", name, i, d)
				}
			}
		default:
			if d := sc(fd, va, vb); d != "" {
				res = name + ": " + d
			}
		}
		return res == ""
	})
	if res != "" {
		return res
	}
	b.Range(func(fd protoreflect.FieldDescriptor, _ protoreflect.Value) bool {
		if !a.Has(fd) {
			res = string(fd.FullName()) + ": extra in result"
			return false
		}
		return true
	})
	if res == "" && len(b.GetUnknown()) > 0 {
		res = "unknown fields in result"
	}
	return res
}

// rtAddUnknown adds well-formed unknown fields to m and to some of the messages reachable from it.
// (Done after the expected value was computed: the binary decoder itself mishandles some unknown
// fields of legacy message types -- finding FB1 of C03 -- and must not contaminate the expectation.)
func rtAddUnknown(c *Ctx, m protoreflect.Message) {
	rtWalk(m, func(x protoreflect.Message) bool {
		if c.Intn(3) == 0 {
			x.SetUnknown(msgGenUnknown(c, x.Descriptor()))
		}
		return true
	})
}
