//go:build verif

package main

import (
	"bytes"
	"fmt"
	"math"
	"reflect"
	"strconv"
	"unicode/utf8"

	"google.golang.org/protobuf/encoding/prototext"
	"google.golang.org/protobuf/encoding/protowire"
	"google.golang.org/protobuf/internal/detrand"
	"google.golang.org/protobuf/internal/encoding/text"
	"google.golang.org/protobuf/internal/flags"
	testpb "google.golang.org/protobuf/internal/testprotos/test"
	"google.golang.org/protobuf/types/known/emptypb"
)

// family "text": the lexical layer of the text format.
//   C25: string literals (appendString / parseString), unknown-field rendering
//   C24 (token model only): parseNumber / parseIdent / Token accessors
// Ops:
//   rune    <bytes>                       | rune size            utf8.DecodeRune
//   encstr  <ascii> <bytes>               | literal              text.Encoder.WriteString
//   go_encstr <ascii> <bytes>             | ok literal / panic / fuel    same, model side = translated source of appendString
//   decstr  <literal>                     | ok bytes / eof / syntax      text.UnmarshalString
//   strval  <legacy> <input>              | scalar token observed through text.Decoder on "f:"+input
//   num     <legacy> <input>              | same code path, number/literal shaped inputs
//   unknown <indent> <ascii> <extra> <b>  | ok text / panic      prototext.MarshalOptions{EmitUnknown}.Marshal

func init() { Register("text", famText) }

const textFam = "text"

// ---------------------------------------------------------------- generators

var textRuneClasses = [][2]rune{
	{0x20, 0x7e}, {0x00, 0x1f}, {0x7f, 0x7f}, {0x80, 0x9f}, {0xa0, 0xff}, {0x100, 0x7ff},
	{0x800, 0xfff}, {0x1000, 0xd7ff}, {0xe000, 0xffff}, {0xfffd, 0xfffd}, {0x10000, 0x10ffff},
	{0x7fe, 0x801}, {0xfffe, 0x10001}, {0x10fffe, 0x10ffff}, {'"', '"'}, {'\'', '\''}, {'\\', '\\'},
	{'0', '9'}, {'a', 'f'},
}

func textGenRune(c *Ctx) rune {
	cl := textRuneClasses[c.Intn(len(textRuneClasses))]
	r := cl[0] + rune(c.Intn(int(cl[1]-cl[0])+1))
	if r >= 0xd800 && r <= 0xdfff {
		r = 0xe000
	}
	return r
}

var textInvalidUTF8 = [][]byte{
	{0x80}, {0xbf}, {0xc0, 0x80}, {0xc1, 0xbf}, {0xc2}, {0xc2, 0x20}, {0xdf, 0xc0},
	{0xe0, 0x80, 0x80}, {0xe0, 0x9f, 0xbf}, {0xe0, 0xa0}, {0xe1, 0x80}, {0xe1, 0x80, 0x41},
	{0xed, 0xa0, 0x80}, {0xed, 0xbf, 0xbf}, {0xef, 0xbf}, {0xf0, 0x80, 0x80, 0x80}, {0xf0, 0x8f, 0xbf, 0xbf},
	{0xf0, 0x90, 0x80}, {0xf1, 0x80, 0x80, 0x7f}, {0xf4, 0x90, 0x80, 0x80}, {0xf4, 0x8f, 0xbf},
	{0xf5, 0x80, 0x80, 0x80}, {0xf8}, {0xfe}, {0xff}, {0xc3, 0x28}, {0xe2, 0x28, 0xa1}, {0xe2, 0x82, 0x28},
}

// textGenBytes: a byte string mixing valid runes of all classes, invalid
// UTF-8 fragments and raw random bytes.
func textGenBytes(c *Ctx) []byte {
	var b []byte
	n := c.Intn(8)
	if c.Intn(10) == 0 {
		n = c.Intn(40)
	}
	mode := c.Intn(4) // 0: valid only, 1: mixed, 2: raw random, 3: mixed
	for i := 0; i < n; i++ {
		switch {
		case mode == 2:
			b = append(b, byte(c.U64()))
		case mode == 0 || c.Intn(3) > 0:
			b = utf8.AppendRune(b, textGenRune(c))
		case c.Bool():
			b = append(b, textInvalidUTF8[c.Intn(len(textInvalidUTF8))]...)
		default:
			b = append(b, byte(0x80+c.Intn(0x80)))
		}
	}
	return b
}

var textEscChars = []byte(`"'\?abnrtvf01234567xuUzZ89 ` + "\n\x00")

func textHexDigits(c *Ctx, n int) []byte {
	const d = "0123456789abcdefABCDEF"
	b := make([]byte, n)
	for i := range b {
		b[i] = d[c.Intn(len(d))]
	}
	return b
}

// textGenLiteral: an "escape soup" string literal (mostly well formed).
func textGenLiteral(c *Ctx) []byte {
	q := byte('"')
	if c.Bool() {
		q = '\''
	}
	b := []byte{q}
	for i, n := 0, c.Intn(7); i < n; i++ {
		switch c.Intn(14) {
		case 0, 1:
			b = utf8.AppendRune(b, textGenRune(c))
		case 2:
			b = append(b, '\\', textEscChars[c.Intn(len(textEscChars))])
		case 3: // octal
			b = append(b, '\\')
			for j, k := 0, 1+c.Intn(4); j < k; j++ {
				b = append(b, byte('0'+c.Intn(8)))
			}
		case 4: // hex
			b = append(b, '\\', 'x')
			b = append(b, textHexDigits(c, c.Intn(4))...)
		case 5: // \u
			b = append(b, '\\', 'u')
			b = append(b, textHexDigits(c, []int{4, 4, 4, 3, 5, 0}[c.Intn(6)])...)
		case 6: // \U
			b = append(b, '\\', 'U')
			v := []uint32{0, 0x41, 0xd7ff, 0xe000, 0xffff, 0x10000, 0x10ffff, 0x110000, 0xd800, 0xdfff, 0xffffffff, uint32(c.U64()) % 0x120000}[c.Intn(12)]
			s := fmt.Sprintf("%08x", v)
			if c.Intn(6) == 0 {
				s = s[:c.Intn(8)]
			}
			b = append(b, s...)
		case 7: // surrogate pairs, valid and broken
			hi := 0xd800 + c.Intn(0x400)
			lo := 0xdc00 + c.Intn(0x400)
			switch c.Intn(8) {
			case 0:
				hi, lo = lo, hi
			case 1:
				lo = 0x41
			case 2:
				lo = hi
			}
			switch c.Intn(8) {
			case 0:
				b = append(b, fmt.Sprintf(`\u%04x`, hi)...)
			case 1:
				b = append(b, fmt.Sprintf(`\u%04x\U%08x`, hi, lo)...)
			case 2:
				b = append(b, fmt.Sprintf(`\U%08x\u%04X`, hi, lo)...)
			case 3:
				b = append(b, fmt.Sprintf(`\u%04x\u%03xg`, hi, lo>>4)...)
			case 4:
				b = append(b, fmt.Sprintf(`\u%04xzu%04x`, hi, lo)...)
			default:
				b = append(b, fmt.Sprintf(`\u%04x\u%04x`, hi, lo)...)
			}
		case 8:
			b = append(b, textInvalidUTF8[c.Intn(len(textInvalidUTF8))]...)
		case 9:
			b = append(b, []byte{'\n', 0, '\r', '\t', 0x7f, 1, '"', '\''}[c.Intn(8)])
		default:
			b = append(b, "abc xyz0189_-#/"[c.Intn(15)])
		}
	}
	if c.Intn(8) > 0 {
		b = append(b, q)
	}
	switch c.Intn(10) {
	case 0: // truncate
		b = b[:c.Intn(len(b)+1)]
	case 1: // flip a byte
		if len(b) > 0 {
			b[c.Intn(len(b))] = byte(c.U64())
		}
	case 2: // trailing stuff
		b = append(b, " x"...)
	}
	return b
}

var textWS = []string{"", " ", "  ", "\n", "\t", "\r\n", "#c\n", " # comment \"x\"\n ", "#", "# no newline"}

var textNumInts = []string{
	"0", "1", "9", "10", "42", "00", "01", "07", "08", "09", "017", "0777", "0x0", "0x1", "0X1f", "0xFf", "0x", "0xg", "0b1", "0o7",
	"2147483647", "2147483648", "4294967295", "4294967296", "9223372036854775807", "9223372036854775808",
	"18446744073709551615", "18446744073709551616", "99999999999999999999999",
	"0x7fffffff", "0x80000000", "0xffffffff", "0x100000000", "0x7fffffffffffffff", "0x8000000000000000",
	"0xffffffffffffffff", "0x10000000000000000", "017777777777", "020000000000", "037777777777", "040000000000",
	"0777777777777777777777", "01000000000000000000000", "01777777777777777777777", "02000000000000000000000",
	"", "", "",
}
var textNumFracs = []string{"", "", "", ".", ".0", ".5", ".123456789", ".e", "..", ".0.0"}
var textNumExps = []string{"", "", "", "e", "E", "e+", "e-", "e5", "E5", "e+5", "e-5", "e+05", "e400", "e-400", "e5.", "e5e5", "ee", "e+-5"}
var textNumSufs = []string{"", "", "", "f", "F", "ff", "fe", "f1"}
var textNumTerms = []string{"", "", " ", ",", ";", "}", ">", "]", "\n", "#x", ":", "{", "\"", "x", "_", "-", "+", ".", "/", "\x00", "\x80", "\xc3\xa9"}
var textLits = []string{
	"inf", "-inf", "infinity", "-infinity", "nan", "-nan", "Inf", "INF", "-Infinity", "NaN", "nAn", "infinit", "infinityy",
	"t", "f", "true", "false", "True", "False", "TRUE", "tRue", "-true", "T", "F",
	"FOO", "foo_bar1", "_x", "a.b", "a-b", "a+", "-", "--inf", "- inf", "-\tinf", "e5", "x1", "f1", "-f", "-t",
}

// textGenNumber: number/literal shaped scalar input followed by a terminator.
func textGenNumber(c *Ctx) []byte {
	var b []byte
	if c.Intn(8) == 0 {
		b = append(b, textLits[c.Intn(len(textLits))]...)
		return append(b, textNumTerms[c.Intn(len(textNumTerms))]...)
	}
	if c.Intn(3) == 0 {
		b = append(b, '-')
		if c.Intn(3) == 0 {
			b = append(b, textWS[c.Intn(len(textWS))]...)
		}
	}
	switch c.Intn(8) {
	case 0: // what strconv emits
		if c.Bool() {
			b = strconv.AppendFloat(b, float64(math.Float32frombits(uint32(c.U64()))), 'g', -1, 32)
		} else {
			b = strconv.AppendFloat(b, math.Float64frombits(c.U64()), 'g', -1, 64)
		}
	case 1:
		b = strconv.AppendUint(b, gtextBits(c), []int{8, 10, 16}[c.Intn(3)])
	default:
		b = append(b, textNumInts[c.Intn(len(textNumInts))]...)
		b = append(b, textNumFracs[c.Intn(len(textNumFracs))]...)
		b = append(b, textNumExps[c.Intn(len(textNumExps))]...)
		b = append(b, textNumSufs[c.Intn(len(textNumSufs))]...)
	}
	b = append(b, textNumTerms[c.Intn(len(textNumTerms))]...)
	if c.Intn(6) == 0 {
		b = append(b, "1"...)
	}
	return b
}

func gtextBits(c *Ctx) uint64 {
	k := c.Intn(65)
	if k == 0 {
		return 0
	}
	v := c.U64()
	if k < 64 {
		v &= (uint64(1) << k) - 1
	}
	switch c.Intn(4) {
	case 0:
		if k < 64 {
			return uint64(1) << k
		}
		return ^uint64(0)
	case 1:
		if k < 64 {
			return (uint64(1) << k) - 1
		}
	}
	return v
}

func textPadVarint(c *Ctx, b []byte, v uint64) []byte {
	if c.Intn(6) != 0 {
		return protowire.AppendVarint(b, v)
	}
	n := protowire.SizeVarint(v)
	extra := 1 + c.Intn(3)
	if n+extra > 10 {
		return protowire.AppendVarint(b, v)
	}
	for i := 0; i < n; i++ {
		b = append(b, byte(v)|0x80)
		v >>= 7
	}
	for i := 0; i < extra-1; i++ {
		b = append(b, 0x80)
	}
	return append(b, 0)
}

var textFieldNums = []protowire.Number{1, 2, 15, 16, 2047, 2048, 1 << 21, 1<<28 - 1, 1 << 28, 1<<29 - 1, 1 << 29, 1<<31 - 1}

// textGenField appends one well-formed field (C02 grammar), with
// non-minimal varints in tags, values, lengths and end-group markers.
func textGenField(c *Ctx, b []byte, depth int) []byte {
	num := textFieldNums[c.Intn(len(textFieldNums))]
	if c.Bool() {
		num = protowire.Number(1 + c.Intn(40))
	}
	t := c.Intn(6)
	if depth <= 0 && t == 3 {
		t = 2
	}
	tag := func(typ protowire.Type) { b = textPadVarint(c, b, protowire.EncodeTag(num, typ)) }
	switch t {
	case 0:
		tag(protowire.VarintType)
		b = textPadVarint(c, b, gtextBits(c))
	case 1:
		tag(protowire.Fixed64Type)
		b = protowire.AppendFixed64(b, gtextBits(c))
	case 2, 4:
		tag(protowire.BytesType)
		v := textGenBytes(c)
		b = textPadVarint(c, b, uint64(len(v)))
		b = append(b, v...)
	case 3:
		tag(protowire.StartGroupType)
		for i, k := 0, c.Intn(4); i < k; i++ {
			b = textGenField(c, b, depth-1)
		}
		tag(protowire.EndGroupType)
	case 5:
		tag(protowire.Fixed32Type)
		b = protowire.AppendFixed32(b, uint32(gtextBits(c)))
	}
	return b
}

func textMutate(c *Ctx, b []byte) []byte {
	b = append([]byte(nil), b...)
	if len(b) == 0 {
		return c.Bytes(1 + c.Intn(3))
	}
	switch c.Intn(5) {
	case 0:
		return b[:c.Intn(len(b))]
	case 1:
		b[c.Intn(len(b))] = byte(c.U64())
	case 2:
		i := c.Intn(len(b))
		b = append(b[:i], b[i+1:]...)
	case 3:
		b = append(b, c.Bytes(1+c.Intn(3))...)
	case 4:
		i := c.Intn(len(b))
		b[i] = b[i]&^7 | byte(c.Intn(8))
	}
	return b
}

// ---------------------------------------------------------------- observations

func textErrClass(err error) string {
	if err == text.ErrUnexpectedEOF {
		return "eof"
	}
	return "syntax"
}

func textEncStr(b []byte, ascii bool) []byte {
	e, err := text.NewEncoder(nil, "", [2]byte{}, ascii)
	if err != nil {
		panic(err)
	}
	e.WriteString(string(b))
	return e.Bytes()
}

func textRune(c *Ctx, b []byte) {
	r, n := utf8.DecodeRune(b)
	c.Case(textFam, "rune", []string{HexB(b)}, []string{HexN(uint64(r)), fmt.Sprint(n)})
}

// textString: encode b both ways, compare with the model, evaluate C25 on
// the implementation.
func textString(c *Ctx, b []byte, viaProto bool) {
	valid := utf8.Valid(b)
	if valid {
		c.Stat("str.validutf8")
	} else {
		c.Stat("str.invalidutf8")
	}
	for _, ascii := range []bool{false, true} {
		lit := textEncStr(b, ascii)
		c.Case(textFam, "encstr", []string{Tok(ascii), HexB(b)}, []string{HexB(lit)})
		// the same observation against the translated Go source (Gen/TextEscGo.v)
		c.Case(textFam, "go_encstr", []string{Tok(ascii), HexB(b)}, []string{"ok", HexB(lit)})
		back, err := text.UnmarshalString(string(lit))
		if err != nil || back != string(b) {
			c.PropFail("C25", "string literal does not parse back", Tok(ascii), HexB(b), HexB(lit))
		}
		if ascii {
			for _, x := range lit {
				if x < 0x20 || x > 0x7e {
					c.PropFail("C25", "EmitASCII output has a non-printable byte", HexB(b), HexB(lit))
					break
				}
			}
		}
		if !viaProto {
			continue
		}
		for _, ml := range []bool{false, true} {
			mo := prototext.MarshalOptions{EmitASCII: ascii, Multiline: ml}
			m := &testpb.TestAllTypes{OptionalBytes: b, RepeatedBytes: [][]byte{b, {}}}
			if valid {
				m.OptionalString = protoString(string(b))
			}
			out, err := mo.Marshal(m)
			if err != nil {
				c.PropFail("C25", "prototext.Marshal failed", Tok(ascii), HexB(b), err.Error())
				continue
			}
			if ascii {
				for _, x := range out {
					if (x < 0x20 || x > 0x7e) && x != '\n' {
						c.PropFail("C25", "EmitASCII message output has a non-printable byte", HexB(b), HexB(out))
						break
					}
				}
			}
			var m2 testpb.TestAllTypes
			if err := prototext.Unmarshal(out, &m2); err != nil {
				c.PropFail("C25", "prototext.Unmarshal of Marshal output failed", Tok(ascii), HexB(b), HexB(out))
				continue
			}
			ok := bytes.Equal(m2.OptionalBytes, b) && len(m2.RepeatedBytes) == 2 && bytes.Equal(m2.RepeatedBytes[0], b) && len(m2.RepeatedBytes[1]) == 0
			if valid && m2.GetOptionalString() != string(b) {
				ok = false
			}
			if !ok {
				c.PropFail("C25", "prototext bytes/string field does not round trip", Tok(ascii), HexB(b), HexB(out))
			}
		}
	}
}

func protoString(s string) *string { return &s }

func textDecStr(c *Ctx, lit []byte) {
	s, err := text.UnmarshalString(string(lit))
	if err != nil {
		cl := textErrClass(err)
		c.Stat("decstr." + cl)
		c.Case(textFam, "decstr", []string{HexB(lit)}, []string{cl})
		return
	}
	c.Stat("decstr.ok")
	c.Case(textFam, "decstr", []string{HexB(lit)}, []string{"ok", HexB([]byte(s))})
}

func textOptU(v uint64, ok bool) string {
	if !ok {
		return "-"
	}
	return HexN(v)
}
func textOptI(v int64, ok bool) string {
	if !ok {
		return "-"
	}
	return HexZ(v)
}

// textScalar observes the scalar token that the Decoder produces for inp
// placed after a field name.
func textScalar(c *Ctx, op string, inp []byte) {
	ins := []string{Tok(flags.ProtoLegacy), HexB(inp)}
	var obs []string
	func() {
		defer func() {
			if r := recover(); r != nil {
				obs = []string{"panic"}
				c.PropFail("C25", "text.Decoder panicked", HexB(inp))
			}
		}()
		d := text.NewDecoder(append([]byte("f:"), inp...))
		if _, err := d.Read(); err != nil {
			obs = []string{"nameerr"}
			return
		}
		tok, err := d.Read()
		if err != nil {
			obs = []string{textErrClass(err)}
			return
		}
		switch tok.Kind() {
		case text.Scalar:
		case text.MessageOpen, text.ListOpen:
			obs = []string{"open"}
			return
		default:
			obs = []string{"other"}
			return
		}
		rv := reflect.ValueOf(tok)
		attrs := rv.FieldByName("attrs").Uint()
		raw := tok.RawString()
		switch attrs {
		case 2: // stringValue
			s, _ := tok.String()
			obs = []string{"str", HexB([]byte(s)), fmt.Sprint(len(raw))}
		case 3: // literalValue
			bc := "0"
			if bv, ok := tok.Bool(); ok {
				bc = "1"
				if bv {
					bc = "2"
				}
			}
			fc := "0"
			if f, ok := tok.Float64(); ok {
				switch {
				case math.IsNaN(f):
					fc = "1"
				case math.IsInf(f, 1):
					fc = "2"
				case math.IsInf(f, -1):
					fc = "3"
				default:
					fc = "9"
				}
			}
			_, eok := tok.Enum()
			obs = []string{"lit", HexB([]byte(raw)), bc, fc, Tok(eok)}
		case 1: // numberValue
			na := rv.FieldByName("numAttrs").Uint()
			str := rv.FieldByName("str").String()
			u64, ok1 := tok.Uint64()
			u32, ok2 := tok.Uint32()
			i64, ok3 := tok.Int64()
			i32, ok4 := tok.Int32()
			_, fok := tok.Float64()
			_, fok32 := tok.Float32()
			bc := "0"
			if bv, ok := tok.Bool(); ok {
				bc = "1"
				if bv {
					bc = "2"
				}
			}
			obs = []string{"num", fmt.Sprint(len(raw)), HexN(na & 0x7f), Tok(na&0x80 != 0), HexB([]byte(str)),
				textOptU(u64, ok1), textOptU(uint64(u32), ok2), textOptI(i64, ok3), textOptI(int64(i32), ok4), Tok(fok), Tok(fok32), bc}
		default:
			obs = []string{"other"}
		}
	}()
	c.Stat(op + "." + obs[0])
	c.Case(textFam, op, ins, obs)
}

// textFloatToken: C24's float_text_accepted on the implementation: what
// strconv emits is lexed as one number token that Float64/Float32 accept.
func textFloatToken(c *Ctx, s string, term string) {
	d := text.NewDecoder([]byte("f:" + s + term))
	d.Read()
	tok, err := d.Read()
	if err != nil || tok.Kind() != text.Scalar || tok.RawString() != s {
		c.PropFail("C24", "strconv float output is not lexed as one token", HexB([]byte(s+term)))
		return
	}
	if _, ok := tok.Float64(); !ok {
		c.PropFail("C24", "strconv float output token rejected by Float64", HexB([]byte(s+term)))
	}
}

func textUnknown(c *Ctx, b []byte, wellFormed bool) {
	for _, o := range []struct {
		indent string
		ascii  bool
	}{{"", false}, {"  ", false}, {"\t", true}} {
		mo := prototext.MarshalOptions{EmitUnknown: true, Indent: o.indent, EmitASCII: o.ascii}
		m := &emptypb.Empty{}
		m.ProtoReflect().SetUnknown(b)
		var obs []string
		func() {
			defer func() {
				if r := recover(); r != nil {
					obs = []string{"panic"}
					if wellFormed {
						c.PropFail("C25", "EmitUnknown panics on a well-formed unknown set", HexB(b), fmt.Sprint(r))
					}
				}
			}()
			out, err := mo.Marshal(m)
			if err != nil {
				obs = []string{"err"}
				if wellFormed {
					c.PropFail("C25", "EmitUnknown fails on a well-formed unknown set", HexB(b), err.Error())
				}
				return
			}
			obs = []string{"ok", HexB(out)}
		}()
		c.Stat("unknown." + obs[0])
		c.Case(textFam, "unknown", []string{HexB([]byte(o.indent)), Tok(o.ascii), Tok(detrand.Bool()), HexB(b)}, obs)
	}
	if wellFormed {
		// Format (Multiline, allowInvalidUTF8, EmitUnknown) must not panic either.
		func() {
			defer func() {
				if r := recover(); r != nil {
					c.PropFail("C25", "Format panics on a well-formed unknown set", HexB(b), fmt.Sprint(r))
				}
			}()
			m := &testpb.TestAllTypes{}
			m.ProtoReflect().SetUnknown(b)
			_ = prototext.Format(m)
		}()
	}
}

// ---------------------------------------------------------------- driver

var textStrCorpus = []string{
	"", "a", "\"", "'", "\\", "\n", "\r", "\t", "\x00", "\x01", "\x1f", "\x7f", "\x80", "\x9f", "\xa0", "\xff",
	"\xc2\x80", "\xc2\x9f", "\xc2\xa0", "\xdf\xbf", "\xe0\xa0\x80", "\xef\xbf\xbd", "\xef\xbf\xbf", "\xf0\x90\x80\x80", "\xf4\x8f\xbf\xbf",
	"\x01a", "\x7ff", "\xffa0", "\xc2\x800", "\xc2", "\xc2\x80\x80", "\xed\xa0\x80", "\xf4\x90\x80\x80", "\xef\xbf\xbd",
	"a\"b'c\\d", "??=", "\\x41", "\\u" + "0041", "caf\xc3\xa9", "\xe6\x97\xa5\xe6\x9c\xac", "\xf0\x9f\x98\x80 ok",
}

var textLitCorpus = []string{
	`""`, `''`, `"`, `'`, ``, `"a`, `"a'`, `'a"`, `"\`, `"\"`, `"\""`, `'\''`, `"\?\a\b\f\n\r\t\v\\"`,
	`"\0"`, `"\00"`, `"\000"`, `"\0000"`, `"\377"`, `"\400"`, `"\777"`, `"\18"`, `"\8"`, `"\1`, `"\12`,
	`"\x"`, `"\x0"`, `"\x00"`, `"\x000"`, `"\xfF"`, `"\xg"`, `"\x`, `"\x1`, `"\X41"`,
	`"\u0041"`, `"\u004"`, `"\u00g1"`, `"\u+041"`, `"\u 041"`, `"\u_041"`, `"\u`, `"\u00`, `"\u0041`, `"\ud7ff"`, `"\ue000"`, `"\uffff"`, `"\uFFFD"`, `"\u0000"`, `"\u000a"`,
	`"\U00000041"`, `"\U0010ffff"`, `"\U00110000"`, `"\Uffffffff"`, `"\U0000004"`, `"\U0000d800\udc00"`, `"\U0000dc00"`,
	`"\ud800"`, `"\ud800\udc00"`, `"\udbff\udfff"`, `"\uDBFF\uDFFF"`, `"\udc00\ud800"`, `"\ud800\ud800"`, `"\ud800\u0041"`, `"\ud800\U0000dc00"`,
	`"\ud800\udc0"`, `"\ud800\udc0g"`, `"\ud800xudc00"`, `"\ud800\xdc00"`, `"\ud800\udc00`, `"\ud800\udc`, `"\ud800`,
	"\"a\nb\"", "\"a\x00b\"", "\"a\rb\"", "\"a\tb\"", "\"\x7f\"", "\"\x80\"", "\"\xc3\xa9\"", "\"\xc3\"", "\"\xed\xa0\x80\"", "\"\xef\xbf\xbd\"",
	`"\z"`, `"\ "`, `"\9"`, `"abc" x`, `"a""b"`, `a"b"`, `abca`, `aba`, `a\a`, "\x80ab\x80", "\xc3\xa9x\xc3\xa9",
}

var textValCorpus = []string{
	`"a" "b"`, `"a"'b'"c"`, `"a" # comment` + "\n" + `"b" x`, `"a" # comment`, `"a"` + "\n\t\r " + `'b',`, `"a" "b`, `"a" "\z"`,
	` "a"`, "#c\n\"a\"", `"a"}`, `"a" 'b' 1`, `{`, `<`, `[`, ``, ` `, `#`,
}

var textNumCorpus = []string{
	"0", "-0", "1", "-1", "00", "01", "08", "0x", "0x1", "0X1F ", "0x1g", "0x1.", "0x1p3", "017", "018", "01.5", "0.5", "0e5", "0f", "0.f", ".f",
	".", ". ", ".5", "-.5", "5.", "5.e5", "5.f", "1e", "1e ", "1e+", "1e+ ", "1e+x", "1ee", "1e5", "1E5", "1e+5f", "1e5F,", "1f", "1F", "1ff", "1.5f", "1.5fx",
	"-", "- ", "- 1", "-\n1", "-#c\n1", "-#c", "- #c\n 0x10", "- 1.5f", "--1", "- -1", "-  .5e3f}",
	"1.0", "1.", "100", "1e+06", "1e-07", "1.5e+300", "3.4028235e+38", "-1.7976931348623157e+308", "5e-324", "1e999", "-1e999",
	"1_000", "1-", "1+", "1a", "1x", "1.2.3", "1..", "1 2", "1,2", "1}", "1#c", "1:", "1\"a\"",
	"2147483647", "2147483648", "-2147483648", "-2147483649", "4294967295", "4294967296",
	"9223372036854775807", "9223372036854775808", "-9223372036854775808", "-9223372036854775809",
	"18446744073709551615", "18446744073709551616", "0xffffffff", "0xffffffffffffffff", "-0x8000000000000000", "-0x80000000", "0x80000000", "0x8000000000000000",
	"037777777777", "01777777777777777777777", "02000000000000000000000", "-020000000000", "0x0", "0x01", "01", "-01", "-00",
	"inf", "-inf", "Infinity", "-INFINITY", "nan", "-nan", "NaN", "true", "t", "f", "False", "-t", "FOO", "foo-", "-foo", "- foo", "_", "-_",
}

func famText(c *Ctx) {
	// 1. corpus and boundary cases
	for _, s := range textStrCorpus {
		textString(c, []byte(s), true)
		textRune(c, []byte(s))
	}
	for _, iv := range textInvalidUTF8 {
		textString(c, iv, true)
		textRune(c, iv)
		textRune(c, append(append([]byte(nil), iv...), 0x80, 0x80))
	}
	for _, s := range textLitCorpus {
		textDecStr(c, []byte(s))
	}
	for _, s := range textLitCorpus {
		if len(s) > 0 && (s[0] == '"' || s[0] == '\'') {
			textScalar(c, "strval", []byte(s))
		}
	}
	for _, s := range textValCorpus {
		textScalar(c, "strval", []byte(s))
	}
	for _, s := range textNumCorpus {
		textScalar(c, "num", []byte(s))
	}
	for _, hx := range []string{"", "0800", "08ffffffffffffffffff01", "0d01020304", "090102030405060708", "0a00", "0a03610a22", "0b0c", "0b08010c", "0b8c00", "0b8c8000", "0b0b0c0c",
		"fa0100", "8800", "880001", "0c", "0b", "0b14", "0f00", "0e00", "00", "0a05", "08", "0d010203"} {
		b := ParseHexB("x" + hx)
		wf := protowire.ConsumeFieldValue(1, protowire.BytesType, protowire.AppendBytes(nil, b)) >= 0 && textWellFormed(b)
		textUnknown(c, b, wf)
	}
	// all 1-byte strings, all 1-byte literal bodies
	for i := 0; i < 256; i++ {
		textString(c, []byte{byte(i)}, true)
		textRune(c, []byte{byte(i)})
		textDecStr(c, []byte{'"', byte(i), '"'})
		textDecStr(c, []byte{'"', '\\', byte(i), '"'})
		textDecStr(c, []byte{'"', '\\', byte(i), '0', '0', '0', '0', '0', '0', '0', '0', '"'})
		textDecStr(c, []byte{byte(i), 'a', 'b', byte(i)})
		textScalar(c, "num", []byte{byte(i)})
		textScalar(c, "num", []byte{'1', byte(i)})
	}
	// 2-byte strings: exhaustive in the thorough tier (split over shards by seed), sampled otherwise
	if c.Tier == "thorough" {
		shard := int(c.Seed % 16)
		for i := shard * 4096; i < (shard+1)*4096; i++ {
			b := []byte{byte(i >> 8), byte(i)}
			textString(c, b, i%16 == 0)
			textRune(c, b)
		}
	}
	// 2. generated
	for i := 0; i < c.N; i++ {
		switch i % 8 {
		case 0:
			b := []byte{byte(c.U64()), byte(c.U64())}
			textString(c, b, false)
			textRune(c, append(b, c.Bytes(c.Intn(3))...))
		case 1, 2:
			b := textGenBytes(c)
			textString(c, b, i%16 == 1)
			if len(b) > 0 {
				textRune(c, b[c.Intn(len(b)):])
			}
		case 3, 4:
			lit := textGenLiteral(c)
			textDecStr(c, lit)
			if len(lit) > 0 && (lit[0] == '"' || lit[0] == '\'') {
				v := append([]byte(textWS[c.Intn(len(textWS))]), lit...)
				for j, k := 0, c.Intn(3); j < k; j++ {
					v = append(v, textWS[c.Intn(len(textWS))]...)
					v = append(v, textGenLiteral(c)...)
				}
				v = append(v, textWS[c.Intn(len(textWS))]...)
				v = append(v, textNumTerms[c.Intn(len(textNumTerms))]...)
				textScalar(c, "strval", v)
			}
		case 5:
			textScalar(c, "num", textGenNumber(c))
			if i%16 == 5 {
				var s string
				if c.Bool() {
					s = strconv.FormatFloat(float64(math.Float32frombits(uint32(c.U64()))), 'g', -1, 32)
				} else {
					s = strconv.FormatFloat(math.Float64frombits(c.U64()), 'g', -1, 64)
				}
				if s != "NaN" && s != "+Inf" && s != "-Inf" {
					textFloatToken(c, s, []string{"", " ", ",", "}", "\n", "#"}[c.Intn(6)])
				}
			}
		case 6:
			var b []byte
			for j, k := 0, c.Intn(4); j < k; j++ {
				b = textGenField(c, b, 3)
			}
			c.Stat("unknown.wellformed")
			textUnknown(c, b, true)
		case 7:
			var b []byte
			for j, k := 0, 1+c.Intn(3); j < k; j++ {
				b = textGenField(c, b, 2)
			}
			b = textMutate(c, b)
			textUnknown(c, b, textWellFormed(b))
		}
	}
}

// textWellFormed: the unknown-field grammar (what proto.Unmarshal stores):
// a sequence of fields each accepted by protowire.ConsumeField.
func textWellFormed(b []byte) bool {
	for len(b) > 0 {
		_, _, n := protowire.ConsumeField(b)
		if n < 0 {
			return false
		}
		b = b[n:]
	}
	return true
}
