//go:build verif

package main

// family "equal" (C30): proto.Equal is an equivalence, consistent across implementations.
//
// For one random content m0 of a type a small family of messages is built: m0, a binary copy, a
// permuted reconstruction, proto.Clone(m0), and near misses (one nested value changed, +0/-0, NaN
// payloads, nil/empty bytes, unknown fields reordered within / between field numbers, a field
// cleared, an unset explicit-presence field set to its default, extension set to default,
// empty-but-present lists) and near misses of near misses.  Every member also exists as a
// dynamicpb message.  The full comparison matrix is computed by
//	fast   proto.Equal on generated messages (internal/impl/equal.go in the default build)
//	vrefl  protoreflect.Value.Equal on the generated messages
//	dyn    proto.Equal on the dynamicpb twins (reflection path)
//	mixed  proto.Equal(generated, dynamicpb)
//	cmp    cmp.Equal(x, y, protocmp.Transform()) when neither has NaN, Any or unknown fields
// P lines (C30): implementations disagree; not reflexive / symmetric / transitive;
// Equal(m, binary copy) or Equal(m, Clone(m)) false.
// Case lines (model-compared, Msg/EqualModel.v):
//	equal <schema id> <value a> <value b>   | 0/1

import (
	"bytes"
	"fmt"
	"math"
	"strings"

	"github.com/google/go-cmp/cmp"

	"google.golang.org/protobuf/encoding/protowire"
	"google.golang.org/protobuf/proto"
	"google.golang.org/protobuf/reflect/protoreflect"
	"google.golang.org/protobuf/runtime/protoiface"
	"google.golang.org/protobuf/testing/protocmp"
	"google.golang.org/protobuf/types/dynamicpb"
)

func init() { Register("equal", famEqual) }

// ---------------------------------------------------------------- mutation

func equalMutateScalar(c *Ctx, fd protoreflect.FieldDescriptor, v protoreflect.Value) protoreflect.Value {
	switch fd.Kind() {
	case protoreflect.BoolKind:
		return protoreflect.ValueOfBool(!v.Bool())
	case protoreflect.EnumKind:
		return protoreflect.ValueOfEnum(v.Enum() + 1)
	case protoreflect.Int32Kind, protoreflect.Sint32Kind, protoreflect.Sfixed32Kind:
		return protoreflect.ValueOfInt32(int32(v.Int()) + 1)
	case protoreflect.Int64Kind, protoreflect.Sint64Kind, protoreflect.Sfixed64Kind:
		return protoreflect.ValueOfInt64(v.Int() ^ (1 << uint(c.Intn(64))))
	case protoreflect.Uint32Kind, protoreflect.Fixed32Kind:
		return protoreflect.ValueOfUint32(uint32(v.Uint()) + 1)
	case protoreflect.Uint64Kind, protoreflect.Fixed64Kind:
		return protoreflect.ValueOfUint64(v.Uint() ^ (1 << uint(c.Intn(64))))
	case protoreflect.FloatKind:
		bits := math.Float32bits(float32(v.Float()))
		switch {
		case bits&0x7fffffff == 0 || c.Intn(3) == 0: // +0 <-> -0, x <-> -x
			bits ^= 0x80000000
		case bits&0x7f800000 == 0x7f800000 && bits&0x7fffff != 0: // NaN: another payload
			bits ^= 1 << uint(c.Intn(22))
			if bits&0x7fffff == 0 {
				bits |= 1
			}
		case c.Intn(4) == 0:
			bits = 0x7fc00000 | uint32(c.Intn(1<<22)) // becomes NaN
		case c.Intn(4) == 0:
			bits = uint32(c.Intn(2)) << 31 // becomes a zero
		default:
			bits ^= 1 << uint(c.Intn(31))
		}
		return protoreflect.ValueOfFloat32(math.Float32frombits(bits))
	case protoreflect.DoubleKind:
		bits := math.Float64bits(v.Float())
		switch {
		case bits&(1<<63-1) == 0 || c.Intn(3) == 0:
			bits ^= 1 << 63
		case bits&0x7ff0000000000000 == 0x7ff0000000000000 && bits&(1<<52-1) != 0:
			bits ^= 1 << uint(c.Intn(51))
			if bits&(1<<52-1) == 0 {
				bits |= 1
			}
		case c.Intn(4) == 0:
			bits = 0x7ff8000000000000 | uint64(c.Intn(1<<30))
		case c.Intn(4) == 0:
			bits = uint64(c.Intn(2)) << 63
		default:
			bits ^= 1 << uint(c.Intn(63))
		}
		return protoreflect.ValueOfFloat64(math.Float64frombits(bits))
	case protoreflect.StringKind:
		s := v.String()
		if len(s) > 0 && c.Bool() {
			return protoreflect.ValueOfString(s[:len(s)-1] + "y")
		}
		return protoreflect.ValueOfString(s + "x")
	case protoreflect.BytesKind:
		b := v.Bytes()
		switch {
		case len(b) == 0 && c.Intn(3) != 0:
			// nil <-> empty: the same content
			if b == nil {
				return protoreflect.ValueOfBytes([]byte{})
			}
			return protoreflect.ValueOfBytes(nil)
		case len(b) == 0:
			return protoreflect.ValueOfBytes([]byte{0})
		case c.Intn(4) == 0:
			return protoreflect.ValueOfBytes(nil)
		default:
			nb := append([]byte{}, b...)
			nb[c.Intn(len(nb))] ^= 1 << uint(c.Intn(8))
			return protoreflect.ValueOfBytes(nb)
		}
	}
	return v
}

// equalMutateUnknown reorders / drops / extends the unknown fields of m.
func equalMutateUnknown(c *Ctx, m protoreflect.Message) bool {
	u := m.GetUnknown()
	chunks, ok := msgSplitFields(u)
	if !ok {
		return false
	}
	render := func(cs []msgChunk) protoreflect.RawFields {
		var out []byte
		for _, ch := range cs {
			out = protowire.AppendTag(out, ch.num, ch.typ)
			out = append(out, ch.val...)
		}
		return out
	}
	switch k := c.Intn(6); {
	case len(chunks) >= 2 && k <= 1: // swap two neighbours (same or different numbers)
		i := c.Intn(len(chunks) - 1)
		chunks[i], chunks[i+1] = chunks[i+1], chunks[i]
		m.SetUnknown(render(chunks))
		c.Stat("mut_unknown_swap")
	case len(chunks) >= 2 && k == 2: // rotate
		chunks = append(chunks[1:], chunks[0])
		m.SetUnknown(render(chunks))
		c.Stat("mut_unknown_rotate")
	case len(chunks) >= 1 && k == 3: // drop one
		i := c.Intn(len(chunks))
		chunks = append(chunks[:i], chunks[i+1:]...)
		m.SetUnknown(render(chunks))
		c.Stat("mut_unknown_drop")
	case len(chunks) >= 1 && k == 4: // duplicate one at the end (same number again: order within a number)
		chunks = append(chunks, chunks[c.Intn(len(chunks))])
		m.SetUnknown(render(chunks))
		c.Stat("mut_unknown_dup")
	default:
		extra := msgGenUnknown(c, m.Descriptor())
		if len(extra) == 0 {
			return false
		}
		if c.Bool() {
			m.SetUnknown(append(append(protoreflect.RawFields{}, u...), extra...))
		} else {
			m.SetUnknown(append(append(protoreflect.RawFields{}, extra...), u...))
		}
		c.Stat("mut_unknown_add")
	}
	return true
}

// equalAllFields: declared fields and registered extensions of m's type.
func equalAllFields(m protoreflect.Message) []protoreflect.FieldDescriptor {
	md := m.Descriptor()
	var out []protoreflect.FieldDescriptor
	fds := md.Fields()
	for i := 0; i < fds.Len(); i++ {
		out = append(out, fds.Get(i))
	}
	for _, xd := range msgExtensionsOf(md) {
		out = append(out, xd)
	}
	return out
}

func equalMutateOnce(c *Ctx, m protoreflect.Message, depth int) bool {
	es := detPopulated(m)
	switch k := c.Intn(12); {
	case k == 0:
		return equalMutateUnknown(c, m)
	case k == 1: // presence: populate an unpopulated field with its default / zero / empty value
		all := equalAllFields(m)
		if len(all) == 0 {
			return false
		}
		fd := all[c.Intn(len(all))]
		if m.Has(fd) {
			return false
		}
		if od := fd.ContainingOneof(); od != nil && m.WhichOneof(od) != nil {
			return false
		}
		switch {
		case fd.IsMap():
			m.Mutable(fd) // empty map: same content
			c.Stat("mut_empty_map")
		case fd.IsList():
			if fd.IsExtension() {
				m.Set(fd, m.NewField(fd)) // extension entry holding an empty list: same content
			} else {
				m.Mutable(fd)
			}
			c.Stat("mut_empty_list")
		case fd.Message() != nil:
			if fd.IsExtension() {
				m.Set(fd, m.NewField(fd))
			} else {
				m.Mutable(fd)
			}
			c.Stat("mut_empty_message_present")
		case fd.HasPresence():
			m.Set(fd, fd.Default()) // explicit presence: default value, now present
			c.Stat("mut_default_present")
		default:
			m.Set(fd, fd.Default()) // implicit presence: stays unpopulated
			c.Stat("mut_implicit_zero")
		}
		return true
	case k == 2:
		if len(es) == 0 {
			return false
		}
		m.Clear(es[c.Intn(len(es))].fd)
		c.Stat("mut_clear")
		return true
	}
	if len(es) == 0 {
		return false
	}
	e := es[c.Intn(len(es))]
	fd, v := e.fd, e.v
	switch {
	case fd.IsMap():
		mp := v.Map()
		keys := detSortedKeys(mp)
		if len(keys) == 0 {
			return false
		}
		key := keys[c.Intn(len(keys))]
		vfd := fd.MapValue()
		switch c.Intn(6) {
		case 0:
			mp.Clear(key)
			c.Stat("mut_map_delete")
		case 1:
			nk := msgScalar(c, fd.MapKey(), false).MapKey()
			if mp.Has(nk) {
				return false
			}
			if vfd.Message() != nil {
				mp.Set(nk, mp.NewValue())
			} else {
				mp.Set(nk, msgScalar(c, vfd, false))
			}
			c.Stat("mut_map_add")
		default:
			if vfd.Message() != nil {
				if depth > 0 && equalMutateOnce(c, mp.Get(key).Message(), depth-1) {
					return true
				}
				mp.Set(key, mp.NewValue())
				c.Stat("mut_map_value_reset")
			} else {
				mp.Set(key, equalMutateScalar(c, vfd, mp.Get(key)))
				c.Stat("mut_map_value")
			}
		}
		return true
	case fd.IsList():
		l := v.List()
		if l.Len() == 0 {
			return false
		}
		i := c.Intn(l.Len())
		switch c.Intn(6) {
		case 0:
			l.Truncate(l.Len() - 1)
			c.Stat("mut_list_truncate")
		case 1:
			if fd.Message() != nil {
				l.Append(l.NewElement())
			} else {
				l.Append(msgScalar(c, fd, false))
			}
			c.Stat("mut_list_append")
		case 2:
			if l.Len() < 2 || fd.Message() != nil {
				return false
			}
			j := (i + 1) % l.Len()
			a, b := detCopyScalar(fd, l.Get(i)), detCopyScalar(fd, l.Get(j))
			l.Set(i, b)
			l.Set(j, a)
			c.Stat("mut_list_swap")
		default:
			if fd.Message() != nil {
				if depth > 0 && equalMutateOnce(c, l.Get(i).Message(), depth-1) {
					return true
				}
				return false
			}
			l.Set(i, equalMutateScalar(c, fd, l.Get(i)))
			c.Stat("mut_list_value")
		}
		return true
	case fd.Message() != nil:
		if depth > 0 {
			return equalMutateOnce(c, v.Message(), depth-1)
		}
		return false
	default:
		m.Set(fd, equalMutateScalar(c, fd, v))
		c.Stat("mut_scalar_" + fd.Kind().String())
		return true
	}
}

// equalMutate changes m a little (a near miss, or a representation change that keeps the content).
func equalMutate(c *Ctx, m protoreflect.Message) (ok bool) {
	defer func() {
		if r := recover(); r != nil {
			c.Stat("mutate_panic")
			ok = false
		}
	}()
	for try := 0; try < 10; try++ {
		if equalMutateOnce(c, m, 3) {
			return true
		}
	}
	return false
}

// ---------------------------------------------------------------- predicates on content

// equalCmpEligible: no NaN, no Any, no unknown fields anywhere in m.
func equalCmpEligible(m protoreflect.Message) bool {
	if len(m.GetUnknown()) > 0 || m.Descriptor().FullName() == "google.protobuf.Any" {
		return false
	}
	ok := true
	scalar := func(fd protoreflect.FieldDescriptor, v protoreflect.Value) {
		if fd.Kind() == protoreflect.FloatKind || fd.Kind() == protoreflect.DoubleKind {
			if math.IsNaN(v.Float()) {
				ok = false
			}
		}
	}
	m.Range(func(fd protoreflect.FieldDescriptor, v protoreflect.Value) bool {
		switch {
		case fd.IsMap():
			vfd := fd.MapValue()
			v.Map().Range(func(_ protoreflect.MapKey, x protoreflect.Value) bool {
				if vfd.Message() != nil {
					ok = ok && equalCmpEligible(x.Message())
				} else {
					scalar(vfd, x)
				}
				return ok
			})
		case fd.IsList():
			l := v.List()
			for i := 0; i < l.Len() && ok; i++ {
				if fd.Message() != nil {
					ok = ok && equalCmpEligible(l.Get(i).Message())
				} else {
					scalar(fd, l.Get(i))
				}
			}
		case fd.Message() != nil:
			ok = ok && equalCmpEligible(v.Message())
		default:
			scalar(fd, v)
		}
		return ok
	})
	return ok
}

// ---------------------------------------------------------------- implementations

type equalImpl struct {
	name string
	f    func(i, j int) (bool, bool) // (result, applicable)
}

func equalGuard(c *Ctx, what string, f func() bool) (res bool, ok bool) {
	defer func() {
		if r := recover(); r != nil {
			c.PropFail("C30", fmt.Sprintf("panic in %s: %v", what, r))
			ok = false
		}
	}()
	return f(), true
}

type equalMember struct {
	name string
	gen  protoreflect.Message // nil for random schemas
	dyn  protoreflect.Message
	dump []string
	cmp  bool
}

func (d *equalRun) family(t *detTarget, depth int) {
	c := d.c
	name := string(t.md.FullName())
	defer func() {
		if r := recover(); r != nil {
			c.PropFail("C30", fmt.Sprintf("panic (%s): %v", name, r))
		}
	}()
	m0 := t.base()
	if !detFill(c, m0, depth, 30+c.Intn(80), true) {
		return
	}
	if c.Intn(3) == 0 {
		m0.SetUnknown(nil) // so that cmp.Equal is applicable often enough
	}
	if _, err := detMarshal(m0); err != nil {
		c.Stat("marshal_error")
		return
	}
	legacy := msgLegacyReach(t.md)
	var ms []*equalMember
	add := func(name string, m protoreflect.Message) {
		if m == nil {
			return
		}
		mem := &equalMember{name: name}
		if t.gen != nil {
			mem.gen = m
			mem.dyn = t.dyn()
			detBuild(c, m, mem.dyn, false)
			mem.dump = msgDump(m)
			if !msgEqualToks(mem.dump, msgDump(mem.dyn)) {
				// e.g. legacy types without unknown-field storage
				c.Stat("dyn_twin_differs")
				mem.dyn = nil
			}
		} else {
			mem.dyn = m
			mem.dump = msgDump(m)
		}
		mem.cmp = equalCmpEligible(m)
		ms = append(ms, mem)
	}
	copyOf := func(src protoreflect.Message, perm bool) protoreflect.Message {
		m := t.base()
		detBuild(c, src, m, perm)
		return m
	}
	add("orig", m0)
	iBin, iClone := -1, -1
	if mc, err := func() (protoreflect.Message, error) {
		b, err := proto.MarshalOptions{AllowPartial: true}.Marshal(m0.Interface())
		if err != nil {
			return nil, err
		}
		m2 := t.base()
		err = proto.UnmarshalOptions{AllowPartial: true, NoLazyDecoding: c.Bool()}.Unmarshal(b, m2.Interface())
		if err == nil && msgHasLazy(t.md) && msgF1Class(t.md, b) {
			return nil, fmt.Errorf("F1 input class")
		}
		return m2, err
	}(); err == nil {
		iBin = len(ms)
		add("bincopy", mc)
	} else {
		c.Stat("bincopy_failed")
	}
	add("perm", copyOf(m0, true))
	iClone = len(ms)
	add("clone", proto.Clone(m0.Interface()).ProtoReflect())
	nmut := 2 + c.Intn(3)
	var muts []protoreflect.Message
	for k := 0; k < nmut; k++ {
		src := m0
		if len(muts) > 0 && c.Intn(3) == 0 {
			src = muts[c.Intn(len(muts))] // a near miss of a near miss
		}
		mm := copyOf(src, c.Bool())
		if equalMutate(c, mm) {
			muts = append(muts, mm)
			add(fmt.Sprintf("mut%d", k), mm)
		}
	}
	n := len(ms)
	if t.id == "" {
		t.id = msgSchemaOf(c, t.md)
	}

	var impls []equalImpl
	if t.gen != nil {
		impls = append(impls,
			equalImpl{"fast", func(i, j int) (bool, bool) {
				x, y := ms[i].gen, ms[j].gen
				if i == j {
					// proto.Equal short-cuts identical pointers: call the method itself
					if pm := x.ProtoMethods(); pm != nil && pm.Equal != nil {
						return pm.Equal(protoiface.EqualInput{MessageA: x, MessageB: y}).Equal, true
					}
				}
				return proto.Equal(x.Interface(), y.Interface()), true
			}},
			equalImpl{"vrefl", func(i, j int) (bool, bool) {
				return protoreflect.ValueOfMessage(ms[i].gen).Equal(protoreflect.ValueOfMessage(ms[j].gen)), true
			}},
			equalImpl{"mixed", func(i, j int) (bool, bool) {
				if ms[j].dyn == nil {
					return false, false
				}
				return proto.Equal(ms[i].gen.Interface(), ms[j].dyn.Interface()), true
			}},
			equalImpl{"mixed2", func(i, j int) (bool, bool) {
				if ms[i].dyn == nil {
					return false, false
				}
				return proto.Equal(ms[i].dyn.Interface(), ms[j].gen.Interface()), true
			}},
			equalImpl{"cmp", func(i, j int) (bool, bool) {
				if !ms[i].cmp || !ms[j].cmp {
					return false, false
				}
				return cmp.Equal(ms[i].gen.Interface(), ms[j].gen.Interface(), protocmp.Transform()), true
			}})
	}
	impls = append(impls, equalImpl{"dyn", func(i, j int) (bool, bool) {
		if ms[i].dyn == nil || ms[j].dyn == nil {
			return false, false
		}
		if i == j {
			return protoreflect.ValueOfMessage(ms[i].dyn).Equal(protoreflect.ValueOfMessage(ms[j].dyn)), true
		}
		return proto.Equal(ms[i].dyn.Interface(), ms[j].dyn.Interface()), true
	}})
	if t.gen == nil {
		impls = append(impls, equalImpl{"cmp", func(i, j int) (bool, bool) {
			if !ms[i].cmp || !ms[j].cmp {
				return false, false
			}
			return cmp.Equal(ms[i].dyn.Interface(), ms[j].dyn.Interface(), protocmp.Transform()), true
		}})
	}

	// reference matrix = first implementation
	E := make([][]bool, n)
	for i := range E {
		E[i] = make([]bool, n)
	}
	for i := 0; i < n; i++ {
		for j := 0; j < n; j++ {
			var ref, have bool
			for _, im := range impls {
				var r, app bool
				r, ok := equalGuard(c, im.name+" "+name, func() bool { r, app = im.f(i, j); return r })
				if !ok || !app {
					continue
				}
				c.Stat("cmp_" + im.name)
				if !have {
					ref, have = r, true
					continue
				}
				if r != ref {
					c.PropFail("C30", fmt.Sprintf("implementations disagree: %s=%v %s=%v on (%s,%s) of %s", impls[0].name, ref, im.name, r, ms[i].name, ms[j].name, name),
						append(append([]string{t.id}, ms[i].dump...), ms[j].dump...)...)
				}
			}
			E[i][j] = ref
			if ref {
				c.Stat("pair_equal")
			} else {
				c.Stat("pair_unequal")
			}
		}
	}
	for i := 0; i < n; i++ {
		if !E[i][i] {
			c.PropFail("C30", "not reflexive: "+ms[i].name+" of "+name, append([]string{t.id}, ms[i].dump...)...)
		}
		for j := 0; j < n; j++ {
			if E[i][j] != E[j][i] {
				c.PropFail("C30", fmt.Sprintf("not symmetric: (%s,%s) of %s", ms[i].name, ms[j].name, name),
					append(append([]string{t.id}, ms[i].dump...), ms[j].dump...)...)
			}
			for k := 0; k < n; k++ {
				if E[i][j] && E[j][k] && !E[i][k] {
					c.PropFail("C30", fmt.Sprintf("not transitive: (%s,%s,%s) of %s", ms[i].name, ms[j].name, ms[k].name, name),
						append(append(append([]string{t.id}, ms[i].dump...), ms[j].dump...), ms[k].dump...)...)
				}
			}
		}
	}
	if iBin >= 0 && iBin < n && ms[iBin].name == "bincopy" && !E[0][iBin] {
		if legacy {
			c.Stat("bincopy_unequal_legacy") // finding FB1 / no unknown-field storage (C03)
		} else {
			c.PropFail("C30", "Equal(m, binary copy of m) is false: "+name, append([]string{t.id}, ms[0].dump...)...)
		}
	}
	if iClone >= 0 && iClone < n && ms[iClone].name == "clone" && !E[0][iClone] {
		c.PropFail("C30", "Equal(m, Clone(m)) is false: "+name, append([]string{t.id}, ms[0].dump...)...)
	}
	// model comparison: the original against every member, and a few other pairs
	emit := func(i, j int) {
		c.Case("equal", "equal", append(append([]string{t.id}, ms[i].dump...), ms[j].dump...), []string{Tok(E[i][j])})
	}
	for j := 0; j < n; j++ {
		emit(0, j)
	}
	for k := 0; k < 3 && n > 1; k++ {
		emit(c.Intn(n), c.Intn(n))
	}
}


// equalExtShapes enumerates, once per run, ALL pairs (x, y) of TestAllExtensions-like messages in
// which each side independently has {no entry, an entry holding an empty list, a populated entry}
// for each of three repeated extensions and {unset, set to its default, set} for each of two
// singular ones (243 shapes, 59049 ordered pairs, so both argument orders), and compares
// proto.Equal on the generated messages (table-driven algorithm in the default build), Value.Equal,
// proto.Equal on dynamicpb twins and mixed pairs, equality of the canonical dumps (the content) and
// equality of the deterministic encodings.  Failures are reported for property prop.
func equalExtShapes(c *Ctx, prop string, typeName string, emit func(id string, a, b []string, eq bool)) {
	mt := detFindType(typeName)
	if mt == nil {
		c.PropFail(prop, "corpus type not linked: "+typeName)
		return
	}
	var reps, sings []protoreflect.ExtensionTypeDescriptor
	for _, xd := range msgExtensionsOf(mt.Descriptor()) {
		if xd.Message() != nil || xd.Kind() == protoreflect.FloatKind || xd.Kind() == protoreflect.DoubleKind {
			continue
		}
		if xd.IsList() && len(reps) < 3 {
			reps = append(reps, xd)
		} else if !xd.IsList() && !xd.IsMap() && len(sings) < 2 {
			sings = append(sings, xd)
		}
	}
	if len(reps) < 3 || len(sings) < 2 {
		c.PropFail(prop, "not enough extensions on "+typeName)
		return
	}
	nonDefault := func(xd protoreflect.ExtensionTypeDescriptor) protoreflect.Value {
		for i := 0; i < 50; i++ {
			v := msgScalar(c, xd, false)
			if !v.Equal(xd.Default()) {
				return v
			}
		}
		return msgScalar(c, xd, false)
	}
	repVal := []protoreflect.Value{msgScalar(c, reps[0], false), msgScalar(c, reps[1], false), msgScalar(c, reps[2], false)}
	singVal := []protoreflect.Value{nonDefault(sings[0]), nonDefault(sings[1])}
	type shape struct {
		gen, dyn protoreflect.Message
		dump     []string
		key      string
		det      []byte
	}
	var shapes []shape
	n := 3 * 3 * 3 * 3 * 3
	for code := 0; code < n; code++ {
		m := mt.New()
		k := code
		for i, xd := range reps {
			st := k % 3
			k /= 3
			switch st {
			case 1: // an entry of the extension map holding an empty list
				if i == 1 {
					l := m.NewField(xd).List()
					l.Append(repVal[i])
					m.Set(xd, protoreflect.ValueOfList(l))
					m.Get(xd).List().Truncate(0)
				} else {
					m.Set(xd, m.NewField(xd))
				}
			case 2:
				l := m.NewField(xd).List()
				l.Append(repVal[i])
				m.Set(xd, protoreflect.ValueOfList(l))
			}
		}
		for i, xd := range sings {
			st := k % 3
			k /= 3
			switch st {
			case 1:
				m.Set(xd, xd.Default())
			case 2:
				m.Set(xd, singVal[i])
			}
		}
		dyn := dynamicpb.NewMessage(mt.Descriptor())
		detBuild(c, m, dyn, false)
		det, err := detMarshal(m)
		if err != nil {
			c.PropFail(prop, "extension shape does not marshal: "+typeName)
			return
		}
		dump := msgDump(m)
		shapes = append(shapes, shape{m, dyn, dump, strings.Join(dump, " "), det})
	}
	id := ""
	for i := range shapes {
		for j := range shapes {
			x, y := shapes[i], shapes[j]
			want := x.key == y.key
			fail := func(what string, got bool) {
				c.PropFail(prop, fmt.Sprintf("extension-map shapes %d,%d of %s: %s=%v, content equal=%v", i, j, typeName, what, got, want),
					append(append([]string{}, x.dump...), y.dump...)...)
			}
			var got bool
			if i == j {
				if pm := x.gen.ProtoMethods(); pm != nil && pm.Equal != nil {
					got = pm.Equal(protoiface.EqualInput{MessageA: x.gen, MessageB: y.gen}).Equal
				} else {
					got = protoreflect.ValueOfMessage(x.gen).Equal(protoreflect.ValueOfMessage(y.gen))
				}
			} else {
				got = proto.Equal(x.gen.Interface(), y.gen.Interface())
			}
			if got != want {
				fail("proto.Equal(generated)", got)
			}
			if g := protoreflect.ValueOfMessage(x.gen).Equal(protoreflect.ValueOfMessage(y.gen)); g != want {
				fail("Value.Equal(generated)", g)
			}
			if g := protoreflect.ValueOfMessage(x.dyn).Equal(protoreflect.ValueOfMessage(y.dyn)); g != want {
				fail("Equal(dynamicpb)", g)
			}
			if g := proto.Equal(x.gen.Interface(), y.dyn.Interface()); g != want {
				fail("proto.Equal(generated, dynamicpb)", g)
			}
			if g := bytes.Equal(x.det, y.det); g != want {
				fail("deterministic bytes equal", g)
			}
			c.Stat("ext_shape_pairs")
			if emit != nil && c.Intn(400) == 0 {
				if id == "" {
					id = msgSchemaOf(c, mt.Descriptor())
				}
				emit(id, x.dump, y.dump, got)
			}
		}
	}
}

type equalRun struct {
	c *Ctx
}

// equalCorpus: fixed near-miss pairs on test3.TestAllTypes / test.TestAllTypes.
func (d *equalRun) corpus() {
	c := d.c
	type pair struct {
		typ  string
		a, b func(m protoreflect.Message)
		want bool
		what string
	}
	fld := func(m protoreflect.Message, n string) protoreflect.FieldDescriptor {
		fd := m.Descriptor().Fields().ByName(protoreflect.Name(n))
		if fd == nil {
			panic("no field " + n)
		}
		return fd
	}
	setF := func(n string, v protoreflect.Value) func(m protoreflect.Message) {
		return func(m protoreflect.Message) { m.Set(fld(m, n), v) }
	}
	unk := func(b ...byte) func(m protoreflect.Message) {
		return func(m protoreflect.Message) { m.SetUnknown(b) }
	}
	nan1, nan2 := math.Float64frombits(0x7ff8000000000001), math.Float64frombits(0xfff0000000000123)
	negz := math.Copysign(0, -1)
	t2, t3 := "goproto.proto.test.TestAllTypes", "goproto.proto.test3.TestAllTypes"
	pairs := []pair{
		{t2, setF("optional_double", protoreflect.ValueOfFloat64(nan1)), setF("optional_double", protoreflect.ValueOfFloat64(nan2)), true, "NaN payloads"},
		{t2, setF("optional_double", protoreflect.ValueOfFloat64(0)), setF("optional_double", protoreflect.ValueOfFloat64(negz)), true, "+0 = -0 (explicit presence)"},
		{t3, setF("singular_double", protoreflect.ValueOfFloat64(0)), setF("singular_double", protoreflect.ValueOfFloat64(negz)), false, "implicit presence: -0 is populated, +0 is not"},
		{t3, setF("singular_float", protoreflect.ValueOfFloat32(float32(negz))), setF("singular_float", protoreflect.ValueOfFloat32(float32(negz))), true, "-0 = -0"},
		{t2, setF("optional_bytes", protoreflect.ValueOfBytes(nil)), setF("optional_bytes", protoreflect.ValueOfBytes([]byte{})), true, "nil = empty bytes"},
		{t2, setF("optional_int32", protoreflect.ValueOfInt32(0)), func(m protoreflect.Message) {}, false, "unset vs explicit zero"},
		{t3, setF("singular_int32", protoreflect.ValueOfInt32(0)), func(m protoreflect.Message) {}, true, "implicit zero is unset"},
		{t2, unk(0xa0, 0x3e, 1, 0xa8, 0x3e, 2), unk(0xa8, 0x3e, 2, 0xa0, 0x3e, 1), true, "unknown reordered between numbers"},
		{t2, unk(0xa0, 0x3e, 1, 0xa0, 0x3e, 2), unk(0xa0, 0x3e, 2, 0xa0, 0x3e, 1), false, "unknown reordered within a number"},
		{t2, unk(0xa0, 0x3e, 1, 0xa8, 0x3e, 2, 0xa0, 0x3e, 3), unk(0xa0, 0x3e, 1, 0xa0, 0x3e, 3, 0xa8, 0x3e, 2), true, "unknown interleaving"},
		{t2, unk(0xa0, 0x3e, 1), unk(0xa0, 0xbe, 0x00, 1), false, "unknown tag encoded non-minimally"},
		{t2, func(m protoreflect.Message) { m.Mutable(fld(m, "repeated_int32")) }, func(m protoreflect.Message) {}, true, "empty list = unset"},
		{t2, func(m protoreflect.Message) { m.Mutable(fld(m, "map_int32_int32")) }, func(m protoreflect.Message) {}, true, "empty map = unset"},
		{t2, func(m protoreflect.Message) { m.Mutable(fld(m, "optional_nested_message")) }, func(m protoreflect.Message) {}, false, "empty message present vs unset"},
	}
	for _, p := range pairs {
		mt := detFindType(p.typ)
		if mt == nil {
			c.PropFail("C30", "corpus type not linked: "+p.typ)
			continue
		}
		for _, dynamic := range []bool{false, true} {
			mk := func() protoreflect.Message {
				if dynamic {
					return dynamicpb.NewMessage(mt.Descriptor())
				}
				return mt.New()
			}
			a, b := mk(), mk()
			p.a(a)
			p.b(b)
			got := proto.Equal(a.Interface(), b.Interface())
			got2 := proto.Equal(b.Interface(), a.Interface())
			if got != p.want || got2 != p.want {
				c.PropFail("C30", fmt.Sprintf("corpus pair %q (dynamic=%v): Equal=%v/%v want %v", p.what, dynamic, got, got2, p.want))
			}
			id := msgSchemaOf(c, mt.Descriptor())
			c.Case("equal", "equal", append(append([]string{id}, msgDump(a)...), msgDump(b)...), []string{Tok(got)})
		}
	}
	// extension set to its default / empty extension list (fast path: entries of the extension map)
	if mt := detFindType("goproto.proto.test.TestAllExtensions"); mt != nil {
		xs := msgExtensionsOf(mt.Descriptor())
		for _, xd := range xs {
			a, b := mt.New(), mt.New()
			want := false
			switch {
			case xd.IsList():
				a.Set(xd, a.NewField(xd))
				want = true
			case xd.Message() != nil:
				a.Set(xd, a.NewField(xd))
			default:
				a.Set(xd, xd.Default())
			}
			for _, p := range [][2]protoreflect.Message{{a, b}, {b, a}} {
				if got := proto.Equal(p[0].Interface(), p[1].Interface()); got != want {
					c.PropFail("C30", fmt.Sprintf("extension %s set to default/empty vs unset: Equal=%v want %v", xd.FullName(), got, want))
				}
				if got := protoreflect.ValueOfMessage(p[0]).Equal(protoreflect.ValueOfMessage(p[1])); got != want {
					c.PropFail("C30", fmt.Sprintf("extension %s set to default/empty vs unset: Value.Equal=%v want %v", xd.FullName(), got, want))
				}
			}
			c.Stat("corpus_ext_default")
		}
	} else {
		c.PropFail("C30", "corpus type not linked: TestAllExtensions")
	}
}

func famEqual(c *Ctx) {
	d := &equalRun{c: c}
	d.corpus()
	for _, tn := range []string{"goproto.proto.test.TestAllExtensions", "goproto.proto.testeditions.TestAllExtensions"} {
		equalExtShapes(c, "C30", tn, func(id string, a, b []string, eq bool) {
			c.Case("equal", "equal", append(append([]string{id}, a...), b...), []string{Tok(eq)})
		})
	}
	types := msgAllTypes()
	var targets []*detTarget
	for _, mt := range types {
		mt := mt
		targets = append(targets, &detTarget{md: mt.Descriptor(), gen: func() protoreflect.Message { return mt.New() }})
	}
	nrnd := c.N / 30
	if nrnd < 4 {
		nrnd = 4
	}
	var rnd []*detTarget
	for _, md := range msgRandomSchemas(c, nrnd) {
		rnd = append(rnd, &detTarget{md: md})
	}
	heavyNames := map[string]bool{}
	for _, n := range []string{"goproto.proto.test.TestAllTypes", "goproto.proto.test3.TestAllTypes", "goproto.proto.testeditions.TestAllTypes",
		"hybrid.goproto.proto.test3.TestAllTypes", "opaque.goproto.proto.test3.TestAllTypes", "opaque.goproto.proto.testeditions.TestAllTypes",
		"goproto.proto.test.TestAllExtensions", "goproto.proto.testeditions.TestAllExtensions", "opaque.lazy_opaque.Node"} {
		heavyNames[n] = true
	}
	var heavy []*detTarget
	for _, t := range targets {
		if heavyNames[string(t.md.FullName())] {
			heavy = append(heavy, t)
		}
	}
	spent := 0
	start := c.Intn(len(targets))
	for i := 0; i < len(targets) && spent < c.N/3; i++ {
		d.family(targets[(start+i)%len(targets)], 1+c.Intn(3))
		spent++
	}
	for spent < c.N {
		switch {
		case len(rnd) > 0 && c.Intn(4) == 0:
			d.family(rnd[c.Intn(len(rnd))], 1+c.Intn(3))
		case len(heavy) > 0 && c.Intn(2) == 0:
			d.family(heavy[c.Intn(len(heavy))], 1+c.Intn(3))
		default:
			d.family(targets[c.Intn(len(targets))], 1+c.Intn(3))
		}
		spent++
	}
}
