//go:build verif && !protoreflect

package main

// resetFastBuild: proto.{Unmarshal,Merge,Size,Reset} use the generated
// methods (hasProtoMethods = true in package proto).
const resetFastBuild = true
