//go:build verif

package main

// family "dval" (C35), part 2: isolation.  protodesc.NewFile is run in a child process (the
// same binary re-executed with VERIF_DVAL_CHILD=1) because some failure modes do not unwind
// as a panic: editions.go calls os.Exit(1) for an edition outside the embedded defaults, and a
// runaway recursion would be a fatal stack overflow.  The parent learns the offending input
// from the "B <idx>" line that has no matching "R <idx>" line.

import (
	"bufio"
	"encoding/binary"
	"encoding/hex"
	"fmt"
	"io"
	"os"
	"os/exec"
	"regexp"
	"strings"
	"time"

	"google.golang.org/protobuf/proto"
	"google.golang.org/protobuf/reflect/protodesc"
	"google.golang.org/protobuf/reflect/protoregistry"
	"google.golang.org/protobuf/types/descriptorpb"
)

const (
	dvalFlagAllow   = 1 // FileOptions.AllowUnresolvable
	dvalFlagGlobal  = 2 // resolver = protoregistry.GlobalFiles (else nil)
	dvalFlagNilify  = 4 // replace empty nested messages by nil pointers
	dvalFlagNilFile = 8 // pass a nil *FileDescriptorProto
	dvalFlagMulti   = 16 // input is a FileDescriptorSet: dependencies first, subject last
)

type dvalInput struct {
	Flags byte
	P     *descriptorpb.FileDescriptorProto
	Raw   []byte // used instead of P when non-nil (already serialised)
}

type dvalOutcome struct {
	Kind string // "ok", "err", "panic", "exit" (child died), "hang"
	Text string
}

func init() {
	if os.Getenv("VERIF_DVAL_CHILD") == "1" {
		dvalChildMain()
		os.Exit(0)
	}
}

func dvalNilify(p *descriptorpb.FileDescriptorProto) {
	empty := func(m proto.Message) bool { return proto.Size(m) == 0 }
	var doMsg func(m *descriptorpb.DescriptorProto)
	doEnum := func(e *descriptorpb.EnumDescriptorProto) {
		for i, v := range e.Value {
			if empty(v) {
				e.Value[i] = nil
			}
		}
		for i, v := range e.ReservedRange {
			if empty(v) {
				e.ReservedRange[i] = nil
			}
		}
		if e.Options != nil && empty(e.Options) {
			e.Options = nil
		}
	}
	doFields := func(fs []*descriptorpb.FieldDescriptorProto) {
		for i, f := range fs {
			if empty(f) {
				fs[i] = nil
			}
		}
	}
	doMsg = func(m *descriptorpb.DescriptorProto) {
		doFields(m.Field)
		doFields(m.Extension)
		for i, x := range m.NestedType {
			if empty(x) {
				m.NestedType[i] = nil
			} else {
				doMsg(x)
			}
		}
		for i, x := range m.EnumType {
			if empty(x) {
				m.EnumType[i] = nil
			} else {
				doEnum(x)
			}
		}
		for i, x := range m.OneofDecl {
			if empty(x) {
				m.OneofDecl[i] = nil
			}
		}
		for i, x := range m.ExtensionRange {
			if empty(x) {
				m.ExtensionRange[i] = nil
			}
		}
		for i, x := range m.ReservedRange {
			if empty(x) {
				m.ReservedRange[i] = nil
			}
		}
	}
	doFields(p.Extension)
	for i, x := range p.MessageType {
		if empty(x) {
			p.MessageType[i] = nil
		} else {
			doMsg(x)
		}
	}
	for i, x := range p.EnumType {
		if empty(x) {
			p.EnumType[i] = nil
		} else {
			doEnum(x)
		}
	}
	for i, s := range p.Service {
		if empty(s) {
			p.Service[i] = nil
			continue
		}
		for j, m := range s.Method {
			if empty(m) {
				s.Method[j] = nil
			}
		}
	}
	if p.SourceCodeInfo != nil {
		for i, l := range p.SourceCodeInfo.Location {
			if empty(l) {
				p.SourceCodeInfo.Location[i] = nil
			}
		}
	}
}

// dvalRunOne is the observation: NewFile under recover.
func dvalRunOne(flags byte, raw []byte) (out dvalOutcome) {
	defer func() {
		if r := recover(); r != nil {
			out = dvalOutcome{"panic", fmt.Sprint(r)}
		}
	}()
	if flags&dvalFlagMulti != 0 {
		// raw = FileDescriptorSet: every file but the last is registered (in order) in a fresh
		// local registry, which is the resolver for the last one (the subject)
		set := &descriptorpb.FileDescriptorSet{}
		if err := (proto.UnmarshalOptions{AllowPartial: true}).Unmarshal(raw, set); err != nil || len(set.File) == 0 {
			return dvalOutcome{"err", "harness: cannot decode file set"}
		}
		reg := &protoregistry.Files{}
		for _, dep := range set.File[:len(set.File)-1] {
			fd, err := protodesc.NewFile(dep, reg)
			if err != nil {
				return dvalOutcome{"err", "harness: dependency rejected: " + err.Error()}
			}
			if err := reg.RegisterFile(fd); err != nil {
				return dvalOutcome{"err", "harness: dependency not registered: " + err.Error()}
			}
		}
		_, err := protodesc.FileOptions{AllowUnresolvable: flags&dvalFlagAllow != 0}.New(set.File[len(set.File)-1], reg)
		if err != nil {
			return dvalOutcome{"err", err.Error()}
		}
		return dvalOutcome{"ok", ""}
	}
	var p *descriptorpb.FileDescriptorProto
	if flags&dvalFlagNilFile == 0 {
		p = &descriptorpb.FileDescriptorProto{}
		if err := (proto.UnmarshalOptions{AllowPartial: true}).Unmarshal(raw, p); err != nil {
			return dvalOutcome{"err", "harness: cannot decode input: " + err.Error()}
		}
		if flags&dvalFlagNilify != 0 {
			dvalNilify(p)
		}
	}
	var r protodesc.Resolver
	if flags&dvalFlagGlobal != 0 {
		r = protoregistry.GlobalFiles
	}
	_, err := protodesc.FileOptions{AllowUnresolvable: flags&dvalFlagAllow != 0}.New(p, r)
	if err != nil {
		return dvalOutcome{"err", err.Error()}
	}
	return dvalOutcome{"ok", ""}
}

func dvalChildMain() {
	in := bufio.NewReaderSize(os.Stdin, 1<<20)
	for idx := 0; ; idx++ {
		var hdr [5]byte
		if _, err := io.ReadFull(in, hdr[:]); err != nil {
			return
		}
		n := binary.LittleEndian.Uint32(hdr[:4])
		raw := make([]byte, n)
		if _, err := io.ReadFull(in, raw); err != nil {
			return
		}
		fmt.Fprintf(os.Stdout, "B %d\n", idx)
		o := dvalRunOne(hdr[4], raw)
		fmt.Fprintf(os.Stdout, "R %d %s %s\n", idx, o.Kind, hex.EncodeToString([]byte(o.Text)))
	}
}

func dvalSerialise(in *dvalInput) []byte {
	if in.Raw != nil {
		return in.Raw
	}
	if in.P == nil {
		return []byte{}
	}
	b, err := proto.MarshalOptions{AllowPartial: true, Deterministic: true}.Marshal(in.P)
	if err != nil {
		// invalid UTF-8 in a string field etc.: the input cannot travel; use an empty file
		return []byte{}
	}
	return b
}

// A persistent child: it is restarted only after it died (os.Exit, fatal error) or hung.
type dvalChildProc struct {
	cmd   *exec.Cmd
	stdin io.WriteCloser
	lines chan dvalLine
	errb  *strings.Builder
}
type dvalLine struct {
	s   string
	eof bool
}

var dvalChild *dvalChildProc

func dvalStartChild() *dvalChildProc {
	exe, err := os.Executable()
	if err != nil {
		panic(err)
	}
	cmd := exec.Command(exe)
	cmd.Env = append(os.Environ(), "VERIF_DVAL_CHILD=1")
	stdin, _ := cmd.StdinPipe()
	stdout, _ := cmd.StdoutPipe()
	errb := &strings.Builder{}
	cmd.Stderr = errb
	if err := cmd.Start(); err != nil {
		panic(err)
	}
	p := &dvalChildProc{cmd: cmd, stdin: stdin, lines: make(chan dvalLine, 4096), errb: errb}
	go func() {
		sc := bufio.NewScanner(stdout)
		sc.Buffer(make([]byte, 1<<16), 1<<28)
		for sc.Scan() {
			p.lines <- dvalLine{s: sc.Text()}
		}
		p.lines <- dvalLine{eof: true}
	}()
	return p
}

func (p *dvalChildProc) stop() {
	p.stdin.Close()
	p.cmd.Process.Kill()
	p.cmd.Wait()
}

// dvalStopChild is called at the end of the family run.
func dvalStopChild() {
	if dvalChild != nil {
		dvalChild.stop()
		dvalChild = nil
	}
}

// dvalRunBatch runs every input in the child process and returns one outcome per input.
func dvalRunBatch(ins []*dvalInput) []dvalOutcome {
	outs := make([]dvalOutcome, len(ins))
	raws := make([][]byte, len(ins))
	for i, in := range ins {
		raws[i] = dvalSerialise(in)
	}
	start := 0
	for start < len(ins) {
		if dvalChild == nil {
			dvalChild = dvalStartChild()
		}
		done, abnormal, stderr := dvalChild.run(ins[start:], raws[start:], outs[start:])
		start += done
		if abnormal != "" {
			dvalChild = nil
			if start < len(ins) {
				outs[start] = dvalOutcome{abnormal, stderr}
				start++
			}
		}
	}
	return outs
}

// run feeds the inputs to the child; returns how many completed and, if the child stopped
// early, how ("exit" or "hang") together with the head of its stderr.
func (p *dvalChildProc) run(ins []*dvalInput, raws [][]byte, outs []dvalOutcome) (int, string, string) {
	go func() {
		w := bufio.NewWriterSize(p.stdin, 1<<16)
		for i := range ins {
			var hdr [5]byte
			binary.LittleEndian.PutUint32(hdr[:4], uint32(len(raws[i])))
			hdr[4] = ins[i].Flags
			w.Write(hdr[:])
			w.Write(raws[i])
		}
		w.Flush()
	}()
	done := 0
	timeout := time.NewTimer(120 * time.Second)
	defer timeout.Stop()
	for done < len(ins) {
		select {
		case l := <-p.lines:
			if l.eof {
				p.cmd.Wait()
				return done, "exit", dvalTail(p.errb.String())
			}
			if strings.HasPrefix(l.s, "R ") {
				parts := strings.SplitN(l.s, " ", 4)
				if len(parts) == 4 {
					txt, _ := hex.DecodeString(parts[3])
					outs[done] = dvalOutcome{parts[2], string(txt)}
					done++
					if !timeout.Stop() {
						select {
						case <-timeout.C:
						default:
						}
					}
					timeout.Reset(120 * time.Second)
				}
			}
		case <-timeout.C:
			p.stop()
			return done, "hang", dvalTail(p.errb.String())
		}
	}
	return done, "", ""
}

func dvalTail(s string) string {
	if len(s) > 300 {
		s = s[:300]
	}
	return strings.ReplaceAll(strings.ReplaceAll(s, "\n", " "), "\t", " ")
}

// ---------------------------------------------------------------- error classes

var dvalQuoted = regexp.MustCompile(`"(?:[^"\\]|\\.)*"`)

type dvalPat struct{ sub, class string }

var dvalSubReasons = []dvalPat{
	{"invalid name reference", "ref"},
	{"is not imported", "notimp"},
	{"Q not found", "nf"},
	{"is not an enum", "notenum"},
	{"is not an message", "notmsg"},
	{"unknown kind", "unk"},
	{"target name cannot be specified", "tname"},
	{"invalid kind", "kind"},
}

var dvalPats = []dvalPat{
	{"file path must be populated", "path"},
	{"proto: invalid syntax", "syntax"},
	{"use of edition", "edition"},
	{"invalid package", "package"},
	{"invalid or duplicate public import index", "pubimport"},
	{"could not resolve import", "import"},
	{"already imported", "dupimport"},
	{"invalid span", "span"},
	{"has an invalid nested name", "name"},
	{"already declared", "dup"},
	{"has an invalid oneof index", "oneofidx"},
	{"message field Q cannot resolve type", "ftype"},
	{"has invalid default", "default"},
	{"extension field Q cannot resolve extendee", "xextendee"},
	{"extension field Q cannot resolve type", "xtype"},
	{"service method Q cannot resolve", "svc"},
	{"enum Q reserved names has", "e.resnames"},
	{"enum Q reserved ranges has", "e.resranges"},
	{"must contain at least one value declaration", "e.empty"},
	{"has conflicting non-aliased values", "e.dupnum"},
	{"allows aliases, but none were found", "e.noalias"},
	{"using open semantics must have zero number", "e.first"},
	{"using open semantics has conflict", "e.nameconflict"},
	{"must have a specified number", "e.nonum"},
	{"enum value Q must not use reserved name", "e.resname"},
	{"enum value Q must not use reserved number", "e.resnum"},
	{"message Q reserved names has", "m.resnames"},
	{"message Q reserved ranges has", "m.resranges"},
	{"message Q extension ranges has", "m.extranges"},
	{"reserved and extension ranges has", "m.overlap"},
	{"has conflicting fields", "m.dupnum"},
	{"is a MessageSet, which is a legacy", "m.msgset"},
	{"is an invalid proto1 MessageSet", "m.badmsgset"},
	{"using proto3 semantics cannot have extension ranges", "m.p3ext"},
	{"message field Q must not use reserved name", "f.resname"},
	{"message field Q has an invalid number", "f.num"},
	{"message field Q has an invalid cardinality", "f.card"},
	{"message field Q must not use reserved number", "f.resnum"},
	{"in extension range", "f.inext"},
	{"may not have extendee", "f.extendee"},
	{"must be specified in the proto3 syntax", "f.p3o.syntax"},
	{"must have optional cardinality", "f.p3o.card"},
	{"must be within a single element oneof", "f.p3o.oneof"},
	{"message field Q is not packable", "f.pack"},
	{"message field Q is an invalid group", "f.group"},
	{"is an invalid map", "f.map"},
	{"using proto3 semantics cannot be required", "f.p3req"},
	{"using proto3 semantics may only depend on open enums", "f.p3enum"},
	{"with implicit presence may only use open enums", "f.implenum"},
	{"must contain at least one field declaration", "o.empty"},
	{"must have consecutively declared fields", "o.consec"},
	{"must be declared before synthetic oneofs", "o.synth"},
	{"belongs in a oneof and must be optional", "o.card"},
	{"extension field Q has an invalid number", "x.num"},
	{"extension field Q has an invalid cardinality", "x.card"},
	{"may not have an explicitly set JSON name", "x.json"},
	{"may not be part of a oneof", "x.oneof"},
	{"with non-extension field number", "x.range"},
	{"extends MessageSet and must be", "x.msgset"},
	{"extension field Q is not packable", "x.pack"},
	{"extension field Q is an invalid group", "x.group"},
	{"cannot be a map entry", "x.map"},
	{"cannot be declared in proto3", "x.p3"},
}

// dvalClass projects an outcome onto the small enum the model speaks.
func dvalClass(o dvalOutcome) string {
	switch o.Kind {
	case "ok":
		return "ok"
	case "err":
		sk := dvalQuoted.ReplaceAllString(o.Text, "Q")
		for _, p := range dvalPats {
			if strings.Contains(sk, p.sub) {
				switch p.class {
				case "ftype", "xextendee", "xtype":
					for _, s := range dvalSubReasons {
						if strings.Contains(sk, s.sub) {
							return p.class + ":" + s.class
						}
					}
					return p.class + ":other"
				}
				return p.class
			}
		}
		return "other"
	default:
		return o.Kind
	}
}
