//go:build verif

package main

import (
	"os"
	"strings"
)

// family "known": well-known-type helpers.
//   C43  durationpb / timestamppb helpers (New, AsDuration, AsTime, CheckValid)   -> fam_known_time.go
//   C44  fieldmaskpb path-set algebra and path validity                          -> fam_known_fm.go
//   C23  protojson forms of Duration / Timestamp / FieldMask                     -> fam_known_json.go
// A trailing positional argument "sel=C44" (props/Cxx.json "args") restricts the run to
// the generators of one property; without it all of them run.

func init() { Register("known", famKnown) }

func knownSel() string {
	for _, a := range os.Args {
		if strings.HasPrefix(a, "sel=") {
			return a[4:]
		}
	}
	return ""
}

func famKnown(c *Ctx) {
	sel := knownSel()
	if sel == "" || sel == "C43" {
		knownTimeHelpers(c, c.N)
	}
	if sel == "" || sel == "C23" {
		knownDurationJSON(c, c.N/2)
		knownFieldMaskJSON(c, c.N/4)
		knownTimestampJSON(c, c.N/4)
	}
	if sel == "" || sel == "C44" {
		knownFieldMaskAlgebra(c, c.N/2)
		knownFieldMaskValidity(c, c.N/2)
	}
}
