//go:build verif

package main

import (
	"math"
	"math/big"
	"strings"
	"time"

	"google.golang.org/protobuf/types/known/durationpb"
	"google.golang.org/protobuf/types/known/timestamppb"
)

// ---------------------------------------------------------------- C43: durationpb / timestamppb helpers

var (
	knownBigE9  = big.NewInt(1000000000)
	knownBigMax = big.NewInt(math.MaxInt64)
	knownBigMin = big.NewInt(math.MinInt64)
)

func knownExact(secs int64, nanos int32) *big.Int {
	z := new(big.Int).Mul(big.NewInt(secs), knownBigE9)
	return z.Add(z, big.NewInt(int64(nanos)))
}
func knownClamp(z *big.Int) int64 {
	if z.Cmp(knownBigMax) > 0 {
		return math.MaxInt64
	}
	if z.Cmp(knownBigMin) < 0 {
		return math.MinInt64
	}
	return z.Int64()
}

// knownF4: the recogniser of known finding F4 = Coq's f4_class: the product seconds*10^9
// alone leaves int64 while seconds*10^9+nanos is strictly inside.
func knownF4(secs int64, nanos int32) bool {
	prod := new(big.Int).Mul(big.NewInt(secs), knownBigE9)
	tot := knownExact(secs, nanos)
	return (prod.Cmp(knownBigMax) > 0 && tot.Cmp(knownBigMax) < 0) ||
		(prod.Cmp(knownBigMin) < 0 && tot.Cmp(knownBigMin) > 0)
}

func knownErrClassDur(err error) string {
	if err == nil {
		return "0"
	}
	s := err.Error()
	switch {
	case strings.Contains(s, "invalid nil"):
		return "1"
	case strings.Contains(s, "exceeds -10000 years"):
		return "2"
	case strings.Contains(s, "exceeds +10000 years"):
		return "3"
	case strings.Contains(s, "out-of-range nanos"):
		return "4"
	case strings.Contains(s, "different signs"):
		return "5"
	}
	return "?"
}
func knownErrClassTs(err error) string {
	if err == nil {
		return "0"
	}
	s := err.Error()
	switch {
	case strings.Contains(s, "invalid nil"):
		return "1"
	case strings.Contains(s, "before 0001-01-01"):
		return "2"
	case strings.Contains(s, "after 9999-12-31"):
		return "3"
	case strings.Contains(s, "out-of-range nanos"):
		return "4"
	}
	return "?"
}

func knownDurPair(c *Ctx, secs int64, nanos int32) {
	ins := []string{HexZ(secs), HexZ(int64(nanos))}
	x := &durationpb.Duration{Seconds: secs, Nanos: nanos}
	got := int64(x.AsDuration())
	c.Case("known", "asdur", ins, []string{HexZ(got)})
	c.Case("known", "go_asdur", append([]string{"0"}, ins...), []string{HexZ(got)}) // Tier T: translated source
	want := knownClamp(knownExact(secs, nanos))
	if got != want {
		if knownF4(secs, nanos) {
			c.Known("F4", "C43", "AsDuration: seconds*10^9 overflows but seconds*10^9+nanos is representable")
			c.Stat("dur.asdur.F4")
		} else {
			c.PropFail("C43", "AsDuration is not the exact value clamped to int64", ins...)
		}
	} else if knownF4(secs, nanos) {
		c.PropFail("C43", "F4 recogniser too wide: AsDuration is exact on an input of the class", ins...)
	}
	if got == math.MaxInt64 || got == math.MinInt64 {
		c.Stat("dur.asdur.clamped")
	} else {
		c.Stat("dur.asdur.exact")
	}

	err := x.CheckValid()
	cls := knownErrClassDur(err)
	c.Case("known", "durcheck", ins, []string{cls})
	c.Case("known", "go_durcheck", append([]string{"0"}, ins...), []string{cls, Tok(x.IsValid())})
	if x.IsValid() != (err == nil) {
		c.PropFail("C43", "Duration IsValid != (CheckValid == nil)", ins...)
	}
	// documented range: within 10000 years (365.25 days each), |nanos| < 10^9, signs not opposite
	const tenKYears = 10000 * 36525 * 864 // 10000 * 365.25 * 86400
	wantValid := secs >= -tenKYears && secs <= tenKYears && nanos > -1000000000 && nanos < 1000000000 &&
		!(secs > 0 && nanos < 0) && !(secs < 0 && nanos > 0)
	if wantValid != (err == nil) {
		c.PropFail("C43", "Duration CheckValid does not accept exactly the documented range", ins...)
	}
	c.Stat("dur.check." + cls)
}

func knownDurNew(c *Ctx, d int64) {
	x := durationpb.New(time.Duration(d))
	c.Case("known", "durnew", []string{HexZ(d)}, []string{HexZ(x.Seconds), HexZ(int64(x.Nanos))})
	c.Case("known", "go_durnew", []string{HexZ(d)}, []string{HexZ(x.Seconds), HexZ(int64(x.Nanos))})
	if int64(x.AsDuration()) != d {
		c.PropFail("C43", "durationpb.New(d).AsDuration() != d", HexZ(d))
	}
	if knownExact(x.Seconds, x.Nanos).Cmp(big.NewInt(d)) != 0 || x.Nanos <= -1000000000 || x.Nanos >= 1000000000 ||
		(x.Seconds > 0 && x.Nanos < 0) || (x.Seconds < 0 && x.Nanos > 0) {
		c.PropFail("C43", "durationpb.New(d) fields are not the normalised decomposition of d", HexZ(d))
	}
	if !x.IsValid() {
		c.PropFail("C43", "durationpb.New(d) is not valid", HexZ(d))
	}
	c.Stat("dur.new")
}

var knownLocs = []*time.Location{time.UTC, time.FixedZone("x", 3600*5+1800), time.FixedZone("y", -3600*11), time.Local}

func knownTsNew(c *Ctx, unix int64, nsec int64) {
	// nsec in [0, 1e9): time.Unix does not normalise, so the time.Time is exactly (unix, nsec)
	t := time.Unix(unix, nsec).In(knownLocs[c.Intn(len(knownLocs))])
	x := timestamppb.New(t)
	c.Case("known", "tsnew", []string{HexZ(unix), HexZ(nsec)}, []string{HexZ(x.Seconds), HexZ(int64(x.Nanos))})
	c.Case("known", "go_tsnew", []string{HexZ(t.Unix()), HexZ(int64(t.Nanosecond()))}, []string{HexZ(x.Seconds), HexZ(int64(x.Nanos))})
	back := x.AsTime()
	if !back.Equal(t) || back.Location() != time.UTC || back.Unix() != unix || int64(back.Nanosecond()) != nsec {
		c.PropFail("C43", "timestamppb.New(t).AsTime() != t", HexZ(unix), HexZ(nsec))
	}
	c.Stat("ts.new")
}

var knownMinTs = time.Date(1, 1, 1, 0, 0, 0, 0, time.UTC).Unix()
var knownMaxTs = time.Date(9999, 12, 31, 23, 59, 59, 0, time.UTC).Unix()

func knownTsPair(c *Ctx, secs int64, nanos int32) {
	ins := []string{HexZ(secs), HexZ(int64(nanos))}
	x := &timestamppb.Timestamp{Seconds: secs, Nanos: nanos}
	t := x.AsTime()
	c.Case("known", "astime", ins, []string{HexZ(t.Unix()), HexZ(int64(t.Nanosecond()))})
	// exact oracle: unix*1e9+nsec == secs*1e9+nanos whenever seconds do not wrap
	got := new(big.Int).Mul(big.NewInt(t.Unix()), knownBigE9)
	got.Add(got, big.NewInt(int64(t.Nanosecond())))
	if secs > math.MinInt64+4 && secs < math.MaxInt64-4 && got.Cmp(knownExact(secs, nanos)) != 0 {
		c.PropFail("C43", "AsTime is not the instant seconds+nanos", ins...)
	}
	if nanos >= 0 && nanos < 1000000000 {
		y := timestamppb.New(t)
		if y.Seconds != secs || y.Nanos != nanos {
			c.PropFail("C43", "timestamppb.New(x.AsTime()) != x", ins...)
		}
	}
	err := x.CheckValid()
	cls := knownErrClassTs(err)
	c.Case("known", "tscheck", ins, []string{cls})
	c.Case("known", "go_tscheck", append([]string{"0"}, ins...), []string{cls, Tok(x.IsValid())})
	if x.IsValid() != (err == nil) {
		c.PropFail("C43", "Timestamp IsValid != (CheckValid == nil)", ins...)
	}
	wantValid := secs >= knownMinTs && secs <= knownMaxTs && nanos >= 0 && nanos <= 999999999
	if wantValid != (err == nil) {
		c.PropFail("C43", "Timestamp CheckValid does not accept exactly years 1..9999 / nanos 0..999999999", ins...)
	}
	if err == nil {
		if y := t.Year(); y < 1 || y > 9999 {
			c.PropFail("C43", "valid Timestamp outside years 1..9999", ins...)
		}
	}
	c.Stat("ts.check." + cls)
}

var knownSecsB = []int64{0, 1, -1, 2, -2, 59, 60, 86399, 86400,
	315576000000, 315576000001, 315575999999, -315576000000, -315576000001, -315575999999,
	-62135596800, -62135596801, -62135596799, 253402300799, 253402300800, 253402300798,
	9223372033, 9223372034, 9223372035, 9223372036, 9223372037, 9223372038, 9223372039, 9223372040,
	-9223372033, -9223372034, -9223372035, -9223372036, -9223372037, -9223372038, -9223372039, -9223372040,
	18446744073, 18446744074, -18446744073, -18446744074, 4294967296, -4294967296, 2147483647, -2147483648,
	math.MaxInt64, math.MaxInt64 - 1, math.MinInt64, math.MinInt64 + 1, math.MaxInt64 / 2, math.MinInt64 / 2}
var knownNanosB = []int32{0, 1, -1, 999999999, -999999999, 1000000000, -1000000000, 1000000001, -1000000001,
	999999998, -999999998, 500000000, -500000000, 2000000000, -2000000000, 1999999999, -1999999999,
	145224191, 145224192, 145224193, 145224194, -145224191, -145224192, -145224193, -145224194,
	854775806, 854775807, 854775808, 854775809, -854775806, -854775807, -854775808, -854775809,
	1145224192, 1145224193, 1145224194, -1145224192, -1145224193, -1145224194,
	2145224192, 2145224193, 2145224194, -2145224192, -2145224193, -2145224194,
	math.MaxInt32, math.MaxInt32 - 1, math.MinInt32, math.MinInt32 + 1}

// knownBits: for every bit length 2^k-1, 2^k, 2^k+1 and random values of that length
func knownBits(c *Ctx) uint64 {
	k := c.Intn(65)
	var base uint64
	if k < 64 {
		base = uint64(1) << k
	}
	switch c.Intn(5) {
	case 0:
		return base - 1
	case 1:
		return base
	case 2:
		return base + 1
	default:
		if k == 0 {
			return 0
		}
		v := c.U64()
		if k < 64 {
			v &= base - 1
			v |= uint64(1) << (k - 1)
		}
		return v
	}
}

func knownGenSecs(c *Ctx) int64 {
	switch c.Intn(6) {
	case 0:
		return knownSecsB[c.Intn(len(knownSecsB))] + int64(c.Intn(7)) - 3
	case 1: // near +-MaxInt64/1e9
		v := int64(9223372036) + int64(c.Intn(9)) - 4
		if c.Bool() {
			v = -v
		}
		return v
	case 2: // near the validity limits
		b := []int64{315576000000, -315576000000, -62135596800, 253402300799}[c.Intn(4)]
		return b + int64(c.Intn(2001)) - 1000
	case 3:
		return int64(knownBits(c))
	case 4:
		return int64(c.U64()%20000000000) - 10000000000
	default:
		return int64(c.U64()%800000000000) - 400000000000
	}
}
func knownGenNanos(c *Ctx) int32 {
	switch c.Intn(5) {
	case 0:
		return knownNanosB[c.Intn(len(knownNanosB))]
	case 1:
		return int32(c.U64())
	case 2:
		return int32(c.U64()%1000000000) * int32(1-2*c.Intn(2))
	case 3:
		return knownNanosB[c.Intn(len(knownNanosB))] + int32(c.Intn(5)) - 2
	default:
		return int32(c.U64() % 1000000000)
	}
}

func knownTimeHelpers(c *Ctx, budget int) {
	// (a) boundary corpus: the F4 witnesses first, then the full cross product
	knownDurPair(c, 9223372037, -999999999)
	knownDurPair(c, -9223372037, 999999999)
	for _, s := range knownSecsB {
		for _, n := range knownNanosB {
			knownDurPair(c, s, n)
			knownTsPair(c, s, n)
		}
	}
	for _, d := range []int64{0, 1, -1, 999999999, -999999999, 1000000000, -1000000000, 1000000001, -1000000001,
		math.MaxInt64, math.MinInt64, math.MaxInt64 - 1, math.MinInt64 + 1, 9223372036000000000, -9223372036000000000,
		9223372036999999999 - 1000000000, 1500000000, -1500000000} {
		knownDurNew(c, d)
	}
	for _, s := range knownSecsB {
		for _, ns := range []int64{0, 1, 999999999, 500000000} {
			knownTsNew(c, s, ns)
		}
	}
	// nil receivers
	var nd *durationpb.Duration
	var nt *timestamppb.Timestamp
	if nd.IsValid() || knownErrClassDur(nd.CheckValid()) != "1" || nt.IsValid() || knownErrClassTs(nt.CheckValid()) != "1" {
		c.PropFail("C43", "nil Duration/Timestamp not reported invalid (invalidNil)")
	}
	c.Case("known", "go_asdur", []string{"1", "0", "0"}, []string{HexZ(int64(nd.AsDuration()))})
	c.Case("known", "go_durcheck", []string{"1", "0", "0"}, []string{knownErrClassDur(nd.CheckValid()), Tok(nd.IsValid())})
	c.Case("known", "go_tscheck", []string{"1", "0", "0"}, []string{knownErrClassTs(nt.CheckValid()), Tok(nt.IsValid())})
	if nd.AsDuration() != 0 || !nt.AsTime().Equal(time.Unix(0, 0)) {
		c.PropFail("C43", "nil Duration/Timestamp do not convert to zero")
	}
	// time.Now (monotonic reading present) must round-trip as well
	now := time.Now()
	if !timestamppb.New(now).AsTime().Equal(now) {
		c.PropFail("C43", "timestamppb.New(time.Now()).AsTime() != now")
	}
	// (b) random
	for i := 0; i < budget; i++ {
		switch c.Intn(5) {
		case 0:
			knownDurNew(c, int64(knownBits(c))*int64(1-2*c.Intn(2)))
		case 1:
			knownTsNew(c, knownGenSecs(c), int64(c.U64()%1000000000))
		case 2:
			knownTsPair(c, knownGenSecs(c), knownGenNanos(c))
		default:
			knownDurPair(c, knownGenSecs(c), knownGenNanos(c))
		}
	}
}
