//go:build verif

package main

import (
	"fmt"
	"go/ast"
	"go/token"
	"strings"
	"unicode"
	"unicode/utf8"

	"google.golang.org/protobuf/encoding/protojson"
	"google.golang.org/protobuf/internal/strs"
	"google.golang.org/protobuf/reflect/protoreflect"
	"google.golang.org/protobuf/types/known/fieldmaskpb"
)

// family "names": C42 — internal/strs name conversions (this file) and the
// name-uniqueness logic of compiler/protogen (fam_names_unique.go).
//
// ops
//   pure  <s>            | GoCamelCase JSONCamelCase JSONSnakeCase fmclass fmout
//   go_pure <s>          | GoCamelCase JSONCamelCase JSONSnakeCase, or "panic"  (compared with the *translated source*, Gen/StrsGo.v)
//   go_cls <byte>        | isASCIILower isASCIIUpper isASCIIDigit as observed through the exported functions (Gen/StrsGo.v)
//   trim  <s> <prefix>   | TrimEnumPrefix      (hand model CodeGen/StrsTrimModel.v)
//   go_trim <s> <prefix> | TrimEnumPrefix, or "panic"  (translated source)
//   go_lower <byte>      | unicode.ToLower(rune(byte))  (hand-written CodeGen/StrsGoBase.v, which the translated TrimEnumPrefix calls)
//   san   <s> <table>    | GoSanitized      (table = unicode class of every non-ASCII rune of s)
//   unique ...           | see fam_names_unique.go

func init() {
	Register("names", famNames)
	Register("names_rand", famNamesRand) // random part only: shards of the thorough tier do not repeat the exhaustive part
}

// representatives of every byte class the functions distinguish (lower, upper,
// digit, '_', '.', other) with two members per class, plus the letters that
// have a special role (X is what an initial '_' becomes).
var namesClassAlphabet = []byte("azAX09_.-\x80")

// all bytes a protobuf full name may contain
var namesIdentAlphabet = []byte("abcdefghijklmnopqrstuvwxyzABCDEFGHIJKLMNOPQRSTUVWXYZ0123456789_.")

var namesCorpus = []string{
	"", "_", "__", "_a", "a_", "a__b", "a_b", "a_B", "aB", "A_b", "_foo", "X_foo", "x_foo", "foo_bar", "fooBar",
	"foo.bar", "foo._bar", "foo.Bar", ".", "..", "a.", ".a", "a..b", "foo_1", "foo_1a", "1", "1a", "a1b", "_1",
	"get_y", "GetY", "Get_y", "getY", "XXX_unrecognized", "break", "type", "go", "Go", "_go", "func1",
	"foo-bar", "\x80", "a\xffb", "\xc3\xa9", "é_x", "日本", "٣", "a٣", "²", "Ⅷ", "á", "�", "\xed\xa0\x80",
	"\xf4\x90\x80\x80", "\xc0\x80", "\xe2\x82", "a b", "a\tb", "\U0010ffff", "\U00010400",
	"foo_bar_baz", "foo__bar", "foo_bar_", "_foo_bar", "fooBarBaz", "FOO_BAR", "foo_Bar", "foo.bar_baz", "foo._", "a_.b",
}

func namesProtoIdent(s string) bool {
	if s == "" {
		return false
	}
	for i := 0; i < len(s); i++ {
		c := s[i]
		ok := c == '_' || 'a' <= c && c <= 'z' || 'A' <= c && c <= 'Z' || (i > 0 && '0' <= c && c <= '9')
		if !ok {
			return false
		}
	}
	return true
}

// the closed form of "JSONSnakeCase(JSONCamelCase(s)) == s" (Coq: snake_ok)
func namesSnakeOK(s string) bool {
	for i := 0; i < len(s); i++ {
		c := s[i]
		if 'A' <= c && c <= 'Z' {
			return false
		}
		if c == '_' && !(i+1 < len(s) && 'a' <= s[i+1] && s[i+1] <= 'z') {
			return false
		}
	}
	return true
}

func namesOnlyIdentBytes(s string) bool {
	for i := 0; i < len(s); i++ {
		c := s[i]
		if !(c == '_' || 'a' <= c && c <= 'z' || 'A' <= c && c <= 'Z' || '0' <= c && c <= '9') {
			return false
		}
	}
	return true
}

// marshalFieldMask on a one-path mask: 0 accepted, 1 invalid path, 2 irreversible, 9 other
func namesFieldMask(c *Ctx, s string) (int, string) {
	m := &fieldmaskpb.FieldMask{Paths: []string{s}}
	b, err := protojson.Marshal(m)
	if err != nil {
		switch {
		case strings.Contains(err.Error(), "invalid path"):
			return 1, ""
		case strings.Contains(err.Error(), "irreversible"):
			return 2, ""
		}
		return 9, ""
	}
	out := string(b)
	if len(out) < 2 || out[0] != '"' || out[len(out)-1] != '"' {
		return 9, ""
	}
	// the property: an accepted path comes back unchanged
	var m2 fieldmaskpb.FieldMask
	if err := protojson.Unmarshal(b, &m2); err != nil || len(m2.Paths) != 1 || m2.Paths[0] != s {
		c.PropFail("C42", "accepted FieldMask path does not round-trip through JSON", HexB([]byte(s)))
	}
	return 0, out[1 : len(out)-1]
}

// namesCall runs one of the strs conversions; a panic (the property and the
// theorem C42_go_strs_never_panic say there is none) is a property failure with
// the input attached.
func namesCall(c *Ctx, name string, f func(string) string, s string) (out string, tok string) {
	defer func() {
		if r := recover(); r != nil {
			c.PropFail("C42", "strs."+name+" panics", HexB([]byte(s)))
			out, tok = "", "panic"
		}
	}()
	out = f(s)
	return out, HexB([]byte(out))
}

// namesClasses observes the unexported byte classes through the exported
// functions, for every byte value: JSONSnakeCase(c) has two bytes exactly when
// isASCIIUpper(c); JSONCamelCase("_"+c) differs from c (for c != '_') exactly
// when isASCIILower(c); GoCamelCase(c+"a") == c+"A" exactly when isASCIIDigit(c)
// (a digit does not start a word, so the 'a' after it is capitalised; after any
// other copied byte the inner loop copies the 'a' unchanged; '.', '_' and
// lower-case letters are not copied as they are).
func namesClasses(c *Ctx) {
	for b := 0; b < 256; b++ {
		ch := string([]byte{byte(b)})
		upper := len(strs.JSONSnakeCase(ch)) == 2
		lower := b != '_' && strs.JSONCamelCase("_"+ch) != ch
		digit := strs.GoCamelCase(ch+"a") == ch+"A"
		c.Case("names", "go_cls", []string{HexN(uint64(b))}, []string{namesBool(lower), namesBool(upper), namesBool(digit)})
	}
}

var namesTrimCorpus = [][2]string{
	{"FOO_BAR", "foo"}, {"FOO_BAR", "foobar"}, {"FOO_BAR", "foob"}, {"_FOO__BAR", "foo"}, {"foo", "foo"}, {"FOO_", "foo"}, {"FOO", ""},
	{"", ""}, {"", "a"}, {"___", ""}, {"___", "a"}, {"F_O_O_x", "foo"}, {"FOO__x", "foo"}, {"FOOx", "fo_o"}, {"FO_Ox", "fo_o"},
	{"\xc0B", "\xe0"}, {"\xc0B", "\xc0"}, {"\xd7B", "\xf7"}, {"\xd7B", "\xd7"}, {"\xdeB", "\xfe"}, {"\xdfB", "\xff"}, {"\xb5B", "\xb5"},
	{"\xffB", "\xff"}, {"\x80B", "\x80"}, {"\x80B", "\xa0"}, {"ZB", "z"}, {"[B", "{"}, {"@B", "`"}, {"zB", "z"},
}

// namesTrim: strs.TrimEnumPrefix against the hand model (trim) and against the
// translated source (go_trim); the predicate: no panic, the result is a suffix
// of s and is empty only when s is.
func namesTrim(c *Ctx, s, prefix string) {
	out, tok := func() (out, tok string) {
		defer func() {
			if r := recover(); r != nil {
				c.PropFail("C42", "strs.TrimEnumPrefix panics", HexB([]byte(s)), HexB([]byte(prefix)))
				out, tok = "", "panic"
			}
		}()
		out = strs.TrimEnumPrefix(s, prefix)
		return out, HexB([]byte(out))
	}()
	in := []string{HexB([]byte(s)), HexB([]byte(prefix))}
	c.Case("names", "go_trim", in, []string{tok})
	if tok == "panic" {
		return
	}
	c.Case("names", "trim", in, []string{tok})
	if !strings.HasSuffix(s, out) || (s != "" && out == "") {
		c.PropFail("C42", "TrimEnumPrefix result is not a non-empty suffix of the value name", in[0], in[1], tok)
	}
	if out != s {
		c.Stat("trim_trimmed")
	} else {
		c.Stat("trim_unchanged")
	}
}

func namesTrimAll(c *Ctx) {
	for b := 0; b < 256; b++ {
		c.Case("names", "go_lower", []string{HexN(uint64(b))}, []string{HexN(uint64(unicode.ToLower(rune(byte(b)))))})
	}
	for _, p := range namesTrimCorpus {
		namesTrim(c, p[0], p[1])
	}
	var prefixes []string
	namesEnum([]byte("ab\xe0"), 2, func(p string) { prefixes = append(prefixes, p) })
	namesEnum([]byte("aA_b\xc0"), 4, func(s string) {
		for _, p := range prefixes {
			namesTrim(c, s, p)
		}
	})
}

func namesTrimRandom(c *Ctx) {
	parts := []string{"FOO", "foo", "Foo", "BAR", "bar", "_", "__", "x", "X", "1", "\xc0", "\xe0", "\xd7", "\xff"}
	var s, p strings.Builder
	for k := c.Intn(5); k >= 0; k-- {
		s.WriteString(parts[c.Intn(len(parts))])
	}
	if c.Intn(3) > 0 {
		// a prefix that matches: the lower-cased, underscore-free beginning of s
		t := strings.ReplaceAll(strings.ToLower(s.String()), "_", "")
		if len(t) > 0 {
			t = t[:1+c.Intn(len(t))]
		}
		p.WriteString(t)
	} else {
		for k := c.Intn(3); k > 0; k-- {
			p.WriteString(strings.ToLower(parts[c.Intn(len(parts))]))
		}
	}
	namesTrim(c, s.String(), p.String())
}

func namesBool(b bool) string {
	if b {
		return "1"
	}
	return "0"
}

// namesSkipGo: the go_pure comparison (translated source against implementation) is
// left out for the 64^3 three-byte strings over the full-name alphabet; the class
// representatives up to length 5 cover every path through the three loops.
var namesSkipGo bool

func namesPure(c *Ctx, s string) {
	cc, t1 := namesCall(c, "GoCamelCase", strs.GoCamelCase, s)
	jc, t2 := namesCall(c, "JSONCamelCase", strs.JSONCamelCase, s)
	js, t3 := namesCall(c, "JSONSnakeCase", strs.JSONSnakeCase, s)
	panicked := t1 == "panic" || t2 == "panic" || t3 == "panic"
	if !namesSkipGo || panicked {
		c.Case("names", "go_pure", []string{HexB([]byte(s))}, []string{t1, t2, t3})
	}
	if panicked {
		return
	}
	cls, out := namesFieldMask(c, s)
	c.Case("names", "pure", []string{HexB([]byte(s))},
		[]string{HexB([]byte(cc)), HexB([]byte(jc)), HexB([]byte(js)), fmt.Sprint(cls), HexB([]byte(out))})
	if namesProtoIdent(s) {
		c.Stat("pure_ident")
		if !token.IsIdentifier(cc) || !ast.IsExported(cc) || !namesOnlyIdentBytes(cc) || !('A' <= cc[0] && cc[0] <= 'Z') {
			c.PropFail("C42", "GoCamelCase of a protobuf identifier is not an exported ASCII Go identifier", HexB([]byte(s)), HexB([]byte(cc)))
		}
	}
	// acceptance is exactly: valid full name and reversible (closed form)
	want := 0
	if !protoreflect.FullName(s).IsValid() {
		want = 1
	} else if !namesSnakeOK(s) {
		want = 2
	}
	if cls != want {
		c.PropFail("C42", fmt.Sprintf("FieldMask path class %d, closed form says %d", cls, want), HexB([]byte(s)))
	}
	if (strs.JSONSnakeCase(jc) == s) != namesSnakeOK(s) {
		c.PropFail("C42", "JSONSnakeCase(JSONCamelCase(s)) == s differs from the closed-form condition", HexB([]byte(s)))
	}
	c.Stat(fmt.Sprintf("pure_fm%d", cls))
}

func namesSan(c *Ctx, s string) {
	out := strs.GoSanitized(s)
	var tbl []string
	seen := map[rune]bool{}
	for _, r := range s {
		if r < 128 || seen[r] {
			continue
		}
		seen[r] = true
		cl := 0
		if unicode.IsLetter(r) {
			cl = 1
		} else if unicode.IsDigit(r) {
			cl = 2
		}
		tbl = append(tbl, fmt.Sprintf("%x:%d", r, cl))
	}
	t := "-"
	if len(tbl) > 0 {
		t = strings.Join(tbl, ",")
	}
	c.Case("names", "san", []string{HexB([]byte(s)), t}, []string{HexB([]byte(out))})
	if !token.IsIdentifier(out) || token.IsKeyword(out) {
		c.PropFail("C42", "GoSanitized result is not a valid non-keyword Go identifier", HexB([]byte(s)), HexB([]byte(out)))
	}
	if utf8.ValidString(s) {
		c.Stat("san_valid_utf8")
	} else {
		c.Stat("san_invalid_utf8")
	}
	if out != s {
		c.Stat("san_changed")
	}
}

func namesEnum(alpha []byte, maxLen int, f func(string)) {
	buf := make([]byte, 0, maxLen)
	var rec func()
	rec = func() {
		f(string(buf))
		if len(buf) == maxLen {
			return
		}
		for _, a := range alpha {
			buf = append(buf, a)
			rec()
			buf = buf[:len(buf)-1]
		}
	}
	rec()
}

var namesRunePool = []rune{
	'a', 'z', 'A', 'Z', '0', '9', '_', '.', '-', ' ', '$', 0x7f, 0x80, 0xaa, 0xb2, 0xb5, 0xe9, 0x2b0, 0x301, 0x3a9, 0x660, 0x661,
	0x966, 0x2167, 0x3007, 0x4e2d, 0xd7ff, 0xe000, 0xfffd, 0xfffe, 0xff10, 0xff21, 0x10400, 0x1d7ce, 0x1f600, 0x10ffff,
}
var namesKeywords = []string{"break", "case", "chan", "const", "continue", "default", "defer", "else", "fallthrough", "for", "func",
	"go", "goto", "if", "import", "interface", "map", "package", "range", "return", "select", "struct", "switch", "type", "var"}

func namesRandString(c *Ctx) string {
	switch c.Intn(10) {
	case 0: // a keyword, possibly perturbed
		k := namesKeywords[c.Intn(len(namesKeywords))]
		switch c.Intn(4) {
		case 0:
			return k
		case 1:
			return k + string(namesRunePool[c.Intn(len(namesRunePool))])
		case 2:
			return string(namesRunePool[c.Intn(len(namesRunePool))]) + k
		default:
			return strings.ToUpper(k[:1]) + k[1:]
		}
	case 1: // raw bytes (mostly invalid UTF-8)
		return string(c.Bytes(c.Intn(7)))
	case 2: // any rune
		n := c.Intn(5)
		var sb strings.Builder
		for i := 0; i < n; i++ {
			r := rune(c.Intn(0x110000))
			if c.Bool() {
				r = rune(c.Intn(0x3000))
			}
			if r >= 0xd800 && r <= 0xdfff {
				sb.Write([]byte{0xed, 0xa0 + byte(c.Intn(32)), 0x80 + byte(c.Intn(64))}) // encoded surrogate: invalid
				continue
			}
			sb.WriteRune(r)
		}
		return sb.String()
	default:
		n := c.Intn(7)
		var sb strings.Builder
		for i := 0; i < n; i++ {
			sb.WriteRune(namesRunePool[c.Intn(len(namesRunePool))])
		}
		s := sb.String()
		if c.Intn(6) == 0 && len(s) > 0 { // truncate inside a multi-byte sequence
			s = s[:c.Intn(len(s))+1]
		}
		return s
	}
}

func namesRandIdentish(c *Ctx) string {
	parts := []string{"get", "Get", "set", "x", "X", "_", "__", ".", "foo", "Bar", "1", "9a", "y", "Z", "has", "clear", "which", "build", "a", "b"}
	n := 1 + c.Intn(5)
	var sb strings.Builder
	for i := 0; i < n; i++ {
		sb.WriteString(parts[c.Intn(len(parts))])
	}
	return sb.String()
}

func famNames(c *Ctx) {
	defer func() {
		if r := recover(); r != nil {
			c.PropFail("C42", fmt.Sprintf("panic: %v", r))
		}
	}()
	namesClasses(c)
	namesTrimAll(c)
	for _, s := range namesCorpus {
		namesPure(c, s)
		namesSan(c, s)
	}
	for _, k := range namesKeywords {
		namesSan(c, k)
		namesPure(c, k)
	}
	// exhaustive: class representatives up to length 5 (6 thorough: 1.1e6 strings);
	// every full-name byte up to length 3 (64^4 more strings would add nothing the
	// class representatives do not cover and cost 1.4 GB of case file)
	l1, l2 := 5, 3
	if c.Tier == "thorough" {
		l1 = 6
	}
	namesEnum(namesClassAlphabet, l1, func(s string) {
		namesPure(c, s)
		if len(s) <= 4 {
			namesSan(c, s)
		}
	})
	namesEnum(namesIdentAlphabet, l2, func(s string) {
		namesSkipGo = len(s) >= 3
		namesPure(c, s)
		namesSkipGo = false
	})
	namesRandom(c, c.N)
	namesUniqueCorpus(c)
	namesUniqueRandom(c, c.N/8)
}

func famNamesRand(c *Ctx) {
	defer func() {
		if r := recover(); r != nil {
			c.PropFail("C42", fmt.Sprintf("panic: %v", r))
		}
	}()
	namesRandom(c, c.N)
	namesUniqueRandom(c, c.N/8)
}

func namesRandom(c *Ctx, n int) {
	for i := 0; i < n; i++ {
		if i%8 == 0 {
			namesTrimRandom(c)
		}
		switch c.Intn(3) {
		case 0:
			namesPure(c, namesRandIdentish(c))
		default:
			s := namesRandString(c)
			namesSan(c, s)
			if c.Intn(4) == 0 {
				namesPure(c, s)
			}
		}
	}
}
