//go:build verif

package main

import (
	"fmt"
	"os"
	"path/filepath"
	"strings"
)

// family "gen_sites" (C40, Tier T stopgap): runs the X-MAPRANGE extractor
// (srcmodel_maprange/maprange.go, linked into the harness as fam_gen_maprange.go)
// on the repository under test and
//   - reports every `range` over a map whose body is not of a safe shape (P line),
//   - reports when coq/theories/Gen/MapRangeSites.v — the table the Coq theorem
//     C40_all_sites_safe_partial was checked against — is not what the source says now.
// Once bin/check regenerates the table itself (props "srcmodel": ["maprange"]) the
// second check can never fire.

func init() { Register("gen_sites", famGenSites) }

func famGenSites(c *Ctx) {
	repo := os.Getenv("VERIF_REPO")
	if repo == "" {
		repo = "/repo"
	}
	sites, nondet, marshals, errs, err := MapRangeExtract(repo)
	if err != nil {
		c.PropFail("C40", "map-range extractor failed: "+err.Error())
		return
	}
	if len(errs) > 0 {
		c.PropFail("C40", fmt.Sprintf("map-range extractor: %d type errors, first: %s", len(errs), errs[0]))
	}
	for _, s := range sites {
		c.Stat("site_" + s.Shape)
		allowed := s.File == "compiler/protogen/protogen.go" && s.Func == "Options.New" && s.Expr == "importPaths"
		if s.PtrKey || (s.Shape == "Other" && !allowed) {
			c.PropFail("C40", fmt.Sprintf("range over a map with an order-dependent body: %s:%d %s range %s (shape %s, pointer key %v)",
				s.File, s.Line, s.Func, s.Expr, s.Shape, s.PtrKey))
		}
		c.Sample(fmt.Sprintf("site %s:%d %s range %s: %s", s.File, s.Line, s.Func, s.Expr, s.Shape))
	}
	for _, n := range nondet {
		c.Stat("nondet_" + n.Kind)
		if n.Kind != "pointer_keyed_map" {
			c.PropFail("C40", fmt.Sprintf("source of nondeterminism in the generator: %s:%d %s %s %s", n.File, n.Line, n.Func, n.Kind, n.Detail))
		}
	}
	for _, m := range marshals {
		allowed := m.File == "compiler/protogen/protogen.go" &&
			(m.Func == "run" && m.Callee == "proto.Marshal" || m.Func == "Options.New" && m.Callee == "proto.Marshal" ||
				m.Func == "GeneratedFile.metaFile" && m.Callee == "prototext.Marshal")
		if m.Deterministic {
			c.Stat("marshal_deterministic")
		} else if allowed {
			c.Stat("marshal_allowed")
		} else {
			c.PropFail("C40", fmt.Sprintf("message serialised without Deterministic: true (map fields are written in iteration order): %s:%d %s %s",
				m.File, m.Line, m.Func, m.Callee))
		}
	}
	// the committed table
	exe, err := os.Executable()
	if err != nil {
		return
	}
	table := filepath.Join(filepath.Dir(filepath.Dir(exe)), "coq", "theories", "Gen", "MapRangeSites.v")
	have, err := os.ReadFile(table)
	if err != nil {
		c.Stat("table_not_found")
		return
	}
	if want := MapRangeCoq(sites, nondet, marshals); string(have) != want {
		diff := "length"
		hl, wl := strings.Split(string(have), "\n"), strings.Split(want, "\n")
		for i := 0; i < len(hl) && i < len(wl); i++ {
			if hl[i] != wl[i] {
				diff = fmt.Sprintf("line %d: have %q, source says %q", i+1, hl[i], wl[i])
				break
			}
		}
		c.PropFail("C40", "coq/theories/Gen/MapRangeSites.v differs from what the source says now ("+diff+"); regenerate with srcmodel_maprange")
	} else {
		c.Stat("table_current")
	}
}
