//go:build verif

package main

// family "dval" (C35), part 1: the small descriptor-proto AST that is shared with the Coq
// model (coq/theories/Desc/ValidateModel.v), its token serialisation (parsed by
// ocaml/fam_dval.ml), its conversion to a FileDescriptorProto, and the generator of
// valid-by-construction ASTs.

import (
	"fmt"
	"strings"

	"google.golang.org/protobuf/proto"
	"google.golang.org/protobuf/types/descriptorpb"
)

type dvalEVal struct {
	Name   string
	Num    int32
	HasNum bool
}
type dvalRange struct{ S, E int32 }
type dvalEnum struct {
	Name      string
	Vals      []dvalEVal
	Alias     bool
	ResNames  []string
	ResRanges []dvalRange
}
type dvalField struct {
	Name     string
	Num      int32
	Label    int32
	Type     int32
	TypeName string
	Oneof    *int32
	P3Opt    bool
	JSON     *string
	Packed   int // 0 unset, 1 false, 2 true
	Extendee *string
}
type dvalMsg struct {
	Name      string
	Fields    []dvalField
	Oneofs    []string
	Enums     []dvalEnum
	Msgs      []dvalMsg
	Exts      []dvalField
	ExtRanges []dvalRange
	ResRanges []dvalRange
	ResNames  []string
	MapEntry  bool
	MsgSet    bool
}
type dvalFile struct {
	Syntax int // 0 proto2, 1 proto3, 2 edition 2023, 3 edition 2024
	Pkg    string
	Enums  []dvalEnum
	Msgs   []dvalMsg
	Exts   []dvalField
	Allow  bool
}

// ---------------------------------------------------------------- tokens

func dvalTokS(s string) string { return HexB([]byte(s)) }
func dvalTokOptS(s *string) string {
	if s == nil {
		return "-"
	}
	return HexB([]byte(*s))
}
func dvalTokRanges(t []string, rs []dvalRange) []string {
	t = append(t, HexN(uint64(len(rs))))
	for _, r := range rs {
		t = append(t, HexZ(int64(r.S)), HexZ(int64(r.E)))
	}
	return t
}
func dvalTokNames(t []string, ns []string) []string {
	t = append(t, HexN(uint64(len(ns))))
	for _, n := range ns {
		t = append(t, dvalTokS(n))
	}
	return t
}
func dvalTokEnum(t []string, e *dvalEnum) []string {
	t = append(t, dvalTokS(e.Name), HexN(uint64(len(e.Vals))))
	for _, v := range e.Vals {
		if v.HasNum {
			t = append(t, dvalTokS(v.Name), HexZ(int64(v.Num)))
		} else {
			t = append(t, dvalTokS(v.Name), "-")
		}
	}
	t = append(t, Tok(e.Alias))
	t = dvalTokNames(t, e.ResNames)
	t = dvalTokRanges(t, e.ResRanges)
	return t
}
func dvalTokField(t []string, f *dvalField) []string {
	t = append(t, dvalTokS(f.Name), HexZ(int64(f.Num)), HexZ(int64(f.Label)), HexZ(int64(f.Type)), dvalTokS(f.TypeName))
	if f.Oneof == nil {
		t = append(t, "-")
	} else {
		t = append(t, HexZ(int64(*f.Oneof)))
	}
	t = append(t, Tok(f.P3Opt), dvalTokOptS(f.JSON))
	t = append(t, [...]string{"-", "0", "1"}[f.Packed])
	t = append(t, dvalTokOptS(f.Extendee))
	return t
}
func dvalTokFields(t []string, fs []dvalField) []string {
	t = append(t, HexN(uint64(len(fs))))
	for i := range fs {
		t = dvalTokField(t, &fs[i])
	}
	return t
}
func dvalTokEnums(t []string, es []dvalEnum) []string {
	t = append(t, HexN(uint64(len(es))))
	for i := range es {
		t = dvalTokEnum(t, &es[i])
	}
	return t
}
func dvalTokMsgs(t []string, ms []dvalMsg) []string {
	t = append(t, HexN(uint64(len(ms))))
	for i := range ms {
		m := &ms[i]
		t = append(t, dvalTokS(m.Name))
		t = dvalTokFields(t, m.Fields)
		t = dvalTokNames(t, m.Oneofs)
		t = dvalTokEnums(t, m.Enums)
		t = dvalTokMsgs(t, m.Msgs)
		t = dvalTokFields(t, m.Exts)
		t = dvalTokRanges(t, m.ExtRanges)
		t = dvalTokRanges(t, m.ResRanges)
		t = dvalTokNames(t, m.ResNames)
		t = append(t, Tok(m.MapEntry), Tok(m.MsgSet))
	}
	return t
}

// dvalTokens: allow syntax pkg enums msgs exts
func dvalTokens(f *dvalFile) []string {
	t := []string{Tok(f.Allow), HexN(uint64(f.Syntax)), dvalTokS(f.Pkg)}
	t = dvalTokEnums(t, f.Enums)
	t = dvalTokMsgs(t, f.Msgs)
	t = dvalTokFields(t, f.Exts)
	return t
}

// ---------------------------------------------------------------- to FileDescriptorProto

func dvalRangesM(rs []dvalRange) (out []*descriptorpb.DescriptorProto_ReservedRange) {
	for _, r := range rs {
		out = append(out, &descriptorpb.DescriptorProto_ReservedRange{Start: proto.Int32(r.S), End: proto.Int32(r.E)})
	}
	return
}
func dvalEnumP(e *dvalEnum) *descriptorpb.EnumDescriptorProto {
	p := &descriptorpb.EnumDescriptorProto{Name: proto.String(e.Name)}
	for _, v := range e.Vals {
		vp := &descriptorpb.EnumValueDescriptorProto{Name: proto.String(v.Name)}
		if v.HasNum {
			vp.Number = proto.Int32(v.Num)
		}
		p.Value = append(p.Value, vp)
	}
	if e.Alias {
		p.Options = &descriptorpb.EnumOptions{AllowAlias: proto.Bool(true)}
	}
	p.ReservedName = append(p.ReservedName, e.ResNames...)
	for _, r := range e.ResRanges {
		p.ReservedRange = append(p.ReservedRange, &descriptorpb.EnumDescriptorProto_EnumReservedRange{Start: proto.Int32(r.S), End: proto.Int32(r.E)})
	}
	return p
}
func dvalFieldP(f *dvalField) *descriptorpb.FieldDescriptorProto {
	p := &descriptorpb.FieldDescriptorProto{Name: proto.String(f.Name), Number: proto.Int32(f.Num)}
	p.Label = descriptorpb.FieldDescriptorProto_Label(f.Label).Enum()
	if f.Type != 0 {
		p.Type = descriptorpb.FieldDescriptorProto_Type(f.Type).Enum()
	}
	if f.TypeName != "" {
		p.TypeName = proto.String(f.TypeName)
	}
	if f.Oneof != nil {
		p.OneofIndex = proto.Int32(*f.Oneof)
	}
	if f.P3Opt {
		p.Proto3Optional = proto.Bool(true)
	}
	if f.JSON != nil {
		p.JsonName = proto.String(*f.JSON)
	}
	if f.Packed != 0 {
		p.Options = &descriptorpb.FieldOptions{Packed: proto.Bool(f.Packed == 2)}
	}
	if f.Extendee != nil {
		p.Extendee = proto.String(*f.Extendee)
	}
	return p
}
func dvalMsgP(m *dvalMsg) *descriptorpb.DescriptorProto {
	p := &descriptorpb.DescriptorProto{Name: proto.String(m.Name)}
	for i := range m.Fields {
		p.Field = append(p.Field, dvalFieldP(&m.Fields[i]))
	}
	for _, o := range m.Oneofs {
		p.OneofDecl = append(p.OneofDecl, &descriptorpb.OneofDescriptorProto{Name: proto.String(o)})
	}
	for i := range m.Enums {
		p.EnumType = append(p.EnumType, dvalEnumP(&m.Enums[i]))
	}
	for i := range m.Msgs {
		p.NestedType = append(p.NestedType, dvalMsgP(&m.Msgs[i]))
	}
	for i := range m.Exts {
		p.Extension = append(p.Extension, dvalFieldP(&m.Exts[i]))
	}
	for _, r := range m.ExtRanges {
		p.ExtensionRange = append(p.ExtensionRange, &descriptorpb.DescriptorProto_ExtensionRange{Start: proto.Int32(r.S), End: proto.Int32(r.E)})
	}
	p.ReservedRange = dvalRangesM(m.ResRanges)
	p.ReservedName = append(p.ReservedName, m.ResNames...)
	if m.MapEntry || m.MsgSet {
		p.Options = &descriptorpb.MessageOptions{}
		if m.MapEntry {
			p.Options.MapEntry = proto.Bool(true)
		}
		if m.MsgSet {
			p.Options.MessageSetWireFormat = proto.Bool(true)
		}
	}
	return p
}
func dvalFileP(f *dvalFile) *descriptorpb.FileDescriptorProto {
	p := &descriptorpb.FileDescriptorProto{Name: proto.String("a.proto")}
	switch f.Syntax {
	case 0:
		p.Syntax = proto.String("proto2")
	case 1:
		p.Syntax = proto.String("proto3")
	case 2:
		p.Syntax = proto.String("editions")
		p.Edition = descriptorpb.Edition_EDITION_2023.Enum()
	default:
		p.Syntax = proto.String("editions")
		p.Edition = descriptorpb.Edition_EDITION_2024.Enum()
	}
	if f.Pkg != "" {
		p.Package = proto.String(f.Pkg)
	}
	for i := range f.Enums {
		p.EnumType = append(p.EnumType, dvalEnumP(&f.Enums[i]))
	}
	for i := range f.Msgs {
		p.MessageType = append(p.MessageType, dvalMsgP(&f.Msgs[i]))
	}
	for i := range f.Exts {
		p.Extension = append(p.Extension, dvalFieldP(&f.Exts[i]))
	}
	return p
}

// ---------------------------------------------------------------- deep copy

func dvalCopyFields(fs []dvalField) []dvalField {
	out := make([]dvalField, len(fs))
	for i, f := range fs {
		out[i] = f
		if f.Oneof != nil {
			v := *f.Oneof
			out[i].Oneof = &v
		}
		if f.JSON != nil {
			v := *f.JSON
			out[i].JSON = &v
		}
		if f.Extendee != nil {
			v := *f.Extendee
			out[i].Extendee = &v
		}
	}
	return out
}
func dvalCopyEnums(es []dvalEnum) []dvalEnum {
	out := make([]dvalEnum, len(es))
	for i, e := range es {
		out[i] = e
		out[i].Vals = append([]dvalEVal(nil), e.Vals...)
		out[i].ResNames = append([]string(nil), e.ResNames...)
		out[i].ResRanges = append([]dvalRange(nil), e.ResRanges...)
	}
	return out
}
func dvalCopyMsgs(ms []dvalMsg) []dvalMsg {
	out := make([]dvalMsg, len(ms))
	for i, m := range ms {
		out[i] = m
		out[i].Fields = dvalCopyFields(m.Fields)
		out[i].Oneofs = append([]string(nil), m.Oneofs...)
		out[i].Enums = dvalCopyEnums(m.Enums)
		out[i].Msgs = dvalCopyMsgs(m.Msgs)
		out[i].Exts = dvalCopyFields(m.Exts)
		out[i].ExtRanges = append([]dvalRange(nil), m.ExtRanges...)
		out[i].ResRanges = append([]dvalRange(nil), m.ResRanges...)
		out[i].ResNames = append([]string(nil), m.ResNames...)
	}
	return out
}
func dvalCopy(f *dvalFile) *dvalFile {
	g := *f
	g.Enums = dvalCopyEnums(f.Enums)
	g.Msgs = dvalCopyMsgs(f.Msgs)
	g.Exts = dvalCopyFields(f.Exts)
	return &g
}

// allMsgs returns pointers to every message of the tree (pre-order) with its full name.
type dvalMsgRef struct {
	M    *dvalMsg
	Full string
}

func dvalJoin(prefix, name string) string {
	if prefix == "" {
		return name
	}
	return prefix + "." + name
}
func dvalAllMsgs(f *dvalFile) (out []dvalMsgRef) {
	var walk func(ms []dvalMsg, scope string)
	walk = func(ms []dvalMsg, scope string) {
		for i := range ms {
			full := dvalJoin(scope, ms[i].Name)
			out = append(out, dvalMsgRef{&ms[i], full})
			walk(ms[i].Msgs, full)
		}
	}
	walk(f.Msgs, f.Pkg)
	return
}

type dvalEnumRef struct {
	E    *dvalEnum
	Full string
}

func dvalAllEnums(f *dvalFile) (out []dvalEnumRef) {
	for i := range f.Enums {
		out = append(out, dvalEnumRef{&f.Enums[i], dvalJoin(f.Pkg, f.Enums[i].Name)})
	}
	for _, mr := range dvalAllMsgs(f) {
		for i := range mr.M.Enums {
			out = append(out, dvalEnumRef{&mr.M.Enums[i], dvalJoin(mr.Full, mr.M.Enums[i].Name)})
		}
	}
	return
}

// ---------------------------------------------------------------- valid-by-construction generator

type dvalGen struct {
	c   *Ctx
	ctr int
	f   *dvalFile
}

func (g *dvalGen) id(prefix string) string {
	g.ctr++
	return fmt.Sprintf("%s%d", prefix, g.ctr)
}

var dvalScalarTypes = []int32{1, 2, 3, 4, 5, 6, 7, 8, 9, 12, 13, 15, 16, 17, 18}
var dvalMapKeyTypes = []int32{3, 4, 5, 6, 7, 8, 9, 13, 15, 16, 17, 18}

func dvalMapEntryName(s string) string {
	var b []byte
	up := true
	for i := 0; i < len(s); i++ {
		c := s[i]
		switch {
		case c == '_':
			up = true
		case up:
			if 'a' <= c && c <= 'z' {
				c -= 32
			}
			b = append(b, c)
			up = false
		default:
			b = append(b, c)
		}
	}
	return string(b) + "Entry"
}

func (g *dvalGen) enum() dvalEnum {
	c := g.c
	e := dvalEnum{Name: g.id("E")}
	n := 1 + c.Intn(4)
	used := map[int32]bool{}
	for i := 0; i < n; i++ {
		var num int32
		if i > 0 {
			for {
				num = int32(c.Intn(40)) - 8
				if !used[num] {
					break
				}
			}
		}
		used[num] = true
		e.Vals = append(e.Vals, dvalEVal{Name: strings.ToUpper(e.Name) + "_" + g.id("V"), Num: num, HasNum: true})
	}
	if c.Intn(6) == 0 { // alias: repeat an existing number
		e.Alias = true
		e.Vals = append(e.Vals, dvalEVal{Name: strings.ToUpper(e.Name) + "_" + g.id("V"), Num: e.Vals[c.Intn(len(e.Vals))].Num, HasNum: true})
	}
	if c.Intn(4) == 0 {
		lo := int32(100 + c.Intn(10))
		e.ResRanges = append(e.ResRanges, dvalRange{lo, lo + int32(c.Intn(5))})
		if c.Bool() {
			e.ResRanges = append(e.ResRanges, dvalRange{-50, -40})
		}
	}
	if c.Intn(4) == 0 {
		e.ResNames = append(e.ResNames, g.id("R"))
	}
	return e
}

// scalarField creates a field of a scalar kind with a fresh name; the number is assigned by the caller.
func (g *dvalGen) scalarField() dvalField {
	c := g.c
	f := dvalField{Name: g.id("f"), Label: 1, Type: dvalScalarTypes[c.Intn(len(dvalScalarTypes))]}
	switch c.Intn(5) {
	case 0:
		f.Label = 3
		if f.Type != 9 && f.Type != 12 && c.Intn(3) == 0 {
			f.Packed = 1 + c.Intn(2)
		}
	case 1:
		if g.f.Syntax == 0 {
			f.Label = 2
		}
	}
	if c.Intn(10) == 0 {
		s := g.id("j")
		f.JSON = &s
	}
	return f
}

func (g *dvalGen) msg(scope string, depth int) dvalMsg {
	c := g.c
	m := dvalMsg{Name: g.id("M")}
	full := dvalJoin(scope, m.Name)
	syn := g.f.Syntax
	// numbers: increasing with gaps, leaving room for ranges above 1000
	next := int32(1)
	num := func() int32 {
		v := next
		next += 1 + int32(c.Intn(3))
		return v
	}
	if depth > 0 {
		for i, k := 0, c.Intn(3); i < k; i++ {
			m.Msgs = append(m.Msgs, g.msg(full, depth-1))
		}
	}
	for i, k := 0, c.Intn(3); i < k; i++ {
		m.Enums = append(m.Enums, g.enum())
	}
	ref := func(fullName string) string {
		// fully-qualified or relative to the package / the enclosing message
		switch c.Intn(4) {
		case 0:
			if g.f.Pkg != "" && strings.HasPrefix(fullName, g.f.Pkg+".") {
				return fullName[len(g.f.Pkg)+1:]
			}
		case 1:
			if strings.HasPrefix(fullName, full+".") {
				return fullName[len(full)+1:]
			}
		}
		return "." + fullName
	}
	nf := c.Intn(5)
	for i := 0; i < nf; i++ {
		switch c.Intn(8) {
		case 0: // message-typed field
			if len(m.Msgs) > 0 {
				t := m.Msgs[c.Intn(len(m.Msgs))]
				if !t.MapEntry {
					f := dvalField{Name: g.id("f"), Num: num(), Label: int32(1 + 2*c.Intn(2)), Type: 11, TypeName: ref(full + "." + t.Name)}
					m.Fields = append(m.Fields, f)
					continue
				}
			}
			f := dvalField{Name: g.id("f"), Num: num(), Label: 1, Type: 11, TypeName: ref(full)} // self reference
			m.Fields = append(m.Fields, f)
		case 1: // enum-typed field
			if len(m.Enums) > 0 {
				e := m.Enums[c.Intn(len(m.Enums))]
				f := dvalField{Name: g.id("f"), Num: num(), Label: int32(1 + 2*c.Intn(2)), Type: 14, TypeName: ref(full + "." + e.Name)}
				if c.Intn(4) == 0 {
					f.Type = 0 // kind left to resolution
				}
				m.Fields = append(m.Fields, f)
				continue
			}
			fallthrough
		case 2: // map field
			fname := g.id("f")
			ent := dvalMsg{Name: dvalMapEntryName(fname), MapEntry: true}
			kf := dvalField{Name: "key", Num: 1, Label: 1, Type: dvalMapKeyTypes[c.Intn(len(dvalMapKeyTypes))]}
			vf := dvalField{Name: "value", Num: 2, Label: 1, Type: dvalScalarTypes[c.Intn(len(dvalScalarTypes))]}
			if len(m.Enums) > 0 && c.Intn(3) == 0 {
				vf.Type = 14
				vf.TypeName = "." + full + "." + m.Enums[0].Name
			}
			ent.Fields = []dvalField{kf, vf}
			m.Msgs = append(m.Msgs, ent)
			m.Fields = append(m.Fields, dvalField{Name: fname, Num: num(), Label: 3, Type: 11, TypeName: ref(full + "." + ent.Name)})
		case 3: // group
			if syn != 1 {
				gm := dvalMsg{Name: g.id("G")}
				gm.Fields = append(gm.Fields, dvalField{Name: g.id("f"), Num: 1, Label: 1, Type: 5})
				m.Msgs = append(m.Msgs, gm)
				m.Fields = append(m.Fields, dvalField{Name: strings.ToLower(gm.Name), Num: num(), Label: int32(1 + 2*c.Intn(2)), Type: 10, TypeName: ref(full + "." + gm.Name)})
				continue
			}
			fallthrough
		default:
			f := g.scalarField()
			f.Num = num()
			m.Fields = append(m.Fields, f)
		}
	}
	// real oneofs: consecutive optional members appended at the end
	for i, k := 0, c.Intn(3); i < k; i++ {
		idx := int32(len(m.Oneofs))
		m.Oneofs = append(m.Oneofs, g.id("o"))
		for j, kk := 0, 1+c.Intn(3); j < kk; j++ {
			f := g.scalarField()
			f.Label, f.Packed = 1, 0
			f.Num = num()
			v := idx
			f.Oneof = &v
			m.Fields = append(m.Fields, f)
		}
	}
	// proto3 optional with synthetic oneofs (after the real ones)
	if syn == 1 {
		for i, k := 0, c.Intn(3); i < k; i++ {
			idx := int32(len(m.Oneofs))
			f := g.scalarField()
			f.Label, f.Packed, f.P3Opt = 1, 0, true
			f.Num = num()
			m.Oneofs = append(m.Oneofs, "_"+f.Name)
			f.Oneof = &idx
			m.Fields = append(m.Fields, f)
		}
	}
	// ranges above every field number
	base := next + 10
	if c.Intn(3) == 0 {
		m.ResRanges = append(m.ResRanges, dvalRange{base, base + 1 + int32(c.Intn(5))})
		if c.Bool() {
			m.ResRanges = append(m.ResRanges, dvalRange{base + 20, base + 21})
		}
		if c.Intn(4) == 0 {
			m.ResRanges = append(m.ResRanges, dvalRange{19000, 20000})
		}
	}
	if syn != 1 && c.Intn(3) == 0 {
		m.ExtRanges = append(m.ExtRanges, dvalRange{base + 40, base + 50})
		if c.Bool() {
			m.ExtRanges = append(m.ExtRanges, dvalRange{base + 30, base + 35})
		}
		if c.Intn(4) == 0 {
			m.ExtRanges = append(m.ExtRanges, dvalRange{1 << 20, 1 << 29})
		}
	}
	if c.Intn(4) == 0 {
		m.ResNames = append(m.ResNames, g.id("r"))
		if c.Bool() {
			m.ResNames = append(m.ResNames, g.id("r"))
		}
	}
	return m
}

func (g *dvalGen) ext(scope string, target dvalMsgRef) dvalField {
	c := g.c
	r := target.M.ExtRanges[c.Intn(len(target.M.ExtRanges))]
	f := g.scalarField()
	if f.Label == 2 {
		f.Label = 1
	}
	f.JSON = nil
	f.Num = r.S + int32(c.Intn(int(r.E-r.S)))
	if 19000 <= f.Num && f.Num <= 19999 {
		f.Num = r.S
	}
	ex := "." + target.Full
	f.Extendee = &ex
	return f
}

func dvalGenValid(c *Ctx) *dvalFile {
	f := &dvalFile{Syntax: c.Intn(4), Allow: c.Bool()}
	f.Pkg = []string{"", "p", "p", "p.q", "pk_1.x"}[c.Intn(5)]
	g := &dvalGen{c: c, f: f}
	for i, k := 0, c.Intn(3); i < k; i++ {
		f.Enums = append(f.Enums, g.enum())
	}
	for i, k := 0, 1+c.Intn(3); i < k; i++ {
		f.Msgs = append(f.Msgs, g.msg(f.Pkg, 2))
	}
	// top-level enum reference from the first message
	if len(f.Enums) > 0 && c.Bool() {
		m := &f.Msgs[0]
		max := int32(0)
		for _, fl := range m.Fields {
			if fl.Num > max {
				max = fl.Num
			}
		}
		// keep oneof members consecutive: insert at the front
		nf := dvalField{Name: g.id("f"), Num: max + 1, Label: 1, Type: 14, TypeName: "." + dvalJoin(f.Pkg, f.Enums[0].Name)}
		m.Fields = append([]dvalField{nf}, m.Fields...)
	}
	// extensions of local messages with extension ranges (not in proto3)
	if f.Syntax != 1 {
		var targets []dvalMsgRef
		for _, mr := range dvalAllMsgs(f) {
			if len(mr.M.ExtRanges) > 0 && !mr.M.MapEntry {
				targets = append(targets, mr)
			}
		}
		if len(targets) > 0 {
			used := map[string]bool{}
			for i, k := 0, c.Intn(3); i < k; i++ {
				t := targets[c.Intn(len(targets))]
				x := g.ext(f.Pkg, t)
				key := fmt.Sprintf("%s/%d", t.Full, x.Num)
				if used[key] {
					continue
				}
				used[key] = true
				if c.Bool() {
					f.Exts = append(f.Exts, x)
				} else {
					host := &f.Msgs[c.Intn(len(f.Msgs))]
					host.Exts = append(host.Exts, x)
				}
			}
		}
	}
	return f
}
