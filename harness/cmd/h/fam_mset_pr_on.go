//go:build verif && protoreflect

package main

// every message takes the reflection (slow) path in this build
const msetProtoReflect = true
