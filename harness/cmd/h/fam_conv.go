//go:build verif

package main

// family "conv": C34 (descriptor protos <-> file descriptors convert losslessly)
// and C37 (filedesc.Builder agrees with protodesc.NewFile).
//
// Inputs: every file linked into the binary and random valid FileDescriptorProtos
// (see fam_conv_gen.go).  P lines: the properties' own predicates on the
// implementation.  C lines: the Coq model (Desc/ConvertModel.v) re-computes
// name resolution, full names, JSON names, the accessor snapshot of NewFile and
// the normalised proto produced by ToFileDescriptorProto (see fam_conv_ast.go).

import (
	"os"
	"google.golang.org/protobuf/encoding/prototext"
	"fmt"
	"sort"
	"strings"

	"google.golang.org/protobuf/internal/filedesc"
	"google.golang.org/protobuf/internal/flags"
	"google.golang.org/protobuf/proto"
	"google.golang.org/protobuf/reflect/protodesc"
	"google.golang.org/protobuf/reflect/protoreflect"
	"google.golang.org/protobuf/reflect/protoregistry"
	"google.golang.org/protobuf/types/descriptorpb"

	_ "google.golang.org/protobuf/internal/testprotos/annotation"
	_ "google.golang.org/protobuf/internal/testprotos/benchmarks"
	_ "google.golang.org/protobuf/internal/testprotos/benchmarks/datasets/google_message1/proto2"
	_ "google.golang.org/protobuf/internal/testprotos/benchmarks/datasets/google_message1/proto3"
	_ "google.golang.org/protobuf/internal/testprotos/benchmarks/datasets/google_message2"
	_ "google.golang.org/protobuf/internal/testprotos/benchmarks/datasets/google_message3"
	_ "google.golang.org/protobuf/internal/testprotos/benchmarks/datasets/google_message4"
	_ "google.golang.org/protobuf/internal/testprotos/benchmarks/micro"
	_ "google.golang.org/protobuf/internal/testprotos/conformance"
	_ "google.golang.org/protobuf/internal/testprotos/conformance/editions"
	_ "google.golang.org/protobuf/internal/testprotos/conformance/editionsmigration"
	_ "google.golang.org/protobuf/internal/testprotos/conformance/editionunstable"
	_ "google.golang.org/protobuf/internal/testprotos/editionsfuzztest"
	_ "google.golang.org/protobuf/internal/testprotos/enums"
	_ "google.golang.org/protobuf/internal/testprotos/enums/enums_hybrid"
	_ "google.golang.org/protobuf/internal/testprotos/enums/enums_opaque"
	_ "google.golang.org/protobuf/internal/testprotos/examples/ext"
	_ "google.golang.org/protobuf/internal/testprotos/fieldtrack"
	_ "google.golang.org/protobuf/internal/testprotos/fuzz"
	_ "google.golang.org/protobuf/internal/testprotos/lazy"
	_ "google.golang.org/protobuf/internal/testprotos/lazy/lazy_hybrid"
	_ "google.golang.org/protobuf/internal/testprotos/lazy/lazy_opaque"
	_ "google.golang.org/protobuf/internal/testprotos/legacy"
	_ "google.golang.org/protobuf/internal/testprotos/legacy/proto2_20160225_2fc053c5"
	_ "google.golang.org/protobuf/internal/testprotos/legacy/proto2_20160519_a4ab9ec5"
	_ "google.golang.org/protobuf/internal/testprotos/legacy/proto2_20180125_92554152"
	_ "google.golang.org/protobuf/internal/testprotos/legacy/proto2_20180430_b4deda09"
	_ "google.golang.org/protobuf/internal/testprotos/legacy/proto2_20180814_aa810b61"
	_ "google.golang.org/protobuf/internal/testprotos/legacy/proto2_20190205_c823c79e"
	_ "google.golang.org/protobuf/internal/testprotos/legacy/proto3_20160225_2fc053c5"
	_ "google.golang.org/protobuf/internal/testprotos/legacy/proto3_20160519_a4ab9ec5"
	_ "google.golang.org/protobuf/internal/testprotos/legacy/proto3_20180125_92554152"
	_ "google.golang.org/protobuf/internal/testprotos/legacy/proto3_20180430_b4deda09"
	_ "google.golang.org/protobuf/internal/testprotos/legacy/proto3_20180814_aa810b61"
	_ "google.golang.org/protobuf/internal/testprotos/legacy/proto3_20190205_c823c79e"
	_ "google.golang.org/protobuf/internal/testprotos/messageset/messagesetpb"
	_ "google.golang.org/protobuf/internal/testprotos/messageset/messagesetpb/messagesetpb_hybrid"
	_ "google.golang.org/protobuf/internal/testprotos/messageset/messagesetpb/messagesetpb_opaque"
	_ "google.golang.org/protobuf/internal/testprotos/messageset/msetextpb"
	_ "google.golang.org/protobuf/internal/testprotos/messageset/msetextpb/msetextpb_hybrid"
	_ "google.golang.org/protobuf/internal/testprotos/messageset/msetextpb/msetextpb_opaque"
	_ "google.golang.org/protobuf/internal/testprotos/mixed"
	_ "google.golang.org/protobuf/internal/testprotos/news"
	_ "google.golang.org/protobuf/internal/testprotos/order"
	_ "google.golang.org/protobuf/internal/testprotos/registry"
	_ "google.golang.org/protobuf/internal/testprotos/required"
	_ "google.golang.org/protobuf/internal/testprotos/required/required_hybrid"
	_ "google.golang.org/protobuf/internal/testprotos/required/required_opaque"
	_ "google.golang.org/protobuf/internal/testprotos/test"
	_ "google.golang.org/protobuf/internal/testprotos/test/test_nopackage"
	_ "google.golang.org/protobuf/internal/testprotos/test/test_option"
	_ "google.golang.org/protobuf/internal/testprotos/test3"
	_ "google.golang.org/protobuf/internal/testprotos/test3/test3_hybrid"
	_ "google.golang.org/protobuf/internal/testprotos/test3/test3_opaque"
	_ "google.golang.org/protobuf/internal/testprotos/testeditions"
	_ "google.golang.org/protobuf/internal/testprotos/testeditions/testeditions_hybrid"
	_ "google.golang.org/protobuf/internal/testprotos/testeditions/testeditions_opaque"
	_ "google.golang.org/protobuf/internal/testprotos/textpb2"
	_ "google.golang.org/protobuf/internal/testprotos/textpb3"
	_ "google.golang.org/protobuf/internal/testprotos/textpbeditions"
	_ "google.golang.org/protobuf/internal/testprotos/textpbeditions/textpbeditions_hybrid"
	_ "google.golang.org/protobuf/internal/testprotos/textpbeditions/textpbeditions_opaque"
	_ "google.golang.org/protobuf/types/gofeaturespb"
	_ "google.golang.org/protobuf/types/known/anypb"
	_ "google.golang.org/protobuf/types/known/apipb"
	_ "google.golang.org/protobuf/types/known/durationpb"
	_ "google.golang.org/protobuf/types/known/emptypb"
	_ "google.golang.org/protobuf/types/known/fieldmaskpb"
	_ "google.golang.org/protobuf/types/known/sourcecontextpb"
	_ "google.golang.org/protobuf/types/known/structpb"
	_ "google.golang.org/protobuf/types/known/timestamppb"
	_ "google.golang.org/protobuf/types/known/typepb"
	_ "google.golang.org/protobuf/types/known/wrapperspb"
	_ "google.golang.org/protobuf/types/pluginpb"
)

func init() { Register("conv", famConv) }

// convRegistry gives filedesc.Builder the same resolver that protodesc.NewFile uses,
// without registering the built file anywhere.
type convRegistry struct {
	r protodesc.Resolver
}

func (r convRegistry) FindFileByPath(p string) (protoreflect.FileDescriptor, error) {
	return r.r.FindFileByPath(p)
}
func (r convRegistry) FindDescriptorByName(n protoreflect.FullName) (protoreflect.Descriptor, error) {
	return r.r.FindDescriptorByName(n)
}
func (convRegistry) RegisterFile(protoreflect.FileDescriptor) error { return nil }

func convMarshal(m proto.Message) []byte {
	b, err := proto.MarshalOptions{Deterministic: true, AllowPartial: true}.Marshal(m)
	if err != nil {
		panic(err)
	}
	return b
}

func convNewFile(p *descriptorpb.FileDescriptorProto, r protodesc.Resolver) (fd protoreflect.FileDescriptor, err error) {
	defer func() {
		if x := recover(); x != nil {
			fd, err = nil, fmt.Errorf("PANIC: %v", x)
		}
	}()
	return protodesc.NewFile(p, r)
}

func convToProto(fd protoreflect.FileDescriptor) (p *descriptorpb.FileDescriptorProto, err error) {
	defer func() {
		if x := recover(); x != nil {
			p, err = nil, fmt.Errorf("PANIC: %v", x)
		}
	}()
	return protodesc.ToFileDescriptorProto(fd), nil
}

func convBuild(raw []byte, r protodesc.Resolver, counts *[4]int32) (fd protoreflect.FileDescriptor, err error) {
	defer func() {
		if x := recover(); x != nil {
			fd, err = nil, fmt.Errorf("PANIC: %v", x)
		}
	}()
	b := filedesc.Builder{RawDescriptor: raw, FileRegistry: convRegistry{r}}
	if counts != nil {
		b.NumEnums, b.NumMessages, b.NumExtensions, b.NumServices = counts[0], counts[1], counts[2], counts[3]
	}
	return b.Build().File, nil
}

// convCounts: number of declarations in flattened order, as protoc-gen-go passes them.
func convCounts(p *descriptorpb.FileDescriptorProto) *[4]int32 {
	var n [4]int32
	var walk func(m *descriptorpb.DescriptorProto)
	walk = func(m *descriptorpb.DescriptorProto) {
		n[1]++
		n[0] += int32(len(m.EnumType))
		n[2] += int32(len(m.Extension))
		for _, c := range m.NestedType {
			walk(c)
		}
	}
	n[0] += int32(len(p.EnumType))
	n[2] += int32(len(p.Extension))
	n[3] += int32(len(p.Service))
	for _, m := range p.MessageType {
		walk(m)
	}
	return &n
}

// ---------------------------------------------------------------- normalisation (C34)

// convNormalize is the documented normalisation under which
// ToFileDescriptorProto(NewFile(p)) = normalize(p):
//  1. every type_name / extendee / input_type / output_type becomes "." + the full
//     name the reference resolves to (innermost scope first);
//  2. syntax "proto2" is dropped (absent syntax means proto2); an empty package is dropped;
//  3. weak_dependency is dropped (weak imports are no longer supported);
//  4. proto3_optional:false is dropped;
//  5. a 4-element span whose start and end line coincide becomes the 3-element form;
//     empty leading/trailing comments are dropped; an empty SourceCodeInfo is dropped;
//  6. default values are re-marshalled to their canonical text (C39);
//  7. (editions) TYPE_GROUP is written as TYPE_MESSAGE and LABEL_REQUIRED as LABEL_OPTIONAL,
//     the information lives in the features.
// Everything else, including all options messages, is preserved as is.
func convNormalize(p *descriptorpb.FileDescriptorProto, env *convEnv) *descriptorpb.FileDescriptorProto {
	q := proto.Clone(p).(*descriptorpb.FileDescriptorProto)
	if q.GetSyntax() == "proto2" {
		q.Syntax = nil
	}
	if q.Package != nil && q.GetPackage() == "" {
		q.Package = nil
	}
	q.WeakDependency = nil
	editions := q.GetSyntax() == "editions"
	abs := func(scope string, ref *string) *string {
		if ref == nil {
			return nil
		}
		st, full, _ := env.lookup(scope, *ref)
		if st != convResFound {
			return ref
		}
		return proto.String("." + full)
	}
	field := func(scope string, f *descriptorpb.FieldDescriptorProto) {
		if f.Type == nil && f.TypeName != nil {
			// 1b. an unset type is filled in from the kind of the resolved declaration
			switch _, _, k := env.lookup(scope, f.GetTypeName()); k {
			case convKindMsg:
				f.Type = descriptorpb.FieldDescriptorProto_TYPE_MESSAGE.Enum()
			case convKindEnum:
				f.Type = descriptorpb.FieldDescriptorProto_TYPE_ENUM.Enum()
			}
		}
		f.TypeName = abs(scope, f.TypeName)
		f.Extendee = abs(scope, f.Extendee)
		if f.Proto3Optional != nil && !f.GetProto3Optional() {
			f.Proto3Optional = nil
		}
		if editions {
			if f.GetType() == descriptorpb.FieldDescriptorProto_TYPE_GROUP {
				f.Type = descriptorpb.FieldDescriptorProto_TYPE_MESSAGE.Enum()
			}
			if f.GetLabel() == descriptorpb.FieldDescriptorProto_LABEL_REQUIRED {
				f.Label = descriptorpb.FieldDescriptorProto_LABEL_OPTIONAL.Enum()
			}
		}
	}
	var msg func(scope string, m *descriptorpb.DescriptorProto)
	msg = func(scope string, m *descriptorpb.DescriptorProto) {
		full := convJoin(scope, m.GetName())
		for _, f := range m.Field {
			field(full, f)
		}
		for _, f := range m.Extension {
			field(full, f)
		}
		for _, n := range m.NestedType {
			msg(full, n)
		}
	}
	for _, m := range q.MessageType {
		msg(q.GetPackage(), m)
	}
	for _, f := range q.Extension {
		field(q.GetPackage(), f)
	}
	for _, s := range q.Service {
		full := convJoin(q.GetPackage(), s.GetName())
		for _, m := range s.Method {
			m.InputType = abs(full, m.InputType)
			m.OutputType = abs(full, m.OutputType)
		}
	}
	if sci := q.SourceCodeInfo; sci != nil {
		if len(sci.Location) == 0 {
			q.SourceCodeInfo = nil
		}
		for _, l := range sci.Location {
			if len(l.Span) == 4 && l.Span[0] == l.Span[2] {
				l.Span = []int32{l.Span[0], l.Span[1], l.Span[3]}
			}
			if l.LeadingComments != nil && l.GetLeadingComments() == "" {
				l.LeadingComments = nil
			}
			if l.TrailingComments != nil && l.GetTrailingComments() == "" {
				l.TrailingComments = nil
			}
		}
	}
	return q
}

// convDenormalize applies random edits that the normalisation is documented to undo.
func convDenormalize(c *Ctx, p *descriptorpb.FileDescriptorProto) *descriptorpb.FileDescriptorProto {
	q := proto.Clone(p).(*descriptorpb.FileDescriptorProto)
	if q.Syntax == nil && c.Bool() {
		q.Syntax = proto.String("proto2")
	}
	if q.Package == nil && c.Bool() {
		q.Package = proto.String("")
	}
	if len(q.Dependency) > 0 && c.Bool() {
		q.WeakDependency = []int32{0}
	}
	if q.SourceCodeInfo == nil && c.Intn(3) == 0 {
		q.SourceCodeInfo = &descriptorpb.SourceCodeInfo{}
	}
	if q.SourceCodeInfo != nil {
		for _, l := range q.SourceCodeInfo.Location {
			if len(l.Span) == 3 && c.Bool() {
				l.Span = []int32{l.Span[0], l.Span[1], l.Span[0], l.Span[2]}
			}
			if l.LeadingComments == nil && c.Bool() {
				l.LeadingComments = proto.String("")
			}
			if l.TrailingComments == nil && c.Bool() {
				l.TrailingComments = proto.String("")
			}
		}
	}
	var fields []*descriptorpb.FieldDescriptorProto
	var msg func(m *descriptorpb.DescriptorProto)
	msg = func(m *descriptorpb.DescriptorProto) {
		fields = append(fields, m.Field...)
		fields = append(fields, m.Extension...)
		for _, n := range m.NestedType {
			msg(n)
		}
	}
	for _, m := range q.MessageType {
		msg(m)
	}
	fields = append(fields, q.Extension...)
	for _, f := range fields {
		if f.Proto3Optional == nil && c.Intn(4) == 0 {
			f.Proto3Optional = proto.Bool(false)
		}
		if f.DefaultValue != nil && c.Bool() {
			d := f.GetDefaultValue()
			switch f.GetType() {
			case descriptorpb.FieldDescriptorProto_TYPE_INT32, descriptorpb.FieldDescriptorProto_TYPE_INT64, descriptorpb.FieldDescriptorProto_TYPE_SINT32,
				descriptorpb.FieldDescriptorProto_TYPE_SINT64, descriptorpb.FieldDescriptorProto_TYPE_SFIXED32, descriptorpb.FieldDescriptorProto_TYPE_SFIXED64:
				if !strings.HasPrefix(d, "-") {
					if c.Bool() {
						d = "+" + d
					} else {
						d = "00" + d
					}
				}
			case descriptorpb.FieldDescriptorProto_TYPE_UINT32, descriptorpb.FieldDescriptorProto_TYPE_UINT64, descriptorpb.FieldDescriptorProto_TYPE_FIXED32, descriptorpb.FieldDescriptorProto_TYPE_FIXED64:
				d = "00" + d // strconv.ParseUint accepts no sign
			case descriptorpb.FieldDescriptorProto_TYPE_FLOAT, descriptorpb.FieldDescriptorProto_TYPE_DOUBLE:
				switch d {
				case "1.5":
					d = "15e-1"
				case "-2.25":
					d = "-2.250"
				case "inf":
					d = "Inf"
				case "nan":
					d = "NaN"
				}
			case descriptorpb.FieldDescriptorProto_TYPE_BYTES:
				if d == "abc" {
					d = `\x61\142c`
				}
			}
			f.DefaultValue = proto.String(d)
		}
	}
	return q
}

// ---------------------------------------------------------------- checks

var convGenLimits = []string{
	"using open semantics has conflict", // enum value names that collide after prefix stripping (C35 territory)
}

func convErrClass(err error) string {
	s := err.Error()
	for _, k := range []string{"PANIC", "already declared", "invalid nested name", "cannot resolve type", "cannot resolve extendee", "cannot resolve input", "cannot resolve output",
		"invalid oneof index", "invalid default", "could not resolve import", "already imported", "invalid syntax", "not yet supported"} {
		if strings.Contains(s, k) {
			return strings.ReplaceAll(k, " ", "_")
		}
	}
	return "validation"
}

type convCase struct {
	p      *descriptorpb.FileDescriptorProto
	env    *convEnv
	reg    protodesc.Resolver
	origin string
}

// checkC34 runs the round-trip predicates on one generated-valid proto; returns the built
// descriptor and its normal form (nil when NewFile failed).
func convCheckC34(c *Ctx, cs *convCase) (protoreflect.FileDescriptor, *descriptorpb.FileDescriptorProto) {
	p := cs.p
	in := HexB(convMarshal(p))
	fd, err := convNewFile(p, cs.reg)
	if err != nil {
		for _, k := range convGenLimits {
			if strings.Contains(err.Error(), k) {
				c.Stat("gen_limit_skipped")
				return nil, nil
			}
		}
		c.PropFail("C34", "newfile_rejects_generated_valid:"+cs.origin, in, convTok(err.Error()))
		return nil, nil
	}
	c.Stat("c34_newfile_ok")
	q, err := convToProto(fd)
	if err != nil {
		c.PropFail("C34", "toproto_panics:"+cs.origin, in, convTok(err.Error()))
		return fd, nil
	}
	want := convNormalize(p, cs.env)
	if !proto.Equal(q, want) {
		c.PropFail("C34", "toproto_ne_normalize:"+cs.origin, in, convProtoDiff(q, want))
	}
	fd2, err := convNewFile(q, cs.reg)
	if err != nil {
		c.PropFail("C34", "newfile_rejects_toproto_output:"+cs.origin, in, convTok(err.Error()))
		return fd, want
	}
	so := convSnapOpts{locations: true, features: true}
	if d := convDiff(convSnap(fd, so), convSnap(fd2, so)); d != "" {
		if cs.origin == "corpus:fk4" {
			c.Known("FK4", "C34", "editions file with LABEL_REQUIRED / TYPE_GROUP is accepted, ToFileDescriptorProto rewrites them to OPTIONAL / MESSAGE without adding the features: round trip changes Cardinality / Kind")
		} else {
			c.PropFail("C34", "newfile_toproto_snapshot_differs:"+cs.origin, in, d)
		}
	}
	if q2, err := convToProto(fd2); err != nil || !proto.Equal(q2, q) {
		c.PropFail("C34", "toproto_not_idempotent:"+cs.origin, in)
	}
	// the documented normalisation list: denormalised variants have the same image
	if c.Intn(3) == 0 {
		dp := convDenormalize(c, p)
		if dfd, err := convNewFile(dp, cs.reg); err != nil {
			c.PropFail("C34", "newfile_rejects_denormalised:"+cs.origin, HexB(convMarshal(dp)), convTok(err.Error()))
		} else if dq, err := convToProto(dfd); err != nil || !proto.Equal(dq, q) {
			c.PropFail("C34", "denormalised_variant_has_other_image:"+cs.origin, HexB(convMarshal(dp)), convProtoDiff(dq, q))
		} else {
			c.Stat("c34_denormalised_ok")
		}
	}
	return fd, want
}

func convProtoDiff(a, b proto.Message) string {
	if a == nil || b == nil {
		return "nil"
	}
	// first differing top-level field, then a short text excerpt
	am, bm := a.ProtoReflect(), b.ProtoReflect()
	fds := am.Descriptor().Fields()
	for i := 0; i < fds.Len(); i++ {
		f := fds.Get(i)
		av, bv := am.Get(f), bm.Get(f)
		if am.Has(f) != bm.Has(f) {
			return convTok(fmt.Sprintf("field %s: has %v vs %v", f.Name(), am.Has(f), bm.Has(f)))
		}
		if !am.Has(f) {
			continue
		}
		if f.IsList() && f.Message() != nil {
			al, bl := av.List(), bv.List()
			if al.Len() != bl.Len() {
				return convTok(fmt.Sprintf("field %s: len %d vs %d", f.Name(), al.Len(), bl.Len()))
			}
			for j := 0; j < al.Len(); j++ {
				if !proto.Equal(al.Get(j).Message().Interface(), bl.Get(j).Message().Interface()) {
					return convTok(fmt.Sprintf("%s[%d].", f.Name(), j) + convProtoDiff(al.Get(j).Message().Interface(), bl.Get(j).Message().Interface()))
				}
			}
			continue
		}
		if f.Message() != nil && !f.IsMap() && !f.IsList() {
			if !proto.Equal(av.Message().Interface(), bv.Message().Interface()) {
				return convTok(string(f.Name()) + "." + convProtoDiff(av.Message().Interface(), bv.Message().Interface()))
			}
			continue
		}
		if !av.Equal(bv) {
			return convTok(fmt.Sprintf("field %s: %v vs %v", f.Name(), av, bv))
		}
	}
	return "unknown-fields-or-equal"
}

// convPackedBoth: fields/extensions of p whose options carry both an explicit packed and a
// features.repeated_field_encoding (recogniser of FK3; protoc refuses packed under editions).
func convPackedBoth(p *descriptorpb.FileDescriptorProto) map[string]bool {
	out := map[string]bool{}
	field := func(scope string, f *descriptorpb.FieldDescriptorProto) {
		if o := f.GetOptions(); o != nil && o.Packed != nil && o.GetFeatures() != nil && o.GetFeatures().RepeatedFieldEncoding != nil {
			out[convJoin(scope, f.GetName())] = true
		}
	}
	var msg func(scope string, m *descriptorpb.DescriptorProto)
	msg = func(scope string, m *descriptorpb.DescriptorProto) {
		full := convJoin(scope, m.GetName())
		for _, f := range m.Field {
			field(full, f)
		}
		for _, f := range m.Extension {
			field(full, f)
		}
		for _, n := range m.NestedType {
			msg(full, n)
		}
	}
	for _, f := range p.Extension {
		field(p.GetPackage(), f)
	}
	for _, m := range p.MessageType {
		msg(p.GetPackage(), m)
	}
	return out
}

// convCompare compares two descriptors' snapshots; a difference that disappears under the
// narrow mask of a listed known finding is reported as K, everything else as P.
// Returns true when the snapshots agree (possibly up to known findings).
func convCompare(c *Ctx, prop, what, in string, a, b protoreflect.FileDescriptor, o convSnapOpts, p *descriptorpb.FileDescriptorProto) bool {
	d := convDiff(convSnap(a, o), convSnap(b, o))
	if d == "" {
		return true
	}
	type mask struct {
		id   string
		desc string
		set  func(o *convSnapOpts)
	}
	pb := convPackedBoth(p)
	masks := []mask{
		{"FK2", "protodesc does not copy FieldOptions.lazy to extensions: Extension.IsLazy differs from filedesc", func(o *convSnapOpts) { o.maskExtLazy = true }},
		{"FK3", "explicit packed together with features.repeated_field_encoding: protodesc lets packed win, filedesc applies them in wire order", func(o *convSnapOpts) { o.maskPacked = pb }},
	}
	// smallest set of masks that explains the difference
	for bits := 1; bits < 1<<len(masks); bits++ {
		mo := o
		for i, m := range masks {
			if bits&(1<<i) != 0 {
				m.set(&mo)
			}
		}
		if (bits&2 != 0) && len(pb) == 0 {
			continue
		}
		if convDiff(convSnap(a, mo), convSnap(b, mo)) == "" {
			for i, m := range masks {
				if bits&(1<<i) != 0 {
					c.Known(m.id, prop, m.desc)
					c.Stat("known_" + m.id + "_" + prop)
				}
			}
			return true
		}
	}
	// report the first difference that no listed finding explains
	mo := o
	for _, m := range masks {
		m.set(&mo)
	}
	if d2 := convDiff(convSnap(a, mo), convSnap(b, mo)); d2 != "" {
		d = d2
	}
	c.PropFail(prop, what, in, d)
	return false
}

// checkC37 compares protodesc.NewFile and filedesc.Builder on the same normalised proto.
func convCheckC37(c *Ctx, cs *convCase, norm *descriptorpb.FileDescriptorProto) {
	pn := proto.Clone(norm).(*descriptorpb.FileDescriptorProto)
	pn.SourceCodeInfo = nil // protoc-gen-go strips source info before embedding the raw descriptor
	raw := convMarshal(pn)
	in := HexB(raw)
	fdA, err := convNewFile(pn, cs.reg)
	if err != nil {
		c.PropFail("C37", "newfile_rejects_normalised:"+cs.origin, in, convTok(err.Error()))
		return
	}
	var counts *[4]int32
	if c.Bool() {
		counts = convCounts(pn)
	}
	fdB, err := convBuild(raw, cs.reg, counts)
	if err != nil {
		c.PropFail("C37", "builder_panics:"+cs.origin, in, convTok(err.Error()))
		return
	}
	c.Stat("c37_built")
	// 1. before lazy initialisation: only the eagerly decoded accessors
	if !convCompare(c, "C37", "eager_accessors_differ:"+cs.origin, in, fdA, fdB, convSnapOpts{eagerOnly: true}, pn) {
		return
	}
	// 2. everything (forces lazy initialisation)
	if !convCompare(c, "C37", "accessors_differ:"+cs.origin, in, fdA, fdB, convSnapOpts{}, pn) {
		return
	}
	// 3. resolved feature sets (not an accessor, but drive IsPacked/HasPresence/IsClosed/EnforceUTF8)
	if !convCompare(c, "C37", "resolved_features_differ:"+cs.origin, in, fdA, fdB, convSnapOpts{features: true}, pn) {
		return
	}
	// 4. and back: the builder's descriptor converts to the same proto
	if qb, err := convToProto(fdB); err != nil || !proto.Equal(qb, pn) {
		c.PropFail("C37", "toproto_of_builder_differs:"+cs.origin, in, convProtoDiff(qb, pn))
	}
}

// convUsesMessageSet: MessageSet extensions have their own JSON/text name rule (not modelled).
func convUsesMessageSet(fd protoreflect.FileDescriptor) bool {
	found := false
	var exts func(xs protoreflect.ExtensionDescriptors)
	exts = func(xs protoreflect.ExtensionDescriptors) {
		for i := 0; i < xs.Len(); i++ {
			if m := xs.Get(i).ContainingMessage(); m != nil && !m.IsPlaceholder() {
				if o, ok := m.Options().(*descriptorpb.MessageOptions); ok && o.GetMessageSetWireFormat() {
					found = true
				}
			}
		}
	}
	var msgs func(ms protoreflect.MessageDescriptors)
	msgs = func(ms protoreflect.MessageDescriptors) {
		for i := 0; i < ms.Len(); i++ {
			exts(ms.Get(i).Extensions())
			msgs(ms.Get(i).Messages())
		}
	}
	exts(fd.Extensions())
	msgs(fd.Messages())
	return found
}

// ---------------------------------------------------------------- linked files

func convLinked(c *Ctx) {
	var files []protoreflect.FileDescriptor
	protoregistry.GlobalFiles.RangeFiles(func(fd protoreflect.FileDescriptor) bool {
		files = append(files, fd)
		return true
	})
	sort.Slice(files, func(i, j int) bool { return files[i].Path() < files[j].Path() })
	for i, d := range files {
		// every shard takes a quarter of the linked files (shard seeds differ by 7919 = 3 mod 4,
		// so four consecutive shards cover all of them)
		if uint64(i)%4 != c.Seed%4 {
			continue
		}
		c.Stat("linked_files")
		p, err := convToProto(d)
		if err != nil {
			c.PropFail("C34", "toproto_panics:linked", d.Path(), convTok(err.Error()))
			continue
		}
		in := d.Path()
		var reg protodesc.Resolver = protoregistry.GlobalFiles
		fd2, err := convNewFile(p, reg)
		if err != nil && strings.Contains(err.Error(), "could not resolve import") {
			// legacy.proto imports files that only exist as legacy (unregistered) descriptors
			c.Stat("linked_allow_unresolvable")
			fd2, err = protodesc.FileOptions{AllowUnresolvable: true}.New(p, reg)
		}
		if err != nil && d.Path() == "internal/testprotos/legacy/legacy.proto" && strings.Contains(err.Error(), "is not imported") {
			// a test fixture whose import paths deliberately differ from the registered paths
			c.Stat("linked_legacy_fixture_skipped")
			continue
		}
		if err != nil && strings.Contains(err.Error(), "is a MessageSet") && !flags.ProtoLegacy {
			// MessageSet needs -tags protolegacy (validation, C35/F13); not a conversion issue
			c.Stat("linked_messageset_skipped")
			continue
		}
		if err != nil {
			c.PropFail("C34", "newfile_rejects_toproto_output:linked", in, convTok(err.Error()))
			continue
		}
		so := convSnapOpts{locations: true}
		convCompare(c, "C34", "newfile_toproto_snapshot_differs:linked", in, d, fd2, so, p)
		if q2, err := convToProto(fd2); err != nil || !proto.Equal(q2, p) {
			c.PropFail("C34", "toproto_not_idempotent:linked", in, convProtoDiff(q2, p))
		}
		// C37: the linked descriptor (built by filedesc from protoc's bytes) against protodesc
		convCompare(c, "C37", "resolved_features_differ:linked", in, fd2, d, convSnapOpts{features: true}, p)
		// C37: rebuild through the raw-descriptor builder from the re-serialized proto
		raw := convMarshal(p)
		fdB, err := convBuild(raw, reg, nil)
		if err != nil {
			c.PropFail("C37", "builder_panics:linked", in, convTok(err.Error()))
			continue
		}
		if !convCompare(c, "C37", "eager_accessors_differ:linked", in, fd2, fdB, convSnapOpts{eagerOnly: true}, p) {
			continue
		}
		convCompare(c, "C37", "accessors_differ:linked", in, fd2, fdB, convSnapOpts{features: true}, p)
		if df := convDiff(convSnap(d, convSnapOpts{features: true}), convSnap(fdB, convSnapOpts{features: true})); df != "" {
			// two runs of the same builder (protoc's bytes vs re-marshalled bytes)
			c.PropFail("C37", "builder_not_stable_under_reserialisation:linked", in, df)
		}
		// the Coq model on the linked schema (names are already absolute: p is its own normal form)
		if reg == protodesc.Resolver(protoregistry.GlobalFiles) && !convUsesMessageSet(fd2) {
			env := convLocalEnv(p)
			var direct []protoreflect.FileDescriptor
			for i := 0; i < d.Imports().Len(); i++ {
				if imp := d.Imports().Get(i); !imp.IsPlaceholder() {
					direct = append(direct, imp.FileDescriptor)
				}
			}
			closure := convImportClosure(direct)
			for _, f := range files {
				if closure[f.Path()] {
					convWalkRemote(f, true, env.remote, nil)
				}
			}
			c.Stat("linked_model_cases")
			convEmitModelCases(c, &convCase{p: p, env: env, reg: reg, origin: "linked"}, fd2, p)
		}
	}
}

// ---------------------------------------------------------------- random schemas

func convRandomGroup(c *Ctx, idx int) {
	reg := new(protoregistry.Files)
	var all []protoreflect.FileDescriptor
	withDescriptor := c.Intn(3) == 0
	if withDescriptor {
		d := descriptorpb.File_google_protobuf_descriptor_proto
		if err := reg.RegisterFile(d); err != nil {
			panic(err)
		}
		all = append(all, d)
	}
	mk := func(o convGenOpts, origin string) protoreflect.FileDescriptor {
		p, env := convGenFile(c, o, all)
		cs := &convCase{p: p, env: env, reg: reg, origin: origin}
		c.Stat("files_" + map[int]string{998: "proto2", 999: "proto3", 1000: "ed2023", 1001: "ed2024"}[convEditionOf(p)])
		fd, norm := convCheckC34(c, cs)
		if fd == nil {
			return nil
		}
		if norm != nil {
			convCheckC37(c, cs, norm)
			convEmitModelCases(c, cs, fd, norm)
			convMutantCases(c, cs)
			convMutantCases(c, cs)
		}
		return fd
	}
	descDep := func() []*convDepFile {
		if withDescriptor && c.Bool() {
			return []*convDepFile{{fd: descriptorpb.File_google_protobuf_descriptor_proto}}
		}
		return nil
	}
	register := func(fd protoreflect.FileDescriptor) bool {
		if fd == nil {
			return false
		}
		if err := reg.RegisterFile(fd); err != nil {
			c.Stat("dep_name_conflict")
			return false
		}
		all = append(all, fd)
		return true
	}
	var deps []*convDepFile
	ndeps := c.Intn(3)
	pkgs := []string{"dep", "p", "p.q", "foo", "", "M"}
	var prev protoreflect.FileDescriptor
	for i := 0; i < ndeps; i++ {
		pkg := pkgs[c.Intn(len(pkgs))]
		o := convGenOpts{path: fmt.Sprintf("conv/g%d/dep%d.proto", idx, i), pkg: &pkg, deps: descDep(), small: true}
		viaPublic := false
		if prev != nil && c.Bool() {
			// dep_i publicly (or privately) imports dep_{i-1}
			viaPublic = c.Bool()
			o.deps = append(o.deps, &convDepFile{fd: prev, public: viaPublic})
		}
		fd := mk(o, "dep")
		if !register(fd) {
			continue
		}
		if viaPublic && c.Bool() && len(deps) > 0 {
			// main reaches dep_{i-1} only through the public import of dep_i
			deps = deps[:len(deps)-1]
			c.Stat("public_import_chain")
		}
		deps = append(deps, &convDepFile{fd: fd, public: c.Intn(4) == 0})
		prev = fd
	}
	// sometimes a file that is registered but not imported (must never be resolved into)
	if c.Intn(4) == 0 {
		pkg := pkgs[c.Intn(len(pkgs))]
		fd := mk(convGenOpts{path: fmt.Sprintf("conv/g%d/hidden.proto", idx), pkg: &pkg, small: true}, "hidden")
		if register(fd) {
			c.Stat("hidden_file")
		}
	}
	o := convGenOpts{path: fmt.Sprintf("conv/g%d/main.proto", idx), deps: append(deps, descDep()...)}
	mk(o, "main")
}

func convEditionOf(p *descriptorpb.FileDescriptorProto) int {
	switch p.GetSyntax() {
	case "proto3":
		return 999
	case "editions":
		return int(p.GetEdition())
	}
	return 998
}

func famConv(c *Ctx) {
	convCorpus(c)
	convLinked(c)
	for i := 0; i < c.N; i++ {
		convRandomGroup(c, i)
		for k := 0; k < 6; k++ {
			convResolveProbe(c, 6*i+k)
		}
	}
}

// debugging aid: CONV_DUMP=<file with x-hex token> h convdump  prints the proto as text
func init() {
	Register("convdump", func(c *Ctx) {
		b, err := os.ReadFile(os.Getenv("CONV_DUMP"))
		if err != nil {
			panic(err)
		}
		p := &descriptorpb.FileDescriptorProto{}
		if err := proto.Unmarshal(ParseHexB(strings.TrimSpace(string(b))), p); err != nil {
			panic(err)
		}
		fmt.Fprintln(os.Stderr, prototext.MarshalOptions{Multiline: true}.Format(p))
	})
}
