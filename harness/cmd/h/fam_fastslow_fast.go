//go:build verif && !protoreflect

package main

// default build: package proto uses the generated (table-driven) methods of internal/impl
const fastslowBuildName = "default"
const fastslowOtherBin = "h_verif_protoreflect"
const fastslowOtherEnv = "VERIF_H_REFLECT"
