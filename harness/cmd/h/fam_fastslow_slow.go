//go:build verif && protoreflect

package main

// -tags protoreflect: package proto ignores the generated methods (reflection path everywhere)
const fastslowBuildName = "protoreflect"
const fastslowOtherBin = "h_verif"
const fastslowOtherEnv = "VERIF_H_DEFAULT"
