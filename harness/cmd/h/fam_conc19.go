//go:build verif

// Family conc19 — property C19: concurrent first use of types, descriptors and registries.
//
// First use happens once per process, so every experiment runs in a fresh child
// process of this binary (normally built with -race).  An experiment (seed)
// determines a plan: a set of first-use tasks on objects linked into the binary
// (message types, enums, extensions, files, legacy messages) and, per goroutine,
// an order in which to perform them; plus a number of dynamically built files
// that writer goroutines register in the *global* registries while everybody
// takes snapshots of the registries.
//
//	par child:  N goroutines released by a barrier run their programs; every task
//	            yields a digest of everything observed (descriptor contents, field
//	            tables, marshalled bytes, ...); the child prints one R line per
//	            (goroutine, task) and one G line per registry snapshot.
//	seq child:  one goroutine performs every task of the given experiments once,
//	            in a fixed order, and prints the reference digests.
//
// The parent compares every goroutine's digests with the sequential digests (P
// lines on mismatch, race report, crash), evaluates the registry predicate, and
// prints the observations as C lines for the Coq models (InitOnceModel:
// icheck_observed for init-once objects, robs_ok for registry snapshots).
package main

import (
	"fmt"
	"hash/fnv"
	"os"
	"runtime"
	"sort"
	"strconv"
	"strings"
	"sync"
	"sync/atomic"
	"time"

	"google.golang.org/protobuf/encoding/protojson"
	"google.golang.org/protobuf/encoding/prototext"
	"google.golang.org/protobuf/proto"
	"google.golang.org/protobuf/reflect/protodesc"
	"google.golang.org/protobuf/reflect/protoreflect"
	"google.golang.org/protobuf/reflect/protoregistry"
	"google.golang.org/protobuf/runtime/protoimpl"
	"google.golang.org/protobuf/types/descriptorpb"
	"google.golang.org/protobuf/types/dynamicpb"

	l2a "google.golang.org/protobuf/internal/testprotos/legacy/proto2_20160225_2fc053c5"
	l2b "google.golang.org/protobuf/internal/testprotos/legacy/proto2_20160519_a4ab9ec5"
	l2c "google.golang.org/protobuf/internal/testprotos/legacy/proto2_20180125_92554152"
	l2d "google.golang.org/protobuf/internal/testprotos/legacy/proto2_20180430_b4deda09"
	l2e "google.golang.org/protobuf/internal/testprotos/legacy/proto2_20180814_aa810b61"
	l2f "google.golang.org/protobuf/internal/testprotos/legacy/proto2_20190205_c823c79e"
	l3a "google.golang.org/protobuf/internal/testprotos/legacy/proto3_20160225_2fc053c5"
	l3b "google.golang.org/protobuf/internal/testprotos/legacy/proto3_20160519_a4ab9ec5"
	l3c "google.golang.org/protobuf/internal/testprotos/legacy/proto3_20180125_92554152"
	l3d "google.golang.org/protobuf/internal/testprotos/legacy/proto3_20180430_b4deda09"
	l3e "google.golang.org/protobuf/internal/testprotos/legacy/proto3_20180814_aa810b61"
	l3f "google.golang.org/protobuf/internal/testprotos/legacy/proto3_20190205_c823c79e"
)

func init() { Register("conc19", famConc19); Register("conc19r", famConc19) }

const conc19SeedsEnv = "VERIF_CONC19_SEEDS"

// an aberrant message: no descriptor, only struct tags (impl.aberrantLoadMessageDesc, mutex + map)
type conc19Aberrant struct {
	F1 *int32          `protobuf:"varint,1,opt,name=f1"`
	F2 []string        `protobuf:"bytes,2,rep,name=f2"`
	F3 *conc19Aberrant `protobuf:"bytes,3,opt,name=f3"`
}

func (*conc19Aberrant) Reset()         {}
func (*conc19Aberrant) String() string { return "" }
func (*conc19Aberrant) ProtoMessage()  {}

var conc19Legacy = []func() interface{}{
	func() interface{} { return &l2a.Message{} }, func() interface{} { return &l2b.Message{} },
	func() interface{} { return &l2c.Message{} }, func() interface{} { return &l2d.Message{} },
	func() interface{} { return &l2e.Message{} }, func() interface{} { return &l2f.Message{} },
	func() interface{} { return &l3a.Message{} }, func() interface{} { return &l3b.Message{} },
	func() interface{} { return &l3c.Message{} }, func() interface{} { return &l3d.Message{} },
	func() interface{} { return &l3e.Message{} }, func() interface{} { return &l3f.Message{} },
	func() interface{} { return &conc19Aberrant{} },
}

// ---------------------------------------------------------------- catalog and plan

type conc19Catalog struct {
	msgs, enums, exts, files []string
}

func conc19GetCatalog() *conc19Catalog {
	cat := &conc19Catalog{}
	protoregistry.GlobalTypes.RangeMessages(func(mt protoreflect.MessageType) bool {
		cat.msgs = append(cat.msgs, string(mt.Descriptor().FullName()))
		return true
	})
	protoregistry.GlobalTypes.RangeEnums(func(et protoreflect.EnumType) bool {
		cat.enums = append(cat.enums, string(et.Descriptor().FullName()))
		return true
	})
	protoregistry.GlobalTypes.RangeExtensions(func(xt protoreflect.ExtensionType) bool {
		cat.exts = append(cat.exts, string(xt.TypeDescriptor().FullName()))
		return true
	})
	protoregistry.GlobalFiles.RangeFiles(func(fd protoreflect.FileDescriptor) bool {
		cat.files = append(cat.files, fd.Path())
		return true
	})
	sort.Strings(cat.msgs)
	sort.Strings(cat.enums)
	sort.Strings(cat.exts)
	sort.Strings(cat.files)
	return cat
}

type conc19Plan struct {
	seed     uint64
	nthreads int
	tasks    []string
	order    [][]int // per goroutine: indices into tasks; -1 = take a registry snapshot; -2-i = register dynamic file i
	ndyn     int
}

func conc19MakePlan(seed uint64, tier string, cat *conc19Catalog) *conc19Plan {
	r := &Ctx{Seed: seed, rng: seed * 0x2545F4914F6CDD1D, stats: map[string]int{}}
	p := &conc19Plan{seed: seed}
	p.nthreads = []int{2, 4, 8, 16}[r.Intn(4)]
	nm := 3 + r.Intn(5)
	seen := map[string]bool{}
	add := func(t string) {
		if !seen[t] {
			seen[t] = true
			p.tasks = append(p.tasks, t)
		}
	}
	for i := 0; i < nm; i++ {
		name := cat.msgs[r.Intn(len(cat.msgs))]
		// the lazy/opaque/editions test types exercise more of impl.MessageInfo
		switch r.Intn(3) {
		case 0:
			add("desc:" + name)
			add("msg:" + name)
		case 1:
			add("msg:" + name)
			add("text:" + name)
		default:
			add("msg:" + name)
		}
	}
	for i := r.Intn(3); i > 0 && len(cat.enums) > 0; i-- {
		add("enum:" + cat.enums[r.Intn(len(cat.enums))])
	}
	for i := 1 + r.Intn(3); i > 0 && len(cat.exts) > 0; i-- {
		add("ext:" + cat.exts[r.Intn(len(cat.exts))])
	}
	for i := 1 + r.Intn(3); i > 0; i-- {
		add("file:" + cat.files[r.Intn(len(cat.files))])
	}
	for i := r.Intn(3); i > 0; i-- {
		add("legacy:" + strconv.Itoa(r.Intn(len(conc19Legacy))))
	}
	p.ndyn = 1 + r.Intn(4)
	if p.ndyn > p.nthreads {
		p.ndyn = p.nthreads
	}
	common := conc19Perm(r, len(p.tasks))
	for g := 0; g < p.nthreads; g++ {
		var ord []int
		if g%2 == 0 {
			ord = append(ord, common...)
		} else {
			ord = conc19Perm(r, len(p.tasks))
		}
		// sprinkle registry snapshots; goroutine g < ndyn registers dynamic file g somewhere
		var prog []int
		regAt := -1
		if g < p.ndyn {
			regAt = r.Intn(len(ord) + 1)
		}
		for i, t := range ord {
			if i == regAt {
				prog = append(prog, -2-g)
			}
			prog = append(prog, t)
			if r.Intn(3) == 0 {
				prog = append(prog, -1)
			}
		}
		if regAt == len(ord) {
			prog = append(prog, -2-g)
		}
		prog = append(prog, -1)
		p.order = append(p.order, prog)
	}
	return p
}

func conc19Perm(c *Ctx, n int) []int {
	p := make([]int, n)
	for i := range p {
		p[i] = i
	}
	for i := n - 1; i > 0; i-- {
		j := c.Intn(i + 1)
		p[i], p[j] = p[j], p[i]
	}
	return p
}

// ---------------------------------------------------------------- tasks

type conc19Hash struct{ h uint64 }

func (d *conc19Hash) str(s string) {
	f := fnv.New64a()
	f.Write([]byte(s))
	d.h = concMix(d.h, f.Sum64())
}
func (d *conc19Hash) num(v int) { d.h = concMix(d.h, uint64(v)+0x51) }
func (d *conc19Hash) bytes(b []byte, err error) {
	if err != nil {
		d.str("error")
		return
	}
	d.h = concMix(d.h, concDigest(b))
	d.num(len(b))
}

var conc19Det = proto.MarshalOptions{Deterministic: true, AllowPartial: true}

func conc19Options(d *conc19Hash, m proto.Message) {
	if m == nil {
		d.str("nil")
		return
	}
	d.bytes(conc19Det.Marshal(m))
}

func conc19FieldDigest(d *conc19Hash, fd protoreflect.FieldDescriptor) {
	d.str(string(fd.FullName()))
	d.num(int(fd.Number()))
	d.num(int(fd.Kind()))
	d.num(int(fd.Cardinality()))
	d.str(fd.JSONName())
	d.str(fd.TextName())
	d.str(Tok(fd.HasPresence()) + Tok(fd.IsPacked()) + Tok(fd.IsList()) + Tok(fd.IsMap()) + Tok(fd.IsExtension()) + Tok(fd.HasDefault()) + Tok(fd.HasOptionalKeyword()))
	if fd.Message() != nil {
		d.str(string(fd.Message().FullName()))
		d.num(fd.Message().Fields().Len())
	}
	if fd.Enum() != nil {
		d.str(string(fd.Enum().FullName()))
		d.num(fd.Enum().Values().Len())
	}
	if fd.ContainingOneof() != nil {
		d.str(string(fd.ContainingOneof().Name()))
	}
	if fd.ContainingMessage() != nil {
		d.str(string(fd.ContainingMessage().FullName()))
	}
	if fd.HasDefault() {
		d.str(fd.Default().String())
	}
	conc19Options(d, fd.Options())
}

func conc19MsgDescDigest(d *conc19Hash, md protoreflect.MessageDescriptor, depth int) {
	d.str(string(md.FullName()))
	d.str(md.ParentFile().Path())
	d.num(int(md.Syntax()))
	d.str(Tok(md.IsMapEntry()) + Tok(md.IsPlaceholder()))
	fds := md.Fields()
	d.num(fds.Len())
	for i := 0; i < fds.Len(); i++ {
		fd := fds.Get(i)
		conc19FieldDigest(d, fd)
		// the lazily built lookup tables (sync.Once) must agree with the list
		if fds.ByName(fd.Name()) != fd || fds.ByNumber(fd.Number()) != fd || fds.ByJSONName(fd.JSONName()) == nil ||
			fds.ByTextName(fd.TextName()) != fd {
			d.str("lookup-table-mismatch:" + string(fd.Name()))
		}
	}
	for i := 0; i < md.Oneofs().Len(); i++ {
		od := md.Oneofs().Get(i)
		d.str(string(od.Name()))
		d.num(od.Fields().Len())
		d.str(Tok(od.IsSynthetic()))
		if md.Oneofs().ByName(od.Name()) != od {
			d.str("oneof-lookup-mismatch")
		}
	}
	d.num(md.ExtensionRanges().Len())
	for i := 0; i < md.ExtensionRanges().Len(); i++ {
		rg := md.ExtensionRanges().Get(i)
		d.num(int(rg[0]))
		d.num(int(rg[1]))
		conc19Options(d, md.ExtensionRangeOptions(i))
	}
	d.num(md.ReservedNames().Len())
	d.num(md.ReservedRanges().Len())
	d.num(md.RequiredNumbers().Len())
	d.num(md.Enums().Len())
	for i := 0; i < md.Enums().Len(); i++ {
		conc19EnumDescDigest(d, md.Enums().Get(i))
	}
	d.num(md.Extensions().Len())
	for i := 0; i < md.Extensions().Len(); i++ {
		conc19FieldDigest(d, md.Extensions().Get(i))
	}
	conc19Options(d, md.Options())
	d.num(md.Messages().Len())
	if depth > 0 {
		for i := 0; i < md.Messages().Len(); i++ {
			conc19MsgDescDigest(d, md.Messages().Get(i), depth-1)
		}
	}
}

func conc19EnumDescDigest(d *conc19Hash, ed protoreflect.EnumDescriptor) {
	d.str(string(ed.FullName()))
	vs := ed.Values()
	d.num(vs.Len())
	for i := 0; i < vs.Len(); i++ {
		v := vs.Get(i)
		d.str(string(v.Name()))
		d.num(int(v.Number()))
		if vs.ByName(v.Name()) == nil || vs.ByNumber(v.Number()) == nil {
			d.str("enum-lookup-mismatch")
		}
	}
	d.num(ed.ReservedNames().Len())
	d.num(ed.ReservedRanges().Len())
	conc19Options(d, ed.Options())
}

func conc19NameSeed(s string) uint64 {
	f := fnv.New64a()
	f.Write([]byte(s))
	return f.Sum64() | 1
}

// conc19Populated builds a deterministic (name-seeded) populated value of the type.
func conc19Populated(mt protoreflect.MessageType) proto.Message {
	m := mt.New()
	r := &Ctx{rng: conc19NameSeed(string(mt.Descriptor().FullName())), stats: map[string]int{}}
	budget := 6
	conc18Populate(r, m, 1, &budget)
	return m.Interface()
}

func conc19MsgTask(d *conc19Hash, mt protoreflect.MessageType) {
	zero := mt.New().Interface()
	d.bytes(conc19Det.Marshal(zero))
	d.num(proto.Size(zero))
	m := conc19Populated(mt)
	b, err := conc19Det.Marshal(m)
	d.bytes(b, err)
	if err != nil {
		return
	}
	d.num(conc19Det.Size(m))
	back := mt.New().Interface()
	uerr := proto.UnmarshalOptions{AllowPartial: true}.Unmarshal(b, back)
	d.str(Tok(uerr == nil))
	if uerr == nil {
		d.str(Tok(proto.Equal(m, back)))
		d.bytes(conc19Det.Marshal(back))
		d.bytes(conc19Det.Marshal(proto.Clone(back)))
	}
	d.str(Tok(proto.CheckInitialized(m) == nil))
	// reflection view
	n := 0
	m.ProtoReflect().Range(func(fd protoreflect.FieldDescriptor, v protoreflect.Value) bool {
		n += int(fd.Number())
		return true
	})
	d.num(n)
}

func conc19TextTask(d *conc19Hash, mt protoreflect.MessageType) {
	m := conc19Populated(mt)
	tb, terr := prototext.MarshalOptions{AllowPartial: true}.Marshal(m)
	d.str(Tok(terr == nil))
	if terr == nil {
		back := mt.New().Interface()
		err := prototext.UnmarshalOptions{AllowPartial: true}.Unmarshal(tb, back)
		d.str(Tok(err == nil))
		if err == nil {
			d.bytes(conc19Det.Marshal(back))
		}
	}
	jb, jerr := protojson.MarshalOptions{AllowPartial: true}.Marshal(m)
	d.str(Tok(jerr == nil))
	if jerr == nil {
		back := mt.New().Interface()
		err := protojson.UnmarshalOptions{AllowPartial: true}.Unmarshal(jb, back)
		d.str(Tok(err == nil))
		if err == nil {
			d.bytes(conc19Det.Marshal(back))
		}
	}
}

func conc19FileTask(d *conc19Hash, fd protoreflect.FileDescriptor) {
	d.str(fd.Path())
	d.str(string(fd.Package()))
	d.num(int(fd.Syntax()))
	d.num(fd.Imports().Len())
	for i := 0; i < fd.Imports().Len(); i++ {
		imp := fd.Imports().Get(i)
		d.str(imp.Path())
		d.str(Tok(imp.IsPublic))
	}
	conc19Options(d, fd.Options())
	d.num(fd.Messages().Len())
	for i := 0; i < fd.Messages().Len(); i++ {
		md := fd.Messages().Get(i)
		conc19MsgDescDigest(d, md, 1)
		if fd.Messages().ByName(md.Name()) != md {
			d.str("file-message-lookup-mismatch")
		}
	}
	d.num(fd.Enums().Len())
	for i := 0; i < fd.Enums().Len(); i++ {
		conc19EnumDescDigest(d, fd.Enums().Get(i))
	}
	d.num(fd.Extensions().Len())
	for i := 0; i < fd.Extensions().Len(); i++ {
		conc19FieldDigest(d, fd.Extensions().Get(i))
	}
	d.num(fd.Services().Len())
	for i := 0; i < fd.Services().Len(); i++ {
		sd := fd.Services().Get(i)
		d.str(string(sd.FullName()))
		conc19Options(d, sd.Options())
		for j := 0; j < sd.Methods().Len(); j++ {
			md := sd.Methods().Get(j)
			d.str(string(md.Name()))
			d.str(string(md.Input().FullName()))
			d.str(string(md.Output().FullName()))
			d.str(Tok(md.IsStreamingClient()) + Tok(md.IsStreamingServer()))
			conc19Options(d, md.Options())
		}
	}
	d.num(fd.SourceLocations().Len())
	// the descriptor converts back to a FileDescriptorProto
	d.bytes(conc19Det.Marshal(protodesc.ToFileDescriptorProto(fd)))
}

func conc19ExtTask(d *conc19Hash, xt protoreflect.ExtensionType) {
	xd := xt.TypeDescriptor()
	conc19FieldDigest(d, xd)
	d.str(fmt.Sprint(xt.Zero().IsValid()))
	v := xt.New()
	d.str(Tok(xt.IsValidValue(v)))
	if xd.Message() == nil && !xd.IsList() {
		d.str(v.String())
	}
	d.str(fmt.Sprintf("%T", xt.InterfaceOf(xt.Zero())))
	if mt, err := protoregistry.GlobalTypes.FindMessageByName(xd.ContainingMessage().FullName()); err == nil {
		m := mt.New()
		d.str(Tok(m.Has(xd)))
		if xd.IsList() || xd.Message() != nil {
			m.Mutable(xd)
		} else {
			m.Set(xd, v)
		}
		d.bytes(conc19Det.Marshal(m.Interface()))
		if x2, err := protoregistry.GlobalTypes.FindExtensionByNumber(xd.ContainingMessage().FullName(), xd.Number()); err == nil {
			d.str(string(x2.TypeDescriptor().FullName()))
		} else {
			d.str("not-found-by-number")
		}
	}
}

// conc19RunTask performs one first-use task and returns the digest of what it observed.
func conc19RunTask(task string) (dig uint64) {
	d := &conc19Hash{}
	defer func() {
		if r := recover(); r != nil {
			d.str("panic:" + fmt.Sprint(r))
			dig = d.h
		}
	}()
	i := strings.IndexByte(task, ':')
	kind, name := task[:i], task[i+1:]
	switch kind {
	case "desc":
		mt, err := protoregistry.GlobalTypes.FindMessageByName(protoreflect.FullName(name))
		if err != nil {
			d.str("notfound")
			break
		}
		conc19MsgDescDigest(d, mt.Descriptor(), 2)
		if dd, err := protoregistry.GlobalFiles.FindDescriptorByName(protoreflect.FullName(name)); err == nil {
			d.str(string(dd.FullName()))
			d.str(Tok(dd == mt.Descriptor()))
		} else {
			d.str("desc-notfound")
		}
	case "msg", "text":
		mt, err := protoregistry.GlobalTypes.FindMessageByName(protoreflect.FullName(name))
		if err != nil {
			d.str("notfound")
			break
		}
		if kind == "msg" {
			conc19MsgTask(d, mt)
		} else {
			conc19TextTask(d, mt)
		}
	case "enum":
		et, err := protoregistry.GlobalTypes.FindEnumByName(protoreflect.FullName(name))
		if err != nil {
			d.str("notfound")
			break
		}
		conc19EnumDescDigest(d, et.Descriptor())
		if et.Descriptor().Values().Len() > 0 {
			n := et.Descriptor().Values().Get(0).Number()
			d.str(fmt.Sprintf("%T", et.New(n)))
			d.num(int(et.New(n).Number()))
		}
	case "ext":
		xt, err := protoregistry.GlobalTypes.FindExtensionByName(protoreflect.FullName(name))
		if err != nil {
			d.str("notfound")
			break
		}
		conc19ExtTask(d, xt)
	case "file":
		fd, err := protoregistry.GlobalFiles.FindFileByPath(name)
		if err != nil {
			d.str("notfound")
			break
		}
		conc19FileTask(d, fd)
	case "legacy":
		k, _ := strconv.Atoi(name)
		m := protoimpl.X.ProtoMessageV2Of(conc19Legacy[k]())
		pm := m.ProtoReflect()
		conc19MsgDescDigest(d, pm.Descriptor(), 2)
		d.bytes(conc19Det.Marshal(m))
		mt := pm.Type()
		conc19MsgTask(d, mt)
		// a second wrapper of the same Go type must resolve to the same descriptor
		m2 := protoimpl.X.ProtoMessageV2Of(conc19Legacy[k]())
		d.str(Tok(m2.ProtoReflect().Descriptor() == pm.Descriptor()))
	}
	return d.h
}

// ---------------------------------------------------------------- dynamic files for the registry part

func conc19DynFile(seed uint64, i int) (protoreflect.FileDescriptor, error) {
	pkg := fmt.Sprintf("verif.dyn%d", i)
	fdp := &descriptorpb.FileDescriptorProto{
		Name:    proto.String(fmt.Sprintf("verif/dyn%d.proto", i)),
		Package: proto.String(pkg),
		Syntax:  proto.String("proto3"),
	}
	for j := 0; j < 3; j++ {
		fdp.MessageType = append(fdp.MessageType, &descriptorpb.DescriptorProto{
			Name: proto.String(fmt.Sprintf("M%d", j)),
			Field: []*descriptorpb.FieldDescriptorProto{
				{Name: proto.String("a"), Number: proto.Int32(1), Type: descriptorpb.FieldDescriptorProto_TYPE_INT32.Enum(),
					Label: descriptorpb.FieldDescriptorProto_LABEL_OPTIONAL.Enum(), JsonName: proto.String("a")},
				{Name: proto.String("self"), Number: proto.Int32(2), Type: descriptorpb.FieldDescriptorProto_TYPE_MESSAGE.Enum(),
					Label: descriptorpb.FieldDescriptorProto_LABEL_OPTIONAL.Enum(), TypeName: proto.String(fmt.Sprintf(".%s.M%d", pkg, j)),
					JsonName: proto.String("self")},
			},
		})
	}
	return protodesc.NewFile(fdp, protoregistry.GlobalFiles)
}

// conc19Snapshot takes one read-locked snapshot of the global file registry and returns the
// dynamic files visible in it; also probes single lookups.
func conc19Snapshot(ndyn int) []int {
	var seen []int
	protoregistry.GlobalFiles.RangeFiles(func(fd protoreflect.FileDescriptor) bool {
		p := fd.Path()
		if strings.HasPrefix(p, "verif/dyn") {
			if i, err := strconv.Atoi(strings.TrimSuffix(strings.TrimPrefix(p, "verif/dyn"), ".proto")); err == nil {
				seen = append(seen, i)
			}
		}
		return true
	})
	sort.Ints(seen)
	return seen
}

// ---------------------------------------------------------------- children

func conc19CSV(l []int) string {
	s := make([]string, len(l))
	for i, v := range l {
		s[i] = strconv.Itoa(v)
	}
	return strings.Join(s, ",")
}

func conc19SeqChild(c *Ctx) {
	cat := conc19GetCatalog()
	done := map[string]bool{}
	for _, s := range strings.Split(os.Getenv(conc19SeedsEnv), ",") {
		seed, err := strconv.ParseUint(s, 10, 64)
		if err != nil {
			continue
		}
		p := conc19MakePlan(seed, c.Tier, cat)
		for _, t := range p.tasks {
			if done[t] {
				continue
			}
			done[t] = true
			fmt.Fprintf(c.w, "R\t%s\t%x\n", t, conc19RunTask(t))
		}
	}
}

func conc19ParChild(c *Ctx) {
	cat := conc19GetCatalog()
	p := conc19MakePlan(c.Seed, c.Tier, cat)
	dyn := make([]protoreflect.FileDescriptor, p.ndyn)
	for i := range dyn {
		fd, err := conc19DynFile(c.Seed, i)
		if err != nil {
			fmt.Fprintf(c.w, "P\tC19\tharness: cannot build dynamic file\t%s\n", concTok(err.Error()))
			return
		}
		dyn[i] = fd
	}
	type snap struct{ pre, seen []int }
	results := make([][]string, p.nthreads)
	snaps := make([][]snap, p.nthreads)
	panics := make([]string, p.nthreads)
	var ready int32
	start := make(chan struct{})
	var wg sync.WaitGroup
	for g := 0; g < p.nthreads; g++ {
		wg.Add(1)
		go func(g int) {
			defer wg.Done()
			defer func() {
				if r := recover(); r != nil {
					panics[g] = fmt.Sprint(r)
				}
			}()
			known := map[int]bool{}
			atomic.AddInt32(&ready, 1)
			<-start
			for atomic.LoadInt32(&ready) < int32(p.nthreads) {
				runtime.Gosched()
			}
			for _, step := range p.order[g] {
				switch {
				case step >= 0:
					t := p.tasks[step]
					results[g] = append(results[g], fmt.Sprintf("%s\t%x", t, conc19RunTask(t)))
				case step == -1:
					var pre []int
					for i := range known {
						pre = append(pre, i)
					}
					sort.Ints(pre)
					seen := conc19Snapshot(p.ndyn)
					for _, i := range seen {
						known[i] = true
					}
					snaps[g] = append(snaps[g], snap{pre, seen})
					// single read-locked lookups of every dynamic name: a name that is found belongs to
					// a registration that has completed, so later snapshots must contain it
					for i := 0; i < p.ndyn; i++ {
						name := protoreflect.FullName(fmt.Sprintf("verif.dyn%d.M2", i))
						if _, err := protoregistry.GlobalTypes.FindMessageByName(name); err == nil {
							// the types are registered after the file
							known[i] = true
						}
						if _, err := protoregistry.GlobalFiles.FindDescriptorByName(name); err == nil {
							known[i] = true
						}
					}
				default:
					i := -2 - step
					fd := dyn[i]
					if err := protoregistry.GlobalFiles.RegisterFile(fd); err != nil {
						panics[g] = "RegisterFile: " + err.Error()
						return
					}
					for j := 0; j < fd.Messages().Len(); j++ {
						if err := protoregistry.GlobalTypes.RegisterMessage(dynamicpb.NewMessageType(fd.Messages().Get(j))); err != nil {
							panics[g] = "RegisterMessage: " + err.Error()
							return
						}
					}
					known[i] = true
					// everything this goroutine registered must be visible to itself at once
					for j := 0; j < fd.Messages().Len(); j++ {
						name := fd.Messages().Get(j).FullName()
						if _, err := protoregistry.GlobalFiles.FindDescriptorByName(name); err != nil {
							panics[g] = "registered descriptor not found: " + string(name)
						}
						if mt, err := protoregistry.GlobalTypes.FindMessageByName(name); err != nil || mt.Descriptor() != fd.Messages().Get(j) {
							panics[g] = "registered message type not found: " + string(name)
						}
					}
				}
			}
		}(g)
	}
	close(start)
	wg.Wait()
	for g := 0; g < p.nthreads; g++ {
		for _, r := range results[g] {
			fmt.Fprintf(c.w, "R\t%d\t%s\n", g, r)
		}
		for _, s := range snaps[g] {
			fmt.Fprintf(c.w, "G\t%d\t%s\t%s\n", g, conc19CSV(s.pre), conc19CSV(s.seen))
		}
		if panics[g] != "" {
			fmt.Fprintf(c.w, "Q\t%d\t%s\n", g, concTok(panics[g]))
		}
	}
	final := conc19Snapshot(p.ndyn)
	fmt.Fprintf(c.w, "F\t%s\t%d\n", conc19CSV(final), p.ndyn)
}

// ---------------------------------------------------------------- parent

func famConc19(c *Ctx) {
	switch os.Getenv(concChildEnv) {
	case "seq":
		conc19SeqChild(c)
		return
	case "par":
		conc19ParChild(c)
		return
	}
	if concRaceEnabled {
		c.Stat("race_detector_on")
	} else {
		c.Stat("race_detector_off")
	}
	cat := conc19GetCatalog()
	c.StatN("catalog_messages", len(cat.msgs))
	c.StatN("catalog_enums", len(cat.enums))
	c.StatN("catalog_extensions", len(cat.exts))
	c.StatN("catalog_files", len(cat.files))
	seeds := make([]uint64, c.N)
	var ss []string
	for i := range seeds {
		seeds[i] = c.U64() >> 1
		ss = append(ss, strconv.FormatUint(seeds[i], 10))
	}
	// sequential reference: one goroutine, one process, every task of every experiment
	seq := concRunChild("conc19", "seq", 1, 1, c.Tier, []string{conc19SeedsEnv + "=" + strings.Join(ss, ",")}, 20*time.Minute)
	if seq.crashed || seq.timedOut {
		c.PropFail("C19", "harness: sequential reference process failed", "exit="+strconv.Itoa(seq.exitCode), concTok(conc18Tail(seq.stderr)))
		return
	}
	if seq.race {
		c.PropFail("C19", "data race reported by the race detector", "sequential-child", concTok(seq.raceInfo))
	}
	ref := map[string]string{}
	for _, ln := range seq.lines {
		f := strings.Split(ln, "\t")
		if len(f) == 3 && f[0] == "R" {
			ref[f[1]] = f[2]
		}
	}
	c.StatN("sequential_reference_tasks", len(ref))

	for _, seed := range seeds {
		p := conc19MakePlan(seed, c.Tier, cat)
		st := "seed=" + strconv.FormatUint(seed, 10)
		res := concRunChild("conc19", "par", seed, 1, c.Tier, nil, 10*time.Minute)
		c.Stat("child_processes")
		c.Stat("threads_" + strconv.Itoa(p.nthreads))
		if res.race {
			c.PropFail("C19", "data race reported by the race detector", st, concTok(res.raceInfo))
		}
		if res.timedOut {
			c.PropFail("C19", "concurrent first use did not terminate (deadlock or livelock)", st)
			continue
		}
		if res.crashed {
			c.PropFail("C19", "process crashed during concurrent first use", st, "exit="+strconv.Itoa(res.exitCode), concTok(conc18Tail(res.stderr)))
			continue
		}
		// digests per task and goroutine
		saw := map[string]map[int]bool{} // task -> goroutine -> equal to the sequential digest
		count := 0
		type snap struct {
			g         int
			pre, seen string
		}
		var snaps []snap
		final, finalOK := "", false
		for _, ln := range res.lines {
			f := strings.Split(ln, "\t")
			switch {
			case len(f) == 4 && f[0] == "R":
				g, _ := strconv.Atoi(f[1])
				want, ok := ref[f[2]]
				if !ok {
					c.PropFail("C19", "harness: task missing from the sequential reference", st, f[2])
					continue
				}
				if saw[f[2]] == nil {
					saw[f[2]] = map[int]bool{}
				}
				saw[f[2]][g] = f[3] == want
				count++
				if f[3] != want {
					c.PropFail("C19", "goroutine observed a different result than the sequential run", st, "goroutine="+f[1], f[2])
				}
				c.Stat("task_" + f[2][:strings.IndexByte(f[2], ':')])
			case len(f) == 4 && f[0] == "G":
				g, _ := strconv.Atoi(f[1])
				snaps = append(snaps, snap{g, f[2], f[3]})
			case len(f) == 3 && f[0] == "Q":
				c.PropFail("C19", "panic or failed registration during concurrent first use", st, "goroutine="+f[1], f[2])
			case len(f) == 3 && f[0] == "F":
				final = f[1]
				finalOK = true
			case len(f) >= 3 && f[0] == "P":
				c.PropFail("C19", f[2], append([]string{st}, f[3:]...)...)
			}
		}
		want := 0
		for _, prog := range p.order {
			for _, s := range prog {
				if s >= 0 {
					want++
				}
			}
		}
		if count != want || !finalOK {
			c.PropFail("C19", "a goroutine did not complete its first-use program", st, fmt.Sprintf("results=%d want=%d", count, want))
		}
		// registry predicate (also evaluated by the model: robs_ok)
		if finalOK {
			var all []int
			for i := 0; i < p.ndyn; i++ {
				all = append(all, i)
			}
			if final != conc19CSV(all) {
				c.PropFail("C19", "a completed registration is not visible after all goroutines finished", st, "final="+final)
			}
		}
		regIns := []string{"n:" + strconv.Itoa(p.nthreads)}
		for _, s := range snaps {
			regIns = append(regIns, fmt.Sprintf("r:%d:%s:%s", s.g, s.pre, s.seen))
			if !conc19Subset(s.pre, s.seen) {
				c.PropFail("C19", "registry lookup does not see a registration that completed before it started", st, "goroutine="+strconv.Itoa(s.g), "known="+s.pre, "seen="+s.seen)
			}
		}
		for i := range snaps {
			for j := i + 1; j < len(snaps); j++ {
				if !conc19Subset(snaps[i].seen, snaps[j].seen) && !conc19Subset(snaps[j].seen, snaps[i].seen) {
					c.PropFail("C19", "two registry snapshots are not ordered (no single registration order explains them)", st, snaps[i].seen, snaps[j].seen)
				}
			}
		}
		c.Case("conc19", "reg", regIns, []string{"ok"})
		c.StatN("registry_snapshots", len(snaps))
		c.StatN("dynamic_files_registered", p.ndyn)
		// init-once observations for the model: a sample of the objects
		n := 0
		for _, t := range p.tasks {
			if n >= 6 {
				break
			}
			m := saw[t]
			if m == nil {
				continue
			}
			n++
			ins := []string{"o:" + concTok(t), "d:" + Tok(strings.HasPrefix(t, "file:")), "b:3", "n:" + strconv.Itoa(p.nthreads)}
			for g := 0; g < p.nthreads; g++ {
				if eq, ok := m[g]; ok {
					ins = append(ins, fmt.Sprintf("e:%d:%s", g, Tok(eq)))
				}
			}
			c.Case("conc19", "init", ins, []string{"ok"})
		}
	}
	if !concRaceEnabled {
		conc19Schedules(c)
	}
}

func conc19Subset(a, b string) bool {
	if a == "" {
		return true
	}
	set := map[string]bool{}
	for _, x := range strings.Split(b, ",") {
		set[x] = true
	}
	for _, x := range strings.Split(a, ",") {
		if !set[x] {
			return false
		}
	}
	return true
}

// conc19Schedules: model-only exploration of random schedules of both protocol models.
func conc19Schedules(c *Ctx) {
	n := c.N * 2
	if n > 400 {
		n = 400
	}
	for i := 0; i < n; i++ {
		nt := 2 + c.Intn(5)
		b := c.Intn(4)
		ins := []string{"d:" + Tok(c.Bool()), "b:" + strconv.Itoa(b), "n:" + strconv.Itoa(nt)}
		for s := nt * 2 * (b + 8); s > 0; s-- {
			ins = append(ins, "s:"+strconv.Itoa(c.Intn(nt)))
		}
		c.Case("conc19", "isched", ins, []string{"ok"})
		nt = 2 + c.Intn(4)
		ins = []string{"n:" + strconv.Itoa(nt), "k:" + strconv.Itoa(1+c.Intn(3))}
		reg := 1
		for s := nt * 30; s > 0; s-- {
			if c.Intn(3) == 0 {
				ins = append(ins, fmt.Sprintf("s:%d:%d", c.Intn(nt), reg))
				reg++
			} else {
				ins = append(ins, fmt.Sprintf("s:%d:L", c.Intn(nt)))
			}
		}
		c.Case("conc19", "rsched", ins, []string{"ok"})
		c.Stat("model_schedules")
	}
}
