//go:build verif

package main

import (
	stdjson "encoding/json"
	"fmt"
	"math/big"
	"regexp"
	"strings"
	"time"
	"unicode/utf8"

	"google.golang.org/protobuf/encoding/protojson"
	"google.golang.org/protobuf/proto"
	"google.golang.org/protobuf/types/known/durationpb"
	"google.golang.org/protobuf/types/known/fieldmaskpb"
	"google.golang.org/protobuf/types/known/timestamppb"
)

// ---------------------------------------------------------------- C23: JSON forms of Duration / Timestamp / FieldMask

// knownMarshalStr marshals a well-known-type message whose JSON form is a string and
// returns the string content.
func knownMarshalStr(m proto.Message) (string, error) {
	b, err := protojson.Marshal(m)
	if err != nil {
		return "", err
	}
	var s string
	if e := stdjson.Unmarshal(b, &s); e != nil {
		return "", fmt.Errorf("verif: output is not a JSON string: %s", b)
	}
	return s, nil
}

// knownQuote produces a JSON string literal with content s (s must be valid UTF-8).
func knownQuote(c *Ctx, s string) []byte {
	var sb strings.Builder
	sb.WriteByte('"')
	for _, r := range s {
		switch {
		case r == '"' || r == '\\':
			sb.WriteByte('\\')
			sb.WriteRune(r)
		case r < 0x20 || r == 0x7f:
			fmt.Fprintf(&sb, "\\u%04x", r)
		default:
			sb.WriteRune(r)
		}
	}
	sb.WriteByte('"')
	return []byte(sb.String())
}

func knownMarshalErrClass(err error) string {
	s := err.Error()
	switch {
	case strings.Contains(s, "seconds out of range"):
		return "e1"
	case strings.Contains(s, "nanos out of range"):
		return "e2"
	case strings.Contains(s, "signs of seconds and nanos do not match"):
		return "e3"
	case strings.Contains(s, "contains invalid path"):
		return "e1"
	case strings.Contains(s, "contains irreversible value"):
		return "e2"
	}
	return "e?"
}
func knownUnmarshalErrClass(err error) string {
	s := err.Error()
	switch {
	case strings.Contains(s, "value out of range"):
		return "e2"
	case strings.Contains(s, "invalid google.protobuf.Duration value"), strings.Contains(s, "invalid google.protobuf.Timestamp value"),
		strings.Contains(s, "contains invalid path"):
		return "e1"
	}
	return "e?"
}

// ---- Duration

var knownDurRe = regexp.MustCompile(`^([+-]?)(?:(0|[1-9][0-9]*)(?:(\.)([0-9]{0,9}))?|\.([0-9]{1,9}))s$`)

// knownDurOracle: regular expression + big integers, straight from the grammar
// [+-]?((0|[1-9]d*)(.d{0,9})?|.d{1,9})s and the range |seconds| <= 315576000000.
func knownDurOracle(s string) (cls string, secs int64, nanos int32) {
	m := knownDurRe.FindStringSubmatch(s)
	if m == nil {
		return "e1", 0, 0
	}
	ip, fp := m[2], m[4]
	if ip == "" && m[3] == "" {
		fp = m[5]
	}
	iv := new(big.Int)
	if ip != "" {
		iv.SetString(ip, 10)
	}
	if iv.Cmp(knownBigMax) > 0 {
		return "e1", 0, 0 // strconv.ParseInt range error is reported as a syntax error
	}
	if iv.Cmp(big.NewInt(315576000000)) > 0 {
		return "e2", 0, 0
	}
	fv := new(big.Int)
	if fp != "" {
		fv.SetString(fp+strings.Repeat("0", 9-len(fp)), 10)
	}
	secs, nanos = iv.Int64(), int32(fv.Int64())
	if m[1] == "-" {
		secs, nanos = -secs, -nanos
	}
	return "ok", secs, nanos
}

func knownUDur(c *Ctx, s string) {
	var d durationpb.Duration
	err := protojson.Unmarshal(knownQuote(c, s), &d)
	var obs []string
	if err != nil {
		obs = []string{knownUnmarshalErrClass(err)}
	} else {
		obs = []string{"ok", HexZ(d.Seconds), HexZ(int64(d.Nanos))}
	}
	c.Case("known", "udur", []string{HexB([]byte(s))}, obs)
	cls, ws, wn := knownDurOracle(s)
	if cls != obs[0] || (cls == "ok" && (ws != d.Seconds || wn != d.Nanos)) {
		c.PropFail("C23", "Duration parsing differs from the grammar [+-]?((0|[1-9]d*)(.d{0,9})?|.d{1,9})s + range: want "+cls, HexB([]byte(s)))
	}
	if err == nil && !d.IsValid() {
		c.PropFail("C23", "Unmarshal produced an invalid Duration", HexB([]byte(s)))
	}
	c.Stat("dur.json.parse." + obs[0])
}

func knownMDur(c *Ctx, secs int64, nanos int32) {
	d := &durationpb.Duration{Seconds: secs, Nanos: nanos}
	ins := []string{HexZ(secs), HexZ(int64(nanos))}
	s, err := knownMarshalStr(d)
	if err != nil {
		cls := knownMarshalErrClass(err)
		c.Case("known", "mdur", ins, []string{cls})
		if d.IsValid() {
			c.PropFail("C23", "valid Duration rejected by Marshal", ins...)
		}
		c.Stat("dur.json.marshal." + cls)
		return
	}
	c.Case("known", "mdur", ins, []string{"ok", HexB([]byte(s))})
	c.Stat("dur.json.marshal.ok")
	if !d.IsValid() {
		c.PropFail("C23", "out-of-range Duration accepted by Marshal", ins...)
	}
	// 0, 3, 6 or 9 fractional digits
	if i := strings.IndexByte(s, '.'); i >= 0 {
		if n := len(s) - i - 2; n != 3 && n != 6 && n != 9 {
			c.PropFail("C23", "Duration output does not have 0/3/6/9 fractional digits", ins...)
		}
	}
	var back durationpb.Duration
	if e := protojson.Unmarshal(knownQuote(c, s), &back); e != nil || back.Seconds != secs || back.Nanos != nanos {
		c.PropFail("C23", "Duration does not round-trip through JSON", ins...)
	}
	knownUDur(c, s)
}

const knownDurAlpha = "+-.0123456789s"

// valid skeleton: sign? int? (. frac?)? s   then optional mutation
func knownGenDurString(c *Ctx) string {
	var sb strings.Builder
	switch c.Intn(4) {
	case 0:
		sb.WriteByte('-')
	case 1:
		sb.WriteByte('+')
	}
	hasInt := c.Intn(8) > 0
	if hasInt {
		switch c.Intn(8) {
		case 0:
			sb.WriteByte('0')
		case 1:
			sb.WriteString([]string{"315576000000", "315576000001", "315575999999", "9223372036854775807", "9223372036854775808",
				"99999999999999999999", "00", "01", "0315576000000", "1000000000000", "31557600000"}[c.Intn(11)])
		default:
			n := 1 + c.Intn(13)
			sb.WriteByte(byte('1' + c.Intn(9)))
			for i := 1; i < n; i++ {
				sb.WriteByte(byte('0' + c.Intn(10)))
			}
		}
	}
	if c.Intn(3) > 0 || !hasInt {
		sb.WriteByte('.')
		n := c.Intn(11)
		if c.Intn(4) == 0 {
			n = 9
		}
		for i := 0; i < n; i++ {
			if c.Intn(3) == 0 {
				sb.WriteByte('0')
			} else {
				sb.WriteByte(byte('0' + c.Intn(10)))
			}
		}
	}
	sb.WriteByte('s')
	s := sb.String()
	if c.Intn(4) == 0 { // one mutation
		b := []byte(s)
		switch c.Intn(5) {
		case 0:
			if len(b) > 0 {
				b[c.Intn(len(b))] = knownDurAlpha[c.Intn(len(knownDurAlpha))]
			}
		case 1:
			i := c.Intn(len(b) + 1)
			b = append(b[:i], append([]byte{knownDurAlpha[c.Intn(len(knownDurAlpha))]}, b[i:]...)...)
		case 2:
			if len(b) > 0 {
				i := c.Intn(len(b))
				b = append(b[:i], b[i+1:]...)
			}
		case 3:
			b = append(b, " eES\x00,"[c.Intn(6)])
		case 4:
			i := c.Intn(len(b) + 1)
			b = append(b[:i], append([]byte(" "), b[i:]...)...)
		}
		s = string(b)
	}
	return s
}

func knownDurationJSON(c *Ctx, budget int) {
	// (a) corpus: F3a witnesses (repaired: must be rejected), boundaries
	for _, s := range []string{".s", "-.s", "+.s", "s", "", "0s", "1s", "1.s", ".1s", "+1s", "-1s", "-.1s", "-0s", "-0.0s", "00s", "01s",
		"0.s", "0.000000001s", "0.0000000001s", "0.999999999s", "-0.999999999s", "315576000000s", "315576000000.999999999s",
		"-315576000000.999999999s", "315576000001s", "-315576000001s", "9223372036854775807s", "9223372036854775808s",
		"1..s", "1.1.s", "1e3s", "1.5S", " 1s", "1s ", "1 s", "+-1s", "--1s", "3.000001s", "3.000000001s", "1.0000000000s", ".0000000000s",
		".000000000s", "+.5s", "1,5s", "٣s", "1.s\u00a0"} {
		knownUDur(c, s)
	}
	for _, p := range [][2]int64{{0, 0}, {3, 0}, {3, 1}, {3, 1000}, {3, 1000000}, {3, 999999999}, {-3, -1}, {0, -1}, {0, 1}, {0, -999999999},
		{315576000000, 999999999}, {-315576000000, -999999999}, {315576000001, 0}, {-315576000001, 0}, {1, -1}, {-1, 1}, {0, 1000000000},
		{0, -1000000000}, {1000, 0}, {1000, 500000000}, {123456, 120000000}, {123456, 123400000}, {10, 10}, {100, 100100100}} {
		knownMDur(c, p[0], int32(p[1]))
	}
	// (b) all strings over the Duration alphabet: exhaustive up to length 4 (quick: 5 sampled) / 6 (thorough)
	maxLen, sampleFrom := 4, 5
	if c.Tier == "thorough" {
		maxLen, sampleFrom = 6, 7
	}
	var rec func(prefix []byte, l int)
	rec = func(prefix []byte, l int) {
		if l == 0 {
			knownUDur(c, string(prefix))
			return
		}
		for i := 0; i < len(knownDurAlpha); i++ {
			rec(append(prefix, knownDurAlpha[i]), l-1)
		}
	}
	for l := 1; l <= maxLen; l++ {
		rec(nil, l)
	}
	for i := 0; i < budget/4; i++ {
		l := sampleFrom + c.Intn(2)
		b := make([]byte, l)
		for k := range b {
			b[k] = knownDurAlpha[c.Intn(len(knownDurAlpha))]
		}
		if c.Intn(2) == 0 {
			b[l-1] = 's'
		}
		knownUDur(c, string(b))
	}
	// (c) random
	for i := 0; i < budget; i++ {
		switch c.Intn(3) {
		case 0:
			knownUDur(c, knownGenDurString(c))
		default:
			secs := knownGenSecs(c)
			nanos := knownGenNanos(c)
			switch c.Intn(4) {
			case 0, 1: // mostly valid
				secs = int64(c.U64()%631152000001) - 315576000000
				nanos = int32(c.U64() % 1000000000)
				switch c.Intn(4) {
				case 0:
					nanos = nanos / 1000 * 1000
				case 1:
					nanos = nanos / 1000000 * 1000000
				case 2:
					nanos = 0
				}
				if secs < 0 {
					nanos = -nanos
				}
				if c.Intn(10) == 0 {
					secs = 0
					if c.Bool() {
						nanos = -nanos
					}
				}
			}
			knownMDur(c, secs, nanos)
		}
	}
}

// ---- FieldMask

var knownFullNameRe = regexp.MustCompile(`^[A-Za-z_][A-Za-z0-9_]*(\.[A-Za-z_][A-Za-z0-9_]*)*$`)
var knownUsLowerRe = regexp.MustCompile(`_+[a-z]?`)
var knownUpperRe = regexp.MustCompile(`[A-Z]`)

// independent camel / snake (regular-expression rewriting)
func knownCamel(s string) string {
	return knownUsLowerRe.ReplaceAllStringFunc(s, func(m string) string {
		t := strings.TrimLeft(m, "_")
		return strings.ToUpper(t)
	})
}
func knownSnake(s string) string {
	return knownUpperRe.ReplaceAllStringFunc(s, func(m string) string { return "_" + strings.ToLower(m) })
}

func knownMFM(c *Ctx, paths []string) {
	m := &fieldmaskpb.FieldMask{Paths: knownCopy(paths)}
	ins := knownPathToks(paths)
	s, err := knownMarshalStr(m)
	// oracle: succeeds iff every path is a valid full name and snake(camel p) == p
	want := "ok"
	for _, p := range paths {
		if !knownFullNameRe.MatchString(p) {
			want = "e1"
			break
		}
		if knownSnake(knownCamel(p)) != p {
			want = "e2"
			break
		}
	}
	if err != nil {
		cls := knownMarshalErrClass(err)
		c.Case("known", "mfm", ins, []string{cls})
		if cls != want {
			c.PropFail("C23", "FieldMask Marshal: want "+want+" got "+cls, ins...)
		}
		c.Stat("fm.json.marshal." + cls)
		return
	}
	c.Case("known", "mfm", ins, []string{"ok", HexB([]byte(s))})
	c.Stat("fm.json.marshal.ok")
	if want != "ok" {
		c.PropFail("C23", "FieldMask Marshal accepted an invalid or irreversible path, want "+want, ins...)
	}
	var back fieldmaskpb.FieldMask
	if e := protojson.Unmarshal(knownQuote(c, s), &back); e != nil || !knownSame(back.GetPaths(), paths) {
		c.PropFail("C23", "FieldMask does not round-trip through JSON", ins...)
	}
	knownUFM(c, s)
}

func knownUFM(c *Ctx, s string) {
	if !utf8.ValidString(s) {
		return
	}
	var m fieldmaskpb.FieldMask
	err := protojson.Unmarshal(knownQuote(c, s), &m)
	if err != nil {
		c.Case("known", "ufm", []string{HexB([]byte(s))}, []string{knownUnmarshalErrClass(err)})
		c.Stat("fm.json.parse.err")
	} else {
		c.Case("known", "ufm", []string{HexB([]byte(s))}, append([]string{"ok"}, knownOutToks(m.GetPaths())...))
		c.Stat("fm.json.parse.ok")
		// every accepted path is a valid full name, and re-marshalling reproduces the trimmed input
		for _, p := range m.GetPaths() {
			if !knownFullNameRe.MatchString(p) {
				c.PropFail("C23", "FieldMask Unmarshal produced an invalid path", HexB([]byte(s)))
			}
		}
		if out, e := knownMarshalStr(&m); e == nil && out != strings.TrimSpace(s) {
			c.PropFail("C23", "FieldMask Unmarshal then Marshal is not the identity", HexB([]byte(s)))
		}
	}
}

var knownFMSegs = []string{"a", "b", "foo", "foo_bar", "fooBar", "foo__bar", "_foo", "foo_", "f1", "f_1", "foo_1bar", "FOO", "Foo", "x_y_z",
	"user", "display_name", "displayName", "_", "__", "a_b_c", "a1_b2", "1a", "a-b", "", "a b", "é", "foo_Bar", "foo_bAR", "f_oO"}

func knownGenFMPath(c *Ctx) string {
	n := 1 + c.Intn(3)
	parts := make([]string, n)
	for i := range parts {
		if c.Intn(3) == 0 {
			// random identifier-ish segment
			l := 1 + c.Intn(5)
			b := make([]byte, l)
			for k := range b {
				b[k] = "abcxyzABZ_019"[c.Intn(13)]
			}
			parts[i] = string(b)
		} else if c.Intn(3) > 0 {
			parts[i] = knownFMSegs[c.Intn(12)] // mostly reversible ones
		} else {
			parts[i] = knownFMSegs[c.Intn(len(knownFMSegs))]
		}
	}
	return strings.Join(parts, ".")
}

func knownFieldMaskJSON(c *Ctx, budget int) {
	knownMFM(c, nil)
	for _, seg := range knownFMSegs {
		knownMFM(c, []string{seg})
		knownMFM(c, []string{"a." + seg, seg + ".b"})
	}
	for _, s := range []string{"", " ", "a", "a,b", "a, b", " a,b ", "a,,b", ",", "a,", ",a", "fooBar", "foo_bar", "fooBar.bazQux,x", "FooBar", "a.B", "a..b",
		"a.", ".a", "\ta\n", "\u00a0a\u3000", "\u2003a.b\u2028", "\u200ba", "a\u0085", "aB1", "a1B", "1a", "a-b", "é", "a\u00a0b", "A", "aBC"} {
		knownUFM(c, s)
	}
	for i := 0; i < budget; i++ {
		n := c.Intn(4)
		var ps []string
		for k := 0; k < n; k++ {
			ps = append(ps, knownGenFMPath(c))
		}
		if c.Intn(3) > 0 {
			knownMFM(c, ps)
		} else {
			// JSON side: camel-case-ish strings with mutations
			var parts []string
			for _, p := range ps {
				q := knownCamel(p)
				if c.Intn(5) == 0 {
					q = p
				}
				parts = append(parts, q)
			}
			s := strings.Join(parts, ",")
			switch c.Intn(8) {
			case 0:
				s = " " + s
			case 1:
				s = s + "\n"
			case 2:
				s = strings.Replace(s, ",", ", ", 1)
			case 3:
				s = s + ","
			case 4:
				s = []string{"\u00a0", " ", "\u3000", "\u0085", " ", "\u200b", "\ufeff"}[c.Intn(7)] + s
			case 5:
				s = s + []string{"\u00a0", "\u2009", "\u3000", "\u0085", " ", "\u200b", " "}[c.Intn(7)]
			}
			knownUFM(c, s)
		}
	}
}

// ---- Timestamp

var knownStrictTsRe = regexp.MustCompile(`^([0-9]{4})-([0-9]{2})-([0-9]{2})T([0-9]{2}):([0-9]{2}):([0-9]{2})(\.[0-9]+)?(Z|[+-][0-9]{2}:[0-9]{2})$`)

// lenient shape: the strict one with the recorded F3b deviations allowed
var knownLenientTsRe = regexp.MustCompile(`^([0-9]{4})-([0-9]{2})-([0-9]{2})T([0-9]{1,2}):([0-9]{2}):([0-9]{2})([.,][0-9]+)?(Z|[+-][0-9]{2}:[0-9]{2})$`)

func knownAtoi(s string) int {
	n := 0
	for i := 0; i < len(s); i++ {
		n = n*10 + int(s[i]-'0')
	}
	return n
}

func knownIsLeap(y int) bool { return y%4 == 0 && (y%100 != 0 || y%400 == 0) }
func knownDaysIn(m, y int) int {
	switch m {
	case 2:
		if knownIsLeap(y) {
			return 29
		}
		return 28
	case 4, 6, 9, 11:
		return 30
	}
	return 31
}

// days from 1970-01-01 by plain counting (independent of the model's closed formula)
var knownYearStart [10002]int64 // days from 1970-01-01 to Jan 1 of year y, y in 0..10001

func init() {
	// year 1970 -> 0
	d := int64(0)
	for y := 1970; y <= 10001; y++ {
		knownYearStart[y] = d
		if knownIsLeap(y) {
			d += 366
		} else {
			d += 365
		}
	}
	d = 0
	for y := 1969; y >= 0; y-- {
		if knownIsLeap(y) {
			d -= 366
		} else {
			d -= 365
		}
		knownYearStart[y] = d
	}
}

// knownStrictTs: strict RFC 3339 (upper-case T and Z, two-digit fields, '.' fraction,
// offset hour 00-23 / minute 00-59, seconds 00-59) + at most 9 fractional digits + years 1..9999.
// returns class ("ok","e1","e2") and the value.
func knownStrictTs(s string) (string, int64, int32) {
	m := knownStrictTsRe.FindStringSubmatch(s)
	if m == nil {
		return "e1", 0, 0
	}
	y, mo, d, h, mi, se := knownAtoi(m[1]), knownAtoi(m[2]), knownAtoi(m[3]), knownAtoi(m[4]), knownAtoi(m[5]), knownAtoi(m[6])
	if mo < 1 || mo > 12 || d < 1 || d > knownDaysIn(mo, y) || h > 23 || mi > 59 || se > 59 {
		return "e1", 0, 0
	}
	off := 0
	if m[8] != "Z" {
		oh, om := knownAtoi(m[8][1:3]), knownAtoi(m[8][4:6])
		if oh > 23 || om > 59 {
			return "e1", 0, 0
		}
		off = (oh*60 + om) * 60
		if m[8][0] == '-' {
			off = -off
		}
	}
	days := knownYearStart[y]
	for k := 1; k < mo; k++ {
		days += int64(knownDaysIn(k, y))
	}
	days += int64(d - 1)
	secs := days*86400 + int64(h*3600+mi*60+se) - int64(off)
	if secs < -62135596800 || secs > 253402300799 {
		return "e2", 0, 0
	}
	var nanos int32
	if m[7] != "" {
		f := m[7][1:]
		if len(f) > 9 {
			return "e1", 0, 0
		}
		nanos = int32(knownAtoi(f + strings.Repeat("0", 9-len(f))))
	}
	return "ok", secs, nanos
}

// knownF3b: the string has the lenient shape and differs from strict RFC 3339 in at least
// one of the recorded deviations (',' fraction separator, one-digit hour, offset hour 24,
// offset minute 60); everything else is in range.
func knownF3b(s string) (bool, string) {
	m := knownLenientTsRe.FindStringSubmatch(s)
	if m == nil {
		return false, ""
	}
	var dev []string
	if len(m[4]) == 1 {
		dev = append(dev, "one-digit hour")
	}
	if m[7] != "" && m[7][0] == ',' {
		dev = append(dev, "comma fraction separator")
	}
	if m[8] != "Z" {
		oh, om := knownAtoi(m[8][1:3]), knownAtoi(m[8][4:6])
		if oh == 24 {
			dev = append(dev, "offset hour 24")
		}
		if om == 60 {
			dev = append(dev, "offset minute 60")
		}
		if oh > 24 || om > 60 {
			return false, ""
		}
	}
	if len(dev) == 0 {
		return false, ""
	}
	return true, strings.Join(dev, "+")
}

func knownUTs(c *Ctx, s string) {
	if !utf8.ValidString(s) {
		return
	}
	var ts timestamppb.Timestamp
	err := protojson.Unmarshal(knownQuote(c, s), &ts)
	var obs []string
	if err != nil {
		obs = []string{knownUnmarshalErrClass(err)}
	} else {
		obs = []string{"ok", HexZ(ts.Seconds), HexZ(int64(ts.Nanos))}
	}
	c.Case("known", "uts", []string{HexB([]byte(s))}, obs)
	cls, ws, wn := knownStrictTs(s)
	if cls != obs[0] || (cls == "ok" && (ws != ts.Seconds || wn != ts.Nanos)) {
		if ok, what := knownF3b(s); ok && cls == "e1" && obs[0] != "e1" {
			c.Known("F3b", "C23", "Timestamp leniency inherited from time.Parse: "+what)
			c.Stat("ts.json.parse.F3b")
		} else {
			c.PropFail("C23", "Timestamp parsing differs from strict RFC 3339 (<= 9 fraction digits, years 1-9999): want "+cls+" got "+obs[0], HexB([]byte(s)))
		}
	}
	if err == nil && !ts.IsValid() {
		c.PropFail("C23", "Unmarshal produced an invalid Timestamp", HexB([]byte(s)))
	}
	c.Stat("ts.json.parse." + obs[0])
}

func knownMTs(c *Ctx, secs int64, nanos int32) {
	ts := &timestamppb.Timestamp{Seconds: secs, Nanos: nanos}
	ins := []string{HexZ(secs), HexZ(int64(nanos))}
	s, err := knownMarshalStr(ts)
	if err != nil {
		cls := knownMarshalErrClass(err)
		c.Case("known", "mts", ins, []string{cls})
		if ts.IsValid() {
			c.PropFail("C23", "valid Timestamp rejected by Marshal", ins...)
		}
		c.Stat("ts.json.marshal." + cls)
		return
	}
	c.Case("known", "mts", ins, []string{"ok", HexB([]byte(s))})
	c.Stat("ts.json.marshal.ok")
	if !ts.IsValid() {
		c.PropFail("C23", "out-of-range Timestamp accepted by Marshal", ins...)
	}
	if cls, ws, wn := knownStrictTs(s); cls != "ok" || ws != secs || wn != nanos || !strings.HasSuffix(s, "Z") {
		c.PropFail("C23", "Timestamp output is not the strict RFC 3339 UTC form of the value", ins...)
	}
	if i := strings.IndexByte(s, '.'); i >= 0 {
		if n := len(s) - i - 2; n != 3 && n != 6 && n != 9 {
			c.PropFail("C23", "Timestamp output does not have 0/3/6/9 fractional digits", ins...)
		}
	}
	var back timestamppb.Timestamp
	if e := protojson.Unmarshal(knownQuote(c, s), &back); e != nil || back.Seconds != secs || back.Nanos != nanos {
		c.PropFail("C23", "Timestamp does not round-trip through JSON", ins...)
	}
	knownUTs(c, s)
}

func knownGenTsString(c *Ctx) string {
	// valid skeleton
	y := 1 + c.Intn(9999)
	switch c.Intn(6) {
	case 0:
		y = []int{0, 1, 2, 4, 100, 400, 1600, 1900, 1969, 1970, 1972, 2000, 2038, 2100, 9998, 9999}[c.Intn(16)]
	}
	mo := 1 + c.Intn(12)
	d := 1 + c.Intn(knownDaysIn(mo, y))
	if c.Intn(8) == 0 {
		mo, d = 2, 28+c.Intn(3)
	}
	if c.Intn(12) == 0 {
		mo, d = []int{1, 12}[c.Intn(2)], []int{1, 31}[c.Intn(2)]
	}
	h, mi, se := c.Intn(24), c.Intn(60), c.Intn(60)
	if c.Intn(10) == 0 {
		h, mi, se = []int{0, 23, 24}[c.Intn(3)], []int{0, 59, 60}[c.Intn(3)], []int{0, 59, 60}[c.Intn(3)]
	}
	s := fmt.Sprintf("%04d-%02d-%02dT%02d:%02d:%02d", y, mo, d, h, mi, se)
	if c.Intn(2) == 0 {
		n := 1 + c.Intn(12)
		if c.Intn(3) == 0 {
			n = 9 + c.Intn(2)
		}
		s += "."
		for i := 0; i < n; i++ {
			s += string(byte('0' + c.Intn(10)))
		}
	}
	if c.Intn(2) == 0 {
		s += "Z"
	} else {
		oh, om := c.Intn(24), c.Intn(60)
		if c.Intn(4) == 0 {
			oh, om = []int{0, 23, 24, 25, 12}[c.Intn(5)], []int{0, 59, 60, 61, 30}[c.Intn(5)]
		}
		s += fmt.Sprintf("%c%02d:%02d", "+-"[c.Intn(2)], oh, om)
	}
	// mutations (including the F3b deviations)
	switch c.Intn(14) {
	case 0:
		s = strings.Replace(s, ".", ",", 1)
	case 1:
		if s[11] == '0' {
			s = s[:11] + s[12:]
		}
	case 2:
		b := []byte(s)
		b[c.Intn(len(b))] = "0123456789-:.,TZ+tz /"[c.Intn(21)]
		s = string(b)
	case 3:
		i := c.Intn(len(s) + 1)
		s = s[:i] + string("0123456789-:.,TZ+ "[c.Intn(18)]) + s[i:]
	case 4:
		i := c.Intn(len(s))
		s = s[:i] + s[i+1:]
	case 5:
		s = strings.Replace(s, "T", []string{"t", " ", "T ", ""}[c.Intn(4)], 1)
	case 6:
		s = strings.Replace(s, "Z", []string{"z", "", "ZZ", "+0000", "+00", "UTC"}[c.Intn(6)], 1)
	}
	return s
}

func knownTimestampJSON(c *Ctx, budget int) {
	for _, s := range []string{"2000-01-01T00:00:00Z", "0001-01-01T00:00:00Z", "9999-12-31T23:59:59Z", "9999-12-31T23:59:59.999999999Z",
		"0000-12-31T23:59:59Z", "0000-12-31T23:59:59-00:01", "0001-01-01T00:00:00+00:01", "9999-12-31T23:59:59-00:01", "9999-12-31T23:59:59+00:01",
		"2000-01-01T00:00:00.1234567890Z", "2000-01-01T00:00:00.123456789Z", "2000-01-01T00:00:00.1Z", "2000-01-01T00:00:00.Z",
		"2000-01-01T00:00:00,1234567890123Z", "2000-01-01T00:00:00,5Z", "2000-01-01T1:00:00Z", "2000-01-01T00:00:00+24:00", "2000-01-01T00:00:00-24:00",
		"2000-01-01T00:00:00+00:60", "2000-01-01T00:00:00+24:60", "2000-01-01T00:00:00+25:00", "2000-01-01T00:00:00+00:61", "2000-01-01T1:00:00,5+24:00",
		"2000-02-29T00:00:00Z", "1900-02-29T00:00:00Z", "2001-02-29T00:00:00Z", "2000-02-30T00:00:00Z", "2000-04-31T00:00:00Z", "2000-00-10T00:00:00Z",
		"2000-13-10T00:00:00Z", "2000-01-00T00:00:00Z", "2000-01-01T24:00:00Z", "2000-01-01T23:60:00Z", "2000-01-01T23:59:60Z", "2016-12-31T23:59:60Z",
		"2000-01-01t00:00:00Z", "2000-01-01T00:00:00z", "2000-01-01 00:00:00Z", "2000-01-01T00:00:00", "2000-01-01T00:00:00+0000", "2000-01-01T00:00:00+00",
		"2000-01-01T00:00Z", "2000-1-01T00:00:00Z", "02000-01-01T00:00:00Z", "10000-01-01T00:00:00Z", "-001-01-01T00:00:00Z", "+2000-01-01T00:00:00Z",
		"2000-01-01T00:00:00.000000000Z", "2000-01-01T00:00:00.0000000000Z", "2000-01-01T00:00:00.000000001-08:00", "1969-12-31T23:59:59.999999999Z",
		"1970-01-01T00:00:00Z", "", "Z", "2000-01-01T00:00:00Z ", " 2000-01-01T00:00:00Z", "2000-01-01T00:00:00.5+05:30", "2000-01-01T00:00:00.5-05:30x"} {
		knownUTs(c, s)
	}
	for _, p := range [][2]int64{{0, 0}, {-62135596800, 0}, {-62135596801, 0}, {253402300799, 999999999}, {253402300800, 0}, {0, 1}, {0, 1000}, {0, 1000000},
		{0, 999999999}, {0, 1000000000}, {0, -1}, {-1, 999999999}, {951782400, 0}, {951868800, 0}, {-2203891200, 0}, {4107542400, 0}, {1, 500000000},
		{-62135596800, 999999999}, {86399, 0}, {86400, 0}, {-86400, 0}, {-86401, 0}, {978307199, 0}, {13569465600, 0}} {
		knownMTs(c, p[0], int32(p[1]))
	}
	// every day boundary around leap days and year ends
	for _, y := range []int{1, 2, 4, 100, 101, 400, 1600, 1900, 1970, 2000, 2024, 2100, 9996, 9999} {
		for _, md := range [][2]int{{1, 1}, {2, 28}, {3, 1}, {12, 31}, {6, 30}, {7, 1}} {
			t := time.Date(y, time.Month(md[0]), md[1], 23, 59, 59, 0, time.UTC).Unix()
			knownMTs(c, t, 0)
			knownMTs(c, t+1, 999000000)
		}
	}
	for i := 0; i < budget; i++ {
		switch c.Intn(3) {
		case 0:
			knownUTs(c, knownGenTsString(c))
		default:
			secs := int64(c.U64()%315537897600) - 62135596800
			nanos := int32(c.U64() % 1000000000)
			switch c.Intn(6) {
			case 0:
				nanos = nanos / 1000 * 1000
			case 1:
				nanos = nanos / 1000000 * 1000000
			case 2:
				nanos = 0
			case 3:
				secs = knownGenSecs(c)
				nanos = knownGenNanos(c)
			}
			knownMTs(c, secs, nanos)
		}
	}
}
