//go:build verif

package main

// family "desc" (random + boundary) and "desclinked" (every descriptor of every linked file):
// C36 — descriptor views are internally consistent (internal/filedesc).
//
// Every C line is fam "desc"; the model side is ocaml/fam_desc.ml over
// coq/theories/Desc/{DescRangesModel,DescLookupModel}.v.
//
// Composite tokens: "L<n>:" followed by n records separated by ';', record fields separated by ',',
// strings hex encoded (no prefix), numbers HexZ.  Keys are separate tokens (HexB / HexZ).
// Lookup results are the index of the returned element in the list, -1 for nil.

import (
	"fmt"
	"math"
	"sort"
	"strconv"
	"strings"

	"encoding/hex"

	"google.golang.org/protobuf/internal/filedesc"
	"google.golang.org/protobuf/proto"
	"google.golang.org/protobuf/reflect/protodesc"
	"google.golang.org/protobuf/reflect/protoreflect"
	"google.golang.org/protobuf/reflect/protoregistry"
	"google.golang.org/protobuf/types/descriptorpb"

	_ "google.golang.org/protobuf/internal/testprotos/annotation"
	_ "google.golang.org/protobuf/internal/testprotos/benchmarks"
	_ "google.golang.org/protobuf/internal/testprotos/benchmarks/datasets/google_message1/proto2"
	_ "google.golang.org/protobuf/internal/testprotos/benchmarks/datasets/google_message1/proto3"
	_ "google.golang.org/protobuf/internal/testprotos/benchmarks/datasets/google_message2"
	_ "google.golang.org/protobuf/internal/testprotos/benchmarks/datasets/google_message3"
	_ "google.golang.org/protobuf/internal/testprotos/benchmarks/datasets/google_message4"
	_ "google.golang.org/protobuf/internal/testprotos/benchmarks/micro"
	_ "google.golang.org/protobuf/internal/testprotos/conformance"
	_ "google.golang.org/protobuf/internal/testprotos/conformance/editions"
	_ "google.golang.org/protobuf/internal/testprotos/conformance/editionsmigration"
	_ "google.golang.org/protobuf/internal/testprotos/conformance/editionunstable"
	_ "google.golang.org/protobuf/internal/testprotos/editionsfuzztest"
	_ "google.golang.org/protobuf/internal/testprotos/enums"
	_ "google.golang.org/protobuf/internal/testprotos/enums/enums_hybrid"
	_ "google.golang.org/protobuf/internal/testprotos/enums/enums_opaque"
	_ "google.golang.org/protobuf/internal/testprotos/examples/ext"
	_ "google.golang.org/protobuf/internal/testprotos/fieldtrack"
	_ "google.golang.org/protobuf/internal/testprotos/fuzz"
	_ "google.golang.org/protobuf/internal/testprotos/lazy"
	_ "google.golang.org/protobuf/internal/testprotos/lazy/lazy_hybrid"
	_ "google.golang.org/protobuf/internal/testprotos/lazy/lazy_opaque"
	_ "google.golang.org/protobuf/internal/testprotos/legacy"
	_ "google.golang.org/protobuf/internal/testprotos/legacy/proto2_20160225_2fc053c5"
	_ "google.golang.org/protobuf/internal/testprotos/legacy/proto2_20160519_a4ab9ec5"
	_ "google.golang.org/protobuf/internal/testprotos/legacy/proto2_20180125_92554152"
	_ "google.golang.org/protobuf/internal/testprotos/legacy/proto2_20180430_b4deda09"
	_ "google.golang.org/protobuf/internal/testprotos/legacy/proto2_20180814_aa810b61"
	_ "google.golang.org/protobuf/internal/testprotos/legacy/proto2_20190205_c823c79e"
	_ "google.golang.org/protobuf/internal/testprotos/legacy/proto3_20160225_2fc053c5"
	_ "google.golang.org/protobuf/internal/testprotos/legacy/proto3_20160519_a4ab9ec5"
	_ "google.golang.org/protobuf/internal/testprotos/legacy/proto3_20180125_92554152"
	_ "google.golang.org/protobuf/internal/testprotos/legacy/proto3_20180430_b4deda09"
	_ "google.golang.org/protobuf/internal/testprotos/legacy/proto3_20180814_aa810b61"
	_ "google.golang.org/protobuf/internal/testprotos/legacy/proto3_20190205_c823c79e"
	_ "google.golang.org/protobuf/internal/testprotos/messageset/messagesetpb"
	_ "google.golang.org/protobuf/internal/testprotos/messageset/messagesetpb/messagesetpb_hybrid"
	_ "google.golang.org/protobuf/internal/testprotos/messageset/messagesetpb/messagesetpb_opaque"
	_ "google.golang.org/protobuf/internal/testprotos/messageset/msetextpb"
	_ "google.golang.org/protobuf/internal/testprotos/messageset/msetextpb/msetextpb_hybrid"
	_ "google.golang.org/protobuf/internal/testprotos/messageset/msetextpb/msetextpb_opaque"
	_ "google.golang.org/protobuf/internal/testprotos/mixed"
	_ "google.golang.org/protobuf/internal/testprotos/news"
	_ "google.golang.org/protobuf/internal/testprotos/order"
	_ "google.golang.org/protobuf/internal/testprotos/registry"
	_ "google.golang.org/protobuf/internal/testprotos/required"
	_ "google.golang.org/protobuf/internal/testprotos/required/required_hybrid"
	_ "google.golang.org/protobuf/internal/testprotos/required/required_opaque"
	_ "google.golang.org/protobuf/internal/testprotos/test"
	_ "google.golang.org/protobuf/internal/testprotos/test/test_nopackage"
	_ "google.golang.org/protobuf/internal/testprotos/test/test_option"
	_ "google.golang.org/protobuf/internal/testprotos/test3"
	_ "google.golang.org/protobuf/internal/testprotos/test3/test3_hybrid"
	_ "google.golang.org/protobuf/internal/testprotos/test3/test3_opaque"
	_ "google.golang.org/protobuf/internal/testprotos/testeditions"
	_ "google.golang.org/protobuf/internal/testprotos/testeditions/testeditions_hybrid"
	_ "google.golang.org/protobuf/internal/testprotos/testeditions/testeditions_opaque"
	_ "google.golang.org/protobuf/internal/testprotos/textpb2"
	_ "google.golang.org/protobuf/internal/testprotos/textpb3"
	_ "google.golang.org/protobuf/internal/testprotos/textpbeditions"
	_ "google.golang.org/protobuf/internal/testprotos/textpbeditions/textpbeditions_hybrid"
	_ "google.golang.org/protobuf/internal/testprotos/textpbeditions/textpbeditions_opaque"
	_ "google.golang.org/protobuf/types/gofeaturespb"
	_ "google.golang.org/protobuf/types/known/anypb"
	_ "google.golang.org/protobuf/types/known/apipb"
	_ "google.golang.org/protobuf/types/known/durationpb"
	_ "google.golang.org/protobuf/types/known/emptypb"
	_ "google.golang.org/protobuf/types/known/fieldmaskpb"
	_ "google.golang.org/protobuf/types/known/sourcecontextpb"
	_ "google.golang.org/protobuf/types/known/structpb"
	_ "google.golang.org/protobuf/types/known/timestamppb"
	_ "google.golang.org/protobuf/types/known/typepb"
	_ "google.golang.org/protobuf/types/known/wrapperspb"
	_ "google.golang.org/protobuf/types/pluginpb"
)

func init() {
	Register("desc", famDesc)
	Register("desclinked", famDescLinked)
}

// ---------------------------------------------------------------- tokens

func descHexS(s string) string { return hex.EncodeToString([]byte(s)) }

func descList(recs []string) string {
	return "L" + strconv.Itoa(len(recs)) + ":" + strings.Join(recs, ";")
}

func descIdx(i int) string { return strconv.Itoa(i) }

func descIdxList(is []int) string {
	var s []string
	for _, i := range is {
		s = append(s, strconv.Itoa(i))
	}
	return strings.Join(s, ".")
}

// ---------------------------------------------------------------- ranges

type descRanges interface {
	Len() int
	Has(n int32) bool
	Get(i int) [2]int32
}

type descFR struct{ p protoreflect.FieldRanges }

func (r descFR) Len() int           { return r.p.Len() }
func (r descFR) Has(n int32) bool   { return r.p.Has(protoreflect.FieldNumber(n)) }
func (r descFR) Get(i int) [2]int32 { g := r.p.Get(i); return [2]int32{int32(g[0]), int32(g[1])} }

type descER struct{ p protoreflect.EnumRanges }

func (r descER) Len() int           { return r.p.Len() }
func (r descER) Has(n int32) bool   { return r.p.Has(protoreflect.EnumNumber(n)) }
func (r descER) Get(i int) [2]int32 { g := r.p.Get(i); return [2]int32{int32(g[0]), int32(g[1])} }

func descRangeList(r descRanges) [][2]int32 {
	var l [][2]int32
	for i := 0; i < r.Len(); i++ {
		l = append(l, r.Get(i))
	}
	return l
}

func descRangesTok(l [][2]int32) string {
	var recs []string
	for _, r := range l {
		recs = append(recs, HexZ(int64(r[0]))+","+HexZ(int64(r[1])))
	}
	return descList(recs)
}

// inclusive end as the code computes it (int32 arithmetic)
func descEnd(kind string, r [2]int32) int32 {
	if kind == "f" {
		return r[1] - 1
	}
	return r[1]
}

func descMember(kind string, l [][2]int32, n int32) bool {
	for _, r := range l {
		if r[0] <= n && n <= descEnd(kind, r) {
			return true
		}
	}
	return false
}

func descValidNum(n int32, ms bool) bool { return 1 <= n && (n <= 1<<29-1 || ms) }

// brute-force specification of CheckValid: every range well formed, all pairs disjoint
func descSpecValid(kind string, l [][2]int32, ms bool) bool {
	for _, r := range l {
		if kind == "f" && !(descValidNum(r[0], ms) && descValidNum(descEnd(kind, r), ms)) {
			return false
		}
		if !(r[0] <= descEnd(kind, r)) {
			return false
		}
	}
	for i := range l {
		for j := range l {
			if i != j && descIntersects(kind, l[i], l[j]) {
				return false
			}
		}
	}
	return true
}

func descIntersects(kind string, a, b [2]int32) bool {
	return !(descEnd(kind, a) < b[0] || descEnd(kind, b) < a[0])
}

func descErrClass(err error) string {
	if err == nil {
		return "0"
	}
	s := err.Error()
	switch {
	case strings.Contains(s, "invalid field number"):
		return "1"
	case strings.Contains(s, "invalid range"):
		return "2"
	case strings.Contains(s, "overlapping ranges"):
		return "3"
	case strings.Contains(s, "duplicate name"):
		return "1"
	}
	return "9"
}

func descHasDupStart(l [][2]int32) bool {
	seen := map[int32]bool{}
	for _, r := range l {
		if seen[r[0]] {
			return true
		}
		seen[r[0]] = true
	}
	return false
}

// probes: every number within +-2 of every boundary, plus a few fixed and random ones
func descProbes(c *Ctx, l [][2]int32) []int32 {
	set := map[int32]bool{0: true, 1: true, 1<<29 - 1: true, 1 << 29: true, math.MaxInt32: true, math.MinInt32: true, 19000: true}
	for _, r := range l {
		for _, b := range r {
			for d := int64(-2); d <= 2; d++ {
				v := int64(b) + d
				if v >= math.MinInt32 && v <= math.MaxInt32 {
					set[int32(v)] = true
				}
			}
		}
	}
	for i := 0; i < 3; i++ {
		set[int32(c.U64())] = true
		set[int32(c.Intn(300))] = true
	}
	var out []int32
	for v := range set {
		out = append(out, v)
	}
	sort.Slice(out, func(i, j int) bool { return out[i] < out[j] })
	return out
}

// descSorted is the sorted copy as lazyInit builds it (a copy of List, sort.Slice by r[0]): the argument of
// the translated source functions (go_* ops; Gen/RangesGo.v takes p.lazyInit().sorted as a parameter).
// sort.Slice is deterministic, so this is the very order the implementation's object holds.
func descSorted(l [][2]int32) [][2]int32 {
	s := append([][2]int32(nil), l...)
	sort.Slice(s, func(i, j int) bool { return s[i][0] < s[j][0] })
	return s
}

// descCheckHas runs Has on obj (the implementation's own list object) for all probes.
// valid: whether the list passes CheckValid (then Has must equal membership).
func descCheckHas(c *Ctx, kind string, obj descRanges, where string, valid bool) {
	l := descRangeList(obj)
	probes := descProbes(c, l)
	ins := []string{kind, descRangesTok(l)}
	var obs []string
	for _, n := range probes {
		got := obj.Has(n)
		ins = append(ins, HexZ(int64(n)))
		obs = append(obs, Tok(got))
		want := descMember(kind, l, n)
		if got && !want {
			c.PropFail("C36", "ranges Has true for a non-member", where, kind, descRangesTok(l), HexZ(int64(n)))
		}
		if valid && want && !got {
			c.PropFail("C36", "ranges Has false for a member of a valid list", where, kind, descRangesTok(l), HexZ(int64(n)))
		}
	}
	c.Case("desc", "has", ins, obs)
	// the same observations against the TRANSLATED source (Tier T), fed with the sorted copy
	gins := append([]string{kind, descRangesTok(descSorted(l))}, ins[2:]...)
	c.Case("desc", "go_has", gins, obs)
	c.Stat("has:" + kind)
	c.StatN("has:probes", len(probes))
}

func descFreshFR(l [][2]int32) *filedesc.FieldRanges {
	p := new(filedesc.FieldRanges)
	for _, r := range l {
		p.List = append(p.List, [2]protoreflect.FieldNumber{protoreflect.FieldNumber(r[0]), protoreflect.FieldNumber(r[1])})
	}
	return p
}
func descFreshER(l [][2]int32) *filedesc.EnumRanges {
	p := new(filedesc.EnumRanges)
	for _, r := range l {
		p.List = append(p.List, [2]protoreflect.EnumNumber{protoreflect.EnumNumber(r[0]), protoreflect.EnumNumber(r[1])})
	}
	return p
}

// descCheckValid runs CheckValid on a fresh copy of l; returns whether it passed.
func descCheckValid(c *Ctx, kind string, l [][2]int32, ms bool, where string) bool {
	var err error
	if kind == "f" {
		err = descFreshFR(l).CheckValid(ms)
	} else {
		err = descFreshER(l).CheckValid()
	}
	cls := descErrClass(err)
	if cls != "0" && len(l) > 12 && descHasDupStart(l) {
		// which error is reported first depends on sort.Slice's order of equal keys: compare ok-ness only
		c.Case("desc", "cvalidok", []string{kind, Tok(ms), descRangesTok(l)}, []string{Tok(err == nil)})
	} else {
		c.Case("desc", "cvalid", []string{kind, Tok(ms), descRangesTok(l)}, []string{cls})
	}
	c.Case("desc", "go_cvalid", []string{kind, Tok(ms), descRangesTok(descSorted(l))}, []string{cls})
	c.Stat("cvalid:" + kind + ":" + cls)
	if (err == nil) != descSpecValid(kind, l, ms) {
		c.PropFail("C36", "CheckValid disagrees with its specification (all ranges well formed, pairwise disjoint)", where, kind, Tok(ms), descRangesTok(l), cls)
	}
	return err == nil
}

func descCheckOverlap(c *Ctx, p, q [][2]int32, pv, qv bool, where string) {
	err := descFreshFR(p).CheckOverlap(descFreshFR(q))
	got := err != nil
	if !(pv && qv) && (len(p) > 12 && descHasDupStart(p) || len(q) > 12 && descHasDupStart(q)) {
		return
	}
	c.Case("desc", "coverlap", []string{descRangesTok(p), descRangesTok(q)}, []string{Tok(got)})
	c.Case("desc", "go_coverlap", []string{descRangesTok(descSorted(p)), descRangesTok(descSorted(q))}, []string{descErrClass(err)})
	c.Stat("coverlap:" + Tok(got))
	if pv && qv {
		want := false
		for _, a := range p {
			for _, b := range q {
				if descIntersects("f", a, b) {
					want = true
				}
			}
		}
		if got != want {
			c.PropFail("C36", "CheckOverlap disagrees with: some range of one list intersects some range of the other", where, descRangesTok(p), descRangesTok(q), Tok(got))
		}
	}
}

// ---------------------------------------------------------------- names / numbers

func descNamesTok(l []string) string {
	var recs []string
	for _, s := range l {
		recs = append(recs, descHexS(s))
	}
	return descList(recs)
}

func descStrKeys(c *Ctx, base []string, max int) []string {
	set := map[string]bool{"": true, "nosuch": true}
	for _, s := range base {
		set[s] = true
		set[strings.ToLower(s)] = true
		set[strings.ToUpper(s)] = true
		if len(s) > 0 {
			set[s[1:]] = true
			set[s+"x"] = true
		}
	}
	var out []string
	for s := range set {
		out = append(out, s)
	}
	sort.Strings(out)
	if len(out) > max {
		// deterministic subsample: keep the base keys first
		keep := map[string]bool{}
		var o2 []string
		for _, s := range base {
			if !keep[s] && len(o2) < max {
				keep[s] = true
				o2 = append(o2, s)
			}
		}
		for _, s := range out {
			if !keep[s] && len(o2) < max {
				keep[s] = true
				o2 = append(o2, s)
			}
		}
		sort.Strings(o2)
		out = o2
	}
	return out
}

func descCheckNames(c *Ctx, p protoreflect.Names, where string) {
	var l []string
	for i := 0; i < p.Len(); i++ {
		l = append(l, string(p.Get(i)))
	}
	keys := descStrKeys(c, l, 64)
	ins := []string{descNamesTok(l)}
	var obs []string
	for _, k := range keys {
		got := p.Has(protoreflect.Name(k))
		ins = append(ins, HexB([]byte(k)))
		obs = append(obs, Tok(got))
		want := false
		for _, s := range l {
			if s == k {
				want = true
			}
		}
		if got != want {
			c.PropFail("C36", "Names.Has differs from membership", where, descNamesTok(l), HexB([]byte(k)))
		}
	}
	c.Case("desc", "nhas", ins, obs)
	fresh := &filedesc.Names{}
	for _, s := range l {
		fresh.List = append(fresh.List, protoreflect.Name(s))
	}
	err := fresh.CheckValid()
	c.Case("desc", "ncheck", []string{descNamesTok(l)}, []string{descErrClass(err)})
	dup := false
	seen := map[string]bool{}
	for _, s := range l {
		if seen[s] {
			dup = true
		}
		seen[s] = true
	}
	if (err != nil) != dup {
		c.PropFail("C36", "Names.CheckValid differs from: has a duplicate", where, descNamesTok(l))
	}
	c.Stat("names")
}

func descCheckNumbers(c *Ctx, p protoreflect.FieldNumbers, extra []int32, where string) {
	var l []int32
	var recs []string
	for i := 0; i < p.Len(); i++ {
		l = append(l, int32(p.Get(i)))
		recs = append(recs, HexZ(int64(p.Get(i))))
	}
	set := map[int32]bool{0: true, 1: true, -1: true}
	for _, n := range l {
		set[n] = true
		set[n+1] = true
		set[n-1] = true
	}
	for _, n := range extra {
		set[n] = true
	}
	var keys []int32
	for n := range set {
		keys = append(keys, n)
	}
	sort.Slice(keys, func(i, j int) bool { return keys[i] < keys[j] })
	ins := []string{descList(recs)}
	var obs []string
	for _, k := range keys {
		got := p.Has(protoreflect.FieldNumber(k))
		ins = append(ins, HexZ(int64(k)))
		obs = append(obs, Tok(got))
		want := false
		for _, n := range l {
			if n == k {
				want = true
			}
		}
		if got != want {
			c.PropFail("C36", "FieldNumbers.Has differs from membership", where, descList(recs), HexZ(int64(k)))
		}
	}
	c.Case("desc", "numhas", ins, obs)
	c.Stat("numbers")
}

// ---------------------------------------------------------------- keyed lookups

type descFld struct {
	name, json, text string
	num              int32
	gl               bool
	ljson, ltext     string
}

// independent re-statement of filedesc.isGroupLike
func descIsGroupLike(fd protoreflect.FieldDescriptor) bool {
	if fd.Kind() != protoreflect.GroupKind {
		return false
	}
	md := fd.Message()
	if md == nil {
		return false
	}
	if strings.ToLower(string(md.Name())) != string(fd.Name()) {
		return false
	}
	if md.ParentFile() != fd.ParentFile() {
		return false
	}
	if fd.IsExtension() {
		return fd.Parent() == md.Parent()
	}
	return fd.ContainingMessage() == md.Parent()
}

func descFldOf(fd protoreflect.FieldDescriptor) descFld {
	f := descFld{name: string(fd.Name()), json: fd.JSONName(), text: fd.TextName(), num: int32(fd.Number())}
	f.gl = descIsGroupLike(fd)
	if f.gl {
		f.ljson = strings.ToLower(f.json)
		f.ltext = strings.ToLower(f.text)
	}
	return f
}

func descFldsTok(l []descFld) string {
	var recs []string
	for _, f := range l {
		recs = append(recs, strings.Join([]string{descHexS(f.name), descHexS(f.json), descHexS(f.text), HexZ(int64(f.num)), Tok(f.gl), descHexS(f.ljson), descHexS(f.ltext)}, ","))
	}
	return descList(recs)
}

// which keys a field answers to, per view; alias = Fields also enters the lower-cased names of group-like fields
func (f descFld) hasKey(view string, k string, alias bool) bool {
	switch view {
	case "name":
		return f.name == k
	case "json":
		return f.json == k || (alias && f.gl && f.ljson == k)
	case "text":
		return f.text == k || (alias && f.gl && f.ltext == k)
	}
	return false
}

func descFirstLast(n int, pred func(i int) bool) (first, last int) {
	first, last = -1, -1
	for i := 0; i < n; i++ {
		if pred(i) {
			if first < 0 {
				first = i
			}
			last = i
		}
	}
	return
}

// descCheckFields: fds is a Fields list (oneof=false) or a OneofFields list (oneof=true).
func descCheckFields(c *Ctx, fds protoreflect.FieldDescriptors, oneof bool, where string) {
	n := fds.Len()
	l := make([]descFld, n)
	var base []string
	var nums []int32
	for i := 0; i < n; i++ {
		l[i] = descFldOf(fds.Get(i))
		base = append(base, l[i].name, l[i].json, l[i].text)
		nums = append(nums, l[i].num)
	}
	tok := descFldsTok(l)
	indexOf := func(d protoreflect.FieldDescriptor) int {
		if d == nil {
			return -1
		}
		for i := 0; i < n; i++ {
			if fds.Get(i) == d {
				return i
			}
		}
		return -2 // an element that is not in the list
	}
	pfx := "f"
	if oneof {
		pfx = "o"
	}
	keys := descStrKeys(c, base, 96)
	for _, view := range []string{"name", "json", "text"} {
		ins := []string{tok}
		var obs []string
		for _, k := range keys {
			var d protoreflect.FieldDescriptor
			switch view {
			case "name":
				d = fds.ByName(protoreflect.Name(k))
			case "json":
				d = fds.ByJSONName(k)
			case "text":
				d = fds.ByTextName(k)
			}
			got := indexOf(d)
			ins = append(ins, HexB([]byte(k)))
			obs = append(obs, descIdx(got))
			first, last := descFirstLast(n, func(i int) bool { return l[i].hasKey(view, k, !oneof) })
			if got != first {
				if oneof && got == last && view == "json" {
					// F8: members of a oneof may share a JSON name (names, numbers and text names are unique in
					// every validated message); OneofFields.lazyInit assigns, so the last member wins
					c.Known("F8", "C36", "OneofFields.ByJSONName resolves a duplicate JSON name to the last member; Fields resolves it to the first")
					c.Stat("F8:" + view)
				} else {
					c.PropFail("C36", "By"+view+" did not return the first element with that key", where, pfx, tok, HexB([]byte(k)), descIdx(got), descIdx(first))
				}
			}
			if first != last {
				c.Stat("dupkey:" + pfx + view)
			}
		}
		c.Case("desc", pfx+"by"+view, ins, obs)
	}
	// by number
	set := map[int32]bool{0: true, -1: true}
	for _, v := range nums {
		set[v] = true
		set[v+1] = true
	}
	var nkeys []int32
	for v := range set {
		nkeys = append(nkeys, v)
	}
	sort.Slice(nkeys, func(i, j int) bool { return nkeys[i] < nkeys[j] })
	if len(nkeys) > 128 {
		nkeys = nkeys[:128]
	}
	ins := []string{tok}
	var obs []string
	for _, k := range nkeys {
		got := indexOf(fds.ByNumber(protoreflect.FieldNumber(k)))
		ins = append(ins, HexZ(int64(k)))
		obs = append(obs, descIdx(got))
		first, last := descFirstLast(n, func(i int) bool { return l[i].num == k })
		if got != first {
			c.PropFail("C36", "ByNumber did not return the first element with that number", where, pfx, tok, HexZ(int64(k)), descIdx(got), descIdx(first))
		}
		if first != last {
			c.Stat("dupkey:" + pfx + "num")
		}
	}
	c.Case("desc", pfx+"bynum", ins, obs)
	c.Stat("lookup:" + pfx + "fields")
	for i := 0; i < n; i++ {
		if l[i].gl {
			c.Stat("grouplike")
		}
	}
}

// descCheckByName: the lists keyed by name only. get(i) = name of element i, by(k) = index of ByName(k).
func descCheckByName(c *Ctx, what string, n int, get func(i int) string, by func(k string) int, where string) {
	var l []string
	for i := 0; i < n; i++ {
		l = append(l, get(i))
	}
	keys := descStrKeys(c, l, 64)
	ins := []string{descNamesTok(l)}
	var obs []string
	for _, k := range keys {
		got := by(k)
		ins = append(ins, HexB([]byte(k)))
		obs = append(obs, descIdx(got))
		first, _ := descFirstLast(n, func(i int) bool { return l[i] == k })
		if got != first {
			c.PropFail("C36", what+".ByName did not return the first element with that name", where, descNamesTok(l), HexB([]byte(k)), descIdx(got), descIdx(first))
		}
	}
	c.Case("desc", "lbyname", ins, obs)
	c.Stat("lookup:" + what)
}

func descCheckEnumValues(c *Ctx, vs protoreflect.EnumValueDescriptors, where string) {
	n := vs.Len()
	var names []string
	var recs []string
	var nums []int32
	for i := 0; i < n; i++ {
		v := vs.Get(i)
		names = append(names, string(v.Name()))
		nums = append(nums, int32(v.Number()))
		recs = append(recs, descHexS(string(v.Name()))+","+HexZ(int64(v.Number())))
	}
	tok := descList(recs)
	indexOf := func(d protoreflect.EnumValueDescriptor) int {
		if d == nil {
			return -1
		}
		for i := 0; i < n; i++ {
			if vs.Get(i) == d {
				return i
			}
		}
		return -2
	}
	keys := descStrKeys(c, names, 64)
	ins := []string{tok}
	var obs []string
	for _, k := range keys {
		got := indexOf(vs.ByName(protoreflect.Name(k)))
		ins = append(ins, HexB([]byte(k)))
		obs = append(obs, descIdx(got))
		first, _ := descFirstLast(n, func(i int) bool { return names[i] == k })
		if got != first {
			c.PropFail("C36", "EnumValues.ByName did not return the first value with that name", where, tok, HexB([]byte(k)))
		}
	}
	c.Case("desc", "evbyname", ins, obs)
	set := map[int32]bool{0: true, -1: true, math.MaxInt32: true, math.MinInt32: true}
	for _, v := range nums {
		set[v] = true
		if v < math.MaxInt32 {
			set[v+1] = true
		}
	}
	var nkeys []int32
	for v := range set {
		nkeys = append(nkeys, v)
	}
	sort.Slice(nkeys, func(i, j int) bool { return nkeys[i] < nkeys[j] })
	if len(nkeys) > 128 {
		nkeys = nkeys[:128]
	}
	ins = []string{tok}
	obs = nil
	for _, k := range nkeys {
		got := indexOf(vs.ByNumber(protoreflect.EnumNumber(k)))
		ins = append(ins, HexZ(int64(k)))
		obs = append(obs, descIdx(got))
		first, last := descFirstLast(n, func(i int) bool { return nums[i] == k })
		if got != first {
			c.PropFail("C36", "EnumValues.ByNumber did not return the first value with that number", where, tok, HexZ(int64(k)))
		}
		if first != last {
			c.Stat("dupkey:evnum")
		}
	}
	c.Case("desc", "evbynum", ins, obs)
	c.Stat("lookup:enumvalues")
}

// ---------------------------------------------------------------- structure: index, full name, parents, links

func descJoin(parent, name string) string {
	if parent == "" {
		return name
	}
	return parent + "." + name
}

// descCheckChild: child declared under scope full name `scope`.
func descCheckChild(c *Ctx, d protoreflect.Descriptor, scope string, index int, file protoreflect.FileDescriptor, where string) {
	full := string(d.FullName())
	name := string(d.Name())
	c.Case("desc", "fullname", []string{HexB([]byte(scope)), HexB([]byte(name))},
		[]string{HexB([]byte(full)), HexB([]byte(d.FullName().Name())), HexB([]byte(d.FullName().Parent()))})
	if full != descJoin(scope, name) {
		c.PropFail("C36", "FullName is not the parent's full name joined with Name", where, full, scope, name)
	}
	if d.Index() != index {
		c.PropFail("C36", "Get(i).Index() != i", where, full, strconv.Itoa(d.Index()), strconv.Itoa(index))
	}
	if d.ParentFile() != file {
		c.PropFail("C36", "ParentFile is not the enclosing file", where, full)
	}
	// the Parent chain ends at the file
	p := d
	steps := 0
	for ; steps < 200; steps++ {
		if _, ok := p.(protoreflect.FileDescriptor); ok {
			break
		}
		q := p.Parent()
		if q == nil {
			break
		}
		p = q
	}
	if fd, ok := p.(protoreflect.FileDescriptor); !ok || fd != file {
		c.PropFail("C36", "Parent chain does not terminate at the file", where, full)
	}
	c.Stat("child")
}

func descCheckMessageStructure(c *Ctx, md protoreflect.MessageDescriptor, where string) {
	fs := md.Fields()
	os := md.Oneofs()
	var frecs, orecs, fobs, oobs, rrecs []string
	var required []int32
	for i := 0; i < fs.Len(); i++ {
		f := fs.Get(i)
		oi := -1
		if o := f.ContainingOneof(); o != nil {
			oi = o.Index()
			// mutual: the oneof lists this field, and the oneof is one of the message's oneofs
			found := false
			for j := 0; j < o.Fields().Len(); j++ {
				if o.Fields().Get(j) == f {
					found = true
				}
			}
			if !found {
				c.PropFail("C36", "field's ContainingOneof does not list the field", where, string(f.FullName()))
			}
			if oi < 0 || oi >= os.Len() || os.Get(oi) != o {
				c.PropFail("C36", "ContainingOneof is not Oneofs().Get(its index)", where, string(f.FullName()))
			}
		}
		if f.ContainingMessage() != md {
			c.PropFail("C36", "field's ContainingMessage is not the message listing it", where, string(f.FullName()))
		}
		frecs = append(frecs, strings.Join([]string{descHexS(string(f.Name())), HexZ(int64(f.Number())), HexZ(int64(f.Cardinality())), strconv.Itoa(oi)}, ","))
		fobs = append(fobs, strings.Join([]string{strconv.Itoa(f.Index()), descHexS(string(f.FullName())), strconv.Itoa(oi)}, ","))
		if f.Cardinality() == protoreflect.Required {
			required = append(required, int32(f.Number()))
		}
		// map links
		if f.IsMap() {
			k, v := f.MapKey(), f.MapValue()
			em := f.Message()
			if k == nil || v == nil || k.ContainingMessage() != em || v.ContainingMessage() != em || !em.IsMapEntry() ||
				k.Number() != 1 || v.Number() != 2 || em.Fields().ByNumber(1) != k || em.Fields().ByNumber(2) != v {
				c.PropFail("C36", "MapKey/MapValue links are not mutual", where, string(f.FullName()))
			}
			c.Stat("mapfield")
		} else if f.MapKey() != nil || f.MapValue() != nil {
			c.PropFail("C36", "MapKey/MapValue non-nil on a non-map field", where, string(f.FullName()))
		}
	}
	for i := 0; i < os.Len(); i++ {
		o := os.Get(i)
		var members []int
		for j := 0; j < o.Fields().Len(); j++ {
			m := o.Fields().Get(j)
			members = append(members, m.Index())
			if m.ContainingOneof() != o {
				c.PropFail("C36", "oneof member's ContainingOneof is not the oneof", where, string(m.FullName()))
			}
			if m.Index() < 0 || m.Index() >= fs.Len() || fs.Get(m.Index()) != m {
				c.PropFail("C36", "oneof member is not Fields().Get(its index)", where, string(m.FullName()))
			}
		}
		orecs = append(orecs, descHexS(string(o.Name())))
		oobs = append(oobs, strings.Join([]string{strconv.Itoa(o.Index()), descHexS(string(o.FullName())), descIdxList(members)}, ","))
	}
	rn := md.RequiredNumbers()
	var got []int32
	for i := 0; i < rn.Len(); i++ {
		got = append(got, int32(rn.Get(i)))
		rrecs = append(rrecs, HexZ(int64(rn.Get(i))))
	}
	if fmt.Sprint(got) != fmt.Sprint(required) {
		c.PropFail("C36", "RequiredNumbers is not exactly the numbers of the required fields", where, string(md.FullName()), fmt.Sprint(got), fmt.Sprint(required))
	}
	if len(required) > 0 {
		c.Stat("hasrequired")
	}
	c.Case("desc", "msg", []string{HexB([]byte(md.FullName())), descList(frecs), descList(orecs)},
		[]string{descList(fobs), descList(rrecs), descList(oobs)})
	descCheckNumbers(c, rn, nil, where)
}

// ---------------------------------------------------------------- walking one file

func descWalkFile(c *Ctx, fd protoreflect.FileDescriptor) {
	where := fd.Path()
	pkg := string(fd.Package())
	descWalkEnums(c, fd.Enums(), pkg, fd, where)
	descWalkMessages(c, fd.Messages(), pkg, fd, where)
	descWalkExtensions(c, fd.Extensions(), pkg, fd, where)
	sds := fd.Services()
	descCheckByName(c, "Services", sds.Len(), func(i int) string { return string(sds.Get(i).Name()) }, func(k string) int {
		d := sds.ByName(protoreflect.Name(k))
		if d == nil {
			return -1
		}
		for i := 0; i < sds.Len(); i++ {
			if sds.Get(i) == d {
				return i
			}
		}
		return -2
	}, where)
	for i := 0; i < sds.Len(); i++ {
		sd := sds.Get(i)
		descCheckChild(c, sd, pkg, i, fd, where)
		mds := sd.Methods()
		descCheckByName(c, "Methods", mds.Len(), func(i int) string { return string(mds.Get(i).Name()) }, func(k string) int {
			d := mds.ByName(protoreflect.Name(k))
			if d == nil {
				return -1
			}
			for i := 0; i < mds.Len(); i++ {
				if mds.Get(i) == d {
					return i
				}
			}
			return -2
		}, where)
		for j := 0; j < mds.Len(); j++ {
			descCheckChild(c, mds.Get(j), string(sd.FullName()), j, fd, where)
		}
	}
	c.Stat("files")
}

func descWalkEnums(c *Ctx, eds protoreflect.EnumDescriptors, scope string, fd protoreflect.FileDescriptor, where string) {
	descCheckByName(c, "Enums", eds.Len(), func(i int) string { return string(eds.Get(i).Name()) }, func(k string) int {
		d := eds.ByName(protoreflect.Name(k))
		if d == nil {
			return -1
		}
		for i := 0; i < eds.Len(); i++ {
			if eds.Get(i) == d {
				return i
			}
		}
		return -2
	}, where)
	for i := 0; i < eds.Len(); i++ {
		ed := eds.Get(i)
		descCheckChild(c, ed, scope, i, fd, where)
		vs := ed.Values()
		descCheckEnumValues(c, vs, where)
		for j := 0; j < vs.Len(); j++ {
			// enum values live in the scope of the enum's parent
			descCheckChild(c, vs.Get(j), scope, j, fd, where)
			if vs.Get(j).Parent() != protoreflect.Descriptor(ed) {
				c.PropFail("C36", "enum value's Parent is not its enum", where, string(vs.Get(j).FullName()))
			}
		}
		rr := descER{ed.ReservedRanges()}
		l := descRangeList(rr)
		valid := descCheckValid(c, "e", l, false, where)
		descCheckHas(c, "e", rr, where, valid)
		descCheckNames(c, ed.ReservedNames(), where)
		c.Stat("enums")
	}
}

func descWalkExtensions(c *Ctx, xds protoreflect.ExtensionDescriptors, scope string, fd protoreflect.FileDescriptor, where string) {
	descCheckByName(c, "Extensions", xds.Len(), func(i int) string { return string(xds.Get(i).Name()) }, func(k string) int {
		d := xds.ByName(protoreflect.Name(k))
		if d == nil {
			return -1
		}
		for i := 0; i < xds.Len(); i++ {
			if xds.Get(i) == d {
				return i
			}
		}
		return -2
	}, where)
	for i := 0; i < xds.Len(); i++ {
		descCheckChild(c, xds.Get(i), scope, i, fd, where)
		c.Stat("extensions")
	}
}

func descWalkMessages(c *Ctx, mds protoreflect.MessageDescriptors, scope string, fd protoreflect.FileDescriptor, where string) {
	descCheckByName(c, "Messages", mds.Len(), func(i int) string { return string(mds.Get(i).Name()) }, func(k string) int {
		d := mds.ByName(protoreflect.Name(k))
		if d == nil {
			return -1
		}
		for i := 0; i < mds.Len(); i++ {
			if mds.Get(i) == d {
				return i
			}
		}
		return -2
	}, where)
	for i := 0; i < mds.Len(); i++ {
		md := mds.Get(i)
		full := string(md.FullName())
		descCheckChild(c, md, scope, i, fd, where)
		fs := md.Fields()
		for j := 0; j < fs.Len(); j++ {
			descCheckChild(c, fs.Get(j), full, j, fd, where)
		}
		os := md.Oneofs()
		descCheckByName(c, "Oneofs", os.Len(), func(i int) string { return string(os.Get(i).Name()) }, func(k string) int {
			d := os.ByName(protoreflect.Name(k))
			if d == nil {
				return -1
			}
			for i := 0; i < os.Len(); i++ {
				if os.Get(i) == d {
					return i
				}
			}
			return -2
		}, where)
		for j := 0; j < os.Len(); j++ {
			descCheckChild(c, os.Get(j), full, j, fd, where)
			descCheckFields(c, os.Get(j).Fields(), true, where)
		}
		descCheckFields(c, fs, false, where)
		descCheckMessageStructure(c, md, where)

		ms := false
		if m, ok := md.(interface{ IsMessageSet() bool }); ok {
			ms = m.IsMessageSet()
		}
		rr, xr := descFR{md.ReservedRanges()}, descFR{md.ExtensionRanges()}
		rl, xl := descRangeList(rr), descRangeList(xr)
		rv := descCheckValid(c, "f", rl, ms, where)
		xv := descCheckValid(c, "f", xl, ms, where)
		descCheckHas(c, "f", rr, where, rv)
		descCheckHas(c, "f", xr, where, xv)
		descCheckOverlap(c, rl, xl, rv, xv, where)
		descCheckNames(c, md.ReservedNames(), where)
		c.Stat("messages")

		descWalkEnums(c, md.Enums(), full, fd, where)
		descWalkMessages(c, md.Messages(), full, fd, where)
		descWalkExtensions(c, md.Extensions(), full, fd, where)
	}
}

func famDescLinked(c *Ctx) {
	var files []protoreflect.FileDescriptor
	protoregistry.GlobalFiles.RangeFiles(func(fd protoreflect.FileDescriptor) bool {
		files = append(files, fd)
		return true
	})
	sort.Slice(files, func(i, j int) bool { return files[i].Path() < files[j].Path() })
	for _, fd := range files {
		func() {
			defer func() {
				if r := recover(); r != nil {
					c.PropFail("C36", "panic while walking a linked file", fd.Path(), fmt.Sprint(r))
				}
			}()
			descWalkFile(c, fd)
		}()
		// the same file rebuilt at run time: ToFileDescriptorProto -> protodesc.NewFile (the second construction path:
		// desc_init/desc_resolve of reflect/protodesc instead of internal/filedesc's lazy initialisation); the views of
		// the rebuilt descriptor must be consistent in exactly the same way
		func() {
			defer func() {
				if r := recover(); r != nil {
					c.PropFail("C36", "panic while rebuilding/walking a linked file through protodesc", fd.Path(), fmt.Sprint(r))
				}
			}()
			if strings.HasPrefix(fd.Path(), "internal/testprotos/legacy/") {
				return // 2016-era fixtures that never registered their imports
			}
			fd2, err := protodesc.NewFile(protodesc.ToFileDescriptorProto(fd), protoregistry.GlobalFiles)
			if err != nil {
				c.Stat("linked_rebuild_rejected")
				return
			}
			c.Stat("linked_rebuilt")
			descWalkFile(c, fd2)
		}()
	}
}

// ---------------------------------------------------------------- boundary corpus and random inputs

var descBoundaryRanges = [][][2]int32{
	{},
	{{1, 2}},
	{{1, 2}, {2, 3}},                 // adjacent
	{{2, 3}, {1, 2}},                 // adjacent, unsorted
	{{1, 10}, {2, 3}},                // nested overlap: binary search would miss 5
	{{1, 5}, {4, 8}},                 // overlap
	{{5, 5}},                         // empty range
	{{5, 3}},                         // inverted
	{{0, 3}},                         // invalid start
	{{-5, 3}},                        //
	{{1, 1 << 29}},                   // up to MaxValidNumber
	{{1<<29 - 1, 1 << 29}},           // last valid number
	{{1 << 29, 1<<29 + 1}},           // beyond max (valid only for MessageSet)
	{{1, math.MaxInt32}},             // MessageSet style
	{{4, math.MaxInt32}, {1, 4}},     //
	{{5, math.MinInt32}},             // End() wraps to MaxInt32
	{{math.MaxInt32, math.MinInt32}}, // single number MaxInt32 through wrap
	{{19000, 20000}},                 // reserved numbers are allowed in ranges
	{{1, 2}, {1, 2}},                 // duplicates
	{{3, 4}, {1, 2}, {7, 9}, {5, 6}, {2, 3}, {10, 11}, {4, 5}},
	{{100, 200}, {300, 400}, {200, 300}, {1, 100}, {400, 536870912}},
}

var descBoundaryEnumRanges = [][][2]int32{
	{},
	{{0, 0}},
	{{-1, 1}, {2, 2}},
	{{1, 2}, {2, 3}}, // closed ranges: shares 2 -> overlap
	{{1, 2}, {3, 4}},
	{{5, 3}},
	{{math.MinInt32, math.MaxInt32}},
	{{math.MinInt32, -1}, {0, math.MaxInt32}},
	{{math.MaxInt32, math.MaxInt32}, {math.MinInt32, math.MinInt32}},
	{{3, 3}, {1, 1}, {2, 2}, {5, 9}, {-4, -2}},
}

func descDirectRanges(c *Ctx, kind string, l [][2]int32, ms bool) bool {
	valid := descCheckValid(c, kind, l, ms, "direct")
	if !valid && len(l) > 12 && descHasDupStart(l) {
		return valid
	}
	if kind == "f" {
		descCheckHas(c, kind, descFR{descFreshFR(l)}, "direct", valid)
	} else {
		descCheckHas(c, kind, descER{descFreshER(l)}, "direct", valid)
	}
	return valid
}

func descRandRanges(c *Ctx, kind string) [][2]int32 {
	n := c.Intn(9)
	if c.Intn(8) == 0 {
		n = 10 + c.Intn(40)
	}
	var l [][2]int32
	mode := c.Intn(10)
	// mostly valid: increasing disjoint ranges, then shuffled; sometimes perturbed
	var cur int64 = int64(1 + c.Intn(5))
	if kind == "e" {
		cur = int64(-50 + c.Intn(60))
		if c.Intn(6) == 0 {
			cur = math.MinInt32
		}
	}
	if c.Intn(10) == 0 {
		cur = (1 << 29) - int64(c.Intn(60)) - 1
	}
	for i := 0; i < n; i++ {
		gap := int64(c.Intn(3)) // 0 = adjacent
		ln := int64(1 + c.Intn(4))
		if c.Intn(6) == 0 {
			ln = int64(1 + c.Intn(1000))
		}
		s := cur + gap
		e := s + ln // exclusive
		if kind == "e" {
			e = s + ln - 1 // inclusive
		}
		if s > math.MaxInt32 || e > math.MaxInt32 {
			break
		}
		l = append(l, [2]int32{int32(s), int32(e)})
		cur = s + ln
	}
	switch mode {
	case 0: // overlap: extend one range into the next
		if len(l) > 0 {
			i := c.Intn(len(l))
			l[i][1] += int32(1 + c.Intn(4))
		}
	case 1: // duplicate or nested range
		if len(l) > 0 {
			r := l[c.Intn(len(l))]
			if c.Bool() {
				r[1] = r[0] + (r[1]-r[0])/2
			}
			l = append(l, r)
		}
	case 2: // invalid: empty / inverted / bad number
		r := [2]int32{int32(c.Intn(20)) - 3, int32(c.Intn(20)) - 3}
		l = append(l, r)
	case 3: // extreme bounds
		ext := []int32{math.MaxInt32, math.MinInt32, 1 << 29, 1<<29 - 1, 1<<29 + 1, 0, -1}
		a, b := ext[c.Intn(len(ext))], ext[c.Intn(len(ext))]
		l = append(l, [2]int32{a, b})
	}
	// shuffle
	for i := len(l) - 1; i > 0; i-- {
		j := c.Intn(i + 1)
		l[i], l[j] = l[j], l[i]
	}
	if len(l) > 12 && descHasDupStart(l) {
		l = l[:12]
	}
	return l
}

// ----- literal filedesc lists (duplicates that protodesc would reject)

var descNamePool = []string{"a", "b", "a_b", "aB", "ab", "AB", "Ab", "foo", "Foo", "FOO", "foo_bar", "fooBar", "x1", "X1", "key", "value"}

func descLiteralLists(c *Ctx) {
	n := c.Intn(7)
	// Fields
	fl := &filedesc.Fields{List: make([]filedesc.Field, n)}
	for i := range fl.List {
		f := &fl.List[i]
		f.L0.FullName = protoreflect.FullName("p.M." + descNamePool[c.Intn(len(descNamePool))])
		f.L0.Index = i
		f.L0.ParentFile = filedesc.SurrogateProto2
		f.L1.Number = protoreflect.FieldNumber(1 + c.Intn(5))
		f.L1.Kind = protoreflect.Int32Kind
		f.L1.Cardinality = protoreflect.Optional
		if c.Intn(2) == 0 {
			f.L1.StringName.InitJSON(descNamePool[c.Intn(len(descNamePool))])
		}
	}
	descCheckFields(c, fl, false, "literal")
	// OneofFields over a sub-sequence of these fields
	of := &filedesc.OneofFields{}
	seenName, seenNum := map[protoreflect.Name]bool{}, map[protoreflect.FieldNumber]bool{}
	for i := range fl.List {
		f := &fl.List[i]
		// names and numbers of the fields of a validated message are unique
		if c.Intn(3) > 0 && !seenName[f.Name()] && !seenNum[f.Number()] {
			seenName[f.Name()], seenNum[f.Number()] = true, true
			of.List = append(of.List, f)
		}
	}
	descCheckFields(c, of, true, "literal")
	// EnumValues
	m := c.Intn(7)
	ev := &filedesc.EnumValues{List: make([]filedesc.EnumValue, m)}
	for i := range ev.List {
		v := &ev.List[i]
		v.L0.FullName = protoreflect.FullName("p." + descNamePool[c.Intn(len(descNamePool))])
		v.L0.Index = i
		v.L1.Number = protoreflect.EnumNumber(c.Intn(4) - 1)
	}
	descCheckEnumValues(c, ev, "literal")
	// name-keyed lists
	k := c.Intn(7)
	ms := &filedesc.Messages{List: make([]filedesc.Message, k)}
	es := &filedesc.Enums{List: make([]filedesc.Enum, k)}
	os := &filedesc.Oneofs{List: make([]filedesc.Oneof, k)}
	xs := &filedesc.Extensions{List: make([]filedesc.Extension, k)}
	ss := &filedesc.Services{List: make([]filedesc.Service, k)}
	ts := &filedesc.Methods{List: make([]filedesc.Method, k)}
	for i := 0; i < k; i++ {
		fn := protoreflect.FullName("p." + descNamePool[c.Intn(len(descNamePool))])
		ms.List[i].L0.FullName = fn
		es.List[i].L0.FullName = fn
		os.List[i].L0.FullName = fn
		xs.List[i].L0.FullName = fn
		ss.List[i].L0.FullName = fn
		ts.List[i].L0.FullName = fn
	}
	descCheckByName(c, "Messages", k, func(i int) string { return string(ms.Get(i).Name()) }, func(s string) int {
		if d := ms.ByName(protoreflect.Name(s)); d != nil {
			for i := 0; i < k; i++ {
				if ms.Get(i) == d {
					return i
				}
			}
			return -2
		}
		return -1
	}, "literal")
	descCheckByName(c, "Enums", k, func(i int) string { return string(es.Get(i).Name()) }, func(s string) int {
		if d := es.ByName(protoreflect.Name(s)); d != nil {
			for i := 0; i < k; i++ {
				if es.Get(i) == d {
					return i
				}
			}
			return -2
		}
		return -1
	}, "literal")
	descCheckByName(c, "Oneofs", k, func(i int) string { return string(os.Get(i).Name()) }, func(s string) int {
		if d := os.ByName(protoreflect.Name(s)); d != nil {
			for i := 0; i < k; i++ {
				if os.Get(i) == d {
					return i
				}
			}
			return -2
		}
		return -1
	}, "literal")
	descCheckByName(c, "Extensions", k, func(i int) string { return string(xs.Get(i).Name()) }, func(s string) int {
		if d := xs.ByName(protoreflect.Name(s)); d != nil {
			for i := 0; i < k; i++ {
				if xs.Get(i) == d {
					return i
				}
			}
			return -2
		}
		return -1
	}, "literal")
	descCheckByName(c, "Services", k, func(i int) string { return string(ss.Get(i).Name()) }, func(s string) int {
		if d := ss.ByName(protoreflect.Name(s)); d != nil {
			for i := 0; i < k; i++ {
				if ss.Get(i) == d {
					return i
				}
			}
			return -2
		}
		return -1
	}, "literal")
	descCheckByName(c, "Methods", k, func(i int) string { return string(ts.Get(i).Name()) }, func(s string) int {
		if d := ts.ByName(protoreflect.Name(s)); d != nil {
			for i := 0; i < k; i++ {
				if ts.Get(i) == d {
					return i
				}
			}
			return -2
		}
		return -1
	}, "literal")
	// Names / FieldNumbers with duplicates
	nm := &filedesc.Names{}
	for i, k := 0, c.Intn(6); i < k; i++ {
		nm.List = append(nm.List, protoreflect.Name(descNamePool[c.Intn(len(descNamePool))]))
	}
	descCheckNames(c, nm, "literal")
	fn := &filedesc.FieldNumbers{}
	for i, k := 0, c.Intn(6); i < k; i++ {
		fn.List = append(fn.List, protoreflect.FieldNumber(c.Intn(6)))
	}
	descCheckNumbers(c, fn, []int32{2, 3, 4}, "literal")
	c.Stat("literal")
}

// ----- random descriptor protos through protodesc.NewFile

func descRangeProtosReserved(l [][2]int32) []*descriptorpb.DescriptorProto_ReservedRange {
	var out []*descriptorpb.DescriptorProto_ReservedRange
	for _, r := range l {
		out = append(out, &descriptorpb.DescriptorProto_ReservedRange{Start: proto.Int32(r[0]), End: proto.Int32(r[1])})
	}
	return out
}
func descRangeProtosExt(l [][2]int32) []*descriptorpb.DescriptorProto_ExtensionRange {
	var out []*descriptorpb.DescriptorProto_ExtensionRange
	for _, r := range l {
		out = append(out, &descriptorpb.DescriptorProto_ExtensionRange{Start: proto.Int32(r[0]), End: proto.Int32(r[1])})
	}
	return out
}

// ranges placed in [lo, ...): mostly valid (disjoint, possibly adjacent), shuffled
func descGenRangesFrom(c *Ctx, lo int64, n int, excl bool) [][2]int32 {
	var l [][2]int32
	cur := lo
	for i := 0; i < n; i++ {
		s := cur + int64(c.Intn(3))
		ln := int64(1 + c.Intn(5))
		e := s + ln
		if !excl {
			e = s + ln - 1
		}
		if e > math.MaxInt32 {
			break
		}
		l = append(l, [2]int32{int32(s), int32(e)})
		cur = s + ln
	}
	for i := len(l) - 1; i > 0; i-- {
		j := c.Intn(i + 1)
		l[i], l[j] = l[j], l[i]
	}
	return l
}

func descGenMessage(c *Ctx, pkg string, scope string, name string, depth int, editions bool, proto3 bool) *descriptorpb.DescriptorProto {
	md := &descriptorpb.DescriptorProto{Name: proto.String(name)}
	full := scope + "." + name
	nf := c.Intn(8)
	used := map[string]bool{}
	usedNum := map[int32]bool{}
	// oneofs: consecutive runs of optional fields
	nOneof := 0
	if nf >= 2 && c.Intn(2) == 0 {
		nOneof = 1 + c.Intn(2)
	}
	curOneof := -1
	oneofLeft := 0
	nextOneof := 0
	for i := 0; i < nf; i++ {
		nm := descNamePool[c.Intn(len(descNamePool))]
		if used[nm] && c.Intn(20) != 0 { // duplicate names are rejected; keep a few to see the rejection
			nm = fmt.Sprintf("%s_%d", nm, i)
		}
		used[nm] = true
		num := int32(1 + c.Intn(40))
		if c.Intn(10) == 0 {
			num = int32(1<<29 - 1 - c.Intn(3))
		}
		if usedNum[num] && c.Intn(20) != 0 {
			for usedNum[num] {
				num++
			}
		}
		usedNum[num] = true
		f := &descriptorpb.FieldDescriptorProto{Name: proto.String(nm), Number: proto.Int32(num)}
		switch c.Intn(5) {
		case 0:
			f.Type = descriptorpb.FieldDescriptorProto_TYPE_STRING.Enum()
		default:
			f.Type = descriptorpb.FieldDescriptorProto_TYPE_INT32.Enum()
		}
		lab := descriptorpb.FieldDescriptorProto_LABEL_OPTIONAL
		if !proto3 && !editions && c.Intn(4) == 0 {
			lab = descriptorpb.FieldDescriptorProto_LABEL_REQUIRED
		} else if c.Intn(5) == 0 {
			lab = descriptorpb.FieldDescriptorProto_LABEL_REPEATED
		}
		// oneof membership
		if oneofLeft > 0 {
			lab = descriptorpb.FieldDescriptorProto_LABEL_OPTIONAL
			f.OneofIndex = proto.Int32(int32(curOneof))
			oneofLeft--
		} else if nextOneof < nOneof && c.Intn(2) == 0 {
			curOneof = nextOneof
			nextOneof++
			oneofLeft = c.Intn(3)
			lab = descriptorpb.FieldDescriptorProto_LABEL_OPTIONAL
			f.OneofIndex = proto.Int32(int32(curOneof))
		}
		f.Label = lab.Enum()
		if editions && f.OneofIndex == nil && lab == descriptorpb.FieldDescriptorProto_LABEL_OPTIONAL && c.Intn(4) == 0 {
			// editions spelling of `required`: label optional + features.field_presence = LEGACY_REQUIRED
			f.Options = &descriptorpb.FieldOptions{Features: &descriptorpb.FeatureSet{FieldPresence: descriptorpb.FeatureSet_LEGACY_REQUIRED.Enum()}}
		}
		if c.Intn(3) == 0 {
			f.JsonName = proto.String(descNamePool[c.Intn(len(descNamePool))])
		}
		// groups / delimited messages
		if depth > 0 && lab != descriptorpb.FieldDescriptorProto_LABEL_REQUIRED && c.Intn(6) == 0 && !proto3 {
			gname := fmt.Sprintf("%s%d", []string{"Grp", "Delim", "G_x"}[c.Intn(3)], i)
			{
				sub := descGenMessage(c, pkg, full, gname, 0, editions, proto3)
				md.NestedType = append(md.NestedType, sub)
				if editions {
					f.Type = descriptorpb.FieldDescriptorProto_TYPE_MESSAGE.Enum()
					f.Options = &descriptorpb.FieldOptions{Features: &descriptorpb.FeatureSet{MessageEncoding: descriptorpb.FeatureSet_DELIMITED.Enum()}}
					if c.Intn(3) == 0 {
						// not group-like: field name is not the lower-cased message name
						f.Name = proto.String(nm + "_d")
					}
				} else {
					f.Type = descriptorpb.FieldDescriptorProto_TYPE_GROUP.Enum()
					f.Name = proto.String(strings.ToLower(gname))
				}
				f.TypeName = proto.String("." + full + "." + gname)
			}
		}
		md.Field = append(md.Field, f)
	}
	for i := 0; i < nextOneof; i++ {
		md.OneofDecl = append(md.OneofDecl, &descriptorpb.OneofDescriptorProto{Name: proto.String(fmt.Sprintf("o%d", i))})
	}
	if nextOneof > 0 && c.Intn(25) == 0 { // an empty oneof: must be rejected
		md.OneofDecl = append(md.OneofDecl, &descriptorpb.OneofDescriptorProto{Name: proto.String("oe")})
	}
	// a map field
	if c.Intn(5) == 0 && !used["m"] && !usedNum[60] {
		md.Field = append(md.Field, &descriptorpb.FieldDescriptorProto{Name: proto.String("m"), Number: proto.Int32(60),
			Label: descriptorpb.FieldDescriptorProto_LABEL_REPEATED.Enum(), Type: descriptorpb.FieldDescriptorProto_TYPE_MESSAGE.Enum(),
			TypeName: proto.String("." + full + ".MEntry")})
		md.NestedType = append(md.NestedType, &descriptorpb.DescriptorProto{Name: proto.String("MEntry"),
			Options: &descriptorpb.MessageOptions{MapEntry: proto.Bool(true)},
			Field: []*descriptorpb.FieldDescriptorProto{
				{Name: proto.String("key"), Number: proto.Int32(1), Label: descriptorpb.FieldDescriptorProto_LABEL_OPTIONAL.Enum(), Type: descriptorpb.FieldDescriptorProto_TYPE_STRING.Enum()},
				{Name: proto.String("value"), Number: proto.Int32(2), Label: descriptorpb.FieldDescriptorProto_LABEL_OPTIONAL.Enum(), Type: descriptorpb.FieldDescriptorProto_TYPE_INT32.Enum()},
			}})
	}
	// reserved and extension ranges (mostly outside the field numbers)
	if c.Intn(2) == 0 {
		l := descGenRangesFrom(c, 100, c.Intn(5), true)
		if c.Intn(8) == 0 {
			l = append(l, [2]int32{1<<29 - 1 - int32(c.Intn(3)), 1 << 29})
		}
		if c.Intn(30) == 0 && len(l) > 0 { // overlapping: must be rejected
			r := l[c.Intn(len(l))]
			l = append(l, [2]int32{r[0], r[1] + 1})
		}
		if c.Intn(30) == 0 { // may hit a field number: must be rejected
			l = append(l, [2]int32{int32(1 + c.Intn(40)), int32(41 + c.Intn(5))})
		}
		md.ReservedRange = descRangeProtosReserved(l)
	}
	if !proto3 && c.Intn(2) == 0 {
		l := descGenRangesFrom(c, 200+int64(c.Intn(3)), c.Intn(5), true)
		if c.Intn(8) == 0 {
			l = append(l, [2]int32{1 << 20, 1 << 29})
		}
		if c.Intn(20) == 0 { // adjacent to / overlapping the reserved ranges
			l = append(l, [2]int32{int32(100 + c.Intn(30)), int32(131 + c.Intn(5))})
		}
		md.ExtensionRange = descRangeProtosExt(l)
	}
	for i, k := 0, c.Intn(3); i < k; i++ {
		md.ReservedName = append(md.ReservedName, fmt.Sprintf("r%d%s", i*c.Intn(8), descNamePool[c.Intn(len(descNamePool))]))
	}
	// nested enum
	if c.Intn(3) == 0 {
		md.EnumType = append(md.EnumType, descGenEnum(c, "E"+name, proto3 || editions))
	}
	if depth > 0 && c.Intn(3) == 0 {
		md.NestedType = append(md.NestedType, descGenMessage(c, pkg, full, "N", depth-1, editions, proto3))
	}
	return md
}

func descGenEnum(c *Ctx, name string, open bool) *descriptorpb.EnumDescriptorProto {
	ed := &descriptorpb.EnumDescriptorProto{Name: proto.String(name)}
	n := 1 + c.Intn(5)
	alias := c.Intn(3) == 0
	seen := map[int32]bool{}
	dup := false
	for i := 0; i < n; i++ {
		num := int32(i)
		if i > 0 && alias && c.Intn(2) == 0 {
			num = int32(c.Intn(i))
		} else if i > 0 && c.Intn(4) == 0 {
			num = int32(c.Intn(20) - 5)
			if open && num == 0 {
				num = 7
			}
		}
		if seen[num] {
			dup = true
		}
		seen[num] = true
		ed.Value = append(ed.Value, &descriptorpb.EnumValueDescriptorProto{Name: proto.String(fmt.Sprintf("%s_V%d", name, i)), Number: proto.Int32(num)})
	}
	if dup && c.Intn(10) != 0 {
		ed.Options = &descriptorpb.EnumOptions{AllowAlias: proto.Bool(true)}
	}
	if c.Intn(2) == 0 {
		l := descGenRangesFrom(c, 100, c.Intn(4), false)
		if c.Intn(4) == 0 {
			l = append(l, [2]int32{math.MinInt32, -100 - int32(c.Intn(3))})
		}
		if c.Intn(4) == 0 {
			l = append(l, [2]int32{math.MaxInt32 - int32(c.Intn(3)), math.MaxInt32})
		}
		if c.Intn(10) == 0 && len(l) > 0 {
			r := l[c.Intn(len(l))]
			l = append(l, [2]int32{r[1], r[1] + 2}) // shares r[1]: overlapping for closed ranges
		}
		for _, r := range l {
			ed.ReservedRange = append(ed.ReservedRange, &descriptorpb.EnumDescriptorProto_EnumReservedRange{Start: proto.Int32(r[0]), End: proto.Int32(r[1])})
		}
	}
	for i, k := 0, c.Intn(3); i < k; i++ {
		ed.ReservedName = append(ed.ReservedName, fmt.Sprintf("R%d%s", i*c.Intn(8), descNamePool[c.Intn(len(descNamePool))]))
	}
	return ed
}

func descGenFile(c *Ctx, id int) *descriptorpb.FileDescriptorProto {
	pkg := []string{"p", "p.q", "r"}[c.Intn(3)]
	fdp := &descriptorpb.FileDescriptorProto{Name: proto.String(fmt.Sprintf("verif/desc%d.proto", id)), Package: proto.String(pkg)}
	editions, proto3 := false, false
	switch c.Intn(6) {
	case 0:
		fdp.Syntax = proto.String("proto3")
		proto3 = true
	case 1:
		fdp.Syntax = proto.String("editions")
		fdp.Edition = descriptorpb.Edition_EDITION_2023.Enum()
		editions = true
	default:
		fdp.Syntax = proto.String("proto2")
	}
	nm := 1 + c.Intn(3)
	for i := 0; i < nm; i++ {
		fdp.MessageType = append(fdp.MessageType, descGenMessage(c, pkg, pkg, fmt.Sprintf("M%d", i), 2, editions, proto3))
	}
	if c.Intn(2) == 0 {
		fdp.EnumType = append(fdp.EnumType, descGenEnum(c, "TE", proto3 || editions))
	}
	if c.Intn(3) == 0 {
		fdp.Service = append(fdp.Service, &descriptorpb.ServiceDescriptorProto{Name: proto.String("S"), Method: []*descriptorpb.MethodDescriptorProto{
			{Name: proto.String("Do"), InputType: proto.String("." + pkg + ".M0"), OutputType: proto.String("." + pkg + ".M0")},
			{Name: proto.String("do"), InputType: proto.String("." + pkg + ".M0"), OutputType: proto.String("." + pkg + ".M0")},
		}})
	}
	// extensions of M0 when it has extension ranges
	if m0 := fdp.MessageType[0]; len(m0.ExtensionRange) > 0 && !proto3 {
		r := m0.ExtensionRange[c.Intn(len(m0.ExtensionRange))]
		fdp.Extension = append(fdp.Extension, &descriptorpb.FieldDescriptorProto{Name: proto.String("ext_a"), Number: proto.Int32(r.GetStart()),
			Label: descriptorpb.FieldDescriptorProto_LABEL_OPTIONAL.Enum(), Type: descriptorpb.FieldDescriptorProto_TYPE_INT32.Enum(), Extendee: proto.String("." + pkg + ".M0")})
		if c.Bool() {
			fdp.Extension = append(fdp.Extension, &descriptorpb.FieldDescriptorProto{Name: proto.String("ext_b"), Number: proto.Int32(r.GetEnd() - 1 + int32(c.Intn(2))),
				Label: descriptorpb.FieldDescriptorProto_LABEL_OPTIONAL.Enum(), Type: descriptorpb.FieldDescriptorProto_TYPE_INT32.Enum(), Extendee: proto.String("." + pkg + ".M0")})
		}
	}
	return fdp
}

// the F8 witness: a proto2 message whose oneof members a_b and aB both have json_name "aB"
func descF8Witness() *descriptorpb.FileDescriptorProto {
	opt := descriptorpb.FieldDescriptorProto_LABEL_OPTIONAL.Enum()
	i32 := descriptorpb.FieldDescriptorProto_TYPE_INT32.Enum()
	return &descriptorpb.FileDescriptorProto{Name: proto.String("verif/f8.proto"), Package: proto.String("f8"), Syntax: proto.String("proto2"),
		MessageType: []*descriptorpb.DescriptorProto{{Name: proto.String("M"),
			OneofDecl: []*descriptorpb.OneofDescriptorProto{{Name: proto.String("o")}},
			Field: []*descriptorpb.FieldDescriptorProto{
				{Name: proto.String("a_b"), Number: proto.Int32(1), Label: opt, Type: i32, OneofIndex: proto.Int32(0), JsonName: proto.String("aB")},
				{Name: proto.String("aB"), Number: proto.Int32(2), Label: opt, Type: i32, OneofIndex: proto.Int32(0), JsonName: proto.String("aB")},
			}}}}
}

func descTryFile(c *Ctx, fdp *descriptorpb.FileDescriptorProto) {
	var fd protoreflect.FileDescriptor
	var err error
	func() {
		defer func() {
			if r := recover(); r != nil {
				err = fmt.Errorf("panic: %v", r)
				c.PropFail("C36", "protodesc.NewFile panicked", fdp.GetName(), fmt.Sprint(r))
			}
		}()
		fd, err = protodesc.NewFile(fdp, nil)
	}()
	if err != nil {
		c.Stat("newfile:rejected")
		s := err.Error()
		for _, k := range []string{"overlapping ranges", "reserved number", "extension range", "already declared", "conflicting fields", "invalid range", "invalid field number", "non-aliased", "aliases", "reserved name"} {
			if strings.Contains(s, k) {
				c.Stat("newfile:rejected:" + k)
				return
			}
		}
		c.Stat("newfile:rejected:other")
		if c.stats["newfile:rejected:other"] <= 3 {
			c.Sample("rejected: " + strings.ReplaceAll(s, "\n", " "))
		}
		return
	}
	c.Stat("newfile:accepted")
	func() {
		defer func() {
			if r := recover(); r != nil {
				c.PropFail("C36", "panic while walking a generated file", fdp.GetName(), fmt.Sprint(r))
			}
		}()
		descWalkFile(c, fd)
	}()
	// the same (validated) file through the raw-descriptor path of internal/filedesc
	// (desc_init.go / desc_lazy.go), on local registries
	func() {
		defer func() {
			if r := recover(); r != nil {
				c.PropFail("C36", "panic while building/walking a generated file through filedesc.Builder", fdp.GetName(), fmt.Sprint(r))
			}
		}()
		raw, err := proto.Marshal(fdp)
		if err != nil {
			return
		}
		out := filedesc.Builder{GoPackagePath: "verif/desc", RawDescriptor: raw,
			FileRegistry: new(protoregistry.Files), TypeResolver: new(protoregistry.Types)}.Build()
		descWalkFile(c, out.File)
		c.Stat("rawfile")
	}()
}

func famDesc(c *Ctx) {
	// (a) boundary corpus
	for _, l := range descBoundaryRanges {
		for _, ms := range []bool{false, true} {
			descDirectRanges(c, "f", l, ms)
		}
	}
	for _, l := range descBoundaryEnumRanges {
		descDirectRanges(c, "e", l, false)
	}
	for i, p := range descBoundaryRanges {
		for j, q := range descBoundaryRanges {
			if (i+j)%3 == 0 {
				pv := descFreshFR(p).CheckValid(true) == nil
				qv := descFreshFR(q).CheckValid(true) == nil
				descCheckOverlap(c, p, q, pv, qv, "direct")
			}
		}
	}
	descTryFile(c, descF8Witness())
	// (b) random
	for i := 0; i < c.N; i++ {
		switch c.Intn(4) {
		case 0:
			kind := "f"
			if c.Intn(3) == 0 {
				kind = "e"
			}
			l := descRandRanges(c, kind)
			ms := c.Intn(3) == 0
			pv := descDirectRanges(c, kind, l, ms)
			if kind == "f" {
				q := descRandRanges(c, "f")
				if c.Intn(3) == 0 && len(l) > 0 { // make the lists related: shift a copy
					q = nil
					d := int32(c.Intn(7) - 3)
					for _, r := range l {
						if int64(r[0])+int64(d) > 0 && int64(r[1])+int64(d) < math.MaxInt32 && c.Intn(3) > 0 {
							ln := r[1] - r[0]
							q = append(q, [2]int32{r[1] + d, r[1] + d + ln/2 + 1})
						}
					}
				}
				qv := descFreshFR(q).CheckValid(ms) == nil
				descCheckOverlap(c, l, q, pv, qv, "direct")
			}
		case 1:
			descLiteralLists(c)
		default:
			descTryFile(c, descGenFile(c, i))
		}
	}
}
