//go:build verif

package main

import (
	"fmt"
	"strings"

	"google.golang.org/protobuf/internal/strs"
	"google.golang.org/protobuf/proto"
	"google.golang.org/protobuf/reflect/protodesc"
	"google.golang.org/protobuf/types/descriptorpb"
	"google.golang.org/protobuf/types/gofeaturespb"
)

// Random schemas for the "gen" family: 1–3 files importing each other, proto2 /
// proto3 / edition 2023, messages with scalar, enum, message, map and oneof
// fields, nested declarations, extensions, defaults, comments, options.

type genFileCtx struct {
	fd      *descriptorpb.FileDescriptorProto
	syntax  string   // proto2 | proto3 | editions
	msgs    []string // full names of messages (with leading dot) usable as field types
	enums   []string // full names of enums, first value name appended after '='
	extable []string // messages with an extension range
	locs    []*descriptorpb.SourceCodeInfo_Location
}

var genScalarTypes = []descriptorpb.FieldDescriptorProto_Type{
	descriptorpb.FieldDescriptorProto_TYPE_INT32, descriptorpb.FieldDescriptorProto_TYPE_INT64,
	descriptorpb.FieldDescriptorProto_TYPE_UINT32, descriptorpb.FieldDescriptorProto_TYPE_UINT64,
	descriptorpb.FieldDescriptorProto_TYPE_SINT32, descriptorpb.FieldDescriptorProto_TYPE_SINT64,
	descriptorpb.FieldDescriptorProto_TYPE_FIXED32, descriptorpb.FieldDescriptorProto_TYPE_FIXED64,
	descriptorpb.FieldDescriptorProto_TYPE_SFIXED32, descriptorpb.FieldDescriptorProto_TYPE_SFIXED64,
	descriptorpb.FieldDescriptorProto_TYPE_FLOAT, descriptorpb.FieldDescriptorProto_TYPE_DOUBLE,
	descriptorpb.FieldDescriptorProto_TYPE_BOOL, descriptorpb.FieldDescriptorProto_TYPE_STRING,
	descriptorpb.FieldDescriptorProto_TYPE_BYTES,
}

var genFieldNames = []string{"a", "b", "foo", "foo_bar", "fooBar", "get_foo", "x", "_x", "value", "name", "id", "type", "string",
	"reset", "build", "has_a", "clear_a", "set_a", "which", "descriptor_", "e", "m", "list", "map_", "data_1", "XXX_x", "k9"}

func genDefault(c *Ctx, t descriptorpb.FieldDescriptorProto_Type) string {
	switch t {
	case descriptorpb.FieldDescriptorProto_TYPE_BOOL:
		return []string{"true", "false"}[c.Intn(2)]
	case descriptorpb.FieldDescriptorProto_TYPE_STRING:
		return []string{"hi", "", "a\"b\\c", "é\n"}[c.Intn(4)]
	case descriptorpb.FieldDescriptorProto_TYPE_BYTES:
		return []string{"\\001\\377", "abc", ""}[c.Intn(3)]
	case descriptorpb.FieldDescriptorProto_TYPE_FLOAT, descriptorpb.FieldDescriptorProto_TYPE_DOUBLE:
		return []string{"1.5", "-0", "inf", "-inf", "nan", "1e+20"}[c.Intn(6)]
	case descriptorpb.FieldDescriptorProto_TYPE_UINT32, descriptorpb.FieldDescriptorProto_TYPE_UINT64,
		descriptorpb.FieldDescriptorProto_TYPE_FIXED32, descriptorpb.FieldDescriptorProto_TYPE_FIXED64:
		return []string{"0", "7", "4294967295"}[c.Intn(3)]
	default:
		return []string{"0", "-7", "2147483647"}[c.Intn(3)]
	}
}

func (fc *genFileCtx) comment(c *Ctx, path ...int32) {
	if c.Intn(3) != 0 {
		return
	}
	loc := &descriptorpb.SourceCodeInfo_Location{Path: path, Span: []int32{int32(len(fc.locs)), 0, 10}}
	if c.Bool() {
		loc.LeadingComments = proto.String(" leading comment " + fmt.Sprint(path) + "\n second line\n")
	}
	if c.Intn(3) == 0 {
		loc.TrailingComments = proto.String(" trailing\n")
	}
	if c.Intn(4) == 0 {
		loc.LeadingDetachedComments = []string{" detached 1\n", " detached 2\n"}
	}
	fc.locs = append(fc.locs, loc)
}

// genMessage builds message number idx of its parent scope.
func genMessage(c *Ctx, fc *genFileCtx, scope string, name string, depth int, avail *genAvail, path []int32) *descriptorpb.DescriptorProto {
	full := scope + "." + name
	md := &descriptorpb.DescriptorProto{Name: proto.String(name)}
	fc.comment(c, path...)
	usedNames := map[string]bool{}
	pick := func(pool []string, prefix string) string {
		for i := 0; i < 10; i++ {
			n := pool[c.Intn(len(pool))]
			if !usedNames[n] {
				usedNames[n] = true
				return n
			}
		}
		n := fmt.Sprintf("%s%d", prefix, len(usedNames))
		usedNames[n] = true
		return n
	}
	// nested declarations first so that fields can refer to them
	if depth < 2 {
		for i, n := 0, c.Intn(3); i < n; i++ {
			nn := pick([]string{"Nested", "Inner", "Foo", "N1", "Entry"}, "N")
			md.NestedType = append(md.NestedType, genMessage(c, fc, full, nn, depth+1, avail, append(append([]int32(nil), path...), 3, int32(len(md.NestedType)))))
		}
		for i, n := 0, c.Intn(2); i < n; i++ {
			en := pick([]string{"Kind", "E", "Mode"}, "E")
			md.EnumType = append(md.EnumType, genEnum(c, fc, full, en, usedNames, append(append([]int32(nil), path...), 4, int32(len(md.EnumType)))))
		}
	}
	if fc.syntax != "proto3" && c.Intn(3) == 0 {
		md.ExtensionRange = []*descriptorpb.DescriptorProto_ExtensionRange{{Start: proto.Int32(100), End: proto.Int32(200)}}
		fc.extable = append(fc.extable, full)
	}
	no := c.Intn(3)
	if c.Intn(2) == 0 {
		no = 0
	}
	for i := 0; i < no; i++ {
		md.OneofDecl = append(md.OneofDecl, &descriptorpb.OneofDescriptorProto{Name: proto.String(pick([]string{"o", "choice", "kind", "u"}, "o"))})
	}
	// field plan: plain fields (-1) and, for every oneof, one consecutive run of members
	nf := c.Intn(7)
	segs := make([][]int, nf)
	for i := range segs {
		segs[i] = []int{-1}
	}
	for k := 0; k < no; k++ {
		run := make([]int, 1+c.Intn(3))
		for i := range run {
			run[i] = k
		}
		at := c.Intn(len(segs) + 1)
		segs = append(segs[:at], append([][]int{run}, segs[at:]...)...)
	}
	var plan []int
	for _, sg := range segs {
		plan = append(plan, sg...)
	}
	num := int32(1)
	addField := func(fd *descriptorpb.FieldDescriptorProto) {
		fd.Number = proto.Int32(num)
		num += int32(1 + c.Intn(3))
		if num >= 100 {
			num = 300 + num
		}
		fc.comment(c, append(append([]int32(nil), path...), 2, int32(len(md.Field)))...)
		md.Field = append(md.Field, fd)
	}
	for _, inOneof := range plan {
		fd := &descriptorpb.FieldDescriptorProto{Name: proto.String(pick(genFieldNames, "f")), Label: descriptorpb.FieldDescriptorProto_LABEL_OPTIONAL.Enum()}
		// type
		kind := c.Intn(10)
		switch {
		case kind < 5 || (kind == 5 && len(avail.enums(fc)) == 0) || (kind >= 6 && len(avail.msgs) == 0):
			fd.Type = genScalarTypes[c.Intn(len(genScalarTypes))].Enum()
		case kind == 5:
			es := avail.enums(fc)
			e := es[c.Intn(len(es))]
			fd.Type = descriptorpb.FieldDescriptorProto_TYPE_ENUM.Enum()
			fd.TypeName = proto.String(e[:strings.Index(e, "=")])
			if fc.syntax == "proto2" && c.Intn(3) == 0 {
				fd.DefaultValue = proto.String(e[strings.Index(e, "=")+1:])
			}
		default:
			fd.Type = descriptorpb.FieldDescriptorProto_TYPE_MESSAGE.Enum()
			fd.TypeName = proto.String(avail.msgs[c.Intn(len(avail.msgs))])
		}
		isMsg := fd.GetType() == descriptorpb.FieldDescriptorProto_TYPE_MESSAGE
		switch {
		case inOneof >= 0:
			fd.OneofIndex = proto.Int32(int32(inOneof))
		case c.Intn(5) == 0 && depth < 2:
			// map field: a nested entry message
			en := strs.MapEntryName(fd.GetName())
			if usedNames[en] {
				break
			}
			usedNames[en] = true
			keyT := []descriptorpb.FieldDescriptorProto_Type{descriptorpb.FieldDescriptorProto_TYPE_STRING, descriptorpb.FieldDescriptorProto_TYPE_INT32,
				descriptorpb.FieldDescriptorProto_TYPE_BOOL, descriptorpb.FieldDescriptorProto_TYPE_UINT64}[c.Intn(4)]
			val := proto.Clone(fd).(*descriptorpb.FieldDescriptorProto)
			val.Name, val.Number, val.DefaultValue = proto.String("value"), proto.Int32(2), nil
			entry := &descriptorpb.DescriptorProto{Name: proto.String(en), Options: &descriptorpb.MessageOptions{MapEntry: proto.Bool(true)},
				Field: []*descriptorpb.FieldDescriptorProto{
					{Name: proto.String("key"), Number: proto.Int32(1), Label: descriptorpb.FieldDescriptorProto_LABEL_OPTIONAL.Enum(), Type: keyT.Enum()}, val}}
			md.NestedType = append(md.NestedType, entry)
			fd.Type, fd.TypeName, fd.DefaultValue = descriptorpb.FieldDescriptorProto_TYPE_MESSAGE.Enum(), proto.String(full+"."+en), nil
			fd.Label = descriptorpb.FieldDescriptorProto_LABEL_REPEATED.Enum()
		case c.Intn(4) == 0:
			fd.Label = descriptorpb.FieldDescriptorProto_LABEL_REPEATED.Enum()
			fd.DefaultValue = nil
			if !isMsg && fd.GetType() != descriptorpb.FieldDescriptorProto_TYPE_STRING && fd.GetType() != descriptorpb.FieldDescriptorProto_TYPE_BYTES && c.Bool() && fc.syntax != "editions" {
				fd.Options = &descriptorpb.FieldOptions{Packed: proto.Bool(c.Bool())}
			}
		case fc.syntax == "proto2" && c.Intn(8) == 0:
			fd.Label = descriptorpb.FieldDescriptorProto_LABEL_REQUIRED.Enum()
		case fc.syntax == "proto2" && !isMsg && fd.DefaultValue == nil && fd.GetType() != descriptorpb.FieldDescriptorProto_TYPE_ENUM && c.Intn(3) == 0:
			fd.DefaultValue = proto.String(genDefault(c, fd.GetType()))
		case fc.syntax == "proto3" && c.Intn(4) == 0:
			// proto3 optional: synthetic oneof, appended after the real ones below
			fd.Proto3Optional = proto.Bool(true)
		}
		if c.Intn(8) == 0 {
			if fd.Options == nil {
				fd.Options = &descriptorpb.FieldOptions{}
			}
			fd.Options.Deprecated = proto.Bool(true)
		}
		if c.Intn(8) == 0 {
			fd.JsonName = proto.String("j" + fd.GetName())
		}
		if fc.syntax == "editions" && c.Intn(5) == 0 && fd.OneofIndex == nil && fd.GetLabel() == descriptorpb.FieldDescriptorProto_LABEL_OPTIONAL && !isMsg {
			if fd.Options == nil {
				fd.Options = &descriptorpb.FieldOptions{}
			}
			fd.Options.Features = &descriptorpb.FeatureSet{FieldPresence: descriptorpb.FeatureSet_IMPLICIT.Enum()}
			fd.DefaultValue = nil
		}
		addField(fd)
	}
	for _, fd := range md.Field {
		if fd.GetProto3Optional() {
			fd.OneofIndex = proto.Int32(int32(len(md.OneofDecl)))
			md.OneofDecl = append(md.OneofDecl, &descriptorpb.OneofDescriptorProto{Name: proto.String("_" + fd.GetName())})
		}
	}
	if c.Intn(6) == 0 {
		md.ReservedName = []string{"old_field"}
		md.ReservedRange = []*descriptorpb.DescriptorProto_ReservedRange{{Start: proto.Int32(900), End: proto.Int32(910)}}
	}
	if c.Intn(8) == 0 {
		md.Options = &descriptorpb.MessageOptions{Deprecated: proto.Bool(true)}
	}
	fc.msgs = append(fc.msgs, full)
	avail.msgs = append(avail.msgs, full)
	return md
}

func genEnum(c *Ctx, fc *genFileCtx, scope, name string, scopeNames map[string]bool, path []int32) *descriptorpb.EnumDescriptorProto {
	ed := &descriptorpb.EnumDescriptorProto{Name: proto.String(name)}
	fc.comment(c, path...)
	prefix := strings.ToUpper(name) + fmt.Sprint(len(fc.enums)) + "_"
	if c.Intn(3) == 0 {
		prefix = name + fmt.Sprint(len(fc.enums)) + "_" // mixed case value names
	}
	n := 1 + c.Intn(4)
	for i := 0; i < n; i++ {
		vn := prefix + []string{"UNKNOWN", "ONE", "two", "Three_x", "FOUR"}[i]
		scopeNames[vn] = true
		num := int32(i)
		if i > 0 && c.Intn(4) == 0 {
			num = int32(i * 10)
		}
		ed.Value = append(ed.Value, &descriptorpb.EnumValueDescriptorProto{Name: proto.String(vn), Number: proto.Int32(num)})
		fc.comment(c, append(append([]int32(nil), path...), 2, int32(i))...)
	}
	if c.Intn(8) == 0 {
		ed.Options = &descriptorpb.EnumOptions{Deprecated: proto.Bool(true)}
	}
	full := scope + "." + name
	fc.enums = append(fc.enums, full+"="+ed.Value[0].GetName())
	return ed
}

// what a file may refer to: its own declarations and those of its imports
type genAvail struct {
	msgs       []string
	otherEnums []string // enums of imported proto2 files, usable from proto2 files only
}

func (a *genAvail) enums(fc *genFileCtx) []string {
	if fc.syntax == "proto2" {
		return append(append([]string(nil), fc.enums...), a.otherEnums...)
	}
	return fc.enums
}

func genRandomRequest(c *Ctx) *genReq {
	nfiles := 1 + c.Intn(3)
	var fcs []*genFileCtx
	var files []*descriptorpb.FileDescriptorProto
	goFeatures := false
	for i := 0; i < nfiles; i++ {
		fc := &genFileCtx{syntax: []string{"proto2", "proto3", "editions"}[c.Intn(3)]}
		dir := []string{"r", "r/sub", "s"}[c.Intn(3)]
		pkg := []string{"rp.a", "rp.b", "rp"}[c.Intn(3)]
		fd := &descriptorpb.FileDescriptorProto{
			Name:    proto.String(fmt.Sprintf("%s/f%d.proto", dir, i)),
			Package: proto.String(fmt.Sprintf("%s%d", pkg, i)),
			Options: &descriptorpb.FileOptions{},
		}
		switch fc.syntax {
		case "proto3":
			fd.Syntax = proto.String("proto3")
		case "editions":
			fd.Syntax = proto.String("editions")
			fd.Edition = descriptorpb.Edition_EDITION_2023.Enum()
		default:
			if c.Bool() {
				fd.Syntax = proto.String("proto2")
			}
		}
		// Go package: files may share an import path (then with a consistent name)
		gp := []string{"example.com/r/pa", "example.com/r/pb", "example.com/q/string"}[c.Intn(3)]
		switch c.Intn(4) {
		case 0:
			fd.Options.GoPackage = proto.String(gp + ";" + gp[strings.LastIndex(gp, "/")+1:] + "pb")
		case 1:
			fd.Options.GoPackage = proto.String(gp + ";" + gp[strings.LastIndex(gp, "/")+1:] + "pb")
		default:
			fd.Options.GoPackage = proto.String(gp)
		}
		if c.Intn(8) == 0 {
			fd.Options.Deprecated = proto.Bool(true)
		}
		fc.fd = fd
		avail := &genAvail{}
		for j, prev := range fcs {
			if c.Intn(2) == 0 {
				fd.Dependency = append(fd.Dependency, prev.fd.GetName())
				if c.Intn(4) == 0 {
					fd.PublicDependency = append(fd.PublicDependency, int32(len(fd.Dependency)-1))
				}
				avail.msgs = append(avail.msgs, prev.msgs...)
				if prev.syntax == "proto2" {
					avail.otherEnums = append(avail.otherEnums, prev.enums...)
				}
				_ = j
			}
		}
		if fc.syntax == "editions" && c.Intn(3) == 0 {
			level := []gofeaturespb.GoFeatures_APILevel{gofeaturespb.GoFeatures_API_OPEN, gofeaturespb.GoFeatures_API_HYBRID, gofeaturespb.GoFeatures_API_OPAQUE}[c.Intn(3)]
			fd.Options.Features = &descriptorpb.FeatureSet{}
			proto.SetExtension(fd.Options.Features, gofeaturespb.E_Go, &gofeaturespb.GoFeatures{ApiLevel: level.Enum()})
			fd.Dependency = append(fd.Dependency, "google/protobuf/go_features.proto")
			goFeatures = true
		}
		scope := "." + fd.GetPackage()
		top := map[string]bool{}
		for k, n := 0, c.Intn(3); k < n; k++ {
			name := fmt.Sprintf("%s%d", []string{"Color", "E", "Status"}[c.Intn(3)], k)
			fd.EnumType = append(fd.EnumType, genEnum(c, fc, scope, name, top, []int32{5, int32(k)}))
		}
		for k, n := 0, 1+c.Intn(4); k < n; k++ {
			name := fmt.Sprintf("%s%d", []string{"Msg", "M", "Request", "Foo_Bar", "foo"}[c.Intn(5)], k)
			fd.MessageType = append(fd.MessageType, genMessage(c, fc, scope, name, 0, avail, []int32{4, int32(k)}))
		}
		// extensions of messages with an extension range (declared in this file or an imported one)
		var extable []string
		extable = append(extable, fc.extable...)
		for _, prev := range fcs {
			for _, d := range fd.Dependency {
				if d == prev.fd.GetName() {
					extable = append(extable, prev.extable...)
				}
			}
		}
		if fc.syntax != "proto3" && len(extable) > 0 {
			for k, n := 0, c.Intn(3); k < n; k++ {
				x := &descriptorpb.FieldDescriptorProto{
					Name:     proto.String(fmt.Sprintf("ext_%d_%d", i, k)),
					Number:   proto.Int32(int32(100 + 10*i + k)),
					Label:    descriptorpb.FieldDescriptorProto_LABEL_OPTIONAL.Enum(),
					Type:     genScalarTypes[c.Intn(len(genScalarTypes))].Enum(),
					Extendee: proto.String(extable[c.Intn(len(extable))]),
				}
				if c.Intn(3) == 0 {
					x.Label = descriptorpb.FieldDescriptorProto_LABEL_REPEATED.Enum()
				}
				fd.Extension = append(fd.Extension, x)
			}
		}
		if c.Intn(4) == 0 && len(fc.msgs) > 0 {
			fd.Service = []*descriptorpb.ServiceDescriptorProto{{Name: proto.String("Svc"), Method: []*descriptorpb.MethodDescriptorProto{
				{Name: proto.String("Call"), InputType: proto.String(fc.msgs[0]), OutputType: proto.String(fc.msgs[len(fc.msgs)-1])}}}}
		}
		if len(fc.locs) > 0 {
			fd.SourceCodeInfo = &descriptorpb.SourceCodeInfo{Location: fc.locs}
		}
		fcs = append(fcs, fc)
		files = append(files, fd)
	}
	// custom options with map-typed payloads on the last file (and sometimes on every
	// file), declared in that file or in an extra imported one
	withOptions := c.Intn(2) == 0
	if withOptions {
		last := fcs[len(fcs)-1]
		users := []*genFileCtx{last}
		if c.Intn(3) == 0 {
			users = fcs
		}
		if c.Bool() && len(users) == 1 {
			genOptDeclare(last.fd) // same file
		} else {
			decl := &descriptorpb.FileDescriptorProto{Name: proto.String("r/xopts.proto"), Package: proto.String("rp.xopts"),
				Options: &descriptorpb.FileOptions{GoPackage: proto.String("example.com/r/xopts")}}
			if c.Bool() {
				decl.Syntax = proto.String("proto3")
			}
			genOptDeclare(decl)
			for _, u := range users {
				u.fd.Dependency = append(u.fd.Dependency, "r/xopts.proto")
			}
			files = append([]*descriptorpb.FileDescriptorProto{decl}, files...)
		}
		for _, u := range users {
			genOptApply(c, u.fd, false)
		}
		files = genMergeFiles(genDescriptorClosure(), files)
	}
	if goFeatures {
		var dep []*descriptorpb.FileDescriptorProto
		genClosure(gofeaturespb.File_google_protobuf_go_features_proto, map[string]bool{}, &dep)
		files = genMergeFiles(dep, files)
	}
	// a request is only meaningful when the files link (the generator is never run on
	// anything protoc rejects)
	for i := range files {
		if _, err := protodesc.NewFiles(&descriptorpb.FileDescriptorSet{File: files[:i+1]}); err != nil {
			c.Stat("gen_random_invalid")
			if c.Intn(10) == 0 {
				c.Sample("invalid random schema: " + strings.ReplaceAll(err.Error(), "\n", " "))
			}
			return nil
		}
	}
	var toGen []string
	for _, fc := range fcs {
		if c.Intn(3) > 0 {
			toGen = append(toGen, fc.fd.GetName())
		}
	}
	if len(toGen) == 0 {
		toGen = []string{fcs[len(fcs)-1].fd.GetName()}
	}
	c.Stat("gen_random")
	if withOptions {
		// the file that carries the options is always generated
		lastName, has := fcs[len(fcs)-1].fd.GetName(), false
		for _, t := range toGen {
			has = has || t == lastName
		}
		if !has {
			toGen = append(toGen, lastName)
		}
		c.Stat("gen_random_with_options")
		r := genMakeReq(c, "random+options", files, toGen, genParam(c, files[len(files)-len(fcs):], toGen))
		r.reps = true
		return r
	}
	return genMakeReq(c, "random", files, toGen, genParam(c, files[len(files)-len(fcs):], toGen))
}
