//go:build verif

// Command h is the implementation side of the correspondence checks.
// It is compiled inside the module under test through `go build -overlay`
// (see /verif/bin/lib.py); nothing is written to the repository.
//
// Usage: h <family> -seed S -n N -out FILE [-tier quick|thorough] [-replay LINE]
//
// Output lines (tab separated):
//
//	C <fam> <op> <in...> | <obs...>   one implementation observation (compared with the Coq model)
//	P <property> <what> <in...>       the property's own predicate failed on the implementation
//	K <finding-id> <property> <what>  a failing input recognised as a listed known finding
//	S <key> <count>                   input-distribution / branch counters
package main

import (
	"bufio"
	"encoding/hex"
	"flag"
	"fmt"
	"os"
	"sort"
	"strconv"
	"strings"
)

type Ctx struct {
	Seed  uint64
	N     int
	Tier  string
	rng   uint64
	w     *bufio.Writer
	stats map[string]int
	Cases int
	Fails int
}

// splitmix64: every random choice derives from VERIF_SEED.
func (c *Ctx) U64() uint64 {
	c.rng += 0x9e3779b97f4a7c15
	z := c.rng
	z = (z ^ (z >> 30)) * 0xbf58476d1ce4e5b9
	z = (z ^ (z >> 27)) * 0x94d049bb133111eb
	return z ^ (z >> 31)
}
func (c *Ctx) Intn(n int) int {
	if n <= 0 {
		return 0
	}
	return int(c.U64() % uint64(n))
}
func (c *Ctx) Bool() bool { return c.U64()&1 == 1 }
func (c *Ctx) Bytes(n int) []byte {
	b := make([]byte, n)
	for i := range b {
		b[i] = byte(c.U64())
	}
	return b
}

// Fork returns an independent stream (for goroutines / sub-generators).
func (c *Ctx) Fork() *Ctx {
	return &Ctx{Seed: c.Seed, N: c.N, Tier: c.Tier, rng: c.U64(), w: c.w, stats: c.stats}
}

func (c *Ctx) Case(fam, op string, ins []string, obs []string) {
	c.Cases++
	fmt.Fprintf(c.w, "C\t%s\t%s\t%s\t|\t%s\n", fam, op, strings.Join(ins, "\t"), strings.Join(obs, "\t"))
}
func (c *Ctx) PropFail(prop, what string, ins ...string) {
	c.Fails++
	fmt.Fprintf(c.w, "P\t%s\t%s\t%s\n", prop, what, strings.Join(ins, "\t"))
}
func (c *Ctx) Known(id, prop, what string) {
	fmt.Fprintf(c.w, "K\t%s\t%s\t%s\n", id, prop, what)
}
func (c *Ctx) Stat(key string)          { c.stats[key]++ }
func (c *Ctx) StatN(key string, n int)  { c.stats[key] += n }
func (c *Ctx) Sample(s string)          { fmt.Fprintf(c.w, "X\t%s\n", s) }

// token helpers (must agree with ocaml/util.ml)
func HexN(v uint64) string { return strconv.FormatUint(v, 16) }
func HexZ(v int64) string {
	if v < 0 {
		return "-" + strconv.FormatUint(uint64(-(v+1))+1, 16)
	}
	return strconv.FormatUint(uint64(v), 16)
}
func HexB(b []byte) string { return "x" + hex.EncodeToString(b) }
func Tok(b bool) string {
	if b {
		return "1"
	}
	return "0"
}
func ParseHexB(s string) []byte {
	b, err := hex.DecodeString(strings.TrimPrefix(s, "x"))
	if err != nil {
		panic(err)
	}
	return b
}

var families = map[string]func(*Ctx){}

func Register(name string, f func(*Ctx)) { families[name] = f }

func main() {
	if len(os.Args) < 2 {
		fmt.Fprintln(os.Stderr, "usage: h <family> [flags]")
		os.Exit(2)
	}
	fam := os.Args[1]
	fs := flag.NewFlagSet("h", flag.ExitOnError)
	seed := fs.Uint64("seed", 1, "PRNG seed")
	n := fs.Int("n", 1000, "number of generated cases (family specific unit)")
	out := fs.String("out", "-", "output file")
	tier := fs.String("tier", "quick", "quick|thorough")
	fs.Parse(os.Args[2:])
	f, ok := families[fam]
	if !ok {
		var names []string
		for k := range families {
			names = append(names, k)
		}
		sort.Strings(names)
		fmt.Fprintf(os.Stderr, "unknown family %q; have %v\n", fam, names)
		os.Exit(2)
	}
	var w *bufio.Writer
	if *out == "-" {
		w = bufio.NewWriterSize(os.Stdout, 1<<20)
	} else {
		fh, err := os.Create(*out)
		if err != nil {
			panic(err)
		}
		defer fh.Close()
		w = bufio.NewWriterSize(fh, 1<<20)
	}
	ctx := &Ctx{Seed: *seed, N: *n, Tier: *tier, rng: *seed * 0x2545F4914F6CDD1D, w: w, stats: map[string]int{}}
	f(ctx)
	var keys []string
	for k := range ctx.stats {
		keys = append(keys, k)
	}
	sort.Strings(keys)
	for _, k := range keys {
		fmt.Fprintf(w, "S\t%s\t%d\n", k, ctx.stats[k])
	}
	fmt.Fprintf(w, "S\t_cases\t%d\nS\t_propfails\t%d\n", ctx.Cases, ctx.Fails)
	w.Flush()
}
