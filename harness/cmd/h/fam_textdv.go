//go:build verif

package main

import (
	"bytes"
	"fmt"
	"math"
	"strconv"
	"unicode/utf8"

	"google.golang.org/protobuf/encoding/prototext"
	"google.golang.org/protobuf/internal/encoding/defval"
	"google.golang.org/protobuf/internal/encoding/text"
	testpb "google.golang.org/protobuf/internal/testprotos/test"
	"google.golang.org/protobuf/proto"
	"google.golang.org/protobuf/reflect/protodesc"
	"google.golang.org/protobuf/reflect/protoreflect"
	"google.golang.org/protobuf/types/descriptorpb"
)

// family "textdv": C39, textual default values (internal/encoding/defval and
// its use by reflect/protodesc), plus the float32 text round trip (C24's
// float part, F7's two call sites).
// Ops:
//   defval  <kind> <fmt> <value> <evname|-> <evs...>  | ok <marshalled> <unmarshal result> / merr
//   defun   <kind> <fmt> <string> <evs...>            | ok <value> [evname] / err
//   defvalf <kind> <fmt> <bits> <formatted> <p64cls> <p64bits> <p32cls> <p32bits> | as defval (float arm, strconv answers supplied)
//   defunf  <kind> <fmt> <string> <p64cls> <p64bits> <p32cls> <p32bits>           | as defun

func init() { Register("textdv", famTextDv) }

const textdvFam = "textdv"

type textdvEnum struct {
	ed   protoreflect.EnumDescriptor
	toks []string // name, number, ...
}

var textdvNums = []int32{0, 1, -1, 2, 7, 100, math.MaxInt32, math.MinInt32, math.MaxInt32 - 1, math.MinInt32 + 1, 1 << 16, -(1 << 16)}

// textdvGenEnum builds a closed (proto2) enum with random names/numbers,
// possibly with aliases, through protodesc.NewFile.
func textdvGenEnum(c *Ctx, idx int) textdvEnum {
	n := 1 + c.Intn(6)
	ed := &descriptorpb.EnumDescriptorProto{Name: proto.String("E")}
	seenNum := map[int32]bool{}
	alias := false
	for i := 0; i < n; i++ {
		var num int32
		switch c.Intn(3) {
		case 0:
			num = textdvNums[c.Intn(len(textdvNums))]
		case 1:
			num = int32(c.Intn(5))
		default:
			num = int32(c.U64())
		}
		if seenNum[num] {
			alias = true
		}
		seenNum[num] = true
		name := fmt.Sprintf("%c%d", "VWXv_"[c.Intn(5)], i)
		if c.Intn(4) == 0 {
			name = []string{"inf", "nan", "true", "false", "T", "x1"}[c.Intn(6)] + fmt.Sprint(i)
		}
		ed.Value = append(ed.Value, &descriptorpb.EnumValueDescriptorProto{Name: proto.String(name), Number: proto.Int32(num)})
	}
	if alias {
		ed.Options = &descriptorpb.EnumOptions{AllowAlias: proto.Bool(true)}
	}
	fdp := &descriptorpb.FileDescriptorProto{
		Name: proto.String(fmt.Sprintf("verif/textdv_enum%d.proto", idx)), Package: proto.String(fmt.Sprintf("verif.textdv%d", idx)),
		Syntax: proto.String("proto2"), EnumType: []*descriptorpb.EnumDescriptorProto{ed},
	}
	fd, err := protodesc.NewFile(fdp, nil)
	if err != nil {
		// not expected; fall back to a fixed enum rather than abort the run
		c.Stat("enum.rejected")
		ed.Options = nil
		ed.Value = []*descriptorpb.EnumValueDescriptorProto{
			{Name: proto.String("A"), Number: proto.Int32(0)}, {Name: proto.String("B"), Number: proto.Int32(-1)}}
		if fd, err = protodesc.NewFile(fdp, nil); err != nil {
			panic(fmt.Sprintf("textdv: enum construction failed: %v", err))
		}
	}
	e := textdvEnum{ed: fd.Enums().Get(0)}
	vs := e.ed.Values()
	for i := 0; i < vs.Len(); i++ {
		e.toks = append(e.toks, HexB([]byte(vs.Get(i).Name())), HexZ(int64(vs.Get(i).Number())))
	}
	return e
}

func textdvValTok(k protoreflect.Kind, v protoreflect.Value) string {
	switch k {
	case protoreflect.BoolKind:
		return Tok(v.Bool())
	case protoreflect.EnumKind:
		return HexZ(int64(v.Enum()))
	case protoreflect.Int32Kind, protoreflect.Sint32Kind, protoreflect.Sfixed32Kind, protoreflect.Int64Kind, protoreflect.Sint64Kind, protoreflect.Sfixed64Kind:
		return HexZ(v.Int())
	case protoreflect.Uint32Kind, protoreflect.Fixed32Kind, protoreflect.Uint64Kind, protoreflect.Fixed64Kind:
		return HexN(v.Uint())
	case protoreflect.FloatKind:
		return HexN(uint64(math.Float32bits(float32(v.Float()))))
	case protoreflect.DoubleKind:
		return HexN(math.Float64bits(v.Float()))
	case protoreflect.StringKind:
		return HexB([]byte(v.String()))
	case protoreflect.BytesKind:
		return HexB(v.Bytes())
	}
	return "?"
}

// textdvEqual: equality of default values, all NaNs equal.
func textdvEqual(k protoreflect.Kind, a, b protoreflect.Value) bool {
	switch k {
	case protoreflect.FloatKind:
		x, y := float32(a.Float()), float32(b.Float())
		if x != x || y != y {
			return x != x && y != y
		}
		return math.Float32bits(x) == math.Float32bits(y)
	case protoreflect.DoubleKind:
		x, y := a.Float(), b.Float()
		if x != x || y != y {
			return x != x && y != y
		}
		return math.Float64bits(x) == math.Float64bits(y)
	case protoreflect.BytesKind:
		return bytes.Equal(a.Bytes(), b.Bytes())
	}
	return a.Interface() == b.Interface()
}

func textdvUnObs(k protoreflect.Kind, v protoreflect.Value, ev protoreflect.EnumValueDescriptor, err error) []string {
	if err != nil {
		return []string{"err"}
	}
	obs := []string{"ok", textdvValTok(k, v)}
	if ev != nil {
		obs = append(obs, HexB([]byte(ev.Name())))
	}
	return obs
}

func textdvParseTok(s string, bits int) (string, string) {
	v, err := strconv.ParseFloat(s, bits)
	b := math.Float64bits(v)
	if bits == 32 {
		b = uint64(math.Float32bits(float32(v)))
	}
	if err == nil {
		return "ok", HexN(b)
	}
	if ne, ok := err.(*strconv.NumError); ok && ne.Err == strconv.ErrRange {
		return "range", HexN(b)
	}
	return "syntax", "0"
}

var textdvFormats = []defval.Format{defval.Descriptor, defval.GoTag}

// textdvRoundTrip: Marshal then Unmarshal in both formats; C lines for the
// model, P lines when the value does not come back.
func textdvRoundTrip(c *Ctx, k protoreflect.Kind, v protoreflect.Value, en *textdvEnum, ev protoreflect.EnumValueDescriptor) {
	for _, f := range textdvFormats {
		var evs protoreflect.EnumValueDescriptors
		var evToks []string
		evName := "-"
		if en != nil {
			evs = en.ed.Values()
			evToks = en.toks
			evName = HexB([]byte(ev.Name()))
		}
		s, err := defval.Marshal(v, ev, k, f)
		isFloat := k == protoreflect.FloatKind || k == protoreflect.DoubleKind
		if err != nil {
			c.PropFail("C39", "defval.Marshal failed", fmt.Sprint(int(k)), fmt.Sprint(int(f)), textdvValTok(k, v))
			c.Case(textdvFam, "defval", append([]string{fmt.Sprint(int(k)), fmt.Sprint(int(f)), textdvValTok(k, v), evName}, evToks...), []string{"merr"})
			continue
		}
		v2, ev2, err2 := defval.Unmarshal(s, k, evs, f)
		obs := append([]string{"ok", HexB([]byte(s))}, textdvUnObs(k, v2, ev2, err2)...)
		if isFloat {
			c64, b64 := textdvParseTok(s, 64)
			c32, b32 := textdvParseTok(s, 32)
			c.Case(textdvFam, "defvalf", []string{fmt.Sprint(int(k)), fmt.Sprint(int(f)), textdvValTok(k, v), HexB([]byte(s)), c64, b64, c32, b32}, obs)
		} else {
			c.Case(textdvFam, "defval", append([]string{fmt.Sprint(int(k)), fmt.Sprint(int(f)), textdvValTok(k, v), evName}, evToks...), obs)
		}
		c.Stat("defval.kind" + fmt.Sprint(int(k)))
		if err2 != nil || !textdvEqual(k, v, v2) {
			c.PropFail("C39", "defval.Unmarshal(Marshal(v)) != v", fmt.Sprint(int(k)), fmt.Sprint(int(f)), textdvValTok(k, v), HexB([]byte(s)))
			continue
		}
		if en != nil {
			// Descriptor format names the value: the same descriptor comes back;
			// GoTag gives the first value with that number.
			want := ev
			if f == defval.GoTag {
				want = evs.ByNumber(ev.Number())
			}
			if ev2 != want {
				c.PropFail("C39", "defval enum value descriptor not preserved", fmt.Sprint(int(f)), HexB([]byte(s)))
			}
		}
	}
}

// textdvUnmarshal: arbitrary strings (malformed stream).
func textdvUnmarshal(c *Ctx, k protoreflect.Kind, s string, en *textdvEnum) {
	for _, f := range textdvFormats {
		var evs protoreflect.EnumValueDescriptors
		var evToks []string
		if en != nil {
			evs = en.ed.Values()
			evToks = en.toks
		}
		var obs []string
		func() {
			defer func() {
				if r := recover(); r != nil {
					obs = []string{"panic"}
					c.PropFail("C39", "defval.Unmarshal panicked", fmt.Sprint(int(k)), HexB([]byte(s)))
				}
			}()
			v, ev, err := defval.Unmarshal(s, k, evs, f)
			obs = textdvUnObs(k, v, ev, err)
		}()
		c.Stat("defun." + obs[0])
		if k == protoreflect.FloatKind || k == protoreflect.DoubleKind {
			c64, b64 := textdvParseTok(s, 64)
			c32, b32 := textdvParseTok(s, 32)
			c.Case(textdvFam, "defunf", []string{fmt.Sprint(int(k)), fmt.Sprint(int(f)), HexB([]byte(s)), c64, b64, c32, b32}, obs)
		} else {
			c.Case(textdvFam, "defun", append([]string{fmt.Sprint(int(k)), fmt.Sprint(int(f)), HexB([]byte(s))}, evToks...), obs)
		}
	}
}

// textdvFloat32: one float32 bit pattern through defval (both formats) and
// through prototext; P lines only (the hot loop of the sweep).
func textdvFloat32(c *Ctx, bits uint32, m *testpb.TestAllTypes, m2 *testpb.TestAllTypes) {
	f := math.Float32frombits(bits)
	v := protoreflect.ValueOfFloat32(f)
	for _, fm := range textdvFormats {
		s, err := defval.Marshal(v, nil, protoreflect.FloatKind, fm)
		var v2 protoreflect.Value
		if err == nil {
			v2, _, err = defval.Unmarshal(s, protoreflect.FloatKind, nil, fm)
		}
		if err != nil || !textdvEqual(protoreflect.FloatKind, v, v2) {
			c.PropFail("C39", "float32 default does not round trip", HexN(uint64(bits)), HexB([]byte(s)))
		}
	}
	m.OptionalFloat = &f
	out, err := prototext.MarshalOptions{}.Marshal(m)
	if err == nil {
		m2.OptionalFloat = nil
		err = prototext.Unmarshal(out, m2)
	}
	if err != nil || m2.OptionalFloat == nil || !textdvEqual(protoreflect.FloatKind, v, protoreflect.ValueOfFloat32(*m2.OptionalFloat)) {
		c.PropFail("C24", "float32 field does not round trip through prototext", HexN(uint64(bits)), HexB(out))
	}
}

// textdvFloat32Fast: the hot loop of the sweep: defval (Descriptor format) and
// exactly the text.Encoder / text.Decoder calls that prototext makes for a
// float field (Encoder.WriteFloat(v, 32), Token.Float32()).
func textdvFloat32Fast(c *Ctx, bits uint32, buf []byte) {
	f := math.Float32frombits(bits)
	v := protoreflect.ValueOfFloat32(f)
	s, err := defval.Marshal(v, nil, protoreflect.FloatKind, defval.Descriptor)
	var v2 protoreflect.Value
	if err == nil {
		v2, _, err = defval.Unmarshal(s, protoreflect.FloatKind, nil, defval.Descriptor)
	}
	if err != nil || !textdvEqual(protoreflect.FloatKind, v, v2) {
		c.PropFail("C39", "float32 default does not round trip", HexN(uint64(bits)), HexB([]byte(s)))
	}
	enc, err := text.NewEncoder(buf[:0], "", [2]byte{}, false)
	if err != nil {
		panic(err)
	}
	enc.WriteName("f")
	enc.WriteFloat(float64(f), 32)
	out := enc.Bytes()
	d := text.NewDecoder(out)
	if _, err := d.Read(); err != nil {
		c.PropFail("C24", "float32 text: name token", HexN(uint64(bits)), HexB(out))
		return
	}
	tok, err := d.Read()
	var got float32
	ok := false
	if err == nil {
		got, ok = tok.Float32()
	}
	if !ok || !textdvEqual(protoreflect.FloatKind, v, protoreflect.ValueOfFloat32(got)) {
		c.PropFail("C24", "float32 does not round trip through the text encoder/decoder", HexN(uint64(bits)), HexB(out))
	}
}

func textdvFloat64(c *Ctx, bits uint64) {
	f := math.Float64frombits(bits)
	v := protoreflect.ValueOfFloat64(f)
	textdvRoundTrip(c, protoreflect.DoubleKind, v, nil, nil)
	m := &testpb.TestAllTypes{OptionalDouble: &f}
	out, err := prototext.MarshalOptions{}.Marshal(m)
	var m2 testpb.TestAllTypes
	if err == nil {
		err = prototext.Unmarshal(out, &m2)
	}
	if err != nil || m2.OptionalDouble == nil || !textdvEqual(protoreflect.DoubleKind, v, protoreflect.ValueOfFloat64(*m2.OptionalDouble)) {
		c.PropFail("C24", "double field does not round trip through prototext", HexN(bits), HexB(out))
	}
}

// textdvDescriptor: defaults survive NewFile -> ToFileDescriptorProto -> NewFile.
func textdvDescriptor(c *Ctx, idx int, defs []struct {
	k protoreflect.Kind
	v protoreflect.Value
}) {
	msg := &descriptorpb.DescriptorProto{Name: proto.String("M")}
	var kept []int
	for i, d := range defs {
		s, err := defval.Marshal(d.v, nil, d.k, defval.Descriptor)
		if err != nil {
			continue
		}
		if d.k == protoreflect.StringKind && !utf8.ValidString(s) {
			continue // default_value is a proto string field
		}
		msg.Field = append(msg.Field, &descriptorpb.FieldDescriptorProto{
			Name: proto.String(fmt.Sprintf("f%d", i)), Number: proto.Int32(int32(i + 1)),
			Label: descriptorpb.FieldDescriptorProto_LABEL_OPTIONAL.Enum(),
			Type:  descriptorpb.FieldDescriptorProto_Type(d.k).Enum(), DefaultValue: proto.String(s),
		})
		kept = append(kept, i)
	}
	fdp := &descriptorpb.FileDescriptorProto{
		Name: proto.String(fmt.Sprintf("verif/textdv_msg%d.proto", idx)), Package: proto.String(fmt.Sprintf("verif.textdvm%d", idx)),
		Syntax: proto.String("proto2"), MessageType: []*descriptorpb.DescriptorProto{msg},
	}
	fd, err := protodesc.NewFile(fdp, nil)
	if err != nil {
		c.PropFail("C39", "NewFile rejects marshalled defaults", err.Error())
		return
	}
	fdp2 := protodesc.ToFileDescriptorProto(fd)
	fd2, err := protodesc.NewFile(fdp2, nil)
	if err != nil {
		c.PropFail("C39", "NewFile rejects ToFileDescriptorProto output", err.Error())
		return
	}
	for j, i := range kept {
		d := defs[i]
		f1 := fd.Messages().Get(0).Fields().Get(j)
		f2 := fd2.Messages().Get(0).Fields().Get(j)
		if !f1.HasDefault() || !f2.HasDefault() || !textdvEqual(d.k, d.v, f1.Default()) || !textdvEqual(d.k, d.v, f2.Default()) ||
			fdp2.MessageType[0].Field[j].GetDefaultValue() != msg.Field[j].GetDefaultValue() {
			c.PropFail("C39", "default does not survive NewFile/ToFileDescriptorProto", fmt.Sprint(int(d.k)), textdvValTok(d.k, d.v),
				HexB([]byte(msg.Field[j].GetDefaultValue())), HexB([]byte(fdp2.MessageType[0].Field[j].GetDefaultValue())))
		}
		c.Stat("descriptor.field")
	}
}

var textdvIntKinds = []protoreflect.Kind{protoreflect.Int32Kind, protoreflect.Sint32Kind, protoreflect.Sfixed32Kind,
	protoreflect.Int64Kind, protoreflect.Sint64Kind, protoreflect.Sfixed64Kind,
	protoreflect.Uint32Kind, protoreflect.Fixed32Kind, protoreflect.Uint64Kind, protoreflect.Fixed64Kind}

func textdvIntValue(k protoreflect.Kind, x uint64) protoreflect.Value {
	switch k {
	case protoreflect.Int32Kind, protoreflect.Sint32Kind, protoreflect.Sfixed32Kind:
		return protoreflect.ValueOfInt32(int32(x))
	case protoreflect.Int64Kind, protoreflect.Sint64Kind, protoreflect.Sfixed64Kind:
		return protoreflect.ValueOfInt64(int64(x))
	case protoreflect.Uint32Kind, protoreflect.Fixed32Kind:
		return protoreflect.ValueOfUint32(uint32(x))
	}
	return protoreflect.ValueOfUint64(x)
}

var textdvStrings = []string{
	"", "0", "1", "-0", "+0", "+1", "-1", "00", "01", "true", "false", "True", "t", "TRUE", "1 ", " 1", "1_0", "0x10", "1e3", "1.0",
	"2147483647", "2147483648", "-2147483648", "-2147483649", "4294967295", "4294967296", "+2147483647",
	"9223372036854775807", "9223372036854775808", "-9223372036854775808", "-9223372036854775809",
	"18446744073709551615", "18446744073709551616", "-", "+", "--1", "1-", "99999999999999999999999999",
	"inf", "-inf", "nan", "+inf", "Inf", "infinity", "-infinity", "NaN", "-nan", "1e39", "-1e39", "1e309", "-1e309", "1e-50", "1e-400",
	"3.4028235e+38", "3.4028236e+38", "7.038531e-26", "-7.038531e-26", "0x1p-2", "1_0.5", ".5", "5.", ".", "e5", "1e", "1e+",
	`abc`, `a"b`, `a\"b`, `\`, `\x`, `\xff`, `\377`, `\400`, `\0`, "\xc3\xa9", `\ud800`, `\U0010ffff`, `\U00110000`, "a\nb", "a\x00b", "\xff", `\'`, `'`, `\?`, `\z`, `"`, `""`, `a" "b`,
}

func famTextDv(c *Ctx) {
	// 1. corpus
	for _, b := range []bool{false, true} {
		textdvRoundTrip(c, protoreflect.BoolKind, protoreflect.ValueOfBool(b), nil, nil)
	}
	for _, k := range textdvIntKinds {
		for _, x := range []uint64{0, 1, 9, 10, 127, 1<<31 - 1, 1 << 31, 1<<32 - 1, 1 << 32, 1<<63 - 1, 1 << 63, ^uint64(0), 1<<63 + 1, ^uint64(0) - 9} {
			textdvRoundTrip(c, k, textdvIntValue(k, x), nil, nil)
		}
	}
	for _, bits := range []uint32{0, 0x80000000, 1, 0x80000001, 0x007fffff, 0x00800000, 0x3f800000, 0x7f7fffff, 0xff7fffff, 0x7f800000, 0xff800000,
		0x7fc00000, 0xffc00000, 0x7f800001, 0xffffffff, 0x15ae43fd, 0x95ae43fd, 0x15ae43fe, 0x4b800000, 0x49742400, 0x358637bd, 0x38d1b717} {
		textdvRoundTrip(c, protoreflect.FloatKind, protoreflect.ValueOfFloat32(math.Float32frombits(bits)), nil, nil)
		textdvFloat32(c, bits, &testpb.TestAllTypes{}, &testpb.TestAllTypes{})
	}
	for _, bits := range []uint64{0, 1 << 63, 1, 0x000fffffffffffff, 0x0010000000000000, 0x3ff0000000000000, 0x7fefffffffffffff, 0xffefffffffffffff,
		0x7ff0000000000000, 0xfff0000000000000, 0x7ff8000000000001, 0x7ff0000000000001, 0xffffffffffffffff, 0x3ac5c87fa0000000, 0x4415af1d78b58c40, 0x3eb0c6f7a0b5ed8d} {
		textdvFloat64(c, bits)
	}
	for _, s := range textStrCorpus {
		textdvRoundTrip(c, protoreflect.BytesKind, protoreflect.ValueOfBytes([]byte(s)), nil, nil)
		textdvRoundTrip(c, protoreflect.StringKind, protoreflect.ValueOfString(s), nil, nil)
	}
	for i := 0; i < 256; i++ {
		textdvRoundTrip(c, protoreflect.BytesKind, protoreflect.ValueOfBytes([]byte{byte(i)}), nil, nil)
		textdvRoundTrip(c, protoreflect.BytesKind, protoreflect.ValueOfBytes([]byte{byte(i), '7'}), nil, nil)
		textdvUnmarshal(c, protoreflect.BytesKind, string([]byte{'\\', byte(i)}), nil)
		textdvUnmarshal(c, protoreflect.BytesKind, string([]byte{byte(i)}), nil)
	}
	en0 := textdvGenEnum(c, 0)
	allKinds := []protoreflect.Kind{protoreflect.BoolKind, protoreflect.EnumKind, protoreflect.Int32Kind, protoreflect.Int64Kind, protoreflect.Uint32Kind,
		protoreflect.Uint64Kind, protoreflect.FloatKind, protoreflect.DoubleKind, protoreflect.StringKind, protoreflect.BytesKind, protoreflect.Sint32Kind,
		protoreflect.Sfixed64Kind, protoreflect.Fixed32Kind, protoreflect.Fixed64Kind, protoreflect.MessageKind, protoreflect.GroupKind}
	for _, s := range textdvStrings {
		for _, k := range allKinds {
			if k == protoreflect.EnumKind {
				textdvUnmarshal(c, k, s, &en0)
			} else {
				textdvUnmarshal(c, k, s, nil)
			}
		}
	}
	// 2. float32 sweep: exhaustive in the thorough tier (16 shards selected by
	// the seed), 10^6 random bit patterns (split over the shards) otherwise.
	// The sweep uses the light path (defval Descriptor format + the text
	// Encoder/Decoder calls prototext makes); every 4096th value and every
	// quick-tier value with i%8 == 0 also takes the full prototext path.
	{
		m, m2 := &testpb.TestAllTypes{}, &testpb.TestAllTypes{}
		buf := make([]byte, 0, 64)
		if c.Tier == "thorough" {
			shard := uint64(c.Seed % 16)
			for b := shard << 28; b < (shard+1)<<28; b++ {
				textdvFloat32Fast(c, uint32(b), buf)
				if b&4095 == 0 {
					textdvFloat32(c, uint32(b), m, m2)
				}
			}
			c.StatN("float32.sweep", 1<<28)
		} else {
			n := 250000
			for i := 0; i < n; i++ {
				b := uint32(c.U64())
				textdvFloat32Fast(c, b, buf)
				if i%8 == 0 {
					textdvFloat32(c, b, m, m2)
				}
			}
			c.StatN("float32.sweep", n)
		}
	}
	// 3. generated
	for i := 0; i < c.N; i++ {
		switch i % 8 {
		case 0:
			k := textdvIntKinds[c.Intn(len(textdvIntKinds))]
			textdvRoundTrip(c, k, textdvIntValue(k, gtextBits(c)), nil, nil)
		case 1:
			b := textGenBytes(c)
			textdvRoundTrip(c, protoreflect.BytesKind, protoreflect.ValueOfBytes(b), nil, nil)
			if i%16 == 1 {
				textdvRoundTrip(c, protoreflect.StringKind, protoreflect.ValueOfString(string(b)), nil, nil)
			}
		case 2:
			if i%64 == 2 || i < 8 {
				en0 = textdvGenEnum(c, i+1)
			}
			vs := en0.ed.Values()
			ev := vs.Get(c.Intn(vs.Len()))
			textdvRoundTrip(c, protoreflect.EnumKind, protoreflect.ValueOfEnum(ev.Number()), &en0, ev)
			// strings near the enum: names, numbers, junk
			var s string
			switch c.Intn(4) {
			case 0:
				s = string(ev.Name())
			case 1:
				s = strconv.Itoa(int(ev.Number()) + c.Intn(3) - 1)
			case 2:
				s = "+" + strconv.Itoa(int(ev.Number()))
			default:
				s = textdvStrings[c.Intn(len(textdvStrings))]
			}
			textdvUnmarshal(c, protoreflect.EnumKind, s, &en0)
		case 3:
			if c.Bool() {
				textdvRoundTrip(c, protoreflect.FloatKind, protoreflect.ValueOfFloat32(math.Float32frombits(uint32(c.U64()))), nil, nil)
			} else {
				textdvFloat64(c, c.U64())
			}
		case 4: // malformed / near-miss strings for the integer and float arms
			k := allKinds[c.Intn(len(allKinds))]
			if k == protoreflect.EnumKind {
				k = protoreflect.Int32Kind
			}
			var s string
			switch c.Intn(4) {
			case 0:
				s = string(textGenNumber(c))
			case 1:
				s = strconv.FormatUint(gtextBits(c), 10)
				if c.Bool() {
					s = "-" + s
				}
			case 2:
				s = strconv.FormatFloat(math.Float64frombits(c.U64()), 'g', -1, 64)
			default:
				s = textdvStrings[c.Intn(len(textdvStrings))]
			}
			textdvUnmarshal(c, k, s, nil)
		case 5: // bytes defaults written by hand: escape soups without the quotes
			lit := textGenLiteral(c)
			if len(lit) > 0 {
				lit = lit[1:]
			}
			textdvUnmarshal(c, protoreflect.BytesKind, string(lit), nil)
		case 6:
			if i%32 == 6 {
				var defs []struct {
					k protoreflect.Kind
					v protoreflect.Value
				}
				add := func(k protoreflect.Kind, v protoreflect.Value) {
					defs = append(defs, struct {
						k protoreflect.Kind
						v protoreflect.Value
					}{k, v})
				}
				for j := 0; j < 3; j++ {
					k := textdvIntKinds[c.Intn(len(textdvIntKinds))]
					add(k, textdvIntValue(k, gtextBits(c)))
				}
				add(protoreflect.BoolKind, protoreflect.ValueOfBool(c.Bool()))
				add(protoreflect.FloatKind, protoreflect.ValueOfFloat32(math.Float32frombits(uint32(c.U64()))))
				add(protoreflect.FloatKind, protoreflect.ValueOfFloat32(math.Float32frombits([]uint32{0x15ae43fd, 0x95ae43fd, 0x7f800000, 0xff800000, 0x7fc00000, 0x80000000}[c.Intn(6)])))
				add(protoreflect.DoubleKind, protoreflect.ValueOfFloat64(math.Float64frombits(c.U64())))
				add(protoreflect.BytesKind, protoreflect.ValueOfBytes(textGenBytes(c)))
				add(protoreflect.BytesKind, protoreflect.ValueOfBytes(c.Bytes(c.Intn(6))))
				add(protoreflect.StringKind, protoreflect.ValueOfString(string(textGenBytes(c))))
				textdvDescriptor(c, i, defs)
			} else {
				b := c.Bytes(1 + c.Intn(4))
				textdvRoundTrip(c, protoreflect.BytesKind, protoreflect.ValueOfBytes(b), nil, nil)
			}
		case 7:
			textdvRoundTrip(c, protoreflect.BoolKind, protoreflect.ValueOfBool(c.Bool()), nil, nil)
			textdvUnmarshal(c, protoreflect.BoolKind, textdvStrings[c.Intn(len(textdvStrings))], nil)
		}
	}
}
