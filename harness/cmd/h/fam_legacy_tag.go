//go:build verif

package main

// The struct-tag codec internal/encoding/tag against the Coq model Desc/TagModel.v.
//
//	tag   <kind> <number> <card> <packed> <name> <msgname> <json> <ext> <proto3> <enum> <oneof> <def|->  | <tag string>
//	untag <gokind> <dflag> <tag string> | <name> <number> <card> <kind> <hasjson> <json> <ispacked> <proto3> <hasdef|?> <def|->

import (
	"fmt"
	"reflect"
	"strconv"
	"strings"

	"google.golang.org/protobuf/internal/encoding/defval"
	ptag "google.golang.org/protobuf/internal/encoding/tag"
	"google.golang.org/protobuf/internal/filedesc"
	"google.golang.org/protobuf/internal/impl"
	"google.golang.org/protobuf/proto"
	"google.golang.org/protobuf/reflect/protodesc"
	"google.golang.org/protobuf/reflect/protoreflect"
	"google.golang.org/protobuf/reflect/protoregistry"
	"google.golang.org/protobuf/runtime/protoimpl"
	"google.golang.org/protobuf/types/descriptorpb"
)

type legacyAnyEnumValues struct {
	protoreflect.EnumValueDescriptors
}

func (legacyAnyEnumValues) ByNumber(n protoreflect.EnumNumber) protoreflect.EnumValueDescriptor {
	return filedesc.PlaceholderEnumValue(protoreflect.FullName(fmt.Sprintf("UNKNOWN_%d", n)))
}

var legacyGoKinds = []struct {
	name string
	t    reflect.Type
}{
	{"bool", reflect.TypeOf(false)}, {"int32", reflect.TypeOf(int32(0))}, {"int64", reflect.TypeOf(int64(0))},
	{"uint32", reflect.TypeOf(uint32(0))}, {"uint64", reflect.TypeOf(uint64(0))},
	{"float32", reflect.TypeOf(float32(0))}, {"float64", reflect.TypeOf(float64(0))},
	{"string", reflect.TypeOf("")}, {"bytes", reflect.TypeOf([]byte(nil))},
	{"other", reflect.TypeOf((*LegacyAbMessage)(nil))},
}

func legacyGoKindName(t reflect.Type) string {
	switch t.Kind() {
	case reflect.Bool:
		return "bool"
	case reflect.Int32:
		return "int32"
	case reflect.Int64:
		return "int64"
	case reflect.Uint32:
		return "uint32"
	case reflect.Uint64:
		return "uint64"
	case reflect.Float32:
		return "float32"
	case reflect.Float64:
		return "float64"
	case reflect.String:
		return "string"
	case reflect.Slice:
		if t.Elem().Kind() == reflect.Uint8 {
			return "bytes"
		}
	}
	return "other"
}

func legacyGoTypeOfKind(k protoreflect.Kind) reflect.Type {
	name := "other"
	switch k {
	case protoreflect.BoolKind:
		name = "bool"
	case protoreflect.Int32Kind, protoreflect.Sint32Kind, protoreflect.Sfixed32Kind, protoreflect.EnumKind:
		name = "int32"
	case protoreflect.Int64Kind, protoreflect.Sint64Kind, protoreflect.Sfixed64Kind:
		name = "int64"
	case protoreflect.Uint32Kind, protoreflect.Fixed32Kind:
		name = "uint32"
	case protoreflect.Uint64Kind, protoreflect.Fixed64Kind:
		name = "uint64"
	case protoreflect.FloatKind:
		name = "float32"
	case protoreflect.DoubleKind:
		name = "float64"
	case protoreflect.StringKind:
		name = "string"
	case protoreflect.BytesKind:
		name = "bytes"
	}
	for _, g := range legacyGoKinds {
		if g.name == name {
			return g.t
		}
	}
	panic("unreachable")
}

func legacyAscii(s string) bool {
	for i := 0; i < len(s); i++ {
		if s[i] < 0x20 || s[i] > 0x7e {
			return false
		}
	}
	return true
}

// tag op: Marshal of a real descriptor
func legacyOpTag(c *Ctx, fd protoreflect.FieldDescriptor, enumName string) string {
	var out string
	func() {
		defer func() {
			if r := recover(); r != nil {
				c.PropFail("C46", fmt.Sprintf("tag.Marshal panics: %v", r), string(fd.FullName()))
				out = ""
			}
		}()
		out = ptag.Marshal(fd, enumName)
	}()
	msgname := "-"
	if fd.Kind() == protoreflect.GroupKind && fd.Message() != nil {
		msgname = HexB([]byte(fd.Message().Name()))
	}
	def := "-"
	if fd.HasDefault() {
		d, _ := defval.Marshal(fd.Default(), fd.DefaultEnumValue(), fd.Kind(), defval.GoTag)
		def = HexB([]byte(d))
	}
	ins := []string{
		HexN(uint64(fd.Kind())), HexZ(int64(fd.Number())), HexN(uint64(fd.Cardinality())), Tok(fd.IsPacked()),
		HexB([]byte(fd.Name())), msgname, HexB([]byte(fd.JSONName())), Tok(fd.IsExtension()),
		Tok(fd.Syntax() == protoreflect.Proto3), HexB([]byte(enumName)), Tok(fd.ContainingOneof() != nil), def,
	}
	c.Case("legacy", "tag", ins, []string{HexB([]byte(out))})
	c.Stat("tag")
	return out
}

// untag op: Unmarshal of a tag string for a Go type
func legacyOpUntag(c *Ctx, tag string, goType reflect.Type, dflag bool) protoreflect.FieldDescriptor {
	var fd protoreflect.FieldDescriptor
	func() {
		defer func() {
			if r := recover(); r != nil {
				c.PropFail("C46", fmt.Sprintf("tag.Unmarshal panics: %v", r), HexB([]byte(tag)))
			}
		}()
		fd = ptag.Unmarshal(tag, goType, legacyAnyEnumValues{})
	}()
	if fd == nil {
		return nil
	}
	f := fd.(*filedesc.Field)
	if f.L1.Message == nil && (f.L1.Kind == protoreflect.GroupKind || f.L1.Kind == protoreflect.MessageKind) {
		// Unmarshal leaves Message unset ("This does not populate the Enum or Message"); its callers
		// fill it in before anything asks for the JSON name (which looks at the group's message)
		legacySetup()
		f.L1.Message = legacyGens[0].md
	}
	hasdef, def := "?", "-"
	if dflag {
		hasdef = Tok(fd.HasDefault())
		if fd.HasDefault() && fd.Kind() == protoreflect.StringKind {
			def = HexB([]byte(fd.Default().String()))
		}
	}
	obs := []string{
		HexB([]byte(f.L0.FullName)), HexZ(int64(fd.Number())), HexN(uint64(fd.Cardinality())), HexN(uint64(fd.Kind())),
		Tok(fd.HasJSONName()), HexB([]byte(fd.JSONName())), Tok(fd.IsPacked()), Tok(fd.Syntax() == protoreflect.Proto3),
		hasdef, def,
	}
	c.Case("legacy", "untag", []string{legacyGoKindName(goType), Tok(dflag), HexB([]byte(tag))}, obs)
	c.Stat("untag")
	return fd
}

// the round trip on a real descriptor: what tag.Unmarshal recovers from tag.Marshal
func legacyTagRoundTrip(c *Ctx, fd protoreflect.FieldDescriptor, enumName string) {
	tag := legacyOpTag(c, fd, enumName)
	if tag == "" || !legacyAscii(tag) {
		return
	}
	got := legacyOpUntag(c, tag, legacyGoTypeOfKind(fd.Kind()), true)
	if got == nil {
		return
	}
	var diffs []string
	name := fd.Name()
	if got.Name() != name {
		diffs = append(diffs, "name")
	}
	if got.Number() != fd.Number() {
		diffs = append(diffs, "number")
	}
	if got.Cardinality() != fd.Cardinality() {
		diffs = append(diffs, "cardinality")
	}
	if got.Kind() != fd.Kind() && !(fd.Kind() == protoreflect.EnumKind && enumName == "") {
		diffs = append(diffs, "kind")
	}
	if got.HasDefault() != fd.HasDefault() {
		diffs = append(diffs, "default")
	}
	if !fd.IsExtension() {
		if got.JSONName() != fd.JSONName() {
			// a json_name equal to the field name is not written ("suspect" per the source comment),
			// nor is one that equals the camel-cased group message name recovered: outside the codec's domain
			if !(fd.JSONName() == string(name) || (fd.Kind() == protoreflect.GroupKind)) {
				diffs = append(diffs, "json")
			} else {
				c.Stat("tag:json-outside-domain")
			}
		}
		if (got.Syntax() == protoreflect.Proto3) != (fd.Syntax() == protoreflect.Proto3) && fd.Syntax() != protoreflect.Editions {
			diffs = append(diffs, "syntax")
		}
		if got.IsPacked() != fd.IsPacked() {
			if fd.Syntax() == protoreflect.Proto3 && !fd.IsPacked() && got.IsPacked() {
				c.Known("FJ2", "C46", "proto3 repeated scalar with [packed=false] comes back packed from its tag")
			} else if fd.Syntax() != protoreflect.Editions {
				diffs = append(diffs, "packed")
			}
		}
	}
	if len(diffs) > 0 {
		c.PropFail("C46", "tag.Unmarshal(tag.Marshal(fd)) loses "+strings.Join(diffs, ","), string(fd.FullName()), tag)
	}
	c.Stat("tag:roundtrip")
}

func legacyEnumName(fd protoreflect.FieldDescriptor) string {
	if fd.Kind() == protoreflect.EnumKind && fd.Enum() != nil {
		return protoimpl.X.LegacyEnumName(fd.Enum())
	}
	return ""
}

// every field and extension of the legacy generations; the struct tags in the generated code
func legacyTagCorpus(c *Ctx) {
	for _, g := range legacyGens {
		var walkM func(md protoreflect.MessageDescriptor)
		walkM = func(md protoreflect.MessageDescriptor) {
			for i := 0; i < md.Fields().Len(); i++ {
				fd := md.Fields().Get(i)
				legacyTagRoundTrip(c, fd, legacyEnumName(fd))
			}
			for i := 0; i < md.Extensions().Len(); i++ {
				fd := md.Extensions().Get(i)
				legacyTagRoundTrip(c, fd, legacyEnumName(fd))
			}
			for i := 0; i < md.Messages().Len(); i++ {
				if !md.Messages().Get(i).IsMapEntry() {
					walkM(md.Messages().Get(i))
				}
			}
		}
		walkM(g.md)
		// the tags written by the historical generators, with the Go type of their struct field
		t := reflect.TypeOf(g.newMsg()).Elem()
		var wrappers []reflect.Type
		for _, w := range legacyWrappersOf(g.newMsg()) {
			wrappers = append(wrappers, reflect.TypeOf(w).Elem())
		}
		structs := append([]reflect.Type{t}, wrappers...)
		for _, st := range structs {
			for i := 0; i < st.NumField(); i++ {
				sf := st.Field(i)
				tag := sf.Tag.Get("protobuf")
				if tag == "" {
					continue
				}
				ft := sf.Type
				if (ft.Kind() == reflect.Ptr && ft.Elem().Kind() != reflect.Struct) || (ft.Kind() == reflect.Slice && ft.Elem().Kind() != reflect.Uint8) {
					ft = ft.Elem()
				}
				got := legacyOpUntag(c, tag, ft, true)
				c.Stat("untag:struct-tag")
				// what the historical generator wrote is what the current Marshal writes for the
				// same field (newest generation; the older ones differ in "json=", "proto3", "packed")
				if got != nil && (g.name == "proto2_20190205" || g.name == "proto3_20190205") && st == t {
					if fd := g.md.Fields().ByNumber(got.Number()); fd != nil {
						if now := ptag.Marshal(fd, legacyEnumName(fd)); now != tag {
							c.PropFail("C46", "tag.Marshal differs from the struct tag in the generated code", g.name, tag, now)
						}
						c.Stat("tag:matches-generated")
					}
				}
				for _, k := range []string{"protobuf_key", "protobuf_val"} {
					if kt := sf.Tag.Get(k); kt != "" && sf.Type.Kind() == reflect.Map {
						et := sf.Type.Key()
						if k == "protobuf_val" {
							et = sf.Type.Elem()
						}
						legacyOpUntag(c, kt, et, true)
					}
				}
			}
		}
	}
}

// ---------------------------------------------------------------- random descriptors

var legacyTagFileSeq int

func legacyIdent(c *Ctx) string {
	var sb strings.Builder
	n := 1 + c.Intn(8)
	for i := 0; i < n; i++ {
		switch k := c.Intn(10); {
		case i > 0 && k == 0:
			sb.WriteByte('_')
		case i > 0 && k == 1:
			sb.WriteByte(byte('0' + c.Intn(10)))
		case k == 2:
			sb.WriteByte(byte('A' + c.Intn(26)))
		default:
			sb.WriteByte(byte('a' + c.Intn(26)))
		}
	}
	return sb.String()
}

// a file with one message of random fields (plus an extension of it); protodesc validates it
func legacyRandomFile(c *Ctx) protoreflect.FileDescriptor {
	legacyTagFileSeq++
	proto3 := c.Intn(3) == 0
	fdp := &descriptorpb.FileDescriptorProto{
		Name:    proto.String(fmt.Sprintf("verif/tag_%d_%d.proto", c.Seed, legacyTagFileSeq)),
		Package: proto.String("verif.tagp"),
	}
	if proto3 {
		fdp.Syntax = proto.String("proto3")
	} else {
		fdp.Syntax = proto.String("proto2")
	}
	en := &descriptorpb.EnumDescriptorProto{Name: proto.String("E"), Value: []*descriptorpb.EnumValueDescriptorProto{
		{Name: proto.String("E_ZERO"), Number: proto.Int32(0)}, {Name: proto.String("E_ONE"), Number: proto.Int32(1)}, {Name: proto.String("E_NEG"), Number: proto.Int32(-5)}}}
	sub := &descriptorpb.DescriptorProto{Name: proto.String("Sub")}
	msg := &descriptorpb.DescriptorProto{Name: proto.String("M"), EnumType: []*descriptorpb.EnumDescriptorProto{en}, NestedType: []*descriptorpb.DescriptorProto{sub}}
	if !proto3 {
		msg.ExtensionRange = []*descriptorpb.DescriptorProto_ExtensionRange{{Start: proto.Int32(1000), End: proto.Int32(2000)}}
	}
	hasOneof := c.Bool()
	if hasOneof {
		msg.OneofDecl = []*descriptorpb.OneofDescriptorProto{{Name: proto.String("choice")}}
	}
	types := []descriptorpb.FieldDescriptorProto_Type{1, 2, 3, 4, 5, 6, 7, 8, 9, 11, 12, 13, 14, 15, 16, 17, 18}
	names := map[string]bool{}
	jsons := map[string]bool{}
	nfields := 1 + c.Intn(8)
	mkField := func(i int, ext bool) *descriptorpb.FieldDescriptorProto {
		name := legacyIdent(c)
		for names[strings.ToLower(name)] || jsons[strings.ToLower(strings.ReplaceAll(name, "_", ""))] {
			name += fmt.Sprint(i)
		}
		names[strings.ToLower(name)] = true
		jsons[strings.ToLower(strings.ReplaceAll(name, "_", ""))] = true
		f := &descriptorpb.FieldDescriptorProto{Name: proto.String(name)}
		num := int32(1 + i)
		switch c.Intn(6) {
		case 0:
			num = int32(100+c.Intn(800)) + int32(i)*1000
			if num >= 1000 && !ext {
				num = 20000 + int32(i)
			}
		case 1:
			num = 1<<29 - 1 - int32(i)
		}
		if ext {
			num = 1000 + int32(c.Intn(900)) + int32(i)
			f.Extendee = proto.String(".verif.tagp.M")
		}
		f.Number = proto.Int32(num)
		t := types[c.Intn(len(types))]
		f.Type = t.Enum()
		switch t {
		case descriptorpb.FieldDescriptorProto_TYPE_MESSAGE:
			f.TypeName = proto.String(".verif.tagp.M.Sub")
		case descriptorpb.FieldDescriptorProto_TYPE_ENUM:
			f.TypeName = proto.String(".verif.tagp.M.E")
		}
		scalar := t != descriptorpb.FieldDescriptorProto_TYPE_MESSAGE
		packable := scalar && t != descriptorpb.FieldDescriptorProto_TYPE_STRING && t != descriptorpb.FieldDescriptorProto_TYPE_BYTES
		switch k := c.Intn(6); {
		case k < 2:
			f.Label = descriptorpb.FieldDescriptorProto_LABEL_REPEATED.Enum()
			if packable && c.Intn(2) == 0 {
				f.Options = &descriptorpb.FieldOptions{Packed: proto.Bool(c.Intn(3) != 0)}
			}
		case k == 2 && !proto3 && !ext:
			f.Label = descriptorpb.FieldDescriptorProto_LABEL_REQUIRED.Enum()
		default:
			f.Label = descriptorpb.FieldDescriptorProto_LABEL_OPTIONAL.Enum()
			if hasOneof && !ext && c.Intn(4) == 0 {
				f.OneofIndex = proto.Int32(0)
			} else if !proto3 && scalar && c.Intn(3) == 0 {
				switch t {
				case descriptorpb.FieldDescriptorProto_TYPE_BOOL:
					f.DefaultValue = proto.String([]string{"true", "false"}[c.Intn(2)])
				case descriptorpb.FieldDescriptorProto_TYPE_STRING:
					f.DefaultValue = proto.String([]string{"", "a,b", "x,def=1,name=q", "hello, \"world!\"\n", "é", ",", "proto3"}[c.Intn(7)])
				case descriptorpb.FieldDescriptorProto_TYPE_BYTES:
					f.DefaultValue = proto.String([]string{"", "dead\\336\\255beef", "a,b"}[c.Intn(3)])
				case descriptorpb.FieldDescriptorProto_TYPE_ENUM:
					f.DefaultValue = proto.String([]string{"E_ZERO", "E_ONE", "E_NEG"}[c.Intn(3)])
				case descriptorpb.FieldDescriptorProto_TYPE_FLOAT, descriptorpb.FieldDescriptorProto_TYPE_DOUBLE:
					f.DefaultValue = proto.String([]string{"0", "-1.5", "inf", "-inf", "nan", "3.14159", "1e+20"}[c.Intn(7)])
				case descriptorpb.FieldDescriptorProto_TYPE_UINT32, descriptorpb.FieldDescriptorProto_TYPE_UINT64, descriptorpb.FieldDescriptorProto_TYPE_FIXED32, descriptorpb.FieldDescriptorProto_TYPE_FIXED64:
					f.DefaultValue = proto.String([]string{"0", "1", "4294967295"}[c.Intn(3)])
				default:
					f.DefaultValue = proto.String([]string{"0", "-1", "2147483647", "-2147483648"}[c.Intn(4)])
				}
			}
		}
		if !ext {
			switch c.Intn(5) {
			case 0: // a custom json name
				j := "j" + legacyIdent(c) + fmt.Sprint(i)
				if !jsons[strings.ToLower(j)] {
					jsons[strings.ToLower(j)] = true
					f.JsonName = proto.String(j)
				}
			case 1: // json_name spelled like the field name
				f.JsonName = proto.String(name)
			}
		}
		return f
	}
	for i := 0; i < nfields; i++ {
		msg.Field = append(msg.Field, mkField(i, false))
	}
	if hasOneof {
		any := false
		for _, f := range msg.Field {
			any = any || f.OneofIndex != nil
		}
		if !any {
			msg.OneofDecl = nil
		}
	}
	// a group (proto2)
	if !proto3 && c.Intn(2) == 0 {
		gname := strings.ToUpper(string(rune('a'+c.Intn(26)))) + legacyIdent(c) + "g"
		if !names[strings.ToLower(gname)] {
			names[strings.ToLower(gname)] = true
			msg.NestedType = append(msg.NestedType, &descriptorpb.DescriptorProto{Name: proto.String(gname)})
			lbl := descriptorpb.FieldDescriptorProto_LABEL_OPTIONAL
			if c.Bool() {
				lbl = descriptorpb.FieldDescriptorProto_LABEL_REPEATED
			}
			msg.Field = append(msg.Field, &descriptorpb.FieldDescriptorProto{
				Name: proto.String(strings.ToLower(gname)), Number: proto.Int32(int32(30000 + c.Intn(1000))),
				Label: lbl.Enum(), Type: descriptorpb.FieldDescriptorProto_TYPE_GROUP.Enum(),
				TypeName: proto.String(".verif.tagp.M." + gname),
			})
		}
	}
	fdp.MessageType = []*descriptorpb.DescriptorProto{msg}
	if !proto3 {
		for i, n := 0, c.Intn(3); i < n; i++ {
			fdp.Extension = append(fdp.Extension, mkField(100+i, true))
		}
	}
	fd, err := protodesc.NewFile(fdp, new(protoregistry.Files))
	if err != nil {
		c.Stat("tag:random-file-rejected")
		return nil
	}
	return fd
}

// segments in odd arrangements
func legacyRandomTag(c *Ctx) string {
	words := []string{"varint", "zigzag32", "zigzag64", "fixed32", "fixed64", "bytes", "group", "opt", "req", "rep",
		"packed", "proto3", "oneof", "weak", "", "0", "1", "007", "536870911", "2147483647", "2147483648", "4294967295",
		"4294967296", "99999999999999999999999", "name=", "name=a", "name=foo_bar", "name=a.b.c_d", "name=OptionalGroup", "name=_x_y",
		"json=", "json=a", "json=fooBar", "json=foo_bar", "json=cD", "json=OptionalGroup", "json=optionalgroup", "json=XY",
		"enum=", "enum=pkg.E", "embedded=x", "Varint", "opt ", " rep", "name", "json", "def", "1x", "-1", "+1"}
	var segs []string
	for i, n := 0, c.Intn(9); i < n; i++ {
		switch c.Intn(12) {
		case 0:
			segs = append(segs, "name="+legacyIdent(c))
		case 1:
			segs = append(segs, "json="+legacyIdent(c))
		case 2:
			segs = append(segs, fmt.Sprint(c.Intn(1<<20)))
		default:
			segs = append(segs, words[c.Intn(len(words))])
		}
	}
	if c.Intn(4) == 0 {
		segs = append(segs, "def="+[]string{"", "1", "a,b", "x,name=q,7", "true", "hello", "-5"}[c.Intn(7)])
		if c.Intn(4) == 0 {
			segs = append(segs, "name=after")
		}
	}
	return strings.Join(segs, ",")
}

// derive op: a struct type with one tagged field, made on the fly, goes through
// aberrantLoadMessageDesc / aberrantAppendField
//
//	derive <p|s|v> <gokind> <parent full name> <tag> | <full name> <number> <card> <kind> <json> <ispacked> <message is proto3> <presence>
func legacyOpDerive(c *Ctx, shape string, gk int, tag string) {
	et := legacyGoKinds[gk].t
	ft := et
	switch shape {
	case "p":
		if et.Kind() == reflect.Ptr || et.Kind() == reflect.Slice {
			return // *[]byte and **T do not occur in generated code
		}
		ft = reflect.PtrTo(et)
	case "s":
		ft = reflect.SliceOf(et)
	}
	defer func() {
		if r := recover(); r != nil {
			c.PropFail("C46", fmt.Sprintf("deriving a descriptor from a struct tag panics: %v", r), shape, legacyGoKinds[gk].name, HexB([]byte(tag)))
		}
	}()
	st := reflect.StructOf([]reflect.StructField{{
		Name: "F", Type: ft, Tag: reflect.StructTag("protobuf:" + strconv.Quote(tag)),
	}})
	if got := st.Field(0).Tag.Get("protobuf"); got != tag {
		return // not expressible as a struct tag
	}
	md := impl.LegacyLoadMessageDesc(reflect.PtrTo(st))
	if md.Fields().Len() != 1 {
		if tag != "" {
			c.PropFail("C46", "a tagged struct field gives no derived field", HexB([]byte(tag)))
		}
		return
	}
	fd := md.Fields().Get(0)
	obs := []string{
		// (the derived message name contains the address of the Go type: replaced by "P")
		HexB([]byte("P" + strings.TrimPrefix(string(fd.FullName()), string(md.FullName())))), HexZ(int64(fd.Number())),
		HexN(uint64(fd.Cardinality())), HexN(uint64(fd.Kind())),
		HexB([]byte(fd.JSONName())), Tok(fd.IsPacked()), Tok(md.Syntax() == protoreflect.Proto3), Tok(fd.HasPresence()),
	}
	c.Case("legacy", "derive", []string{shape, legacyGoKinds[gk].name, HexB([]byte("P")), HexB([]byte(tag))}, obs)
	c.Stat("derive")
	// the field agrees with what tag.Unmarshal alone says (the model compares both)
	if (fd.Kind() == protoreflect.MessageKind || fd.Kind() == protoreflect.GroupKind) && fd.Message() == nil {
		c.PropFail("C46", "derived message field without a message descriptor", HexB([]byte(tag)))
	}
	if fd.Kind() == protoreflect.EnumKind && fd.Enum() == nil {
		c.PropFail("C46", "derived enum field without an enum descriptor", HexB([]byte(tag)))
	}
}

func famLegacyTags(c *Ctx) {
	legacyTagCorpus(c)
	// hand-picked tags
	for _, tg := range []string{"", ",", ",,", "varint,1,opt,name=f", "name=f,json=f", "name=foo_bar,json=fooBar", "json=fooBar,name=foo_bar",
		"group,1,opt,name=OptionalGroup,json=optionalgroup", "group,1,opt,name=OptionalGroup,json=OptionalGroup",
		"bytes,9,opt,name=s,def=a,b,c", "bytes,9,opt,name=s,def=", "bytes,9,opt,def=x,name=s", "varint,1,rep,name=f,proto3",
		"varint,1,rep,packed,name=f", "4294967296,name=f", "1,,name=f", "varint,5,opt,name=e,enum=p.E,def=1"} {
		for gi, g := range legacyGoKinds {
			legacyOpUntag(c, tg, g.t, g.name == "string" && strings.HasPrefix(tg, "bytes"))
			for _, sh := range []string{"p", "s", "v"} {
				if !strings.Contains(tg, "enum=") {
					legacyOpDerive(c, sh, gi, tg)
				}
			}
		}
	}
	n := c.N / 4
	for i := 0; i < n; i++ {
		switch c.Intn(3) {
		case 0:
			fd := legacyRandomFile(c)
			if fd == nil {
				continue
			}
			c.Stat("tag:random-file")
			md := fd.Messages().Get(0)
			for j := 0; j < md.Fields().Len(); j++ {
				f := md.Fields().Get(j)
				en := ""
				if f.Kind() == protoreflect.EnumKind && c.Intn(8) != 0 {
					en = "verif.tagp.M_E"
				}
				legacyTagRoundTrip(c, f, en)
			}
			for j := 0; j < fd.Extensions().Len(); j++ {
				f := fd.Extensions().Get(j)
				en := ""
				if f.Kind() == protoreflect.EnumKind {
					en = "verif.tagp.M_E"
				}
				legacyTagRoundTrip(c, f, en)
			}
		default:
			tg := legacyRandomTag(c)
			gi := c.Intn(len(legacyGoKinds))
			legacyOpUntag(c, tg, legacyGoKinds[gi].t, false)
			if !strings.Contains(tg, "enum=") || legacyGoKinds[gi].name == "int32" {
				legacyOpDerive(c, []string{"p", "s", "v"}[c.Intn(3)], gi, tg)
			}
		}
	}
}
