//go:build verif

package main

// tag / untag C lines of family "legacy" (filled in below)
func famLegacyTags(c *Ctx) {}
